package main

// Concretization tables: abstract class of the specification -> concrete representatives
// (several per class, boundary values included), and the inverse (concrete decoded value ->
// class).  The inverse only knows what a FAITHFUL encoding can decode to; anything else is
// reported as "?<rendering>" and therefore differs from every class of the specification.

import (
	"encoding/hex"
	"fmt"
	"math"
	"math/rand"
	"sort"
	"strings"
	"time"

	"go.opentelemetry.io/otel/attribute"
	"go.opentelemetry.io/otel/log"
	commonpb "go.opentelemetry.io/proto/otlp/common/v1"
)

func harnessBug(format string, a ...any) {
	panic(fmt.Sprintf("harness: "+format, a...))
}

func unk(r string) string {
	if len(r) > 120 {
		r = r[:120] + "..."
	}
	return "?" + r
}

// ---------------------------------------------------------------- strings

var strClass = map[string]map[string]string{
	"name":    {"n1": "span-one", "n2": "span-two", "n0": "", "nuni": "спан/世界 😀", "nmix": "GET /Users/{ID}"},
	"zname":   {"n1": "span-one", "n2": "span-two", "n0": "", "nuni": "спан/世界 😀", "nmixlow": "get /users/{id}"},
	"msg":     {"m1": "boom", "m2": "other failure: é", "m0": ""},
	"ename":   {"e1": "event-one", "e2": "event-two", "e0": ""},
	"ts":      {"ts1": "k1=v1,k2=v2", "ts0": ""},
	"ru":      {"ru0": "", "ru1": "https://example.com/schemas/res/1.0", "ru2": "https://example.com/schemas/res/2.0"},
	"su":      {"su0": "", "su1": "https://example.com/schemas/scope/1.0", "su2": "https://example.com/schemas/scope/2.0"},
	"sn":      {"sn0": "", "sn1": "scope/one", "sn2": "scope/two", "sndef": "go.opentelemetry.io/otel/sdk/tracer"},
	"sv":      {"sv0": "", "sv1": "1.0.0", "sv2": "2.0.0"},
	"desc":    {"d1": "a description", "d0": ""},
	"unit":    {"u1": "ms", "u0": ""},
	"sevtext": {"st1": "SEVTXT", "st0": ""},
	"event":   {"ev1": "event.name", "ev0": ""},
}

func concStr(field, class string) string {
	v, ok := strClass[field][class]
	if !ok {
		harnessBug("no concretization for %s class %q", field, class)
	}
	return v
}

func absStr(field, v string) string {
	for c, s := range strClass[field] {
		if s == v {
			return c
		}
	}
	return unk(fmt.Sprintf("%q", v))
}

// ---------------------------------------------------------------- enumerations

var kindNames = []string{"unspecified", "internal", "server", "client", "producer", "consumer"}
var codeNames = []string{"unset", "error", "ok"}

// ---------------------------------------------------------------- times

var (
	tBase = time.Unix(1700000000, 123456789)
	// a second location: the instant, not the wall clock reading, is what must be carried
	locPlus = time.FixedZone("plus0530", 5*3600+1800)
)

var timeReps = map[string][]time.Time{
	"t1":     {tBase, tBase.In(locPlus)},
	"t2":     {tBase.Add(1500*time.Millisecond + 7), tBase.Add(1500*time.Millisecond + 7).In(locPlus)},
	"t3":     {tBase.Add(time.Hour + 11)},
	"tfar":   {time.Unix(0, math.MaxInt64), time.Unix(0, math.MaxInt64-1)},
	"tzero":  {{}},
	"tpre":   {time.Unix(-1, 0), time.Unix(0, -1), time.Date(1900, 1, 2, 3, 4, 5, 6, time.UTC), time.Unix(0, math.MinInt64)},
	"tepoch": {time.Unix(0, 0), time.Unix(0, 0).In(locPlus)},
}
var timeOut = map[uint64]string{0: "unix0"}

// Zipkin times: whole microseconds, except tsub
var zTimeReps = map[string][]time.Time{
	"t1":   {time.Unix(1700000000, 123456000), time.Unix(1700000000, 123456000).In(locPlus)},
	"t2":   {time.Unix(1700000001, 623457000)},
	"t3":   {time.Unix(1700003600, 1000)},
	"tsub": {time.Unix(1700000002, 123456700)},
}
var zTimeOut = map[int64]string{1700000002123457: "tsubr"}
var zDurReps = map[string][]time.Duration{
	"d1ms":   {time.Millisecond},
	"d0":     {0},
	"dsub":   {300 * time.Nanosecond, 1 * time.Nanosecond, 999 * time.Nanosecond},
	"dround": {1500 * time.Nanosecond},
	"dbig":   {36*time.Hour + 5*time.Microsecond},
	"d1us":   {time.Microsecond},
}
var zDurOut = map[int64]string{2: "droundr"}

func init() {
	for _, c := range []string{"t1", "t2", "t3", "tfar"} {
		for _, t := range timeReps[c] {
			timeOut[uint64(t.UnixNano())] = c
		}
	}
	for _, c := range []string{"t1", "t2", "t3"} {
		for _, t := range zTimeReps[c] {
			zTimeOut[t.UnixNano()/1000] = c
		}
	}
	for _, c := range []string{"d1ms", "d0", "dbig", "d1us"} {
		for _, d := range zDurReps[c] {
			zDurOut[int64(d/time.Microsecond)] = c
		}
	}
}

func pick[T any](r *rand.Rand, reps []T, what, class string) T {
	if len(reps) == 0 {
		harnessBug("no concretization for %s class %q", what, class)
	}
	return reps[r.Intn(len(reps))]
}

func concTime(r *rand.Rand, class string) time.Time { return pick(r, timeReps[class], "time", class) }
func absTime(u uint64) string {
	if c, ok := timeOut[u]; ok {
		return c
	}
	return unk(fmt.Sprint(u))
}

// ---------------------------------------------------------------- 32-bit dropped counts

var countReps = map[string][]int{
	"c0": {0}, "c1": {1}, "c2": {2}, "c3": {3},
	"cmax32": {math.MaxUint32},
	"cbig":   {math.MaxUint32 + 1, math.MaxUint32 + 6, math.MaxInt64},
}
var countOut = map[uint32]string{0: "c0", 1: "c1", 2: "c2", 3: "c3", math.MaxUint32: "cmax32"}

func concCount(r *rand.Rand, class string) int { return pick(r, countReps[class], "count", class) }
func absCount(u uint32) string {
	if c, ok := countOut[u]; ok {
		return c
	}
	return unk(fmt.Sprint(u))
}

// ---------------------------------------------------------------- ids

var tidPrefix = map[string][14]byte{
	"plain":   {0x11, 0x22, 0x33, 0x44, 0x55, 0x66, 0x77, 0x88, 0x99, 0xaa, 0xbb, 0xcc, 0xdd, 0xee},
	"hibit":   {0xff, 0xfe, 0xfd, 0xfc, 0xfb, 0xfa, 0xf9, 0xf8, 0xf7, 0xf6, 0xf5, 0xf4, 0xf3, 0xf2},
	"lowzero": {0, 0, 0, 0, 0, 0, 0, 0, 0, 0x01, 0x02, 0x03, 0x04, 0x05},
}
var sidPrefix = map[string][6]byte{
	"plain":   {0xa1, 0xa2, 0xa3, 0xa4, 0xa5, 0xa6},
	"hibit":   {0xff, 0xf1, 0xf2, 0xf3, 0xf4, 0xf5},
	"lowzero": {0, 0, 0, 0, 0x07, 0x08},
}
var parentPrefix = [6]byte{0xb1, 0xb2, 0xb3, 0xb4, 0xb5, 0xb6}

// link targets k1 / k2 use their own number space
var linkNum = map[string]int{"k1": 0x7001, "k2": 0x7002}

func mkTID(idc string, n int) (t [16]byte) {
	if idc == "zero" {
		return
	}
	p, ok := tidPrefix[idc]
	if !ok {
		harnessBug("id class %q", idc)
	}
	copy(t[:], p[:])
	t[14], t[15] = byte(n>>8), byte(n)
	return
}

func mkSID(idc string, n int) (s [8]byte) {
	if idc == "zero" {
		return
	}
	p, ok := sidPrefix[idc]
	if !ok {
		harnessBug("id class %q", idc)
	}
	copy(s[:], p[:])
	s[6], s[7] = byte(n>>8), byte(n)
	return
}

func mkParent(n int) (s [8]byte) {
	copy(s[:], parentPrefix[:])
	s[6], s[7] = byte(n>>8), byte(n)
	return
}

func absTID(b []byte) (string, int) {
	if len(b) != 16 {
		return unk(hex.EncodeToString(b)), -1
	}
	for c, p := range tidPrefix {
		if string(b[:14]) == string(p[:]) {
			return c, int(b[14])<<8 | int(b[15])
		}
	}
	if string(b) == string(make([]byte, 16)) {
		return "zero", 0
	}
	return unk(hex.EncodeToString(b)), -1
}

func absSID(b []byte) (string, int) {
	if len(b) != 8 {
		return unk(hex.EncodeToString(b)), -1
	}
	for c, p := range sidPrefix {
		if string(b[:6]) == string(p[:]) {
			return c, int(b[6])<<8 | int(b[7])
		}
	}
	if string(b) == string(make([]byte, 8)) {
		return "zero", 0
	}
	return unk(hex.EncodeToString(b)), -1
}

// absIDs: class and number of a (trace id, span id) pair; both must agree
func absIDs(tid, sid []byte) (string, int) {
	tc, tn := absTID(tid)
	sc, sn := absSID(sid)
	if tc == sc && tn == sn {
		return tc, tn
	}
	return unk(hex.EncodeToString(tid) + "/" + hex.EncodeToString(sid)), -1
}

// ---------------------------------------------------------------- attribute values: neutral rendering

func fbits(f float64) string { return fmt.Sprintf("f:%016x", math.Float64bits(f)) }

func renderAttrValue(v attribute.Value) string {
	switch v.Type() {
	case attribute.BOOL:
		return fmt.Sprintf("b:%v", v.AsBool())
	case attribute.INT64:
		return fmt.Sprintf("i:%d", v.AsInt64())
	case attribute.FLOAT64:
		return fbits(v.AsFloat64())
	case attribute.STRING:
		return fmt.Sprintf("s:%q", v.AsString())
	case attribute.BOOLSLICE:
		var p []string
		for _, x := range v.AsBoolSlice() {
			p = append(p, fmt.Sprintf("b:%v", x))
		}
		return "[" + strings.Join(p, ",") + "]"
	case attribute.INT64SLICE:
		var p []string
		for _, x := range v.AsInt64Slice() {
			p = append(p, fmt.Sprintf("i:%d", x))
		}
		return "[" + strings.Join(p, ",") + "]"
	case attribute.FLOAT64SLICE:
		var p []string
		for _, x := range v.AsFloat64Slice() {
			p = append(p, fbits(x))
		}
		return "[" + strings.Join(p, ",") + "]"
	case attribute.STRINGSLICE:
		var p []string
		for _, x := range v.AsStringSlice() {
			p = append(p, fmt.Sprintf("s:%q", x))
		}
		return "[" + strings.Join(p, ",") + "]"
	}
	return "invalid"
}

func renderKVs(kvs []attribute.KeyValue) string {
	p := make([]string, len(kvs))
	for i, kv := range kvs {
		p[i] = fmt.Sprintf("%q=%s", string(kv.Key), renderAttrValue(kv.Value))
	}
	sort.Strings(p)
	return strings.Join(p, ";")
}

func renderPBValue(v *commonpb.AnyValue) string {
	if v == nil || v.Value == nil {
		return "_"
	}
	switch x := v.Value.(type) {
	case *commonpb.AnyValue_BoolValue:
		return fmt.Sprintf("b:%v", x.BoolValue)
	case *commonpb.AnyValue_IntValue:
		return fmt.Sprintf("i:%d", x.IntValue)
	case *commonpb.AnyValue_DoubleValue:
		return fbits(x.DoubleValue)
	case *commonpb.AnyValue_StringValue:
		return fmt.Sprintf("s:%q", x.StringValue)
	case *commonpb.AnyValue_BytesValue:
		return "y:" + hex.EncodeToString(x.BytesValue)
	case *commonpb.AnyValue_ArrayValue:
		var p []string
		for _, e := range x.ArrayValue.GetValues() {
			p = append(p, renderPBValue(e))
		}
		return "[" + strings.Join(p, ",") + "]"
	case *commonpb.AnyValue_KvlistValue:
		return "{" + renderPBKVs(x.KvlistValue.GetValues()) + "}"
	}
	return "unknown-oneof"
}

func renderPBKVs(kvs []*commonpb.KeyValue) string {
	p := make([]string, len(kvs))
	for i, kv := range kvs {
		p[i] = fmt.Sprintf("%q=%s", kv.GetKey(), renderPBValue(kv.GetValue()))
	}
	sort.Strings(p)
	return strings.Join(p, ";")
}

func renderLogValue(v log.Value) string {
	switch v.Kind() {
	case log.KindEmpty:
		return "_"
	case log.KindBool:
		return fmt.Sprintf("b:%v", v.AsBool())
	case log.KindInt64:
		return fmt.Sprintf("i:%d", v.AsInt64())
	case log.KindFloat64:
		return fbits(v.AsFloat64())
	case log.KindString:
		return fmt.Sprintf("s:%q", v.AsString())
	case log.KindBytes:
		return "y:" + hex.EncodeToString(v.AsBytes())
	case log.KindSlice:
		var p []string
		for _, e := range v.AsSlice() {
			p = append(p, renderLogValue(e))
		}
		return "[" + strings.Join(p, ",") + "]"
	case log.KindMap:
		return "{" + renderLogKVs(v.AsMap()) + "}"
	}
	return "invalid"
}

func renderLogKVs(kvs []log.KeyValue) string {
	p := make([]string, len(kvs))
	for i, kv := range kvs {
		p[i] = fmt.Sprintf("%q=%s", kv.Key, renderLogValue(kv.Value))
	}
	sort.Strings(p)
	return strings.Join(p, ";")
}

// ---------------------------------------------------------------- attribute lists / sets

var longUni = strings.Repeat("é世😀a", 2500)

func manyAttrs(n int) []attribute.KeyValue {
	out := make([]attribute.KeyValue, n)
	for i := range out {
		out[i] = attribute.Int(fmt.Sprintf("k%03d", i), i*i)
	}
	return out
}

// class -> representatives; family "list" = span/event/link/exemplar attributes,
// "ra" resource, "sa" scope, "dp" data point attribute sets
var attrReps = map[string]map[string][][]attribute.KeyValue{
	"list": {
		"an": {nil},
		"ae": {{}},
		"a1": {{attribute.String("only", "one")}},
		"a8": {{
			attribute.Bool("k.b", true), attribute.Int64("k.i", 42), attribute.Float64("k.f", 2.5), attribute.String("k.s", "str"),
			attribute.BoolSlice("k.bs", []bool{true, false}), attribute.Int64Slice("k.is", []int64{1, 2, 3}),
			attribute.Float64Slice("k.fs", []float64{1.5, 2.5}), attribute.StringSlice("k.ss", []string{"x", "y"}),
		}},
		"a8b": {{
			attribute.Bool("k.b", false), attribute.Int64("k.i", -7), attribute.Float64("k.f", -0.125), attribute.String("k.s", "other"),
			attribute.BoolSlice("k.bs", []bool{false}), attribute.Int64Slice("k.is", []int64{-1}),
			attribute.Float64Slice("k.fs", []float64{0.25}), attribute.StringSlice("k.ss", []string{"y", "x"}),
		}},
		"abound": {{
			attribute.Int64("i.max", math.MaxInt64), attribute.Int64("i.min", math.MinInt64),
			attribute.Float64("f.nan", math.NaN()), attribute.Float64("f.inf", math.Inf(1)), attribute.Float64("f.ninf", math.Inf(-1)),
			attribute.Float64("f.negzero", math.Copysign(0, -1)), attribute.Float64("f.max", math.MaxFloat64),
			attribute.Float64("f.tiny", math.SmallestNonzeroFloat64),
			attribute.String("s.empty", ""), attribute.String("s.long", longUni), attribute.String("s.nul", "a\x00b"),
			attribute.String("ключ/世", "unicode key"),
			attribute.BoolSlice("bs.empty", []bool{}), attribute.Int64Slice("is.nil", nil),
			attribute.Float64Slice("fs.special", []float64{math.NaN(), math.Inf(1), math.Copysign(0, -1)}),
			attribute.StringSlice("ss.mixed", []string{"", "é世😀"}),
			attribute.Int64Slice("is.extreme", []int64{math.MaxInt64, math.MinInt64, 0}),
		}},
		"along": {manyAttrs(130)},
	},
	"ra": {
		"ra0": {nil},
		"ra1": {{attribute.String("service.name", "svc-a"), attribute.Int("res.i", 1), attribute.BoolSlice("res.bs", []bool{true})}},
		"ra2": {{attribute.String("service.name", "svc-b"), attribute.Int("res.i", 2), attribute.Float64("res.f", 0.5)}},
	},
	"sa": {
		"sa0": {nil},
		"sa1": {{attribute.String("scope.k", "v1"), attribute.Int("scope.n", 1)}},
		"sa2": {{attribute.String("scope.k", "v2")}},
	},
	"dp": {
		"dp0": {nil},
		"dp1": {{attribute.String("dp", "1"), attribute.String("kind", "a")}},
		"dp2": {{attribute.String("dp", "2")}},
		"dp3": {{attribute.String("dp", "3"), attribute.Int64Slice("x", []int64{1, 2})}},
		"dp4": {{attribute.String("dp", "4"), attribute.Bool("y", true)}},
		"dpbound": {{attribute.String("dp", "b"), attribute.Int64("i.max", math.MaxInt64), attribute.Float64("f.negzero", math.Copysign(0, -1)),
			attribute.String("s.empty", ""), attribute.Float64Slice("fs", []float64{math.Inf(-1)})}},
	},
}

// classes that exist only on the input side (the data model cannot tell them from another class)
var attrInOnly = map[string]bool{"ae": true}

var attrRev = map[string]map[string]string{}

func init() {
	for fam, classes := range attrReps {
		attrRev[fam] = map[string]string{}
		for c, reps := range classes {
			if attrInOnly[c] {
				continue
			}
			for _, kvs := range reps {
				r := renderKVs(kvs)
				if o, dup := attrRev[fam][r]; dup && o != c {
					harnessBug("attribute classes %s and %s of %s have the same rendering", o, c, fam)
				}
				attrRev[fam][r] = c
			}
		}
	}
}

func concAttrs(r *rand.Rand, fam, class string) []attribute.KeyValue {
	kvs := pick(r, attrReps[fam][class], fam, class)
	if kvs == nil {
		return nil
	}
	out := make([]attribute.KeyValue, len(kvs)) // own copy: nobody shares backing arrays
	copy(out, kvs)
	if fam == "list" && len(out) > 1 && r.Intn(2) == 0 {
		r.Shuffle(len(out), func(i, j int) { out[i], out[j] = out[j], out[i] }) // list order is not part of the class
	}
	return out
}

func absAttrs(fam string, kvs []*commonpb.KeyValue) string {
	r := renderPBKVs(kvs)
	if c, ok := attrRev[fam][r]; ok {
		return c
	}
	return unk(r)
}

// ---------------------------------------------------------------- log values

func deepValue(n int) log.Value {
	v := log.StringValue("bottom")
	for i := 0; i < n; i++ {
		if i%2 == 0 {
			v = log.SliceValue(v, log.Int64Value(int64(i)))
		} else {
			v = log.MapValue(log.KeyValue{Key: fmt.Sprintf("l%d", i), Value: v})
		}
	}
	return v
}

var bodyReps = map[string][]log.Value{
	"bempty":      {{}},
	"bstr":        {log.StringValue("the body")},
	"bint":        {log.Int64Value(-42)},
	"bfloat":      {log.Float64Value(2.5)},
	"bbool":       {log.BoolValue(true)},
	"bbytes":      {log.BytesValue([]byte{0, 1, 0xff})},
	"bslice":      {log.SliceValue(log.StringValue("a"), log.Int64Value(1), log.BoolValue(false))},
	"bmap":        {log.MapValue(log.String("k1", "v"), log.Int64("k2", 2))},
	"bnested":     {log.MapValue(log.Slice("a", log.MapValue(log.Bytes("b", []byte{1, 2})), log.Float64Value(0.5)), log.Map("c"), log.Map("d", log.Slice("e")))},
	"bdeep":       {deepValue(40), deepValue(12)},
	"bemptyslice": {log.SliceValue()},
	"bemptymap":   {log.MapValue()},
	"bmapempty":   {log.MapValue(log.Empty("e"), log.Int64("x", 1))},
	"bnan":        {log.Float64Value(math.NaN())},
	"bemptystr":   {log.StringValue("")},
	"bbound": {log.SliceValue(log.Int64Value(math.MaxInt64), log.Int64Value(math.MinInt64), log.Float64Value(math.Inf(1)),
		log.Float64Value(math.Copysign(0, -1)), log.StringValue(longUni), log.BytesValue([]byte{}), log.StringValue("a\x00b"))},
}
var bodyRev = map[string]string{}

// log attribute classes WITHOUT the id attribute (it is added by the builder)
var logAttrReps = map[string][][]log.KeyValue{
	"laid":   {nil},
	"labare": {nil},
	"la7": {{log.String("a.s", "str"), log.Int64("a.i", 7), log.Float64("a.f", 0.75), log.Bool("a.b", true),
		log.Bytes("a.y", []byte{9, 8}), log.Slice("a.l", log.Int64Value(1), log.StringValue("two")),
		log.Map("a.m", log.String("in", "ner"), log.Slice("deep", log.BoolValue(true)))}},
	"lamany": {func() []log.KeyValue {
		out := make([]log.KeyValue, 12)
		for i := range out {
			out[i] = log.Int(fmt.Sprintf("m%02d", i), i*3)
		}
		return out
	}()},
	"laempty": {{log.Empty("a.empty"), log.String("a.s", "after")}},
	"labound": {{log.Int64("i.max", math.MaxInt64), log.Int64("i.min", math.MinInt64), log.Float64("f.nan", math.NaN()),
		log.Float64("f.ninf", math.Inf(-1)), log.String("s.empty", ""), log.String("s.long", longUni), log.Bytes("y.empty", []byte{}),
		log.Slice("l.empty"), log.Map("m.empty"), log.String("ключ", "v")}},
}
var logAttrRev = map[string]string{}

func init() {
	for c, reps := range bodyReps {
		for _, v := range reps {
			bodyRev[renderLogValue(v)] = c
		}
	}
	for c, reps := range logAttrReps {
		for _, kvs := range reps {
			pre := "id;"
			if c == "labare" {
				pre = ""
			}
			logAttrRev[pre+renderLogKVs(kvs)] = c
		}
	}
}

// ---------------------------------------------------------------- metric numbers

var intVals = map[string][]int64{"v1": {5}, "v2": {7}, "v0": {0}, "vmax": {math.MaxInt64}, "vmin": {math.MinInt64}}
var floatVals = map[string][]float64{
	"v1": {5.5}, "v2": {7.25}, "v0": {0}, "vmax": {math.MaxFloat64}, "vmin": {-math.MaxFloat64, math.SmallestNonzeroFloat64},
	"vnan": {math.NaN()}, "vinf": {math.Inf(1)}, "vninf": {math.Inf(-1)}, "vnegzero": {math.Copysign(0, -1)},
}
var intRev = map[int64]string{}
var floatRev = map[uint64]string{} // as_double of a float64 metric
var sumRev = map[uint64]string{}   // double sum of a histogram-like / summary point of either number type

func init() {
	for c, vs := range intVals {
		for _, v := range vs {
			intRev[v] = c
			sumRev[math.Float64bits(float64(v))] = c
		}
	}
	for c, vs := range floatVals {
		for _, v := range vs {
			floatRev[math.Float64bits(v)] = c
			sumRev[math.Float64bits(v)] = c
		}
	}
}

var cntReps = map[string][]uint64{"k5": {5}, "k0": {0}, "kmax": {math.MaxUint64, math.MaxUint64 - 1, 1 << 63}}
var cntRev = map[uint64]string{}

func init() {
	for c, vs := range cntReps {
		for _, v := range vs {
			cntRev[v] = c
		}
	}
}

func manyBounds(n int) ([]float64, []uint64) {
	b := make([]float64, n)
	c := make([]uint64, n+1)
	for i := range b {
		b[i] = float64(i) * 0.5
		c[i] = uint64(i * 7)
	}
	c[n] = 3
	return b, c
}

type histLay struct {
	bounds []float64
	counts []uint64
}
type expLay struct {
	scale      int32
	zc         uint64
	poff, noff int32
	pos, neg   []uint64
	zth        float64
}

var histLays = map[string]histLay{
	"L1": {[]float64{0, 5, 10}, []uint64{1, 2, 3, 4}},
	"L2": {nil, nil},
	"L3": {[]float64{-1e300, math.Copysign(0, -1), 1e300}, []uint64{math.MaxUint64, 0, 1, 2}},
	"L4": func() histLay { b, c := manyBounds(200); return histLay{b, c} }(),
	// OtlpModel!ZeroShape: zeros at the end / at the start / everywhere / no counts at all
	"L5": {[]float64{0, 5, 10}, []uint64{1, 0, 2, 0}},
	"L6": {[]float64{0, 5, 10}, []uint64{0, 0, 3, 4}},
	"L7": {[]float64{0, 5, 10}, []uint64{0, 0, 0, 0}},
	"L8": {[]float64{0, 5, 10}, []uint64{}},
}
var expLays = map[string]expLay{
	"L1": {scale: 3, zc: 2, poff: 1, pos: []uint64{1, 2}, noff: -3, neg: []uint64{4}},
	"L2": {},
	"L3": {scale: 20, zc: math.MaxUint64, poff: math.MaxInt32, pos: []uint64{math.MaxUint64}, noff: math.MinInt32, neg: []uint64{0, 0, 1}},
	"L4": {scale: -10, zc: 1, poff: -5, pos: []uint64{1}, zth: 0.25},
	// OtlpModel!ZeroShape: zeros at the end / at the start / everywhere (non-zero offset) / empty (non-zero offset)
	"L5": {scale: 2, zc: 1, poff: 2, pos: []uint64{1, 0, 2, 0, 0}, noff: -1, neg: []uint64{5, 0}},
	"L6": {scale: 2, zc: 0, poff: 3, pos: []uint64{0, 0, 3}, noff: 1, neg: []uint64{0, 7}},
	"L7": {scale: 1, zc: 4, poff: 4, pos: []uint64{0, 0, 0}, noff: -2, neg: []uint64{0}},
	"L8": {scale: 1, zc: 3, poff: 7, pos: []uint64{}, noff: -7, neg: nil},
}

func renderHistLay(bounds []float64, counts []uint64) string {
	var b []string
	for _, x := range bounds {
		b = append(b, fbits(x))
	}
	return fmt.Sprintf("b=%v;c=%v", b, counts)
}
func renderExpLay(scale int32, zc uint64, poff int32, pos []uint64, noff int32, neg []uint64, zth float64) string {
	if pos == nil {
		pos = []uint64{}
	}
	if neg == nil {
		neg = []uint64{}
	}
	return fmt.Sprintf("s=%d;zc=%d;p=%d%v;n=%d%v;zt=%s", scale, zc, poff, pos, noff, neg, fbits(zth))
}

var histLayRev = map[string]string{}
var expLayRev = map[string]string{}

func init() {
	for c, l := range histLays {
		histLayRev[renderHistLay(l.bounds, l.counts)] = c
	}
	for c, l := range expLays {
		expLayRev[renderExpLay(l.scale, l.zc, l.poff, l.pos, l.noff, l.neg, l.zth)] = c
	}
}

// optional min / max of a histogram-like point: (set?, value) per number type
type mmVal struct {
	hasMin, hasMax bool
	imin, imax     int64
	fmin, fmax     float64
}

var mmReps = map[string]mmVal{
	"mm1":   {true, true, 1, 9, 1.5, 9.5},
	"mm0":   {},
	"mmmin": {hasMin: true, imin: -3, fmin: -3.5},
	"mmx":   {true, true, math.MinInt64, math.MaxInt64, math.Inf(-1), math.Inf(1)},
}
var mmRev = map[string]string{}

func renderMM(min, max *float64) string {
	s := "min=_"
	if min != nil {
		s = "min=" + fbits(*min)
	}
	if max != nil {
		return s + ";max=" + fbits(*max)
	}
	return s + ";max=_"
}

func init() {
	for c, m := range mmReps {
		for _, isInt := range []bool{true, false} {
			var mn, mx *float64
			if m.hasMin {
				v := m.fmin
				if isInt {
					v = float64(m.imin)
				}
				mn = &v
			}
			if m.hasMax {
				v := m.fmax
				if isInt {
					v = float64(m.imax)
				}
				mx = &v
			}
			mmRev[renderMM(mn, mx)] = c
		}
	}
}

type quant struct{ q, v float64 }

var qReps = map[string][]quant{
	"q1": {{0.5, 1.5}, {0.99, 9.5}},
	"q0": nil,
	"qx": {{0, math.Inf(-1)}, {1, math.Inf(1)}, {0.5, math.NaN()}},
}
var qRev = map[string]string{}

func renderQ(qs []quant) string {
	var p []string
	for _, q := range qs {
		p = append(p, fbits(q.q)+"@"+fbits(q.v))
	}
	return strings.Join(p, ",")
}

func init() {
	for c, qs := range qReps {
		qRev[renderQ(qs)] = c
	}
}

var exSpanID = []byte{0xe1, 0xe2, 0xe3, 0xe4, 0xe5, 0xe6, 0xe7, 0xe8}
var exTraceID = []byte{0xd1, 0xd2, 0xd3, 0xd4, 0xd5, 0xd6, 0xd7, 0xd8, 0xd9, 0xda, 0xdb, 0xdc, 0xdd, 0xde, 0xdf, 0xd0}
