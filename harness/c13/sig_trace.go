package main

// Spans: abstract field vector -> tracetest.SpanStub snapshot (real ReadOnlySpan), and the
// projection of decoded OTLP ResourceSpans / Zipkin JSON back to the abstract vocabulary.

import (
	"encoding/hex"
	"encoding/json"
	"fmt"
	"math/rand"
	"strings"

	"go.opentelemetry.io/otel/attribute"
	"go.opentelemetry.io/otel/codes"
	"go.opentelemetry.io/otel/sdk/instrumentation"
	"go.opentelemetry.io/otel/sdk/resource"
	sdktrace "go.opentelemetry.io/otel/sdk/trace"
	"go.opentelemetry.io/otel/sdk/trace/tracetest"
	"go.opentelemetry.io/otel/trace"
	commonpb "go.opentelemetry.io/proto/otlp/common/v1"
	resourcepb "go.opentelemetry.io/proto/otlp/resource/v1"
	tracepb "go.opentelemetry.io/proto/otlp/trace/v1"
)

type EvFV struct {
	Name  string `json:"name"`
	Time  string `json:"time"`
	Attrs string `json:"attrs"`
	D     string `json:"d"`
}
type LkFV struct {
	Idc    string `json:"idc"`
	N      string `json:"n"`
	Attrs  string `json:"attrs"`
	D      string `json:"d"`
	Remote string `json:"remote"`
	Ts     string `json:"ts"`
}
type SpanFV struct {
	Idc    string `json:"idc"`
	Name   string `json:"name"`
	Kind   string `json:"kind"`
	Code   string `json:"code"`
	Msg    string `json:"msg"`
	Start  string `json:"start"`
	End    string `json:"end"`
	Parent string `json:"parent"`
	Ts     string `json:"ts"`
	Attrs  string `json:"attrs"`
	Da     string `json:"da"`
	De     string `json:"de"`
	Dl     string `json:"dl"`
	Events []EvFV `json:"events"`
	Links  []LkFV `json:"links"`
}
type ZipFV struct {
	Idc    string `json:"idc"`
	Name   string `json:"name"`
	Kind   string `json:"kind"`
	Start  string `json:"start"`
	Dur    string `json:"dur"`
	Parent string `json:"parent"`
	Code   string `json:"code"`
	Msg    string `json:"msg"`
}

// ZipOut: the projected Zipkin span (fields of OtlpModel!ExpZipkin)
type ZipOut struct {
	Idc    string `json:"idc"`
	Name   string `json:"name"`
	Kind   string `json:"kind"`
	Start  string `json:"start"`
	Dur    string `json:"dur"`
	Parent string `json:"parent"`
	Code   string `json:"code"`
	Msg    string `json:"msg"`
	Svc    string `json:"svc"`
	Sn     string `json:"sn"`
	Sv     string `json:"sv"`
}

// ---------------------------------------------------------------- resources and scopes

// World holds the resource / scope OBJECTS of one batch: one object per index, so equal keys
// under different indices are equal-but-distinct objects.
type World struct {
	tab *Tables
	rng *rand.Rand
	res map[string]*resource.Resource
	sc  map[string]instrumentation.Scope
}

func newWorld(tab *Tables, rng *rand.Rand) *World {
	return &World{tab: tab, rng: rng, res: map[string]*resource.Resource{}, sc: map[string]instrumentation.Scope{}}
}

func (w *World) resourceOf(idx string, allowNil bool) *resource.Resource {
	if r, ok := w.res[idx]; ok {
		return r
	}
	k, ok := w.tab.Res[idx]
	if !ok {
		harnessBug("unknown resource index %q", idx)
	}
	var r *resource.Resource
	attrs := concAttrs(w.rng, "ra", k.A)
	url := concStr("ru", k.U)
	switch {
	case idx == "R7" && allowNil:
		r = nil // absent resource
	case url == "":
		r = resource.NewSchemaless(attrs...)
	default:
		r = resource.NewWithAttributes(url, attrs...)
	}
	w.res[idx] = r
	return r
}

func (w *World) scopeOf(idx string) instrumentation.Scope {
	if s, ok := w.sc[idx]; ok {
		return s
	}
	k, ok := w.tab.Scopes[idx]
	if !ok {
		harnessBug("unknown scope index %q", idx)
	}
	s := instrumentation.Scope{Name: concStr("sn", k.N), Version: concStr("sv", k.V), SchemaURL: concStr("su", k.U)}
	if kvs := concAttrs(w.rng, "sa", k.A); len(kvs) > 0 {
		s.Attributes = attribute.NewSet(kvs...)
	}
	w.sc[idx] = s
	return s
}

func absResource(r *resourcepb.Resource, url string) ResKey {
	return ResKey{A: absAttrs("ra", r.GetAttributes()), U: absStr("ru", url)}
}

func absScope(s *commonpb.InstrumentationScope, url string) ScopeKey {
	return ScopeKey{N: absStr("sn", s.GetName()), V: absStr("sv", s.GetVersion()), U: absStr("su", url), A: absAttrs("sa", s.GetAttributes())}
}

// ---------------------------------------------------------------- build

func kindOf(c string) trace.SpanKind {
	for i, n := range kindNames {
		if n == c {
			return trace.SpanKind(i)
		}
	}
	harnessBug("span kind class %q", c)
	return 0
}

func codeOf(c string) codes.Code {
	switch c {
	case "unset":
		return codes.Unset
	case "error":
		return codes.Error
	case "ok":
		return codes.Ok
	}
	harnessBug("status code class %q", c)
	return 0
}

func traceState(c string) trace.TraceState {
	s := concStr("ts", c)
	ts, err := trace.ParseTraceState(s)
	if err != nil {
		harnessBug("tracestate %q: %v", s, err)
	}
	return ts
}

func parentOf(c string, n int, idc string, ts trace.TraceState) trace.SpanContext {
	switch c {
	case "none":
		return trace.SpanContext{}
	case "local", "remote":
		return trace.NewSpanContext(trace.SpanContextConfig{TraceID: mkTID(idc, n), SpanID: mkParent(n),
			TraceFlags: trace.FlagsSampled, Remote: c == "remote", TraceState: ts})
	}
	harnessBug("parent class %q", c)
	return trace.SpanContext{}
}

func buildSpan(w *World, it Item, fv SpanFV) sdktrace.ReadOnlySpan {
	r := w.rng
	st := tracetest.SpanStub{
		Name: concStr("name", fv.Name),
		SpanContext: trace.NewSpanContext(trace.SpanContextConfig{TraceID: mkTID(fv.Idc, it.ID), SpanID: mkSID(fv.Idc, it.ID),
			TraceFlags: trace.FlagsSampled, TraceState: traceState(fv.Ts)}),
		Parent:               parentOf(fv.Parent, it.ID, fv.Idc, trace.TraceState{}),
		SpanKind:             kindOf(fv.Kind),
		StartTime:            concTime(r, fv.Start),
		EndTime:              concTime(r, fv.End),
		Attributes:           concAttrs(r, "list", fv.Attrs),
		Status:               sdktrace.Status{Code: codeOf(fv.Code), Description: concStr("msg", fv.Msg)},
		DroppedAttributes:    concCount(r, fv.Da),
		DroppedEvents:        concCount(r, fv.De),
		DroppedLinks:         concCount(r, fv.Dl),
		ChildSpanCount:       it.ID,
		Resource:             w.resourceOf(it.R, true),
		InstrumentationScope: w.scopeOf(it.S),
		// the stub falls back to the (deprecated) library field for a scope without name, version and
		// schema URL: give it the same scope so that attributes-only scopes survive the snapshot
		InstrumentationLibrary: w.scopeOf(it.S),
	}
	for _, e := range fv.Events {
		st.Events = append(st.Events, sdktrace.Event{Name: concStr("ename", e.Name), Time: concTime(r, e.Time),
			Attributes: concAttrs(r, "list", e.Attrs), DroppedAttributeCount: concCount(r, e.D)})
	}
	for _, l := range fv.Links {
		n := linkNum[l.N]
		st.Links = append(st.Links, sdktrace.Link{
			SpanContext: trace.NewSpanContext(trace.SpanContextConfig{TraceID: mkTID(l.Idc, n), SpanID: mkSID(l.Idc, n),
				TraceState: traceState(l.Ts), Remote: l.Remote == "t"}),
			Attributes: concAttrs(r, "list", l.Attrs), DroppedAttributeCount: concCount(r, l.D)})
	}
	return st.Snapshot()
}

func buildSpans(w *World, batch []Item) []sdktrace.ReadOnlySpan {
	out := make([]sdktrace.ReadOnlySpan, len(batch))
	for i, it := range batch {
		var fv SpanFV
		mustJSON(it.FV, &fv)
		out[i] = buildSpan(w, it, fv)
	}
	return out
}

// Zipkin: the same real span type, fields outside the Zipkin clause at fixed values
func buildZipkinSpans(w *World, batch []Item) []sdktrace.ReadOnlySpan {
	r := w.rng
	out := make([]sdktrace.ReadOnlySpan, len(batch))
	for i, it := range batch {
		var fv ZipFV
		mustJSON(it.FV, &fv)
		start := pick(r, zTimeReps[fv.Start], "ztime", fv.Start)
		st := tracetest.SpanStub{
			Name: concStr("name", fv.Name),
			SpanContext: trace.NewSpanContext(trace.SpanContextConfig{TraceID: mkTID(fv.Idc, it.ID), SpanID: mkSID(fv.Idc, it.ID),
				TraceFlags: trace.FlagsSampled}),
			Parent:                 parentOf(fv.Parent, it.ID, fv.Idc, trace.TraceState{}),
			SpanKind:               kindOf(fv.Kind),
			StartTime:              start,
			EndTime:                start.Add(pick(r, zDurReps[fv.Dur], "zdur", fv.Dur)),
			Attributes:             concAttrs(r, "list", "a8"),
			Status:                 sdktrace.Status{Code: codeOf(fv.Code), Description: concStr("msg", fv.Msg)},
			Resource:               w.resourceOf(it.R, true),
			InstrumentationScope:   w.scopeOf(it.S),
			InstrumentationLibrary: w.scopeOf(it.S),
		}
		out[i] = st.Snapshot()
	}
	return out
}

// ---------------------------------------------------------------- project (OTLP)

func absKind(k tracepb.Span_SpanKind) string {
	if int(k) >= 0 && int(k) < len(kindNames) {
		return kindNames[k]
	}
	return unk(k.String())
}

func absRemote(flags uint32) string {
	if flags&uint32(tracepb.SpanFlags_SPAN_FLAGS_CONTEXT_HAS_IS_REMOTE_MASK) == 0 {
		return unk("remote-unknown")
	}
	if flags&uint32(tracepb.SpanFlags_SPAN_FLAGS_CONTEXT_IS_REMOTE_MASK) != 0 {
		return "t"
	}
	return "f"
}

func projectSpan(s *tracepb.Span) OutItem {
	idc, n := absIDs(s.GetTraceId(), s.GetSpanId())
	fv := SpanFV{
		Idc: idc, Name: absStr("name", s.GetName()), Kind: absKind(s.GetKind()),
		Msg: absStr("msg", s.GetStatus().GetMessage()), Start: absTime(s.GetStartTimeUnixNano()), End: absTime(s.GetEndTimeUnixNano()),
		Ts: absStr("ts", s.GetTraceState()), Attrs: absAttrs("list", s.GetAttributes()),
		Da: absCount(s.GetDroppedAttributesCount()), De: absCount(s.GetDroppedEventsCount()), Dl: absCount(s.GetDroppedLinksCount()),
		Events: []EvFV{}, Links: []LkFV{},
	}
	switch s.GetStatus().GetCode() {
	case tracepb.Status_STATUS_CODE_UNSET:
		fv.Code = "unset"
	case tracepb.Status_STATUS_CODE_OK:
		fv.Code = "ok"
	case tracepb.Status_STATUS_CODE_ERROR:
		fv.Code = "error"
	default:
		fv.Code = unk(s.GetStatus().GetCode().String())
	}
	switch p := s.GetParentSpanId(); {
	case len(p) == 0:
		fv.Parent = "none"
	case n >= 0 && string(p) == string(func() []byte { x := mkParent(n); return x[:] }()):
		switch absRemote(s.GetFlags()) {
		case "t":
			fv.Parent = "remote"
		case "f":
			fv.Parent = "local"
		default:
			fv.Parent = unk("parent-remote-unknown")
		}
	default:
		fv.Parent = unk(hex.EncodeToString(p))
	}
	for _, e := range s.GetEvents() {
		fv.Events = append(fv.Events, EvFV{Name: absStr("ename", e.GetName()), Time: absTime(e.GetTimeUnixNano()),
			Attrs: absAttrs("list", e.GetAttributes()), D: absCount(e.GetDroppedAttributesCount())})
	}
	for _, l := range s.GetLinks() {
		lc, ln := absIDs(l.GetTraceId(), l.GetSpanId())
		nn := unk(fmt.Sprint(ln))
		if lc == "zero" {
			nn = "k0"
		}
		for k, v := range linkNum {
			if v == ln {
				nn = k
			}
		}
		fv.Links = append(fv.Links, LkFV{Idc: lc, N: nn, Attrs: absAttrs("list", l.GetAttributes()),
			D: absCount(l.GetDroppedAttributesCount()), Remote: absRemote(l.GetFlags()), Ts: absStr("ts", l.GetTraceState())})
	}
	return OutItem{ID: n, FV: fv}
}

func projectTrace(rss []*tracepb.ResourceSpans) []ResGroup {
	out := []ResGroup{}
	for _, rs := range rss {
		g := ResGroup{RK: absResource(rs.GetResource(), rs.GetSchemaUrl()), Scopes: []ScopeGroup{}}
		for _, ss := range rs.GetScopeSpans() {
			sg := ScopeGroup{SK: absScope(ss.GetScope(), ss.GetSchemaUrl()), Items: []OutItem{}}
			for _, s := range ss.GetSpans() {
				sg.Items = append(sg.Items, projectSpan(s))
			}
			g.Scopes = append(g.Scopes, sg)
		}
		out = append(out, g)
	}
	return out
}

// ---------------------------------------------------------------- project (Zipkin v2 JSON)

type zipJSON struct {
	TraceID       string `json:"traceId"`
	ID            string `json:"id"`
	ParentID      string `json:"parentId"`
	Name          string `json:"name"`
	Kind          string `json:"kind"`
	Timestamp     int64  `json:"timestamp"`
	Duration      int64  `json:"duration"`
	LocalEndpoint struct {
		ServiceName string `json:"serviceName"`
	} `json:"localEndpoint"`
	Tags map[string]string `json:"tags"`
}

// service.name of the resource attribute classes (ra0: no service.name -> the SDK's default name)
var svcOf = map[string]string{"svc-a": "ra1", "svc-b": "ra2"}

func projectZipkin(body []byte) ([]ResGroup, error) {
	var spans []zipJSON
	if err := json.Unmarshal(body, &spans); err != nil {
		return nil, fmt.Errorf("zipkin body is not a JSON span list: %w", err)
	}
	sg := ScopeGroup{SK: ScopeKey{"-", "-", "-", "-"}, Items: []OutItem{}}
	for _, z := range spans {
		// a Zipkin trace id is 16 or 32 lower-hex characters (64-bit ids drop the zero high half)
		tid, err1 := hex.DecodeString(z.TraceID)
		if err1 == nil && len(tid) == 8 {
			tid = append(make([]byte, 8), tid...)
		}
		sid, err2 := hex.DecodeString(z.ID)
		idc, n := unk(z.TraceID+"/"+z.ID), -1
		if err1 == nil && err2 == nil && z.TraceID == strings.ToLower(z.TraceID) && z.ID == strings.ToLower(z.ID) && len(z.ID) == 16 {
			idc, n = absIDs(tid, sid)
		}
		fv := ZipOut{Idc: idc, Name: absStr("zname", z.Name)}
		switch z.Kind {
		case "":
			fv.Kind = "zknone"
		case "SERVER", "CLIENT", "PRODUCER", "CONSUMER":
			fv.Kind = strings.ToLower(z.Kind)
		default:
			fv.Kind = unk(z.Kind)
		}
		if c, ok := zTimeOut[z.Timestamp]; ok {
			fv.Start = c
		} else {
			fv.Start = unk(fmt.Sprint(z.Timestamp))
		}
		if c, ok := zDurOut[z.Duration]; ok {
			fv.Dur = c
		} else {
			fv.Dur = unk(fmt.Sprint(z.Duration))
		}
		want := mkParent(n)
		switch {
		case z.ParentID == "":
			fv.Parent = "none"
		case n >= 0 && z.ParentID == hex.EncodeToString(want[:]):
			fv.Parent = "p"
		default:
			fv.Parent = unk(z.ParentID)
		}
		switch c, ok := z.Tags["otel.status_code"]; {
		case !ok:
			fv.Code = "unset"
		case c == "OK" || c == "ERROR":
			fv.Code = strings.ToLower(c)
		default:
			fv.Code = unk(c)
		}
		if e, ok := z.Tags["error"]; ok {
			fv.Msg = absStr("msg", e)
		} else {
			fv.Msg = "noerr"
		}
		switch sn := z.LocalEndpoint.ServiceName; {
		case strings.HasPrefix(sn, "unknown_service"):
			fv.Svc = "ra0"
		case svcOf[sn] != "":
			fv.Svc = svcOf[sn]
		default:
			fv.Svc = unk(sn)
		}
		fv.Sn = absStr("sn", z.Tags["otel.scope.name"])
		fv.Sv = absStr("sv", z.Tags["otel.scope.version"])
		sg.Items = append(sg.Items, OutItem{ID: n, FV: fv})
	}
	return []ResGroup{{RK: ResKey{"-", "-"}, Scopes: []ScopeGroup{sg}}}, nil
}
