// c13 interleave -tables T -edges F [-rounds n] -out TRACE -res R
//
// Executes the histories of specs/OtlpGrouping/Interleave.tla: two REAL exporter instances of one
// OTLP/HTTP kind in this process, each exporting its own batch, against a scripted collector that
// HOLDS every request until the history says "answer" (503 retryable / 200). One trace line per
// request the collector received: {batch: the batch of ITS instance, outs: [what it decoded]}.
// The harness only executes and projects; Trace_OtelSDK (OtlpModel!Violations) judges.
package main

import (
	"compress/gzip"
	"context"
	"flag"
	"fmt"
	"io"
	"math/rand"
	"net"
	"net/http"
	"runtime"
	"time"

	"go.opentelemetry.io/otel/exporters/otlp/otlplog/otlploghttp"
	"go.opentelemetry.io/otel/exporters/otlp/otlpmetric/otlpmetrichttp"
	"go.opentelemetry.io/otel/exporters/otlp/otlptrace"
	"go.opentelemetry.io/otel/exporters/otlp/otlptrace/otlptracehttp"
	collogpb "go.opentelemetry.io/proto/otlp/collector/logs/v1"
	colmetricpb "go.opentelemetry.io/proto/otlp/collector/metrics/v1"
	coltracepb "go.opentelemetry.io/proto/otlp/collector/trace/v1"
	"google.golang.org/protobuf/proto"

	"go.opentelemetry.io/otel/sdk/verifh/vh"
)

type ilEvent struct {
	Op   string `json:"op"`
	Inst string `json:"inst"`
	Att  int    `json:"att"`
	Code int    `json:"code"`
}
type ilEdge struct {
	Sig     string            `json:"sig"`
	Mode    string            `json:"mode"`
	Gz      string            `json:"gz"`
	Hist    []ilEvent         `json:"hist"`
	Exports map[string][]Item `json:"exports"`
}

type ilHeld struct {
	inst  string
	body  []byte
	err   error
	reply chan int
}
type ilRecv struct {
	inst string
	att  int
	body []byte
	err  error
}

const ilStep = 20 * time.Second

// ilCollector holds every request until the driver answers it.
type ilCollector struct {
	srv  *http.Server
	addr string
	arr  map[string]chan *ilHeld
}

func newILCollector() (*ilCollector, error) {
	c := &ilCollector{arr: map[string]chan *ilHeld{"A": make(chan *ilHeld, 16), "B": make(chan *ilHeld, 16)}}
	ln, err := net.Listen("tcp", "127.0.0.1:0")
	if err != nil {
		return nil, err
	}
	c.addr = ln.Addr().String()
	c.srv = &http.Server{Handler: http.HandlerFunc(func(w http.ResponseWriter, r *http.Request) {
		var rd io.Reader = r.Body
		var b []byte
		var err error
		if r.Header.Get("Content-Encoding") == "gzip" {
			var gz *gzip.Reader
			if gz, err = gzip.NewReader(r.Body); err == nil {
				rd = gz
			}
		}
		if err == nil {
			b, err = io.ReadAll(rd)
		}
		h := &ilHeld{inst: r.Header.Get("X-Inst"), body: b, err: err, reply: make(chan int, 1)}
		ch, ok := c.arr[h.inst]
		if !ok {
			w.WriteHeader(http.StatusBadRequest)
			return
		}
		ch <- h
		code := http.StatusInternalServerError
		select {
		case code = <-h.reply:
		case <-time.After(3 * ilStep):
		}
		w.Header().Set("Content-Type", "application/x-protobuf")
		w.WriteHeader(code)
	})}
	go c.srv.Serve(ln)
	return c, nil
}

// ilInstance = one real exporter instance with the batch it exports, as real objects
type ilInstance struct {
	export   func(context.Context) error
	shutdown func(context.Context) error
}

func newILInstance(addr, sig, inst string, gz bool, w *World, batch []Item) (*ilInstance, error) {
	ctx := context.Background()
	hdr := map[string]string{"X-Inst": inst}
	const ini, max, tot = 40 * time.Millisecond, 80 * time.Millisecond, 60 * time.Second
	switch sig {
	case "trace":
		o := []otlptracehttp.Option{otlptracehttp.WithEndpoint(addr), otlptracehttp.WithInsecure(), otlptracehttp.WithHeaders(hdr),
			otlptracehttp.WithTimeout(exportTimeout),
			otlptracehttp.WithRetry(otlptracehttp.RetryConfig{Enabled: true, InitialInterval: ini, MaxInterval: max, MaxElapsedTime: tot})}
		if gz {
			o = append(o, otlptracehttp.WithCompression(otlptracehttp.GzipCompression))
		}
		e, err := otlptrace.New(ctx, otlptracehttp.NewClient(o...))
		if err != nil {
			return nil, err
		}
		spans := buildSpans(w, batch)
		return &ilInstance{func(c context.Context) error { return e.ExportSpans(c, spans) }, e.Shutdown}, nil
	case "metric":
		o := []otlpmetrichttp.Option{otlpmetrichttp.WithEndpoint(addr), otlpmetrichttp.WithInsecure(), otlpmetrichttp.WithHeaders(hdr),
			otlpmetrichttp.WithTimeout(exportTimeout),
			otlpmetrichttp.WithRetry(otlpmetrichttp.RetryConfig{Enabled: true, InitialInterval: ini, MaxInterval: max, MaxElapsedTime: tot})}
		if gz {
			o = append(o, otlpmetrichttp.WithCompression(otlpmetrichttp.GzipCompression))
		}
		e, err := otlpmetrichttp.New(ctx, o...)
		if err != nil {
			return nil, err
		}
		rms := buildMetrics(w, batch, false)
		if len(rms) != 1 {
			harnessBug("interleave: %d ResourceMetrics for a one-resource batch", len(rms))
		}
		return &ilInstance{func(c context.Context) error { return e.Export(c, rms[0]) }, e.Shutdown}, nil
	case "log":
		o := []otlploghttp.Option{otlploghttp.WithEndpoint(addr), otlploghttp.WithInsecure(), otlploghttp.WithHeaders(hdr),
			otlploghttp.WithTimeout(exportTimeout),
			otlploghttp.WithRetry(otlploghttp.RetryConfig{Enabled: true, InitialInterval: ini, MaxInterval: max, MaxElapsedTime: tot})}
		if gz {
			o = append(o, otlploghttp.WithCompression(otlploghttp.GzipCompression))
		}
		e, err := otlploghttp.New(ctx, o...)
		if err != nil {
			return nil, err
		}
		recs := buildLogs(w, batch)
		return &ilInstance{func(c context.Context) error { return e.Export(c, recs) }, e.Shutdown}, nil
	}
	harnessBug("interleave: signal %q", sig)
	return nil, nil
}

// runHistory plays one history; returns the requests in the order the history lists their arrival.
func runHistory(col *ilCollector, tab *Tables, seed int64, e ilEdge) (recv []ilRecv, err error, rp *realPanic) {
	defer func() {
		if p := recover(); p != nil {
			if s, ok := p.(string); ok && len(s) >= 8 && s[:8] == "harness:" {
				panic(p)
			}
			rp = &realPanic{val: p, stack: fmt.Sprint(p)}
		}
	}()
	w := newWorld(tab, rand.New(rand.NewSource(seed)))
	insts := map[string]*ilInstance{}
	for _, i := range []string{"A", "B"} {
		x, e2 := newILInstance(col.addr, e.Sig, i, e.Gz == "t", w, e.Exports[i])
		if e2 != nil {
			return nil, errLoopback{"interleave: new exporter: " + e2.Error()}, nil
		}
		insts[i] = x
	}
	defer func() {
		for _, x := range insts {
			c, cancel := context.WithTimeout(context.Background(), 5*time.Second)
			x.shutdown(c)
			cancel()
		}
	}()
	done := map[string]chan error{"A": make(chan error, 1), "B": make(chan error, 1)}
	held := map[string]*ilHeld{}
	for _, ev := range e.Hist {
		switch ev.Op {
		case "arrive":
			if ev.Att == 1 {
				x, ch := insts[ev.Inst], done[ev.Inst]
				go func() {
					c, cancel := exportCtx()
					defer cancel()
					ch <- x.export(c)
				}()
			}
			select {
			case h := <-col.arr[ev.Inst]:
				held[ev.Inst] = h
				recv = append(recv, ilRecv{ev.Inst, ev.Att, h.body, h.err})
			case er := <-done[ev.Inst]:
				// the exporter gave up instead of sending the attempt: retry behaviour is C14's subject
				return nil, errLoopback{fmt.Sprintf("interleave: instance %s returned (%v) before attempt %d arrived", ev.Inst, er, ev.Att)}, nil
			case <-time.After(ilStep):
				return nil, errLoopback{fmt.Sprintf("interleave: attempt %d of instance %s never arrived", ev.Att, ev.Inst)}, nil
			}
		case "answer":
			h := held[ev.Inst]
			if h == nil {
				harnessBug("interleave: answer without a held request")
			}
			h.reply <- ev.Code
			held[ev.Inst] = nil
		default:
			harnessBug("interleave: op %q", ev.Op)
		}
	}
	for _, i := range []string{"A", "B"} {
		select {
		case er := <-done[i]:
			if er != nil {
				return nil, errLoopback{fmt.Sprintf("interleave: export of instance %s failed after its 200: %v", i, er)}, nil
			}
		case <-time.After(ilStep):
			return nil, errLoopback{"interleave: export of instance " + i + " did not return"}, nil
		}
	}
	// nothing else may be on its way
	for _, i := range []string{"A", "B"} {
		select {
		case h := <-col.arr[i]:
			h.reply <- 200
			recv = append(recv, ilRecv{i, 99, h.body, h.err})
		default:
		}
	}
	return recv, nil, nil
}

func ilProject(sig string, body []byte) ([]ResGroup, error) {
	switch sig {
	case "trace":
		m := &coltracepb.ExportTraceServiceRequest{}
		if err := proto.Unmarshal(body, m); err != nil {
			return nil, err
		}
		return projectTrace(m.GetResourceSpans()), nil
	case "metric":
		m := &colmetricpb.ExportMetricsServiceRequest{}
		if err := proto.Unmarshal(body, m); err != nil {
			return nil, err
		}
		return projectMetrics(m.GetResourceMetrics()), nil
	}
	m := &collogpb.ExportLogsServiceRequest{}
	if err := proto.Unmarshal(body, m); err != nil {
		return nil, err
	}
	return projectLogs(m.GetResourceLogs()), nil
}

func interleave(args []string) {
	fs := flag.NewFlagSet("interleave", flag.ExitOnError)
	tables := fs.String("tables", "", "")
	edges := fs.String("edges", "", "")
	rounds := fs.Int("rounds", 2, "every history is played this many times (even rounds on ONE scheduler thread: per-P caches of sync.Pool hand over deterministically)")
	name := fs.String("name", "interleave", "")
	out := fs.String("out", "trace.ndjson", "")
	resF := fs.String("res", "result.json", "")
	fs.Parse(args)
	tab := loadTables(*tables)
	tw, err := vh.NewTraceWriter(*out)
	vh.Must(err)
	res := vh.NewResult()
	recs, err := readNDJSON[ilEdge](*edges)
	vh.Must(err)
	col, err := newILCollector()
	vh.Must(err)
	procs := runtime.GOMAXPROCS(0)
	ncase := 0
	for round := 0; round < *rounds; round++ {
		if round%2 == 0 {
			runtime.GOMAXPROCS(1)
		} else {
			runtime.GOMAXPROCS(procs)
		}
		for i, e := range recs {
			res.Evaluations++
			seed := vh.Seed()*1000003 + int64(round)*7919 + int64(i)
			recv, err, rp := runHistory(col, tab, seed, e)
			cs := map[string]any{"sig": e.Sig, "mode": "interleave", "gz": e.Gz, "history": i, "round": round, "seed": seed}
			if rp != nil {
				res.AddMismatch(vh.Mismatch{Kind: "panic", Case: cs, Path: e.Hist, Detail: rp.stack})
				continue
			}
			if err != nil {
				res.Inconcl(fmt.Sprintf("history %d (%s): %v", i, e.Sig, err))
				// a held handler may still be around: fresh collector
				col.srv.Close()
				col, err = newILCollector()
				vh.Must(err)
				continue
			}
			res.Executed++
			res.Count("histories_"+e.Sig, 1)
			if e.Gz == "t" {
				res.Count("histories_gzip", 1)
			}
			protoName := "http"
			if e.Gz == "t" {
				protoName = "http-gzip"
			}
			for k, q := range recv {
				ncase++
				res.Count("requests", 1)
				if q.att > 1 {
					res.Count("requests_retried", 1)
				}
				if q.att == 99 {
					res.AddMismatch(vh.Mismatch{Kind: "unscripted-request", Case: cs, Path: e.Hist, Detail: "instance " + q.inst + " sent a request after its export was accepted"})
					continue
				}
				var groups []ResGroup
				err := q.err
				if err == nil {
					groups, err = ilProject(e.Sig, q.body)
				}
				if err != nil {
					cs2 := map[string]any{"sig": e.Sig, "mode": "interleave", "gz": e.Gz, "history": i, "round": round, "seed": seed, "inst": q.inst, "att": q.att}
					res.AddMismatch(vh.Mismatch{Kind: "undecodable", Case: cs2, Path: e.Hist, Detail: err.Error()})
					continue
				}
				tw.Emit(map[string]any{"ev": "Batch", "cfg": *name, "case": ncase, "sig": e.Sig, "mode": "interleave", "rseed": seed,
					"il": map[string]any{"inst": q.inst, "att": q.att, "req": k + 1, "gz": e.Gz, "round": round, "hist": e.Hist},
					"batch": e.Exports[q.inst], "outs": []Out{{protoName, groups}}, "same": true})
			}
		}
	}
	runtime.GOMAXPROCS(procs)
	col.srv.Close()
	vh.Must(tw.Close())
	res.Count("trace_lines", tw.N)
	vh.Must(res.Write(*resF))
}
