package main

// Seeded random batches for the code -> spec direction: up to 60 items over up to 6 resource and
// 6 scope indices, every field drawn from the FULL concretization table (a superset of what TLC
// enumerates: boundary counts, pre-epoch/zero/far timestamps, deep values, long attribute lists).

import (
	"encoding/json"
	"math/rand"
	"sort"
	"strings"
)

func keysOf[V any](m map[string]V) []string {
	ks := make([]string, 0, len(m))
	for k := range m {
		ks = append(ks, k)
	}
	sort.Strings(ks)
	return ks
}

func one(r *rand.Rand, xs []string) string { return xs[r.Intn(len(xs))] }

var (
	rTimes     = []string{"t1", "t2", "t3", "tfar", "tzero", "tpre", "tepoch"}
	rCounts    = []string{"c0", "c1", "c2", "c3", "cmax32", "cbig"}
	rListAttrs = []string{"an", "ae", "a1", "a8", "a8b", "abound", "along"}
	rIdc       = []string{"plain", "hibit", "lowzero"}
	rNames     = []string{"n1", "n2", "n0", "nuni", "nmix"}
	rBodies    = keysOf(bodyReps)
	rLogAttrs  = keysOf(logAttrReps)
)

func pickSome(r *rand.Rand, all []string, n int) []string {
	p := r.Perm(len(all))
	if n > len(all) {
		n = len(all)
	}
	out := make([]string, n)
	for i := range out {
		out[i] = all[p[i]]
	}
	return out
}

func randEvents(r *rand.Rand) []EvFV {
	out := []EvFV{}
	for n := r.Intn(5); n > 0; n-- {
		out = append(out, EvFV{Name: one(r, []string{"e1", "e2", "e0"}), Time: one(r, rTimes), Attrs: one(r, rListAttrs), D: one(r, rCounts)})
	}
	return out
}

func randLinks(r *rand.Rand) []LkFV {
	out := []LkFV{}
	for n := r.Intn(4); n > 0; n-- {
		l := LkFV{Idc: one(r, rIdc), N: one(r, []string{"k1", "k2"}), Attrs: one(r, rListAttrs), D: one(r, rCounts),
			Remote: one(r, []string{"t", "f"}), Ts: one(r, []string{"ts0", "ts0", "ts0", "ts1"})}
		if r.Intn(8) == 0 {
			l.Idc, l.N = "zero", "k0"
		}
		out = append(out, l)
	}
	return out
}

func randSpanFV(r *rand.Rand) any {
	return SpanFV{Idc: one(r, rIdc), Name: one(r, rNames), Kind: one(r, kindNames), Code: one(r, codeNames),
		Msg: one(r, []string{"m1", "m2", "m0"}), Start: one(r, rTimes), End: one(r, rTimes), Parent: one(r, []string{"local", "remote", "none"}),
		Ts: one(r, []string{"ts1", "ts0"}), Attrs: one(r, rListAttrs), Da: one(r, rCounts), De: one(r, rCounts), Dl: one(r, rCounts),
		Events: randEvents(r), Links: randLinks(r)}
}

func randZipFV(r *rand.Rand) any {
	return ZipFV{Idc: one(r, rIdc), Name: one(r, rNames), Kind: one(r, kindNames), Start: one(r, keysOf(zTimeReps)),
		Dur: one(r, keysOf(zDurReps)), Parent: one(r, []string{"local", "remote", "none"}),
		Code: one(r, codeNames), Msg: one(r, []string{"m1", "m2", "m0"})}
}

func randLogFV(r *rand.Rand, tab *Tables) any {
	fv := LogFV{Ts: one(r, rTimes), Obs: one(r, rTimes), Sev: one(r, append([]string{"sevout"}, tab.SevAll...)), Sevtext: one(r, []string{"st1", "st0"}),
		Event: one(r, []string{"ev1", "ev0"}), Body: one(r, rBodies), Attrs: one(r, rLogAttrs),
		Dropped: one(r, []string{"c0", "c0", "c1", "c2", "c3", "cmax32", "cbig"}),
		Ids:     one(r, []string{"ids", "noids", "tidonly", "sidonly", "hibit"}), Flags: one(r, []string{"f1", "f0"})}
	if fv.Attrs == "labare" {
		fv.Sevtext = "st1" // one carrier of the item id must remain
	}
	return fv
}

func randExemplars(r *rand.Rand, isInt bool) []ExFV {
	out := []ExFV{}
	for n := r.Intn(3); n > 0; n-- {
		out = append(out, ExFV{Fa: one(r, []string{"an", "ae", "a1", "a8", "abound"}), Time: one(r, rTimes), Val: randVal(r, isInt),
			Ids: one(r, []string{"ids", "noids"})})
	}
	return out
}

func randVal(r *rand.Rand, isInt bool) string {
	if isInt {
		return one(r, keysOf(intVals))
	}
	return one(r, keysOf(floatVals))
}

func randMetricFV(r *rand.Rand) any {
	fv := MetricFV{Desc: one(r, []string{"d1", "d0"}), Unit: one(r, []string{"u1", "u0"}),
		Agg: one(r, []string{"sum", "gauge", "hist", "exphist", "summary"}), Num: one(r, []string{"int", "float"}),
		Temp: one(r, []string{"delta", "cumulative"}), Mono: one(r, []string{"t", "f"}), Dps: []DPFV{}}
	isInt := fv.Num == "int" && fv.Agg != "summary"
	das := pickSome(r, keysOf(attrReps["dp"]), r.Intn(5)) // distinct attribute sets: one point each
	for _, da := range das {
		fv.Dps = append(fv.Dps, DPFV{Da: da, Start: one(r, rTimes), Time: one(r, rTimes), Val: randVal(r, isInt),
			Cnt: one(r, keysOf(cntReps)), Lay: one(r, keysOf(histLays)), Mm: one(r, keysOf(mmReps)),
			Q: one(r, keysOf(qReps)), Ex: randExemplars(r, isInt)})
	}
	return fv
}

func randomBatch(r *rand.Rand, tab *Tables, sig string) []Item {
	var n int
	switch x := r.Intn(100); {
	case x < 45:
		n = 1 + r.Intn(8)
	case x < 82:
		n = 9 + r.Intn(22)
	default:
		n = 31 + r.Intn(30)
	}
	res := pickSome(r, keysOf(tab.Res), 1+r.Intn(6))
	scopes := pickSome(r, keysOf(tab.Scopes), 1+r.Intn(6))
	batch := make([]Item, n)
	for i := range batch {
		var fv any
		switch sig {
		case "trace":
			fv = randSpanFV(r)
		case "zipkin":
			fv = randZipFV(r)
		case "log":
			fv = randLogFV(r, tab)
		case "metric":
			fv = randMetricFV(r)
		}
		raw, err := json.Marshal(fv)
		if err != nil {
			harnessBug("marshal fv: %v", err)
		}
		batch[i] = Item{R: one(r, res), S: one(r, scopes), ID: i + 1, FV: raw}
	}
	return batch
}

// ---------------------------------------------------------------- end-to-end programs (API level)

var (
	apiTimes = []string{"t1", "t2", "t3", "tpre", "tfar"}
	apiAttrs = []string{"an", "ae", "a1", "a8", "a8b", "abound"} // 130 attributes would hit the default limit (C04)
)

func randSpanApi(r *rand.Rand) any {
	a := SpanApi{Idc: one(r, rIdc), Name: one(r, rNames), Kind: one(r, kindNames), Code: one(r, codeNames), Msg: one(r, []string{"m1", "m2", "m0"}),
		Start: one(r, apiTimes), End: one(r, apiTimes), Parent: one(r, []string{"local", "remote", "none"}), Ts: one(r, []string{"ts1", "ts0"}),
		Attrs: one(r, apiAttrs), Events: []ApiEv{}, Links: []ApiLk{}}
	for n := r.Intn(4); n > 0; n-- {
		a.Events = append(a.Events, ApiEv{Name: one(r, []string{"e1", "e2", "e0"}), Time: one(r, apiTimes), Attrs: one(r, apiAttrs)})
	}
	for n := r.Intn(4); n > 0; n-- {
		a.Links = append(a.Links, ApiLk{Idc: one(r, rIdc), N: one(r, []string{"k1", "k2"}), Attrs: one(r, apiAttrs),
			Remote: one(r, []string{"t", "f"}), Ts: one(r, []string{"ts0", "ts1"})})
	}
	return a
}

func randLogApi(r *rand.Rand, tab *Tables) any {
	a := LogApi{Ts: one(r, rTimes), Obs: one(r, append([]string{"tepoch"}, apiTimes...)), Sev: one(r, append([]string{"sevout"}, tab.SevAll...)),
		Sevtext: one(r, []string{"st1", "st0"}), Event: one(r, []string{"ev1", "ev0"}), Body: one(r, rBodies), Attrs: one(r, rLogAttrs),
		Ids: one(r, []string{"ids", "noids", "tidonly", "sidonly", "hibit"}), Flags: one(r, []string{"f1", "f0"})}
	if a.Attrs == "labare" {
		a.Sevtext = "st1"
	}
	return a
}

func randMetricApi(r *rand.Rand) any {
	a := MetricApi{Kind: one(r, []string{"counter", "updown", "hist", "gauge", "ocounter", "oupdown", "ogauge"}), Num: one(r, []string{"int", "float"}),
		Desc: one(r, []string{"d1", "d0"}), Unit: one(r, []string{"u1", "u0"}), View: "default", Temp: one(r, []string{"cumulative", "delta"}), Meas: []Meas{}}
	if a.Kind == "hist" {
		a.View = one(r, []string{"default", "expo", "bounds"})
	}
	das := []string{"dp0", "dp1", "dp2", "dp3", "dp4"}
	if strings.HasPrefix(a.Kind, "o") { // an observable reports one value per attribute set
		for _, da := range pickSome(r, das, r.Intn(5)) {
			a.Meas = append(a.Meas, Meas{Da: da, V: r.Intn(16)})
		}
	} else {
		for n := r.Intn(8); n > 0; n-- {
			a.Meas = append(a.Meas, Meas{Da: one(r, das), V: r.Intn(16)})
		}
	}
	return a
}

func randomProgram(r *rand.Rand, tab *Tables, sig string) []Item {
	n := 1 + r.Intn(12)
	if r.Intn(4) == 0 {
		n = 13 + r.Intn(28)
	}
	res := pickSome(r, keysOf(tab.Res), 1+r.Intn(5))
	scopes := pickSome(r, keysOf(tab.Scopes), 1+r.Intn(6))
	prog := make([]Item, n)
	for i := range prog {
		var fv any
		switch sig {
		case "trace":
			fv = randSpanApi(r)
		case "log":
			fv = randLogApi(r, tab)
		case "metric":
			fv = randMetricApi(r)
		}
		raw, err := json.Marshal(fv)
		if err != nil {
			harnessBug("marshal fv: %v", err)
		}
		prog[i] = Item{R: one(r, res), S: one(r, scopes), ID: i + 1, FV: raw}
	}
	return prog
}
