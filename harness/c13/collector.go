package main

// In-process loopback collector (net/http + gRPC) and the REAL exporters pointed at it.
// Everything the exporters produce crosses a real wire marshal/unmarshal.

import (
	"bytes"
	"compress/gzip"
	"context"
	"fmt"
	"io"
	"net"
	"net/http"
	"os"
	"sort"
	"strings"
	"time"

	"go.opentelemetry.io/otel/exporters/otlp/otlplog/otlploggrpc"
	"go.opentelemetry.io/otel/exporters/otlp/otlplog/otlploghttp"
	"go.opentelemetry.io/otel/exporters/otlp/otlpmetric/otlpmetricgrpc"
	"go.opentelemetry.io/otel/exporters/otlp/otlpmetric/otlpmetrichttp"
	"go.opentelemetry.io/otel/exporters/otlp/otlptrace"
	"go.opentelemetry.io/otel/exporters/otlp/otlptrace/otlptracegrpc"
	"go.opentelemetry.io/otel/exporters/otlp/otlptrace/otlptracehttp"
	"go.opentelemetry.io/otel/exporters/stdout/stdoutlog"
	"go.opentelemetry.io/otel/exporters/stdout/stdoutmetric"
	"go.opentelemetry.io/otel/exporters/stdout/stdouttrace"
	"go.opentelemetry.io/otel/exporters/zipkin"
	sdklog "go.opentelemetry.io/otel/sdk/log"
	sdkmetric "go.opentelemetry.io/otel/sdk/metric"
	"go.opentelemetry.io/otel/sdk/metric/metricdata"
	sdktrace "go.opentelemetry.io/otel/sdk/trace"
	collogpb "go.opentelemetry.io/proto/otlp/collector/logs/v1"
	colmetricpb "go.opentelemetry.io/proto/otlp/collector/metrics/v1"
	coltracepb "go.opentelemetry.io/proto/otlp/collector/trace/v1"
	logpb "go.opentelemetry.io/proto/otlp/logs/v1"
	metricpb "go.opentelemetry.io/proto/otlp/metrics/v1"
	tracepb "go.opentelemetry.io/proto/otlp/trace/v1"
	"google.golang.org/grpc"
	_ "google.golang.org/grpc/encoding/gzip" // the loopback server accepts gzip-compressed requests
	"google.golang.org/protobuf/proto"
)

// errLoopback marks trouble of the loopback machinery (never a verdict).
type errLoopback struct{ msg string }

func (e errLoopback) Error() string { return "loopback: " + e.msg }

const exportTimeout = 120 * time.Second

type traceSvc struct {
	coltracepb.UnimplementedTraceServiceServer
	ch chan *coltracepb.ExportTraceServiceRequest
}

func (s *traceSvc) Export(_ context.Context, r *coltracepb.ExportTraceServiceRequest) (*coltracepb.ExportTraceServiceResponse, error) {
	s.ch <- r
	return &coltracepb.ExportTraceServiceResponse{}, nil
}

type metricSvc struct {
	colmetricpb.UnimplementedMetricsServiceServer
	ch chan *colmetricpb.ExportMetricsServiceRequest
}

func (s *metricSvc) Export(_ context.Context, r *colmetricpb.ExportMetricsServiceRequest) (*colmetricpb.ExportMetricsServiceResponse, error) {
	s.ch <- r
	return &colmetricpb.ExportMetricsServiceResponse{}, nil
}

type logSvc struct {
	collogpb.UnimplementedLogsServiceServer
	ch chan *collogpb.ExportLogsServiceRequest
}

func (s *logSvc) Export(_ context.Context, r *collogpb.ExportLogsServiceRequest) (*collogpb.ExportLogsServiceResponse, error) {
	s.ch <- r
	return &collogpb.ExportLogsServiceResponse{}, nil
}

type httpBody struct {
	path string
	body []byte
	err  error
}

type metricExporter interface {
	Export(context.Context, *metricdata.ResourceMetrics) error
	Shutdown(context.Context) error
}
type logExporter interface {
	Export(context.Context, []sdklog.Record) error
	Shutdown(context.Context) error
}

// ProtoNames are the transport variants of one OTLP signal, in the order of the exporter lists.
var ProtoNames = []string{"grpc", "http", "grpc-gzip", "http-gzip"}

// Loop is one loopback collector plus one exporter of every kind connected to it.
type Loop struct {
	gsrv  *grpc.Server
	hsrv  *http.Server
	tsvc  *traceSvc
	msvc  *metricSvc
	lsvc  *logSvc
	httpc chan httpBody

	// per signal: [grpc, http, grpc+gzip, http+gzip]
	traceExps  []*otlptrace.Exporter
	metricExps []metricExporter
	logExps    []logExporter
	zip        *zipkin.Exporter
	// stdout exporters write into soBuf
	soBuf              bytes.Buffer
	soTrace            *stdouttrace.Exporter
	soMetric           sdkmetric.Exporter
	soLog              *stdoutlog.Exporter
	grpcAddr, httpAddr string
}

func clearOtelEnv() {
	for _, kv := range os.Environ() {
		if strings.HasPrefix(kv, "OTEL_") {
			os.Unsetenv(strings.SplitN(kv, "=", 2)[0])
		}
	}
	for _, k := range []string{"HTTP_PROXY", "HTTPS_PROXY", "http_proxy", "https_proxy", "ALL_PROXY", "all_proxy"} {
		os.Unsetenv(k)
	}
	os.Setenv("NO_PROXY", "*")
}

func NewLoop() (*Loop, error) {
	l := &Loop{
		tsvc:  &traceSvc{ch: make(chan *coltracepb.ExportTraceServiceRequest, 64)},
		msvc:  &metricSvc{ch: make(chan *colmetricpb.ExportMetricsServiceRequest, 64)},
		lsvc:  &logSvc{ch: make(chan *collogpb.ExportLogsServiceRequest, 64)},
		httpc: make(chan httpBody, 64),
	}
	gl, err := net.Listen("tcp", "127.0.0.1:0")
	if err != nil {
		return nil, err
	}
	l.grpcAddr = gl.Addr().String()
	l.gsrv = grpc.NewServer(grpc.MaxRecvMsgSize(256 << 20))
	coltracepb.RegisterTraceServiceServer(l.gsrv, l.tsvc)
	colmetricpb.RegisterMetricsServiceServer(l.gsrv, l.msvc)
	collogpb.RegisterLogsServiceServer(l.gsrv, l.lsvc)
	go l.gsrv.Serve(gl)

	hl, err := net.Listen("tcp", "127.0.0.1:0")
	if err != nil {
		return nil, err
	}
	l.httpAddr = hl.Addr().String()
	mux := http.NewServeMux()
	h := func(w http.ResponseWriter, r *http.Request) {
		var rd io.Reader = r.Body
		var b []byte
		var err error
		if r.Header.Get("Content-Encoding") == "gzip" {
			var gz *gzip.Reader
			if gz, err = gzip.NewReader(r.Body); err == nil {
				rd = gz
			}
		}
		if err == nil {
			b, err = io.ReadAll(rd)
		}
		l.httpc <- httpBody{path: r.URL.Path, body: b, err: err}
		if r.URL.Path == "/api/v2/spans" {
			w.WriteHeader(http.StatusAccepted)
			return
		}
		w.Header().Set("Content-Type", "application/x-protobuf")
		w.WriteHeader(http.StatusOK)
	}
	for _, p := range []string{"/v1/traces", "/v1/metrics", "/v1/logs", "/api/v2/spans"} {
		mux.HandleFunc(p, h)
	}
	l.hsrv = &http.Server{Handler: mux}
	go l.hsrv.Serve(hl)

	ctx := context.Background()
	for _, gz := range []bool{false, true} {
		tg := []otlptracegrpc.Option{otlptracegrpc.WithEndpoint(l.grpcAddr), otlptracegrpc.WithInsecure(),
			otlptracegrpc.WithTimeout(exportTimeout), otlptracegrpc.WithRetry(otlptracegrpc.RetryConfig{Enabled: false})}
		th := []otlptracehttp.Option{otlptracehttp.WithEndpoint(l.httpAddr), otlptracehttp.WithInsecure(),
			otlptracehttp.WithTimeout(exportTimeout), otlptracehttp.WithRetry(otlptracehttp.RetryConfig{Enabled: false})}
		mg := []otlpmetricgrpc.Option{otlpmetricgrpc.WithEndpoint(l.grpcAddr), otlpmetricgrpc.WithInsecure(),
			otlpmetricgrpc.WithTimeout(exportTimeout), otlpmetricgrpc.WithRetry(otlpmetricgrpc.RetryConfig{Enabled: false})}
		mh := []otlpmetrichttp.Option{otlpmetrichttp.WithEndpoint(l.httpAddr), otlpmetrichttp.WithInsecure(),
			otlpmetrichttp.WithTimeout(exportTimeout), otlpmetrichttp.WithRetry(otlpmetrichttp.RetryConfig{Enabled: false})}
		lg := []otlploggrpc.Option{otlploggrpc.WithEndpoint(l.grpcAddr), otlploggrpc.WithInsecure(),
			otlploggrpc.WithTimeout(exportTimeout), otlploggrpc.WithRetry(otlploggrpc.RetryConfig{Enabled: false})}
		lh := []otlploghttp.Option{otlploghttp.WithEndpoint(l.httpAddr), otlploghttp.WithInsecure(),
			otlploghttp.WithTimeout(exportTimeout), otlploghttp.WithRetry(otlploghttp.RetryConfig{Enabled: false})}
		if gz {
			tg = append(tg, otlptracegrpc.WithCompressor("gzip"))
			th = append(th, otlptracehttp.WithCompression(otlptracehttp.GzipCompression))
			mg = append(mg, otlpmetricgrpc.WithCompressor("gzip"))
			mh = append(mh, otlpmetrichttp.WithCompression(otlpmetrichttp.GzipCompression))
			lg = append(lg, otlploggrpc.WithCompressor("gzip"))
			lh = append(lh, otlploghttp.WithCompression(otlploghttp.GzipCompression))
		}
		e1, err := otlptrace.New(ctx, otlptracegrpc.NewClient(tg...))
		if err != nil {
			return nil, err
		}
		e2, err := otlptrace.New(ctx, otlptracehttp.NewClient(th...))
		if err != nil {
			return nil, err
		}
		l.traceExps = append(l.traceExps, e1, e2)
		m1, err := otlpmetricgrpc.New(ctx, mg...)
		if err != nil {
			return nil, err
		}
		m2, err := otlpmetrichttp.New(ctx, mh...)
		if err != nil {
			return nil, err
		}
		l.metricExps = append(l.metricExps, m1, m2)
		l1, err := otlploggrpc.New(ctx, lg...)
		if err != nil {
			return nil, err
		}
		l2, err := otlploghttp.New(ctx, lh...)
		if err != nil {
			return nil, err
		}
		l.logExps = append(l.logExps, l1, l2)
	}
	if l.soTrace, err = stdouttrace.New(stdouttrace.WithWriter(&l.soBuf)); err != nil {
		return nil, err
	}
	if l.soMetric, err = stdoutmetric.New(stdoutmetric.WithWriter(&l.soBuf)); err != nil {
		return nil, err
	}
	if l.soLog, err = stdoutlog.New(stdoutlog.WithWriter(&l.soBuf)); err != nil {
		return nil, err
	}
	l.zip, err = zipkin.New("http://"+l.httpAddr+"/api/v2/spans", zipkin.WithClient(&http.Client{Timeout: exportTimeout}))
	if err != nil {
		return nil, err
	}
	return l, nil
}

func (l *Loop) Close() {
	ctx, cancel := context.WithTimeout(context.Background(), 5*time.Second)
	defer cancel()
	for _, e := range l.traceExps {
		e.Shutdown(ctx)
	}
	for _, e := range l.metricExps {
		e.Shutdown(ctx)
	}
	for _, e := range l.logExps {
		e.Shutdown(ctx)
	}
	l.zip.Shutdown(ctx)
	l.gsrv.Stop()
	l.hsrv.Close()
}

func (l *Loop) drain() {
	for {
		select {
		case <-l.tsvc.ch:
		case <-l.msvc.ch:
		case <-l.lsvc.ch:
		case <-l.httpc:
		default:
			return
		}
	}
}

func recvOne[T any](ch chan T, what string) (T, error) {
	select {
	case v := <-ch:
		return v, nil
	case <-time.After(30 * time.Second):
		var z T
		return z, errLoopback{"no request received by the collector for " + what}
	}
}

func (l *Loop) recvHTTP(path string) ([]byte, error) {
	b, err := recvOne(l.httpc, "http "+path)
	if err != nil {
		return nil, err
	}
	if b.err != nil {
		return nil, errLoopback{"reading http body: " + b.err.Error()}
	}
	if b.path != path {
		return nil, errLoopback{"unexpected path " + b.path}
	}
	return b.body, nil
}

func exportCtx() (context.Context, context.CancelFunc) {
	return context.WithTimeout(context.Background(), exportTimeout)
}

// nvariants: 2 = gRPC and HTTP, 4 = additionally both with gzip compression
func nvariants(gz bool) int {
	if gz {
		return 4
	}
	return 2
}

// ExportTrace runs the OTLP trace exporters (ProtoNames order) on the same spans.
func (l *Loop) ExportTrace(spans []sdktrace.ReadOnlySpan, gz bool) ([]*coltracepb.ExportTraceServiceRequest, error) {
	l.drain()
	ctx, cancel := exportCtx()
	defer cancel()
	var out []*coltracepb.ExportTraceServiceRequest
	for i := 0; i < nvariants(gz); i++ {
		if err := l.traceExps[i].ExportSpans(ctx, spans); err != nil {
			return nil, errLoopback{"otlptrace " + ProtoNames[i] + " export: " + err.Error()}
		}
		if i%2 == 0 {
			g, err := recvOne(l.tsvc.ch, "grpc traces")
			if err != nil {
				return nil, err
			}
			out = append(out, g)
			continue
		}
		b, err := l.recvHTTP("/v1/traces")
		if err != nil {
			return nil, err
		}
		h := &coltracepb.ExportTraceServiceRequest{}
		if err = proto.Unmarshal(b, h); err != nil {
			return nil, fmt.Errorf("%s trace request does not unmarshal: %w", ProtoNames[i], err)
		}
		out = append(out, h)
	}
	return out, nil
}

func (l *Loop) ExportMetric(rm *metricdata.ResourceMetrics, gz bool) ([]*colmetricpb.ExportMetricsServiceRequest, error) {
	l.drain()
	ctx, cancel := exportCtx()
	defer cancel()
	var out []*colmetricpb.ExportMetricsServiceRequest
	for i := 0; i < nvariants(gz); i++ {
		if err := l.metricExps[i].Export(ctx, rm); err != nil {
			return nil, errLoopback{"otlpmetric " + ProtoNames[i] + " export: " + err.Error()}
		}
		if i%2 == 0 {
			g, err := recvOne(l.msvc.ch, "grpc metrics")
			if err != nil {
				return nil, err
			}
			out = append(out, g)
			continue
		}
		b, err := l.recvHTTP("/v1/metrics")
		if err != nil {
			return nil, err
		}
		h := &colmetricpb.ExportMetricsServiceRequest{}
		if err = proto.Unmarshal(b, h); err != nil {
			return nil, fmt.Errorf("%s metric request does not unmarshal: %w", ProtoNames[i], err)
		}
		out = append(out, h)
	}
	return out, nil
}

func (l *Loop) ExportLog(recs []sdklog.Record, gz bool) ([]*collogpb.ExportLogsServiceRequest, error) {
	l.drain()
	ctx, cancel := exportCtx()
	defer cancel()
	// the exporters may keep/alter the slice: hand each its own copy of the records
	cp := func() []sdklog.Record {
		out := make([]sdklog.Record, len(recs))
		for i := range recs {
			out[i] = recs[i].Clone()
		}
		return out
	}
	var out []*collogpb.ExportLogsServiceRequest
	for i := 0; i < nvariants(gz); i++ {
		if err := l.logExps[i].Export(ctx, cp()); err != nil {
			return nil, errLoopback{"otlplog " + ProtoNames[i] + " export: " + err.Error()}
		}
		if i%2 == 0 {
			g, err := recvOne(l.lsvc.ch, "grpc logs")
			if err != nil {
				return nil, err
			}
			out = append(out, g)
			continue
		}
		b, err := l.recvHTTP("/v1/logs")
		if err != nil {
			return nil, err
		}
		h := &collogpb.ExportLogsServiceRequest{}
		if err = proto.Unmarshal(b, h); err != nil {
			return nil, fmt.Errorf("%s log request does not unmarshal: %w", ProtoNames[i], err)
		}
		out = append(out, h)
	}
	return out, nil
}

func (l *Loop) ExportZipkin(spans []sdktrace.ReadOnlySpan) ([]byte, error) {
	l.drain()
	ctx, cancel := exportCtx()
	defer cancel()
	if err := l.zip.ExportSpans(ctx, spans); err != nil {
		return nil, errLoopback{"zipkin export: " + err.Error()}
	}
	return l.recvHTTP("/api/v2/spans")
}

// ---- byte comparison of the two request messages (group order across resources is free:
// resource groups are sorted by their deterministic encoding first)

var detMarshal = proto.MarshalOptions{Deterministic: true}

func sortedEnc[T proto.Message](groups []T) []byte {
	encs := make([][]byte, len(groups))
	for i, g := range groups {
		b, err := detMarshal.Marshal(g)
		if err != nil {
			b = []byte("marshal error: " + err.Error())
		}
		encs[i] = b
	}
	sort.Slice(encs, func(i, j int) bool { return bytes.Compare(encs[i], encs[j]) < 0 })
	var out bytes.Buffer
	for _, e := range encs {
		fmt.Fprintf(&out, "%d:", len(e))
		out.Write(e)
	}
	return out.Bytes()
}

func sameTrace(a, b []*tracepb.ResourceSpans) bool { return bytes.Equal(sortedEnc(a), sortedEnc(b)) }
func sameMetric(a, b []*metricpb.ResourceMetrics) bool {
	return bytes.Equal(sortedEnc(a), sortedEnc(b))
}
func sameLog(a, b []*logpb.ResourceLogs) bool { return bytes.Equal(sortedEnc(a), sortedEnc(b)) }

// ---- stdout exporters: the printed JSON, or ok=false when the exporter refused the batch
// (encoding/json cannot print NaN / Inf)

func (l *Loop) StdoutTrace(spans []sdktrace.ReadOnlySpan) ([]byte, bool) {
	l.soBuf.Reset()
	if err := l.soTrace.ExportSpans(context.Background(), spans); err != nil {
		return nil, false
	}
	return append([]byte(nil), l.soBuf.Bytes()...), true
}

func (l *Loop) StdoutMetric(rm *metricdata.ResourceMetrics) ([]byte, bool) {
	l.soBuf.Reset()
	if err := l.soMetric.Export(context.Background(), rm); err != nil {
		return nil, false
	}
	return append([]byte(nil), l.soBuf.Bytes()...), true
}

func (l *Loop) StdoutLog(recs []sdklog.Record) ([]byte, bool) {
	l.soBuf.Reset()
	cp := make([]sdklog.Record, len(recs))
	for i := range recs {
		cp[i] = recs[i].Clone()
	}
	if err := l.soLog.Export(context.Background(), cp); err != nil {
		return nil, false
	}
	return append([]byte(nil), l.soBuf.Bytes()...), true
}
