package main

// Log records: real LoggerProviders (one per resource index) and real Loggers (one per scope
// index) create the sdk/log Records; a capturing processor finishes them with the public
// setters of sdklog.Record.  Projection of decoded OTLP ResourceLogs back to the vocabulary.

import (
	"context"
	"fmt"
	"math/rand"
	"reflect"
	"strconv"
	"strings"
	"unsafe"

	"go.opentelemetry.io/otel/attribute"
	"go.opentelemetry.io/otel/log"
	"go.opentelemetry.io/otel/sdk/instrumentation"
	sdklog "go.opentelemetry.io/otel/sdk/log"
	"go.opentelemetry.io/otel/trace"
	commonpb "go.opentelemetry.io/proto/otlp/common/v1"
	logpb "go.opentelemetry.io/proto/otlp/logs/v1"
)

type LogFV struct {
	Ts      string `json:"ts"`
	Obs     string `json:"obs"`
	Sev     string `json:"sev"`
	Sevtext string `json:"sevtext"`
	Event   string `json:"event"`
	Body    string `json:"body"`
	Attrs   string `json:"attrs"`
	Dropped string `json:"dropped"`
	Ids     string `json:"ids"`
	Flags   string `json:"flags"`
}

const idAttr = "verif.id"
const dupAttr = "zz.dup"

type capProc struct{ recs []sdklog.Record }

func (p *capProc) OnEmit(_ context.Context, r *sdklog.Record) error {
	p.recs = append(p.recs, r.Clone())
	return nil
}
func (p *capProc) Shutdown(context.Context) error   { return nil }
func (p *capProc) ForceFlush(context.Context) error { return nil }

// severities outside the 0..24 range of the data model
var sevOutReps = []int{25, -1, 100, 1 << 20}

func sevOf(c string) log.Severity {
	if c == "sevout" {
		return log.Severity(sevOutReps[0])
	}
	n, err := strconv.Atoi(strings.TrimPrefix(c, "sev"))
	if err != nil || !strings.HasPrefix(c, "sev") {
		harnessBug("severity class %q", c)
	}
	return log.Severity(n)
}

// setDropped writes the unexported dropped counter the way the repository's own
// sdk/log/logtest.RecordFactory does; used only for counts the public API cannot reach.
func setDropped(r *sdklog.Record, n int) {
	rf := reflect.ValueOf(r).Elem().FieldByName("dropped")
	if !rf.IsValid() {
		harnessBug("sdklog.Record has no field 'dropped'")
	}
	reflect.NewAt(rf.Type(), unsafe.Pointer(rf.UnsafeAddr())).Elem().Set(reflect.ValueOf(n))
}

// loggerOf: the real Logger of a scope
func loggerOf(p *sdklog.LoggerProvider, sc instrumentation.Scope) log.Logger {
	opts := []log.LoggerOption{}
	if sc.Version != "" {
		opts = append(opts, log.WithInstrumentationVersion(sc.Version))
	}
	if sc.SchemaURL != "" {
		opts = append(opts, log.WithSchemaURL(sc.SchemaURL))
	}
	if sc.Attributes.Len() > 0 {
		opts = append(opts, log.WithInstrumentationAttributes(sc.Attributes.ToSlice()...))
	}
	return p.Logger(sc.Name, opts...)
}

// apiRecord: the API-level log record of an abstract item and the context (trace context) it is emitted with
func apiRecord(r *rand.Rand, id int, fv LogFV) (rec log.Record, ctx context.Context, tid trace.TraceID, sid trace.SpanID, fl trace.TraceFlags, body log.Value) {
	rec.SetTimestamp(concTime(r, fv.Ts))
	rec.SetObservedTimestamp(concTime(r, fv.Obs))
	if fv.Sev == "sevout" {
		rec.SetSeverity(log.Severity(pick(r, sevOutReps, "severity", fv.Sev)))
	} else {
		rec.SetSeverity(sevOf(fv.Sev))
	}
	st := concStr("sevtext", fv.Sevtext)
	if st != "" {
		st = fmt.Sprintf("%s#%d", st, id) // second carrier of the item id
	}
	rec.SetSeverityText(st)
	rec.SetEventName(concStr("event", fv.Event))
	body = pick(r, bodyReps[fv.Body], "body", fv.Body)
	rec.SetBody(body)
	var kvs []log.KeyValue
	if fv.Attrs != "labare" {
		kvs = append(kvs, log.Int(idAttr, id))
	}
	kvs = append(kvs, pick(r, logAttrReps[fv.Attrs], "log attrs", fv.Attrs)...)
	rec.AddAttributes(kvs...)
	switch fv.Ids {
	case "ids":
		tid, sid = mkTID("plain", id), mkSID("plain", id)
	case "hibit":
		tid, sid = mkTID("hibit", id), mkSID("hibit", id)
	case "tidonly":
		tid = mkTID("plain", id)
	case "sidonly":
		sid = mkSID("plain", id)
	case "noids":
	default:
		harnessBug("log ids class %q", fv.Ids)
	}
	switch fv.Flags {
	case "f1":
		fl = trace.FlagsSampled
	case "f0":
	default:
		harnessBug("flags class %q", fv.Flags)
	}
	ctx = trace.ContextWithSpanContext(context.Background(), trace.NewSpanContext(trace.SpanContextConfig{TraceID: tid, SpanID: sid, TraceFlags: fl}))
	return
}

func buildLogs(w *World, batch []Item) []sdklog.Record {
	r := w.rng
	provs := map[string]*sdklog.LoggerProvider{}
	cap := &capProc{}
	out := make([]sdklog.Record, 0, len(batch))
	for _, it := range batch {
		var fv LogFV
		mustJSON(it.FV, &fv)
		p, ok := provs[it.R]
		if !ok {
			p = sdklog.NewLoggerProvider(sdklog.WithResource(w.resourceOf(it.R, false)), sdklog.WithProcessor(cap),
				sdklog.WithAttributeCountLimit(-1), sdklog.WithAttributeValueLengthLimit(-1))
			provs[it.R] = p
		}
		lg := loggerOf(p, w.scopeOf(it.S))
		rec, ctx, tid, sid, fl, body := apiRecord(r, it.ID, fv)
		n0 := len(cap.recs)
		lg.Emit(ctx, rec)
		if len(cap.recs) != n0+1 {
			harnessBug("logger emitted %d records", len(cap.recs)-n0)
		}
		sr := cap.recs[n0]
		// what the SDK cannot be told through Emit is set with the Record's own setters
		sr.SetObservedTimestamp(concTime(r, fv.Obs)) // a zero observed time is replaced by now() in Emit
		sr.SetTraceID(tid)
		sr.SetSpanID(sid)
		sr.SetTraceFlags(fl)
		switch d := concCount(r, fv.Dropped); {
		case d == 0:
		case d <= 8:
			// public API: an attribute that overwrites an existing key counts as dropped
			for i := 0; i <= d; i++ {
				sr.AddAttributes(log.Int(dupAttr, i))
			}
		default:
			setDropped(&sr, d)
		}
		if got := sr.DroppedAttributes(); got != concCountOf(fv.Dropped, got) {
			harnessBug("record has %d dropped attributes, class %s", got, fv.Dropped)
		}
		if renderLogValue(sr.Body()) != renderLogValue(body) {
			harnessBug("the SDK altered the body of class %s", fv.Body)
		}
		out = append(out, sr)
	}
	return out
}

// concCountOf: got if it is a representative of class, else -1
func concCountOf(class string, got int) int {
	for _, v := range countReps[class] {
		if v == got {
			return got
		}
	}
	return -1
}

// ---------------------------------------------------------------- project

func projectLogRecord(lr *logpb.LogRecord) OutItem {
	fv := LogFV{
		Ts: absTime(lr.GetTimeUnixNano()), Obs: absTime(lr.GetObservedTimeUnixNano()),
		Event: absStr("event", lr.GetEventName()), Dropped: absCount(lr.GetDroppedAttributesCount()),
	}
	fv.Sev = absSev(int(lr.GetSeverityNumber()))
	id := -1
	// severity text "SEVTXT#<id>"
	st := lr.GetSeverityText()
	if st == "" {
		fv.Sevtext = "st0"
	} else if i := strings.LastIndexByte(st, '#'); i >= 0 {
		fv.Sevtext = absStr("sevtext", st[:i])
		if n, err := strconv.Atoi(st[i+1:]); err == nil {
			id = n
		}
	} else {
		fv.Sevtext = unk(st)
	}
	// attributes: the id attribute and the overwrite marker are not part of the class
	var rest []*commonpb.KeyValue
	pre := ""
	for _, kv := range lr.GetAttributes() {
		switch kv.GetKey() {
		case idAttr:
			pre = "id;"
			if iv, ok := kv.GetValue().GetValue().(*commonpb.AnyValue_IntValue); ok {
				if id >= 0 && id != int(iv.IntValue) {
					id = -2 // the two carriers disagree
				} else if id != -2 {
					id = int(iv.IntValue)
				}
			} else {
				id = -2
			}
		case dupAttr:
		default:
			rest = append(rest, kv)
		}
	}
	if c, ok := logAttrRev[pre+renderPBKVs(rest)]; ok {
		fv.Attrs = c
	} else {
		fv.Attrs = unk(pre + renderPBKVs(rest))
	}
	if c, ok := bodyRev[renderPBValue(lr.GetBody())]; ok {
		fv.Body = c
	} else {
		fv.Body = unk(renderPBValue(lr.GetBody()))
	}
	tid, sid := lr.GetTraceId(), lr.GetSpanId()
	switch {
	case len(tid) == 0 && len(sid) == 0:
		fv.Ids = "noids"
	case len(sid) == 0:
		if c, n := absTID(tid); c == "plain" && n == id {
			fv.Ids = "tidonly"
		} else {
			fv.Ids = unk(fmt.Sprintf("%x/-", tid))
		}
	case len(tid) == 0:
		if c, n := absSID(sid); c == "plain" && n == id {
			fv.Ids = "sidonly"
		} else {
			fv.Ids = unk(fmt.Sprintf("-/%x", sid))
		}
	default:
		c, n := absIDs(tid, sid)
		switch {
		case c == "plain" && n == id:
			fv.Ids = "ids"
		case c == "hibit" && n == id:
			fv.Ids = "hibit"
		default:
			fv.Ids = unk(fmt.Sprintf("%x/%x", tid, sid))
		}
	}
	switch lr.GetFlags() {
	case 0:
		fv.Flags = "f0"
	case 1:
		fv.Flags = "f1"
	default:
		fv.Flags = unk(fmt.Sprint(lr.GetFlags()))
	}
	return OutItem{ID: id, FV: fv}
}

func projectLogs(rls []*logpb.ResourceLogs) []ResGroup {
	out := []ResGroup{}
	for _, rl := range rls {
		g := ResGroup{RK: absResource(rl.GetResource(), rl.GetSchemaUrl()), Scopes: []ScopeGroup{}}
		for _, sl := range rl.GetScopeLogs() {
			sg := ScopeGroup{SK: absScope(sl.GetScope(), sl.GetSchemaUrl()), Items: []OutItem{}}
			for _, lr := range sl.GetLogRecords() {
				sg.Items = append(sg.Items, projectLogRecord(lr))
			}
			g.Scopes = append(g.Scopes, sg)
		}
		out = append(out, g)
	}
	return out
}

var _ = attribute.Key("")
