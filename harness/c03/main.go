// c03: conformance harness for specs/TraceContext (property C03).
//
//	c03 grammar -edges F -out R [-trace T -every K]   replay every TLC edge of TraceContext.tla
//	c03 edits   -edges F -out R                       replay every TLC edge of TraceState.tla
//	c03 random  -n N -out TRACE -res R                seeded random headers / edits -> ndjson for TLC
//
// The harness only EXECUTES the public API (propagation.TraceContext, trace.TraceState,
// trace.ParseTraceState) and PROJECTS what it observes; headers, keys and values travel as
// octet sequences (JSON arrays of numbers) so that the TLA+ grammar judges the very bytes
// the Go code saw.  No expected-result logic lives here.
package main

import (
	"bufio"
	"bytes"
	"context"
	"encoding/json"
	"flag"
	"fmt"
	"math/rand"
	"net/http"
	"os"
	"strings"

	"go.opentelemetry.io/otel/propagation"
	"go.opentelemetry.io/otel/sdk/verifh/vh"
	"go.opentelemetry.io/otel/trace"
)

// ---------------------------------------------------------------- projection helpers

type Member struct {
	K []int `json:"k"`
	V []int `json:"v"`
}

func ints(s string) []int {
	out := make([]int, len(s))
	for i := 0; i < len(s); i++ {
		out[i] = int(s[i])
	}
	return out
}

func str(a []int) string {
	b := make([]byte, len(a))
	for i, x := range a {
		b[i] = byte(x)
	}
	return string(b)
}

func members(ts trace.TraceState) []Member {
	out := []Member{}
	ts.Walk(func(k, v string) bool {
		out = append(out, Member{K: ints(k), V: ints(v)})
		return true
	})
	return out
}

func serialize(ms []Member) string {
	parts := make([]string, len(ms))
	for i, m := range ms {
		parts[i] = str(m.K) + "=" + str(m.V)
	}
	return strings.Join(parts, ",")
}

type SCObs struct {
	Valid   bool     `json:"valid"`
	Tid     []int    `json:"tid"`
	Sid     []int    `json:"sid"`
	Sampled bool     `json:"sampled"`
	Remote  bool     `json:"remote"`
	Members []Member `json:"members"`
}

var untouched = SCObs{Tid: []int{}, Sid: []int{}, Members: []Member{}}

// projectSC: what Extract left in the context, relative to what was there before.
func projectSC(before, after trace.SpanContext) SCObs {
	if after.Equal(before) {
		return untouched
	}
	return SCObs{Valid: after.IsValid(), Tid: ints(after.TraceID().String()), Sid: ints(after.SpanID().String()),
		Sampled: after.IsSampled(), Remote: after.IsRemote(), Members: members(after.TraceState())}
}

var localSC = trace.NewSpanContext(trace.SpanContextConfig{
	TraceID: trace.TraceID{0xee, 0xee, 0xee, 0xee, 0xee, 0xee, 0xee, 0xee, 0xee, 0xee, 0xee, 0xee, 0xee, 0xee, 0xee, 0xed},
	SpanID:  trace.SpanID{0xdd, 0xdd, 0xdd, 0xdd, 0xdd, 0xdd, 0xdd, 0xdc}, TraceFlags: trace.FlagsSampled,
})

func newCarrier(kind int) propagation.TextMapCarrier {
	if kind%2 == 1 {
		return propagation.HeaderCarrier(http.Header{})
	}
	return propagation.MapCarrier{}
}

// ---------------------------------------------------------------- executing one case

type Case struct {
	Op string `json:"op"`
	A  []int  `json:"a"`
	B  []int  `json:"b"`
}

// runCase executes one abstract case on the real code. variant selects carrier type / prior
// context. It returns the trace line (inputs + every observation) and the projected outcome.
func runCase(c Case, variant int) (line map[string]any, obs any, panicked any) {
	defer func() {
		if r := recover(); r != nil {
			panicked = r
		}
	}()
	line = map[string]any{"ev": c.Op, "a": c.A, "b": c.B, "variant": variant}
	if c.A == nil {
		line["a"] = []int{}
	}
	if c.B == nil {
		line["b"] = []int{}
	}
	switch c.Op {
	case "Member":
		ts, err := trace.TraceState{}.Insert(str(c.A), str(c.B))
		obs = map[string]any{"err": err != nil, "list": members(ts)}
	case "ParseTS":
		ts, err := trace.ParseTraceState(str(c.A))
		obs = map[string]any{"ok": err == nil, "members": members(ts)}
		line["str"] = ints(ts.String())
		line["len"] = ts.Len()
	case "Extract":
		prior := variant&2 != 0
		car := newCarrier(variant)
		if len(c.A) > 0 || variant&4 != 0 {
			car.Set("traceparent", str(c.A))
		}
		if len(c.B) > 0 || variant&4 != 0 {
			car.Set("tracestate", str(c.B))
		}
		ctx := context.Background()
		if prior {
			ctx = trace.ContextWithSpanContext(ctx, localSC)
		}
		before := trace.SpanContextFromContext(ctx)
		ctx2 := propagation.TraceContext{}.Extract(ctx, car)
		o := projectSC(before, trace.SpanContextFromContext(ctx2))
		obs = o
		line["prior"] = prior
		line["re"] = !prior
		line["rtp"], line["rts"] = []int{}, []int{}
		if !prior {
			back := propagation.MapCarrier{}
			propagation.TraceContext{}.Inject(ctx2, back)
			line["rtp"], line["rts"] = ints(back["traceparent"]), ints(back["tracestate"])
		}
	case "Inject":
		if len(c.A) != 25 {
			panic("harness: Inject case needs 25 numbers")
		}
		ts, err := trace.ParseTraceState(str(c.B))
		if err != nil {
			return nil, nil, "harness: Inject case with unparsable tracestate: " + err.Error()
		}
		line2, o := injectRoundTrip(c.A, ts, variant)
		for k, v := range line2 {
			line[k] = v
		}
		obs = o
	default:
		panic("harness: unknown op " + c.Op)
	}
	line["obs"] = obs
	return line, obs, nil
}

func injectRoundTrip(a []int, ts trace.TraceState, variant int) (map[string]any, SCObs) {
	var cfg trace.SpanContextConfig
	for i := 0; i < 16; i++ {
		cfg.TraceID[i] = byte(a[i])
	}
	for i := 0; i < 8; i++ {
		cfg.SpanID[i] = byte(a[16+i])
	}
	cfg.TraceFlags = trace.TraceFlags(a[24])
	cfg.TraceState = ts
	cfg.Remote = variant&2 != 0
	sc := trace.NewSpanContext(cfg)
	ctx := trace.ContextWithSpanContext(context.Background(), sc)
	car := newCarrier(variant)
	propagation.TraceContext{}.Inject(ctx, car)
	line := map[string]any{"list": members(ts), "ctp": ints(car.Get("traceparent")), "cts": ints(car.Get("tracestate")),
		"nkeys": len(car.Keys())}
	ctx2 := propagation.TraceContext{}.Extract(context.Background(), car)
	o := projectSC(trace.SpanContext{}, trace.SpanContextFromContext(ctx2))
	return line, o
}

func canonOf(v any) string {
	b, err := json.Marshal(v)
	vh.Must(err)
	return vh.Canon(b)
}

// ---------------------------------------------------------------- grammar replay (spec -> code)

type gEdge struct {
	Act Case `json:"act"`
	To  struct {
		Outs []json.RawMessage `json:"outs"`
	} `json:"to"`
}

func grammar(args []string) {
	fs := flag.NewFlagSet("grammar", flag.ExitOnError)
	edges := fs.String("edges", "", "")
	out := fs.String("out", "result.json", "")
	traceF := fs.String("trace", "", "also record every K-th executed case as a trace line for TLC")
	every := fs.Int("every", 1, "")
	fs.Parse(args)
	f, err := os.Open(*edges)
	vh.Must(err)
	defer f.Close()
	res := vh.NewResult()
	var tw *vh.TraceWriter
	if *traceF != "" {
		tw, err = vh.NewTraceWriter(*traceF)
		vh.Must(err)
	}
	sc := bufio.NewScanner(f)
	sc.Buffer(make([]byte, 1<<20), 1<<28)
	i := int64(0)
	for sc.Scan() {
		ln := bytes.TrimSpace(sc.Bytes())
		if len(ln) == 0 {
			continue
		}
		var e gEdge
		vh.Must(json.Unmarshal(ln, &e))
		i++
		res.Evaluations++
		want := map[string]bool{}
		for _, o := range e.To.Outs {
			want[vh.Canon(o)] = true
		}
		variants := []int{int(i+vh.Seed()) % 2}
		if e.Act.Op == "Extract" {
			// both carriers / absent-vs-empty headers over the run, and always with and without a
			// span context already present in the context
			v := int(i+vh.Seed()) % 2
			if (i/2)%2 == 0 {
				v |= 4
			}
			variants = []int{v, v | 2}
		}
		for _, variant := range variants {
			line, obs, p := runCase(e.Act, variant)
			res.Executed++
			if p != nil {
				if s, ok := p.(string); ok && strings.HasPrefix(s, "harness:") {
					res.Inconcl(s)
					continue
				}
				res.AddMismatch(vh.Mismatch{Kind: "panic", Case: e.Act, Act: e.Act, Detail: fmt.Sprint(p)})
				continue
			}
			res.Count("op_"+e.Act.Op, 1)
			if len(want) > 1 {
				res.Count("cases_with_choice", 1)
			}
			if !want[canonOf(obs)] {
				res.AddMismatch(vh.Mismatch{Kind: "outcome", Case: e.Act, Act: e.Act, Want: e.To.Outs, Got: obs,
					Detail: fmt.Sprintf("variant %d", variant)})
			}
			if tw != nil && (i+vh.Seed())%int64(*every) == 0 {
				tw.Emit(line)
			}
			if i%1499 == 0 {
				res.Sample(map[string]any{"act": e.Act, "outs": e.To.Outs, "got": obs})
			}
		}
	}
	vh.Must(sc.Err())
	if tw != nil {
		vh.Must(tw.Close())
		res.Count("trace_lines", tw.N)
	}
	vh.Must(res.Write(*out))
}

// ---------------------------------------------------------------- edit replay (spec -> code)

type EditAct struct {
	Op string `json:"op"`
	K  []int  `json:"k"`
	V  []int  `json:"v"`
}
type EditState struct {
	List []Member `json:"list"`
}
type EditObs struct {
	List   []Member `json:"list"`
	Err    bool     `json:"err"`
	Frozen bool     `json:"frozen"`
}

// applyEdit performs one edit on the real TraceState.
func applyEdit(ts trace.TraceState, a EditAct) (trace.TraceState, bool) {
	switch a.Op {
	case "Insert":
		n, err := ts.Insert(str(a.K), str(a.V))
		return n, err != nil
	case "Delete":
		return ts.Delete(str(a.K)), false
	}
	panic("harness: unknown edit " + a.Op)
}

// runEdits: parse the initial list, apply ops, and re-read every earlier value at the end.
func runEdits(init []Member, ops []EditAct) (obs EditObs, path []string, panicked any) {
	defer func() {
		if r := recover(); r != nil {
			panicked = r
		}
	}()
	ts, err := trace.ParseTraceState(serialize(init))
	if err != nil {
		return obs, nil, "harness: initial list does not parse: " + err.Error()
	}
	versions := []trace.TraceState{ts}
	seen := []string{canonOf(members(ts))}
	path = append(path, seen[0])
	lastErr := false
	for _, op := range ops {
		ts, lastErr = applyEdit(ts, op)
		versions = append(versions, ts)
		seen = append(seen, canonOf(members(ts)))
		path = append(path, seen[len(seen)-1])
	}
	frozen := true
	for i, v := range versions {
		if canonOf(members(v)) != seen[i] {
			frozen = false
		}
	}
	return EditObs{List: members(ts), Err: lastErr, Frozen: frozen}, path, nil
}

// editOut is what an edit edge RETURNS besides the successor list (the edge's `out` field; vh.Edge
// only carries from/act/to, whose shapes are identical so that vh.LoadEdges can chain them).
type editOut struct {
	Out struct {
		Err    bool `json:"err"`
		Frozen bool `json:"frozen"`
	} `json:"out"`
}

// loadEditOuts reads the `out` field of every edge, index-aligned with vh.LoadEdges.
func loadEditOuts(path string) []editOut {
	f, err := os.Open(path)
	vh.Must(err)
	defer f.Close()
	var outs []editOut
	sc := bufio.NewScanner(f)
	sc.Buffer(make([]byte, 1<<20), 1<<28)
	for sc.Scan() {
		ln := bytes.TrimSpace(sc.Bytes())
		if len(ln) == 0 {
			continue
		}
		if !bytes.Contains(ln, []byte(`"out":`)) {
			vh.Must(fmt.Errorf("edit edge %d has no out field (spec/harness drift)", len(outs)))
		}
		var o editOut
		vh.Must(json.Unmarshal(ln, &o))
		outs = append(outs, o)
	}
	vh.Must(sc.Err())
	return outs
}

func edits(args []string) {
	fs := flag.NewFlagSet("edits", flag.ExitOnError)
	edges := fs.String("edges", "", "")
	out := fs.String("out", "result.json", "")
	fs.Parse(args)
	g, err := vh.LoadEdges(*edges)
	vh.Must(err)
	outs := loadEditOuts(*edges)
	if len(outs) != len(g.Edges) {
		vh.Must(fmt.Errorf("edit edges: %d out fields for %d edges", len(outs), len(g.Edges)))
	}
	res := vh.NewResult()
	var init EditState
	vh.Must(json.Unmarshal(g.Edges[0].From, &init))
	// the spec's full answer for edge i: successor list + returned error + copy-on-write flag
	wantOf := func(i int) EditObs {
		var to EditState
		vh.Must(json.Unmarshal(g.Edges[i].To, &to))
		if to.List == nil {
			to.List = []Member{}
		}
		return EditObs{List: to.List, Err: outs[i].Out.Err, Frozen: outs[i].Out.Frozen}
	}
	// admissible successors per (source, action): Level-2-only keys give Insert two branches
	type key struct{ from, act string }
	adm := map[key]map[string]bool{}
	for i, e := range g.Edges {
		k := key{vh.Canon(e.From), vh.Canon(e.Act)}
		if adm[k] == nil {
			adm[k] = map[string]bool{}
		}
		adm[k][canonOf(wantOf(i))] = true
	}
	done := map[key]bool{}
	for i, e := range g.Edges {
		res.Evaluations++
		k := key{vh.Canon(e.From), vh.Canon(e.Act)}
		if done[k] {
			continue
		}
		done[k] = true
		res.Count("edit_cases", 1)
		pathRaw, ok := g.Path(i)
		if !ok {
			res.Inconcl(fmt.Sprintf("edge %d: source not reachable in BFS tree", i))
			continue
		}
		var ops []EditAct
		for _, r := range append(pathRaw, e.Act) {
			var a EditAct
			vh.Must(json.Unmarshal(r, &a))
			ops = append(ops, a)
		}
		got, states, p := runEdits(init.List, ops)
		if p != nil {
			if s, ok := p.(string); ok && strings.HasPrefix(s, "harness:") {
				res.Inconcl(s)
				continue
			}
			res.Executed++
			res.AddMismatch(vh.Mismatch{Kind: "panic", Case: ops[len(ops)-1], Path: ops[:len(ops)-1], Act: ops[len(ops)-1], Detail: fmt.Sprint(p)})
			continue
		}
		// the source state must have been reached on the real code (it was verified as the
		// target of an earlier edge; with a two-branch edge on the path the real code may have
		// taken the other branch: then this edge is not reachable this way)
		var from EditState
		vh.Must(json.Unmarshal(e.From, &from))
		if states[len(states)-2] != canonOf(from.List) {
			res.Count("source_not_reached", 1)
			continue
		}
		res.Executed++
		res.Count("edit_depth_max", max(0, int64(len(ops))-res.Counters["edit_depth_max"]))
		if len(adm[k]) > 1 {
			res.Count("edit_cases_with_choice", 1)
		}
		if !adm[k][canonOf(got)] {
			res.AddMismatch(vh.Mismatch{Kind: "edit", Case: ops[len(ops)-1], Path: ops[:len(ops)-1], Act: ops[len(ops)-1],
				Want: wantOf(i), Got: got, Detail: fmt.Sprintf("initial members %d", len(init.List))})
		}
		last := ops[len(ops)-1]
		if got.Err {
			res.Count("edits_refused", 1)
		}
		if len(ops) > 1 {
			res.Count("edits_from_non_initial_state", 1)
		}
		if last.Op == "Insert" && !got.Err {
			if len(from.List) == 32 && len(got.List) == 32 {
				res.Count("edits_at_capacity", 1)
			}
			if len(got.List) > len(from.List) {
				res.Count("edits_insert_new", 1)
			} else {
				res.Count("edits_insert_update_or_evict", 1)
			}
		}
		if last.Op == "Delete" {
			if len(got.List) < len(from.List) {
				res.Count("edits_delete_present", 1)
			} else {
				res.Count("edits_delete_absent", 1)
			}
		}
		if i%499 == 0 {
			res.Sample(map[string]any{"init_members": len(init.List), "ops": ops, "got": got})
		}
	}
	vh.Must(res.Write(*out))
}

// ---------------------------------------------------------------- random driver (code -> spec)

const keyChars = "abcdefghijklmnopqrstuvwxyz0123456789_-*/"
const lower = "abcdefghijklmnopqrstuvwxyz"
const hexdig = "0123456789abcdef"

// odd characters: every symbol class of DESIGN App. C that is NOT legal somewhere
var oddChars = []string{
	"A", "Z", " ", "\t", "=", ",", "@", "\x00", "\x1f", "\x7f", "\n",
	"š", "İ", "ĭ", "ş", "Ī", "į", "ɡ", "⁡", "\U0001f361", // low byte is a legal key octet
	"é", "€", "\xff", "\xe1", "\xc3", "\x80", "~", "!", ";", ":", "\"", "%",
}

type gen struct {
	r   *rand.Rand
	res *vh.Result
}

func (g *gen) pick(s string) byte { return s[g.r.Intn(len(s))] }
func (g *gen) run(alpha string, n int) string {
	b := make([]byte, n)
	for i := range b {
		b[i] = g.pick(alpha)
	}
	return string(b)
}
func (g *gen) oneOf(xs ...int) int { return xs[g.r.Intn(len(xs))] }
func (g *gen) odd() string         { return oddChars[g.r.Intn(len(oddChars))] }

// mutate: replace / insert / delete one position with an odd character
func (g *gen) mutate(s string) string {
	if len(s) == 0 {
		return g.odd()
	}
	p := g.r.Intn(len(s))
	switch g.r.Intn(3) {
	case 0:
		return s[:p] + g.odd() + s[p+1:]
	case 1:
		return s[:p] + g.odd() + s[p:]
	default:
		return s[:p] + s[p+1:]
	}
}

func (g *gen) key() string {
	switch g.r.Intn(12) {
	case 0, 1, 2, 3:
		g.res.Count("gen_key_simple", 1)
		return string(g.pick(lower)) + g.run(keyChars, g.oneOf(0, 1, 2, 5, 9))
	case 4:
		g.res.Count("gen_key_simple_boundary", 1)
		return string(g.pick(lower)) + g.run(keyChars, g.oneOf(254, 255, 256))
	case 5:
		g.res.Count("gen_key_tenant", 1)
		return string(g.pick(lower+"0123456789")) + g.run(keyChars, g.oneOf(0, 1, 3)) + "@" + string(g.pick(lower)) + g.run(keyChars, g.oneOf(0, 1, 5))
	case 6:
		g.res.Count("gen_key_tenant_boundary", 1)
		return string(g.pick(lower+"0123456789")) + g.run(keyChars, g.oneOf(0, 239, 240, 241)) + "@" + string(g.pick(lower)) + g.run(keyChars, g.oneOf(0, 12, 13, 14))
	case 7:
		g.res.Count("gen_key_digit_first", 1)
		return string(g.pick("0123456789")) + g.run(keyChars, g.oneOf(0, 1, 4))
	case 8:
		g.res.Count("gen_key_two_at", 1)
		return g.run(lower, 1+g.r.Intn(3)) + "@" + g.run(lower, g.r.Intn(3)) + "@" + g.run(lower, g.r.Intn(3))
	case 9:
		return ""
	default:
		g.res.Count("gen_key_mutated", 1)
		base := string(g.pick(lower)) + g.run(keyChars, g.oneOf(0, 1, 2, 5))
		if g.r.Intn(3) == 0 {
			base += "@" + g.run(lower, 1+g.r.Intn(3))
		}
		return g.mutate(base)
	}
}

const valChars = "abcXYZ019!#$%&'()*+-./:;<>?@[\\]^_`{|}~ "

func (g *gen) value() string {
	switch g.r.Intn(10) {
	case 0, 1, 2, 3, 4:
		return g.run(valChars, g.oneOf(0, 1, 2, 7)) + string(g.pick("az09~!"))
	case 5:
		g.res.Count("gen_value_boundary", 1)
		return g.run(valChars, g.oneOf(254, 255, 256)) + string(g.pick("az09~!"))
	case 6:
		g.res.Count("gen_value_trailing_space", 1)
		return g.run(valChars, g.r.Intn(3)) + "x" + g.run(" ", 1+g.r.Intn(2))
	case 7:
		return ""
	default:
		g.res.Count("gen_value_mutated", 1)
		return g.mutate(g.run(valChars, g.r.Intn(4)) + "v")
	}
}

func (g *gen) goodKey() string {
	if g.r.Intn(4) == 0 {
		return string(g.pick(lower+"0123456789")) + g.run(keyChars, g.r.Intn(3)) + "@" + string(g.pick(lower)) + g.run(keyChars, g.r.Intn(3))
	}
	return string(g.pick(lower)) + g.run(keyChars, 1+g.r.Intn(6))
}
func (g *gen) goodValue() string {
	return g.run(valChars, g.r.Intn(5)) + string(g.pick("az09~!"))
}
func (g *gen) ows() string {
	return []string{"", "", " ", "\t", " \t", "  "}[g.r.Intn(6)]
}

// goodMembers: n distinct legal members
func (g *gen) goodMembers(n int) []string {
	seen := map[string]bool{}
	out := []string{}
	for len(out) < n {
		k := g.goodKey()
		if seen[k] {
			continue
		}
		seen[k] = true
		out = append(out, k+"="+g.goodValue())
	}
	return out
}

func (g *gen) tracestate() string {
	n := g.oneOf(0, 1, 1, 2, 3, 3, 5, 31, 32, 33, 34)
	ms := g.goodMembers(n)
	mode := g.r.Intn(10)
	switch {
	case mode == 0:
		g.res.Count("gen_ts_random_bytes", 1)
		b := make([]byte, g.r.Intn(40))
		g.r.Read(b)
		return string(b)
	case mode == 1 && n > 0:
		g.res.Count("gen_ts_duplicate_key", 1)
		k, _, _ := strings.Cut(ms[g.r.Intn(n)], "=")
		ms = append(ms, k+"="+g.goodValue())
		g.r.Shuffle(len(ms), func(i, j int) { ms[i], ms[j] = ms[j], ms[i] })
	case mode == 2:
		g.res.Count("gen_ts_odd_member", 1)
		p := g.r.Intn(len(ms) + 1)
		ms = append(ms[:p], append([]string{g.key() + "=" + g.value()}, ms[p:]...)...)
	case mode == 3:
		g.res.Count("gen_ts_empty_or_blank_member", 1)
		p := g.r.Intn(len(ms) + 1)
		ms = append(ms[:p], append([]string{[]string{"", "", " ", "\t", "  "}[g.r.Intn(5)]}, ms[p:]...)...)
	case mode == 4 && n > 0:
		g.res.Count("gen_ts_member_without_eq", 1)
		p := g.r.Intn(n)
		ms[p] = strings.Replace(ms[p], "=", []string{"", "==", " = ", "= "}[g.r.Intn(4)], 1)
	}
	if n >= 31 {
		g.res.Count(fmt.Sprintf("gen_ts_members_%d", len(ms)), 1)
	}
	var sb strings.Builder
	withOWS := g.r.Intn(2) == 0
	for i, m := range ms {
		if i > 0 {
			sb.WriteString(",")
		}
		if withOWS {
			sb.WriteString(g.ows())
		}
		sb.WriteString(m)
		if withOWS {
			sb.WriteString(g.ows())
		}
	}
	h := sb.String()
	if g.r.Intn(8) == 0 {
		g.res.Count("gen_ts_byte_mutation", 1)
		h = g.mutate(h)
	}
	return h
}

func (g *gen) traceparent() string {
	tid := g.run(hexdig, 32)
	sid := g.run(hexdig, 16)
	ver := "00"
	fl := []string{"00", "01", "01", "00", "02", "03", "09", "ff", "a1"}[g.r.Intn(9)]
	trail := ""
	switch g.r.Intn(14) {
	case 0:
		ver = []string{"01", "cc", "fe", "ff", "0f", "f0"}[g.r.Intn(6)]
		g.res.Count("gen_tp_other_version", 1)
	case 1:
		tid = strings.Repeat("0", 32)
		g.res.Count("gen_tp_zero_id", 1)
	case 2:
		sid = strings.Repeat("0", 16)
		g.res.Count("gen_tp_zero_id", 1)
	case 3:
		trail = []string{"-", "-x", "x", "-00", ".", " ", "--", "-š"}[g.r.Intn(8)]
		if g.r.Intn(2) == 0 {
			ver = []string{"01", "cc", "fe"}[g.r.Intn(3)]
		}
		g.res.Count("gen_tp_trailing", 1)
	}
	h := ver + "-" + tid + "-" + sid + "-" + fl + trail
	switch g.r.Intn(10) {
	case 0:
		p := g.r.Intn(len(h))
		h = h[:p] + strings.ToUpper(h[p:p+1]) + h[p+1:]
		g.res.Count("gen_tp_upper", 1)
	case 1, 2:
		h = g.mutate(h)
		g.res.Count("gen_tp_mutated", 1)
	case 3:
		h = h[:g.r.Intn(len(h)+1)]
		g.res.Count("gen_tp_truncated", 1)
	case 4:
		h = g.ows() + h + g.ows()
	case 5:
		b := make([]byte, g.r.Intn(60))
		g.r.Read(b)
		h = string(b)
	}
	return h
}

func random(args []string) {
	fs := flag.NewFlagSet("random", flag.ExitOnError)
	n := fs.Int("n", 200, "")
	out := fs.String("out", "trace.ndjson", "")
	resF := fs.String("res", "result.json", "")
	fs.Parse(args)
	res := vh.NewResult()
	g := &gen{r: rand.New(rand.NewSource(vh.Seed())), res: res}
	tw, err := vh.NewTraceWriter(*out)
	vh.Must(err)
	emit := func(c Case, variant int) any {
		line, obs, p := runCase(c, variant)
		res.Executed++
		if p != nil {
			res.AddMismatch(vh.Mismatch{Kind: "panic", Case: c, Act: c, Detail: fmt.Sprint(p)})
			return nil
		}
		tw.Emit(line)
		return obs
	}
	for i := 0; i < *n; i++ {
		res.Evaluations++
		// --- a member offered to Insert on the empty tracestate
		emit(Case{Op: "Member", A: ints(g.key()), B: ints(g.value())}, 0)
		// --- a tracestate header on its own and next to a good / random traceparent
		ts := g.tracestate()
		if o, ok := emit(Case{Op: "ParseTS", A: ints(ts), B: []int{}}, 0).(map[string]any); ok {
			if o["ok"].(bool) {
				res.Count("obs_ts_accepted", 1)
			} else {
				res.Count("obs_ts_rejected", 1)
			}
		}
		tp := g.traceparent()
		if i%3 == 0 {
			tp = "00-" + g.run(hexdig, 31) + "1-" + g.run(hexdig, 15) + "1-0" + string(g.pick("01"))
		}
		if o, ok := emit(Case{Op: "Extract", A: ints(tp), B: ints(ts)}, g.r.Intn(8)).(SCObs); ok {
			if o.Valid {
				res.Count("obs_extract_valid", 1)
				if len(o.Members) > 0 {
					res.Count("obs_extract_with_tracestate", 1)
				}
			} else {
				res.Count("obs_extract_untouched", 1)
			}
		}
		emit(Case{Op: "Extract", A: ints(g.traceparent()), B: []int{}}, g.r.Intn(8))
		// --- an edit scenario at the real capacity, then a round trip of its result
		if i%4 == 0 {
			start := g.oneOf(0, 1, 5, 30, 31, 32)
			pool := g.goodMembers(start + 6)
			h := strings.Join(pool[:start], ",")
			tsv, perr := trace.ParseTraceState(h)
			tw.Emit(map[string]any{"ev": "New", "a": ints(h), "b": []int{}, "obs": map[string]any{"ok": perr == nil, "members": members(tsv)}})
			versions := []trace.TraceState{tsv}
			nops := 4 + g.r.Intn(10)
			for j := 0; j < nops; j++ {
				cur := members(versions[len(versions)-1])
				var a EditAct
				existing := func() []int {
					if len(cur) == 0 {
						return ints(g.goodKey())
					}
					return cur[[]int{0, len(cur) - 1, g.r.Intn(len(cur))}[g.r.Intn(3)]].K
				}
				switch g.r.Intn(10) {
				case 0, 1, 2, 3:
					k, _, _ := strings.Cut(pool[g.r.Intn(len(pool))], "=")
					a = EditAct{Op: "Insert", K: ints(k), V: ints(g.goodValue())}
					res.Count("gen_edit_insert_new_or_known", 1)
				case 4, 5:
					a = EditAct{Op: "Insert", K: existing(), V: ints(g.goodValue())}
					res.Count("gen_edit_update", 1)
				case 6:
					a = EditAct{Op: "Insert", K: ints(g.key()), V: ints(g.value())}
					res.Count("gen_edit_insert_odd", 1)
				case 7, 8:
					a = EditAct{Op: "Delete", K: existing(), V: []int{}}
					res.Count("gen_edit_delete", 1)
				default:
					a = EditAct{Op: "Delete", K: ints(g.key()), V: []int{}}
				}
				var nts trace.TraceState
				var failed bool
				func() {
					defer func() {
						if r := recover(); r != nil {
							res.AddMismatch(vh.Mismatch{Kind: "panic", Case: a, Act: a, Detail: fmt.Sprint(r)})
							nts = versions[len(versions)-1]
						}
					}()
					nts, failed = applyEdit(versions[len(versions)-1], a)
				}()
				res.Executed++
				if len(cur) == 32 && !failed && a.Op == "Insert" {
					res.Count("obs_edit_on_full_list", 1)
				}
				olds := []map[string]any{}
				for _, idx := range []int{0, len(versions) - 1, g.r.Intn(len(versions))} {
					olds = append(olds, map[string]any{"i": idx + 1, "list": members(versions[idx])})
				}
				versions = append(versions, nts)
				tw.Emit(map[string]any{"ev": "Edit", "op": a.Op, "a": a.K, "b": a.V,
					"obs": map[string]any{"err": failed, "list": members(nts)},
					"str": ints(nts.String()), "len": nts.Len(), "get": ints(nts.Get(str(a.K))), "olds": olds})
			}
			// round trip of a span context carrying the edited tracestate
			ids := make([]int, 25)
			for j := range ids {
				ids[j] = g.r.Intn(256)
			}
			switch g.r.Intn(8) {
			case 0:
				for j := 0; j < 16; j++ {
					ids[j] = 0
				}
				res.Count("gen_inject_invalid_sc", 1)
			case 1:
				for j := 16; j < 24; j++ {
					ids[j] = 0
				}
				res.Count("gen_inject_invalid_sc", 1)
			case 2:
				for j := 0; j < 24; j++ {
					ids[j] = 0
				}
				ids[15], ids[23] = 1, 1
			}
			final := versions[len(versions)-1]
			variant := g.r.Intn(4)
			func() {
				defer func() {
					if r := recover(); r != nil {
						res.AddMismatch(vh.Mismatch{Kind: "panic", Case: map[string]any{"op": "Inject", "a": ids}, Detail: fmt.Sprint(r)})
					}
				}()
				line, o := injectRoundTrip(ids, final, variant)
				line["ev"], line["a"], line["b"], line["obs"] = "Inject", ids, ints(final.String()), o
				tw.Emit(line)
				res.Executed++
				res.Count("obs_roundtrips", 1)
			}()
		}
		if i < 2 {
			res.Sample(map[string]any{"tracestate": ts, "traceparent": tp})
		}
	}
	vh.Must(tw.Close())
	res.Count("trace_lines", tw.N)
	vh.Must(res.Write(*resF))
}

func main() {
	if len(os.Args) < 2 {
		fmt.Println("usage: c03 grammar|edits|random ...")
		os.Exit(3)
	}
	switch os.Args[1] {
	case "grammar":
		grammar(os.Args[2:])
	case "edits":
		edits(os.Args[2:])
	case "random":
		random(os.Args[2:])
	default:
		os.Exit(3)
	}
}
