// c18: conformance harness for specs/PromExport (property C18). See core.go.
//
//	c18 replay -scheme S -edges F -consts C -out TRACE -res R   replay TLC scenarios (EDGE {path, act}) on a real exporter
//	c18 random -scheme S -n N -out TRACE -res R                 seeded random scenarios -> ndjson trace for TLC
//	c18 conc   -scheme S -n N -out TRACE -res R                 scrapers || recorders -> ndjson trace for TLC
//	c18 probe  -scheme S                                        ad-hoc experiments (development aid)
//
// The harness only executes and projects: every judgement is made by Trace_PromExport.tla.
// model.NameValidationScheme is process-global: one process per scheme.
package main

import (
	"bufio"
	"bytes"
	"context"
	"encoding/json"
	"flag"
	"fmt"
	"math"
	"os"

	"github.com/prometheus/common/model"

	"go.opentelemetry.io/otel/attribute"
	"go.opentelemetry.io/otel/sdk/verifh/vh"
)

var (
	scheme       = new(string)
	expoMaxScale = new(int)
)

func commonFlags(fs *flag.FlagSet) {
	fs.StringVar(scheme, "scheme", "utf8", "legacy|utf8 (process-global model.NameValidationScheme)")
	fs.IntVar(expoMaxScale, "exposcale", 20, "MaxScale of exponential histogram views (replay/probe)")
}

func applyScheme() {
	switch *scheme {
	case "legacy":
		model.NameValidationScheme = model.LegacyValidation //nolint:staticcheck
	case "utf8":
		model.NameValidationScheme = model.UTF8Validation //nolint:staticcheck
	default:
		fmt.Fprintln(os.Stderr, "bad -scheme")
		os.Exit(3)
	}
}

// ---------------------------------------------------------------- scenarios

// Op is one abstract operation (PromExport.tla actions).
type Op struct {
	Op   string          `json:"op"`
	Opts *Opts           `json:"opts,omitempty"`
	Inst json.RawMessage `json:"inst,omitempty"` // Create: instrument record; Rec: instrument id
	AS   int             `json:"as,omitempty"`
	V    fnum            `json:"v,omitempty"`
	SP   bool            `json:"sp,omitempty"` // Rec inside a sampled span
	F    string          `json:"f,omitempty"`  // Fault: which fault of the collection (faults.go)
	On   bool            `json:"on,omitempty"` // Fault: armed / cleared

	inst Inst
	id   int
}

// fnum is a measurement value; non-finite values (a gauge may record +Inf) are written as text in samples.
type fnum float64

func (f fnum) MarshalJSON() ([]byte, error) {
	v := float64(f)
	if math.IsInf(v, 0) || math.IsNaN(v) {
		return json.Marshal(fmtF(v))
	}
	return json.Marshal(v)
}

func (o *Op) decode() error {
	switch o.Op {
	case "Create":
		return json.Unmarshal(o.Inst, &o.inst)
	case "Rec":
		return json.Unmarshal(o.Inst, &o.id)
	}
	return nil
}

type Scenario struct {
	ID       string
	Res      []Attr
	ASes     [][]Attr
	Scopes   []ScopeRec
	NoMark   bool // measurements do not carry the vinst marker
	Ops      []Op
	MaxScale int
}

var (
	boundsText = []string{fmtF(histBounds[0]), fmtF(histBounds[1])}
	qbounds    = []int64{int64(histBounds[0] * 8), int64(histBounds[1] * 8)}
)

// filteredKeys: the keys of the scenario that the view's attribute filter removes.
func filteredKeys(ases [][]Attr) []attribute.Key {
	seen := map[string]bool{}
	out := []attribute.Key{}
	for _, as := range ases {
		for _, a := range as {
			if k := render(a.K); a.F && !seen[k] {
				seen[k] = true
				out = append(out, attribute.Key(k))
			}
		}
	}
	return out
}

// runScenario executes a scenario on a real exporter + provider and writes the trace lines.
func runScenario(sc *Scenario, tw *vh.TraceWriter, res *vh.Result) {
	var wd *world
	created := []Inst{}
	phase := "unreg" // unreg -> reg (Register) -> down (Shutdown)
	defer func() {
		if wd != nil {
			wd.close()
		}
	}()
	for i := range sc.Ops {
		op := &sc.Ops[i]
		switch op.Op {
		case "New":
			var err error
			wd, err = newWorld(*op.Opts, sc.Res)
			if err != nil {
				res.Inconcl(fmt.Sprintf("%s: New: %v", sc.ID, err))
				return
			}
			wd.maxScale = sc.MaxScale
			if sc.Scopes == nil {
				sc.Scopes = []ScopeRec{}
			}
			for i := range sc.Scopes {
				if sc.Scopes[i].Attrs == nil {
					sc.Scopes[i].Attrs = []Attr{}
				}
			}
			wd.scopeRecs = sc.Scopes
			wd.filtered = filteredKeys(sc.ASes)
			wd.mark = !sc.NoMark
			tw.Emit(map[string]any{"ev": "New", "sc": sc.ID, "opts": op.Opts, "res": sc.Res, "ases": sc.ASes, "bounds": boundsText,
				"qbounds": qbounds, "scopes": sc.Scopes, "mark": wd.mark})
		case "Register":
			wd.register()
			phase = "reg"
		case "Shutdown":
			// the last state, as the SDK sees it, is recorded before the provider goes down
			streams, ck, err := wd.sdkViewKind()
			if err != nil {
				res.Inconcl(fmt.Sprintf("%s: Reader.Collect: %v", sc.ID, err))
				return
			}
			tw.Emit(map[string]any{"ev": "Env", "sc": sc.ID, "insts": created, "streams": streams, "ck": ck, "faults": wd.flt.list()})
			_ = wd.mp.Shutdown(context.Background())
			phase = "down"
			res.Count("provider-shutdowns", 1)
		case "Create":
			if err := wd.create(op.inst); err != nil {
				// the property quantifies over valid instruments: an SDK rejection is a generator bug
				res.Inconcl(fmt.Sprintf("%s: Create %q: %v", sc.ID, render(op.inst.Toks), err))
				return
			}
			created = append(created, op.inst)
		case "Rec":
			wd.recordIn(op.id, op.AS, sc.ASes[op.AS-1], float64(op.V), op.SP)
			res.Evaluations++
		case "Fault":
			if err := wd.setFault(op.F, op.On); err != nil {
				res.Inconcl(fmt.Sprintf("%s: Fault %s: %v", sc.ID, op.F, err))
				return
			}
			res.Count("fault-toggles", 1)
		case "Scrape":
			streams := []SStream{}
			faults := wd.flt.list()
			if phase == "reg" {
				var err error
				var ck string
				streams, ck, err = wd.sdkViewKind()
				if err != nil {
					res.Inconcl(fmt.Sprintf("%s: Reader.Collect: %v", sc.ID, err))
					return
				}
				tw.Emit(map[string]any{"ev": "Env", "sc": sc.ID, "insts": created, "streams": streams, "ck": ck, "faults": faults})
				res.Count("collections-"+ck, 1)
				for _, f := range faults {
					res.Count("scrapes-behind-fault-"+f, 1)
				}
			} else {
				res.Count("scrapes-"+phase, 1) // before registration / after shutdown
			}
			o := wd.collectObs()
			tw.Emit(map[string]any{"ev": "Scrape", "sc": sc.ID, "via": "collect", "phase": phase, "faults": faults, "obs": o})
			res.Count("scrapes", 1)
			countObs(res, streams, o)
			if o.Panic == "" {
				o2 := wd.gatherObs()
				tw.Emit(map[string]any{"ev": "Scrape", "sc": sc.ID, "via": "gather", "phase": phase, "faults": faults, "obs": o2})
				res.Count("scrapes", 1)
			}
		}
	}
	res.Executed++
}

// countObs: regime counters (vacuity evidence only, no judgement).
func countObs(res *vh.Result, streams []SStream, o Obs) {
	if o.Panic != "" {
		res.Count("scrape-panicked", 1)
	}
	if o.GatherErr != "" {
		res.Count("registry-error", 1)
	}
	nser := 0
	for _, f := range o.Fams {
		nser += len(f.Series)
		for _, s := range f.Series {
			if s.Native {
				res.Count("native-histogram-series", 1)
			}
			res.Count("exposed-exemplars", int64(len(s.Exs)))
			for _, l := range s.Labels {
				if bytes.ContainsRune([]byte(l[1]), ';') {
					res.Count("merged-label-values", 1)
					break
				}
			}
		}
	}
	npts := 0
	for _, st := range streams {
		npts += len(st.Points)
		for _, p := range st.Points {
			res.Count("sdk-exemplars", int64(len(p.Exs)))
		}
		res.Count("sdk-stream-"+st.Data, 1)
	}
	res.Count("sdk-points", int64(npts))
	res.Count("exposed-series", int64(nser))
}

// ---------------------------------------------------------------- replay of TLC scenarios

type edge struct {
	Path []Op `json:"path"`
	Act  Op   `json:"act"`
}

type consts struct {
	Res    []Attr     `json:"res"`
	ASes   [][]Attr   `json:"ases"`
	Scopes []ScopeRec `json:"scopes"`
	NoMark bool       `json:"nomark"`
}

func replay(args []string) {
	fs := flag.NewFlagSet("replay", flag.ExitOnError)
	commonFlags(fs)
	edgesF := fs.String("edges", "", "ndjson of EDGE {path, act} records (scrape edges)")
	constsF := fs.String("consts", "", "json {res, ases}: the constants of the TLC configuration")
	outF := fs.String("out", "trace.ndjson", "")
	resF := fs.String("res", "replay.json", "")
	tag := fs.String("tag", "e", "scenario id prefix")
	fs.Parse(args)
	applyScheme()
	var c consts
	b, err := os.ReadFile(*constsF)
	vh.Must(err)
	vh.Must(json.Unmarshal(b, &c))
	f, err := os.Open(*edgesF)
	vh.Must(err)
	defer f.Close()
	tw, err := vh.NewTraceWriter(*outF)
	vh.Must(err)
	res := vh.NewResult()
	scn := bufio.NewScanner(f)
	scn.Buffer(make([]byte, 1<<20), 1<<28)
	n := 0
	for scn.Scan() {
		line := bytes.TrimSpace(scn.Bytes())
		if len(line) == 0 {
			continue
		}
		n++
		var e edge
		vh.Must(json.Unmarshal(line, &e))
		ops := append(e.Path, e.Act)
		if len(ops) == 0 || ops[0].Op != "New" || ops[0].Opts == nil {
			vh.Must(fmt.Errorf("edge %d does not start with New", n))
		}
		if ops[0].Opts.Scheme != *scheme {
			continue // the other process replays it
		}
		for i := range ops {
			vh.Must(ops[i].decode())
		}
		sc := &Scenario{ID: fmt.Sprintf("%s%d", *tag, n), Res: c.Res, ASes: c.ASes, Scopes: c.Scopes, NoMark: c.NoMark, Ops: ops, MaxScale: *expoMaxScale}
		runScenario(sc, tw, res)
		if res.Executed <= 2 {
			res.Sample(map[string]any{"scenario": sc.ID, "ops": ops})
		}
	}
	vh.Must(scn.Err())
	vh.Must(tw.Close())
	vh.Must(res.Write(*resF))
}

func main() {
	if len(os.Args) < 2 {
		fmt.Println("usage: c18 replay|random|conc|probe ...")
		os.Exit(3)
	}
	switch os.Args[1] {
	case "replay":
		replay(os.Args[2:])
	case "random":
		random(os.Args[2:])
	case "conc":
		conc(os.Args[2:])
	case "probe":
		probe(os.Args[2:])
	default:
		os.Exit(3)
	}
}
