// c18: conformance harness for specs/PromExport (property C18). See core.go.
//
//	c18 probe  -scheme S                        ad-hoc experiments (development aid)
package main

import (
	"encoding/json"
	"flag"
	"fmt"
	"os"

	"github.com/prometheus/common/model"
)

var (
	scheme       = new(string)
	expoMaxScale = new(int)
)

func commonFlags(fs *flag.FlagSet) {
	fs.StringVar(scheme, "scheme", "utf8", "legacy|utf8 (process-global model.NameValidationScheme)")
	fs.IntVar(expoMaxScale, "exposcale", 20, "MaxScale of exponential histogram views")
}

func applyScheme() {
	switch *scheme {
	case "legacy":
		model.NameValidationScheme = model.LegacyValidation //nolint:staticcheck
	case "utf8":
		model.NameValidationScheme = model.UTF8Validation //nolint:staticcheck
	default:
		fmt.Fprintln(os.Stderr, "bad -scheme")
		os.Exit(3)
	}
}

func w(s string) Tok   { return Tok{C: "w", S: s} }
func sep(s string) Tok { return Tok{C: "sep", S: s} }

func probe(args []string) {
	fs := flag.NewFlagSet("probe", flag.ExitOnError)
	commonFlags(fs)
	fs.Parse(args)
	applyScheme()
	res := []Attr{{K: []Tok{w("service"), sep("."), w("name")}, T: "s", V: "svc"}}
	show := func(title string, o Opts, insts []Inst, recs func(wd *world)) {
		o.Scheme = *scheme
		wd, err := newWorld(o, res)
		if err != nil {
			fmt.Println(title, "ERR", err)
			return
		}
		for _, in := range insts {
			if err := wd.create(in); err != nil {
				fmt.Println(title, "create err", err)
			}
		}
		recs(wd)
		ob := wd.scrape()
		b, _ := json.Marshal(ob)
		sv, _ := wd.sdkView()
		sb, _ := json.Marshal(sv)
		fmt.Printf("== %s\n  obs: %s\n  sdk: %s\n  errs: %v\n", title, b, sb, wd.errs)
		wd.close()
	}
	one := func(title string, toks []Tok, unit, kind string) {
		show(title, Opts{}, []Inst{{ID: 1, Scope: "sA", Toks: toks, Unit: unit, Kind: kind, Desc: "d"}}, func(wd *world) { wd.record(1, nil, 1) })
	}
	one("counter total", []Tok{{C: "total", S: "total"}}, "", "counter")
	one("counter subtotal", []Tok{w("sub"), {C: "total", S: "total"}}, "", "counter")
	one("counter foo.total s", []Tok{w("foo"), sep("."), {C: "total", S: "total"}}, "s", "counter")
	one("gauge milliseconds unit s", []Tok{w("lat"), sep("_"), {C: "u", S: "milliseconds"}}, "s", "gauge")
	one("exphist", []Tok{w("eh")}, "", "exphist")
	show("attr colon", Opts{}, []Inst{{ID: 1, Scope: "sA", Toks: []Tok{w("foo")}, Kind: "counter"}}, func(wd *world) {
		wd.record(1, []Attr{{K: []Tok{w("a"), {C: "bad", S: ":"}, w("b")}, T: "s", V: "x"}}, 1)
	})
	show("attr otel_scope_name", Opts{}, []Inst{{ID: 1, Scope: "sA", Toks: []Tok{w("foo")}, Kind: "counter"}}, func(wd *world) {
		wd.record(1, []Attr{{K: []Tok{w("otel"), sep("_"), w("scope"), sep("_"), w("name")}, T: "s", V: "x"}}, 1)
	})
	show("attr collide", Opts{}, []Inst{{ID: 1, Scope: "sA", Toks: []Tok{w("foo")}, Kind: "counter"}}, func(wd *world) {
		wd.record(1, []Attr{{K: []Tok{w("a"), sep("."), w("b")}, T: "s", V: "z"}, {K: []Tok{w("a"), sep("_"), w("b")}, T: "s", V: "y"}}, 1)
	})
	show("help conflict empty first", Opts{}, []Inst{
		{ID: 1, Scope: "sA", Toks: []Tok{w("foo")}, Kind: "counter", Desc: ""},
		{ID: 2, Scope: "sA", Toks: []Tok{w("foo"), sep("_"), {C: "total", S: "total"}}, Kind: "counter", Desc: "d2"}},
		func(wd *world) { wd.record(1, nil, 1); wd.record(2, nil, 1) })
	show("help conflict", Opts{}, []Inst{
		{ID: 1, Scope: "sA", Toks: []Tok{w("foo")}, Kind: "counter", Desc: "d1"},
		{ID: 2, Scope: "sA", Toks: []Tok{w("foo"), sep("_"), {C: "total", S: "total"}}, Kind: "counter", Desc: "d2"}},
		func(wd *world) { wd.record(1, nil, 1); wd.record(2, nil, 1) })
	show("type conflict", Opts{}, []Inst{
		{ID: 1, Scope: "sA", Toks: []Tok{w("foo")}, Kind: "counter", Desc: "d1"},
		{ID: 2, Scope: "sA", Toks: []Tok{w("foo"), sep("_"), {C: "total", S: "total"}}, Kind: "gauge", Desc: "d1"}},
		func(wd *world) { wd.record(1, nil, 1); wd.record(2, nil, 1) })
	show("hist", Opts{ResConst: true, ResKeys: []int{1}}, []Inst{{ID: 1, Scope: "sA", Toks: []Tok{w("h")}, Unit: "s", Kind: "hist", Desc: "d"}},
		func(wd *world) { wd.record(1, nil, 1); wd.record(1, nil, 7); wd.record(1, nil, 12) })
}

func main() {
	if len(os.Args) < 2 {
		fmt.Println("usage: c18 probe|replay|random|conc ...")
		os.Exit(3)
	}
	switch os.Args[1] {
	case "probe":
		probe(os.Args[2:])
	default:
		os.Exit(3)
	}
}
