package main

import (
	"encoding/json"
	"flag"
	"fmt"
	"math"
	"math/rand"
	"sort"
	"strings"
	"unicode/utf8"

	"go.opentelemetry.io/otel/sdk/verifh/vh"
)

// ---------------------------------------------------------------- seeded generators (inputs only)
//
// The generators produce inputs inside the property's domain ("valid name, unit, kind, description and
// attribute sets") in the token form of PromModel.tla. Domain restrictions (stated as assumptions in the
// evidence): attribute keys are non-empty, do not sanitise to a name starting with "__" (reserved by
// Prometheus) and are not vinst / vas / le / quantile; OTel names are unique per scope ignoring case
// (otherwise the SDK itself merges the instruments); resource attribute keys contain no ':'.

var (
	lowWords  = []string{"foo", "bar", "http", "req", "x", "sub", "k"}
	upWords   = []string{"Foo", "Total", "SECONDS", "fooBar", "X", "Bytes"}
	seps      = []string{"_", ".", "-", "/"}
	badChars  = []string{" ", "$", "@", "é", "€", "#", "世"}
	unitKeys  = []string{"d", "h", "min", "s", "ms", "us", "ns", "By", "KiBy", "MiBy", "GiBy", "TiBy", "KBy", "MBy", "GBy", "TBy", "m", "V", "A", "J", "W", "g", "Cel", "Hz", "1", "%"}
	unitWords = map[string]string{"d": "days", "h": "hours", "min": "minutes", "s": "seconds", "ms": "milliseconds", "us": "microseconds",
		"ns": "nanoseconds", "By": "bytes", "KiBy": "kibibytes", "MiBy": "mebibytes", "GiBy": "gibibytes", "TiBy": "tibibytes",
		"KBy": "kilobytes", "MBy": "megabytes", "GBy": "gigabytes", "TBy": "terabytes", "m": "meters", "V": "volts", "A": "amperes",
		"J": "joules", "W": "watts", "g": "grams", "Cel": "celsius", "Hz": "hertz", "1": "ratio", "%": "percent"}
	otherUnits = []string{"", "", "{req}", "s/m", "xyz", "KiBy/s"}
	kinds      = []string{"counter", "fcounter", "ocounter", "ofcounter", "updown", "fupdown", "oupdown", "ofupdown",
		"gauge", "fgauge", "ogauge", "ofgauge", "hist", "fhist", "exphist", "fexphist"}
	descs = []string{"", "d1", "d2", "d1", "", "d1", "two\nlines \"quoted\" \\ back", "ünï ©ode 世界"}
)

func pick[T any](r *rand.Rand, xs []T) T { return xs[r.Intn(len(xs))] }

func unitTok(r *rand.Rand, unit string) Tok {
	if uw, ok := unitWords[unit]; ok && r.Intn(3) > 0 {
		return Tok{C: "u", S: uw}
	}
	return Tok{C: "u", S: unitWords[pick(r, unitKeys)]}
}

func nameTok(r *rand.Rand, unit string, first bool) Tok {
	for {
		switch r.Intn(12) {
		case 0, 1, 2:
			return Tok{C: "w", S: pick(r, lowWords)}
		case 3:
			return Tok{C: "W", S: pick(r, upWords)}
		case 4, 5:
			return tot
		case 6, 7:
			return unitTok(r, unit)
		case 8:
			if !first {
				return Tok{C: "d", S: fmt.Sprint(r.Intn(10))}
			}
		default:
			if !first {
				return Tok{C: "sep", S: pick(r, seps)}
			}
		}
	}
}

func genName(r *rand.Rand, unit string) []Tok {
	n := 1 + r.Intn(5)
	toks := make([]Tok, 0, n)
	for i := 0; i < n; i++ {
		toks = append(toks, nameTok(r, unit, i == 0))
	}
	return toks
}

func genNS(r *rand.Rand) []Tok {
	switch r.Intn(10) {
	case 0:
		return []Tok{w("ns")}
	case 1:
		return []Tok{w("my"), sep("."), w("ns")}
	case 2:
		return []Tok{w("x"), sep("_")}
	case 3:
		return []Tok{{C: "d", S: "9"}, w("x")}
	case 4:
		return []Tok{tot}
	case 5:
		return []Tok{{C: "u", S: "seconds"}}
	case 6:
		return []Tok{w("a"), {C: "bad", S: pick(r, badChars)}, w("b"), sep("-")}
	}
	return []Tok{}
}

// keyOK: the restrictions on attribute keys listed above.
func keyOK(k []Tok) bool {
	if len(k) == 0 {
		return false
	}
	lead := 0
	for i, t := range k {
		if t.C == "sep" || t.C == "bad" || t.C == "colon" || (t.C == "d" && i == 0) {
			lead++
		} else {
			break
		}
	}
	if lead >= 2 {
		return false
	}
	switch strings.ToLower(render(k)) {
	case marker, markerAS, "le", "quantile":
		return false
	}
	return true
}

func genKey(r *rand.Rand, colon bool) []Tok {
	for {
		n := 1 + r.Intn(3)
		k := []Tok{}
		if r.Intn(3) > 0 { // common stem: makes sanitisation collisions likely
			k = append(k, w("a"))
		}
		for len(k) < n+1 {
			switch x := r.Intn(20); {
			case x < 6:
				k = append(k, Tok{C: "w", S: pick(r, []string{"a", "b", "k"})})
			case x < 8:
				k = append(k, Tok{C: "W", S: pick(r, []string{"A", "B"})})
			case x < 10:
				k = append(k, Tok{C: "d", S: fmt.Sprint(r.Intn(10))})
			case x < 15:
				k = append(k, Tok{C: "sep", S: pick(r, seps)})
			case x < 16:
				if colon {
					k = append(k, Tok{C: "colon", S: ":"})
				}
			default:
				k = append(k, Tok{C: "bad", S: pick(r, badChars)})
			}
		}
		if keyOK(k) {
			return k
		}
	}
}

func genValue(r *rand.Rand) (t, v string) {
	switch r.Intn(6) {
	case 0:
		return "i", fmt.Sprint(r.Intn(20) - 5)
	case 1:
		return "b", pick(r, []string{"true", "false"})
	}
	return "s", pick(r, []string{"x", "y", "z", "a b", "", "1", "Z", "é"})
}

// finishAS sorts by original key (byte order) and fills the rank of each value text.
func finishAS(as []Attr) []Attr {
	sort.Slice(as, func(a, b int) bool { return render(as[a].K) < render(as[b].K) })
	vals := make([]string, len(as))
	for i, a := range as {
		vals[i] = a.V
	}
	sort.Strings(vals)
	for i := range as {
		as[i].R = sort.SearchStrings(vals, as[i].V)
		as[i].N = utf8.RuneCountInString(render(as[i].K)) + utf8.RuneCountInString(as[i].V)
	}
	return as
}

// filteredAttrs: attributes the scenario's view removes from the stream; they only show up as exemplar
// labels. Prometheus allows 128 runes of exemplar labels, trace_id + span_id take 63: 65 runes of filtered
// keys + values are exactly at the limit. Keys are distinct after sanitisation and start with "x".
func filteredAttrs(r *rand.Rand) []Attr {
	pad := func(n int) string { return strings.Repeat("m", n) }
	ua := []Tok{w("x"), sep("."), w("ua")} // 4 runes
	switch r.Intn(7) {
	case 0:
		return []Attr{{K: ua, T: "s", V: "fa", F: true}} // small
	case 1:
		return []Attr{{K: ua, T: "s", V: pad(61), F: true}} // exactly at the limit
	case 2:
		return []Attr{{K: ua, T: "s", V: pad(62), F: true}} // one over
	case 3:
		return []Attr{{K: ua, T: "s", V: "Mozilla/5.0 (X11; Linux x86_64) AppleWebKit/537.36 Chrome/126 Safari/53", F: true},
			{K: []Tok{w("x"), sep("-"), w("n")}, T: "i", V: "42", F: true}} // far over
	case 4:
		return []Attr{{K: ua, T: "s", V: pad(30), F: true}, {K: []Tok{w("x"), {C: "bad", S: " "}, w("b")}, T: "b", V: "true", F: true},
			{K: []Tok{w("x"), sep("/"), {C: "bad", S: "é"}}, T: "s", V: pad(61 - 30 - 3 - 4 - 3), F: true}} // three labels, at the limit (4+30, 3+4, 3+21)
	case 5:
		return []Attr{{K: ua, T: "s", V: "世界", F: true}, {K: []Tok{w("x"), sep("_"), w("n")}, T: "i", V: "7", F: true}}
	}
	return []Attr{} // exemplar with trace_id / span_id only
}

func genAS(r *rand.Rand, n int, colon bool, extra [][]Tok) []Attr {
	as := []Attr{}
	seen := map[string]bool{}
	for len(as) < n {
		var k []Tok
		switch {
		case len(as) > 0 && r.Intn(2) == 0:
			// a variant of an existing key: same text with one delimiter replaced -> collides after sanitisation
			src := as[r.Intn(len(as))].K
			k = append([]Tok{}, src...)
			for i := range k {
				if (k[i].C == "sep" || k[i].C == "bad") && r.Intn(2) == 0 {
					if r.Intn(3) == 0 {
						k[i] = Tok{C: "bad", S: pick(r, badChars)}
					} else {
						k[i] = Tok{C: "sep", S: pick(r, seps)}
					}
				}
			}
		case len(extra) > 0 && r.Intn(12) == 0:
			k = pick(r, extra)
		default:
			k = genKey(r, colon)
		}
		if !keyOK(k) || seen[render(k)] {
			continue
		}
		seen[render(k)] = true
		t, v := genValue(r)
		as = append(as, Attr{K: k, T: t, V: v})
	}
	return finishAS(as)
}

func genValueFor(r *rand.Rand, kind string) float64 {
	float := strings.Contains(kind[:len(kind)-len(baseKind(kind))], "f")
	var v float64
	switch baseKind(kind) {
	case "counter":
		v = float64(r.Intn(50))
	case "updown", "gauge":
		v = float64(r.Intn(100) - 40)
	case "hist":
		v = pick(r, []float64{0, 1, 4, 5, 6, 10, 11, 1000, -2})
	case "exphist":
		v = pick(r, []float64{0, 1, 2, 3, 7, 100, 1000, 65536, -1, -8, 1, 1})
	}
	if float && r.Intn(2) == 0 {
		v += pick(r, []float64{0.5, 0.25, 0.125})
		if baseKind(kind) == "exphist" && r.Intn(3) == 0 {
			v = pick(r, []float64{0.001, 0.3, 1.5, 1e6})
		}
	}
	if kind == "fgauge" && r.Intn(40) == 0 {
		v = math.Inf(1)
	}
	return v
}

func scopeNameLabel() []Tok {
	return []Tok{w("otel"), sep("_"), w("scope"), sep("_"), w("name")}
}

func genScenario(r *rand.Rand, id string, withColon bool) *Scenario {
	sc := &Scenario{ID: id, MaxScale: pick(r, []int{20, 20, 8, 5, 3, 0})}
	// resource
	res := []Attr{{K: []Tok{w("service"), sep("."), w("name")}, T: "s", V: "svc"}}
	if r.Intn(2) == 0 {
		res = append(res, Attr{K: []Tok{w("k"), sep("."), w("x")}, T: "s", V: "r1"})
	}
	if r.Intn(3) == 0 {
		res = append(res, Attr{K: []Tok{w("k"), sep("_"), w("x")}, T: "i", V: "7"})
	}
	sc.Res = finishAS(res)
	o := Opts{Scheme: *scheme, NoUnits: r.Intn(5) == 0, NoSuffix: r.Intn(5) == 0, NS: genNS(r), NoTarget: r.Intn(6) == 0,
		NoScope: r.Intn(5) == 0, ResKeys: []int{}}
	if r.Intn(3) == 0 {
		o.ResConst = true
		for i := range sc.Res {
			if r.Intn(3) > 0 {
				o.ResKeys = append(o.ResKeys, i+1)
			}
		}
	}
	sc.Ops = append(sc.Ops, Op{Op: "New", Opts: &o})
	if r.Intn(5) == 0 { // the registry is scraped before the exporter is handed to a MeterProvider
		for n := 1 + r.Intn(2); n > 0; n-- {
			sc.Ops = append(sc.Ops, Op{Op: "Scrape"})
		}
	}
	sc.Ops = append(sc.Ops, Op{Op: "Register"})
	// attribute sets: AS 1 is always empty
	extra := [][]Tok{scopeNameLabel(), sc.Res[0].K, {w("service"), sep("_"), w("name")}}
	sc.ASes = [][]Attr{{}}
	for n := 1 + r.Intn(4); len(sc.ASes) < n+1; {
		sc.ASes = append(sc.ASes, genAS(r, r.Intn(5), withColon, extra))
	}
	// exemplar scenarios: measurements inside sampled spans, a view that filters attributes out of the stream
	exemplars := r.Intn(3) == 0
	if exemplars {
		for i := range sc.ASes {
			if r.Intn(3) > 0 {
				sc.ASes[i] = finishAS(append(append([]Attr{}, sc.ASes[i]...), filteredAttrs(r)...))
			}
		}
	}
	// instruments
	ninst := 1 + r.Intn(4)
	scopes := []string{"sA", "sB", "sC"}[:1+r.Intn(3)]
	if r.Intn(6) == 0 {
		// scopes with the name and version of sA that differ only in schema URL / in attributes
		scopes = append([]string{}, scopes...)
		if r.Intn(2) == 0 {
			sc.Scopes = append(sc.Scopes, ScopeRec{ID: "sA2", Name: "sA", Version: "vsA", URL: "https://example.com/schema/2", Attrs: []Attr{}})
			scopes = append(scopes, "sA2")
		}
		if len(sc.Scopes) == 0 || r.Intn(2) == 0 {
			sc.Scopes = append(sc.Scopes, ScopeRec{ID: "sA3", Name: "sA", Version: "vsA",
				Attrs: finishAS([]Attr{{K: []Tok{w("lib"), sep("."), w("kind")}, T: "s", V: "b"}, {K: []Tok{w("n")}, T: "i", V: "3"}})})
			scopes = append(scopes, "sA3")
		}
	}
	// without the vinst marker series of different instruments can be identical: then all OTel names are distinct
	// plain words, except that scopes with equal labels deliberately share some
	sc.NoMark = r.Intn(5) == 0
	plain := []string{"alpha", "beta", "gamma", "delta", "eps", "zeta"}
	insts := []Inst{}
	seen := map[string]bool{}
	var base []Tok
	for len(insts) < ninst {
		unit := pick(r, otherUnits)
		if r.Intn(3) > 0 {
			unit = pick(r, unitKeys)
		}
		toks := genName(r, unit)
		if base != nil && r.Intn(3) == 0 {
			// a name related to an earlier one: likely to map to the same Prometheus family
			toks = append([]Tok{}, base...)
			switch r.Intn(4) {
			case 0:
				toks = append(toks, sep(pick(r, seps)), tot)
			case 1:
				toks = append(toks, sep(pick(r, seps)), unitTok(r, unit))
			case 2:
				toks = append(toks, sep(pick(r, seps)))
			}
		}
		in := Inst{ID: len(insts) + 1, Scope: pick(r, scopes), Toks: toks, Unit: unit, Kind: pick(r, kinds), Desc: pick(r, descs)}
		if sc.NoMark {
			// a plain name: shared only between scopes with equal labels (sA, sA2, sA3), distinct otherwise
			in.Toks = []Tok{w(plain[len(insts)%len(plain)])}
			if len(insts) > 0 && strings.HasPrefix(in.Scope, "sA") && strings.HasPrefix(insts[0].Scope, "sA") && r.Intn(2) == 0 {
				in.Toks, in.Kind, in.Unit = insts[0].Toks, insts[0].Kind, insts[0].Unit
			}
			toks = in.Toks
		}
		key := in.Scope + "\x00" + strings.ToLower(render(toks))
		if seen[key] || len(render(toks)) > 200 {
			continue
		}
		seen[key] = true
		if base == nil || r.Intn(2) == 0 {
			base = toks
		}
		insts = append(insts, in)
	}
	if r.Intn(6) == 0 {
		insts, _ = illFormed(r, sc, insts, scopes)
	}
	// operations
	next := 0
	create := func() {
		b, _ := json.Marshal(insts[next])
		sc.Ops = append(sc.Ops, Op{Op: "Create", Inst: b, inst: insts[next]})
		next++
	}
	create()
	steps := 4 + r.Intn(24)
	for i := 0; i < steps; i++ {
		switch x := r.Intn(10); {
		case x < 1 && next < len(insts), x < 4 && next < len(insts) && i < 4:
			create()
		case x < 8:
			in := insts[r.Intn(next)]
			b, _ := json.Marshal(in.ID)
			sc.Ops = append(sc.Ops, Op{Op: "Rec", Inst: b, id: in.ID, AS: 1 + r.Intn(len(sc.ASes)), V: fnum(genValueFor(r, in.Kind)),
				SP: exemplars && r.Intn(3) > 0})
		default:
			sc.Ops = append(sc.Ops, Op{Op: "Scrape"})
		}
	}
	sc.Ops = append(sc.Ops, Op{Op: "Scrape"})
	if r.Intn(6) == 0 { // MeterProvider.Shutdown, then the registry is scraped again
		sc.Ops = append(sc.Ops, Op{Op: "Shutdown"}, Op{Op: "Scrape"})
	}
	return sc
}

// illFormed adds inputs the SDK accepts although they are ill-formed (not valid UTF-8): an attribute value, an
// instrument description, a meter name / version / scope attribute value. Ill-formed instruments and scopes get
// names of their own, so that they never share a family with a well-formed instrument.
func illFormed(r *rand.Rand, sc *Scenario, insts []Inst, scopes []string) ([]Inst, []string) {
	if r.Intn(2) == 0 {
		sc.ASes = append(sc.ASes, finishAS([]Attr{{K: []Tok{w("k")}, T: "s", V: "v"}, {K: []Tok{w("u")}, T: "s", V: "ill", Ill: true}}))
	}
	if r.Intn(2) == 0 {
		sc.Scopes = append(sc.Scopes, ScopeRec{ID: "sX", Name: "sX", Version: "vsX", Attrs: []Attr{}, Ill: pick(r, []string{"name", "version", "attr"})})
		insts = append(insts, Inst{ID: len(insts) + 1, Scope: "sX", Toks: []Tok{w("inbadscope")}, Kind: pick(r, kinds), Desc: "d1"})
		scopes = append(scopes, "sX")
	}
	if r.Intn(2) == 0 {
		insts = append(insts, Inst{ID: len(insts) + 1, Scope: pick(r, scopes), Toks: []Tok{w("baddesc")}, Kind: pick(r, kinds), Desc: "d1", Ill: true})
	}
	return insts, scopes
}

func random(args []string) {
	fs := flag.NewFlagSet("random", flag.ExitOnError)
	commonFlags(fs)
	n := fs.Int("n", 100, "scenarios")
	outF := fs.String("out", "trace.ndjson", "")
	resF := fs.String("res", "random.json", "")
	fs.Parse(args)
	applyScheme()
	seed := vh.Seed()*1000003 + int64(len(*scheme))
	r := rand.New(rand.NewSource(seed))
	tw, err := vh.NewTraceWriter(*outF)
	vh.Must(err)
	res := vh.NewResult()
	rf := rand.New(rand.NewSource(seed ^ 0x5fa17)) // faults of the collection (faults.go): a source of their own
	for i := 0; i < *n; i++ {
		sc := genScenario(r, fmt.Sprintf("r-%s-%d", *scheme, i), r.Intn(5) == 0)
		if injectFaults(sc, rf) {
			res.Count("scenarios-with-collection-faults", 1)
		}
		classify(res, sc)
		runScenario(sc, tw, res)
		if i < 2 {
			res.Sample(map[string]any{"scenario": sc.ID, "ops": sc.Ops, "ases": sc.ASes})
		}
	}
	vh.Must(tw.Close())
	vh.Must(res.Write(*resF))
}

// classify: which input regimes a scenario reaches (vacuity evidence).
func classify(res *vh.Result, sc *Scenario) {
	for _, as := range sc.ASes {
		names := map[string]int{}
		for _, a := range as {
			var b strings.Builder
			for i, t := range a.K {
				if t.C == "sep" || t.C == "bad" || t.C == "colon" || (t.C == "d" && i == 0) {
					b.WriteString("_")
				} else {
					b.WriteString(t.S)
				}
				if t.C == "colon" {
					res.Count("in-key-with-colon", 1)
				}
			}
			names[b.String()]++
		}
		for _, c := range names {
			if c > 1 {
				res.Count("in-colliding-keys", 1)
			}
		}
	}
	for _, op := range sc.Ops {
		if op.Op != "Create" {
			continue
		}
		in := op.inst
		last := in.Toks[len(in.Toks)-1]
		if last.C == "total" {
			res.Count("in-name-ends-total", 1)
			if len(in.Toks) == 1 {
				res.Count("in-name-is-total", 1)
			}
		}
		if last.C == "sep" {
			res.Count("in-name-ends-delimiter", 1)
		}
		if uw, ok := unitWords[in.Unit]; ok {
			for _, t := range in.Toks {
				if t.C == "u" && strings.HasSuffix(t.S, uw) {
					res.Count("in-name-contains-own-unit", 1)
					break
				}
			}
		}
		res.Count("in-kind-"+baseKind(in.Kind), 1)
	}
	if len(sc.Ops[0].Opts.NS) > 0 {
		res.Count("in-namespace", 1)
	}
	if sc.Ops[0].Opts.ResConst {
		res.Count("in-resource-constant-labels", 1)
	}
	for _, s := range sc.Scopes {
		if s.URL != "" {
			res.Count("in-scope-differs-only-in-schema-url", 1)
		} else {
			res.Count("in-scope-differs-only-in-attributes", 1)
		}
	}
	if sc.NoMark {
		res.Count("in-unmarked-scenario", 1)
	}
	for _, s := range sc.Scopes {
		if s.Ill != "" {
			res.Count("in-ill-formed-scope", 1)
		}
	}
	for _, op := range sc.Ops {
		if op.Op == "Create" && op.inst.Ill {
			res.Count("in-ill-formed-description", 1)
		}
	}
	for _, as := range sc.ASes {
		for _, a := range as {
			if a.Ill {
				res.Count("in-ill-formed-attribute-value", 1)
			}
		}
	}
	for _, as := range sc.ASes {
		n := 63
		any := false
		for _, a := range as {
			if a.F {
				n += a.N
				any = true
			}
		}
		switch {
		case !any:
		case n < 128:
			res.Count("in-exemplar-labels-small", 1)
		case n == 128:
			res.Count("in-exemplar-labels-at-limit", 1)
		default:
			res.Count("in-exemplar-labels-over-limit", 1)
		}
	}
}
