// faults.go: faults DURING the collection behind a scrape (PromModel.tla, "the collection behind a scrape").
//
// A scenario arms / clears faults with the abstract op Fault{f, on}:
//
//	cb     an observable callback returns a plain error
//	cbctx  an observable callback returns a context error of a backend call of its own (deadline exceeded)
//	prod   an external metric.Producer (WithProducer) returns an error
//
// While a fault is armed every collection of the exporter's reader ends with a joined, non-fatal error and still
// carries everything the SDK aggregated. The harness only injects the fault and projects what the SDK's own view
// (Reader.Collect of the same exporter) reports: (streams, outcome kind). What a scrape must expose for each kind
// is decided by Trace_PromExport.tla (Duty(CollectKind(phase, faults))).
package main

import (
	"context"
	"errors"
	"fmt"
	"math/rand"
	"sort"
	"sync"

	"go.opentelemetry.io/otel/metric"
	sdkmetric "go.opentelemetry.io/otel/sdk/metric"
	"go.opentelemetry.io/otel/sdk/metric/metricdata"
)

var errInjected = errors.New("verif: injected collection fault")

// faultState is the set of armed faults of one world. It is also the external producer of every world.
type faultState struct {
	mu   sync.Mutex
	on   map[string]bool
	inst bool // the observable instrument that carries the failing callback exists
}

func (f *faultState) armed(k string) bool {
	f.mu.Lock()
	defer f.mu.Unlock()
	return f.on[k]
}

// list: the armed faults, sorted (never nil: JSON null cannot be read by TLC).
func (f *faultState) list() []string {
	out := []string{}
	if f == nil {
		return out
	}
	f.mu.Lock()
	defer f.mu.Unlock()
	for k, v := range f.on {
		if v {
			out = append(out, k)
		}
	}
	sort.Strings(out)
	return out
}

// Produce implements metric.Producer: no data; an error while "prod" is armed.
func (f *faultState) Produce(context.Context) ([]metricdata.ScopeMetrics, error) {
	if f.armed("prod") {
		return nil, fmt.Errorf("bridge not ready: %w", errInjected)
	}
	return nil, nil
}

// callback of the fault instrument: it never observes anything (the instrument holds no data and is never part of
// a collection), it only fails while armed.
func (f *faultState) callback(context.Context, metric.Int64Observer) error {
	if f.armed("cbctx") {
		return fmt.Errorf("backend call: %w", context.DeadlineExceeded)
	}
	if f.armed("cb") {
		return fmt.Errorf("backend unavailable: %w", errInjected)
	}
	return nil
}

// setFault arms / clears a fault. The failing callback belongs to an observable gauge of a meter of its own,
// created with the first callback fault.
func (w *world) setFault(k string, on bool) error {
	switch k {
	case "cb", "cbctx":
		if !w.flt.inst {
			if w.mp == nil {
				return errors.New("fault armed before Register")
			}
			_, err := w.mp.Meter("vfault").Int64ObservableGauge("vfault_probe", metric.WithInt64Callback(w.flt.callback))
			if err != nil {
				return err
			}
			w.flt.inst = true
		}
	case "prod":
	default:
		return fmt.Errorf("unknown fault %q", k)
	}
	w.flt.mu.Lock()
	w.flt.on[k] = on
	w.flt.mu.Unlock()
	return nil
}

// sdkViewKind asks the exporter's reader for the SDK's own view and projects its outcome: the streams it
// produced and the kind of the outcome (ok | partial | shutdown | unregistered).
func (w *world) sdkViewKind() ([]SStream, string, error) {
	var rm metricdata.ResourceMetrics
	err := w.exp.Collect(context.Background(), &rm)
	kind := "ok"
	switch {
	case err == nil:
	case errors.Is(err, sdkmetric.ErrReaderShutdown):
		return []SStream{}, "shutdown", nil
	case errors.Is(err, sdkmetric.ErrReaderNotRegistered):
		return []SStream{}, "unregistered", nil
	default:
		kind = "partial"
	}
	streams, perr := w.projectRM(&rm)
	return streams, kind, perr
}

// injectFaults inserts Fault ops into a random scenario (between Register and Shutdown), with a random source of
// its own so that the scenarios themselves stay what they were.
func injectFaults(sc *Scenario, r *rand.Rand) bool {
	if r.Intn(3) != 0 {
		return false
	}
	lo, hi := -1, len(sc.Ops)
	created := false
	for i, op := range sc.Ops {
		if op.Op == "Create" && !created {
			created, lo = true, i+1
		}
		if op.Op == "Shutdown" {
			hi = i
		}
	}
	if lo < 0 || lo > hi {
		return false
	}
	kinds := []string{"cb", "cbctx", "prod"}
	on := map[string]bool{}
	n := 1 + r.Intn(3)
	pos := make([]int, n)
	for i := range pos {
		pos[i] = lo + r.Intn(hi-lo+1)
	}
	sort.Ints(pos)
	out := make([]Op, 0, len(sc.Ops)+2*n)
	j := 0
	for i := 0; i <= len(sc.Ops); i++ {
		for j < n && pos[j] == i {
			k := kinds[r.Intn(len(kinds))]
			on[k] = !on[k]
			// a scrape right behind the fault: the interesting moment
			out = append(out, Op{Op: "Fault", F: k, On: on[k]}, Op{Op: "Scrape"})
			j++
		}
		if i < len(sc.Ops) {
			out = append(out, sc.Ops[i])
		}
	}
	sc.Ops = out
	return true
}
