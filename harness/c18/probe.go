package main

import (
	"encoding/json"
	"flag"
	"fmt"
)

func w(s string) Tok   { return Tok{C: "w", S: s} }
func sep(s string) Tok { return Tok{C: "sep", S: s} }

var tot = Tok{C: "total", S: "total"}

// probe: ad-hoc experiments (development aid, not used by the check).
func probe(args []string) {
	fs := flag.NewFlagSet("probe", flag.ExitOnError)
	commonFlags(fs)
	fs.Parse(args)
	applyScheme()
	res := []Attr{{K: []Tok{w("service"), sep("."), w("name")}, T: "s", V: "svc"}}
	show := func(title string, o Opts, insts []Inst, recs func(wd *world)) {
		o.Scheme = *scheme
		wd, err := newWorld(o, res)
		if err != nil {
			fmt.Println(title, "ERR", err)
			return
		}
		wd.register()
		for _, in := range insts {
			if err := wd.create(in); err != nil {
				fmt.Println(title, "create err", err)
			}
		}
		recs(wd)
		ob := wd.collectObs()
		b, _ := json.Marshal(ob)
		sv, _ := wd.sdkView()
		sb, _ := json.Marshal(sv)
		fmt.Printf("== %s\n  obs: %s\n  sdk: %s\n  errs: %v\n", title, b, sb, wd.errs)
		wd.close()
	}
	one := func(title string, toks []Tok, unit, kind string) {
		show(title, Opts{}, []Inst{{ID: 1, Scope: "sA", Toks: toks, Unit: unit, Kind: kind, Desc: "d"}}, func(wd *world) { wd.record(1, 1, nil, 1) })
	}
	one("counter total", []Tok{tot}, "", "counter")
	one("counter foo_ s", []Tok{w("foo"), sep("_")}, "s", "counter")
	one("exphist", []Tok{w("eh")}, "", "exphist")
	show("attr __", Opts{}, []Inst{{ID: 1, Scope: "sA", Toks: []Tok{w("foo")}, Kind: "counter"}}, func(wd *world) {
		wd.record(1, 1, []Attr{{K: []Tok{sep("."), sep("."), w("b")}, T: "s", V: "x"}}, 1)
	})
}
