// c18: conformance harness for specs/PromExport (property C18).
//
// core.go: building a real exporter from abstract options, driving real instruments,
// scraping (direct Collect under recover + registry Gather) and projecting the result.
package main

import (
	"context"
	"encoding/hex"
	"fmt"
	"math"
	"regexp"
	"sort"
	"strconv"
	"strings"
	"sync"
	"time"

	"github.com/go-logr/logr"
	"github.com/prometheus/client_golang/prometheus"
	dto "github.com/prometheus/client_model/go"
	"github.com/prometheus/common/model"

	"go.opentelemetry.io/otel"
	"go.opentelemetry.io/otel/attribute"
	otelprom "go.opentelemetry.io/otel/exporters/prometheus"
	"go.opentelemetry.io/otel/metric"
	"go.opentelemetry.io/otel/sdk/instrumentation"
	sdkmetric "go.opentelemetry.io/otel/sdk/metric"
	"go.opentelemetry.io/otel/sdk/metric/metricdata"
	"go.opentelemetry.io/otel/sdk/resource"
	sdktrace "go.opentelemetry.io/otel/sdk/trace"
	"go.opentelemetry.io/otel/trace"
)

// ---------------------------------------------------------------- abstract inputs (as in PromModel.tla)

// Tok is one token of an instrument name / attribute key / namespace: class + concrete text.
type Tok struct {
	C string `json:"c"`
	S string `json:"s"`
}

func render(toks []Tok) string {
	var b strings.Builder
	for _, t := range toks {
		b.WriteString(t.S)
	}
	return b.String()
}

// Opts are the exporter options of one scenario.
type Opts struct {
	Scheme   string `json:"scheme"` // "legacy" | "utf8" (process-global: must equal the process's -scheme)
	NoUnits  bool   `json:"noUnits"`
	NoSuffix bool   `json:"noSuffix"`
	NS       []Tok  `json:"ns"` // namespace passed to WithNamespace; empty = option not used
	NoTarget bool   `json:"noTarget"`
	NoScope  bool   `json:"noScope"`
	ResKeys  []int  `json:"resKeys"` // indexes (1-based) of resource attributes allowed as constant labels
	ResConst bool   `json:"resConst"`
}

// Attr is an abstract attribute: key tokens, type, expected text of the value, rank of the value
// text among the values of its attribute set (byte order; TLC cannot order strings).
type Attr struct {
	K []Tok  `json:"k"`
	T string `json:"t"` // s | i | b
	V string `json:"v"`
	R int    `json:"r"`
	F bool   `json:"f"` // removed from the stream by the view's attribute filter (visible only in exemplars)
	N int    `json:"n"` // runes of key + value text
	// Ill: ill-formed but accepted by the SDK: the real value is not valid UTF-8 (V stays the abstract text)
	Ill bool `json:"ill"`
}

// badUTF8 is what makes a text ill-formed: accepted by the OTel API/SDK, not representable in Prometheus.
const badUTF8 = "\xff\xfe"

func (a Attr) kv() attribute.KeyValue {
	k := attribute.Key(render(a.K))
	switch a.T {
	case "i":
		n, err := strconv.ParseInt(a.V, 10, 64)
		if err != nil {
			panic(err)
		}
		return k.Int64(n)
	case "b":
		return k.Bool(a.V == "true")
	}
	if a.Ill {
		return k.String(badUTF8 + a.V)
	}
	return k.String(a.V)
}

func kvs(as []Attr) []attribute.KeyValue {
	out := make([]attribute.KeyValue, len(as))
	for i, a := range as {
		out[i] = a.kv()
	}
	return out
}

// Inst is an abstract instrument.
type Inst struct {
	ID    int    `json:"id"`
	Scope string `json:"scope"`
	Toks  []Tok  `json:"toks"`
	Unit  string `json:"unit"`
	Kind  string `json:"kind"` // counter updown gauge hist exphist ; prefix "f" = float64, "o" = observable
	Desc  string `json:"desc"`
	Ill   bool   `json:"ill"` // ill-formed: the real description is not valid UTF-8
}

func descOf(in Inst) string {
	if in.Ill {
		return in.Desc + badUTF8
	}
	return in.Desc
}

func baseKind(k string) string { return strings.TrimLeft(k, "fo") }

// ScopeRec gives a scope id a non-default identity. Default: name = id, version = "v"+id, no schema URL.
type ScopeRec struct {
	ID      string `json:"id"`
	Name    string `json:"name"`
	Version string `json:"version"`
	URL     string `json:"url"`
	Attrs   []Attr `json:"attrs"`
	Ill     string `json:"ill"` // "" | "name" | "version" | "attr": which part of the real scope is not valid UTF-8
}

// concrete: the real identity of an abstract scope.
func (r ScopeRec) concrete() (name, version string, attrs []attribute.KeyValue) {
	name, version, attrs = r.Name, r.Version, kvs(r.Attrs)
	switch r.Ill {
	case "name":
		name += badUTF8
	case "version":
		version += badUTF8
	case "attr":
		attrs = append(attrs, attribute.String("bad", badUTF8))
	}
	return
}

// ---------------------------------------------------------------- observed exposition

type OBucket struct {
	Le string `json:"le"`
	C  int64  `json:"c"`
}
type OIdx struct {
	I int64 `json:"i"`
	C int64 `json:"c"`
}

// OEx is one exposed exemplar.
type OEx struct {
	B      int        `json:"b"` // ordinal of the classic bucket that carries it (last = +Inf); 0 = not in a bucket
	Val    string     `json:"val"`
	Q      int64      `json:"q"` // 8 * value when that is an integer (qok)
	QOK    bool       `json:"qok"`
	Labels [][]string `json:"labels"`
}

// q8: bucket placement is decided on integers in the model.
func q8(v float64) (int64, bool) {
	x := v * 8
	if x == math.Trunc(x) && math.Abs(x) < 1e9 {
		return int64(x), true
	}
	return 0, false
}

func projectExemplar(e *dto.Exemplar, b int) OEx {
	o := OEx{B: b, Val: fmtF(e.GetValue()), Labels: [][]string{}}
	o.Q, o.QOK = q8(e.GetValue())
	for _, lp := range e.Label {
		o.Labels = append(o.Labels, []string{lp.GetName(), lp.GetValue()})
	}
	sort.Slice(o.Labels, func(a, b int) bool { return o.Labels[a][0] < o.Labels[b][0] })
	return o
}

type OSeries struct {
	Labels  [][]string `json:"labels"` // [[name, value]...] sorted by name
	Val     string     `json:"val"`    // counter / gauge value ("" for histograms)
	Count   int64      `json:"count"`
	Sum     string     `json:"sum"`
	Buckets []OBucket  `json:"buckets"` // classic, cumulative, without +Inf
	Native  bool       `json:"native"`
	Schema  int64      `json:"schema"`
	Zero    int64      `json:"zero"`
	Pos     []OIdx     `json:"pos"` // native: absolute bucket index -> count (non-zero only)
	Neg     []OIdx     `json:"neg"`
	Exs     []OEx      `json:"exs"`
}
type OFamily struct {
	Name   string    `json:"name"`
	Type   string    `json:"typ"`
	Help   string    `json:"help"`
	Series []OSeries `json:"series"`
}
type Obs struct {
	Panic     string    `json:"panic"`
	GatherErr string    `json:"gerr"`
	GFams     []string  `json:"gfams"`   // metric names the registry's errors talk about
	Invalid   []string  `json:"invalid"` // names/labels failing the model validity predicates
	Fams      []OFamily `json:"fams"`
}

func fmtF(v float64) string {
	if v == math.Trunc(v) && math.Abs(v) < 1e15 {
		return strconv.FormatInt(int64(v), 10)
	}
	return strconv.FormatFloat(v, 'g', -1, 64)
}

func typName(t dto.MetricType) string {
	switch t {
	case dto.MetricType_COUNTER:
		return "counter"
	case dto.MetricType_GAUGE:
		return "gauge"
	case dto.MetricType_HISTOGRAM, dto.MetricType_GAUGE_HISTOGRAM:
		return "histogram"
	case dto.MetricType_SUMMARY:
		return "summary"
	}
	return "untyped"
}

func spansToIdx(spans []*dto.BucketSpan, deltas []int64) []OIdx {
	out := []OIdx{}
	idx := int64(0)
	cur := int64(0)
	di := 0
	for _, sp := range spans {
		idx += int64(sp.GetOffset())
		for j := uint32(0); j < sp.GetLength(); j++ {
			if di < len(deltas) {
				cur += deltas[di]
				di++
			}
			if cur != 0 {
				out = append(out, OIdx{I: idx, C: cur})
			}
			idx++
		}
	}
	return out
}

func projectFamilies(mfs []*dto.MetricFamily) ([]OFamily, []string) {
	out := []OFamily{}
	invalid := []string{}
	for _, mf := range mfs {
		f := OFamily{Name: mf.GetName(), Type: typName(mf.GetType()), Help: mf.GetHelp(), Series: []OSeries{}}
		if !model.IsValidMetricName(model.LabelValue(f.Name)) {
			invalid = append(invalid, "metric:"+f.Name)
		}
		if *scheme == "legacy" && !model.IsValidLegacyMetricName(f.Name) {
			invalid = append(invalid, "metric-legacy:"+f.Name)
		}
		for _, m := range mf.Metric {
			s := OSeries{Labels: [][]string{}, Buckets: []OBucket{}, Pos: []OIdx{}, Neg: []OIdx{}, Exs: []OEx{}}
			seen := map[string]bool{}
			for _, lp := range m.Label {
				s.Labels = append(s.Labels, []string{lp.GetName(), lp.GetValue()})
				ln := model.LabelName(lp.GetName())
				if !ln.IsValid() || strings.HasPrefix(lp.GetName(), "__") || (*scheme == "legacy" && !ln.IsValidLegacy()) {
					invalid = append(invalid, "label:"+lp.GetName())
				}
				if seen[lp.GetName()] {
					invalid = append(invalid, "duplabel:"+lp.GetName())
				}
				seen[lp.GetName()] = true
			}
			sort.Slice(s.Labels, func(a, b int) bool { return s.Labels[a][0] < s.Labels[b][0] })
			switch {
			case m.Counter != nil:
				s.Val = fmtF(m.Counter.GetValue())
				if m.Counter.Exemplar != nil {
					s.Exs = append(s.Exs, projectExemplar(m.Counter.Exemplar, 0))
				}
			case m.Gauge != nil:
				s.Val = fmtF(m.Gauge.GetValue())
			case m.Untyped != nil:
				s.Val = fmtF(m.Untyped.GetValue())
			case m.Histogram != nil:
				h := m.Histogram
				s.Count = int64(h.GetSampleCount())
				s.Sum = fmtF(h.GetSampleSum())
				for _, b := range h.Bucket {
					if b.Exemplar != nil {
						ord := len(histBounds) + 1 // +Inf
						for i, bound := range histBounds {
							if b.GetUpperBound() == bound {
								ord = i + 1
							}
						}
						s.Exs = append(s.Exs, projectExemplar(b.Exemplar, ord))
					}
					if math.IsInf(b.GetUpperBound(), 1) {
						continue
					}
					s.Buckets = append(s.Buckets, OBucket{Le: fmtF(b.GetUpperBound()), C: int64(b.GetCumulativeCount())})
				}
				for _, e := range h.Exemplars {
					s.Exs = append(s.Exs, projectExemplar(e, 0))
				}
				if h.Schema != nil {
					s.Native = true
					s.Schema = int64(h.GetSchema())
					s.Zero = int64(h.GetZeroCount())
					s.Pos = spansToIdx(h.PositiveSpan, h.PositiveDelta)
					s.Neg = spansToIdx(h.NegativeSpan, h.NegativeDelta)
				}
			}
			f.Series = append(f.Series, s)
		}
		sort.Slice(f.Series, func(a, b int) bool { return fmt.Sprint(f.Series[a].Labels) < fmt.Sprint(f.Series[b].Labels) })
		out = append(out, f)
	}
	sort.Slice(out, func(a, b int) bool { return out[a].Name < out[b].Name })
	return out, invalid
}

// ---------------------------------------------------------------- capturing the collector

type capReg struct {
	inner *prometheus.Registry
	cs    []prometheus.Collector
}

func (r *capReg) Register(c prometheus.Collector) error {
	r.cs = append(r.cs, c)
	return r.inner.Register(c)
}

func (r *capReg) MustRegister(cs ...prometheus.Collector) {
	for _, c := range cs {
		if err := r.Register(c); err != nil {
			panic(err)
		}
	}
}
func (r *capReg) Unregister(c prometheus.Collector) bool { return r.inner.Unregister(c) }

type replayCollector struct{ ms []prometheus.Metric }

func (replayCollector) Describe(chan<- *prometheus.Desc) {}
func (r replayCollector) Collect(ch chan<- prometheus.Metric) {
	for _, m := range r.ms {
		ch <- m
	}
}

// directCollect calls Collect on the captured collector in this goroutine under recover.
func directCollect(c prometheus.Collector) (ms []prometheus.Metric, panicked string) {
	ch := make(chan prometheus.Metric, 64)
	done := make(chan struct{})
	go func() {
		for m := range ch {
			ms = append(ms, m)
		}
		close(done)
	}()
	func() {
		defer func() {
			if r := recover(); r != nil {
				panicked = fmt.Sprint(r)
			}
		}()
		c.Collect(ch)
	}()
	close(ch)
	<-done
	return ms, panicked
}

// ---------------------------------------------------------------- a real exporter + provider

// every measurement carries vinst=i<instrument id> and vas=a<attribute set index>: they identify the
// series in the exposition and the data point in the SDK's view
const (
	marker   = "vinst"
	markerAS = "vas"
)

type world struct {
	opts      Opts
	reg       *capReg
	exp       *otelprom.Exporter
	mp        *sdkmetric.MeterProvider
	res       []Attr
	insts     map[int]*rinst
	expo      map[string]bool // instrument names that want a base-2 exponential histogram
	mu        sync.Mutex
	errs      []string // errors reported through otel.Handle during the scenario
	scopes    map[string]metric.Meter
	maxScale  int // MaxScale of exponential histogram views
	scopeRecs []ScopeRec
	filtered  []attribute.Key // keys removed by the view's attribute filter
	mark      bool            // measurements carry the vinst marker
	byName    map[string]int  // scope id + lower-case OTel name -> instrument id (used when !mark)
	gate      *gate           // rendezvous of overlapping scrapes (concurrent scenarios)
	flt       *faultState     // armed faults of the collection + the external producer that fails (faults.go)
}

// one tracer provider for the process: measurements "inside a sampled span" get exemplars
var tracer = sdktrace.NewTracerProvider(sdktrace.WithSampler(sdktrace.AlwaysSample())).Tracer("c18")

func (w *world) scopeRec(id string) ScopeRec {
	for _, r := range w.scopeRecs {
		if r.ID == id {
			return r
		}
	}
	return ScopeRec{ID: id, Name: id, Version: "v" + id, Attrs: []Attr{}}
}

// scopeID maps what the SDK reports back to the scenario's scope id.
func (w *world) scopeID(sc instrumentation.Scope) string {
	for _, r := range w.scopeRecs {
		name, version, attrs := r.concrete()
		want := attribute.NewSet(attrs...)
		if name == sc.Name && version == sc.Version && r.URL == sc.SchemaURL && want.Equals(&sc.Attributes) {
			return r.ID
		}
	}
	return sc.Name
}

type rinst struct {
	in   Inst
	add  func(ctx context.Context, v float64, attrs []attribute.KeyValue)
	obs  map[attribute.Distinct]*obsPoint // observable instruments: current values
	omu  sync.Mutex
	keys []attribute.Distinct
}
type obsPoint struct {
	set attribute.Set
	v   float64
}

var histBounds = []float64{5, 10}

var curWorld *world
var curMu sync.Mutex

func init() {
	otel.SetLogger(logr.Discard()) // type / description conflicts are logged by the exporter: not an observation here
	otel.SetErrorHandler(otel.ErrorHandlerFunc(func(err error) {
		curMu.Lock()
		w := curWorld
		curMu.Unlock()
		if w != nil {
			w.mu.Lock()
			if len(w.errs) < 20 {
				w.errs = append(w.errs, err.Error())
			}
			w.mu.Unlock()
		}
	}))
}

// gate is an external metric.Producer (WithProducer): the reader calls it from inside Collect outside of every
// SDK lock. While armed it parks each scrape until `parties` scrapes have arrived, so that they continue into
// the exporter's code without any happens-before order between them. The timeout only keeps the run alive.
type gate struct {
	mu      sync.Mutex
	armed   bool
	parties int
	arrived int
	ch      chan struct{}
}

func (g *gate) arm(parties int) {
	g.mu.Lock()
	g.armed, g.parties, g.arrived = parties > 1, parties, 0
	g.mu.Unlock()
}

func (g *gate) Produce(context.Context) ([]metricdata.ScopeMetrics, error) {
	g.mu.Lock()
	if !g.armed {
		g.mu.Unlock()
		return nil, nil
	}
	g.arrived++
	ch := g.ch
	if g.arrived >= g.parties {
		g.arrived = 0
		g.ch = make(chan struct{})
		close(ch)
		g.mu.Unlock()
		return nil, nil
	}
	g.mu.Unlock()
	select {
	case <-ch:
	case <-time.After(500 * time.Millisecond):
		g.mu.Lock()
		if g.ch == ch && g.arrived > 0 {
			g.arrived--
		}
		g.mu.Unlock()
	}
	return nil, nil
}

func newWorld(o Opts, res []Attr) (*world, error) { return newWorldGate(o, res, false) }

func newWorldGate(o Opts, res []Attr, withGate bool) (*world, error) {
	if o.Scheme != *scheme {
		return nil, fmt.Errorf("scenario scheme %q but process runs %q", o.Scheme, *scheme)
	}
	w := &world{opts: o, res: res, insts: map[int]*rinst{}, expo: map[string]bool{}, scopes: map[string]metric.Meter{}, maxScale: *expoMaxScale,
		mark: true, byName: map[string]int{}}
	curMu.Lock()
	curWorld = w
	curMu.Unlock()
	w.reg = &capReg{inner: prometheus.NewRegistry()}
	popts := []otelprom.Option{otelprom.WithRegisterer(w.reg)}
	if o.NoUnits {
		popts = append(popts, otelprom.WithoutUnits())
	}
	if o.NoSuffix {
		popts = append(popts, otelprom.WithoutCounterSuffixes())
	}
	if len(o.NS) > 0 {
		popts = append(popts, otelprom.WithNamespace(render(o.NS)))
	}
	if o.NoTarget {
		popts = append(popts, otelprom.WithoutTargetInfo())
	}
	if o.NoScope {
		popts = append(popts, otelprom.WithoutScopeInfo())
	}
	if o.ResConst {
		allow := []attribute.Key{}
		for _, i := range o.ResKeys {
			allow = append(allow, attribute.Key(render(res[i-1].K)))
		}
		popts = append(popts, otelprom.WithResourceAsConstantLabels(attribute.NewAllowKeysFilter(allow...)))
	}
	w.flt = &faultState{on: map[string]bool{}}
	popts = append(popts, otelprom.WithProducer(w.flt))
	if withGate {
		w.gate = &gate{ch: make(chan struct{})}
		popts = append(popts, otelprom.WithProducer(w.gate))
	}
	exp, err := otelprom.New(popts...)
	if err != nil {
		return nil, err
	}
	w.exp = exp
	return w, nil
}

// register hands the exporter to a MeterProvider (WithReader): before that the exporter is an unregistered reader.
func (w *world) register() {
	view := func(i sdkmetric.Instrument) (sdkmetric.Stream, bool) {
		w.mu.Lock()
		defer w.mu.Unlock()
		st := sdkmetric.Stream{Name: i.Name, Description: i.Description, Unit: i.Unit}
		use := false
		if len(w.filtered) > 0 {
			st.AttributeFilter = attribute.NewDenyKeysFilter(w.filtered...)
			use = true
		}
		if w.expo[w.scopeID(i.Scope)+"\x00"+i.Name] {
			st.Aggregation = sdkmetric.AggregationBase2ExponentialHistogram{MaxSize: 160, MaxScale: int32(w.maxScale)}
			use = true
		}
		return st, use
	}
	w.mp = sdkmetric.NewMeterProvider(sdkmetric.WithReader(w.exp), sdkmetric.WithView(view),
		sdkmetric.WithResource(resource.NewSchemaless(kvs(w.res)...)))
}

func (w *world) close() {
	if w.mp != nil {
		_ = w.mp.Shutdown(context.Background())
	}
	curMu.Lock()
	if curWorld == w {
		curWorld = nil
	}
	curMu.Unlock()
}

func (w *world) meter(scope string) metric.Meter {
	if m, ok := w.scopes[scope]; ok {
		return m
	}
	r := w.scopeRec(scope)
	name, version, attrs := r.concrete()
	mopts := []metric.MeterOption{metric.WithInstrumentationVersion(version)}
	if r.URL != "" {
		mopts = append(mopts, metric.WithSchemaURL(r.URL))
	}
	if len(attrs) > 0 {
		mopts = append(mopts, metric.WithInstrumentationAttributes(attrs...))
	}
	m := w.mp.Meter(name, mopts...)
	w.scopes[scope] = m
	return m
}

// create makes the real instrument for an abstract one. The returned error is the SDK's verdict on
// the instrument (an invalid name is a harness bug: the property quantifies over valid names).
func (w *world) create(in Inst) error {
	if _, dup := w.insts[in.ID]; dup {
		return nil
	}
	name := render(in.Toks)
	w.byName[in.Scope+"\x00"+strings.ToLower(name)] = in.ID
	m := w.meter(in.Scope)
	ri := &rinst{in: in}
	k := in.Kind
	float := strings.Contains(k[:len(k)-len(baseKind(k))], "f")
	observable := strings.Contains(k[:len(k)-len(baseKind(k))], "o")
	bk := baseKind(k)
	if bk == "exphist" {
		w.mu.Lock()
		w.expo[in.Scope+"\x00"+name] = true
		w.mu.Unlock()
	}
	var err error
	if observable {
		ri.obs = map[attribute.Distinct]*obsPoint{}
		switch bk {
		case "counter":
			if float {
				_, err = m.Float64ObservableCounter(name, metric.WithUnit(in.Unit), metric.WithDescription(descOf(in)),
					metric.WithFloat64Callback(func(_ context.Context, o metric.Float64Observer) error { ri.observeF(o); return nil }))
			} else {
				_, err = m.Int64ObservableCounter(name, metric.WithUnit(in.Unit), metric.WithDescription(descOf(in)),
					metric.WithInt64Callback(func(_ context.Context, o metric.Int64Observer) error { ri.observeI(o); return nil }))
			}
		case "updown":
			if float {
				_, err = m.Float64ObservableUpDownCounter(name, metric.WithUnit(in.Unit), metric.WithDescription(descOf(in)),
					metric.WithFloat64Callback(func(_ context.Context, o metric.Float64Observer) error { ri.observeF(o); return nil }))
			} else {
				_, err = m.Int64ObservableUpDownCounter(name, metric.WithUnit(in.Unit), metric.WithDescription(descOf(in)),
					metric.WithInt64Callback(func(_ context.Context, o metric.Int64Observer) error { ri.observeI(o); return nil }))
			}
		case "gauge":
			if float {
				_, err = m.Float64ObservableGauge(name, metric.WithUnit(in.Unit), metric.WithDescription(descOf(in)),
					metric.WithFloat64Callback(func(_ context.Context, o metric.Float64Observer) error { ri.observeF(o); return nil }))
			} else {
				_, err = m.Int64ObservableGauge(name, metric.WithUnit(in.Unit), metric.WithDescription(descOf(in)),
					metric.WithInt64Callback(func(_ context.Context, o metric.Int64Observer) error { ri.observeI(o); return nil }))
			}
		default:
			return fmt.Errorf("no observable %s", bk)
		}
		// observable sums report the absolute value; the harness accumulates so that Rec means "add"
		ri.add = func(_ context.Context, v float64, attrs []attribute.KeyValue) {
			set := attribute.NewSet(attrs...)
			ri.omu.Lock()
			p := ri.obs[set.Equivalent()]
			if p == nil {
				p = &obsPoint{set: set}
				ri.obs[set.Equivalent()] = p
				ri.keys = append(ri.keys, set.Equivalent())
			}
			if bk == "gauge" {
				p.v = v
			} else {
				p.v += v
			}
			ri.omu.Unlock()
		}
		w.insts[in.ID] = ri
		return err
	}
	switch bk {
	case "counter":
		if float {
			var c metric.Float64Counter
			c, err = m.Float64Counter(name, metric.WithUnit(in.Unit), metric.WithDescription(descOf(in)))
			ri.add = func(ctx context.Context, v float64, a []attribute.KeyValue) {
				c.Add(ctx, v, metric.WithAttributes(a...))
			}
		} else {
			var c metric.Int64Counter
			c, err = m.Int64Counter(name, metric.WithUnit(in.Unit), metric.WithDescription(descOf(in)))
			ri.add = func(ctx context.Context, v float64, a []attribute.KeyValue) {
				c.Add(ctx, int64(v), metric.WithAttributes(a...))
			}
		}
	case "updown":
		if float {
			var c metric.Float64UpDownCounter
			c, err = m.Float64UpDownCounter(name, metric.WithUnit(in.Unit), metric.WithDescription(descOf(in)))
			ri.add = func(ctx context.Context, v float64, a []attribute.KeyValue) {
				c.Add(ctx, v, metric.WithAttributes(a...))
			}
		} else {
			var c metric.Int64UpDownCounter
			c, err = m.Int64UpDownCounter(name, metric.WithUnit(in.Unit), metric.WithDescription(descOf(in)))
			ri.add = func(ctx context.Context, v float64, a []attribute.KeyValue) {
				c.Add(ctx, int64(v), metric.WithAttributes(a...))
			}
		}
	case "gauge":
		if float {
			var c metric.Float64Gauge
			c, err = m.Float64Gauge(name, metric.WithUnit(in.Unit), metric.WithDescription(descOf(in)))
			ri.add = func(ctx context.Context, v float64, a []attribute.KeyValue) {
				c.Record(ctx, v, metric.WithAttributes(a...))
			}
		} else {
			var c metric.Int64Gauge
			c, err = m.Int64Gauge(name, metric.WithUnit(in.Unit), metric.WithDescription(descOf(in)))
			ri.add = func(ctx context.Context, v float64, a []attribute.KeyValue) {
				c.Record(ctx, int64(v), metric.WithAttributes(a...))
			}
		}
	case "hist", "exphist":
		if float {
			var c metric.Float64Histogram
			c, err = m.Float64Histogram(name, metric.WithUnit(in.Unit), metric.WithDescription(descOf(in)),
				metric.WithExplicitBucketBoundaries(histBounds...))
			ri.add = func(ctx context.Context, v float64, a []attribute.KeyValue) {
				c.Record(ctx, v, metric.WithAttributes(a...))
			}
		} else {
			var c metric.Int64Histogram
			c, err = m.Int64Histogram(name, metric.WithUnit(in.Unit), metric.WithDescription(descOf(in)),
				metric.WithExplicitBucketBoundaries(histBounds...))
			ri.add = func(ctx context.Context, v float64, a []attribute.KeyValue) {
				c.Record(ctx, int64(v), metric.WithAttributes(a...))
			}
		}
	default:
		return fmt.Errorf("unknown kind %q", in.Kind)
	}
	w.insts[in.ID] = ri
	return err
}

func (ri *rinst) observeF(o metric.Float64Observer) {
	ri.omu.Lock()
	defer ri.omu.Unlock()
	for _, k := range ri.keys {
		p := ri.obs[k]
		o.Observe(p.v, metric.WithAttributeSet(p.set))
	}
}

func (ri *rinst) observeI(o metric.Int64Observer) {
	ri.omu.Lock()
	defer ri.omu.Unlock()
	for _, k := range ri.keys {
		p := ri.obs[k]
		o.Observe(int64(p.v), metric.WithAttributeSet(p.set))
	}
}

func recordOn(ri *rinst, id int, asIdx int, as []Attr, v float64) {
	a := append(kvs(as), attribute.String(marker, "i"+strconv.Itoa(id)), attribute.String(markerAS, "a"+strconv.Itoa(asIdx)))
	ri.add(context.Background(), v, a)
}

// recordIn adds one measurement; sp = inside a real sampled span (the SDK's default trace-based exemplar
// filter then offers it to the exemplar reservoir).
func (w *world) recordIn(id int, asIdx int, as []Attr, v float64, sp bool) {
	ri := w.insts[id]
	a := append(kvs(as), attribute.String(markerAS, "a"+strconv.Itoa(asIdx)))
	if w.mark {
		a = append(a, attribute.String(marker, "i"+strconv.Itoa(id)))
	}
	ctx := context.Background()
	if sp {
		var span trace.Span
		ctx, span = tracer.Start(ctx, "rec")
		defer span.End()
	}
	ri.add(ctx, v, a)
}

// record adds one measurement with the abstract attribute set (index asIdx, 1-based) plus the markers.
func (w *world) record(id int, asIdx int, as []Attr, v float64) { w.recordIn(id, asIdx, as, v, false) }

var collectedMetricRe = regexp.MustCompile(`collected metric "?([^\s"{]+)`)

// rejectedFamilies: what the registry's errors talk about, as "<class>:<metric name>" (sorted, unique);
// class = dup (same name and label values collected twice) | help | type | other.
func rejectedFamilies(err error) []string {
	errs := []error{err}
	if me, ok := err.(prometheus.MultiError); ok {
		errs = me
	}
	seen := map[string]bool{}
	out := []string{}
	for _, e := range errs {
		name := "?"
		if m := collectedMetricRe.FindStringSubmatch(e.Error()); m != nil {
			name = m[1]
		}
		switch txt := e.Error(); {
		case strings.Contains(txt, "was collected before with the same name and label values"):
			name = "dup:" + name
		case strings.Contains(txt, "has help"):
			name = "help:" + name
		case strings.Contains(txt, "should be a"):
			name = "type:" + name
		default:
			name = "other:" + name
		}
		if !seen[name] {
			seen[name] = true
			out = append(out, name)
		}
	}
	sort.Strings(out)
	return out
}

// collectObs = one scrape by calling Collect on the captured collector directly, under recover
// (a panic inside registry.Gather's goroutine could not be recovered). What was collected is then
// checked by a real, fresh Registry (replayed through it): Gather error, validity of names.
func (w *world) collectObs() Obs {
	o := Obs{Invalid: []string{}, Fams: []OFamily{}, GFams: []string{}}
	if len(w.reg.cs) != 1 {
		o.Panic = fmt.Sprintf("harness: %d collectors captured", len(w.reg.cs))
		return o
	}
	ms, p := directCollect(w.reg.cs[0])
	if p != "" {
		o.Panic = p
		return o
	}
	for _, m := range ms {
		if m == nil {
			// what the production path does with it: Registry.Gather calls m.Desc() -> nil dereference in its goroutine
			o.Panic = "collector sent a nil prometheus.Metric (Registry.Gather dereferences it: nil pointer panic)"
			return o
		}
	}
	r2 := prometheus.NewRegistry()
	if err := r2.Register(replayCollector{ms}); err != nil {
		o.Panic = "harness: " + err.Error()
		return o
	}
	mfs, err := r2.Gather()
	if err != nil {
		o.GatherErr = err.Error()
		o.GFams = rejectedFamilies(err)
	}
	o.Fams, o.Invalid = projectFamilies(mfs)
	return o
}

// gatherObs = one scrape through the registry the exporter registered with (the production path).
// Only called after collectObs proved that the same state does not panic.
func (w *world) gatherObs() Obs {
	o := Obs{Invalid: []string{}, Fams: []OFamily{}, GFams: []string{}}
	mfs, err := w.reg.inner.Gather()
	if err != nil {
		o.GatherErr = err.Error()
		o.GFams = rejectedFamilies(err)
	}
	o.Fams, o.Invalid = projectFamilies(mfs)
	return o
}

// ---------------------------------------------------------------- what the SDK reports

// SPoint is one data point of the SDK's own (cumulative) view through the same reader.
type SPoint struct {
	AS     int     `json:"as"` // attribute set index (from the vas marker)
	Val    string  `json:"val"`
	Count  int64   `json:"count"`
	Sum    string  `json:"sum"`
	Counts []int64 `json:"counts"` // per-bucket (NOT cumulative), len(bounds)+1
	Scale  int64   `json:"scale"`
	Zero   int64   `json:"zero"`
	POff   int64   `json:"poff"`
	PCnt   []int64 `json:"pcnt"`
	NOff   int64   `json:"noff"`
	NCnt   []int64 `json:"ncnt"`
	Exs    []SEx   `json:"exs"`
}

// SEx is one exemplar of the SDK's view.
type SEx struct {
	Val   string `json:"val"`
	Q     int64  `json:"q"`
	QOK   bool   `json:"qok"`
	Trace string `json:"trace"`
	Span  string `json:"span"`
}

func sexs[N int64 | float64](in []metricdata.Exemplar[N]) []SEx {
	out := []SEx{}
	for _, e := range in {
		x := SEx{Val: fmtF(float64(e.Value)), Trace: hex.EncodeToString(e.TraceID), Span: hex.EncodeToString(e.SpanID)}
		x.Q, x.QOK = q8(float64(e.Value))
		out = append(out, x)
	}
	return out
}

type SStream struct {
	Inst   int      `json:"inst"`
	Scope  string   `json:"scope"`
	Data   string   `json:"data"` // counter | gauge(sum non-monotonic or gauge) | hist | exphist
	Points []SPoint `json:"points"`
}

func i64s[N int64 | uint64](in []N) []int64 {
	out := make([]int64, len(in))
	for i, v := range in {
		out[i] = int64(v)
	}
	return out
}

func attrsOf(set attribute.Set) (as int, id string) {
	if v, ok := set.Value(marker); ok {
		id = v.AsString()
	}
	if v, ok := set.Value(markerAS); ok {
		as, _ = strconv.Atoi(strings.TrimPrefix(v.AsString(), "a"))
	}
	return as, id
}

func sumPoints[N int64 | float64](dps []metricdata.DataPoint[N]) (pts []SPoint, id string) {
	pts = []SPoint{}
	for _, dp := range dps {
		a, i := attrsOf(dp.Attributes)
		id = i
		pts = append(pts, SPoint{AS: a, Val: fmtF(float64(dp.Value)), Counts: []int64{}, PCnt: []int64{}, NCnt: []int64{}, Exs: sexs(dp.Exemplars)})
	}
	return
}

func histPoints[N int64 | float64](dps []metricdata.HistogramDataPoint[N]) (pts []SPoint, id string) {
	pts = []SPoint{}
	for _, dp := range dps {
		a, i := attrsOf(dp.Attributes)
		id = i
		pts = append(pts, SPoint{AS: a, Count: int64(dp.Count), Sum: fmtF(float64(dp.Sum)), Counts: i64s(dp.BucketCounts),
			PCnt: []int64{}, NCnt: []int64{}, Exs: sexs(dp.Exemplars)})
	}
	return
}

func expPoints[N int64 | float64](dps []metricdata.ExponentialHistogramDataPoint[N]) (pts []SPoint, id string) {
	pts = []SPoint{}
	for _, dp := range dps {
		a, i := attrsOf(dp.Attributes)
		id = i
		pts = append(pts, SPoint{AS: a, Count: int64(dp.Count), Sum: fmtF(float64(dp.Sum)), Counts: []int64{},
			Scale: int64(dp.Scale), Zero: int64(dp.ZeroCount), POff: int64(dp.PositiveBucket.Offset), PCnt: i64s(dp.PositiveBucket.Counts),
			NOff: int64(dp.NegativeBucket.Offset), NCnt: i64s(dp.NegativeBucket.Counts), Exs: sexs(dp.Exemplars)})
	}
	return
}

// sdkView collects through the exporter's own reader; streams grouped per scope in SDK order,
// scopes sorted by name (the SDK's scope order is a map iteration).
func (w *world) sdkView() ([]SStream, error) {
	var rm metricdata.ResourceMetrics
	if err := w.exp.Collect(context.Background(), &rm); err != nil {
		return nil, err
	}
	return w.projectRM(&rm)
}

// projectRM projects what a collection of the reader produced.
func (w *world) projectRM(rm *metricdata.ResourceMetrics) ([]SStream, error) {
	out := []SStream{}
	sid := func(i int) string { return w.scopeID(rm.ScopeMetrics[i].Scope) }
	sort.Slice(rm.ScopeMetrics, func(a, b int) bool { return sid(a) < sid(b) })
	for i, sm := range rm.ScopeMetrics {
		for _, m := range sm.Metrics {
			s := SStream{Scope: sid(i)}
			var id string
			switch d := m.Data.(type) {
			case metricdata.Sum[int64]:
				s.Data = map[bool]string{true: "counter", false: "gauge"}[d.IsMonotonic]
				s.Points, id = sumPoints(d.DataPoints)
			case metricdata.Sum[float64]:
				s.Data = map[bool]string{true: "counter", false: "gauge"}[d.IsMonotonic]
				s.Points, id = sumPoints(d.DataPoints)
			case metricdata.Gauge[int64]:
				s.Data = "gauge"
				s.Points, id = sumPoints(d.DataPoints)
			case metricdata.Gauge[float64]:
				s.Data = "gauge"
				s.Points, id = sumPoints(d.DataPoints)
			case metricdata.Histogram[int64]:
				s.Data = "hist"
				s.Points, id = histPoints(d.DataPoints)
			case metricdata.Histogram[float64]:
				s.Data = "hist"
				s.Points, id = histPoints(d.DataPoints)
			case metricdata.ExponentialHistogram[int64]:
				s.Data = "exphist"
				s.Points, id = expPoints(d.DataPoints)
			case metricdata.ExponentialHistogram[float64]:
				s.Data = "exphist"
				s.Points, id = expPoints(d.DataPoints)
			}
			if w.mark {
				n, err := strconv.Atoi(strings.TrimPrefix(id, "i"))
				if err != nil {
					return nil, fmt.Errorf("stream %q without marker", m.Name)
				}
				s.Inst = n
			} else {
				n, ok := w.byName[s.Scope+"\x00"+strings.ToLower(m.Name)]
				if !ok {
					return nil, fmt.Errorf("stream %q of scope %q not created by the scenario", m.Name, s.Scope)
				}
				s.Inst = n
			}
			out = append(out, s)
		}
	}
	return out, nil
}
