package main

import (
	"encoding/json"
	"flag"
	"fmt"
	"math/rand"
	"runtime"
	"sync"

	"go.opentelemetry.io/otel/sdk/verifh/vh"
)

// conc: the concurrency clause. Scrapers (half through direct Collect under recover, half through the
// real Registry.Gather) run against recorders and against the creation of a late instrument. Every
// concurrent scrape is logged as CScrape (judged structurally against the final state), the quiescent
// final state is scraped and judged exactly. No verdict is derived from timing: goroutines only yield.
func conc(args []string) {
	fs := flag.NewFlagSet("conc", flag.ExitOnError)
	commonFlags(fs)
	n := fs.Int("n", 10, "scenarios")
	scrapers := fs.Int("scrapers", 8, "")
	recorders := fs.Int("recorders", 8, "")
	outF := fs.String("out", "trace.ndjson", "")
	resF := fs.String("res", "conc.json", "")
	fs.Parse(args)
	applyScheme()
	r := rand.New(rand.NewSource(vh.Seed()*7919 + int64(len(*scheme))))
	tw, err := vh.NewTraceWriter(*outF)
	vh.Must(err)
	res := vh.NewResult()
	for i := 0; i < *n; i++ {
		concScenario(r, fmt.Sprintf("c-%s-%d", *scheme, i), *scrapers, *recorders, tw, res)
	}
	vh.Must(tw.Close())
	vh.Must(res.Write(*resF))
}

func concScenario(r *rand.Rand, id string, nscr, nrec int, tw *vh.TraceWriter, res *vh.Result) {
	// inputs without family conflicts and outside the listed deviations: distinct plain names
	resAttrs := finishAS([]Attr{{K: []Tok{w("service"), sep("."), w("name")}, T: "s", V: "svc"}})
	o := Opts{Scheme: *scheme, NS: []Tok{}, ResKeys: []int{}, NoScope: r.Intn(4) == 0, NoTarget: r.Intn(4) == 0}
	if r.Intn(2) == 0 {
		o.ResConst, o.ResKeys = true, []int{1}
	}
	ases := [][]Attr{{}}
	for len(ases) < 4 {
		ases = append(ases, genAS(r, 1+r.Intn(3), false, nil))
	}
	// ill-formed but accepted by the SDK: an attribute value that is not valid UTF-8 (its series cannot be built)
	ases = append(ases, finishAS([]Attr{{K: []Tok{w("k")}, T: "s", V: "v"}, {K: []Tok{w("u")}, T: "s", V: "ill", Ill: true}}))
	// ... and a scope whose otel_scope_info cannot be built (fault path of the exporter's scope cache), present from
	// the first overlapping scrapes on, and an instrument with an ill-formed description
	badScope := ScopeRec{ID: "sX", Name: "sX", Version: "vsX", Attrs: []Attr{}, Ill: pick(r, []string{"name", "version", "attr"})}
	scopeRecs := []ScopeRec{badScope}
	ckinds := []string{"counter", "fcounter", "updown", "gauge", "hist", "fhist", "ocounter", "ogauge", "exphist"}
	names := []string{"alpha", "beta", "gamma", "delta", "eps", "zeta"}
	insts := []Inst{}
	for i := 0; i < 5; i++ {
		toks := []Tok{w(names[i])}
		if r.Intn(2) == 0 {
			toks = append(toks, sep(pick(r, seps)), w("n"))
		}
		insts = append(insts, Inst{ID: i + 1, Scope: pick(r, []string{"sA", "sB"}), Toks: toks, Unit: pick(r, []string{"", "s", "By", "1"}),
			Kind: pick(r, ckinds), Desc: pick(r, []string{"", "d1"})})
	}
	insts = append(insts, Inst{ID: len(insts) + 1, Scope: "sX", Toks: []Tok{w("inbadscope")}, Kind: pick(r, ckinds), Desc: "d1"},
		Inst{ID: len(insts) + 2, Scope: "sA", Toks: []Tok{w("baddesc")}, Kind: pick(r, ckinds), Desc: "d1", Ill: true})
	insts[len(insts)-3], insts[len(insts)-1] = insts[len(insts)-1], insts[len(insts)-3] // the late instrument stays last
	for i := range insts {
		insts[i].ID = i + 1
	}
	wd, err := newWorldGate(o, resAttrs, true)
	if err != nil {
		res.Inconcl(id + ": " + err.Error())
		return
	}
	defer wd.close()
	wd.maxScale = 6
	wd.scopeRecs = scopeRecs
	wd.register()
	tw.Emit(map[string]any{"ev": "New", "sc": id, "opts": o, "res": resAttrs, "ases": ases, "bounds": boundsText, "qbounds": qbounds, "scopes": scopeRecs, "mark": true})
	late := insts[len(insts)-1]
	early := insts[:len(insts)-1]
	for _, in := range early {
		if err := wd.create(in); err != nil {
			res.Inconcl(id + ": create: " + err.Error())
			return
		}
	}
	rin := map[int]*rinst{}
	for _, in := range early {
		rin[in.ID] = wd.insts[in.ID]
	}
	type recOp struct {
		in Inst
		as int
		v  float64
	}
	plans := make([][]recOp, nrec)
	for g := range plans {
		for k := 0; k < 40+r.Intn(40); k++ {
			in := early[r.Intn(len(early))]
			plans[g] = append(plans[g], recOp{in, 1 + r.Intn(len(ases)), genValueFor(r, in.Kind)})
		}
	}
	latePlan := []recOp{}
	for k := 0; k < 20; k++ {
		latePlan = append(latePlan, recOp{late, 1 + r.Intn(len(ases)), genValueFor(r, late.Kind)})
	}
	var mu sync.Mutex
	obs := []Obs{}
	var wg sync.WaitGroup
	start := make(chan struct{})
	for g := 0; g < nrec; g++ {
		wg.Add(1)
		go func(plan []recOp) {
			defer wg.Done()
			<-start
			for i, op := range plan {
				recordOn(rin[op.in.ID], op.in.ID, op.as, ases[op.as-1], op.v)
				if i%8 == 0 {
					runtime.Gosched()
				}
			}
		}(plans[g])
	}
	wg.Add(1)
	go func() { // the late instrument: a new family appears while scrapes are running
		defer wg.Done()
		<-start
		runtime.Gosched()
		if err := wd.create(late); err != nil {
			res.Inconcl(id + ": late create: " + err.Error())
			return
		}
		ri := wd.insts[late.ID]
		for _, op := range latePlan {
			recordOn(ri, late.ID, op.as, ases[op.as-1], op.v)
			runtime.Gosched()
		}
	}()
	for g := 0; g < nscr; g++ {
		wg.Add(1)
		go func(g int) {
			defer wg.Done()
			<-start
			for k := 0; k < 6; k++ {
				var o Obs
				if g%2 == 0 {
					o = wd.collectObs()
				} else {
					o = wd.gatherObs()
				}
				mu.Lock()
				obs = append(obs, o)
				mu.Unlock()
				runtime.Gosched()
			}
		}(g)
	}
	// every round of scrapes meets at the gate inside Collect and continues into the exporter unordered
	wd.gate.arm(nscr)
	close(start)
	wg.Wait()
	wd.gate.arm(0)
	streams, err := wd.sdkView()
	if err != nil {
		res.Inconcl(id + ": Reader.Collect: " + err.Error())
		return
	}
	tw.Emit(map[string]any{"ev": "Env", "sc": id, "insts": insts, "streams": streams})
	for _, o := range obs {
		tw.Emit(map[string]any{"ev": "CScrape", "sc": id, "obs": o})
		res.Count("concurrent-scrapes", 1)
		if len(o.Fams) > 0 {
			res.Count("concurrent-scrapes-with-series", 1)
		}
	}
	fin := wd.collectObs()
	tw.Emit(map[string]any{"ev": "Scrape", "sc": id, "via": "collect", "phase": "reg", "obs": fin})
	if fin.Panic == "" {
		tw.Emit(map[string]any{"ev": "Scrape", "sc": id, "via": "gather", "phase": "reg", "obs": wd.gatherObs()})
	}
	countObs(res, streams, fin)
	res.Executed++
	if res.Executed <= 1 {
		b, _ := json.Marshal(insts)
		res.Sample(map[string]any{"scenario": id, "insts": json.RawMessage(b), "scrapers": nscr, "recorders": nrec})
	}
}
