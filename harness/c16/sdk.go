package main

import (
	"context"
	"errors"
	"strings"
	"sync"
	"sync/atomic"
	"time"

	"go.opentelemetry.io/otel/metric"
	membedded "go.opentelemetry.io/otel/metric/embedded"
	"go.opentelemetry.io/otel/propagation"
	sdkmetric "go.opentelemetry.io/otel/sdk/metric"
	sdktrace "go.opentelemetry.io/otel/sdk/trace"
	"go.opentelemetry.io/otel/trace"
	tembedded "go.opentelemetry.io/otel/trace/embedded"
)

// The installed delegates: thin wrappers around a REAL sdkmetric.MeterProvider (+ ManualReader) and a
// real sdktrace.TracerProvider. Their methods are called by internal/global while it holds its locks,
// so they are the natural gates of the replay, and they record what reaches the SDK.

type idKey struct{}

func withID(id string) context.Context { return context.WithValue(context.Background(), idKey{}, id) }
func idOf(ctx context.Context) string {
	if s, ok := ctx.Value(idKey{}).(string); ok {
		return s
	}
	return ""
}

type H struct { // per-scenario harness state shared by the wrappers
	sc    int
	emit  func(map[string]any)
	sched *gsched
	mu    sync.Mutex
	obs   map[any]string // real SDK observable instrument -> instrument name
	// scripted faults of the delegate SDK: RegisterCallback / instrument constructors refuse these names
	refuseReg, refuseInst map[string]bool
	kindOf                map[string]string          // harness process -> kind (is a refusal part of a hand-over?)
	cbOfSid               map[string]string          // identity of an observable instrument -> the harness callback observing it
	cbs                   map[string]metric.Callback // callback name -> the function internal/global registered with the SDK
	cbCh                  map[string]chan struct{}   // closed when that happens the first time
	nref                  map[string]int             // refusals per item
	looping               int64                      // set when a refused item is submitted over and over
}

// refused records a scripted refusal; handover = it happens on an installer's goroutine, i.e. inside Set.
func (h *H) refused(what, obj, sdk string, err error) {
	h.mu.Lock()
	if h.nref == nil {
		h.nref = map[string]int{}
	}
	h.nref[what+"/"+obj+"/"+sdk]++
	n := h.nref[what+"/"+obj+"/"+sdk]
	h.mu.Unlock()
	if n > 3 { // a loop that keeps re-submitting the refused item: recorded three times, then only throttled
		atomic.StoreInt64(&h.looping, 1)
		time.Sleep(5 * time.Millisecond)
		return
	}
	h.emit(map[string]any{"ev": "SdkRefused", "what": what, "obj": obj, "sdk": sdk, "msg": err.Error(),
		"handover": strings.HasSuffix(h.kindOf[h.sched.me()], "inst")})
}

func (h *H) gate(point string) { h.sched.gate(h.sched.me(), point) }
func (h *H) sdkUse(kind, id, sdk, sid string) {
	if id != "" {
		h.emit(map[string]any{"ev": "SdkUse", "kind": kind, "id": id, "inst": sdk + "/" + instOfID(id), "sdk": sdk, "sid": sid})
	}
}

// ids are "<obj>:<k>" or "probe:<obj>"
func instOfID(id string) string {
	if strings.HasPrefix(id, "probe:") {
		return id[len("probe:"):]
	}
	if i := strings.LastIndex(id, ":"); i > 0 {
		return id[:i]
	}
	return id
}

// ---------------------------------------------------------------- metrics
type wMP struct {
	membedded.MeterProvider
	real *sdkmetric.MeterProvider
	h    *H
	id   string // "r1" | "r2": which of the two real SDKs
}

func (w *wMP) Meter(name string, opts ...metric.MeterOption) metric.Meter {
	w.h.gate("sdk.Meter:" + name)
	w.h.emit(map[string]any{"ev": "SdkObj", "what": "meter", "obj": name, "sdk": w.id})
	return &wMeter{Meter: w.real.Meter(name, opts...), h: w.h, id: w.id}
}

type wMeter struct {
	metric.Meter
	h  *H
	id string
}

// sidOf: the identity of an instrument as the API documents it: name, kind, unit, description.
func sidOf(name, kind, unit, desc string) string {
	if kind == "" {
		kind = "i64counter"
	}
	return name + "|" + kind + "|" + unit + "|" + desc
}

// inst: gate + scripted refusal + log; returns the identity of the SDK instrument about to be created
func (m *wMeter) inst(name, kind, unit, desc string) (string, error) {
	m.h.gate("sdk.Inst:" + name)
	if m.h.refuseInst[name] {
		err := errors.New("refused inst " + name)
		m.h.refused("inst", name, m.id, err)
		return "", err
	}
	sid := sidOf(name, kind, unit, desc)
	m.h.emit(map[string]any{"ev": "SdkObj", "what": "inst", "obj": name, "sdk": m.id, "sid": sid})
	return sid, nil
}
func (m *wMeter) remember(o any, sid string, err error) {
	if err == nil {
		m.h.mu.Lock()
		m.h.obs[o] = sid
		m.h.mu.Unlock()
	}
}

type wI64C struct {
	metric.Int64Counter
	h      *H
	s, sid string
}

func (w wI64C) Add(ctx context.Context, v int64, o ...metric.AddOption) {
	w.h.sdkUse("mp", idOf(ctx), w.s, w.sid)
	w.Int64Counter.Add(ctx, v, o...)
}
func (m *wMeter) Int64Counter(n string, o ...metric.Int64CounterOption) (metric.Int64Counter, error) {
	c := metric.NewInt64CounterConfig(o...)
	sid, err := m.inst(n, "i64counter", c.Unit(), c.Description())
	if err != nil {
		return nil, err
	}
	r, err := m.Meter.Int64Counter(n, o...)
	return wI64C{r, m.h, m.id, sid}, err
}

type wI64U struct {
	metric.Int64UpDownCounter
	h      *H
	s, sid string
}

func (w wI64U) Add(ctx context.Context, v int64, o ...metric.AddOption) {
	w.h.sdkUse("mp", idOf(ctx), w.s, w.sid)
	w.Int64UpDownCounter.Add(ctx, v, o...)
}
func (m *wMeter) Int64UpDownCounter(n string, o ...metric.Int64UpDownCounterOption) (metric.Int64UpDownCounter, error) {
	c := metric.NewInt64UpDownCounterConfig(o...)
	sid, err := m.inst(n, "i64updown", c.Unit(), c.Description())
	if err != nil {
		return nil, err
	}
	r, err := m.Meter.Int64UpDownCounter(n, o...)
	return wI64U{r, m.h, m.id, sid}, err
}

type wI64H struct {
	metric.Int64Histogram
	h      *H
	s, sid string
}

func (w wI64H) Record(ctx context.Context, v int64, o ...metric.RecordOption) {
	w.h.sdkUse("mp", idOf(ctx), w.s, w.sid)
	w.Int64Histogram.Record(ctx, v, o...)
}
func (m *wMeter) Int64Histogram(n string, o ...metric.Int64HistogramOption) (metric.Int64Histogram, error) {
	c := metric.NewInt64HistogramConfig(o...)
	sid, err := m.inst(n, "i64hist", c.Unit(), c.Description())
	if err != nil {
		return nil, err
	}
	r, err := m.Meter.Int64Histogram(n, o...)
	return wI64H{r, m.h, m.id, sid}, err
}

type wI64G struct {
	metric.Int64Gauge
	h      *H
	s, sid string
}

func (w wI64G) Record(ctx context.Context, v int64, o ...metric.RecordOption) {
	w.h.sdkUse("mp", idOf(ctx), w.s, w.sid)
	w.Int64Gauge.Record(ctx, v, o...)
}
func (m *wMeter) Int64Gauge(n string, o ...metric.Int64GaugeOption) (metric.Int64Gauge, error) {
	c := metric.NewInt64GaugeConfig(o...)
	sid, err := m.inst(n, "i64gauge", c.Unit(), c.Description())
	if err != nil {
		return nil, err
	}
	r, err := m.Meter.Int64Gauge(n, o...)
	return wI64G{r, m.h, m.id, sid}, err
}

type wF64C struct {
	metric.Float64Counter
	h      *H
	s, sid string
}

func (w wF64C) Add(ctx context.Context, v float64, o ...metric.AddOption) {
	w.h.sdkUse("mp", idOf(ctx), w.s, w.sid)
	w.Float64Counter.Add(ctx, v, o...)
}
func (m *wMeter) Float64Counter(n string, o ...metric.Float64CounterOption) (metric.Float64Counter, error) {
	c := metric.NewFloat64CounterConfig(o...)
	sid, err := m.inst(n, "f64counter", c.Unit(), c.Description())
	if err != nil {
		return nil, err
	}
	r, err := m.Meter.Float64Counter(n, o...)
	return wF64C{r, m.h, m.id, sid}, err
}

type wF64U struct {
	metric.Float64UpDownCounter
	h      *H
	s, sid string
}

func (w wF64U) Add(ctx context.Context, v float64, o ...metric.AddOption) {
	w.h.sdkUse("mp", idOf(ctx), w.s, w.sid)
	w.Float64UpDownCounter.Add(ctx, v, o...)
}
func (m *wMeter) Float64UpDownCounter(n string, o ...metric.Float64UpDownCounterOption) (metric.Float64UpDownCounter, error) {
	c := metric.NewFloat64UpDownCounterConfig(o...)
	sid, err := m.inst(n, "f64updown", c.Unit(), c.Description())
	if err != nil {
		return nil, err
	}
	r, err := m.Meter.Float64UpDownCounter(n, o...)
	return wF64U{r, m.h, m.id, sid}, err
}

type wF64H struct {
	metric.Float64Histogram
	h      *H
	s, sid string
}

func (w wF64H) Record(ctx context.Context, v float64, o ...metric.RecordOption) {
	w.h.sdkUse("mp", idOf(ctx), w.s, w.sid)
	w.Float64Histogram.Record(ctx, v, o...)
}
func (m *wMeter) Float64Histogram(n string, o ...metric.Float64HistogramOption) (metric.Float64Histogram, error) {
	c := metric.NewFloat64HistogramConfig(o...)
	sid, err := m.inst(n, "f64hist", c.Unit(), c.Description())
	if err != nil {
		return nil, err
	}
	r, err := m.Meter.Float64Histogram(n, o...)
	return wF64H{r, m.h, m.id, sid}, err
}

type wF64G struct {
	metric.Float64Gauge
	h      *H
	s, sid string
}

func (w wF64G) Record(ctx context.Context, v float64, o ...metric.RecordOption) {
	w.h.sdkUse("mp", idOf(ctx), w.s, w.sid)
	w.Float64Gauge.Record(ctx, v, o...)
}
func (m *wMeter) Float64Gauge(n string, o ...metric.Float64GaugeOption) (metric.Float64Gauge, error) {
	c := metric.NewFloat64GaugeConfig(o...)
	sid, err := m.inst(n, "f64gauge", c.Unit(), c.Description())
	if err != nil {
		return nil, err
	}
	r, err := m.Meter.Float64Gauge(n, o...)
	return wF64G{r, m.h, m.id, sid}, err
}

// observable instruments are handed out unwrapped (the SDK's RegisterCallback insists on its own
// types); the wrapper only remembers which identity each one has
func (m *wMeter) Int64ObservableCounter(n string, o ...metric.Int64ObservableCounterOption) (metric.Int64ObservableCounter, error) {
	c := metric.NewInt64ObservableCounterConfig(o...)
	sid, err := m.inst(n, "i64ocounter", c.Unit(), c.Description())
	if err != nil {
		return nil, err
	}
	r, err := m.Meter.Int64ObservableCounter(n, o...)
	m.remember(r, sid, err)
	return r, err
}
func (m *wMeter) Int64ObservableUpDownCounter(n string, o ...metric.Int64ObservableUpDownCounterOption) (metric.Int64ObservableUpDownCounter, error) {
	c := metric.NewInt64ObservableUpDownCounterConfig(o...)
	sid, err := m.inst(n, "i64oupdown", c.Unit(), c.Description())
	if err != nil {
		return nil, err
	}
	r, err := m.Meter.Int64ObservableUpDownCounter(n, o...)
	m.remember(r, sid, err)
	return r, err
}
func (m *wMeter) Int64ObservableGauge(n string, o ...metric.Int64ObservableGaugeOption) (metric.Int64ObservableGauge, error) {
	c := metric.NewInt64ObservableGaugeConfig(o...)
	sid, err := m.inst(n, "i64ogauge", c.Unit(), c.Description())
	if err != nil {
		return nil, err
	}
	r, err := m.Meter.Int64ObservableGauge(n, o...)
	m.remember(r, sid, err)
	return r, err
}
func (m *wMeter) Float64ObservableCounter(n string, o ...metric.Float64ObservableCounterOption) (metric.Float64ObservableCounter, error) {
	c := metric.NewFloat64ObservableCounterConfig(o...)
	sid, err := m.inst(n, "f64ocounter", c.Unit(), c.Description())
	if err != nil {
		return nil, err
	}
	r, err := m.Meter.Float64ObservableCounter(n, o...)
	m.remember(r, sid, err)
	return r, err
}
func (m *wMeter) Float64ObservableUpDownCounter(n string, o ...metric.Float64ObservableUpDownCounterOption) (metric.Float64ObservableUpDownCounter, error) {
	c := metric.NewFloat64ObservableUpDownCounterConfig(o...)
	sid, err := m.inst(n, "f64oupdown", c.Unit(), c.Description())
	if err != nil {
		return nil, err
	}
	r, err := m.Meter.Float64ObservableUpDownCounter(n, o...)
	m.remember(r, sid, err)
	return r, err
}
func (m *wMeter) Float64ObservableGauge(n string, o ...metric.Float64ObservableGaugeOption) (metric.Float64ObservableGauge, error) {
	c := metric.NewFloat64ObservableGaugeConfig(o...)
	sid, err := m.inst(n, "f64ogauge", c.Unit(), c.Description())
	if err != nil {
		return nil, err
	}
	r, err := m.Meter.Float64ObservableGauge(n, o...)
	m.remember(r, sid, err)
	return r, err
}

// RegisterCallback: every callback of the harness observes exactly one instrument, named after the
// callback, which identifies the callback on the SDK side ("?" = the global package passed something
// that is not an SDK instrument, e.g. an instrument it never delegated).
func (m *wMeter) RegisterCallback(f metric.Callback, insts ...metric.Observable) (metric.Registration, error) {
	cb := "?"
	m.h.mu.Lock()
	for _, i := range insts {
		if i == nil {
			continue
		}
		if sid, ok := m.h.obs[i]; ok { // identity of the SDK instrument -> the callback that is meant to observe it
			if n, ok := m.h.cbOfSid[sid]; ok {
				cb = n
			}
		}
	}
	m.h.mu.Unlock()
	m.h.gate("sdk.Register:" + cb)
	if m.h.refuseReg[cb] {
		err := errors.New("refused cb " + cb)
		m.h.refused("cb", cb, m.id, err)
		return nil, err
	}
	if cb == "?" {
		// internal/global passed something that is not an instrument of this SDK (e.g. the nil unwrap() of an
		// instrument whose own hand-over was refused): the real SDK decides; a refusal is a consequence
		reg, err := m.Meter.RegisterCallback(f, insts...)
		if err != nil {
			m.h.refused("cb", cb, m.id, err)
			return nil, err
		}
		m.h.emit(map[string]any{"ev": "SdkCbRegistered", "cb": cb, "sdk": m.id})
		return reg, nil
	}
	m.h.emit(map[string]any{"ev": "SdkCbRegistered", "cb": cb, "sdk": m.id})
	reg, err := m.Meter.RegisterCallback(f, insts...)
	if err != nil { // the real SDK refuses (e.g. an observable of another SDK / meter): a refusal like the scripted ones
		m.h.refused("cb", cb, m.id, err)
		return reg, err
	}
	m.h.mu.Lock()
	m.h.cbs[cb] = f
	if ch, ok := m.h.cbCh[cb]; ok {
		select {
		case <-ch:
		default:
			close(ch)
		}
	}
	m.h.mu.Unlock()
	return &wReg{Registration: reg, h: m.h, cb: cb}, nil
}

// recObs is a recording Observer handed to a callback by the harness itself (an SDK may invoke a callback
// concurrently, each invocation with its own Observer that is valid for that invocation only).
type recObs struct {
	membedded.Observer
	h   *H
	inv string
}

func (r *recObs) seen(inst any, v int64) {
	r.h.mu.Lock()
	name, ok := r.h.obs[inst]
	r.h.mu.Unlock()
	if !ok {
		name = "?" // not an SDK instrument: the global placeholder was not unwrapped
	}
	r.h.emit(map[string]any{"ev": "Observed", "observer": r.inv, "val": v, "inst": name})
}
func (r *recObs) ObserveInt64(i metric.Int64Observable, v int64, _ ...metric.ObserveOption) {
	r.seen(i, v)
}
func (r *recObs) ObserveFloat64(i metric.Float64Observable, v float64, _ ...metric.ObserveOption) {
	r.seen(i, int64(v))
}

type wReg struct {
	metric.Registration
	h  *H
	cb string
}

func (r *wReg) Unregister() error {
	r.h.gate("sdk.Unregister:" + r.cb)
	err := r.Registration.Unregister()
	r.h.emit(map[string]any{"ev": "SdkCbUnregistered", "cb": r.cb})
	return err
}

// ---------------------------------------------------------------- traces
type wTP struct {
	tembedded.TracerProvider
	real *sdktrace.TracerProvider
	h    *H
	id   string
}

func (w *wTP) Tracer(name string, o ...trace.TracerOption) trace.Tracer {
	w.h.gate("sdk.Tracer:" + name)
	w.h.emit(map[string]any{"ev": "SdkObj", "what": "tracer", "obj": name, "sdk": w.id})
	return &wTracer{Tracer: w.real.Tracer(name, o...), h: w.h, id: w.id}
}

type wTracer struct {
	trace.Tracer
	h  *H
	id string
}

func (t *wTracer) Start(ctx context.Context, name string, o ...trace.SpanStartOption) (context.Context, trace.Span) {
	t.h.sdkUse("tp", idOf(ctx), t.id, "")
	return t.Tracer.Start(ctx, name, o...)
}

// ---------------------------------------------------------------- propagator / error handler
type wProp struct {
	h  *H
	id string
}

func (p wProp) Inject(ctx context.Context, c propagation.TextMapCarrier) {
	p.h.sdkUse("prop", idOf(ctx), p.id, "")
}
func (p wProp) Extract(ctx context.Context, c propagation.TextMapCarrier) context.Context {
	return ctx
}
func (p wProp) Fields() []string { return nil }

type wEH struct {
	h  *H
	id string
}

func (e wEH) Handle(err error) {
	if err != nil && strings.HasPrefix(err.Error(), "xid=") {
		e.h.sdkUse("eh", err.Error()[len("xid="):], e.id, "")
	}
}

// valName names a provider / propagator / handler as the contract sees it: one of the two real SDKs, or
// "dflt" = the default delegating object of internal/global.
func valName(x any) string {
	switch v := x.(type) {
	case *wMP:
		return v.id
	case *wTP:
		return v.id
	case wProp:
		return v.id
	case wEH:
		return v.id
	}
	return "dflt"
}
