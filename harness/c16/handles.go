package main

// Binding of specs/GlobalDelegate/GlobalHandles.tla (behaviour class MIXED HANDLES): histories
//
//	pre-install ... SetMeterProvider ... post-install
//
// over one instrumentation scope, with instruments / registrations obtained before and after the installation and
// callbacks that list and observe through either handle of an instrument.
//
//	c16 hbatch -edges E [-walks W] -res R [-par N] [-lanes K]   parent: TLC edges (BFS) and TLC random walks -> cases
//	c16 hchild -in CASES.json -out PROJ.json                    one process, K cases side by side
//
// internal/global's state is once-only per process, but scopes are independent of each other: a child runs K cases
// as K lanes, each on a scope of its own; every lane executes its operations up to its Install step, then the ONE
// SetMeterProvider of the process runs, then every lane executes the rest. The projection of a lane is what ONE
// collection of the real SDK (ManualReader) shows for its scope afterwards (for a lane without Install: the
// collection made just before the installation). Expected values are the `exp` component of the edge's `to` state
// (computed by TLC); Go only executes, projects and compares.

import (
	"context"
	"encoding/json"
	"fmt"
	"os"
	"os/exec"
	"path/filepath"
	"sort"
	"strings"
	"sync"
	"time"

	"go.opentelemetry.io/otel"
	"go.opentelemetry.io/otel/attribute"
	"go.opentelemetry.io/otel/metric"
	sdkmetric "go.opentelemetry.io/otel/sdk/metric"
	"go.opentelemetry.io/otel/sdk/metric/metricdata"
	"go.opentelemetry.io/otel/sdk/verifh/vh"
)

type hAct struct {
	Op    string     `json:"op"`
	ID    string     `json:"id,omitempty"`
	Via   string     `json:"via,omitempty"`
	Meter string     `json:"meter,omitempty"`
	Cls   string     `json:"cls,omitempty"`
	R     int        `json:"r,omitempty"`
	List  [][]string `json:"list,omitempty"`
	Body  [][]string `json:"body,omitempty"`
}

type hCase struct {
	Idx  int             `json:"idx"`
	Src  string          `json:"src"` // bfs | walk
	Acts []hAct          `json:"acts"`
	Exp  json.RawMessage `json:"exp"` // the `exp` component of the specification's successor state
}

// hProj is the projection of the real state: what one collection of the SDK shows for the lane's scope.
type hProj struct {
	Obs    []string         `json:"obs"`    // "r/id/class": observation of registration r through that handle arrived
	Inv    []string         `json:"inv"`    // "rxn": callback r was invoked n times by the collection
	Sums   map[string]int64 `json:"sums"`   // synchronous instrument -> measurements the SDK holds
	Stray  []string         `json:"stray"`  // data under an identity nobody asked for
	RegErr []string         `json:"regerr"` // RegisterCallback / Unregister calls that returned an error
	Panic  string           `json:"panic,omitempty"`
}

type hChildIn struct {
	Seed  int64   `json:"seed"`
	Cases []hCase `json:"cases"`
}

var hObsKinds = []string{"i64ogauge", "f64ogauge", "i64ocounter", "f64ocounter", "i64oupdown", "f64oupdown"}
var hSyncKinds = []string{"i64counter", "f64counter", "i64updown", "f64updown", "i64hist", "f64hist"}

type hObsHandle struct {
	inst    metric.Observable
	observe func(o metric.Observer, v int64, tag string)
}

func hNewObs(m metric.Meter, kind, name, unit, desc string) (hObsHandle, error) {
	u, d := metric.WithUnit(unit), metric.WithDescription(desc)
	at := func(tag string) metric.ObserveOption { return metric.WithAttributes(attribute.String("obs", tag)) }
	i64 := func(i metric.Int64Observable, err error) (hObsHandle, error) {
		return hObsHandle{i, func(o metric.Observer, v int64, tag string) { o.ObserveInt64(i, v, at(tag)) }}, err
	}
	f64 := func(i metric.Float64Observable, err error) (hObsHandle, error) {
		return hObsHandle{i, func(o metric.Observer, v int64, tag string) { o.ObserveFloat64(i, float64(v), at(tag)) }}, err
	}
	switch kind {
	case "i64ogauge":
		return i64(m.Int64ObservableGauge(name, u, d))
	case "f64ogauge":
		return f64(m.Float64ObservableGauge(name, u, d))
	case "i64ocounter":
		return i64(m.Int64ObservableCounter(name, u, d))
	case "f64ocounter":
		return f64(m.Float64ObservableCounter(name, u, d))
	case "i64oupdown":
		return i64(m.Int64ObservableUpDownCounter(name, u, d))
	default:
		return f64(m.Float64ObservableUpDownCounter(name, u, d))
	}
}

type hLane struct {
	c         hCase
	scope     string
	old       metric.Meter // obtained from the default provider before the installation
	neu       metric.Meter // obtained after it (lazily)
	installed bool
	mu        sync.Mutex
	obs       map[string]hObsHandle // "id/class"
	syn       map[string]recorder
	kind      map[string]string
	regs      []metric.Registration
	inv       map[int]int
	regerr    []string
	next      int // next action to execute
	proj      *hProj
}

func hUnit(id string) string { return "u" + id }
func hDesc(id string) string { return "the " + id }
func hIsSync(id string) bool { return id[0] == 's' || id[0] == 't' } // SyncIds of the configurations: s, t

func (l *hLane) kindOf(id string, seed int64) string {
	k := int(seed) + l.c.Idx + int(id[len(id)-1])
	if hIsSync(id) {
		return hSyncKinds[k%len(hSyncKinds)]
	}
	return hObsKinds[k%len(hObsKinds)]
}

func (l *hLane) meter(which string, dmp metric.MeterProvider, seed int64) metric.Meter {
	if which == "old" {
		return l.old
	}
	if l.neu == nil {
		if (int(seed)+l.c.Idx)%2 == 0 {
			l.neu = otel.GetMeterProvider().Meter(l.scope) // a fresh Get: the SDK itself
		} else {
			l.neu = dmp.Meter(l.scope) // the kept default provider: forwards to the SDK
		}
	}
	return l.neu
}

func (l *hLane) step(a hAct, dmp metric.MeterProvider, seed int64) {
	cls := "ph"
	if l.installed {
		cls = "nat"
	}
	switch a.Op {
	case "Create":
		m := l.meter(a.Via, dmp, seed)
		kind := l.kindOf(a.ID, seed)
		l.kind[a.ID] = kind
		if hIsSync(a.ID) {
			r, err := newSync(m, kind, a.ID, hUnit(a.ID), hDesc(a.ID))
			if err != nil {
				l.regerr = append(l.regerr, "create:"+a.ID)
				return
			}
			l.mu.Lock()
			l.syn[a.ID+"/"+cls] = r
			l.mu.Unlock()
			return
		}
		h, err := hNewObs(m, kind, a.ID, hUnit(a.ID), hDesc(a.ID))
		if err != nil {
			l.regerr = append(l.regerr, "create:"+a.ID)
			return
		}
		l.mu.Lock()
		l.obs[a.ID+"/"+cls] = h
		l.mu.Unlock()
	case "Register":
		m := l.meter(a.Meter, dmp, seed)
		var insts []metric.Observable
		l.mu.Lock()
		for _, h := range a.List {
			insts = append(insts, l.obs[h[0]+"/"+h[1]].inst)
		}
		l.mu.Unlock()
		r := len(l.regs) + 1
		body := a.Body
		reg, err := m.RegisterCallback(func(_ context.Context, o metric.Observer) error {
			l.mu.Lock()
			l.inv[r]++
			var hs []hObsHandle
			var tags []string
			for _, h := range body { // the handle is looked up when the callback runs: it may have been obtained later
				if x, ok := l.obs[h[0]+"/"+h[1]]; ok {
					hs, tags = append(hs, x), append(tags, fmt.Sprintf("%d/%s/%s", r, h[0], h[1]))
				}
			}
			l.mu.Unlock()
			for k := range hs {
				hs[k].observe(o, int64(10*r+k+1), tags[k]+fmt.Sprintf("=%d", 10*r+k+1))
			}
			return nil
		}, insts...)
		if err != nil {
			l.regerr = append(l.regerr, fmt.Sprintf("register:%d", r))
		}
		l.regs = append(l.regs, reg)
	case "Unregister":
		if a.R <= len(l.regs) && l.regs[a.R-1] != nil {
			if err := l.regs[a.R-1].Unregister(); err != nil {
				l.regerr = append(l.regerr, fmt.Sprintf("unregister:%d", a.R))
			}
		}
	case "Add":
		l.mu.Lock()
		r := l.syn[a.ID+"/"+a.Cls]
		l.mu.Unlock()
		if r != nil {
			r(context.Background())
		}
	}
}

// run executes the lane's actions up to (excluding) its Install step, or -- after the installation -- the rest.
func (l *hLane) run(dmp metric.MeterProvider, seed int64) {
	defer func() {
		if x := recover(); x != nil {
			l.proj = &hProj{Panic: fmt.Sprint(x)}
			l.next = len(l.c.Acts)
		}
	}()
	for l.next < len(l.c.Acts) {
		a := l.c.Acts[l.next]
		if a.Op == "Install" {
			if !l.installed {
				return
			}
			l.next++
			continue
		}
		l.step(a, dmp, seed)
		l.next++
	}
}

func hDataClass(d metricdata.Aggregation) string {
	switch x := d.(type) {
	case metricdata.Sum[int64]:
		return map[bool]string{true: "i64mono", false: "i64sum"}[x.IsMonotonic]
	case metricdata.Sum[float64]:
		return map[bool]string{true: "f64mono", false: "f64sum"}[x.IsMonotonic]
	case metricdata.Histogram[int64]:
		return "i64hist"
	case metricdata.Histogram[float64]:
		return "f64hist"
	case metricdata.Gauge[int64]:
		return "i64gauge"
	case metricdata.Gauge[float64]:
		return "f64gauge"
	}
	return fmt.Sprintf("%T", d)
}

type hPoint struct {
	tag string
	v   int64
}

func hPoints(d metricdata.Aggregation) (pts []hPoint, total int64) {
	tagOf := func(s attribute.Set) string {
		v, _ := s.Value("obs")
		return v.AsString()
	}
	switch x := d.(type) {
	case metricdata.Sum[int64]:
		for _, p := range x.DataPoints {
			pts, total = append(pts, hPoint{tagOf(p.Attributes), p.Value}), total+p.Value
		}
	case metricdata.Sum[float64]:
		for _, p := range x.DataPoints {
			pts, total = append(pts, hPoint{tagOf(p.Attributes), int64(p.Value)}), total+int64(p.Value)
		}
	case metricdata.Gauge[int64]:
		for _, p := range x.DataPoints {
			pts = append(pts, hPoint{tagOf(p.Attributes), p.Value})
		}
	case metricdata.Gauge[float64]:
		for _, p := range x.DataPoints {
			pts = append(pts, hPoint{tagOf(p.Attributes), int64(p.Value)})
		}
	case metricdata.Histogram[int64]:
		for _, p := range x.DataPoints {
			total += int64(p.Count)
		}
	case metricdata.Histogram[float64]:
		for _, p := range x.DataPoints {
			total += int64(p.Count)
		}
	}
	return
}

// project: the lane's scope in one collection.
func (l *hLane) project(rm *metricdata.ResourceMetrics) {
	if l.proj != nil {
		return
	}
	p := &hProj{Obs: []string{}, Inv: []string{}, Sums: map[string]int64{}, Stray: []string{}, RegErr: append([]string{}, l.regerr...)}
	for _, sm := range rm.ScopeMetrics {
		if sm.Scope.Name != l.scope {
			continue
		}
		for _, m := range sm.Metrics {
			kind, known := l.kind[m.Name]
			class := hDataClass(m.Data)
			if !known || m.Unit != hUnit(m.Name) || m.Description != hDesc(m.Name) || dataClass(kind) != class {
				p.Stray = append(p.Stray, fmt.Sprintf("%s|%s|%s|%s", m.Name, class, m.Unit, m.Description))
				continue
			}
			pts, total := hPoints(m.Data)
			if hIsSync(m.Name) {
				p.Sums[m.Name] = total
				continue
			}
			for _, pt := range pts { // tag = "r/id/class=value"
				t := pt.tag
				if i := strings.LastIndex(t, "="); i > 0 && t[i+1:] == fmt.Sprint(pt.v) {
					t = t[:i]
				} else {
					t = fmt.Sprintf("%s!got=%d", t, pt.v)
				}
				p.Obs = append(p.Obs, t)
			}
		}
	}
	l.mu.Lock()
	for r, n := range l.inv {
		if n > 0 {
			p.Inv = append(p.Inv, fmt.Sprintf("%dx%d", r, n))
		}
	}
	l.mu.Unlock()
	sort.Strings(p.Obs)
	sort.Strings(p.Inv)
	sort.Strings(p.Stray)
	l.proj = p
}

func runHChild(in, out string) {
	b, err := os.ReadFile(in)
	vh.Must(err)
	var ci hChildIn
	vh.Must(json.Unmarshal(b, &ci))
	otel.SetErrorHandler(otel.ErrorHandlerFunc(func(error) {})) // what the SDK rejects shows in the projection
	dmp := otel.GetMeterProvider()
	rd := sdkmetric.NewManualReader()
	sdk := sdkmetric.NewMeterProvider(sdkmetric.WithReader(rd))
	lanes := make([]*hLane, len(ci.Cases))
	for i, c := range ci.Cases {
		sc := fmt.Sprintf("lane-%d", c.Idx)
		lanes[i] = &hLane{c: c, scope: sc, old: dmp.Meter(sc), obs: map[string]hObsHandle{}, syn: map[string]recorder{},
			kind: map[string]string{}, inv: map[int]int{}}
	}
	for _, l := range lanes {
		l.run(dmp, ci.Seed)
	}
	var rm metricdata.ResourceMetrics
	vh.Must(rd.Collect(context.Background(), &rm))
	for _, l := range lanes {
		if l.next >= len(l.c.Acts) { // a history without installation: nothing can have reached any SDK
			l.project(&rm)
		}
	}
	otel.SetMeterProvider(sdk)
	for _, l := range lanes {
		l.installed = true
		l.run(dmp, ci.Seed)
	}
	for _, l := range lanes {
		l.mu.Lock()
		l.inv = map[int]int{}
		l.mu.Unlock()
	}
	rm = metricdata.ResourceMetrics{}
	vh.Must(rd.Collect(context.Background(), &rm))
	res := map[string]*hProj{}
	for _, l := range lanes {
		l.project(&rm)
		res[fmt.Sprint(l.c.Idx)] = l.proj
	}
	ob, _ := json.Marshal(res)
	vh.Must(os.WriteFile(out, ob, 0o644))
	os.Exit(0)
}

// ---------------------------------------------------------------- parent

// hWant normalises the specification's `exp` record (TLC's JSON) into the shape of the projection.
func hWant(raw json.RawMessage) (*hProj, error) {
	var e struct {
		Obs    [][]any         `json:"obs"`
		Inv    [][]any         `json:"inv"`
		Sums   json.RawMessage `json:"sums"`
		Stray  []any           `json:"stray"`
		RegErr []any           `json:"regerr"`
	}
	if err := json.Unmarshal(raw, &e); err != nil {
		return nil, err
	}
	p := &hProj{Obs: []string{}, Inv: []string{}, Sums: map[string]int64{}, Stray: []string{}, RegErr: []string{}}
	for _, o := range e.Obs {
		p.Obs = append(p.Obs, fmt.Sprintf("%v/%v/%v", o[0], o[1], o[2]))
	}
	for _, o := range e.Inv {
		p.Inv = append(p.Inv, fmt.Sprintf("%vx%v", o[0], o[1]))
	}
	if len(e.Sums) > 0 && e.Sums[0] == '{' {
		if err := json.Unmarshal(e.Sums, &p.Sums); err != nil {
			return nil, err
		}
	}
	for _, s := range e.Stray {
		p.Stray = append(p.Stray, fmt.Sprint(s))
	}
	for _, s := range e.RegErr {
		p.RegErr = append(p.RegErr, fmt.Sprint(s))
	}
	sort.Strings(p.Obs)
	sort.Strings(p.Inv)
	return p, nil
}

func hDiff(a, b []string) (onlyA, onlyB []string) {
	in := func(x string, s []string) bool {
		for _, y := range s {
			if x == y {
				return true
			}
		}
		return false
	}
	for _, x := range a {
		if !in(x, b) {
			onlyA = append(onlyA, x)
		}
	}
	for _, x := range b {
		if !in(x, a) {
			onlyB = append(onlyB, x)
		}
	}
	return
}

// hShape describes registration r of a history by the handle classes involved (for the signature).
func hShape(acts []hAct, r int, sig map[string]any) {
	n, installed := 0, false
	cl := func(hs [][]string) string {
		s := map[string]bool{}
		for _, h := range hs {
			s[h[1]] = true
		}
		switch {
		case s["ph"] && s["nat"]:
			return "both"
		case s["ph"]:
			return "ph"
		}
		return "nat"
	}
	for _, a := range acts {
		switch a.Op {
		case "Install":
			installed = true
		case "Register":
			n++
			if n == r {
				sig["meter"], sig["list"], sig["body"] = a.Meter, cl(a.List), cl(a.Body)
				sig["registered"] = map[bool]string{true: "post-install", false: "pre-install"}[installed]
			}
		case "Unregister":
			if a.R == r {
				sig["unregistered"] = true
			}
		}
	}
}

// hCompare: the projection of the real state against the specification's expectation, component by component.
func hCompare(c hCase, got *hProj, res *vh.Result) {
	want, err := hWant(c.Exp)
	if err != nil {
		res.Inconcl("cannot read exp of case " + fmt.Sprint(c.Idx) + ": " + err.Error())
		return
	}
	sig := map[string]any{"kind": "mixed-handles"}
	regOf := func(t string) int {
		var r int
		fmt.Sscanf(t, "%d", &r)
		return r
	}
	if got.Panic != "" {
		sig["component"] = "panic"
	} else if len(got.RegErr) > 0 {
		sig["component"] = strings.SplitN(got.RegErr[0], ":", 2)[0] + "-error"
		hShape(c.Acts, regOf(strings.SplitN(got.RegErr[0]+":0", ":", 3)[1]), sig)
	} else if miss, extra := hDiff(want.Inv, got.Inv); len(miss)+len(extra) > 0 {
		t := append(append([]string{}, miss...), extra...)[0]
		sig["component"] = map[bool]string{true: "callback-not-invoked-once", false: "callback-invoked-unexpectedly"}[len(miss) > 0]
		hShape(c.Acts, regOf(t), sig)
	} else if miss, extra := hDiff(want.Obs, got.Obs); len(miss)+len(extra) > 0 {
		t := append(append([]string{}, miss...), extra...)[0]
		sig["component"] = map[bool]string{true: "observation-lost", false: "observation-unexpected"}[len(miss) > 0]
		if f := strings.Split(strings.SplitN(t, "!", 2)[0], "/"); len(f) == 3 {
			sig["through"] = f[2]
		}
		hShape(c.Acts, regOf(t), sig)
	} else if len(got.Stray) > 0 {
		sig["component"] = "data-under-other-identity"
	} else {
		same := len(want.Sums) == len(got.Sums) || true
		for id, n := range want.Sums {
			if got.Sums[id] != n {
				same = false
				sig["component"] = map[bool]string{true: "measurement-lost", false: "measurement-surplus"}[got.Sums[id] < n]
			}
		}
		for id, n := range got.Sums {
			if want.Sums[id] != n {
				same = false
				if _, ok := sig["component"]; !ok {
					sig["component"] = "measurement-surplus"
				}
			}
		}
		if same {
			return
		}
	}
	res.AddMismatch(vh.Mismatch{Kind: "handles", Case: sig, Path: c.Acts[:len(c.Acts)-1], Act: c.Acts[len(c.Acts)-1], Want: want, Got: got,
		Detail: fmt.Sprintf("case %d (%s): lane scope lane-%d", c.Idx, c.Src, c.Idx)})
}

func hDecodeActs(raws []json.RawMessage) ([]hAct, error) {
	out := make([]hAct, 0, len(raws))
	for _, r := range raws {
		var a hAct
		if err := json.Unmarshal(r, &a); err != nil {
			return nil, err
		}
		out = append(out, a)
	}
	return out, nil
}

func hExpOf(to json.RawMessage) json.RawMessage {
	var s struct {
		Exp json.RawMessage `json:"exp"`
	}
	json.Unmarshal(to, &s)
	return s.Exp
}

func runHBatch(edgesF, walksF, resF string, par, lanes, maxCases int) {
	res := vh.NewResult()
	var cases []hCase
	seen := map[string]bool{}
	add := func(src string, acts []hAct, to json.RawMessage) {
		k, _ := json.Marshal(acts)
		if seen[string(k)] {
			res.Count("cases_duplicate_history", 1)
			return
		}
		seen[string(k)] = true
		cases = append(cases, hCase{Idx: len(cases), Src: src, Acts: acts, Exp: hExpOf(to)})
		res.Count("cases_"+src, 1)
	}
	if edgesF != "" {
		for _, ef := range strings.Split(edgesF, ",") {
			g, err := vh.LoadEdges(ef)
			vh.Must(err)
			for i, e := range g.Edges {
				p, ok := g.Path(i)
				if !ok {
					res.Inconcl(fmt.Sprintf("%s edge %d: source not reachable in the BFS tree", ef, i))
					continue
				}
				acts, err := hDecodeActs(append(p, e.Act))
				vh.Must(err)
				add("bfs", acts, e.To)
			}
		}
	}
	if walksF != "" { // TLC -simulate (GlobalHandlesSim): one line per walk = its actions and the expectation after each
		wb, err := os.ReadFile(walksF)
		vh.Must(err)
		for _, ln := range strings.Split(string(wb), "\n") {
			if strings.TrimSpace(ln) == "" {
				continue
			}
			var w struct {
				Acts []json.RawMessage `json:"acts"`
				Exps []json.RawMessage `json:"exps"`
			}
			vh.Must(json.Unmarshal([]byte(ln), &w))
			acts, err := hDecodeActs(w.Acts)
			vh.Must(err)
			for n := 1; n <= len(acts) && n <= len(w.Exps); n++ {
				if n < len(acts) && n%3 != 0 { // every third prefix and the complete walk
					continue
				}
				seen := false
				for _, a := range acts[:n] {
					seen = seen || a.Op == "Install"
				}
				if !seen {
					continue
				}
				wrapped, _ := json.Marshal(map[string]json.RawMessage{"exp": w.Exps[n-1]})
				add("walk", acts[:n:n], wrapped)
			}
		}
	}
	if maxCases > 0 && len(cases) > maxCases {
		// keep a seeded sample of the BFS cases (the walks are the seeded part anyway); the families are exhaustive in
		// the thorough tier
		step := float64(len(cases)) / float64(maxCases)
		var keep []hCase
		off := float64(vh.Seed()%7) / 7 * step
		for x := off; int(x) < len(cases); x += step {
			keep = append(keep, cases[int(x)])
		}
		res.Count("cases_sampled_out", int64(len(cases)-len(keep)))
		cases = keep
	}
	self, err := os.Executable()
	vh.Must(err)
	dir := resF + ".d"
	os.RemoveAll(dir)
	vh.Must(os.MkdirAll(dir, 0o755))
	type chunk struct{ cs []hCase }
	var chunks []chunk
	for i := 0; i < len(cases); i += lanes {
		j := i + lanes
		if j > len(cases) {
			j = len(cases)
		}
		chunks = append(chunks, chunk{cases[i:j]})
	}
	runChunk := func(id string, cs []hCase) (map[string]*hProj, string) {
		inF, outF := filepath.Join(dir, id+".in.json"), filepath.Join(dir, id+".out.json")
		b, _ := json.Marshal(hChildIn{Seed: vh.Seed(), Cases: cs})
		os.WriteFile(inF, b, 0o644)
		ctx, cancel := context.WithTimeout(context.Background(), 120*time.Second)
		defer cancel()
		cmd := exec.CommandContext(ctx, self, "hchild", "-in", inF, "-out", outF)
		ob, err := cmd.CombinedOutput()
		if err != nil {
			s := string(ob)
			if len(s) > 4000 {
				s = s[:4000]
			}
			return nil, fmt.Sprintf("%v: %s", err, s)
		}
		var m map[string]*hProj
		rb, err := os.ReadFile(outF)
		if err != nil || json.Unmarshal(rb, &m) != nil {
			return nil, "no projection written"
		}
		return m, ""
	}
	var mu sync.Mutex
	var wg sync.WaitGroup
	sem := make(chan struct{}, par)
	for ci, ch := range chunks {
		ci, ch := ci, ch
		wg.Add(1)
		sem <- struct{}{}
		go func() {
			defer wg.Done()
			defer func() { <-sem }()
			m, fail := runChunk(fmt.Sprintf("c%05d", ci), ch.cs)
			if fail != "" { // isolate: every case of the chunk in a process of its own
				res.Count("chunks_rerun_case_by_case", 1)
				m = map[string]*hProj{}
				for _, c := range ch.cs {
					m1, f1 := runChunk(fmt.Sprintf("c%05d-%d", ci, c.Idx), []hCase{c})
					if f1 != "" {
						if strings.Contains(f1, "panic:") && strings.Contains(f1, "otel/internal/global.") {
							m[fmt.Sprint(c.Idx)] = &hProj{Panic: f1}
						} else {
							res.Inconcl(fmt.Sprintf("hchild for case %d failed: %s", c.Idx, f1))
						}
						continue
					}
					for k, v := range m1 {
						m[k] = v
					}
				}
			}
			mu.Lock()
			defer mu.Unlock()
			for _, c := range ch.cs {
				got := m[fmt.Sprint(c.Idx)]
				if got == nil {
					continue
				}
				res.Executed++
				hCompare(c, got, res)
				nreg, mixed := 0, false
				for _, a := range c.Acts {
					if a.Op == "Register" {
						nreg++
						for _, h := range a.Body {
							for _, g := range a.List {
								if h[0] == g[0] && h[1] != g[1] {
									mixed = true
								}
							}
						}
					}
				}
				if mixed {
					res.Count("cases_observing_through_other_handle_than_listed", 1)
				}
				if len(got.Obs) > 0 {
					res.Count("cases_with_observations", 1)
				}
			}
		}()
	}
	wg.Wait()
	res.Evaluations = res.Executed
	res.Count("cases", int64(len(cases)))
	res.Count("child_processes", int64(len(chunks)))
	if len(cases) > 0 {
		res.Sample(cases[len(cases)/2])
	}
	vh.Must(res.Write(resF))
	os.RemoveAll(dir)
}
