package main

import (
	"bufio"
	"bytes"
	"context"
	"encoding/json"
	"fmt"
	"math/rand"
	"os"
	"os/exec"
	"path/filepath"
	"sync"
	"time"

	"go.opentelemetry.io/otel/sdk/verifh/vh"
)

// setScripts: what an installer does. Mostly the single real install; otherwise the other documented shapes:
// self-set(s) before / after, a second real provider, both.
var setScripts = [][]string{{"r1"}, {"r1"}, {"r1"}, {"r1"}, {"self", "r1"}, {"r1", "r2"}, {"self", "r1", "r2"}, {"r1", "self"},
	{"self"}, {"self", "self", "r2"}, {"r2", "r1"}, {"r1", "self", "r2"}}

func randomScenario(r *rand.Rand, i int) Scenario {
	sc := Scenario{Name: fmt.Sprintf("random-%d", i), Seed: r.Int63(), Perturb: []float64{0, 0.3, 0.7, 1}[r.Intn(4)]}
	meter := func() string { return []string{"m1", "m1", "m2"}[r.Intn(3)] }
	add := func(p Proc) { sc.Procs = append(sc.Procs, p) }
	script := func() []string { return setScripts[r.Intn(len(setScripts))] }
	kept := func() bool { return r.Intn(4) == 0 }
	// two installers of one kind: at most one of them brings real providers in more than one flavour, so that
	// "the first real provider" stays attributable in most scenarios (the contract copes with the others)
	second := func() []string { return [][]string{{"self"}, {"r1"}, {"r2"}, {"self", "self"}}[r.Intn(4)] }
	if r.Intn(10) < 8 { // metric side
		for k, n := 0, []int{1, 1, 1, 1, 2, 0}[r.Intn(6)]; k < n; k++ {
			p := Proc{Name: fmt.Sprintf("i%d", k+1), Kind: "minst", Script: script()}
			if k > 0 {
				p.Script = second()
			}
			add(p)
		}
		for k, n := 0, 1+r.Intn(3); k < n; k++ {
			p := Proc{Name: fmt.Sprintf("c%d", k+1), Kind: "creator", Meter: meter(), IKind: syncKinds[r.Intn(len(syncKinds))],
				Pre: r.Intn(2) == 0, N: 1 + r.Intn(4)}
			p.Kept = !p.Pre && kept()
			add(p)
		}
		for k, n := 0, r.Intn(4); k < n; k++ {
			g := Proc{Name: fmt.Sprintf("g%d", k+1), Kind: "registrar", Meter: meter(), IKind: obsKinds[r.Intn(len(obsKinds))],
				Pre: r.Intn(2) == 0, Unreg: r.Intn(10) < 6}
			g.Kept = !g.Pre && kept()
			add(g)
			if r.Intn(5) == 0 {
				add(Proc{Name: fmt.Sprintf("v%d", k+1), Kind: "unregistrar", Target: g.Name})
			}
		}
		if r.Intn(3) == 0 {
			add(Proc{Name: "k1", Kind: "collector", N: 1 + r.Intn(3)})
			if r.Intn(2) == 0 { // a second collector: its collections (other reader) overlap the first one's
				add(Proc{Name: "k2", Kind: "collector", N: 1 + r.Intn(3)})
			}
		}
		// faults of the delegate SDK: it refuses some callbacks / instruments
		var regs, owners []string
		for _, p := range sc.Procs {
			if p.Kind == "registrar" {
				regs = append(regs, p.Name)
			}
			if p.Kind == "registrar" || p.Kind == "creator" {
				owners = append(owners, p.Name)
			}
		}
		if len(regs) > 0 && r.Intn(5) == 0 {
			sc.RefuseReg = []string{regs[r.Intn(len(regs))]}
		}
		if len(owners) > 0 && r.Intn(6) == 0 {
			sc.RefuseInst = []string{owners[r.Intn(len(owners))]}
		}
		// overlapping invocations of one callback, each with its own Observer
		if len(regs) > 0 && r.Intn(4) == 0 {
			t := regs[r.Intn(len(regs))]
			for k := 1; k <= 2+r.Intn(2); k++ {
				add(Proc{Name: fmt.Sprintf("n%d", k), Kind: "invoker", Target: t, N: 1 + r.Intn(2)})
			}
		}
	}
	if r.Intn(10) < 5 { // trace side
		for k, n := 0, []int{1, 1, 1, 2, 0}[r.Intn(5)]; k < n; k++ {
			p := Proc{Name: fmt.Sprintf("ti%d", k+1), Kind: "tinst", Script: script()}
			if k > 0 {
				p.Script = second()
			}
			add(p)
		}
		for k, n := 0, 1+r.Intn(3); k < n; k++ {
			p := Proc{Name: fmt.Sprintf("u%d", k+1), Kind: "tuser", Tracer: []string{"t1", "t1", "t2"}[r.Intn(3)],
				Pre: r.Intn(2) == 0, N: 1 + r.Intn(4)}
			p.Kept = !p.Pre && kept()
			add(p)
		}
	}
	for _, x := range []string{"prop", "eh"} {
		if r.Intn(10) < 3 {
			if r.Intn(4) > 0 {
				add(Proc{Name: "xi." + x, Kind: "xinst", X: x, Script: script()})
			}
			add(Proc{Name: "xu." + x, Kind: "xuser", X: x, N: 1 + r.Intn(4), Fresh: r.Intn(3) == 0})
		}
	}
	if len(sc.Procs) == 0 {
		add(Proc{Name: "i1", Kind: "minst", Script: script()})
		add(Proc{Name: "c1", Kind: "creator", Meter: "m1", Pre: true, N: 2})
	}
	r.Shuffle(len(sc.Procs), func(a, b int) { sc.Procs[a], sc.Procs[b] = sc.Procs[b], sc.Procs[a] })
	return sc
}

// runBatch: one fresh subprocess per scenario (global state is once-only per process), `par` at a time.
// The children's traces are concatenated in scenario order with sc = scenario index.
func runBatch(in, out, resF string, par, nrand int) {
	var scs []Scenario
	if in != "" {
		b, err := os.ReadFile(in)
		vh.Must(err)
		vh.Must(json.Unmarshal(b, &scs))
	}
	r := rand.New(rand.NewSource(vh.Seed()))
	for i := range scs {
		if scs[i].Seed == 0 {
			scs[i].Seed = vh.Seed()*1000003 + int64(i)
		}
	}
	for i := 0; i < nrand; i++ {
		scs = append(scs, randomScenario(r, i))
	}
	res := vh.NewResult()
	dir := out + ".d"
	os.RemoveAll(dir)
	vh.Must(os.MkdirAll(dir, 0o755))
	self, err := os.Executable()
	vh.Must(err)
	type outcome struct {
		status string // ok | harness-timeout | harness-exit
		detail string
	}
	outs := make([]outcome, len(scs))
	sem := make(chan struct{}, par)
	var wg sync.WaitGroup
	for i := range scs {
		i := i
		wg.Add(1)
		sem <- struct{}{}
		go func() {
			defer wg.Done()
			defer func() { <-sem }()
			sf := filepath.Join(dir, fmt.Sprintf("s%05d.json", i))
			tf := filepath.Join(dir, fmt.Sprintf("t%05d.ndjson", i))
			b, _ := json.Marshal(scs[i])
			os.WriteFile(sf, b, 0o644)
			bound := 30 * time.Second
			if scs[i].BoundMs > 0 {
				bound = time.Duration(scs[i].BoundMs) * time.Millisecond
			}
			ctx, cancel := context.WithTimeout(context.Background(), bound+60*time.Second)
			defer cancel()
			cmd := exec.CommandContext(ctx, self, "child", "-in", sf, "-out", tf)
			var eb bytes.Buffer
			cmd.Stderr = &eb
			err := cmd.Run()
			switch {
			case ctx.Err() != nil:
				outs[i] = outcome{"harness-timeout", ""}
			case err != nil:
				tail := eb.String()
				if len(tail) > 6000 {
					tail = tail[:6000]
				}
				outs[i] = outcome{"harness-exit", err.Error() + "\n" + tail}
			default:
				outs[i] = outcome{"ok", ""}
			}
		}()
	}
	wg.Wait()
	of, err := os.Create(out)
	vh.Must(err)
	w := bufio.NewWriterSize(of, 1<<20)
	seq := int64(0)
	lines := int64(0)
	dumps := map[string]string{}
	crashes := []map[string]any{}
	for i := range scs {
		tf := filepath.Join(dir, fmt.Sprintf("t%05d.ndjson", i))
		if outs[i].status != "ok" {
			res.Count("children_"+outs[i].status, 1)
			crashes = append(crashes, map[string]any{"sc": i, "name": scs[i].Name, "status": outs[i].status, "detail": outs[i].detail, "scenario": scs[i]})
			continue // an incomplete child trace is never judged
		}
		f, err := os.Open(tf)
		if err != nil {
			res.Count("children_no_trace", 1)
			continue
		}
		s := bufio.NewScanner(f)
		s.Buffer(make([]byte, 1<<20), 1<<24)
		for s.Scan() {
			var ev map[string]any
			if json.Unmarshal(s.Bytes(), &ev) != nil {
				continue
			}
			seq++
			ev["seq"], ev["sc"] = seq, i
			switch ev["ev"] {
			case "End":
				res.Count("script_steps_followed", int64(ev["followed"].(float64)))
				res.Count("script_steps_desync", int64(ev["desync"].(float64)))
				res.Count("settle_timeouts", int64(ev["settleTO"].(float64)))
				res.Count("script_steps_permuted", int64(ev["permuted"].(float64)))
				if ev["quiescent"] == true {
					res.Count("scenarios_quiescent", 1)
				}
			case "Timeout":
				if ev["proven"] == true {
					res.Count("scenarios_deadlock_proven", 1)
				} else if ev["reason"] == "resubmission-loop" {
					res.Count("scenarios_aborted_resubmission_loop", 1)
				} else {
					res.Count("scenarios_blocked_unproven", 1)
				}
				if d, err := os.ReadFile(tf + ".dump"); err == nil && len(dumps) < 12 {
					dumps[fmt.Sprint(i)] = string(d)
				}
			case "Panic":
				res.Count("panics", 1)
				if d, err := os.ReadFile(tf + ".panic"); err == nil && len(dumps) < 12 {
					dumps[fmt.Sprint(i)] = string(d)
				}
			case "SdkUse":
				res.Count("sdk_uses_"+ev["kind"].(string), 1)
			case "SdkCbRegistered":
				res.Count("sdk_cb_registrations", 1)
			case "SdkCbInvoked":
				res.Count("sdk_cb_invocations", 1)
			case "SdkRefused":
				res.Count("sdk_refusals", 1)
			case "Observed":
				res.Count("harness_invocation_observations", 1)
			}
			b, _ := json.Marshal(ev)
			w.Write(b)
			w.WriteByte('\n')
			lines++
		}
		f.Close()
		res.Executed++
	}
	vh.Must(w.Flush())
	vh.Must(of.Close())
	res.Evaluations = res.Executed
	res.Count("trace_lines", lines)
	res.Count("scenarios", int64(len(scs)))
	for i := 0; i < len(scs) && i < 2; i++ {
		res.Sample(scs[i])
	}
	vh.Must(res.Write(resF))
	side, _ := json.Marshal(map[string]any{"dumps": dumps, "crashes": crashes, "scenarios": scs})
	vh.Must(os.WriteFile(resF+".side.json", side, 0o644))
	os.RemoveAll(dir)
}
