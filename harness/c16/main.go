// c16: conformance harness for GlobalDelegate.tla / Trace_GlobalDelegate.tla (property C16).
//
//	c16 batch -in SCENARIOS.json -out TRACE -res R [-par N] [-random N]   parent: one FRESH SUBPROCESS per scenario
//	c16 child -in SCENARIO.json -out TRACE                                 one scenario in this process
//
// internal/global's state is once-only per process (ResetForTest is not importable), hence the
// subprocesses. A scenario starts goroutines for installers (Set*Provider), creators, recorders,
// registrars, tracer users, propagator / error-handler users; the installed delegates are wrappers
// around the real SDK (sdk.go) that serve as gates and record what reaches the SDK. Completion of all
// goroutines is the deadlock observation: a scenario is reported as deadlocked only when a
// stop-the-world goroutine dump shows EVERY unfinished scenario goroutine parked in sync.Mutex.Lock
// (nobody is left who could unlock), the lock sites are extracted from the dump.
package main

import (
	"context"
	"encoding/json"
	"errors"
	"flag"
	"fmt"
	"io"
	"log"
	"math/rand"
	"os"
	"regexp"
	"runtime"
	"runtime/debug"
	"sort"
	"strings"
	"sync"
	"sync/atomic"
	"time"

	"go.opentelemetry.io/otel"
	"go.opentelemetry.io/otel/attribute"
	"go.opentelemetry.io/otel/metric"
	"go.opentelemetry.io/otel/propagation"
	sdkmetric "go.opentelemetry.io/otel/sdk/metric"
	"go.opentelemetry.io/otel/sdk/metric/metricdata"
	sdktrace "go.opentelemetry.io/otel/sdk/trace"
	"go.opentelemetry.io/otel/sdk/verifh/vh"
	"go.opentelemetry.io/otel/trace"
)

type Proc struct {
	Name   string `json:"name"`
	Kind   string `json:"kind"` // minst creator registrar unregistrar collector tinst tuser xinst xuser
	Meter  string `json:"meter,omitempty"`
	Tracer string `json:"tracer,omitempty"`
	X      string `json:"x,omitempty"`      // prop | eh
	IKind  string `json:"ikind,omitempty"`  // instrument kind
	Pre    bool   `json:"pre,omitempty"`    // objects obtained (callback registered) before anything runs
	Unreg  bool   `json:"unreg,omitempty"`  // registrar: call Unregister
	Target string `json:"target,omitempty"` // unregistrar: whose registration
	N      int    `json:"n,omitempty"`      // measurements / spans / uses / collects
	Fresh  bool   `json:"fresh,omitempty"`  // xuser: re-Get the global object before every use
	// installers: sequence of Set calls, each "self" (Set(Get()): a documented no-op while the default is
	// installed), "r1" or "r2" (two distinct real SDKs); default ["r1"]
	Script []string `json:"script,omitempty"`
	// creator / registrar / tuser: go through a reference to the default provider kept from before
	// anything was installed, instead of a fresh Get
	Kept bool `json:"kept,omitempty"`
	// creator / registrar / tuser: Meter() / Tracer() is called with this many instrumentation-scope attributes, so
	// that the config computation inside internal/global takes tens of milliseconds (widens windows that have no
	// call-out and therefore no gate)
	Slow int `json:"slow,omitempty"`
	// wait this long after the common start before the first operation (no random jitter then)
	DelayUs int `json:"delayUs,omitempty"`
	// instrument identity (documented: name, kind, unit, description); Inst defaults to the process name
	Inst string `json:"inst,omitempty"`
	Unit string `json:"unit,omitempty"`
	Desc string `json:"desc,omitempty"`
	// registrar: the observable is created directly on SDK r1 (installed or not), only the callback goes through the
	// global meter -- a placeholder meter with a callback but no placeholder instrument
	SdkObs bool `json:"sdkobs,omitempty"`
	// creator / registrar: the Meter is obtained before anything runs, the instrument (callback) only in the concurrent
	// phase -- a placeholder meter that is empty when it is handed over
	PreMeter bool `json:"premeter,omitempty"`
	// creator (pre) / tuser (pre) / xuser: N operations in a tight loop without any logging, gate or other
	// synchronisation of the harness's own -- for the race detector (every logged event is a happens-before edge that
	// would hide a race inside internal/global)
	Quiet bool `json:"quiet,omitempty"`
}

func (p Proc) instName() string {
	if p.Inst != "" {
		return p.Inst
	}
	return p.Name
}
func (p Proc) kind() string {
	if p.IKind != "" {
		return p.IKind
	}
	if p.Kind == "registrar" {
		return "i64ocounter"
	}
	return "i64counter"
}
func (p Proc) sid() string { return sidOf(p.instName(), p.kind(), p.Unit, p.Desc) }

// dataClass: what the exported data says about the kind of its instrument (sync and observable look alike)
func dataClass(kind string) string {
	t := kind[:3]
	switch {
	case strings.HasSuffix(kind, "updown"):
		return t + "sum"
	case strings.HasSuffix(kind, "counter"):
		return t + "mono"
	case strings.HasSuffix(kind, "hist"):
		return t + "hist"
	}
	return t + "gauge"
}

type Scenario struct {
	Name    string   `json:"name"`
	Seed    int64    `json:"seed"`
	Script  []string `json:"script,omitempty"`
	Perturb float64  `json:"perturb"`
	Procs   []Proc   `json:"procs"`
	BoundMs int      `json:"boundMs,omitempty"`
	// scripted faults of the delegate SDK: its RegisterCallback / instrument constructors refuse these names
	RefuseReg  []string `json:"refuseReg,omitempty"`
	RefuseInst []string `json:"refuseInst,omitempty"`
}

var syncKinds = []string{"i64counter", "i64updown", "i64hist", "i64gauge", "f64counter", "f64updown", "f64hist", "f64gauge"}
var obsKinds = []string{"i64ocounter", "i64oupdown", "i64ogauge", "f64ocounter", "f64oupdown", "f64ogauge"}

type recorder func(ctx context.Context)

func newSync(m metric.Meter, kind, name, unit, desc string) (recorder, error) {
	u, d := metric.WithUnit(unit), metric.WithDescription(desc)
	switch kind {
	case "i64updown":
		i, err := m.Int64UpDownCounter(name, u, d)
		return func(c context.Context) { i.Add(c, 1) }, err
	case "i64hist":
		i, err := m.Int64Histogram(name, u, d)
		return func(c context.Context) { i.Record(c, 1) }, err
	case "i64gauge":
		i, err := m.Int64Gauge(name, u, d)
		return func(c context.Context) { i.Record(c, 1) }, err
	case "f64counter":
		i, err := m.Float64Counter(name, u, d)
		return func(c context.Context) { i.Add(c, 1) }, err
	case "f64updown":
		i, err := m.Float64UpDownCounter(name, u, d)
		return func(c context.Context) { i.Add(c, 1) }, err
	case "f64hist":
		i, err := m.Float64Histogram(name, u, d)
		return func(c context.Context) { i.Record(c, 1) }, err
	case "f64gauge":
		i, err := m.Float64Gauge(name, u, d)
		return func(c context.Context) { i.Record(c, 1) }, err
	default:
		i, err := m.Int64Counter(name, u, d)
		return func(c context.Context) { i.Add(c, 1) }, err
	}
}

// newObs creates an observable instrument and returns the callback body that observes v on it.
func newObs(m metric.Meter, kind, name, unit, desc string) (metric.Observable, func(metric.Observer, int64), error) {
	u, d := metric.WithUnit(unit), metric.WithDescription(desc)
	switch kind {
	case "i64oupdown":
		i, err := m.Int64ObservableUpDownCounter(name, u, d)
		return i, func(o metric.Observer, v int64) { o.ObserveInt64(i, v) }, err
	case "i64ogauge":
		i, err := m.Int64ObservableGauge(name, u, d)
		return i, func(o metric.Observer, v int64) { o.ObserveInt64(i, v) }, err
	case "f64ocounter":
		i, err := m.Float64ObservableCounter(name, u, d)
		return i, func(o metric.Observer, v int64) { o.ObserveFloat64(i, float64(v)) }, err
	case "f64oupdown":
		i, err := m.Float64ObservableUpDownCounter(name, u, d)
		return i, func(o metric.Observer, v int64) { o.ObserveFloat64(i, float64(v)) }, err
	case "f64ogauge":
		i, err := m.Float64ObservableGauge(name, u, d)
		return i, func(o metric.Observer, v int64) { o.ObserveFloat64(i, float64(v)) }, err
	default:
		i, err := m.Int64ObservableCounter(name, u, d)
		return i, func(o metric.Observer, v int64) { o.ObserveInt64(i, v) }, err
	}
}

type child struct {
	sc    Scenario
	tw    *vh.TraceWriter
	h     *H
	sched *gsched
	ids   []string // the two real SDKs
	rd    map[string]*sdkmetric.ManualReader
	rd2   map[string]*sdkmetric.ManualReader // a second reader per SDK: collector processes overlap their collections
	mopts map[string][]metric.MeterOption    // slow options, built before the common start
	topts map[string][]trace.TracerOption
	core  chan struct{} // closed when every process except the invokers has finished
	nval  int64         // observation values: unique per (invocation, k)
	wmp   map[string]*wMP
	wtp   map[string]*wTP
	dmp   metric.MeterProvider // the default (delegating) providers, kept from before anything was installed
	dtp   trace.TracerProvider
	ident map[string]Proc // owner -> its process (instrument identity), for reading the exported data
	pmet  map[string]metric.Meter
	pvia  map[string]string
	via   map[string]string // handle (owner / "t:"+user) -> provider it came from: "dflt" | "r1" | "r2"
	mu    sync.Mutex
	recs  map[string]recorder            // handed-out sync instruments (by owner name)
	regs  map[string]metric.Registration // registrations (by registrar name)
	regCh map[string]chan struct{}
	trs   map[string]trace.Tracer
	props map[string]propagation.TextMapPropagator
	ehs   map[string]otel.ErrorHandler
	lmu   sync.Mutex
	unf   map[int64]string // unfinished scenario goroutines (goroutine id -> process name)
}

func (c *child) emit(ev map[string]any) { ev["sc"] = 0; c.tw.Emit(ev) }
func (c *child) call(op string, f map[string]any) {
	f["ev"], f["op"] = "Call", op
	c.emit(f)
}
func (c *child) ret(op string, f map[string]any) {
	g := map[string]any{}
	for k, v := range f {
		g[k] = v
	}
	g["ev"], g["op"] = "Ret", op
	delete(g, "seq")
	c.emit(g)
}

// --- operations; `gate` is a no-op for the sequential pre-phase
func (c *child) setVia(h, via string) {
	c.mu.Lock()
	c.via[h] = via
	c.mu.Unlock()
}
func (c *child) viaOf(h string) string {
	c.mu.Lock()
	defer c.mu.Unlock()
	return c.via[h]
}

// getMeter: GetMeterProvider() (logged as Get, with the identity of what it returned) or the kept
// reference to the default provider, then Meter().
func (c *child) getMeter(p Proc, proc string, gate func(string)) (metric.Meter, string) {
	gate("meter")
	var mp metric.MeterProvider
	if p.Kept {
		mp = c.dmp
	} else {
		g := map[string]any{"kind": "mp", "proc": proc}
		c.call("Get", g)
		mp = otel.GetMeterProvider()
		g["val"] = valName(mp)
		c.ret("Get", g)
	}
	via := valName(mp)
	f := map[string]any{"kind": "mp", "what": "meter", "obj": p.Meter, "proc": proc, "via": via}
	c.call("Obj", f)
	m := mp.Meter(p.Meter, c.mopts[p.Name]...)
	c.ret("Obj", f)
	return m, via
}
func (c *child) mkSync(p Proc, m metric.Meter, via, proc string, gate func(string)) recorder {
	gate("inst")
	f := map[string]any{"kind": "mp", "what": "inst", "obj": p.Name, "proc": proc, "ikind": p.IKind, "via": via, "sid": p.sid()}
	c.call("Obj", f)
	c.mu.Lock()
	c.ident[p.Name] = p
	c.mu.Unlock()
	r, err := newSync(m, p.kind(), p.instName(), p.Unit, p.Desc)
	f["err"] = errS(err)
	c.ret("Obj", f)
	if err != nil { // the SDK refused the instrument and the caller was told: nothing to use
		return nil
	}
	c.setVia(p.Name, via)
	c.mu.Lock()
	c.recs[p.Name] = r
	c.mu.Unlock()
	return r
}
func (c *child) use(kind, id, obj, via, proc string, f func(ctx context.Context)) {
	sid := ""
	if kind == "mp" {
		c.mu.Lock()
		sid = c.ident[obj].sid()
		c.mu.Unlock()
	}
	ev := map[string]any{"kind": kind, "id": id, "obj": obj, "via": via, "proc": proc, "sid": sid}
	c.call("Use", ev)
	f(withID(id))
	c.ret("Use", ev)
}
func (c *child) register(p Proc, m metric.Meter, via string, gate func(string)) {
	defer close(c.regCh[p.Name])
	gate("inst")
	f := map[string]any{"kind": "mp", "what": "inst", "obj": p.Name, "proc": p.Name, "ikind": p.IKind, "via": via, "sid": p.sid()}
	c.call("Obj", f)
	c.mu.Lock()
	c.ident[p.Name] = p
	c.mu.Unlock()
	c.h.mu.Lock()
	c.h.cbOfSid[p.sid()] = p.Name
	c.h.mu.Unlock()
	om := m
	if p.SdkObs { // the observable comes straight from SDK r1; only the callback goes through the (global) meter m
		om = c.wmp["r1"].Meter(p.Meter, c.mopts[p.Name]...)
	}
	inst, observe, err := newObs(om, p.kind(), p.instName(), p.Unit, p.Desc)
	f["err"] = errS(err)
	c.ret("Obj", f)
	if err != nil {
		return
	}
	gate("register")
	g := map[string]any{"cb": p.Name, "proc": p.Name, "via": via}
	c.call("Register", g)
	reg, err := m.RegisterCallback(func(ctx context.Context, o metric.Observer) error {
		inv := idOf(ctx)
		if !strings.HasPrefix(inv, "inv:") { // a collection of the real SDK
			c.emit(map[string]any{"ev": "SdkCbInvoked", "cb": p.Name})
			observe(o, 1)
			return nil
		}
		// invoked by the harness with a recording Observer of its own: two observations with a gate in front of
		// each (the user callback is a natural gate), so that invocations of one callback can be interleaved
		proc := c.sched.me()
		for k := 1; k <= 2; k++ {
			c.sched.gate(proc, fmt.Sprintf("obs:%d", k))
			v := atomic.AddInt64(&c.nval, 1)
			e := map[string]any{"ev": "ObsCall", "cb": p.Name, "inv": inv, "val": v}
			c.emit(e)
			observe(o, v)
			c.emit(map[string]any{"ev": "ObsRet", "cb": p.Name, "inv": inv, "val": v})
		}
		return nil
	}, inst)
	g["err"] = errS(err)
	c.ret("Register", g)
	c.mu.Lock()
	c.regs[p.Name] = reg
	c.mu.Unlock()
}
func (c *child) unregister(cb, proc string) {
	c.mu.Lock()
	reg := c.regs[cb]
	c.mu.Unlock()
	g := map[string]any{"cb": cb, "proc": proc}
	c.call("Unregister", g)
	var err error
	if reg != nil {
		err = reg.Unregister()
	}
	g["err"] = errS(err)
	c.ret("Unregister", g)
}
func (c *child) getTracer(p Proc, gate func(string)) trace.Tracer {
	gate("tracer")
	var tp trace.TracerProvider
	if p.Kept {
		tp = c.dtp
	} else {
		g := map[string]any{"kind": "tp", "proc": p.Name}
		c.call("Get", g)
		tp = otel.GetTracerProvider()
		g["val"] = valName(tp)
		c.ret("Get", g)
	}
	via := valName(tp)
	f := map[string]any{"kind": "tp", "what": "tracer", "obj": p.Tracer, "proc": p.Name, "via": via}
	c.call("Obj", f)
	t := tp.Tracer(p.Tracer, c.topts[p.Name]...)
	c.ret("Obj", f)
	c.setVia("t:"+p.Name, via)
	c.mu.Lock()
	c.trs[p.Name] = t
	c.mu.Unlock()
	return t
}
func (c *child) xuse(kind, id, proc string, prop propagation.TextMapPropagator, eh otel.ErrorHandler) {
	via := valName(prop)
	if kind == "eh" {
		via = valName(eh)
	}
	c.use(kind, id, kind, via, proc, func(ctx context.Context) {
		if kind == "prop" {
			prop.Inject(ctx, propagation.MapCarrier{})
			prop.Extract(ctx, propagation.MapCarrier{})
			prop.Fields()
		} else {
			eh.Handle(errors.New("xid=" + id))
		}
	})
}

// xget: GetTextMapPropagator() / GetErrorHandler(), logged as Get
func (c *child) xget(kind, proc string) (propagation.TextMapPropagator, otel.ErrorHandler) {
	g := map[string]any{"kind": kind, "proc": proc}
	c.call("Get", g)
	var prop propagation.TextMapPropagator
	var eh otel.ErrorHandler
	if kind == "prop" {
		prop = otel.GetTextMapPropagator()
		g["val"] = valName(prop)
	} else {
		eh = otel.GetErrorHandler()
		g["val"] = valName(eh)
	}
	c.ret("Get", g)
	return prop, eh
}

// collect reads both SDKs' readers (one logical collection).
func (c *child) collect(final bool, proc string) { c.collectFrom(final, proc, c.rd) }

func (c *child) collectFrom(final bool, proc string, rds map[string]*sdkmetric.ManualReader) {
	f := map[string]any{"final": final, "proc": proc}
	c.call("Collect", f)
	points := []string{}
	sums := []map[string]any{}
	errs := ""
	for _, sdk := range c.ids {
		var rm metricdata.ResourceMetrics
		if err := rds[sdk].Collect(context.Background(), &rm); err != nil {
			errs += err.Error() + ";"
		}
		for _, sm := range rm.ScopeMetrics {
			for _, m := range sm.Metrics {
				n, has := int64(0), false
				switch d := m.Data.(type) {
				case metricdata.Sum[int64]:
					for _, dp := range d.DataPoints {
						n, has = n+dp.Value, true
					}
				case metricdata.Sum[float64]:
					for _, dp := range d.DataPoints {
						n, has = n+int64(dp.Value), true
					}
				case metricdata.Histogram[int64]:
					for _, dp := range d.DataPoints {
						n, has = n+int64(dp.Count), true
					}
				case metricdata.Histogram[float64]:
					for _, dp := range d.DataPoints {
						n, has = n+int64(dp.Count), true
					}
				case metricdata.Gauge[int64]:
					has, n = len(d.DataPoints) > 0, -1
				case metricdata.Gauge[float64]:
					has, n = len(d.DataPoints) > 0, -1
				}
				if !has {
					continue
				}
				// whose instrument is this? identity = name, kind (as far as the data shows it), unit, description
				class := ""
				switch d := m.Data.(type) {
				case metricdata.Sum[int64]:
					class = map[bool]string{true: "i64mono", false: "i64sum"}[d.IsMonotonic]
				case metricdata.Sum[float64]:
					class = map[bool]string{true: "f64mono", false: "f64sum"}[d.IsMonotonic]
				case metricdata.Histogram[int64]:
					class = "i64hist"
				case metricdata.Histogram[float64]:
					class = "f64hist"
				case metricdata.Gauge[int64]:
					class = "i64gauge"
				case metricdata.Gauge[float64]:
					class = "f64gauge"
				}
				var owners []string
				quiet := map[string]bool{}
				c.mu.Lock()
				for o, p := range c.ident {
					if p.instName() == m.Name && dataClass(p.kind()) == class && p.Unit == m.Unit && p.Desc == m.Description {
						owners = append(owners, o)
						quiet[o] = p.Quiet
					}
				}
				c.mu.Unlock()
				sort.Strings(owners)
				for _, o := range owners {
					points = append(points, o)
					if len(owners) > 1 || quiet[o] {
						n = -1 // a shared instrument (identical identity): the sum is shared too; quiet: uses are not logged
					}
					sums = append(sums, map[string]any{"inst": sdk + "/" + o, "name": o, "n": n})
				}
			}
		}
	}
	f["err"], f["points"], f["sums"] = errs, points, sums
	c.ret("Collect", f)
}

func errS(err error) string {
	if err == nil {
		return ""
	}
	return err.Error()
}

var hdrRe = regexp.MustCompile(`^goroutine (\d+) \[([^\]]*)\]`)

// deadlockProof inspects a stop-the-world dump. blocked = unfinished scenario goroutines. proven iff
//   - every unfinished scenario goroutine is parked in sync.Mutex.Lock with a frame of internal/global below it, and
//   - every OTHER goroutine of the process is harness infrastructure (main, the WaitGroup waiter, a harness process
//     waiting for another harness process) or is itself parked in sync.Mutex.Lock -- so nobody is left who could
//     ever unlock (a goroutine spawned by the code under test that is still running defeats the proof).
//
// sites = for each parked goroutine its two innermost frames inside internal/global ("outer>inner"), sorted, "|"-joined.
func deadlockProof(dump string, unfinished map[int64]string) (proven bool, sites string, blocked []string) {
	proven = len(unfinished) > 0
	var ss []string
	seen := 0
	for _, blk := range strings.Split(dump, "\n\n") {
		lines := strings.Split(strings.TrimSpace(blk), "\n")
		m := hdrRe.FindStringSubmatch(lines[0])
		if m == nil {
			continue
		}
		var id int64
		fmt.Sscan(m[1], &id)
		st := m[2]
		parked := (strings.HasPrefix(st, "sync.Mutex.Lock") || strings.HasPrefix(st, "semacquire")) &&
			strings.Contains(blk, "sync.(*Mutex).lockSlow")
		name, mine := unfinished[id]
		if mine {
			seen++
			blocked = append(blocked, name)
		}
		if !parked {
			infra := strings.Contains(blk, "main.runChild") && !strings.Contains(blk, "main.(*child).runProc") ||
				(strings.HasPrefix(st, "chan receive") || strings.HasPrefix(st, "select")) && strings.Contains(blk, "main.(*child).runProc")
			if mine || !infra {
				proven = false
			}
			continue
		}
		var g []string
		for _, l := range lines[1:] {
			if strings.HasPrefix(l, "\t") {
				continue
			}
			const pkg = "go.opentelemetry.io/otel/internal/global."
			if strings.HasPrefix(l, pkg) {
				fn := l[len(pkg):]
				if i := strings.LastIndex(fn, "("); i > 0 {
					fn = fn[:i]
				}
				g = append(g, fn)
			}
		}
		if len(g) > 2 {
			g = g[:2]
		}
		for i, j := 0, len(g)-1; i < j; i, j = i+1, j-1 {
			g[i], g[j] = g[j], g[i]
		}
		if len(g) == 0 {
			proven = false // parked outside internal/global: not this property's subject
		}
		ss = append(ss, strings.Join(g, ">"))
	}
	if seen != len(unfinished) {
		proven = false
	}
	sort.Strings(ss)
	sort.Strings(blocked)
	return proven, strings.Join(ss, "|"), blocked
}

func runChild(sc Scenario, out string) {
	log.SetOutput(io.Discard) // the default ErrDelegator logs to stderr
	tw, err := vh.NewTraceWriter(out)
	vh.Must(err)
	c := &child{sc: sc, tw: tw, recs: map[string]recorder{}, regs: map[string]metric.Registration{},
		regCh: map[string]chan struct{}{}, trs: map[string]trace.Tracer{},
		props: map[string]propagation.TextMapPropagator{}, ehs: map[string]otel.ErrorHandler{}}
	c.sched = newSched(sc.Script, sc.Seed+7, sc.Perturb)
	c.h = &H{emit: c.emit, sched: c.sched, obs: map[any]string{}, refuseReg: map[string]bool{}, refuseInst: map[string]bool{},
		kindOf: map[string]string{}, cbOfSid: map[string]string{}, cbs: map[string]metric.Callback{}, cbCh: map[string]chan struct{}{}}
	for _, n := range sc.RefuseReg {
		c.h.refuseReg[n] = true
	}
	for _, n := range sc.RefuseInst {
		c.h.refuseInst[n] = true
	}
	c.mopts, c.topts, c.core = map[string][]metric.MeterOption{}, map[string][]trace.TracerOption{}, make(chan struct{})
	watch := len(sc.RefuseReg)+len(sc.RefuseInst) > 0
	for _, p := range sc.Procs {
		c.h.kindOf[p.Name] = p.Kind
		if p.Kind == "registrar" {
			c.h.cbCh[p.Name] = make(chan struct{})
		}
		if p.X == "eh" {
			watch = false
		}
		if p.Slow > 0 {
			kv := make([]attribute.KeyValue, p.Slow)
			for i := range kv {
				kv[i] = attribute.Int(fmt.Sprintf("k%06d", (i*7919)%p.Slow), i)
			}
			c.mopts[p.Name] = []metric.MeterOption{metric.WithInstrumentationAttributes(kv...)}
			c.topts[p.Name] = []trace.TracerOption{trace.WithInstrumentationAttributes(kv...)}
		}
	}
	c.ids = []string{"r1", "r2"}
	c.ident, c.pmet, c.pvia = map[string]Proc{}, map[string]metric.Meter{}, map[string]string{}
	c.rd, c.wmp, c.wtp, c.via = map[string]*sdkmetric.ManualReader{}, map[string]*wMP{}, map[string]*wTP{}, map[string]string{}
	c.rd2 = map[string]*sdkmetric.ManualReader{}
	for _, id := range c.ids {
		c.rd[id], c.rd2[id] = sdkmetric.NewManualReader(), sdkmetric.NewManualReader()
		c.wmp[id] = &wMP{real: sdkmetric.NewMeterProvider(sdkmetric.WithReader(c.rd[id]), sdkmetric.WithReader(c.rd2[id])), h: c.h, id: id}
		c.wtp[id] = &wTP{real: sdktrace.NewTracerProvider(), h: c.h, id: id}
	}
	c.dmp, c.dtp = otel.GetMeterProvider(), otel.GetTracerProvider()
	if watch {
		// faults are scripted and nobody else uses the error handler: install a recording one (internal/global reports
		// what the delegate refuses during the hand-over to the global error handler)
		otel.SetErrorHandler(otel.ErrorHandlerFunc(func(err error) {
			c.emit(map[string]any{"ev": "Handled", "msg": errS(err)})
		}))
		c.emit(map[string]any{"ev": "Watch"})
	}
	c.sched.register("main")
	c.emit(map[string]any{"ev": "Cfg", "name": sc.Name})
	rng := rand.New(rand.NewSource(sc.Seed))
	nogate := func(string) {}
	for _, p := range sc.Procs {
		if p.Kind == "registrar" {
			c.regCh[p.Name] = make(chan struct{})
		}
	}
	// ---- pre-phase: objects handed out before anything else happens
	for _, p := range sc.Procs {
		switch {
		case p.Kind == "creator" && p.Pre:
			m, via := c.getMeter(p, "main", nogate)
			c.mkSync(p, m, via, "main", nogate)
		case p.Kind == "registrar" && p.Pre:
			m, via := c.getMeter(p, "main", nogate)
			c.register(p, m, via, nogate)
		case (p.Kind == "creator" || p.Kind == "registrar") && p.PreMeter:
			c.pmet[p.Name], c.pvia[p.Name] = c.getMeter(p, "main", nogate)
		case p.Kind == "tuser" && p.Pre:
			c.getTracer(p, nogate)
		case p.Kind == "xuser":
			c.props[p.Name] = otel.GetTextMapPropagator()
			c.ehs[p.Name] = otel.GetErrorHandler()
		}
	}
	// ---- concurrent phase
	var wg, coreWG sync.WaitGroup
	c.unf = map[int64]string{}
	started := make(chan struct{})
	for _, p := range sc.Procs {
		p := p
		r := rand.New(rand.NewSource(rng.Int63()))
		wg.Add(1)
		if p.Kind != "invoker" {
			coreWG.Add(1)
		}
		ready := make(chan struct{})
		go func() {
			id := goid()
			c.lmu.Lock()
			c.unf[id] = p.Name
			c.lmu.Unlock()
			c.sched.register(p.Name)
			close(ready)
			defer wg.Done()
			if p.Kind != "invoker" {
				defer coreWG.Done()
			}
			defer func() {
				if x := recover(); x != nil {
					st := string(debug.Stack())
					c.emit(map[string]any{"ev": "Panic", "proc": p.Name, "msg": fmt.Sprint(x),
						"inGlobal": strings.Contains(st, "otel/internal/global.")})
					os.WriteFile(out+".panic", []byte(fmt.Sprint(x)+"\n"+st), 0o644)
				}
				c.sched.done(p.Name)
				c.lmu.Lock()
				delete(c.unf, id)
				c.lmu.Unlock()
			}()
			<-started
			c.runProc(p, r)
		}()
		<-ready
	}
	close(started)
	done := make(chan struct{})
	go func() { wg.Wait(); close(done) }()
	go func() { coreWG.Wait(); close(c.core) }()
	bound := time.Duration(sc.BoundMs) * time.Millisecond
	if bound == 0 {
		bound = 30 * time.Second
	}
	t0 := time.Now()
	quiescent := true
	prevSig := ""
	tick := time.NewTicker(150 * time.Millisecond)
loop:
	for {
		select {
		case <-done:
			break loop
		case <-tick.C:
			buf := make([]byte, 1<<20)
			buf = buf[:runtime.Stack(buf, true)]
			c.lmu.Lock()
			u := map[int64]string{}
			for k, v := range c.unf {
				u[k] = v
			}
			c.lmu.Unlock()
			proven, sites, blocked := deadlockProof(string(buf), u)
			sig := fmt.Sprint(proven, sites, blocked)
			expired := time.Since(t0) > bound
			looping := atomic.LoadInt64(&c.h.looping) > 0         // the hand-over keeps re-submitting a refused item (recorded as such)
			if (proven && sig == prevSig) || expired || looping { // two consecutive identical proofs, or out of time
				quiescent = false
				os.WriteFile(out+".dump", buf, 0o644)
				reason := "bound"
				if looping {
					reason = "resubmission-loop"
				}
				c.emit(map[string]any{"ev": "Timeout", "proven": proven && sig == prevSig, "sites": sites, "blocked": blocked, "reason": reason})
				break loop
			}
			prevSig = sig
		}
	}
	tick.Stop()
	if quiescent {
		c.finalPhase()
	}
	f, d, rem, sto, perm := c.sched.stats()
	c.emit(map[string]any{"ev": "End", "quiescent": quiescent, "followed": f, "desync": d + rem, "settleTO": sto, "permuted": perm,
		"skipped": append([]string{}, c.sched.skipped...)})
	vh.Must(tw.Close())
	os.Exit(0) // blocked goroutines are abandoned with the process
}

func (c *child) runProc(p Proc, r *rand.Rand) {
	if p.DelayUs > 0 {
		time.Sleep(time.Duration(p.DelayUs) * time.Microsecond)
	}
	gate := func(point string) {
		if c.sc.Script == nil && p.DelayUs == 0 && p.Slow == 0 {
			if d := r.Intn(400); d > 0 {
				time.Sleep(time.Duration(d) * time.Microsecond)
			}
		}
		c.sched.gate(p.Name, point)
	}
	// waiting for another harness process is not "unfinished" for the deadlock proof: if that process is blocked, this
	// one waits for it, not for a lock
	waitFor := func(ch <-chan struct{}, alt <-chan struct{}) bool {
		id := goid()
		c.lmu.Lock()
		delete(c.unf, id)
		c.lmu.Unlock()
		ok := true
		select {
		case <-ch:
		case <-alt:
			select {
			case <-ch:
			default:
				ok = false
			}
		}
		c.lmu.Lock()
		c.unf[id] = p.Name
		c.lmu.Unlock()
		return ok
	}
	n := p.N
	switch p.Kind {
	case "minst", "tinst", "xinst":
		// a script of Set calls; "self" = Set(Get()) -- the Get is made before the gate, so that replayed
		// schedules can put another installer between the Get and the Set
		kind := map[string]string{"minst": "mp", "tinst": "tp", "xinst": p.X}[p.Kind]
		script := p.Script
		if len(script) == 0 {
			script = []string{"r1"}
		}
		for k, a := range script {
			var mp metric.MeterProvider
			var tp trace.TracerProvider
			var prop propagation.TextMapPropagator
			var eh otel.ErrorHandler
			val := a
			switch {
			case a == "self" && kind == "mp":
				g := map[string]any{"kind": kind, "proc": p.Name}
				c.call("Get", g)
				mp = otel.GetMeterProvider()
				val = valName(mp)
				g["val"] = val
				c.ret("Get", g)
			case a == "self" && kind == "tp":
				g := map[string]any{"kind": kind, "proc": p.Name}
				c.call("Get", g)
				tp = otel.GetTracerProvider()
				val = valName(tp)
				g["val"] = val
				c.ret("Get", g)
			case a == "self":
				prop, eh = c.xget(kind, p.Name)
				val = valName(prop)
				if kind == "eh" {
					val = valName(eh)
				}
			case kind == "mp":
				mp = c.wmp[a]
			case kind == "tp":
				tp = c.wtp[a]
			case kind == "prop":
				prop = wProp{c.h, a}
			default:
				eh = wEH{c.h, a}
			}
			gate(fmt.Sprintf("set:%d", k+1))
			f := map[string]any{"kind": kind, "proc": fmt.Sprintf("%s#%d", p.Name, k+1), "val": val, "self": a == "self"}
			c.call("Set", f)
			switch kind {
			case "mp":
				otel.SetMeterProvider(mp)
			case "tp":
				otel.SetTracerProvider(tp)
			case "prop":
				otel.SetTextMapPropagator(prop)
			default:
				otel.SetErrorHandler(eh)
			}
			c.ret("Set", f)
		}
	case "creator":
		c.mu.Lock()
		rec := c.recs[p.Name]
		c.mu.Unlock()
		if p.PreMeter {
			rec = c.mkSync(p, c.pmet[p.Name], c.pvia[p.Name], p.Name, gate)
		} else if !p.Pre {
			m, via := c.getMeter(p, p.Name, gate)
			rec = c.mkSync(p, m, via, p.Name, gate)
		}
		if rec == nil {
			return
		}
		if p.Quiet {
			for k := 0; k < n; k++ {
				rec(context.Background())
				if k%8 == 0 {
					runtime.Gosched()
				}
			}
			return
		}
		for k := 1; k <= n; k++ {
			gate(fmt.Sprintf("rec:%d", k))
			c.use("mp", fmt.Sprintf("%s:%d", p.Name, k), p.Name, c.viaOf(p.Name), p.Name, rec)
		}
	case "registrar":
		if p.PreMeter {
			c.register(p, c.pmet[p.Name], c.pvia[p.Name], gate)
		} else if !p.Pre {
			m, via := c.getMeter(p, p.Name, gate)
			c.register(p, m, via, gate)
		}
		if p.Unreg {
			gate("unreg")
			c.unregister(p.Name, p.Name)
		}
	case "unregistrar":
		waitFor(c.regCh[p.Target], nil)
		gate("unreg")
		c.unregister(p.Target, p.Name)
	case "invoker":
		// invokes the function internal/global registered with the SDK for callback Target, as an SDK may: concurrently
		// with other invocations, each with an Observer of its own
		if !waitFor(c.h.cbCh[p.Target], c.core) {
			return // never registered with an SDK (no installation / refused / unregistered before)
		}
		c.h.mu.Lock()
		f := c.h.cbs[p.Target]
		c.h.mu.Unlock()
		for k := 1; k <= n; k++ {
			gate(fmt.Sprintf("invoke:%d", k))
			inv := fmt.Sprintf("inv:%s:%d", p.Name, k)
			e := map[string]any{"cb": p.Target, "inv": inv, "proc": p.Name}
			c.call("Invoke", e)
			err := f(withID(inv), &recObs{h: c.h, inv: inv})
			e["err"] = errS(err)
			c.ret("Invoke", e)
		}
	case "collector":
		for k := 1; k <= n; k++ {
			gate(fmt.Sprintf("collect:%d", k))
			if (k+len(p.Name))%2 == 0 {
				c.collectFrom(false, p.Name, c.rd2)
			} else {
				c.collect(false, p.Name)
			}
		}
	case "tuser":
		c.mu.Lock()
		t := c.trs[p.Name]
		c.mu.Unlock()
		if !p.Pre {
			t = c.getTracer(p, gate)
		}
		if p.Quiet {
			for k := 0; k < n; k++ {
				_, sp := t.Start(context.Background(), "s")
				sp.End()
				if k%8 == 0 {
					runtime.Gosched()
				}
			}
			return
		}
		for k := 1; k <= n; k++ {
			gate(fmt.Sprintf("start:%d", k))
			c.use("tp", fmt.Sprintf("%s:%d", p.Name, k), p.Tracer, c.viaOf("t:"+p.Name), p.Name, func(ctx context.Context) {
				_, s := t.Start(ctx, "s")
				s.End()
			})
		}
	case "xuser":
		prop, eh := c.props[p.Name], c.ehs[p.Name]
		if p.Quiet {
			ctx, err, car := context.Background(), errors.New("quiet"), propagation.MapCarrier{}
			for k := 0; k < n; k++ {
				if p.X == "prop" {
					prop.Inject(ctx, car)
					prop.Extract(ctx, car)
					prop.Fields()
				} else {
					eh.Handle(err)
				}
				if k%8 == 0 {
					runtime.Gosched()
				}
			}
			return
		}
		for k := 1; k <= n; k++ {
			gate(fmt.Sprintf("use:%d", k))
			if p.Fresh {
				prop, eh = c.xget(p.X, p.Name)
			}
			c.xuse(p.X, fmt.Sprintf("%s:%d", p.Name, k), p.Name, prop, eh)
		}
	}
}

// finalPhase runs after every goroutine returned: one more use of every object ever handed out (an
// instrument / tracer left without delegate shows as a lost probe) and the final collection (which
// callbacks does the SDK invoke, which observations arrive).
func (c *child) finalPhase() {
	names := func(m map[string]bool) []string {
		var s []string
		for k := range m {
			s = append(s, k)
		}
		sort.Strings(s)
		return s
	}
	has := map[string]bool{}
	for _, p := range c.sc.Procs {
		has[p.Kind] = true
	}
	nogate := func(string) {}
	// objects created now: through a fresh Get (must come from, and reach, the provider set last) and through
	// the kept reference to the default provider ("all the Meters it has created or will create")
	if has["minst"] {
		m, via := c.getMeter(Proc{Meter: "mfresh"}, "main", nogate)
		c.mkSync(Proc{Name: "zfresh", IKind: "i64counter"}, m, via, "main", nogate)
		m, via = c.getMeter(Proc{Meter: "mkept", Kept: true}, "main", nogate)
		c.mkSync(Proc{Name: "zkept", IKind: "f64counter"}, m, via, "main", nogate)
	}
	if has["tinst"] {
		c.getTracer(Proc{Name: "zfresh", Tracer: "tfresh"}, nogate)
		c.getTracer(Proc{Name: "zkept", Tracer: "tkept", Kept: true}, nogate)
	}
	a := map[string]bool{}
	for k := range c.recs {
		a[k] = true
	}
	for _, k := range names(a) {
		c.use("mp", "probe:"+k, k, c.viaOf(k), "main", c.recs[k])
	}
	a = map[string]bool{}
	for k := range c.trs {
		a[k] = true
	}
	for _, k := range names(a) {
		t := c.trs[k]
		c.use("tp", "probe:t."+k, k, c.viaOf("t:"+k), "main", func(ctx context.Context) {
			_, s := t.Start(ctx, "s")
			s.End()
		})
	}
	for _, p := range c.sc.Procs {
		if p.Kind == "xuser" {
			c.xuse(p.X, "probe:"+p.Name, "main", c.props[p.Name], c.ehs[p.Name])
			prop, eh := c.xget(p.X, "main")
			c.xuse(p.X, "probe:fresh."+p.Name, "main", prop, eh)
		}
	}
	c.collect(true, "main")
}

func main() {
	if len(os.Args) < 2 {
		fmt.Println("usage: c16 batch|child ...")
		os.Exit(3)
	}
	fs := flag.NewFlagSet(os.Args[1], flag.ExitOnError)
	in := fs.String("in", "", "")
	out := fs.String("out", "trace.ndjson", "")
	resF := fs.String("res", "result.json", "")
	par := fs.Int("par", 8, "")
	nrand := fs.Int("random", 0, "")
	edges, walks, lanes, maxc := fs.String("edges", "", ""), fs.String("walks", "", ""), fs.Int("lanes", 25, ""), fs.Int("max", 0, "")
	fs.Parse(os.Args[2:])
	switch os.Args[1] {
	case "hchild": // handles.go: histories over handle classes (GlobalHandles.tla)
		runHChild(*in, *out)
	case "hbatch":
		runHBatch(*edges, *walks, *resF, *par, *lanes, *maxc)
	case "child":
		b, err := os.ReadFile(*in)
		vh.Must(err)
		var sc Scenario
		vh.Must(json.Unmarshal(b, &sc))
		runChild(sc, *out)
	case "batch":
		runBatch(*in, *out, *resF, *par, *nrand)
	default:
		os.Exit(3)
	}
}
