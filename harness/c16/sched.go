package main

import (
	"bytes"
	"math/rand"
	"runtime"
	"strconv"
	"strings"
	"sync"
	"time"
)

// goid returns the id of the calling goroutine (parsed from the stack header). internal/global has
// no hooks; the natural gates live in the delegate SDK wrapper, which is called by whatever goroutine
// happens to be inside internal/global, so the goroutine id is the only way to know which harness
// process stands at an SDK gate.
func goid() int64 {
	var buf [64]byte
	n := runtime.Stack(buf[:], false)
	b := buf[:n] // "goroutine 123 [running]:..."
	b = bytes.TrimPrefix(b, []byte("goroutine "))
	if i := bytes.IndexByte(b, ' '); i > 0 {
		id, _ := strconv.ParseInt(string(b[:i]), 10, 64)
		return id
	}
	return -1
}

const (
	stRunning = iota
	stAtGate
	stDone
)

// gsched replays a script of gate passages "<proc>@<point>" (GlobalDelegateSim.tla): a goroutine
// arriving at a key that occurs in the rest of the script passes when every earlier entry has been
// passed AND the previous passer has settled (reached its next gate, returned, or stayed blocked for
// `settle` -- on a lock the model says is held). An entry nobody reaches while the script makes no
// progress for `stepTimeout` is skipped (desync; never a verdict). Keys that are not in the script
// pass freely, optionally after a seeded random yield/sleep (perturbation).
type gsched struct {
	mu           sync.Mutex
	script       []string
	pos          int
	state        map[string]int
	procOf       map[int64]string
	lastRel      string
	lastRelAt    time.Time
	lastProgress time.Time
	stepTimeout  time.Duration
	settle       time.Duration
	followed     int
	desync       int
	settleTO     int
	permuted     int
	skipped      []string
	rng          *rand.Rand
	perturb      float64
	maxSleep     time.Duration
}

func newSched(script []string, seed int64, perturb float64) *gsched {
	return &gsched{script: script, state: map[string]int{}, procOf: map[int64]string{},
		stepTimeout: 400 * time.Millisecond, settle: 40 * time.Millisecond, rng: rand.New(rand.NewSource(seed)),
		perturb: perturb, maxSleep: 1500 * time.Microsecond, lastProgress: time.Now()}
}

func (s *gsched) register(proc string) {
	id := goid()
	s.mu.Lock()
	s.procOf[id] = proc
	s.state[proc] = stRunning
	s.mu.Unlock()
}

func (s *gsched) me() string {
	id := goid()
	s.mu.Lock()
	p, ok := s.procOf[id]
	s.mu.Unlock()
	if !ok {
		return "?"
	}
	return p
}

func (s *gsched) done(proc string) {
	s.mu.Lock()
	s.state[proc] = stDone
	s.mu.Unlock()
}

// gate is called by the goroutine of harness process `proc` at instrumentation point `point`.
func (s *gsched) gate(proc, point string) {
	key := proc + "@" + point
	s.mu.Lock()
	s.state[proc] = stAtGate
	idx := -1
	for i := s.pos; i < len(s.script); i++ {
		if s.script[i] == key {
			idx = i
			break
		}
	}
	// internal/global walks Go maps (meters, instruments, tracers): WHICH object the installer re-creates next is
	// the runtime's choice. If an earlier pending entry of this process has the same gate class, the two entries
	// swap places: the order of gate passages between processes is kept, the names are permuted.
	if idx >= 0 {
		if cl := permClass(key); cl != "" {
			for i := s.pos; i < idx; i++ {
				if strings.HasPrefix(s.script[i], cl) {
					s.script[i], s.script[idx] = s.script[idx], s.script[i]
					idx = i
					s.permuted++
					break
				}
			}
		}
	}
	if idx < 0 {
		var d time.Duration
		yield := false
		if s.perturb > 0 && s.rng.Float64() < s.perturb {
			if s.rng.Intn(3) == 0 {
				yield = true
			} else {
				d = time.Duration(s.rng.Int63n(int64(s.maxSleep) + 1))
			}
		}
		s.mu.Unlock()
		if yield {
			runtime.Gosched()
		} else if d > 0 {
			time.Sleep(d)
		}
		s.mu.Lock()
		s.state[proc] = stRunning
		s.mu.Unlock()
		return
	}
	arrived := time.Now()
	for {
		if s.pos > idx { // the script moved past this entry
			break
		}
		now := time.Now()
		if s.pos == idx {
			settled := s.lastRel == "" || s.lastRel == proc || s.state[s.lastRel] != stRunning
			if !settled && now.Sub(s.lastRelAt) > s.settle {
				settled = true
				s.settleTO++
			}
			if settled {
				s.pos++
				s.followed++
				s.lastRel = proc
				s.lastRelAt = now
				s.lastProgress = now
				break
			}
		} else {
			ref := s.lastProgress
			if arrived.After(ref) {
				ref = arrived
			}
			if now.Sub(ref) > s.stepTimeout {
				s.desync += idx - s.pos
				if len(s.skipped) < 64 {
					s.skipped = append(s.skipped, s.script[s.pos:idx]...)
				}
				s.pos = idx
				s.lastProgress = now
				continue
			}
		}
		s.mu.Unlock()
		time.Sleep(50 * time.Microsecond)
		s.mu.Lock()
	}
	s.state[proc] = stRunning
	s.mu.Unlock()
}

func (s *gsched) stats() (followed, desync, remaining, settleTO, permuted int) {
	s.mu.Lock()
	defer s.mu.Unlock()
	return s.followed, s.desync, len(s.script) - s.pos, s.settleTO, s.permuted
}

// permClass returns "<proc>@sdk.Inst:" / "<proc>@sdk.Meter:" / "<proc>@sdk.Tracer:" for such keys, else "".
func permClass(key string) string {
	for _, c := range []string{"@sdk.Inst:", "@sdk.Meter:", "@sdk.Tracer:"} {
		if i := strings.Index(key, c); i > 0 {
			return key[:i+len(c)]
		}
	}
	return ""
}
