package main

// code -> spec, concurrent direction.  Sets are immutable values shared between goroutines all
// over the SDK, so every clause of C05 has to hold when many goroutines use the same Sets (and
// the shared default encoder) at once.  G goroutines observe shared Sets (lookups, iteration,
// Get, ToSlice, Encoded, Equals / Equivalent both ways, Filter, MergeIterator, scripted iterator
// histories), rebuild the same lists into fresh Sets of their own and encode those as well.
// Every observation is recorded as the SAME event the sequential driver records; because the
// Sets never change, an observation is determined by (event, operands), so each goroutine keeps
// only the DISTINCT observations it saw (with a count) and the union is written to the trace:
// TLC judges every distinct observation with the same clauses of Trace_AttrSet.tla -- a
// concurrent observation must equal the sequential result.  No verdict depends on timing; the
// schedule is not forced (the package runs no user code while encoding), detection is by volume.

import (
	"encoding/json"
	"flag"
	"fmt"
	"math/rand"
	"runtime"
	"sort"
	"strings"
	"sync"

	"go.opentelemetry.io/otel/attribute"
	"go.opentelemetry.io/otel/sdk/verifh/vh"
)

// distinctObs collects the distinct observations of one goroutine: operation -> payload -> count.
type distinctObs struct {
	m        map[string]map[string]int
	enc      map[int]map[string]int // register -> encoding returned -> count (kept raw: this is the hot loop)
	overflow int
}

func (d *distinctObs) addEnc(j int, enc string) {
	pm := d.enc[j]
	if pm == nil {
		pm = map[string]int{}
		d.enc[j] = pm
	}
	if _, ok := pm[enc]; !ok && len(pm) >= maxDistinctPerOp {
		d.overflow++
		return
	}
	pm[enc]++
}

const maxDistinctPerOp = 4 // a correct tree yields exactly one; keep a few deviating ones verbatim

func (d *distinctObs) add(op string, payload string) {
	pm := d.m[op]
	if pm == nil {
		pm = map[string]int{}
		d.m[op] = pm
	}
	if _, ok := pm[payload]; !ok && len(pm) >= maxDistinctPerOp {
		d.overflow++
		return
	}
	pm[payload]++
}

// sinkFor routes the events a scen emits into the goroutine's distinct-observation table.
// The operation key is the event without its observation.
func sinkFor(d *distinctObs) func(ev map[string]any) {
	return func(ev map[string]any) {
		obs := ev["obs"]
		delete(ev, "obs")
		k, err := json.Marshal(ev) // map keys are sorted: canonical
		vh.Must(err)
		p, err := json.Marshal(obs)
		vh.Must(err)
		d.add(string(k), string(p))
	}
}

// wide string values make encodings long (the default encoder works in a pooled buffer); built
// from authored (raw, escaped) pairs, escaping being character-wise.
func wideVals() []AVal {
	var out []AVal
	for _, w := range []struct {
		unit int
		n    int
	}{{1, 700}, {3, 2048}, {4, 1024}, {5, 300}, {2, 9000}, {6, 2500}} {
		e := strTab[w.unit]
		raw, esc := strings.Repeat(e.Raw, w.n), strings.Repeat(e.Esc, w.n)
		strTab = append(strTab, keyEnt{raw, esc})
		out = append(out, AVal{T: "str", X: []string{raw}})
	}
	return out
}

type sharedSet struct {
	list []item
	how  string
	pred Pred
	set  attribute.Set
	wide bool
}

// itScript: a fixed sequence of iterator calls over one shared Set (or a merge of two), made
// legal (accessors only after Next returned true) by one sequential dry run.
type itScript struct {
	kind string
	a, b int
	ops  []string
}

func conc(args []string) {
	fs := flag.NewFlagSet("conc", flag.ExitOnError)
	gFlag := fs.Int("g", 0, "goroutines (0: chosen by seed, 8..32)")
	nops := fs.Int("ops", 400, "observations of shared Sets per goroutine")
	nenc := fs.Int("enc", 6000, "Encoded calls per goroutine")
	out := fs.String("out", "conc.ndjson", "")
	resF := fs.String("res", "conc.json", "")
	fs.Parse(args)
	r := rand.New(rand.NewSource(vh.Seed()*7919 + 17))
	G := *gFlag
	if G == 0 {
		G = 8 + r.Intn(25)
	}
	if runtime.GOMAXPROCS(0) < 4 {
		runtime.GOMAXPROCS(4)
	}
	tw, err := vh.NewTraceWriter(*out)
	vh.Must(err)
	res := vh.NewResult()

	wide := wideVals()
	// one value of every type at least (the random pool is small), the wide ones last
	typed := []AVal{{T: "bool", X: []string{"T"}}, {T: "i64", X: []string{"42"}}, {T: "i64", X: []string{"-9223372036854775808"}},
		{T: "f64", X: []string{"0.1"}}, {T: "f64", X: []string{"-1.5"}}, {T: "str", X: []string{"a,b"}}, {T: "str", X: []string{`a\,`}},
		{T: "bools", X: []string{"T", "F"}}, {T: "i64s", X: []string{"1", "-1", "9223372036854775807"}},
		{T: "f64s", X: []string{"1", "-1.5", "5e-324"}}, {T: "strs", X: []string{"x=y", "", "世界"}}}
	const nShared, nWide = 12, 6
	nregs := nShared + nWide + 1 // the last register is scratch (destination of concurrent Filters)
	scratch := nregs
	K := 16 + r.Intn(10)
	s := newScen(r, 0, K, false, append(typed, wide...), nregs, tw, res)
	nPool := len(s.pool) - len(wide) // ordinary values come first
	nilp := Pred{Kind: "nil", Ks: []int{}, Ts: []string{}}

	// ---- sequential set-up: the shared Sets, built and recorded like in the sequential driver
	sizes := []int{0, 1, 2, 5, 8, 9, 10, 11, 12, 13, K, 3}
	shared := make([]*sharedSet, nregs) // 1-based; [scratch] unused
	regs := make([]attribute.Set, nregs+1)
	mkList := func(ranks []int, vals func() int) []item {
		l := []item{}
		for _, k := range ranks {
			for c := 1 + r.Intn(2)*r.Intn(3); c > 0; c-- {
				l = append(l, item{k: k, v: vals()})
			}
		}
		r.Shuffle(len(l), func(i, j int) { l[i], l[j] = l[j], l[i] })
		return l
	}
	for j := 1; j <= nShared+nWide; j++ {
		sh := &sharedSet{how: pick(r, "NewSet", "Sortable", "Filtered", "SortableFiltered"), pred: nilp}
		ranks := r.Perm(K)
		for i := range ranks {
			ranks[i]++
		}
		if j <= nShared {
			d := sizes[j-1]
			n := d
			if sh.how == "Filtered" || sh.how == "SortableFiltered" {
				n = d + r.Intn(K-d+1)
				sh.pred = Pred{Kind: "allow", Ks: append([]int{K + 1}, ranks[:d]...), Ts: []string{}}
			}
			sh.list = mkList(ranks[:n], func() int { return r.Intn(nPool) })
		} else {
			// encoder stress Sets: 1..14 attributes, one or two of them wide strings
			sh.wide = true
			sh.how = pick(r, "NewSet", "Sortable")
			d := []int{1, 2, 4, 9, 11, 14}[j-nShared-1]
			w := nPool + (j - nShared - 1)
			sh.list = mkList(ranks[:d], func() int {
				if r.Intn(d) == 0 {
					return w
				}
				return r.Intn(nPool)
			})
			sh.list = append(sh.list, item{k: ranks[r.Intn(d)], v: w})
		}
		sh.set = s.buildWith(r, j, sh.list, sh.how, sh.pred, "conc_")
		regs[j] = sh.set
		shared[j-1] = sh
	}
	// two equal Sets built differently, so that Cmp sees equality between distinct values
	preds := []Pred{nilp, {Kind: "all", Ks: []int{}, Ts: []string{}}, {Kind: "none", Ks: []int{}, Ts: []string{}}}
	for i := 0; i < 6; i++ {
		preds = append(preds, genPred(r, K))
	}
	// iterator scripts
	var scripts []itScript
	dry := &scen{r: r, km: s.km, res: vh.NewResult(), sink: func(map[string]any) {}}
	for n := 0; n < 3*nShared; n++ {
		sc := itScript{kind: "set", a: 1 + r.Intn(nShared), b: 1 + r.Intn(nShared)}
		if n%3 == 2 {
			sc.kind = "merge"
		}
		it := dry.openIt(1, sc.kind, sc.a, sc.b, &regs[sc.a], &regs[sc.b])
		for k := 3 + r.Intn(2*it.n+6); k > 0; k-- {
			op := pickItOp(r, it, 10)
			dry.itCall(1, it, op)
			sc.ops = append(sc.ops, op)
		}
		scripts = append(scripts, sc)
	}

	// ---- concurrent phase
	type gres struct {
		d   *distinctObs
		pan any
	}
	results := make([]gres, G)
	seeds := make([]int64, G)
	for g := range seeds {
		seeds[g] = r.Int63()
	}
	var start, wg sync.WaitGroup
	start.Add(1)
	for g := 0; g < G; g++ {
		g := g
		wg.Add(1)
		go func() {
			defer wg.Done()
			d := &distinctObs{m: map[string]map[string]int{}, enc: map[int]map[string]int{}}
			results[g].d = d
			defer func() {
				if p := recover(); p != nil {
					results[g].pan = p
				}
			}()
			gr := rand.New(rand.NewSource(seeds[g]))
			gs := &scen{r: gr, sc: 0, km: s.km, K: K, pool: s.pool, res: res, ghost: s.ghost, sink: sinkFor(d)}
			// Sets of its own: the same lists built again (fresh values, fresh caller slices)
			own := map[int]*attribute.Set{}
			rebuild := func(j int) {
				sh := shared[j-1]
				set := gs.buildWith(gr, j, sh.list, sh.how, sh.pred, "concg_")
				own[j] = &set
			}
			for c := 3 + gr.Intn(3); c > 0; c-- {
				rebuild(1 + gr.Intn(nShared+nWide))
			}
			rebuild(nShared + 1 + g%nWide)
			var ownKs []int
			ownKeys := func() []int {
				if len(ownKs) != len(own) {
					ownKs = ownKs[:0]
					for j := range own {
						ownKs = append(ownKs, j)
					}
					sort.Ints(ownKs)
				}
				return ownKs
			}
			enc := attribute.DefaultEncoder()
			start.Wait()
			total := *nops + *nenc
			for i := 0; i < total; i++ {
				if i%(total / *nops + 1) != 0 || *nops == 0 {
					// Encoded(DefaultEncoder()): own fresh Sets and shared ones, narrow and wide
					var j int
					var set *attribute.Set
					if ks := ownKeys(); gr.Intn(3) > 0 {
						j = ks[gr.Intn(len(ks))]
						set = own[j]
					} else {
						j = 1 + gr.Intn(nShared+nWide)
						set = &regs[j]
					}
					d.addEnc(j, set.Encoded(enc))
					continue
				}
				a, b := 1+gr.Intn(nShared), 1+gr.Intn(nShared)
				switch n := gr.Intn(100); {
				case n < 25:
					gs.obsWith(a, &regs[a])
				case n < 45:
					sb := &regs[b]
					if o, ok := own[b]; ok && gr.Intn(2) == 0 {
						sb = o // an equal Set that is a different value
					}
					gs.cmpWith(a, b, &regs[a], sb, "conc_")
				case n < 60:
					gs.filterWith(a, scratch, &regs[a], preds[gr.Intn(len(preds))], "conc_")
				case n < 70:
					gs.mergeWith(a, b, &regs[a], &regs[b])
				case n < 90:
					sc := scripts[gr.Intn(len(scripts))]
					// a script is ONE observation: the whole sequence of return values
					var seq []any
					inner := &scen{r: gr, km: s.km, res: res, sink: func(ev map[string]any) {
						if ev["ev"] == "ItOp" {
							seq = append(seq, ev["obs"])
						}
					}}
					it := inner.openIt(1, sc.kind, sc.a, sc.b, &regs[sc.a], &regs[sc.b])
					for _, op := range sc.ops {
						inner.itCall(1, it, op)
					}
					gs.emit(map[string]any{"ev": "Script", "kind": sc.kind, "a": sc.a, "b": sc.b, "ops": sc.ops, "obs": seq})
				default:
					rebuild(1 + gr.Intn(nShared+nWide))
				}
			}
		}()
	}
	start.Done()
	wg.Wait()

	// ---- union of the distinct observations, written as ordinary events
	union := map[string]map[string]int{}
	for g := range results {
		if results[g].pan != nil {
			res.AddMismatch(vh.Mismatch{Kind: "panic", Case: map[string]any{"why": "panic", "goroutine": g}, Detail: fmt.Sprint(results[g].pan)})
		}
		res.Count("conc_distinct_overflow", int64(results[g].d.overflow))
		for j, pm := range results[g].d.enc {
			op := fmt.Sprintf(`{"ev":"Enc","sc":0,"src":%d}`, j)
			if union[op] == nil {
				union[op] = map[string]int{}
			}
			for e, c := range pm {
				b, err := json.Marshal(map[string]any{"enc": e})
				vh.Must(err)
				union[op][string(b)] += c
			}
		}
		for op, pm := range results[g].d.m {
			if union[op] == nil {
				union[op] = map[string]int{}
			}
			for p, c := range pm {
				union[op][p] += c
			}
		}
	}
	ops := vh.SortedKeys(union)
	var nObs, nDistinct, nSplit int64
	for _, op := range ops {
		pm := union[op]
		if len(pm) > 1 {
			nSplit++ // the same read-only operation gave different answers: at least one is wrong
		}
		for _, p := range vh.SortedKeys(pm) {
			var ev map[string]any
			vh.Must(json.Unmarshal([]byte(op), &ev))
			obs := json.RawMessage(p)
			nObs += int64(pm[p])
			nDistinct++
			res.Count("conc_ev_"+ev["ev"].(string), int64(pm[p]))
			if ev["ev"] == "Script" {
				// unfold into ItOpen + one ItOp per call
				tw.Emit(map[string]any{"ev": "ItOpen", "sc": 0, "conc": true, "cnt": pm[p], "it": 1, "kind": ev["kind"], "a": ev["a"], "b": ev["b"]})
				var seq []json.RawMessage
				vh.Must(json.Unmarshal(obs, &seq))
				for i, o := range ev["ops"].([]any) {
					tw.Emit(map[string]any{"ev": "ItOp", "sc": 0, "conc": true, "cnt": pm[p], "it": 1, "op": o, "obs": seq[i]})
				}
				continue
			}
			ev["obs"], ev["conc"], ev["cnt"] = obs, true, pm[p]
			tw.Emit(ev)
		}
	}
	vh.Must(tw.Close())
	res.Count("conc_goroutines", int64(G))
	res.Count("conc_observations", nObs)
	res.Count("conc_distinct_observations", nDistinct)
	res.Count("conc_operations_with_differing_answers", nSplit)
	res.Count("trace_lines", tw.N)
	res.Executed = nObs
	res.Evaluations = nObs
	vh.Must(res.Write(*resF))
}
