package main

// Abstract <-> concrete mapping between AttrModel.tla attributes and real
// attribute.KeyValue values, and the (authored, not computed) key / string tables.

import (
	"fmt"
	"math"
	"sort"
	"strconv"
	"strings"
	"sync/atomic"

	"go.opentelemetry.io/otel/attribute"
)

// AAttr is an attribute of AttrModel.tla: key rank (1-based, byte order), type, atoms.
type AAttr struct {
	K int      `json:"k"`
	T string   `json:"t"`
	X []string `json:"x"`
}

// AVal is a value of the pool with the text the default encoder must write for it.
type AVal struct {
	T string   `json:"t"`
	X []string `json:"x"`
	E string   `json:"e"`
	R string   `json:"r"` // text of the value in MarshalLog (unescaped)
}

type Pred struct {
	Kind string   `json:"kind"`
	Ks   []int    `json:"ks"`
	Ts   []string `json:"ts"`
}

// keyTab: raw key and its escaped text (backslash before backslash, '=' and ','), authored
// in strictly increasing byte order (checked at start-up).
type keyEnt struct{ Raw, Esc string }

var keyUniverse = func() []keyEnt {
	u := []keyEnt{
		{"", ""}, {" ", " "}, {"!", "!"}, {",", `\,`}, {"0", "0"}, {"1", "1"}, {"10", "10"}, {"2", "2"},
		{"=", `\=`}, {"A", "A"}, {"B", "B"}, {`\`, `\\`}, {"a", "a"}, {"a,b", `a\,b`}, {"a.b", "a.b"},
		{"a=b", `a\=b`}, {`a\`, `a\\`}, {"aa", "aa"}, {"ab", "ab"}, {"b", "b"}, {"c", "c"},
		{"http.method", "http.method"}, {"http.status_code", "http.status_code"},
	}
	for i := 0; i < 30; i++ {
		k := fmt.Sprintf("k%02d", i)
		u = append(u, keyEnt{k, k})
	}
	u = append(u, keyEnt{"service.name", "service.name"}, keyEnt{"z", "z"}, keyEnt{"zz", "zz"},
		keyEnt{"é", "é"}, keyEnt{"世界", "世界"}, keyEnt{"😀", "😀"})
	for i := 1; i < len(u); i++ {
		if strings.Compare(u[i-1].Raw, u[i].Raw) >= 0 {
			panic(fmt.Sprintf("keyUniverse not in byte order at %d (%q, %q)", i, u[i-1].Raw, u[i].Raw))
		}
	}
	return u
}()

// representatives of key ranks 1..4 for the exhaustively enumerated (small) model
var mcKeyReps = [][]string{
	{"", "a", "b", "c"},
	{"", "a,b", "a=b", `a\`},
	{"A", "a", "aa", "é"},
	{"k1", "k10", "k2", "世界"},
	{" ", "!", "0", "z"},
}

// mcKeys: concrete keys for ranks 1..n of the TLC-explored model, representative table rep.
func mcKeys(rep, n int) []string {
	if n <= 4 {
		return mcKeyReps[rep%len(mcKeyReps)][:n]
	}
	u := len(keyUniverse)
	out := make([]string, n)
	for i := range out {
		out[i] = keyUniverse[i*u/n+rep%(u/n)].Raw
	}
	return out
}

// string atoms: raw -> escaped text (authored)
var strTab = []keyEnt{
	{"", ""}, {"a", "a"}, {"b", "b"}, {"a,b", `a\,b`}, {"x=y", `x\=y`}, {`\`, `\\`}, {`a\,`, `a\\\,`},
	{"é", "é"}, {"世界", "世界"}, {" ", " "}, {"true", "true"}, {"1", "1"}, {"[]", "[]"}, {"NaN", "NaN"},
	{"0", "0"}, {"-0", "-0"}, {`"q"`, `"q"`},
}

func strEsc(raw string) (string, bool) {
	for _, e := range strTab {
		if e.Raw == raw {
			return e.Esc, true
		}
	}
	// plain strings (letters/digits only) are their own escape
	for _, c := range raw {
		if !(c >= 'a' && c <= 'z' || c >= '0' && c <= '9') {
			return "", false
		}
	}
	return raw, true
}

const nanBits = 0x7FF8000000000001 // math.NaN()

func atomToF(a string) float64 {
	switch {
	case a == "nan":
		return math.Float64frombits(nanBits)
	case a == "nan2":
		return math.Float64frombits(nanBits + 1)
	case a == "p0":
		return 0
	case a == "n0":
		return math.Copysign(0, -1)
	case a == "inf":
		return math.Inf(1)
	case a == "-inf":
		return math.Inf(-1)
	case strings.HasPrefix(a, "nan:"):
		b, err := strconv.ParseUint(a[4:], 16, 64)
		if err != nil {
			panic(err)
		}
		return math.Float64frombits(b)
	}
	f, err := strconv.ParseFloat(a, 64)
	if err != nil {
		panic("bad float atom " + a)
	}
	return f
}

func fToAtom(f float64) string {
	b := math.Float64bits(f)
	switch {
	case b == nanBits:
		return "nan"
	case b == nanBits+1:
		return "nan2"
	case math.IsNaN(f):
		return fmt.Sprintf("nan:%x", b)
	case b == 0:
		return "p0"
	case f == 0:
		return "n0"
	case math.IsInf(f, 1):
		return "inf"
	case math.IsInf(f, -1):
		return "-inf"
	}
	return strconv.FormatFloat(f, 'g', -1, 64)
}

func atomToI(a string) int64 {
	n, err := strconv.ParseInt(a, 10, 64)
	if err != nil {
		panic("bad int atom " + a)
	}
	return n
}

// ---- constructor routes.  One abstract typed value can be written through several public
// constructors (attribute.X(k, v), Key(k).X(v), KeyValue{k, XValue(v)}; Int vs Int64, IntSlice vs
// Int64Slice, Stringer vs String; nil / empty / zero-length-resliced / spare-capacity slices).
// All of them denote the SAME value of the model; the route is a dimension of the concretization.

type stringerOf string

func (s stringerOf) String() string { return string(s) }

// nForms: value forms per type (times 3 key-value routes; STRING has Stringer as one more route).
func nForms(t string) int {
	switch t {
	case "i64":
		return 2 // int64, int
	case "bools", "f64s", "strs":
		return 3 // slice forms
	case "i64s":
		return 6 // slice forms x {[]int64, []int}
	}
	return 1
}

// nRoutes is the number of constructor routes of a type (NRoutes in AttrSet.tla comes from here).
func nRoutes(t string) int {
	n := 3 * nForms(t)
	if t == "str" {
		n++
	}
	return n
}

var routeTypes = []string{"bool", "i64", "f64", "str", "bools", "i64s", "f64s", "strs"}

// sliceForm lays the elements out in one of three ways and returns the slice to pass plus the
// whole backing array (scribbled over after the constructor returned: constructors copy).
//
//	form 0: exact slice (nil when empty)   form 1: empty literal / fresh copy with equal cap
//	form 2: a re-slice of a longer array (x[:0] when empty, spare capacity otherwise)
func sliceForm[T any](elems []T, form int, junk T) (arg, backing []T) {
	switch form % 3 {
	case 0:
		if len(elems) == 0 {
			return nil, nil
		}
		a := append([]T{}, elems...)
		return a, a
	case 1:
		a := make([]T, len(elems))
		copy(a, elems)
		return a, a
	}
	b := make([]T, len(elems)+3)
	copy(b, elems)
	for i := len(elems); i < len(b); i++ {
		b[i] = junk
	}
	return b[:len(elems)], b
}

func scribbleAll[T any](b []T, junk T) {
	for i := range b {
		b[i] = junk
	}
}

// buildKV writes the abstract value (t, x) under key k through constructor route r (0-based,
// taken modulo nRoutes(t)).
func buildKV(k attribute.Key, t string, x []string, r int) attribute.KeyValue {
	if r < 0 {
		r = -r
	}
	r %= nRoutes(t)
	if t == "str" && r == 3*nForms(t) {
		return attribute.Stringer(string(k), stringerOf(x[0]))
	}
	kvr, form := r%3, r/3
	// wrap picks the key-value route given the three spellings
	wrap := func(pkg func() attribute.KeyValue, key func() attribute.KeyValue, val func() attribute.Value) attribute.KeyValue {
		switch kvr {
		case 0:
			return pkg()
		case 1:
			return key()
		}
		return attribute.KeyValue{Key: k, Value: val()}
	}
	ks := string(k)
	switch t {
	case "bool":
		v := x[0] == "T"
		return wrap(func() attribute.KeyValue { return attribute.Bool(ks, v) }, func() attribute.KeyValue { return k.Bool(v) },
			func() attribute.Value { return attribute.BoolValue(v) })
	case "i64":
		v := atomToI(x[0])
		if form == 1 && strconv.IntSize == 64 {
			return wrap(func() attribute.KeyValue { return attribute.Int(ks, int(v)) }, func() attribute.KeyValue { return k.Int(int(v)) },
				func() attribute.Value { return attribute.IntValue(int(v)) })
		}
		return wrap(func() attribute.KeyValue { return attribute.Int64(ks, v) }, func() attribute.KeyValue { return k.Int64(v) },
			func() attribute.Value { return attribute.Int64Value(v) })
	case "f64":
		v := atomToF(x[0])
		return wrap(func() attribute.KeyValue { return attribute.Float64(ks, v) }, func() attribute.KeyValue { return k.Float64(v) },
			func() attribute.Value { return attribute.Float64Value(v) })
	case "str":
		v := x[0]
		return wrap(func() attribute.KeyValue { return attribute.String(ks, v) }, func() attribute.KeyValue { return k.String(v) },
			func() attribute.Value { return attribute.StringValue(v) })
	case "bools":
		el := make([]bool, len(x))
		for i, a := range x {
			el[i] = a == "T"
		}
		arg, back := sliceForm(el, form, true)
		kv := wrap(func() attribute.KeyValue { return attribute.BoolSlice(ks, arg) }, func() attribute.KeyValue { return k.BoolSlice(arg) },
			func() attribute.Value { return attribute.BoolSliceValue(arg) })
		for i := range back {
			back[i] = !back[i]
		}
		return kv
	case "i64s":
		if form >= 3 && strconv.IntSize == 64 {
			el := make([]int, len(x))
			for i, a := range x {
				el[i] = int(atomToI(a))
			}
			arg, back := sliceForm(el, form, 77)
			kv := wrap(func() attribute.KeyValue { return attribute.IntSlice(ks, arg) }, func() attribute.KeyValue { return k.IntSlice(arg) },
				func() attribute.Value { return attribute.IntSliceValue(arg) })
			scribbleAll(back, -4242)
			return kv
		}
		el := make([]int64, len(x))
		for i, a := range x {
			el[i] = atomToI(a)
		}
		arg, back := sliceForm(el, form, 77)
		kv := wrap(func() attribute.KeyValue { return attribute.Int64Slice(ks, arg) }, func() attribute.KeyValue { return k.Int64Slice(arg) },
			func() attribute.Value { return attribute.Int64SliceValue(arg) })
		scribbleAll(back, -4242)
		return kv
	case "f64s":
		el := make([]float64, len(x))
		for i, a := range x {
			el[i] = atomToF(a)
		}
		arg, back := sliceForm(el, form, 7.5)
		kv := wrap(func() attribute.KeyValue { return attribute.Float64Slice(ks, arg) }, func() attribute.KeyValue { return k.Float64Slice(arg) },
			func() attribute.Value { return attribute.Float64SliceValue(arg) })
		scribbleAll(back, -42.42)
		return kv
	case "strs":
		arg, back := sliceForm(append([]string{}, x...), form, "~junk")
		kv := wrap(func() attribute.KeyValue { return attribute.StringSlice(ks, arg) }, func() attribute.KeyValue { return k.StringSlice(arg) },
			func() attribute.Value { return attribute.StringSliceValue(arg) })
		scribbleAll(back, "~scribbled")
		return kv
	}
	panic("unknown abstract type " + t)
}

// concreteValue builds the free-standing real Value for an abstract one (plain XValue route).
func concreteValue(t string, x []string, _ int) attribute.Value {
	return buildKV("", t, x, 2).Value
}

// abstractValue projects a real Value through its public accessors.
func abstractValue(v attribute.Value) (string, []string) {
	x := []string{}
	b2a := func(b bool) string {
		if b {
			return "T"
		}
		return "F"
	}
	switch v.Type() {
	case attribute.BOOL:
		return "bool", []string{b2a(v.AsBool())}
	case attribute.INT64:
		return "i64", []string{strconv.FormatInt(v.AsInt64(), 10)}
	case attribute.FLOAT64:
		return "f64", []string{fToAtom(v.AsFloat64())}
	case attribute.STRING:
		return "str", []string{v.AsString()}
	case attribute.BOOLSLICE:
		for _, b := range v.AsBoolSlice() {
			x = append(x, b2a(b))
		}
		return "bools", x
	case attribute.INT64SLICE:
		for _, n := range v.AsInt64Slice() {
			x = append(x, strconv.FormatInt(n, 10))
		}
		return "i64s", x
	case attribute.FLOAT64SLICE:
		for _, f := range v.AsFloat64Slice() {
			x = append(x, fToAtom(f))
		}
		return "f64s", x
	case attribute.STRINGSLICE:
		x = append(x, v.AsStringSlice()...)
		return "strs", x
	case attribute.INVALID:
		return "INVALID", x
	}
	return "?", x
}

// keyMap translates key ranks of one scenario to concrete keys and back.
type keyMap struct {
	keys []string // rank-1 -> key
	rank map[string]int
	fvar int64 // filters constructed so far (selects how the caller's key buffer is overwritten)
}

func newKeyMap(keys []string) *keyMap {
	if !sort.StringsAreSorted(keys) {
		panic("key table not sorted")
	}
	m := &keyMap{keys: keys, rank: map[string]int{}}
	for i, k := range keys {
		m.rank[k] = i + 1
	}
	return m
}

// key returns the concrete key of a rank; ranks beyond the table (predicates may name keys no
// attribute uses) map to keys that are never present.
func (m *keyMap) key(rank int) attribute.Key {
	if rank < 1 || rank > len(m.keys) {
		return attribute.Key(fmt.Sprintf("~absent%d", rank))
	}
	return attribute.Key(m.keys[rank-1])
}

// concrete writes an abstract attribute through the constructor route chosen by variant.
func (m *keyMap) concrete(a AAttr, variant int) attribute.KeyValue {
	return buildKV(m.key(a.K), a.T, a.X, variant)
}

func (m *keyMap) abstract(kv attribute.KeyValue) AAttr {
	t, x := abstractValue(kv.Value)
	r, ok := m.rank[string(kv.Key)]
	if !ok {
		r = -1
	}
	return AAttr{K: r, T: t, X: x}
}

func (m *keyMap) abstractAll(kvs []attribute.KeyValue) []AAttr {
	out := make([]AAttr, 0, len(kvs))
	for _, kv := range kvs {
		out = append(out, m.abstract(kv))
	}
	return out
}

// filter builds the real attribute.Filter for an abstract predicate ("nil" -> nil).
func (m *keyMap) filter(p Pred) attribute.Filter {
	switch p.Kind {
	case "nil":
		return nil
	case "all":
		return func(attribute.KeyValue) bool { return true }
	case "none":
		return func(attribute.KeyValue) bool { return false }
	case "allow", "deny":
		// A filter is a VALUE fixed when it is constructed.  The caller builds it from a buffer it
		// re-uses: after the constructor returned the buffer is overwritten (other keys of the
		// table / zeroed / shifted, spare capacity included) and only then is the filter applied.
		v := int(atomic.AddInt64(&m.fvar, 1))
		buf := make([]attribute.Key, len(p.Ks), len(p.Ks)+2)
		named := map[attribute.Key]bool{}
		for i, r := range p.Ks {
			buf[i] = m.key(r)
			named[buf[i]] = true
		}
		var f attribute.Filter
		if p.Kind == "allow" {
			f = attribute.NewAllowKeysFilter(buf...)
		} else {
			f = attribute.NewDenyKeysFilter(buf...)
		}
		var others []attribute.Key // keys of the table the filter does NOT name
		for _, k := range m.keys {
			if !named[attribute.Key(k)] {
				others = append(others, attribute.Key(k))
			}
		}
		others = append(others, "~other")
		full := buf[:cap(buf)]
		switch v % 3 {
		case 0:
			for i := range full {
				full[i] = others[(i+v)%len(others)]
			}
		case 1:
			for i := range full {
				full[i] = ""
			}
		default:
			copy(full, full[1:])
			full[len(full)-1] = others[v%len(others)]
			if len(p.Ks) > 0 {
				full[0] = others[(v+1)%len(others)]
			}
		}
		return f
	case "type":
		ts := map[string]bool{}
		for _, t := range p.Ts {
			ts[t] = true
		}
		return func(kv attribute.KeyValue) bool {
			t, _ := abstractValue(kv.Value)
			return ts[t]
		}
	}
	panic("unknown predicate kind " + p.Kind)
}

func attrEq(a, b AAttr) bool {
	if a.K != b.K || a.T != b.T || len(a.X) != len(b.X) {
		return false
	}
	for i := range a.X {
		if a.X[i] != b.X[i] {
			return false
		}
	}
	return true
}

func seqEq(a, b []AAttr) bool {
	if len(a) != len(b) {
		return false
	}
	for i := range a {
		if !attrEq(a[i], b[i]) {
			return false
		}
	}
	return true
}

// bagEq: same multiset of attributes (order ignored).
func bagEq(a, b []AAttr) bool {
	if len(a) != len(b) {
		return false
	}
	used := make([]bool, len(b))
outer:
	for _, x := range a {
		for j, y := range b {
			if !used[j] && attrEq(x, y) {
				used[j] = true
				continue outer
			}
		}
		return false
	}
	return true
}

func hasNanSlice(as ...[]AAttr) bool {
	for _, s := range as {
		for _, a := range s {
			if a.T == "f64s" {
				for _, x := range a.X {
					if strings.HasPrefix(x, "nan") {
						return true
					}
				}
			}
		}
	}
	return false
}
