package main

// Abstract <-> concrete mapping between AttrModel.tla attributes and real
// attribute.KeyValue values, and the (authored, not computed) key / string tables.

import (
	"fmt"
	"math"
	"sort"
	"strconv"
	"strings"

	"go.opentelemetry.io/otel/attribute"
)

// AAttr is an attribute of AttrModel.tla: key rank (1-based, byte order), type, atoms.
type AAttr struct {
	K int      `json:"k"`
	T string   `json:"t"`
	X []string `json:"x"`
}

// AVal is a value of the pool with the text the default encoder must write for it.
type AVal struct {
	T string   `json:"t"`
	X []string `json:"x"`
	E string   `json:"e"`
	R string   `json:"r"` // text of the value in MarshalLog (unescaped)
}

type Pred struct {
	Kind string   `json:"kind"`
	Ks   []int    `json:"ks"`
	Ts   []string `json:"ts"`
}

// keyTab: raw key and its escaped text (backslash before backslash, '=' and ','), authored
// in strictly increasing byte order (checked at start-up).
type keyEnt struct{ Raw, Esc string }

var keyUniverse = func() []keyEnt {
	u := []keyEnt{
		{"", ""}, {" ", " "}, {"!", "!"}, {",", `\,`}, {"0", "0"}, {"1", "1"}, {"10", "10"}, {"2", "2"},
		{"=", `\=`}, {"A", "A"}, {"B", "B"}, {`\`, `\\`}, {"a", "a"}, {"a,b", `a\,b`}, {"a.b", "a.b"},
		{"a=b", `a\=b`}, {`a\`, `a\\`}, {"aa", "aa"}, {"ab", "ab"}, {"b", "b"}, {"c", "c"},
		{"http.method", "http.method"}, {"http.status_code", "http.status_code"},
	}
	for i := 0; i < 30; i++ {
		k := fmt.Sprintf("k%02d", i)
		u = append(u, keyEnt{k, k})
	}
	u = append(u, keyEnt{"service.name", "service.name"}, keyEnt{"z", "z"}, keyEnt{"zz", "zz"},
		keyEnt{"é", "é"}, keyEnt{"世界", "世界"}, keyEnt{"😀", "😀"})
	for i := 1; i < len(u); i++ {
		if strings.Compare(u[i-1].Raw, u[i].Raw) >= 0 {
			panic(fmt.Sprintf("keyUniverse not in byte order at %d (%q, %q)", i, u[i-1].Raw, u[i].Raw))
		}
	}
	return u
}()

// representatives of key ranks 1..4 for the exhaustively enumerated (small) model
var mcKeyReps = [][]string{
	{"", "a", "b", "c"},
	{"", "a,b", "a=b", `a\`},
	{"A", "a", "aa", "é"},
	{"k1", "k10", "k2", "世界"},
	{" ", "!", "0", "z"},
}

// mcKeys: concrete keys for ranks 1..n of the TLC-explored model, representative table rep.
func mcKeys(rep, n int) []string {
	if n <= 4 {
		return mcKeyReps[rep%len(mcKeyReps)][:n]
	}
	u := len(keyUniverse)
	out := make([]string, n)
	for i := range out {
		out[i] = keyUniverse[i*u/n+rep%(u/n)].Raw
	}
	return out
}

// string atoms: raw -> escaped text (authored)
var strTab = []keyEnt{
	{"", ""}, {"a", "a"}, {"b", "b"}, {"a,b", `a\,b`}, {"x=y", `x\=y`}, {`\`, `\\`}, {`a\,`, `a\\\,`},
	{"é", "é"}, {"世界", "世界"}, {" ", " "}, {"true", "true"}, {"1", "1"}, {"[]", "[]"}, {"NaN", "NaN"},
	{"0", "0"}, {"-0", "-0"}, {`"q"`, `"q"`},
}

func strEsc(raw string) (string, bool) {
	for _, e := range strTab {
		if e.Raw == raw {
			return e.Esc, true
		}
	}
	// plain strings (letters/digits only) are their own escape
	for _, c := range raw {
		if !(c >= 'a' && c <= 'z' || c >= '0' && c <= '9') {
			return "", false
		}
	}
	return raw, true
}

const nanBits = 0x7FF8000000000001 // math.NaN()

func atomToF(a string) float64 {
	switch {
	case a == "nan":
		return math.Float64frombits(nanBits)
	case a == "nan2":
		return math.Float64frombits(nanBits + 1)
	case a == "p0":
		return 0
	case a == "n0":
		return math.Copysign(0, -1)
	case a == "inf":
		return math.Inf(1)
	case a == "-inf":
		return math.Inf(-1)
	case strings.HasPrefix(a, "nan:"):
		b, err := strconv.ParseUint(a[4:], 16, 64)
		if err != nil {
			panic(err)
		}
		return math.Float64frombits(b)
	}
	f, err := strconv.ParseFloat(a, 64)
	if err != nil {
		panic("bad float atom " + a)
	}
	return f
}

func fToAtom(f float64) string {
	b := math.Float64bits(f)
	switch {
	case b == nanBits:
		return "nan"
	case b == nanBits+1:
		return "nan2"
	case math.IsNaN(f):
		return fmt.Sprintf("nan:%x", b)
	case b == 0:
		return "p0"
	case f == 0:
		return "n0"
	case math.IsInf(f, 1):
		return "inf"
	case math.IsInf(f, -1):
		return "-inf"
	}
	return strconv.FormatFloat(f, 'g', -1, 64)
}

func atomToI(a string) int64 {
	n, err := strconv.ParseInt(a, 10, 64)
	if err != nil {
		panic("bad int atom " + a)
	}
	return n
}

// concreteValue builds the real Value for an abstract one. variant selects among the
// equivalent public constructors (Int vs Int64, IntSlice vs Int64Slice, nil vs empty slice).
func concreteValue(t string, x []string, variant int) attribute.Value {
	switch t {
	case "bool":
		return attribute.BoolValue(x[0] == "T")
	case "i64":
		if variant%2 == 1 && strconv.IntSize == 64 {
			return attribute.IntValue(int(atomToI(x[0])))
		}
		return attribute.Int64Value(atomToI(x[0]))
	case "f64":
		return attribute.Float64Value(atomToF(x[0]))
	case "str":
		return attribute.StringValue(x[0])
	case "bools":
		if len(x) == 0 && variant%2 == 1 {
			return attribute.BoolSliceValue(nil)
		}
		v := make([]bool, len(x))
		for i, a := range x {
			v[i] = a == "T"
		}
		return attribute.BoolSliceValue(v)
	case "i64s":
		if len(x) == 0 && variant%2 == 1 {
			return attribute.Int64SliceValue(nil)
		}
		if variant%3 == 2 && strconv.IntSize == 64 {
			v := make([]int, len(x))
			for i, a := range x {
				v[i] = int(atomToI(a))
			}
			return attribute.IntSliceValue(v)
		}
		v := make([]int64, len(x))
		for i, a := range x {
			v[i] = atomToI(a)
		}
		return attribute.Int64SliceValue(v)
	case "f64s":
		if len(x) == 0 && variant%2 == 1 {
			return attribute.Float64SliceValue(nil)
		}
		v := make([]float64, len(x))
		for i, a := range x {
			v[i] = atomToF(a)
		}
		return attribute.Float64SliceValue(v)
	case "strs":
		if len(x) == 0 && variant%2 == 1 {
			return attribute.StringSliceValue(nil)
		}
		return attribute.StringSliceValue(append([]string{}, x...))
	}
	panic("unknown abstract type " + t)
}

// abstractValue projects a real Value through its public accessors.
func abstractValue(v attribute.Value) (string, []string) {
	x := []string{}
	b2a := func(b bool) string {
		if b {
			return "T"
		}
		return "F"
	}
	switch v.Type() {
	case attribute.BOOL:
		return "bool", []string{b2a(v.AsBool())}
	case attribute.INT64:
		return "i64", []string{strconv.FormatInt(v.AsInt64(), 10)}
	case attribute.FLOAT64:
		return "f64", []string{fToAtom(v.AsFloat64())}
	case attribute.STRING:
		return "str", []string{v.AsString()}
	case attribute.BOOLSLICE:
		for _, b := range v.AsBoolSlice() {
			x = append(x, b2a(b))
		}
		return "bools", x
	case attribute.INT64SLICE:
		for _, n := range v.AsInt64Slice() {
			x = append(x, strconv.FormatInt(n, 10))
		}
		return "i64s", x
	case attribute.FLOAT64SLICE:
		for _, f := range v.AsFloat64Slice() {
			x = append(x, fToAtom(f))
		}
		return "f64s", x
	case attribute.STRINGSLICE:
		x = append(x, v.AsStringSlice()...)
		return "strs", x
	case attribute.INVALID:
		return "INVALID", x
	}
	return "?", x
}

// keyMap translates key ranks of one scenario to concrete keys and back.
type keyMap struct {
	keys []string // rank-1 -> key
	rank map[string]int
}

func newKeyMap(keys []string) *keyMap {
	if !sort.StringsAreSorted(keys) {
		panic("key table not sorted")
	}
	m := &keyMap{keys: keys, rank: map[string]int{}}
	for i, k := range keys {
		m.rank[k] = i + 1
	}
	return m
}

// key returns the concrete key of a rank; ranks beyond the table (predicates may name keys no
// attribute uses) map to keys that are never present.
func (m *keyMap) key(rank int) attribute.Key {
	if rank < 1 || rank > len(m.keys) {
		return attribute.Key(fmt.Sprintf("~absent%d", rank))
	}
	return attribute.Key(m.keys[rank-1])
}

func (m *keyMap) concrete(a AAttr, variant int) attribute.KeyValue {
	return attribute.KeyValue{Key: m.key(a.K), Value: concreteValue(a.T, a.X, variant)}
}

func (m *keyMap) abstract(kv attribute.KeyValue) AAttr {
	t, x := abstractValue(kv.Value)
	r, ok := m.rank[string(kv.Key)]
	if !ok {
		r = -1
	}
	return AAttr{K: r, T: t, X: x}
}

func (m *keyMap) abstractAll(kvs []attribute.KeyValue) []AAttr {
	out := make([]AAttr, 0, len(kvs))
	for _, kv := range kvs {
		out = append(out, m.abstract(kv))
	}
	return out
}

// filter builds the real attribute.Filter for an abstract predicate ("nil" -> nil).
func (m *keyMap) filter(p Pred) attribute.Filter {
	switch p.Kind {
	case "nil":
		return nil
	case "all":
		return func(attribute.KeyValue) bool { return true }
	case "none":
		return func(attribute.KeyValue) bool { return false }
	case "allow", "deny":
		ks := make([]attribute.Key, len(p.Ks))
		for i, r := range p.Ks {
			ks[i] = m.key(r)
		}
		if p.Kind == "allow" {
			return attribute.NewAllowKeysFilter(ks...)
		}
		return attribute.NewDenyKeysFilter(ks...)
	case "type":
		ts := map[string]bool{}
		for _, t := range p.Ts {
			ts[t] = true
		}
		return func(kv attribute.KeyValue) bool {
			t, _ := abstractValue(kv.Value)
			return ts[t]
		}
	}
	panic("unknown predicate kind " + p.Kind)
}

func attrEq(a, b AAttr) bool {
	if a.K != b.K || a.T != b.T || len(a.X) != len(b.X) {
		return false
	}
	for i := range a.X {
		if a.X[i] != b.X[i] {
			return false
		}
	}
	return true
}

func seqEq(a, b []AAttr) bool {
	if len(a) != len(b) {
		return false
	}
	for i := range a {
		if !attrEq(a[i], b[i]) {
			return false
		}
	}
	return true
}

// bagEq: same multiset of attributes (order ignored).
func bagEq(a, b []AAttr) bool {
	if len(a) != len(b) {
		return false
	}
	used := make([]bool, len(b))
outer:
	for _, x := range a {
		for j, y := range b {
			if !used[j] && attrEq(x, y) {
				used[j] = true
				continue outer
			}
		}
		return false
	}
	return true
}

func hasNanSlice(as ...[]AAttr) bool {
	for _, s := range as {
		for _, a := range s {
			if a.T == "f64s" {
				for _, x := range a.X {
					if strings.HasPrefix(x, "nan") {
						return true
					}
				}
			}
		}
	}
	return false
}
