package main

// spec -> code: replay every TLC edge of AttrSet.tla on the real attribute package.

import (
	"bufio"
	"bytes"
	"encoding/json"
	"flag"
	"fmt"
	"os"
	"sort"

	"go.opentelemetry.io/otel/attribute"
	"go.opentelemetry.io/otel/sdk/verifh/vh"
)

type Look struct {
	Has bool     `json:"has"`
	T   string   `json:"t"`
	X   []string `json:"x"`
}
type Idx struct {
	I int   `json:"i"`
	A AAttr `json:"a"`
}
type GetR struct {
	Ok bool    `json:"ok"`
	A  []AAttr `json:"a"`
}
type Out struct {
	Len     int     `json:"len"`
	Look    []Look  `json:"look"`
	Iter    []Idx   `json:"iter"`
	Get     []GetR  `json:"get"`
	SelfEq  bool    `json:"selfEq"`
	Bag     []AAttr `json:"bag"`
	Dropped []AAttr `json:"dropped"`
	Orig    []AAttr `json:"orig"`
	Merged  []AAttr `json:"merged"`
	Eq      bool    `json:"eq"`
	EncEq   bool    `json:"encEq"`  // Twin: same encoding through both constructor routes
	JSONEq  bool    `json:"jsonEq"` // Twin: same MarshalJSON through both constructor routes
}
type TEntry struct {
	S []AAttr `json:"s"`
	N int     `json:"n"`
}
type St struct {
	Pend  []AAttr  `json:"pend"`
	Cur   []AAttr  `json:"cur"`
	Table []TEntry `json:"table"`
	N     int      `json:"n"`
}
type Act struct {
	Op    string  `json:"op"`
	A     *AAttr  `json:"a,omitempty"`
	How   string  `json:"how,omitempty"`
	P     *Pred   `json:"p,omitempty"`
	Items []AAttr `json:"items,omitempty"` // Bulk: a whole prepared slice
	R1    int     `json:"r1,omitempty"`    // Twin: constructor routes (1-based)
	R2    int     `json:"r2,omitempty"`
}
type edge struct {
	From json.RawMessage `json:"from"`
	Act  Act             `json:"act"`
	To   json.RawMessage `json:"to"`
	Out  Out             `json:"out"`
	to   St
}

// ---- the real objects the model state stands for

type tabEntry struct {
	set attribute.Set
	n   int
	ord int
}

type machine struct {
	km      *keyMap
	variant int
	pend    []attribute.KeyValue
	cur     attribute.Set
	tab     map[attribute.Distinct]*tabEntry // a real Go map keyed by Equivalent()
	nops    int
	incons  []string // accessors of one Set disagreeing with each other
}

func newMachine(km *keyMap, variant int) *machine {
	return &machine{km: km, variant: variant, cur: attribute.NewSet(), tab: map[attribute.Distinct]*tabEntry{}}
}

func sortByKey(as []AAttr) []AAttr {
	out := append([]AAttr{}, as...)
	sort.SliceStable(out, func(i, j int) bool { return out[i].K < out[j].K })
	return out
}

// selfEqual: "every Set equals itself" through every public notion of identity.
func selfEqual(s *attribute.Set) bool {
	cp := *s
	d := s.Equivalent()
	m := map[attribute.Distinct]int{d: 1}
	_, hit := m[s.Equivalent()]
	return s.Equals(s) && s.Equals(&cp) && d == cp.Equivalent() && hit
}

// observe projects a Set through every accessor the statement mentions.
func (m *machine) observe(s *attribute.Set, nkeys int, o *Out) {
	scribble(s.ToSlice()) // a ToSlice result is the caller's: writing to it must not reach the Set
	o.Len = s.Len()
	o.Look = []Look{}
	for r := 1; r <= nkeys; r++ {
		v, ok := s.Value(m.km.key(r))
		if s.HasValue(m.km.key(r)) != ok {
			m.incons = append(m.incons, fmt.Sprintf("HasValue(%q) != Value ok", m.km.keys[r-1]))
		}
		t, x := abstractValue(v)
		o.Look = append(o.Look, Look{Has: ok, T: t, X: x})
	}
	o.Iter = []Idx{}
	it := s.Iter()
	if it.Len() != o.Len {
		m.incons = append(m.incons, "Iterator.Len != Set.Len")
	}
	for it.Next() {
		i, kv := it.IndexedAttribute()
		o.Iter = append(o.Iter, Idx{I: i, A: m.km.abstract(kv)})
		if g, ok := s.Get(i); !ok || m.km.abstract(g).K != m.km.abstract(kv).K {
			m.incons = append(m.incons, "Get(i) != Iterator attribute")
		}
	}
	// Set.Get at every position from -1 to Len
	o.Get = []GetR{}
	for i := -1; i <= o.Len; i++ {
		kv, ok := s.Get(i)
		g := GetR{Ok: ok, A: []AAttr{}}
		if ok { // what Get returns next to ok = false is not documented: not looked at
			g.A = append(g.A, m.km.abstract(kv))
		}
		o.Get = append(o.Get, g)
	}
	o.SelfEq = selfEqual(s)
}

// scribble overwrites a slice the caller owns (its input after the call, a returned list of
// removed attributes, a ToSlice result): Sets are immutable, so no Set may change because of it.
func scribble(kvs []attribute.KeyValue) {
	for i := range kvs {
		kvs[i] = attribute.String("~scribbled", "~")
	}
}

// emptyVariant: the three documented ways of writing the empty Set.
func emptyVariant(v int) attribute.Set {
	switch v % 3 {
	case 1:
		return attribute.Set{}
	case 2:
		return *attribute.EmptySet()
	}
	return attribute.NewSet()
}

func (m *machine) project(nkeys int) St {
	st := St{Pend: m.km.abstractAll(m.pend), Cur: m.km.abstractAll(m.cur.ToSlice()), Table: []TEntry{}, N: m.nops}
	ents := make([]*tabEntry, 0, len(m.tab))
	for _, e := range m.tab { // range also visits entries whose key is not equal to itself
		ents = append(ents, e)
	}
	sort.Slice(ents, func(i, j int) bool { return ents[i].ord < ents[j].ord })
	for _, e := range ents {
		st.Table = append(st.Table, TEntry{S: m.km.abstractAll(e.set.ToSlice()), N: e.n})
	}
	return st
}

// step performs one abstract action on the real objects and returns what it observed.
func (m *machine) step(a Act, nkeys int) Out {
	o := Out{Bag: []AAttr{}, Dropped: []AAttr{}, Orig: []AAttr{}, Merged: []AAttr{}, Eq: true, EncEq: true, JSONEq: true}
	// constructor route of the next attribute: differs between positions and between builds
	route := func() int { return m.variant + len(m.pend) + 7*m.nops }
	switch a.Op {
	case "Push":
		m.pend = append(m.pend, m.km.concrete(*a.A, route()))
	case "Bulk":
		for _, it := range a.Items {
			m.pend = append(m.pend, m.km.concrete(it, route()))
		}
	case "Twin":
		s1 := attribute.NewSet(m.km.concrete(*a.A, a.R1-1))
		s2 := attribute.NewSet(m.km.concrete(*a.A, a.R2-1))
		o.Eq = s1.Equals(&s2)
		if s2.Equals(&s1) != o.Eq || (s1.Equivalent() == s2.Equivalent()) != o.Eq {
			m.incons = append(m.incons, "Equals not symmetric / differs from Equivalent()==")
		}
		o.EncEq = s1.Encoded(attribute.DefaultEncoder()) == s2.Encoded(attribute.DefaultEncoder())
		j1, e1 := s1.MarshalJSON()
		j2, e2 := s2.MarshalJSON()
		o.JSONEq = (e1 == nil) == (e2 == nil) && string(j1) == string(j2)
		for _, s := range []attribute.Set{s1, s2} { // table[Equivalent()]++ for both
			if e, ok := m.tab[s.Equivalent()]; ok {
				e.n++
			} else {
				m.tab[s.Equivalent()] = &tabEntry{set: s, n: 1, ord: len(m.tab)}
			}
		}
		m.cur = s1
		if (a.R1+a.R2)%2 == 1 {
			m.cur = s2
		}
	case "New":
		if a.How == "Sortable" {
			var tmp attribute.Sortable
			m.cur = attribute.NewSetWithSortable(m.pend, &tmp)
		} else {
			m.cur = attribute.NewSet(m.pend...)
		}
		o.Bag = m.km.abstractAll(m.pend) // the caller's slice after the call
		scribble(m.pend)                 // the caller re-uses its slice; the Set must not notice
		m.pend = nil
	case "NewF":
		var dropped []attribute.KeyValue
		if a.How == "SortableFiltered" {
			var tmp attribute.Sortable
			m.cur, dropped = attribute.NewSetWithSortableFiltered(m.pend, &tmp, m.km.filter(*a.P))
		} else {
			m.cur, dropped = attribute.NewSetWithFiltered(m.pend, m.km.filter(*a.P))
		}
		o.Dropped = sortByKey(m.km.abstractAll(dropped))
		o.Bag = m.km.abstractAll(m.pend)
		scribble(m.pend)
		scribble(dropped)
		m.pend = nil
	case "Filter":
		orig := m.cur
		kept, dropped := orig.Filter(m.km.filter(*a.P))
		o.Dropped = sortByKey(m.km.abstractAll(dropped))
		scribble(dropped) // the removed list belongs to the caller; neither Set may be affected
		o.Orig = m.km.abstractAll(orig.ToSlice())
		m.cur = kept
	case "Merge":
		orig := m.cur
		other := attribute.NewSet(append([]attribute.KeyValue{}, m.pend...)...)
		mi := attribute.NewMergeIterator(&orig, &other)
		var merged []attribute.KeyValue
		for mi.Next() {
			merged = append(merged, mi.Attribute())
		}
		o.Merged = m.km.abstractAll(merged)
		o.Orig = m.km.abstractAll(orig.ToSlice())
		m.cur = attribute.NewSet(append([]attribute.KeyValue{}, merged...)...)
		m.pend = nil
	case "Cmp":
		other := attribute.NewSet(append([]attribute.KeyValue{}, m.pend...)...)
		if len(m.pend) == 0 {
			other = emptyVariant(m.variant)
		}
		o.Eq = m.cur.Equals(&other)
		if other.Equals(&m.cur) != o.Eq || (m.cur.Equivalent() == other.Equivalent()) != o.Eq {
			m.incons = append(m.incons, "Equals not symmetric / differs from Equivalent()==")
		}
		m.pend = nil
	case "Record":
		if e, ok := m.tab[m.cur.Equivalent()]; ok {
			e.n++
		} else {
			m.tab[m.cur.Equivalent()] = &tabEntry{set: m.cur, n: 1, ord: len(m.tab)}
		}
	default:
		panic("unknown action " + a.Op)
	}
	if a.Op != "Push" && a.Op != "Bulk" {
		m.nops++
	}
	m.observe(&m.cur, nkeys, &o)
	return o
}

func lookEq(a, b []Look) bool {
	if len(a) != len(b) {
		return false
	}
	for i := range a {
		if a[i].Has != b[i].Has || !attrEq(AAttr{T: a[i].T, X: a[i].X}, AAttr{T: b[i].T, X: b[i].X}) {
			return false
		}
	}
	return true
}

func getEq(a, b []GetR) bool {
	if len(a) != len(b) {
		return false
	}
	for i := range a {
		if a[i].Ok != b[i].Ok || !seqEq(a[i].A, b[i].A) {
			return false
		}
	}
	return true
}

func iterEq(a, b []Idx) bool {
	if len(a) != len(b) {
		return false
	}
	for i := range a {
		if a[i].I != b[i].I || !attrEq(a[i].A, b[i].A) {
			return false
		}
	}
	return true
}

func tableEq(a, b []TEntry) bool {
	if len(a) != len(b) {
		return false
	}
	for i := range a {
		if a[i].N != b[i].N || !seqEq(a[i].S, b[i].S) {
			return false
		}
	}
	return true
}

// diff names the components of the projection that differ from the specification's successor.
func diff(got St, gout Out, want St, wout Out, op string) []string {
	var d []string
	add := func(differs bool, why string) {
		if differs {
			d = append(d, why)
		}
	}
	add(!seqEq(got.Cur, want.Cur), "cur")
	add(!seqEq(got.Pend, want.Pend), "pend")
	add(gout.Len != wout.Len, "len")
	add(!lookEq(gout.Look, wout.Look), "look")
	add(!iterEq(gout.Iter, wout.Iter), "iter")
	add(!getEq(gout.Get, wout.Get), "get")
	add((op == "New" || op == "NewF") && !bagEq(gout.Bag, wout.Bag), "lost")
	add(!seqEq(gout.Dropped, wout.Dropped), "dropped")
	add((op == "Filter" || op == "Merge") && !seqEq(gout.Orig, wout.Orig), "orig")
	add(!seqEq(gout.Merged, wout.Merged), "merged")
	add(gout.SelfEq != wout.SelfEq, "selfeq")
	add(gout.Eq != wout.Eq, "eq")
	add(gout.EncEq != wout.EncEq, "enc-across-routes")
	add(gout.JSONEq != wout.JSONEq, "json-across-routes")
	add(!tableEq(got.Table, want.Table), "table")
	return d
}

func stateKey(raw []byte) string { return vh.Canon(raw) }

func replay(args []string) {
	fs := flag.NewFlagSet("replay", flag.ExitOnError)
	edgesF := fs.String("edges", "", "")
	nkeys := fs.Int("nkeys", 2, "")
	rep := fs.Int("rep", 0, "key representative table")
	out := fs.String("out", "result.json", "")
	sample := fs.Int("sample", 0, "replay only every k-th edge offset by seed (0 = all)")
	fs.Parse(args)
	km := newKeyMap(mcKeys(*rep, *nkeys))

	f, err := os.Open(*edgesF)
	vh.Must(err)
	defer f.Close()
	sc := bufio.NewScanner(f)
	sc.Buffer(make([]byte, 1<<20), 1<<28)
	var edges []edge
	var fromKeys, toKeys []string
	parent := map[string]int{} // state key -> tree edge reaching it (-1 = initial)
	for sc.Scan() {
		line := bytes.TrimSpace(sc.Bytes())
		if len(line) == 0 {
			continue
		}
		var e edge
		vh.Must(json.Unmarshal(line, &e))
		fk := stateKey(e.From)
		if len(edges) == 0 {
			parent[fk] = -1
		}
		vh.Must(json.Unmarshal(e.To, &e.to))
		edges = append(edges, e)
		fromKeys = append(fromKeys, fk)
		toKeys = append(toKeys, stateKey(e.To))
	}
	if len(edges) == 0 {
		vh.Must(fmt.Errorf("no edges in %s", *edgesF))
	}
	for i := range edges {
		if _, ok := parent[fromKeys[i]]; !ok {
			continue
		}
		if _, ok := parent[toKeys[i]]; !ok {
			parent[toKeys[i]] = i
		}
	}
	path := func(i int) ([]Act, bool) {
		k := fromKeys[i]
		var rev []Act
		for n := 0; ; n++ {
			p, ok := parent[k]
			if !ok || n > 100000 {
				return nil, false
			}
			if p < 0 {
				break
			}
			rev = append(rev, edges[p].Act)
			k = fromKeys[p]
		}
		acts := make([]Act, 0, len(rev)+1)
		for j := len(rev) - 1; j >= 0; j-- {
			acts = append(acts, rev[j])
		}
		return acts, true
	}

	res := vh.NewResult()
	for i, e := range edges {
		res.Evaluations++
		if *sample > 1 && (int64(i)+vh.Seed())%int64(*sample) != 0 {
			continue
		}
		acts, ok := path(i)
		if !ok {
			res.Inconcl(fmt.Sprintf("edge %d: source not reachable in BFS tree", i))
			continue
		}
		acts = append(acts, e.Act)
		got, gout, incons, pan := runActs(km, i+int(vh.Seed()), acts, *nkeys)
		res.Executed++
		nanAny := hasNanSlice(e.to.Cur, e.to.Pend, e.Out.Bag, e.Out.Orig) || tableHasNan(e.to.Table)
		mk := func(why, detail string) {
			// nan_f64slice: does a Set whose identity is being judged hold a float slice with NaN
			nan := false
			switch why {
			case "selfeq":
				nan = hasNanSlice(e.to.Cur)
			case "eq":
				nan = hasNanSlice(e.to.Cur)
				why = "eq-spurious"
				if e.Out.Eq && !gout.Eq {
					why = "eq-missed"
				}
			case "table":
				nan = tableHasNan(e.to.Table)
				why = "table-merge"
				if len(got.Table) > len(e.to.Table) {
					why = "table-split"
				}
			}
			key := fmt.Sprintf("mm:%s|%s|nan=%v", why, e.Act.Op, nan)
			res.Count(key, 1)
			if res.Counters[key] > 3 {
				return
			}
			res.AddMismatch(vh.Mismatch{Kind: why, Case: map[string]any{"why": why, "op": e.Act.Op, "nan_f64slice": nan},
				Path: acts[:len(acts)-1], Act: e.Act, Want: map[string]any{"st": e.to, "out": e.Out},
				Got: map[string]any{"st": got, "out": gout}, Detail: detail})
		}
		switch {
		case pan != nil:
			mk("panic", fmt.Sprint(pan))
		case len(incons) > 0:
			mk("accessors", incons[0])
		default:
			for _, d := range diff(got, gout, e.to, e.Out, e.Act.Op) {
				mk(d, "")
			}
		}
		res.Count("op_"+e.Act.Op, 1)
		// vacuity per distinct-count: which array sizes did the constructors / Filter produce (real Len)
		switch e.Act.Op {
		case "New", "NewF", "Filter":
			res.Count(fmt.Sprintf("size_%s_%d", e.Act.Op, gout.Len), 1)
			if len(gout.Dropped) > 0 {
				res.Count(fmt.Sprintf("size_%sDrop_%d", e.Act.Op, gout.Len), 1)
			}
			if e.Act.P != nil && (e.Act.P.Kind == "allow" || e.Act.P.Kind == "deny") {
				res.Count(fmt.Sprintf("fkeys_%s_%s_%d", e.Act.Op, e.Act.P.Kind, len(e.Act.P.Ks)), 1)
			}
		case "Twin":
			res.Count(fmt.Sprintf("twin_%s_%d_%d", e.Act.A.T, e.Act.R1, e.Act.R2), 1)
			res.Count("twins", 1)
		}
		if nanAny {
			res.Count("edges_with_nan_f64slice", 1)
		}
		if len(e.Out.Dropped) > 0 {
			res.Count("edges_with_dropped", 1)
		}
		if len(e.to.Table) > 1 {
			res.Count("edges_with_table_gt1", 1)
		}
		if len(e.Out.Bag) > len(e.to.Cur)+len(e.Out.Dropped) {
			res.Count("edges_with_superseded", 1)
		}
		if i%1499 == 0 {
			res.Sample(map[string]any{"acts": acts, "to": e.to})
		}
	}
	vh.Must(res.Write(*out))
}

func tableHasNan(t []TEntry) bool {
	for _, e := range t {
		if hasNanSlice(e.S) {
			return true
		}
	}
	return false
}

func runActs(km *keyMap, variant int, acts []Act, nkeys int) (st St, out Out, incons []string, panicked any) {
	defer func() {
		if r := recover(); r != nil {
			panicked = r
		}
	}()
	m := newMachine(km, variant)
	for _, a := range acts {
		m.incons = nil
		out = m.step(a, nkeys)
	}
	return m.project(nkeys), out, m.incons, nil
}
