// c05: conformance harness for AttrSet.tla / AttrModel.tla (property C05).
//
//	c05 replay -edges F -nkeys K -rep N -out R     replay every TLC edge on the real attribute package
//	c05 iter -edges F -nkeys K -rep N -out R       replay every TLC edge of AttrIter.tla on real iterators
//	c05 random -n N -long L -out TRACE -res R      random programs -> ndjson trace for Trace_AttrSet.tla
//	c05 conc -g G -out TRACE -res R                goroutines sharing immutable Sets -> trace for Trace_AttrSet.tla
package main

import (
	"encoding/json"
	"fmt"
	"os"
)

func main() {
	if len(os.Args) < 2 {
		fmt.Println("usage: c05 replay|iter|random|conc ...")
		os.Exit(3)
	}
	switch os.Args[1] {
	case "replay":
		replay(os.Args[2:])
	case "routes": // number of constructor routes per type (NRoutes of AttrSet.tla)
		m := map[string]int{}
		for _, t := range routeTypes {
			m[t] = nRoutes(t)
		}
		b, _ := json.Marshal(m)
		fmt.Println(string(b))
	case "iter":
		iterReplay(os.Args[2:])
	case "random":
		random(os.Args[2:])
	case "conc":
		conc(os.Args[2:])
	default:
		os.Exit(3)
	}
}
