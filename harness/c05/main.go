// c05: conformance harness for AttrSet.tla / AttrModel.tla (property C05).
//
//	c05 replay -edges F -nkeys K -rep N -out R     replay every TLC edge on the real attribute package
//	c05 random -n N -long L -out TRACE -res R      random programs -> ndjson trace for Trace_AttrSet.tla
package main

import (
	"fmt"
	"os"
)

func main() {
	if len(os.Args) < 2 {
		fmt.Println("usage: c05 replay|random ...")
		os.Exit(3)
	}
	switch os.Args[1] {
	case "replay":
		replay(os.Args[2:])
	case "random":
		random(os.Args[2:])
	default:
		os.Exit(3)
	}
}
