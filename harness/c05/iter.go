package main

// spec -> code for iterator histories: replay every TLC edge of AttrIter.tla on real
// attribute.Iterator / attribute.MergeIterator values and compare every return value with the
// set of return values the specification admits for that call.

import (
	"bufio"
	"bytes"
	"encoding/json"
	"flag"
	"fmt"
	"os"

	"go.opentelemetry.io/otel/attribute"
	"go.opentelemetry.io/otel/sdk/verifh/vh"
)

// Ret is the uniform shape of a return value (see Ret0 in AttrIter.tla).
type Ret struct {
	B bool    `json:"b"`
	I int     `json:"i"`
	A []AAttr `json:"a"`
	N int     `json:"n"`
	S []AAttr `json:"s"`
}

func ret0() Ret { return Ret{I: -1, N: -1, A: []AAttr{}, S: []AAttr{}} }

func retEq(a, b Ret) bool {
	return a.B == b.B && a.I == b.I && a.N == b.N && seqEq(a.A, b.A) && seqEq(a.S, b.S)
}

type ItSt struct {
	Kind string  `json:"kind"`
	A    []AAttr `json:"a"`
	B    []AAttr `json:"b"`
	P    []int   `json:"P"`
}
type IterSt struct {
	Its []ItSt `json:"its"`
	N   int    `json:"n"`
}
type IterAct struct {
	Op  string `json:"op"`
	It  int    `json:"it"`
	How string `json:"how,omitempty"`
	Ret *Ret   `json:"ret,omitempty"`
}
type iterEdge struct {
	From json.RawMessage `json:"from"`
	Act  IterAct         `json:"act"`
	To   json.RawMessage `json:"to"`
	Out  []Ret           `json:"out"`
	to   IterSt
}

// realIt is one iterator variable of the program under test.
type realIt struct {
	merge bool
	a, b  *attribute.Set // heap copies: the iterator keeps pointing at them
	it    attribute.Iterator
	mi    attribute.MergeIterator
}

func buildSet(km *keyMap, as []AAttr, variant int) *attribute.Set {
	kvs := make([]attribute.KeyValue, len(as))
	for i, a := range as {
		kvs[i] = km.concrete(a, variant+i)
	}
	// feed the constructor in reverse order: the Set has to come out sorted anyway
	for i, j := 0, len(kvs)-1; i < j; i, j = i+1, j-1 {
		kvs[i], kvs[j] = kvs[j], kvs[i]
	}
	s := new(attribute.Set)
	if len(kvs) == 0 {
		*s = emptyVariant(variant)
	} else {
		*s = attribute.NewSet(kvs...)
	}
	return s
}

func openIt(km *keyMap, st ItSt, variant int) *realIt {
	r := &realIt{merge: st.Kind == "merge", a: buildSet(km, st.A, variant)}
	if r.merge {
		r.b = buildSet(km, st.B, variant+1)
		r.mi = attribute.NewMergeIterator(r.a, r.b)
	} else {
		r.it = r.a.Iter()
	}
	return r
}

// call performs one call on the real iterator and projects its return value.
func (r *realIt) call(km *keyMap, op, how string) Ret {
	o := ret0()
	switch op {
	case "Next":
		if r.merge {
			o.B = r.mi.Next()
		} else {
			o.B = r.it.Next()
		}
	case "Len":
		o.N = r.it.Len()
	case "ToSlice":
		sl := r.it.ToSlice()
		o.S = km.abstractAll(sl)
		scribble(sl)
	case "Attr":
		var kv attribute.KeyValue
		switch {
		case r.merge && how == "Attribute":
			kv = r.mi.Attribute()
		case r.merge && how == "Label":
			kv = r.mi.Label()
		case how == "Attribute":
			kv = r.it.Attribute()
		case how == "Label":
			kv = r.it.Label()
		case how == "IndexedAttribute":
			o.I, kv = r.it.IndexedAttribute()
		case how == "IndexedLabel":
			o.I, kv = r.it.IndexedLabel()
		default:
			panic("unknown accessor " + how)
		}
		o.A = []AAttr{km.abstract(kv)}
	default:
		panic("unknown iterator call " + op)
	}
	return o
}

func iterReplay(args []string) {
	fs := flag.NewFlagSet("iter", flag.ExitOnError)
	edgesF := fs.String("edges", "", "")
	nkeys := fs.Int("nkeys", 4, "")
	rep := fs.Int("rep", 0, "key representative table")
	out := fs.String("out", "result.json", "")
	fs.Parse(args)
	km := newKeyMap(mcKeys(*rep, *nkeys))

	f, err := os.Open(*edgesF)
	vh.Must(err)
	defer f.Close()
	sc := bufio.NewScanner(f)
	sc.Buffer(make([]byte, 1<<20), 1<<28)
	var edges []iterEdge
	var fromKeys, toKeys []string
	parent := map[string]int{}
	for sc.Scan() {
		line := bytes.TrimSpace(sc.Bytes())
		if len(line) == 0 {
			continue
		}
		var e iterEdge
		vh.Must(json.Unmarshal(line, &e))
		vh.Must(json.Unmarshal(e.To, &e.to))
		fk := stateKey(e.From)
		if len(edges) == 0 {
			parent[fk] = -1
		}
		edges = append(edges, e)
		fromKeys = append(fromKeys, fk)
		toKeys = append(toKeys, stateKey(e.To))
	}
	if len(edges) == 0 {
		vh.Must(fmt.Errorf("no edges in %s", *edgesF))
	}
	for i := range edges {
		if _, ok := parent[fromKeys[i]]; !ok {
			continue
		}
		if _, ok := parent[toKeys[i]]; !ok {
			parent[toKeys[i]] = i
		}
	}
	path := func(i int) ([]int, bool) {
		k := fromKeys[i]
		var rev []int
		for n := 0; ; n++ {
			p, ok := parent[k]
			if !ok || n > 100000 {
				return nil, false
			}
			if p < 0 {
				break
			}
			rev = append(rev, p)
			k = fromKeys[p]
		}
		for a, b := 0, len(rev)-1; a < b; a, b = a+1, b-1 {
			rev[a], rev[b] = rev[b], rev[a]
		}
		return rev, true
	}

	res := vh.NewResult()
	for i, e := range edges {
		res.Evaluations++
		pth, ok := path(i)
		if !ok {
			res.Inconcl(fmt.Sprintf("iter edge %d: source not reachable in BFS tree", i))
			continue
		}
		pth = append(pth, i)
		var acts []IterAct
		its := map[int]*realIt{}
		feasible := true
		var got Ret
		var pan any
		func() {
			defer func() {
				if r := recover(); r != nil {
					pan = r
				}
			}()
			for n, ei := range pth {
				pe := edges[ei]
				acts = append(acts, pe.Act)
				last := n == len(pth)-1
				switch pe.Act.Op {
				case "Open", "OpenMerge":
					its[pe.Act.It] = openIt(km, pe.to.Its[pe.Act.It-1], i+int(vh.Seed()))
					continue
				}
				got = its[pe.Act.It].call(km, pe.Act.Op, pe.Act.How)
				if !last && !retEq(got, *pe.Act.Ret) {
					// the real code took another of the admitted alternatives (or left them: that is
					// reported where that earlier edge itself is replayed): this branch cannot be followed
					feasible = false
					return
				}
			}
		}()
		res.Executed++
		if !feasible {
			res.Count("iter_branch_not_taken_by_code", 1)
			continue
		}
		res.Count("iterop_"+e.Act.Op+e.Act.How, 1)
		if len(e.Out) > 1 {
			res.Count("iter_edges_with_alternatives", 1)
		}
		nOpen := 0
		for _, s := range e.to.Its {
			if s.Kind != "none" {
				nOpen++
			}
		}
		if nOpen > 1 {
			res.Count("iter_edges_two_iterators", 1)
		}
		mk := func(why, detail string) {
			key := "mm:" + why + "|" + e.Act.Op
			res.Count(key, 1)
			if res.Counters[key] > 3 {
				return
			}
			res.AddMismatch(vh.Mismatch{Kind: why, Case: map[string]any{"why": why, "op": e.Act.Op + e.Act.How, "nan_f64slice": false},
				Path: acts[:len(acts)-1], Act: e.Act, Want: map[string]any{"admitted": e.Out, "st": e.to}, Got: got, Detail: detail})
		}
		if pan != nil {
			mk("panic", fmt.Sprint(pan))
			continue
		}
		if e.Act.Op == "Open" || e.Act.Op == "OpenMerge" {
			continue
		}
		admitted := false
		for _, w := range e.Out {
			if retEq(got, w) {
				admitted = true
			}
		}
		if !admitted {
			why := map[string]string{"Next": "next", "Attr": "attr", "Len": "len", "ToSlice": "toslice"}[e.Act.Op]
			if e.to.Its[e.Act.It-1].Kind == "merge" {
				why = "merge-" + why
			} else {
				why = "iter-" + why
			}
			mk(why, "")
		}
		// which histories precede a ToSlice (vacuity)
		if e.Act.Op == "ToSlice" {
			nexts, slices := 0, 0
			for _, a := range acts[:len(acts)-1] {
				if a.It == e.Act.It && a.Op == "Next" {
					nexts++
				}
				if a.It == e.Act.It && a.Op == "ToSlice" {
					slices++
				}
			}
			if nexts > 0 {
				res.Count("toslice_after_next", 1)
			}
			if slices > 0 {
				res.Count("toslice_after_toslice", 1)
			}
		}
		if i%997 == 0 {
			res.Sample(map[string]any{"acts": acts, "got": got, "admitted": e.Out})
		}
	}
	vh.Must(res.Write(*out))
}
