package main

// code -> spec: seeded random programs over the real attribute package, logged as ndjson
// (abstract operation + projected observation) for validation by Trace_AttrSet.tla.

import (
	"encoding/json"
	"flag"
	"fmt"
	"math/rand"
	"sort"
	"strconv"
	"strings"

	"go.opentelemetry.io/otel/attribute"
	"go.opentelemetry.io/otel/sdk/verifh/vh"
)

var allTypes = []string{"bool", "i64", "f64", "str", "bools", "i64s", "f64s", "strs"}

func pick(r *rand.Rand, xs ...string) string { return xs[r.Intn(len(xs))] }

func floatAtom(r *rand.Rand) string {
	switch n := r.Intn(100); {
	case n < 8:
		return "nan"
	case n < 20:
		return "p0"
	case n < 32:
		return "n0"
	case n < 36:
		return "nan2"
	}
	return pick(r, "1", "-1.5", "inf", "-inf", "1e+308", "5e-324", "2", "0.1", "-1")
}

func intAtom(r *rand.Rand) string {
	return pick(r, "0", "1", "-1", "42", "9223372036854775807", "-9223372036854775808", "2", "7")
}

func strAtom(r *rand.Rand) string {
	if r.Intn(25) == 0 {
		return strings.Repeat(pick(r, "a", "b7", "xyz"), 200+r.Intn(400))
	}
	return strTab[r.Intn(len(strTab))].Raw
}

func sliceLen(r *rand.Rand, long bool) int {
	if long && r.Intn(3) == 0 {
		return 1500 + r.Intn(3000)
	}
	switch r.Intn(6) {
	case 0:
		return 0
	case 1:
		return 1
	}
	return 1 + r.Intn(4)
}

func genVal(r *rand.Rand, long bool) AVal {
	t := allTypes[r.Intn(len(allTypes))]
	v := AVal{T: t, X: []string{}}
	one := func() string {
		switch t {
		case "bool", "bools":
			return pick(r, "T", "F")
		case "i64", "i64s":
			return intAtom(r)
		case "f64", "f64s":
			return floatAtom(r)
		}
		return strAtom(r)
	}
	if strings.HasSuffix(t, "s") {
		n := sliceLen(r, long)
		for i := 0; i < n; i++ {
			v.X = append(v.X, one())
		}
	} else {
		v.X = []string{one()}
	}
	return v
}

func valKey(t string, x []string) string { return t + "\x00" + strings.Join(x, "\x01") }

// text the default encoder must write for a value: the escaped string for STRING (authored
// table), Value.Emit() of the free-standing value otherwise.
func valText(v AVal) string {
	if v.T == "str" {
		e, ok := strEsc(v.X[0])
		if !ok {
			panic("no authored escape for " + v.X[0])
		}
		return e
	}
	return concreteValue(v.T, v.X, 0).Emit()
}

// text Set.MarshalLog must report for a value: Value.Emit() of the free-standing value (the
// string itself for STRING).
func rawText(v AVal) string {
	if v.T == "str" {
		return v.X[0]
	}
	return concreteValue(v.T, v.X, 0).Emit()
}

type item struct {
	k int // rank
	v int // pool index
}

func genPred(r *rand.Rand, K int) Pred {
	p := Pred{Ks: []int{}, Ts: []string{}}
	switch n := r.Intn(100); {
	case n < 15:
		p.Kind = "nil"
	case n < 25:
		p.Kind = "all"
	case n < 35:
		p.Kind = "none"
	case n < 60:
		p.Kind = "allow"
	case n < 85:
		p.Kind = "deny"
	default:
		p.Kind = "type"
	}
	if p.Kind == "allow" || p.Kind == "deny" {
		n := r.Intn(K + 2)
		for i := 0; i < n; i++ {
			p.Ks = append(p.Ks, 1+r.Intn(K))
		}
	}
	if p.Kind == "type" {
		n := r.Intn(5)
		for i := 0; i < n; i++ {
			p.Ts = append(p.Ts, allTypes[r.Intn(len(allTypes))])
		}
	}
	return p
}

// stableVariant returns a list with the same Canon: items are shuffled but the relative order
// of items with the same key is kept; superseded duplicates may be injected; the whole list may
// be repeated.
func stableVariant(r *rand.Rand, l []item, npool int) []item {
	n := len(l)
	out := make([]item, n)
	perm := r.Perm(n)
	byKey := map[int][]int{} // key -> destination positions
	for i, it := range l {
		byKey[it.k] = append(byKey[it.k], perm[i])
	}
	for _, ps := range byKey {
		sort.Ints(ps)
	}
	next := map[int]int{}
	for _, it := range l {
		out[byKey[it.k][next[it.k]]] = it
		next[it.k]++
	}
	if n > 0 {
		for d := r.Intn(4); d > 0; d-- {
			src := out[r.Intn(len(out))]
			last := 0
			for i, it := range out {
				if it.k == src.k {
					last = i
				}
			}
			pos := r.Intn(last + 1)
			dup := item{k: src.k, v: r.Intn(npool)}
			out = append(out[:pos], append([]item{dup}, out[pos:]...)...)
		}
		if r.Intn(6) == 0 {
			out = append(append([]item{}, out...), out...)
		}
	}
	return out
}

type scen struct {
	r     *rand.Rand
	sc    int
	km    *keyMap
	K     int
	pool  []AVal
	regs  [5]attribute.Set
	lists [][]item
	tab   map[attribute.Distinct]*tabEntry
	tw    *vh.TraceWriter
	res   *vh.Result
	ghost []attribute.Key
	its   [nIts + 1]*randIt // iterator variables 1..nIts
	sink  func(ev map[string]any) // where events go (nil: straight to the trace)
}

const (
	nRegs = 4 // Set registers of a sequential scenario
	nIts  = 6 // iterator variables (NI in Trace_AttrSet.tla)
)

// randIt is one iterator variable of a random program.
type randIt struct {
	realIt
	n        int  // Len of the iterated sequence (to size walks; never used to judge)
	lastTrue bool // the last Next returned true and no ToSlice since: Attribute is defined
	falses   int  // Next calls that returned false (an exhausted iterator is soon replaced)
}

func (s *scen) absList(l []item) []AAttr {
	out := make([]AAttr, len(l))
	for i, it := range l {
		out[i] = AAttr{K: it.k, T: s.pool[it.v].T, X: s.pool[it.v].X}
	}
	return out
}

func (s *scen) genList(long bool) []item {
	r := s.r
	mode := r.Intn(10)
	if len(s.lists) > 0 && mode < 3 {
		return stableVariant(r, s.lists[r.Intn(len(s.lists))], len(s.pool))
	}
	if len(s.lists) > 0 && mode < 5 { // near miss: same Canon except one more item at the end
		l := stableVariant(r, s.lists[r.Intn(len(s.lists))], len(s.pool))
		return append(l, item{k: 1 + r.Intn(s.K), v: r.Intn(len(s.pool))})
	}
	var n int
	switch {
	case long:
		n = 150 + r.Intn(350)
	case r.Intn(12) == 0:
		n = 0
	case r.Intn(3) == 0:
		n = 1 + r.Intn(s.K)
	default:
		n = s.K + r.Intn(2*s.K+3)
	}
	l := make([]item, n)
	for i := range l {
		l[i] = item{k: 1 + r.Intn(s.K), v: r.Intn(len(s.pool))}
	}
	return l
}

func (s *scen) emit(ev map[string]any) {
	ev["sc"] = s.sc
	if s.sink != nil {
		s.sink(ev)
		return
	}
	s.tw.Emit(ev)
}

func (s *scen) countLen(n int) {
	switch {
	case n == 0:
		s.res.Count("sets_len_0", 1)
	case n <= 8:
		s.res.Count("sets_len_1_8", 1)
	case n <= 10:
		s.res.Count("sets_len_9_10_fixed", 1)
	case n <= 12:
		s.res.Count("sets_len_11_12_reflect", 1)
	default:
		s.res.Count("sets_len_13_up", 1)
	}
}

func (s *scen) build(long bool) {
	r := s.r
	dst := 1 + r.Intn(nRegs)
	l := s.genList(long)
	how := pick(r, "NewSet", "NewSet", "Sortable", "Filtered", "Filtered", "SortableFiltered")
	if len(l) == 0 && r.Intn(2) == 0 {
		how = pick(r, "Zero", "EmptySet")
	}
	p := Pred{Kind: "nil", Ks: []int{}, Ts: []string{}}
	if how == "Filtered" || how == "SortableFiltered" {
		p = genPred(r, s.K)
	}
	s.regs[dst] = s.buildWith(r, dst, l, how, p, "")
	s.lists = append(s.lists, l)
}

// buildWith constructs a Set from the abstract list through the named constructor, records the
// Build event (Set contents, the caller's slice after the call, the removed attributes) and
// returns the Set.  Everything random comes from r (the concurrent phase passes its own).
func (s *scen) buildWith(r *rand.Rand, dst int, l []item, how string, p Pred, tag string) attribute.Set {
	abs := s.absList(l)
	kvs := make([]attribute.KeyValue, len(l))
	for i, a := range abs {
		kvs[i] = s.km.concrete(a, r.Intn(1<<16)) // any constructor route
	}
	if len(kvs) == 0 && r.Intn(2) == 0 {
		kvs = nil
	}
	var set attribute.Set
	var dropped []attribute.KeyValue
	var tmp attribute.Sortable
	switch how {
	case "NewSet":
		set = attribute.NewSet(kvs...)
	case "Sortable":
		set = attribute.NewSetWithSortable(kvs, &tmp)
	case "Filtered":
		set, dropped = attribute.NewSetWithFiltered(kvs, s.km.filter(p))
	case "SortableFiltered":
		set, dropped = attribute.NewSetWithSortableFiltered(kvs, &tmp, s.km.filter(p))
	case "Zero":
		set = attribute.Set{}
	case "EmptySet":
		set = *attribute.EmptySet()
	}
	s.countLen(set.Len())
	route := map[string]string{"NewSet": "New", "Sortable": "New", "Filtered": "NewF", "SortableFiltered": "NewF"}[how]
	if route != "" {
		s.res.Count(fmt.Sprintf("%ssize_%s_%d", tag, route, set.Len()), 1)
		if len(dropped) > 0 {
			s.res.Count(fmt.Sprintf("%ssize_%sDrop_%d", tag, route, set.Len()), 1)
		}
	}
	if len(l) > 100 {
		s.res.Count("long_lists", 1)
	}
	if len(dropped) > 0 {
		s.res.Count("builds_with_dropped", 1)
	}
	if len(l) > set.Len()+len(dropped) {
		s.res.Count("builds_with_superseded", 1)
	}
	obs := map[string]any{"after": s.km.abstractAll(kvs), "dropped": s.km.abstractAll(dropped)}
	// the caller re-uses its slice and the returned list of removed attributes: the Set is immutable
	scribble(kvs)
	scribble(dropped)
	obs["slice"], obs["len"], obs["selfEq"] = s.km.abstractAll(set.ToSlice()), set.Len(), selfEqual(&set)
	if p.Kind == "allow" || p.Kind == "deny" {
		s.res.Count(fmt.Sprintf("%sfkeys_NewF_%s_%d", tag, p.Kind, len(p.Ks)), 1)
	}
	s.emit(map[string]any{"ev": "Build", "dst": dst, "how": how, "list": abs, "pred": p, "obs": obs})
	return set
}

// twin builds the same key -> typed value mapping twice, through independently chosen
// constructor routes, orders and duplications, then compares the two Sets and records both in
// the StreamTable: the model says Equal, one entry (judged by TLC as any Cmp / Record / Obs).
func (s *scen) twin() {
	r := s.r
	var l []item
	if len(s.lists) > 0 && r.Intn(3) > 0 {
		l = s.lists[r.Intn(len(s.lists))]
	} else {
		for n := r.Intn(s.K + 2); n > 0; n-- {
			l = append(l, item{k: 1 + r.Intn(s.K), v: r.Intn(len(s.pool))})
		}
	}
	nilp := Pred{Kind: "nil", Ks: []int{}, Ts: []string{}}
	a := 1 + r.Intn(nRegs)
	b := 1 + (a+r.Intn(nRegs-1))%nRegs
	s.regs[a] = s.buildWith(r, a, l, pick(r, "NewSet", "Sortable"), nilp, "")
	s.regs[b] = s.buildWith(r, b, stableVariant(r, l, len(s.pool)), pick(r, "NewSet", "Sortable"), nilp, "")
	// stableVariant may add superseded duplicates only: same mapping
	s.cmpWith(a, b, &s.regs[a], &s.regs[b], "twin_")
	for _, src := range []int{a, b} {
		s.recordReg(src)
	}
	s.obsWith(b, &s.regs[b])
	s.res.Count("twins", 1)
}

func (s *scen) filter() {
	src, dst := 1+s.r.Intn(nRegs), 1+s.r.Intn(nRegs)
	kept := s.filterWith(src, dst, &s.regs[src], genPred(s.r, s.K), "")
	s.regs[dst] = kept
}

// filterWith applies Set.Filter to *orig and records the Filter event (kept Set, removed list,
// the original afterwards).  orig is only read.
func (s *scen) filterWith(src, dst int, orig *attribute.Set, p Pred, tag string) attribute.Set {
	kept, dropped := orig.Filter(s.km.filter(p))
	if len(dropped) > 0 {
		s.res.Count(tag+"filters_with_dropped", 1)
		s.res.Count(fmt.Sprintf("%ssize_FilterDrop_%d", tag, kept.Len()), 1)
	}
	s.res.Count(fmt.Sprintf("%ssize_Filter_%d", tag, kept.Len()), 1)
	if p.Kind == "allow" || p.Kind == "deny" {
		s.res.Count(fmt.Sprintf("%sfkeys_Filter_%s_%d", tag, p.Kind, len(p.Ks)), 1)
	}
	s.countLen(kept.Len())
	obs := map[string]any{"dropped": s.km.abstractAll(dropped)}
	scribble(dropped) // the removed list is the caller's; neither Set may notice
	obs["slice"], obs["orig"], obs["selfEq"] = s.km.abstractAll(kept.ToSlice()), s.km.abstractAll(orig.ToSlice()), selfEqual(&kept)
	s.emit(map[string]any{"ev": "Filter", "src": src, "dst": dst, "pred": p, "obs": obs})
	return kept
}

func (s *scen) merge() {
	a, b := 1+s.r.Intn(nRegs), 1+s.r.Intn(nRegs)
	s.mergeWith(a, b, &s.regs[a], &s.regs[b])
}

func (s *scen) mergeWith(a, b int, sa, sb *attribute.Set) {
	mi := attribute.NewMergeIterator(sa, sb)
	merged := []attribute.KeyValue{}
	for mi.Next() {
		merged = append(merged, mi.Attribute())
	}
	s.emit(map[string]any{"ev": "Merge", "a": a, "b": b, "obs": map[string]any{"seq": s.km.abstractAll(merged)}})
}

func (s *scen) record() {
	s.recordReg(1 + s.r.Intn(nRegs))
}

func (s *scen) recordReg(src int) {
	d := s.regs[src].Equivalent()
	var idx int
	if e, ok := s.tab[d]; ok {
		e.n++
		idx = e.ord + 1
		s.res.Count("record_hits", 1)
	} else {
		s.tab[d] = &tabEntry{set: s.regs[src], n: 1, ord: len(s.tab)}
		idx = len(s.tab)
		s.res.Count("record_new", 1)
	}
	s.emit(map[string]any{"ev": "Record", "src": src, "obs": map[string]any{"idx": idx, "size": len(s.tab)}})
}

func (s *scen) cmp() {
	a, b := 1+s.r.Intn(nRegs), 1+s.r.Intn(nRegs)
	s.cmpWith(a, b, &s.regs[a], &s.regs[b], "")
}

func (s *scen) cmpWith(a, b int, sa, sb *attribute.Set, tag string) {
	eq := sa.Equals(sb)
	if eq {
		s.res.Count(tag+"cmp_equal", 1)
	} else {
		s.res.Count(tag+"cmp_unequal", 1)
	}
	s.emit(map[string]any{"ev": "Cmp", "a": a, "b": b, "obs": map[string]any{
		"eq": eq, "eqr": sb.Equals(sa), "key": sa.Equivalent() == sb.Equivalent()}})
}

func (s *scen) obs() {
	src := 1 + s.r.Intn(nRegs)
	s.obsWith(src, &s.regs[src])
}

func (s *scen) obsWith(src int, set *attribute.Set) {
	m := &machine{km: s.km}
	var o Out
	m.observe(set, s.K, &o)
	ghost := len(m.incons) > 0
	for _, k := range s.ghost {
		if _, ok := set.Value(k); ok || set.HasValue(k) {
			ghost = true
		}
	}
	mj := s.marshalJSON(set)
	if mj["err"].(bool) {
		s.res.Count("marshal_json_refused", 1)
	} else {
		s.res.Count("marshal_json_decoded", 1)
	}
	s.emit(map[string]any{"ev": "Obs", "src": src, "obs": map[string]any{
		"slice": s.km.abstractAll(set.ToSlice()), "len": o.Len, "iter": o.Iter, "look": o.Look, "get": o.Get, "ghost": ghost,
		"enc": set.Encoded(attribute.DefaultEncoder()), "selfEq": o.SelfEq,
		"mlog": s.marshalLog(set), "mjson": mj}})
}

// marshalLog projects Set.MarshalLog() (key -> Value.Emit() text) as [rank, text] pairs by rank.
func (s *scen) marshalLog(set *attribute.Set) []map[string]any {
	out := []map[string]any{}
	m, ok := set.MarshalLog().(map[string]string)
	if !ok {
		return append(out, map[string]any{"k": -2, "v": "MarshalLog did not return map[string]string"})
	}
	for k, v := range m {
		r, known := s.km.rank[k]
		if !known {
			r = -1
		}
		out = append(out, map[string]any{"k": r, "v": v})
	}
	sort.Slice(out, func(i, j int) bool { return out[i]["k"].(int) < out[j]["k"].(int) })
	return out
}

// marshalJSON decodes Set.MarshalJSON() back into abstract attributes (err: it returned an error).
func (s *scen) marshalJSON(set *attribute.Set) map[string]any {
	fail := func(why string) map[string]any {
		return map[string]any{"err": false, "attrs": []AAttr{{K: -2, T: why, X: []string{}}}}
	}
	b, err := set.MarshalJSON()
	if err != nil {
		return map[string]any{"err": true, "attrs": []AAttr{}}
	}
	var kvs []struct {
		Key   string
		Value struct {
			Type  string
			Value json.RawMessage
		}
	}
	if err := json.Unmarshal(b, &kvs); err != nil {
		return fail("undecodable JSON: " + err.Error())
	}
	tmap := map[string]string{"BOOL": "bool", "INT64": "i64", "FLOAT64": "f64", "STRING": "str",
		"BOOLSLICE": "bools", "INT64SLICE": "i64s", "FLOAT64SLICE": "f64s", "STRINGSLICE": "strs"}
	attrs := []AAttr{}
	for _, kv := range kvs {
		t, ok := tmap[kv.Value.Type]
		if !ok {
			return fail("unknown type " + kv.Value.Type)
		}
		a := AAttr{K: -1, T: t, X: []string{}}
		if r, known := s.km.rank[kv.Key]; known {
			a.K = r
		}
		var raws []json.RawMessage
		if strings.HasSuffix(t, "s") {
			if err := json.Unmarshal(kv.Value.Value, &raws); err != nil {
				return fail("slice value is not a JSON array")
			}
		} else {
			raws = []json.RawMessage{kv.Value.Value}
		}
		for _, raw := range raws {
			switch t {
			case "bool", "bools":
				var v bool
				if json.Unmarshal(raw, &v) != nil {
					return fail("not a bool")
				}
				a.X = append(a.X, map[bool]string{true: "T", false: "F"}[v])
			case "i64", "i64s":
				var n json.Number
				if json.Unmarshal(raw, &n) != nil {
					return fail("not a number")
				}
				a.X = append(a.X, n.String())
			case "f64", "f64s":
				var n json.Number
				if json.Unmarshal(raw, &n) != nil {
					return fail("not a number")
				}
				f, err := strconv.ParseFloat(n.String(), 64)
				if err != nil {
					return fail("not a float")
				}
				a.X = append(a.X, fToAtom(f))
			default:
				var v string
				if json.Unmarshal(raw, &v) != nil {
					return fail("not a string")
				}
				a.X = append(a.X, v)
			}
		}
		attrs = append(attrs, a)
	}
	return map[string]any{"err": false, "attrs": attrs}
}

func (s *scen) encWith(src int, set *attribute.Set) {
	s.emit(map[string]any{"ev": "Enc", "src": src, "obs": map[string]any{"enc": set.Encoded(attribute.DefaultEncoder())}})
}

// ---- iterator histories

// itOpen binds an iterator variable to a fresh Iterator over a register's Set (a heap copy: the
// register may be overwritten later, the Set the iterator walks is immutable) or to a
// MergeIterator over two of them.
func (s *scen) itOpen() {
	r := s.r
	slot, a, b := 1+r.Intn(nIts), 1+r.Intn(nRegs), 1+r.Intn(nRegs)
	kind := "set"
	if r.Intn(10) < 3 {
		kind = "merge"
	}
	s.its[slot] = s.openIt(slot, kind, a, b, &s.regs[a], &s.regs[b])
}

func (s *scen) openIt(slot int, kind string, a, b int, sa, sb *attribute.Set) *randIt {
	it := &randIt{}
	it.a, it.b = new(attribute.Set), new(attribute.Set)
	*it.a, *it.b = *sa, *sb
	if kind == "merge" {
		it.merge = true
		it.mi = attribute.NewMergeIterator(it.a, it.b)
		it.n = it.a.Len() + it.b.Len()
		s.res.Count("iter_open_merge", 1)
	} else {
		it.it = it.a.Iter()
		it.n = it.a.Len()
		s.res.Count("iter_open_set", 1)
	}
	s.emit(map[string]any{"ev": "ItOpen", "it": slot, "kind": kind, "a": a, "b": b})
	return it
}

// itCall performs one call and records it with its return value.
func (s *scen) itCall(slot int, it *randIt, op string) {
	cop, how := op, ""
	switch op {
	case "Attribute", "IndexedAttribute", "Label", "IndexedLabel":
		cop, how = "Attr", op
	}
	o := it.call(s.km, cop, how)
	switch op {
	case "Next":
		it.lastTrue = o.B
		if !o.B {
			it.falses++
			s.res.Count("iter_next_false", 1)
		}
	case "ToSlice":
		if it.lastTrue {
			s.res.Count("iter_toslice_midway", 1)
		}
		it.lastTrue = false
	}
	s.res.Count("iter_"+op, 1)
	s.emit(map[string]any{"ev": "ItOp", "it": slot, "op": op, "obs": o})
}

// pickItOp chooses the next call: accessors only where the documentation defines them.
func pickItOp(r *rand.Rand, it *randIt, sliceWeight int) string {
	n := r.Intn(100)
	switch {
	case !it.merge && n < sliceWeight:
		return "ToSlice"
	case !it.merge && n < sliceWeight+6:
		return "Len"
	case it.lastTrue && n < sliceWeight+6+35:
		if it.merge {
			return pick(r, "Attribute", "Attribute", "Label")
		}
		return pick(r, "Attribute", "IndexedAttribute", "IndexedAttribute", "Label", "IndexedLabel")
	}
	return "Next"
}

// itOps: a burst of calls spread over the open iterator variables (long enough to walk whole
// Sets, to run past the end, to take slices midway and more than once).
func (s *scen) itOps(big bool) {
	r := s.r
	var open []int
	for i := 1; i <= nIts; i++ {
		if s.its[i] != nil {
			open = append(open, i)
		}
	}
	if len(open) == 0 {
		s.itOpen()
		return
	}
	focus := open[r.Intn(len(open))]
	k := 2 + r.Intn(2*s.its[focus].n+8)
	sliceWeight := 8
	if big {
		sliceWeight = 1
	}
	for ; k > 0; k-- {
		slot := focus
		if r.Intn(4) == 0 {
			slot = open[r.Intn(len(open))]
		}
		s.itCall(slot, s.its[slot], pickItOp(r, s.its[slot], sliceWeight))
		if f := s.its[slot].falses; f >= 2 || f == 1 && r.Intn(2) == 0 {
			// walked past the end (twice): bind the variable to a new iterator
			a, b := 1+r.Intn(nRegs), 1+r.Intn(nRegs)
			kind := "set"
			if s.its[slot].merge {
				kind = "merge"
			}
			s.its[slot] = s.openIt(slot, kind, a, b, &s.regs[a], &s.regs[b])
		}
	}
}

// sweep drives every distinct-count 0..13 exactly through each constructor and through
// Set.Filter (the fixed-size array cases 1..10 and the reflective path beyond).
func (s *scen) sweep() {
	r := s.r
	top := 13
	if s.K < top {
		top = s.K
	}
	pv := func() int { return r.Intn(len(s.pool)) }
	// distinct: a list over exactly the given ranks with superseded duplicates, shuffled
	distinct := func(ranks []int) []item {
		l := []item{}
		for _, k := range ranks {
			for c := 1 + r.Intn(2)*r.Intn(3); c > 0; c-- {
				l = append(l, item{k: k, v: pv()})
			}
		}
		r.Shuffle(len(l), func(i, j int) { l[i], l[j] = l[j], l[i] })
		return l
	}
	nilp := Pred{Kind: "nil", Ks: []int{}, Ts: []string{}}
	for _, d := range r.Perm(top + 1) {
		dst := 1 + r.Intn(nRegs)
		ranks := r.Perm(s.K)
		for i := range ranks {
			ranks[i]++
		}
		s.regs[dst] = s.buildWith(r, dst, distinct(ranks[:d]), pick(r, "NewSet", "Sortable"), nilp, "")
		// filters naming exactly c keys, c sweeping 0..13 as well (allow: the d kept keys, so c = d;
		// deny: the removed keys padded with absent ones up to c)
		c := (5*d + 3) % 14
		for _, kind := range []string{"allow", "deny"} {
			r.Shuffle(len(ranks), func(i, j int) { ranks[i], ranks[j] = ranks[j], ranks[i] })
			n := d + r.Intn(s.K-d+1)
			p := Pred{Kind: kind, Ks: append([]int{}, ranks[:d]...), Ts: []string{}}
			if kind == "deny" {
				if n-d > c {
					n = d + c
				}
				p.Ks = append([]int{}, ranks[d:n]...)
				for len(p.Ks) < c {
					p.Ks = append(p.Ks, s.K+1+r.Intn(5))
				}
				r.Shuffle(len(p.Ks), func(i, j int) { p.Ks[i], p.Ks[j] = p.Ks[j], p.Ks[i] })
			}
			all := ranks[:n]
			dst = 1 + r.Intn(nRegs)
			s.regs[dst] = s.buildWith(r, dst, distinct(all), pick(r, "Filtered", "SortableFiltered"), p, "")
			src := 1 + r.Intn(nRegs)
			s.regs[src] = s.buildWith(r, src, distinct(all), "NewSet", nilp, "")
			dst = 1 + r.Intn(nRegs)
			s.regs[dst] = s.filterWith(src, dst, &s.regs[src], p, "")
		}
		if r.Intn(3) == 0 {
			s.obs()
		}
	}
	s.res.Count("sweeps", 1)
}

func pickK(r *rand.Rand) int {
	switch n := r.Intn(100); {
	case n < 25:
		return 1 + r.Intn(4)
	case n < 40:
		return 5 + r.Intn(4)
	case n < 80:
		return 9 + r.Intn(5)
	}
	return 14 + r.Intn(27)
}

// newScen chooses the key table and the value pool of one scenario and records its New event.
func newScen(r *rand.Rand, sc, K int, big bool, extra []AVal, nregs int, tw *vh.TraceWriter, res *vh.Result) *scen {
	s := &scen{r: r, sc: sc, tw: tw, res: res, tab: map[attribute.Distinct]*tabEntry{}}
	s.K = K
	idx := r.Perm(len(keyUniverse))[:s.K]
	sort.Ints(idx)
	if r.Intn(2) == 0 {
		idx[0] = 0 // the empty key
	}
	keys := make([]string, s.K)
	kesc := make([]string, s.K)
	chosen := map[int]bool{}
	for i, u := range idx {
		keys[i], kesc[i] = keyUniverse[u].Raw, keyUniverse[u].Esc
		chosen[u] = true
	}
	for u := range keyUniverse {
		if !chosen[u] && len(s.ghost) < 4 {
			s.ghost = append(s.ghost, attribute.Key(keyUniverse[u].Raw))
		}
	}
	s.ghost = append(s.ghost, "nonexistent", "~")
	s.km = newKeyMap(keys)
	seen := map[string]bool{}
	for n := 2 + r.Intn(9); len(s.pool) < n; {
		v := genVal(r, big)
		if k := valKey(v.T, v.X); !seen[k] {
			seen[k] = true
			v.E, v.R = valText(v), rawText(v)
			s.pool = append(s.pool, v)
		}
	}
	for _, v := range extra {
		if k := valKey(v.T, v.X); !seen[k] {
			seen[k] = true
			v.E, v.R = valText(v), rawText(v)
			s.pool = append(s.pool, v)
		}
	}
	for i := range s.regs {
		s.regs[i] = attribute.NewSet()
	}
	s.emit(map[string]any{"ev": "New", "kesc": kesc, "vals": s.pool, "keys": keys, "nregs": nregs})
	return s
}

func scenario(r *rand.Rand, sc int, long, big, sweep bool, tw *vh.TraceWriter, res *vh.Result) {
	K := pickK(r)
	if long {
		K = 30 + r.Intn(20)
	}
	if big {
		K = 1 + r.Intn(3)
	}
	if sweep {
		K = 13 + r.Intn(8)
	}
	s := newScen(r, sc, K, big, nil, nRegs, tw, res)
	if sweep {
		func() {
			defer func() {
				if p := recover(); p != nil {
					res.AddMismatch(vh.Mismatch{Kind: "panic", Case: map[string]any{"why": "panic", "sc": sc}, Detail: fmt.Sprint(p)})
				}
			}()
			s.sweep()
		}()
	}
	nops := 6 + r.Intn(20)
	if long {
		nops = 8
	}
	for i := 0; i < nops; i++ {
		func() {
			defer func() {
				if p := recover(); p != nil {
					res.AddMismatch(vh.Mismatch{Kind: "panic", Case: map[string]any{"why": "panic", "sc": sc}, Detail: fmt.Sprint(p)})
				}
			}()
			switch n := r.Intn(126); {
			case n < 35 || i == 0:
				s.build(long)
			case n < 50:
				s.obs()
			case n < 65:
				s.cmp()
			case n < 80:
				s.record()
			case n < 90:
				s.filter()
			case n < 100:
				s.merge()
			case n < 106:
				s.itOpen()
			case n >= 118:
				s.twin()
			default:
				s.itOps(big)
			}
		}()
	}
	res.Evaluations++
	res.Executed++
}

func random(args []string) {
	fs := flag.NewFlagSet("random", flag.ExitOnError)
	n := fs.Int("n", 200, "")
	nlong := fs.Int("long", 2, "scenarios with very long lists / slices")
	out := fs.String("out", "trace.ndjson", "")
	resF := fs.String("res", "result.json", "")
	fs.Parse(args)
	r := rand.New(rand.NewSource(vh.Seed()))
	tw, err := vh.NewTraceWriter(*out)
	vh.Must(err)
	res := vh.NewResult()
	for sc := 0; sc < *n; sc++ {
		scenario(r, sc, sc < *nlong, sc >= *nlong && sc < 2**nlong, sc >= 2**nlong && sc%25 == 3, tw, res)
	}
	vh.Must(tw.Close())
	res.Count("trace_lines", tw.N)
	vh.Must(res.Write(*resF))
}
