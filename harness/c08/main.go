// c08: conformance harness for Temporality.tla / TemporalityModel.tla (property C08).
//
//	c08 replay -edges F -cfg JSON -out TRACE -res R [-sample K]   replay TLC Collect edges on a real MeterProvider
//	c08 random -n N -out TRACE -res R                             long random multi-instrument histories
//	c08 probe  -name X                                            directed reproductions (used by the notes)
//
// One MeterProvider, two ManualReaders (delta via WithTemporalitySelector, cumulative), both
// collecting back to back at every collection point.  The harness only executes and projects:
// every reported data point is projected onto the model's vocabulary (attribute-set index,
// integer values in 1/unit, bucket counts, structural relations among the timestamps the SDK
// reported -- the harness never reads a clock) and written as ndjson; Trace_Temporality.tla (TLC)
// holds every expectation.
package main

import (
	"bytes"
	"context"
	"encoding/json"
	"flag"
	"fmt"
	"math"
	"math/rand"
	"os"
	"time"

	"go.opentelemetry.io/otel"
	"go.opentelemetry.io/otel/attribute"
	"go.opentelemetry.io/otel/metric"
	sdkmetric "go.opentelemetry.io/otel/sdk/metric"
	"go.opentelemetry.io/otel/sdk/metric/metricdata"
	"go.opentelemetry.io/otel/sdk/verifh/vh"
)

// ---------------------------------------------------------------- configuration (mirrors record C of the spec)

type Cfg struct {
	Kind   string  `json:"kind"`
	Agg    string  `json:"agg"`
	NA     int     `json:"na"`
	Vals   []int64 `json:"vals"`
	Unit   int64   `json:"unit"`
	Bounds []int64 `json:"bounds"`
	NCB    int     `json:"ncb"`
}

// StreamSpec adds what the model does not see.
type StreamSpec struct {
	Cfg
	Name    string `json:"name"`
	NoView  bool   `json:"noview"`  // rely on the kind's default aggregation (only when Agg is the default)
	MaxSize int32  `json:"maxsize"` // exponential histogram
	Meter   int    `json:"meter"`
	Silent  bool   `json:"-"` // companion stream: executed, not written to the trace
}

func (s StreamSpec) float() bool { return s.Unit != 1 }
func (s StreamSpec) async() bool {
	return s.Kind == "ObsCounter" || s.Kind == "ObsUpDownCounter" || s.Kind == "ObsGauge"
}

type Op struct {
	Op  string `json:"op"`
	A   int    `json:"a"`
	J   int    `json:"j"`
	C   int    `json:"c"`
	Obs []int  `json:"obs,omitempty"`
}

// default explicit boundaries of the SDK (used when a Histogram instrument has no view)
var defaultBounds = []int64{0, 5, 10, 25, 50, 75, 100, 250, 500, 750, 1000, 2500, 5000, 7500, 10000}

// the concrete attribute sets behind the model's 1..na
var attrSets = []attribute.Set{
	attribute.NewSet(),
	attribute.NewSet(attribute.String("k", "x")),
	attribute.NewSet(attribute.String("k", "y")),
	attribute.NewSet(attribute.String("k", "x"), attribute.Int("n", 1)),
	attribute.NewSet(attribute.Int("n", 1)),
	attribute.NewSet(attribute.Bool("b", true), attribute.String("k", "x"), attribute.StringSlice("s", []string{"p", "q"})),
}
var attrIndex = func() map[attribute.Distinct]int {
	m := map[attribute.Distinct]int{}
	for i, s := range attrSets {
		m[s.Equivalent()] = i + 1
	}
	return m
}()

// ---------------------------------------------------------------- projected observation (trace vocabulary)

type Pt struct {
	P      bool       `json:"p"`
	X      bool       `json:"x"`
	V      int64      `json:"v"`
	N      int64      `json:"n"`
	S      int64      `json:"s"`
	B      []int64    `json:"b"`
	Z      int64      `json:"z"`
	Sc     int        `json:"sc"`
	Pos    [][2]int64 `json:"pos"`
	Neg    [][2]int64 `json:"neg"`
	Sle    bool       `json:"sle"`
	Sgap   bool       `json:"sgap"`
	Sprev  string     `json:"sprev"`
	Scont  string     `json:"scont"`
	Sfirst string     `json:"sfirst"`
}

// MarshalJSON: an absent point is just {"p":false} (the spec reads nothing else of it).
func (p Pt) MarshalJSON() ([]byte, error) {
	if !p.P {
		return []byte(`{"p":false}`), nil
	}
	type plain Pt
	return json.Marshal(plain(p))
}

func noPt() Pt {
	return Pt{X: true, B: []int64{}, Pos: [][2]int64{}, Neg: [][2]int64{}, Sle: true, Sgap: true,
		Sprev: "na", Scont: "na", Sfirst: "na"}
}

type RD struct {
	Has  bool   `json:"has"`
	Temp string `json:"temp"`
	Dt   string `json:"dt"`
	Junk int    `json:"junk"`
	Pts  []Pt   `json:"pts"`
}

type rawPt struct {
	attrs       attribute.Set
	start, time time.Time
	pt          Pt
}

func toUnits(f float64, unit int64) (int64, bool) {
	r := f * float64(unit)
	if math.IsNaN(r) || math.IsInf(r, 0) || math.Abs(r) > 1<<52 {
		return 0, false
	}
	return int64(r), r == math.Trunc(r)
}

func tempName(t metricdata.Temporality) string {
	switch t {
	case metricdata.DeltaTemporality:
		return "delta"
	case metricdata.CumulativeTemporality:
		return "cumulative"
	}
	return "undefined"
}

func numUnits[N int64 | float64](v N, unit int64) (int64, bool) {
	switch x := any(v).(type) {
	case int64:
		return x * unit, true
	case float64:
		return toUnits(x, unit)
	}
	return 0, false
}

func sparse(offset int32, counts []uint64) [][2]int64 {
	out := [][2]int64{}
	for i, c := range counts {
		if c != 0 {
			out = append(out, [2]int64{int64(offset) + int64(i), int64(c)})
		}
	}
	return out
}

func projNum[N int64 | float64](dps []metricdata.DataPoint[N], unit int64) []rawPt {
	out := make([]rawPt, 0, len(dps))
	for _, dp := range dps {
		p := noPt()
		p.P = true
		p.V, p.X = numUnits(dp.Value, unit)
		out = append(out, rawPt{attrs: dp.Attributes, start: dp.StartTime, time: dp.Time, pt: p})
	}
	return out
}

func projHist[N int64 | float64](dps []metricdata.HistogramDataPoint[N], unit int64) []rawPt {
	out := make([]rawPt, 0, len(dps))
	for _, dp := range dps {
		p := noPt()
		p.P = true
		p.N = int64(dp.Count)
		p.S, p.X = numUnits(dp.Sum, unit)
		for _, c := range dp.BucketCounts {
			p.B = append(p.B, int64(c))
		}
		out = append(out, rawPt{attrs: dp.Attributes, start: dp.StartTime, time: dp.Time, pt: p})
	}
	return out
}

func projExpo[N int64 | float64](dps []metricdata.ExponentialHistogramDataPoint[N], unit int64) []rawPt {
	out := make([]rawPt, 0, len(dps))
	for _, dp := range dps {
		p := noPt()
		p.P = true
		p.N = int64(dp.Count)
		p.S, p.X = numUnits(dp.Sum, unit)
		p.Z = int64(dp.ZeroCount)
		p.Sc = int(dp.Scale)
		p.Pos = sparse(dp.PositiveBucket.Offset, dp.PositiveBucket.Counts)
		p.Neg = sparse(dp.NegativeBucket.Offset, dp.NegativeBucket.Counts)
		out = append(out, rawPt{attrs: dp.Attributes, start: dp.StartTime, time: dp.Time, pt: p})
	}
	return out
}

func projectData(data metricdata.Aggregation, unit int64) (dt, temp string, pts []rawPt) {
	switch d := data.(type) {
	case metricdata.Sum[int64]:
		return "sum", tempName(d.Temporality), projNum(d.DataPoints, unit)
	case metricdata.Sum[float64]:
		return "sum", tempName(d.Temporality), projNum(d.DataPoints, unit)
	case metricdata.Gauge[int64]:
		return "last", "none", projNum(d.DataPoints, unit)
	case metricdata.Gauge[float64]:
		return "last", "none", projNum(d.DataPoints, unit)
	case metricdata.Histogram[int64]:
		return "hist", tempName(d.Temporality), projHist(d.DataPoints, unit)
	case metricdata.Histogram[float64]:
		return "hist", tempName(d.Temporality), projHist(d.DataPoints, unit)
	case metricdata.ExponentialHistogram[int64]:
		return "expo", tempName(d.Temporality), projExpo(d.DataPoints, unit)
	case metricdata.ExponentialHistogram[float64]:
		return "expo", tempName(d.Temporality), projExpo(d.DataPoints, unit)
	}
	return "unknown", "undefined", nil
}

// ---------------------------------------------------------------- a running scenario

type track struct { // per (reader, stream): what is needed for the structural time relations
	prevTime   map[int]time.Time // per attribute set: Time reported in the immediately preceding collection
	prevStart  map[int]time.Time // per attribute set: StartTime reported in the immediately preceding collection
	firstStart map[int]time.Time // per attribute set: first StartTime ever reported
}

type stream struct {
	spec    StreamSpec
	recI    func(ctx context.Context, v int64, o metric.MeasurementOption)
	recF    func(ctx context.Context, v float64, o metric.MeasurementOption)
	obsI    metric.Int64Observable
	obsF    metric.Float64Observable
	table   []int // value index per attribute set (slot a-1), 0 = not in the table
	pending []Op
	trk     [2]*track
	lines   []map[string]any
	ncycles int
}

type scenario struct {
	rng     *rand.Rand
	mp      *sdkmetric.MeterProvider
	readers [2]*sdkmetric.ManualReader // 0 = delta, 1 = cumulative
	rms     [2]*metricdata.ResourceMetrics
	reuse   bool
	streams []*stream
	byName  map[string]*stream
	meters  []metric.Meter
	regs    map[int]multiReg
	ncb     int
	// per reader: seen[k] = latest Time the reader reported (any stream) in its collections 1..k;
	// only timestamps produced by the SDK are ever compared with each other (no harness clock)
	seen [2][]time.Time
	errs int
}

func (s *stream) value(j int) (int64, float64) {
	u := s.spec.Vals[j-1]
	return u, float64(u) / float64(s.spec.Unit)
}

func attrOpt(rng *rand.Rand, a int) metric.MeasurementOption {
	set := attrSets[a-1]
	if rng != nil && rng.Intn(2) == 0 {
		return metric.WithAttributes(set.ToSlice()...)
	}
	return metric.WithAttributeSet(set)
}

func aggregationOf(sp StreamSpec) sdkmetric.Aggregation {
	switch sp.Agg {
	case "sum":
		return sdkmetric.AggregationSum{}
	case "last":
		return sdkmetric.AggregationLastValue{}
	case "hist":
		b := make([]float64, len(sp.Bounds))
		for i, x := range sp.Bounds {
			b[i] = float64(x) / float64(sp.Unit)
		}
		return sdkmetric.AggregationExplicitBucketHistogram{Boundaries: b}
	case "expo":
		ms := sp.MaxSize
		if ms == 0 {
			ms = 160
		}
		return sdkmetric.AggregationBase2ExponentialHistogram{MaxSize: ms, MaxScale: 20}
	}
	panic("unknown aggregation " + sp.Agg)
}

// observe makes callback cb's observations for stream s: the attribute sets a with a % ncb == cb
// that are in the table, each exactly once.
func (s *stream) observe(cb, ncb int, oi func(int64, metric.ObserveOption), of func(float64, metric.ObserveOption)) {
	for a := 1; a <= s.spec.NA; a++ {
		if a%ncb != cb || s.table[a-1] == 0 {
			continue
		}
		iv, fv := s.value(s.table[a-1])
		opt := metric.WithAttributeSet(attrSets[a-1])
		if s.spec.float() {
			of(fv, opt)
		} else {
			oi(iv, opt)
		}
	}
}

func newScenario(rng *rand.Rand, specs []StreamSpec, ncb int, reuse bool, deltaFirst bool) *scenario {
	sc := &scenario{rng: rng, reuse: reuse, byName: map[string]*stream{}, regs: map[int]multiReg{}, ncb: ncb}
	sc.readers[0] = sdkmetric.NewManualReader(sdkmetric.WithTemporalitySelector(
		func(sdkmetric.InstrumentKind) metricdata.Temporality { return metricdata.DeltaTemporality }))
	sc.readers[1] = sdkmetric.NewManualReader(sdkmetric.WithTemporalitySelector(
		func(sdkmetric.InstrumentKind) metricdata.Temporality { return metricdata.CumulativeTemporality }))
	opts := []sdkmetric.Option{}
	if deltaFirst {
		opts = append(opts, sdkmetric.WithReader(sc.readers[0]), sdkmetric.WithReader(sc.readers[1]))
	} else {
		opts = append(opts, sdkmetric.WithReader(sc.readers[1]), sdkmetric.WithReader(sc.readers[0]))
	}
	for _, sp := range specs {
		if !sp.NoView {
			opts = append(opts, sdkmetric.WithView(sdkmetric.NewView(
				sdkmetric.Instrument{Name: sp.Name}, sdkmetric.Stream{Aggregation: aggregationOf(sp)})))
		}
	}
	sc.mp = sdkmetric.NewMeterProvider(opts...)
	sc.meters = []metric.Meter{sc.mp.Meter("c08/m0"), sc.mp.Meter("c08/m1", metric.WithInstrumentationVersion("1"))}
	sc.rms = [2]*metricdata.ResourceMetrics{{}, {}}
	for _, sp := range specs {
		s := &stream{spec: sp, table: make([]int, sp.NA)}
		for r := range s.trk {
			s.trk[r] = &track{prevTime: map[int]time.Time{}, prevStart: map[int]time.Time{}, firstStart: map[int]time.Time{}}
		}
		sc.create(s)
		sc.streams = append(sc.streams, s)
		sc.byName[sp.Name] = s
	}
	for r := 0; r < 2; r++ {
		sc.seen[r] = []time.Time{{}}
	}
	return sc
}

func (sc *scenario) create(s *stream) {
	m := sc.meters[s.spec.Meter%len(sc.meters)]
	name := s.spec.Name
	var err error
	cbI := func(_ context.Context, o metric.Int64Observer) error {
		s.observe(0, sc.ncb, func(v int64, opt metric.ObserveOption) { o.Observe(v, opt) }, nil)
		return nil
	}
	cbF := func(_ context.Context, o metric.Float64Observer) error {
		s.observe(0, sc.ncb, nil, func(v float64, opt metric.ObserveOption) { o.Observe(v, opt) })
		return nil
	}
	fl := s.spec.float()
	switch s.spec.Kind {
	case "Counter":
		if fl {
			var i metric.Float64Counter
			i, err = m.Float64Counter(name)
			s.recF = func(ctx context.Context, v float64, o metric.MeasurementOption) { i.Add(ctx, v, o) }
		} else {
			var i metric.Int64Counter
			i, err = m.Int64Counter(name)
			s.recI = func(ctx context.Context, v int64, o metric.MeasurementOption) { i.Add(ctx, v, o) }
		}
	case "UpDownCounter":
		if fl {
			var i metric.Float64UpDownCounter
			i, err = m.Float64UpDownCounter(name)
			s.recF = func(ctx context.Context, v float64, o metric.MeasurementOption) { i.Add(ctx, v, o) }
		} else {
			var i metric.Int64UpDownCounter
			i, err = m.Int64UpDownCounter(name)
			s.recI = func(ctx context.Context, v int64, o metric.MeasurementOption) { i.Add(ctx, v, o) }
		}
	case "Histogram":
		if fl {
			var i metric.Float64Histogram
			i, err = m.Float64Histogram(name)
			s.recF = func(ctx context.Context, v float64, o metric.MeasurementOption) { i.Record(ctx, v, o) }
		} else {
			var i metric.Int64Histogram
			i, err = m.Int64Histogram(name)
			s.recI = func(ctx context.Context, v int64, o metric.MeasurementOption) { i.Record(ctx, v, o) }
		}
	case "Gauge":
		if fl {
			var i metric.Float64Gauge
			i, err = m.Float64Gauge(name)
			s.recF = func(ctx context.Context, v float64, o metric.MeasurementOption) { i.Record(ctx, v, o) }
		} else {
			var i metric.Int64Gauge
			i, err = m.Int64Gauge(name)
			s.recI = func(ctx context.Context, v int64, o metric.MeasurementOption) { i.Record(ctx, v, o) }
		}
	case "ObsCounter":
		if fl {
			s.obsF, err = m.Float64ObservableCounter(name, metric.WithFloat64Callback(cbF))
		} else {
			s.obsI, err = m.Int64ObservableCounter(name, metric.WithInt64Callback(cbI))
		}
	case "ObsUpDownCounter":
		if fl {
			s.obsF, err = m.Float64ObservableUpDownCounter(name, metric.WithFloat64Callback(cbF))
		} else {
			s.obsI, err = m.Int64ObservableUpDownCounter(name, metric.WithInt64Callback(cbI))
		}
	case "ObsGauge":
		if fl {
			s.obsF, err = m.Float64ObservableGauge(name, metric.WithFloat64Callback(cbF))
		} else {
			s.obsI, err = m.Int64ObservableGauge(name, metric.WithInt64Callback(cbI))
		}
	default:
		panic("unknown kind " + s.spec.Kind)
	}
	vh.Must(err)
}

func (sc *scenario) asyncStreams(meter int) []*stream {
	var out []*stream
	for _, s := range sc.streams {
		if s.spec.async() && s.spec.Meter%len(sc.meters) == meter {
			out = append(out, s)
		}
	}
	return out
}

// multiReg is one RegisterCallback registration per meter (a callback may only observe
// instruments of its own meter).
type multiReg struct{ regs []metric.Registration }

func (m multiReg) Unregister() error {
	for _, r := range m.regs {
		if err := r.Unregister(); err != nil {
			return err
		}
	}
	return nil
}

func (sc *scenario) register(c int) {
	if _, ok := sc.regs[c]; ok {
		return
	}
	mr := multiReg{}
	for mi, m := range sc.meters {
		ss := sc.asyncStreams(mi)
		if len(ss) == 0 {
			continue
		}
		insts := []metric.Observable{}
		for _, s := range ss {
			if s.obsI != nil {
				insts = append(insts, s.obsI)
			} else {
				insts = append(insts, s.obsF)
			}
		}
		reg, err := m.RegisterCallback(func(_ context.Context, o metric.Observer) error {
			for _, s := range ss {
				s := s
				s.observe(c, sc.ncb,
					func(v int64, opt metric.ObserveOption) { o.ObserveInt64(s.obsI, v, opt) },
					func(v float64, opt metric.ObserveOption) { o.ObserveFloat64(s.obsF, v, opt) })
			}
			return nil
		}, insts...)
		vh.Must(err)
		mr.regs = append(mr.regs, reg)
	}
	sc.regs[c] = mr
	for _, s := range sc.streams {
		if s.spec.async() {
			s.pending = append(s.pending, Op{Op: "Reg", C: c})
		}
	}
}

func (sc *scenario) unregister(c int) {
	r, ok := sc.regs[c]
	if !ok {
		return
	}
	vh.Must(r.Unregister())
	delete(sc.regs, c)
	for _, s := range sc.streams {
		if s.spec.async() {
			s.pending = append(s.pending, Op{Op: "Unreg", C: c})
		}
	}
}

func (sc *scenario) record(s *stream, a, j int) {
	iv, fv := s.value(j)
	opt := attrOpt(sc.rng, a)
	if s.spec.float() {
		s.recF(context.Background(), fv, opt)
	} else {
		s.recI(context.Background(), iv, opt)
	}
	s.pending = append(s.pending, Op{Op: "Rec", A: a, J: j})
}

func tri(known bool, eq bool) string {
	if !known {
		return "na"
	}
	if eq {
		return "eq"
	}
	return "ne"
}

// project one reader's report for one stream at its k-th collection.
func (sc *scenario) project(r int, k int, s *stream, found []metricdata.Metrics) RD {
	rd := RD{Temp: "none", Dt: "none", Pts: make([]Pt, s.spec.NA)}
	for i := range rd.Pts {
		rd.Pts[i] = noPt()
	}
	trk := s.trk[r]
	nowTime := map[int]time.Time{}
	nowStart := map[int]time.Time{}
	if len(found) > 1 {
		rd.Junk += len(found) - 1
	}
	if len(found) > 0 {
		rd.Has = true
		var raw []rawPt
		rd.Dt, rd.Temp, raw = projectData(found[0].Data, s.spec.Unit)
		// (a metric without data points is not forbidden by the statement: Has, no points)
		for _, rp := range raw {
			a, ok := attrIndex[rp.attrs.Equivalent()]
			if !ok || a > s.spec.NA || rd.Pts[a-1].P {
				rd.Junk++
				continue
			}
			p := rp.pt
			p.Sle = !rp.start.After(rp.time)
			p.Sgap = k < 2 || !rp.start.Before(sc.seen[r][k-2])
			// "starts where the previous collection ended": the Time this reader reported for the
			// same attribute set in its preceding collection; if only other sets of the stream
			// were reported then, anywhere between their Times (they are equal in this SDK)
			if pt, ok := trk.prevTime[a]; ok {
				p.Sprev = tri(true, pt.Equal(rp.start))
			} else if len(trk.prevTime) > 0 {
				within := false
				for _, t := range trk.prevTime {
					for _, u := range trk.prevTime {
						if !rp.start.Before(t) && !rp.start.After(u) {
							within = true
						}
					}
				}
				p.Sprev = tri(true, within)
			}
			ps, ok := trk.prevStart[a]
			p.Scont = tri(ok, ok && ps.Equal(rp.start))
			fs, ok := trk.firstStart[a]
			p.Sfirst = tri(ok, ok && fs.Equal(rp.start))
			if !ok {
				trk.firstStart[a] = rp.start
			}
			nowTime[a] = rp.time
			nowStart[a] = rp.start
			rd.Pts[a-1] = p
		}
	}
	trk.prevTime = nowTime
	trk.prevStart = nowStart
	return rd
}

// collect is one collection point: both readers, back to back, nothing in between.
func (sc *scenario) collect(deltaFirst bool) {
	order := []int{0, 1}
	if !deltaFirst {
		order = []int{1, 0}
	}
	var got [2]map[string][]metricdata.Metrics
	for _, r := range order {
		rm := sc.rms[r]
		if !sc.reuse {
			rm = &metricdata.ResourceMetrics{}
			sc.rms[r] = rm
		}
		vh.Must(sc.readers[r].Collect(context.Background(), rm))
	}
	// project only after both collections (nothing happens between the two Collect calls)
	for r := 0; r < 2; r++ {
		got[r] = map[string][]metricdata.Metrics{}
		latest := sc.seen[r][len(sc.seen[r])-1]
		for _, sm := range sc.rms[r].ScopeMetrics {
			for _, m := range sm.Metrics {
				got[r][m.Name] = append(got[r][m.Name], m)
				_, _, raw := projectData(m.Data, 1)
				for _, rp := range raw {
					if rp.time.After(latest) {
						latest = rp.time
					}
				}
			}
		}
		sc.seen[r] = append(sc.seen[r], latest)
	}
	for _, s := range sc.streams {
		k := len(sc.seen[0]) - 1
		d := sc.project(0, k, s, got[0][s.spec.Name])
		c := sc.project(1, k, s, got[1][s.spec.Name])
		ops := s.pending
		if ops == nil {
			ops = []Op{}
		}
		obs := make([]int, s.spec.NA)
		if s.spec.async() {
			copy(obs, s.table)
		}
		s.lines = append(s.lines, map[string]any{"ev": "Cycle", "ops": ops, "obs": obs, "d": d, "c": c})
		s.pending = nil
		s.ncycles++
	}
	for r := 0; r < 2; r++ {
		for name := range got[r] {
			if _, ok := sc.byName[name]; !ok {
				sc.errs++
			}
		}
	}
}

func (sc *scenario) shutdown() { _ = sc.mp.Shutdown(context.Background()) }

// flush writes every stream's New + Cycle lines; returns the number of stream traces written.
func (sc *scenario) flush(tw *vh.TraceWriter, scID *int, meta map[string]any) int {
	n := 0
	for _, s := range sc.streams {
		if len(s.lines) == 0 || s.spec.Silent {
			continue
		}
		*scID++
		m := map[string]any{"stream": s.spec.Name, "maxsize": s.spec.MaxSize, "noview": s.spec.NoView, "meter": s.spec.Meter}
		for k, v := range meta {
			m[k] = v
		}
		tw.Emit(map[string]any{"ev": "New", "sc": *scID, "C": s.spec.Cfg, "meta": m})
		for _, l := range s.lines {
			l["sc"] = *scID
			tw.Emit(l)
		}
		n++
	}
	return n
}

func countRegimes(res *vh.Result, sc *scenario) {
	for _, s := range sc.streams {
		if s.spec.Silent {
			continue
		}
		for i, l := range s.lines {
			d := l["d"].(RD)
			c := l["c"].(RD)
			if !d.Has && i > 0 {
				res.Count("delta_empty_cycles", 1)
				if i+1 < len(s.lines) && s.lines[i+1]["d"].(RD).Has {
					res.Count("delta_point_after_empty_cycle", 1)
				}
			}
			for a := range d.Pts {
				if d.Pts[a].P && i > 0 && !s.lines[i-1]["d"].(RD).Pts[a].P {
					seenBefore := false
					for q := 0; q < i-1; q++ {
						if s.lines[q]["d"].(RD).Pts[a].P {
							seenBefore = true
						}
					}
					if seenBefore {
						res.Count("set_reappears_after_gap", 1)
					}
				}
				if c.Pts[a].P && !d.Pts[a].P {
					res.Count("cum_only_points", 1)
				}
				if d.Pts[a].P {
					res.Count("delta_points", 1)
					if d.Pts[a].Sc < 0 {
						res.Count("expo_negative_scale_points", 1)
					}
					switch {
					case d.Pts[a].Sprev == "eq":
						res.Count("delta_start_eq_previous_time", 1)
					case i > 0:
						res.Count("delta_start_after_gap", 1)
					}
				}
				if c.Pts[a].P {
					res.Count("cum_points", 1)
					if c.Pts[a].Sc < 0 {
						res.Count("expo_negative_scale_points", 1)
					}
				}
			}
		}
	}
}

// ---------------------------------------------------------------- spec -> code: replay of TLC edges

type edge struct {
	Path []Op `json:"path"`
	Act  Op   `json:"act"`
	K    int  `json:"k"`
}

// heartbeat: a companion stream of the replayed scenarios, measured once before every collection
// point, so that each reader reports at least one timestamp per collection (the structural
// non-overlap relation sgap of the stream under test is then never vacuous).  It reports the same
// metricdata type as the stream under test (same aggregation and number type, always with a sum),
// so the two streams exchange their reused ResourceMetrics memory whenever one of them is silent.
const heartbeatName = "heartbeat"

func heartbeatFor(sp StreamSpec) StreamSpec {
	hb := StreamSpec{Cfg: Cfg{Agg: sp.Agg, NA: 1, Vals: []int64{7}, Unit: sp.Unit, Bounds: []int64{}, NCB: 1},
		Name: heartbeatName, Meter: sp.Meter, Silent: true}
	switch sp.Agg {
	case "sum":
		hb.Kind, hb.NoView = "Counter", true
	case "last":
		hb.Kind, hb.NoView = "Gauge", true
	case "hist":
		hb.Kind, hb.NoView = "Histogram", true
	default:
		hb.Kind = "Histogram"
	}
	return hb
}

func runOps(sc *scenario, s *stream, ops []Op, deltaFirst bool) {
	for _, op := range ops {
		if hb := sc.byName[heartbeatName]; hb != nil && op.Op == "Collect" {
			sc.record(hb, 1, 1)
		}
		switch op.Op {
		case "Rec":
			sc.record(s, op.A, op.J)
		case "Reg":
			sc.register(op.C)
		case "Unreg":
			sc.unregister(op.C)
		case "Collect":
			copy(s.table, op.Obs)
			sc.collect(deltaFirst)
		default:
			panic("unknown op " + op.Op)
		}
	}
}

func replay(args []string) {
	fs := flag.NewFlagSet("replay", flag.ExitOnError)
	edgesF := fs.String("edges", "", "")
	cfgJ := fs.String("cfg", "", "")
	out := fs.String("out", "trace.ndjson", "")
	resF := fs.String("res", "result.json", "")
	sample := fs.Int("sample", 0, "replay only every k-th edge offset by seed (0 = all)")
	fs.Parse(args)
	var spec StreamSpec
	vh.Must(json.Unmarshal([]byte(*cfgJ), &spec))
	raw, err := os.ReadFile(*edgesF)
	vh.Must(err)
	res := vh.NewResult()
	tw, err := vh.NewTraceWriter(*out)
	vh.Must(err)
	scID := 0
	dec := json.NewDecoder(bytesReader(raw))
	i := 0
	for dec.More() {
		var e edge
		vh.Must(dec.Decode(&e))
		i++
		res.Evaluations++
		if *sample > 1 && (int64(i)+vh.Seed())%int64(*sample) != 0 {
			continue
		}
		// ResourceMetrics reuse / reader registration order / collection order / creation order of the
		// two instruments vary with the edge, independently of the sampling above
		rng := rand.New(rand.NewSource(int64(i)*1000003 + vh.Seed()))
		variant := rng.Int63()
		specs := []StreamSpec{spec, heartbeatFor(spec)}
		if (variant/8)%2 == 0 {
			specs = []StreamSpec{specs[1], specs[0]}
		}
		sc := newScenario(rng, specs, spec.NCB, variant%2 == 0, (variant/2)%2 == 0)
		st := sc.byName[spec.Name]
		ops := append(append([]Op{}, e.Path...), e.Act)
		runOps(sc, st, ops, (variant/4)%2 == 0)
		sc.shutdown()
		sc.flush(tw, &scID, map[string]any{"edge": i, "reuse": sc.reuse})
		res.Executed++
		res.Count("cycles", int64(st.ncycles))
		res.Count("unknown_metrics", int64(sc.errs))
		countRegimes(res, sc)
		if res.Executed%1999 == 1 {
			res.Sample(map[string]any{"cfg": spec.Cfg, "ops": ops, "last": st.lines[len(st.lines)-1]})
		}
	}
	vh.Must(tw.Close())
	res.Count("trace_lines", tw.N)
	res.Count("otel_errors", int64(otelErrors))
	vh.Must(res.Write(*resF))
}

// ---------------------------------------------------------------- code -> spec: long random histories

var monoVals = []int64{0, 1, 2, 3, 5, 8, 100, 1000}
var signedVals = []int64{-3, -1, 0, 1, 2, 5, 100}
var customBounds = []int64{-2, 0, 1, 3, 100}

func randomSpecs(rng *rand.Rand, na, ncb int) []StreamSpec {
	type ka struct{ kind, agg string }
	combos := []ka{
		{"Counter", "sum"}, {"Counter", "hist"}, {"Counter", "expo"},
		{"UpDownCounter", "sum"}, {"UpDownCounter", "hist"}, {"UpDownCounter", "expo"},
		{"Histogram", "hist"}, {"Histogram", "expo"}, {"Histogram", "sum"},
		{"Gauge", "last"}, {"Gauge", "hist"}, {"Gauge", "expo"},
		{"ObsCounter", "sum"}, {"ObsUpDownCounter", "sum"}, {"ObsGauge", "last"},
		{"ObsCounter", "hist"}, {"ObsUpDownCounter", "expo"}, {"ObsGauge", "hist"}, {"ObsCounter", "expo"},
	}
	specs := []StreamSpec{}
	for i, c := range combos {
		sp := StreamSpec{Name: fmt.Sprintf("s%02d.%s.%s", i, c.kind, c.agg), Meter: rng.Intn(2)}
		sp.Kind, sp.Agg, sp.NA, sp.NCB = c.kind, c.agg, na, ncb
		sp.Unit = 1
		if rng.Intn(2) == 0 {
			sp.Unit = 4
		}
		src := signedVals
		if c.kind == "Counter" || c.kind == "Histogram" || c.kind == "ObsCounter" {
			src = monoVals
		}
		// values are in 1/unit: int64 instruments record them as they are, float64 ones v/4
		sp.Vals = append([]int64{}, src...)
		sp.Bounds = []int64{}
		def := map[string]string{"Counter": "sum", "UpDownCounter": "sum", "Histogram": "hist", "Gauge": "last",
			"ObsCounter": "sum", "ObsUpDownCounter": "sum", "ObsGauge": "last"}[c.kind]
		if c.agg == def && rng.Intn(2) == 0 {
			sp.NoView = true
		}
		if c.agg == "hist" {
			b := customBounds
			if sp.NoView {
				b = defaultBounds
			}
			for _, x := range b {
				sp.Bounds = append(sp.Bounds, x*sp.Unit)
			}
		}
		if c.agg == "expo" {
			sp.MaxSize = []int32{160, 160, 20, 4, 2}[rng.Intn(5)]
		}
		specs = append(specs, sp)
	}
	return specs
}

func random(args []string) {
	fs := flag.NewFlagSet("random", flag.ExitOnError)
	n := fs.Int("n", 20, "")
	out := fs.String("out", "trace.ndjson", "")
	resF := fs.String("res", "result.json", "")
	fs.Parse(args)
	rng := rand.New(rand.NewSource(vh.Seed()*7919 + 17))
	tw, err := vh.NewTraceWriter(*out)
	vh.Must(err)
	res := vh.NewResult()
	scID := 0
	for run := 0; run < *n; run++ {
		na := 6
		ncb := 1 + rng.Intn(3)
		specs := randomSpecs(rng, na, ncb)
		reuse := rng.Intn(3) > 0
		sc := newScenario(rng, specs, ncb, reuse, rng.Intn(2) == 0)
		var syncS, asyncS []*stream
		for _, s := range sc.streams {
			if s.spec.async() {
				asyncS = append(asyncS, s)
			} else {
				syncS = append(syncS, s)
			}
		}
		steps := 50 + rng.Intn(151)
		// a scenario has a temperament: how often it collects and how sticky the tables are
		pCollect := 8 + rng.Intn(25)
		hot := 1 + rng.Intn(na) // most measurements go to the first `hot` attribute sets
		for i := 0; i < steps; i++ {
			x := rng.Intn(100)
			switch {
			case x < pCollect || i == steps-1:
				sc.collect(rng.Intn(2) == 0)
			case x < pCollect+12:
				c := 1 + rng.Intn(3)
				if c < ncb {
					if _, ok := sc.regs[c]; ok {
						sc.unregister(c)
						res.Count("unregister", 1)
					} else {
						sc.register(c)
						res.Count("register", 1)
					}
				}
			case x < pCollect+35:
				s := asyncS[rng.Intn(len(asyncS))]
				a := 1 + rng.Intn(na)
				if rng.Intn(3) == 0 {
					s.table[a-1] = 0
				} else {
					s.table[a-1] = 1 + rng.Intn(len(s.spec.Vals))
				}
				if rng.Intn(10) == 0 { // a whole table disappears
					for q := range s.table {
						s.table[q] = 0
					}
				}
			default:
				s := syncS[rng.Intn(len(syncS))]
				a := 1 + rng.Intn(na)
				if rng.Intn(4) > 0 {
					a = 1 + rng.Intn(hot)
				}
				sc.record(s, a, 1+rng.Intn(len(s.spec.Vals)))
			}
		}
		sc.shutdown()
		countRegimes(res, sc)
		res.Count("stream_traces", int64(sc.flush(tw, &scID, map[string]any{"run": run, "reuse": reuse, "ncb": ncb, "steps": steps})))
		res.Count("unknown_metrics", int64(sc.errs))
		res.Executed++
		res.Evaluations += int64(steps)
		if run == 0 {
			res.Sample(map[string]any{"run": run, "steps": steps, "streams": len(sc.streams), "first": sc.streams[0].lines[0]})
		}
	}
	vh.Must(tw.Close())
	res.Count("trace_lines", tw.N)
	res.Count("otel_errors", int64(otelErrors))
	vh.Must(res.Write(*resF))
}

// ---------------------------------------------------------------- directed reproductions (docs/notes/C08.md)

// probe prints what a real provider reports for the two minimal histories behind the findings
// of known_findings/C08.json.  It decides nothing (the check's verdicts come from TLC); it is the
// shortest way to look at the behaviour by hand and to see that a candidate fix changes it.
func probe(args []string) {
	fs := flag.NewFlagSet("probe", flag.ExitOnError)
	name := fs.String("name", "stale-sum", "stale-sum | async-hist-stale-set")
	fs.Parse(args)
	ctx := context.Background()
	show := func(label string, rm *metricdata.ResourceMetrics) {
		for _, sm := range rm.ScopeMetrics {
			for _, m := range sm.Metrics {
				_, temp, raw := projectData(m.Data, 1)
				for _, rp := range raw {
					enc, _ := rp.attrs.MarshalJSON()
					fmt.Printf("%s: metric=%s temporality=%s attrs=%s count=%d sum=%d value=%d buckets=%v\n",
						label, m.Name, temp, enc, rp.pt.N, rp.pt.S, rp.pt.V, rp.pt.B)
				}
			}
		}
	}
	switch *name {
	case "stale-sum":
		// An UpDownCounter aggregated as a histogram never collects a sum.  With a reused
		// ResourceMetrics its data point takes over the memory another histogram used before.
		rd := sdkmetric.NewManualReader()
		mp := sdkmetric.NewMeterProvider(sdkmetric.WithReader(rd), sdkmetric.WithView(sdkmetric.NewView(
			sdkmetric.Instrument{Name: "updown"},
			sdkmetric.Stream{Aggregation: sdkmetric.AggregationExplicitBucketHistogram{Boundaries: []float64{0, 10}}})))
		m := mp.Meter("probe")
		ud, err := m.Int64UpDownCounter("updown")
		vh.Must(err)
		h, err := m.Int64Histogram("hist", metric.WithExplicitBucketBoundaries(0, 10))
		vh.Must(err)
		rm := &metricdata.ResourceMetrics{}
		h.Record(ctx, 7)
		vh.Must(rd.Collect(ctx, rm))
		show("collection 1", rm)
		ud.Add(ctx, 1)
		vh.Must(rd.Collect(ctx, rm))
		show("collection 2 (same ResourceMetrics)", rm)
		fresh := &metricdata.ResourceMetrics{}
		vh.Must(rd.Collect(ctx, fresh))
		show("collection 3 (fresh ResourceMetrics)", fresh)
	case "async-hist-stale-set":
		// An observable counter aggregated as a histogram, cumulative reader: the set is observed
		// in the first cycle only.
		rd := sdkmetric.NewManualReader()
		mp := sdkmetric.NewMeterProvider(sdkmetric.WithReader(rd), sdkmetric.WithView(sdkmetric.NewView(
			sdkmetric.Instrument{Name: "obs"},
			sdkmetric.Stream{Aggregation: sdkmetric.AggregationExplicitBucketHistogram{Boundaries: []float64{0, 10}}})))
		m := mp.Meter("probe")
		observeIt := true
		_, err := m.Int64ObservableCounter("obs", metric.WithInt64Callback(func(_ context.Context, o metric.Int64Observer) error {
			if observeIt {
				o.Observe(5, metric.WithAttributes(attribute.String("k", "x")))
			}
			return nil
		}))
		vh.Must(err)
		for cycle := 1; cycle <= 3; cycle++ {
			observeIt = cycle == 1
			rm := &metricdata.ResourceMetrics{}
			vh.Must(rd.Collect(ctx, rm))
			fmt.Printf("cycle %d: observed=%v, metrics reported=%d\n", cycle, observeIt, func() int {
				n := 0
				for _, sm := range rm.ScopeMetrics {
					n += len(sm.Metrics)
				}
				return n
			}())
			show(fmt.Sprintf("cycle %d", cycle), rm)
		}
	default:
		fmt.Println("unknown probe", *name)
		os.Exit(3)
	}
}

// ---------------------------------------------------------------- misc

var otelErrors int

type errCounter struct{}

func (errCounter) Handle(error) { otelErrors++ }

func bytesReader(b []byte) *bytes.Reader { return bytes.NewReader(b) }

func main() {
	for _, k := range []string{"OTEL_GO_X_CARDINALITY_LIMIT", "OTEL_GO_X_EXEMPLAR", "OTEL_METRICS_EXEMPLAR_FILTER", "OTEL_GO_X_RESOURCE"} {
		os.Unsetenv(k)
	}
	otel.SetErrorHandler(errCounter{})
	if len(os.Args) < 2 {
		fmt.Println("usage: c08 replay|random|probe ...")
		os.Exit(3)
	}
	switch os.Args[1] {
	case "replay":
		replay(os.Args[2:])
	case "random":
		random(os.Args[2:])
	case "probe":
		probe(os.Args[2:])
	default:
		os.Exit(3)
	}
}
