// c08: conformance harness for Temporality.tla / TemporalityModel.tla (property C08).
//
//	c08 replay -edges F -cfg JSON -out TRACE -res R [-sample K]   replay TLC Collect edges on a real MeterProvider
//	c08 random -n N -out TRACE -res R                             long random multi-instrument histories
//	c08 probe  -name X                                            directed reproductions (used by the notes)
//
// One MeterProvider, two ManualReaders (delta via WithTemporalitySelector, cumulative), both
// collecting back to back at every collection point.  The harness only executes and projects:
// every reported data point is projected onto the model's vocabulary (attribute-set index,
// integer values in 1/unit, bucket counts, structural relations among the timestamps the SDK
// reported -- the harness never reads a clock) and written as ndjson; Trace_Temporality.tla (TLC)
// holds every expectation.
package main

import (
	"bytes"
	"context"
	"encoding/json"
	"flag"
	"fmt"
	"math"
	"math/rand"
	"os"
	"runtime"
	"sort"
	"strconv"
	"sync"
	"sync/atomic"
	"time"

	"go.opentelemetry.io/otel"
	"go.opentelemetry.io/otel/attribute"
	"go.opentelemetry.io/otel/metric"
	sdkmetric "go.opentelemetry.io/otel/sdk/metric"
	"go.opentelemetry.io/otel/sdk/metric/exemplar"
	"go.opentelemetry.io/otel/sdk/metric/metricdata"
	"go.opentelemetry.io/otel/sdk/verifh/vh"
)

// ---------------------------------------------------------------- configuration (mirrors record C of the spec)

type Cfg struct {
	Kind   string  `json:"kind"`
	Agg    string  `json:"agg"`
	NA     int     `json:"na"`
	Vals   []int64 `json:"vals"`
	Unit   int64   `json:"unit"`
	Bounds []int64 `json:"bounds"`
	NCB    int     `json:"ncb"`
	// Wide: exponential-histogram streams over a wide value range: value j is Vals[j] (sign: -1, 0, 1)
	// times 2^Exps[j] (float64 instrument); sums are not exact there and not compared.
	Wide bool  `json:"wide"`
	Exps []int `json:"exps"`
}

// StreamSpec adds what the model does not see.
type StreamSpec struct {
	Cfg
	Name    string `json:"name"`
	NoView  bool   `json:"noview"`  // rely on the kind's default aggregation (only when Agg is the default)
	MaxSize int32  `json:"maxsize"` // exponential histogram
	Meter   int    `json:"meter"`
	Silent  bool   `json:"-"` // companion stream: executed, not written to the trace
	NoGate  bool   `json:"-"` // companion stream: default exemplar reservoirs (never holds a gate)
}

func (s StreamSpec) float() bool { return s.Unit != 1 || s.Wide }
func (s StreamSpec) async() bool {
	return s.Kind == "ObsCounter" || s.Kind == "ObsUpDownCounter" || s.Kind == "ObsGauge"
}

type Op struct {
	Op   string `json:"op"`
	A    int    `json:"a"`
	J    int    `json:"j"`
	C    int    `json:"c"`
	Obs  []int  `json:"obs,omitempty"`
	Fail []int  `json:"fail,omitempty"` // callbacks that return an error at this collection point
}

// default explicit boundaries of the SDK (used when a Histogram instrument has no view)
var defaultBounds = []int64{0, 5, 10, 25, 50, 75, 100, 250, 500, 750, 1000, 2500, 5000, 7500, 10000}

// the concrete attribute sets behind the model's 1..na
var attrSets = []attribute.Set{
	attribute.NewSet(),
	attribute.NewSet(attribute.String("k", "x")),
	attribute.NewSet(attribute.String("k", "y")),
	attribute.NewSet(attribute.String("k", "x"), attribute.Int("n", 1)),
	attribute.NewSet(attribute.Int("n", 1)),
	attribute.NewSet(attribute.Bool("b", true), attribute.String("k", "x"), attribute.StringSlice("s", []string{"p", "q"})),
}
var attrIndex = func() map[attribute.Distinct]int {
	m := map[attribute.Distinct]int{}
	for i, s := range attrSets {
		m[s.Equivalent()] = i + 1
	}
	return m
}()

// ---------------------------------------------------------------- projected observation (trace vocabulary)

type Pt struct {
	P      bool       `json:"p"`
	X      bool       `json:"x"`
	V      int64      `json:"v"`
	N      int64      `json:"n"`
	S      int64      `json:"s"`
	B      []int64    `json:"b"`
	Z      int64      `json:"z"`
	Sc     int        `json:"sc"`
	Pos    [][2]int64 `json:"pos"`
	Neg    [][2]int64 `json:"neg"`
	Sle    bool       `json:"sle"`
	Sgap   bool       `json:"sgap"`
	Sprev  string     `json:"sprev"`
	Scont  string     `json:"scont"`
	Sfirst string     `json:"sfirst"`
}

// MarshalJSON: an absent point is just {"p":false} (the spec reads nothing else of it).
func (p Pt) MarshalJSON() ([]byte, error) {
	if !p.P {
		return []byte(`{"p":false}`), nil
	}
	type plain Pt
	return json.Marshal(plain(p))
}

func noPt() Pt {
	return Pt{X: true, B: []int64{}, Pos: [][2]int64{}, Neg: [][2]int64{}, Sle: true, Sgap: true,
		Sprev: "na", Scont: "na", Sfirst: "na"}
}

type RD struct {
	Has  bool   `json:"has"`
	Temp string `json:"temp"`
	Dt   string `json:"dt"`
	Junk int    `json:"junk"`
	Pts  []Pt   `json:"pts"`
}

type rawPt struct {
	attrs       attribute.Set
	start, time time.Time
	pt          Pt
}

func toUnits(f float64, unit int64) (int64, bool) {
	r := f * float64(unit)
	if math.IsNaN(r) || math.IsInf(r, 0) || math.Abs(r) > 1<<52 {
		return 0, false
	}
	return int64(r), r == math.Trunc(r)
}

func tempName(t metricdata.Temporality) string {
	switch t {
	case metricdata.DeltaTemporality:
		return "delta"
	case metricdata.CumulativeTemporality:
		return "cumulative"
	}
	return "undefined"
}

func numUnits[N int64 | float64](v N, unit int64) (int64, bool) {
	switch x := any(v).(type) {
	case int64:
		return x * unit, true
	case float64:
		return toUnits(x, unit)
	}
	return 0, false
}

func sparse(offset int32, counts []uint64) [][2]int64 {
	out := [][2]int64{}
	for i, c := range counts {
		if c != 0 {
			out = append(out, [2]int64{int64(offset) + int64(i), int64(c)})
		}
	}
	return out
}

func projNum[N int64 | float64](dps []metricdata.DataPoint[N], unit int64) []rawPt {
	out := make([]rawPt, 0, len(dps))
	for _, dp := range dps {
		p := noPt()
		p.P = true
		p.V, p.X = numUnits(dp.Value, unit)
		out = append(out, rawPt{attrs: dp.Attributes, start: dp.StartTime, time: dp.Time, pt: p})
	}
	return out
}

func projHist[N int64 | float64](dps []metricdata.HistogramDataPoint[N], unit int64) []rawPt {
	out := make([]rawPt, 0, len(dps))
	for _, dp := range dps {
		p := noPt()
		p.P = true
		p.N = int64(dp.Count)
		p.S, p.X = numUnits(dp.Sum, unit)
		for _, c := range dp.BucketCounts {
			p.B = append(p.B, int64(c))
		}
		out = append(out, rawPt{attrs: dp.Attributes, start: dp.StartTime, time: dp.Time, pt: p})
	}
	return out
}

func projExpo[N int64 | float64](dps []metricdata.ExponentialHistogramDataPoint[N], unit int64) []rawPt {
	out := make([]rawPt, 0, len(dps))
	for _, dp := range dps {
		p := noPt()
		p.P = true
		p.N = int64(dp.Count)
		p.S, p.X = numUnits(dp.Sum, unit)
		p.Z = int64(dp.ZeroCount)
		p.Sc = int(dp.Scale)
		p.Pos = sparse(dp.PositiveBucket.Offset, dp.PositiveBucket.Counts)
		p.Neg = sparse(dp.NegativeBucket.Offset, dp.NegativeBucket.Counts)
		out = append(out, rawPt{attrs: dp.Attributes, start: dp.StartTime, time: dp.Time, pt: p})
	}
	return out
}

func projectData(data metricdata.Aggregation, unit int64) (dt, temp string, pts []rawPt) {
	switch d := data.(type) {
	case metricdata.Sum[int64]:
		return "sum", tempName(d.Temporality), projNum(d.DataPoints, unit)
	case metricdata.Sum[float64]:
		return "sum", tempName(d.Temporality), projNum(d.DataPoints, unit)
	case metricdata.Gauge[int64]:
		return "last", "none", projNum(d.DataPoints, unit)
	case metricdata.Gauge[float64]:
		return "last", "none", projNum(d.DataPoints, unit)
	case metricdata.Histogram[int64]:
		return "hist", tempName(d.Temporality), projHist(d.DataPoints, unit)
	case metricdata.Histogram[float64]:
		return "hist", tempName(d.Temporality), projHist(d.DataPoints, unit)
	case metricdata.ExponentialHistogram[int64]:
		return "expo", tempName(d.Temporality), projExpo(d.DataPoints, unit)
	case metricdata.ExponentialHistogram[float64]:
		return "expo", tempName(d.Temporality), projExpo(d.DataPoints, unit)
	}
	return "unknown", "undefined", nil
}

// ---------------------------------------------------------------- a running scenario

type track struct { // per (reader, stream): what is needed for the structural time relations
	prevTime   map[int]time.Time // per attribute set: Time reported in the immediately preceding collection
	prevStart  map[int]time.Time // per attribute set: StartTime reported in the immediately preceding collection
	firstStart map[int]time.Time // per attribute set: first StartTime ever reported
}

type stream struct {
	spec    StreamSpec
	recI    func(ctx context.Context, v int64, o metric.MeasurementOption)
	recF    func(ctx context.Context, v float64, o metric.MeasurementOption)
	obsI    metric.Int64Observable
	obsF    metric.Float64Observable
	table   []int // value index per attribute set (slot a-1), 0 = not in the table
	pending []Op
	sc      *scenario
	conc    bool // the pending operations were issued by several goroutines at once
	trk     [2]*track
	lines   []map[string]any
	ncycles int
}

type scenario struct {
	rng     *rand.Rand
	mp      *sdkmetric.MeterProvider
	readers [2]*sdkmetric.ManualReader // 0 = delta, 1 = cumulative
	rms     [2]*metricdata.ResourceMetrics
	reuse   bool
	streams []*stream
	byName  map[string]*stream
	meters  []metric.Meter
	regs    map[int]multiReg
	ncb     int
	// per reader: seen[k] = latest Time the reader reported (any stream) in its collections 1..k;
	// only timestamps produced by the SDK are ever compared with each other (no harness clock)
	seen [2][]time.Time
	errs int
	// callback outcomes of the collection point being executed: callback -> how it fails
	failing  map[int]cbFault
	cbErrors int // collection points with failing callbacks
	aborts   int // aborted collection points (cancelled / expiring Collect context)
	cancelIn atomic.Bool
	cancelFn context.CancelFunc
	// gates inside user-supplied exemplar reservoirs (see selector): the provider (first measurement
	// of an attribute set in an aggregate) and Reservoir.Collect (an aggregate being collected)
	provArmed, collArmed          atomic.Bool
	heldName                      string // stream whose reservoir holds the gate (written before entered is closed)
	twins, twinWaited, twinInside int
	mids, midWaited, midInside    int
	storms                        int
	// gate of the overlapping collections (see collectOverlapped)
	armed            atomic.Bool
	entered, release chan struct{}
	deferred         bool   // project a collection point only just before the next one (fresh ResourceMetrics only)
	pending          func() // the deferred projection
	nDeferred        int
	overlapped       int // overlapped pairs executed
	overlapHeld      int // ... in which the second Collect had to wait for the first
	overlapInside    int // ... in which the second Collect completed while the first was held
}

func (s *stream) value(j int) (int64, float64) {
	u := s.spec.Vals[j-1]
	if s.spec.Wide {
		return u, float64(u) * math.Ldexp(1, s.spec.Exps[j-1])
	}
	return u, float64(u) / float64(s.spec.Unit)
}

func attrOpt(rng *rand.Rand, a int) metric.MeasurementOption {
	set := attrSets[a-1]
	if rng != nil && rng.Intn(2) == 0 {
		return metric.WithAttributes(set.ToSlice()...)
	}
	return metric.WithAttributeSet(set)
}

func aggregationOf(sp StreamSpec) sdkmetric.Aggregation {
	switch sp.Agg {
	case "sum":
		return sdkmetric.AggregationSum{}
	case "last":
		return sdkmetric.AggregationLastValue{}
	case "hist":
		b := make([]float64, len(sp.Bounds))
		for i, x := range sp.Bounds {
			b[i] = float64(x) / float64(sp.Unit)
		}
		return sdkmetric.AggregationExplicitBucketHistogram{Boundaries: b}
	case "expo":
		ms := sp.MaxSize
		if ms == 0 {
			ms = 160
		}
		return sdkmetric.AggregationBase2ExponentialHistogram{MaxSize: ms, MaxScale: 20}
	}
	panic("unknown aggregation " + sp.Agg)
}

// observedBy: the attribute sets callback cb observes for stream s at this collection point, in
// order: those of its sets that are in the table -- only the first few if the callback is to fail
// after a partial run (sc.cut).
func (s *stream) observedBy(cb, ncb int) []int {
	var out []int
	for a := 1; a <= s.spec.NA; a++ {
		if a%ncb == cb && s.table[a-1] != 0 {
			out = append(out, a)
		}
	}
	if f, ok := s.sc.failing[cb]; ok && f.cut >= 0 && f.cut < len(out) {
		out = out[:f.cut]
	}
	return out
}

// observe makes callback cb's observations for stream s: the attribute sets a with a % ncb == cb
// that are in the table, each exactly once.
func (s *stream) observe(cb, ncb int, oi func(int64, metric.ObserveOption), of func(float64, metric.ObserveOption)) {
	for _, a := range s.observedBy(cb, ncb) {
		iv, fv := s.value(s.table[a-1])
		opt := metric.WithAttributeSet(attrSets[a-1])
		if s.spec.float() {
			of(fv, opt)
		} else {
			oi(iv, opt)
		}
	}
}

func newScenario(rng *rand.Rand, specs []StreamSpec, ncb int, reuse bool, deltaFirst bool) *scenario {
	sc := &scenario{rng: rng, reuse: reuse, byName: map[string]*stream{}, regs: map[int]multiReg{}, ncb: ncb}
	sc.deferred = rng != nil && rng.Intn(2) == 0
	sc.readers[0] = sdkmetric.NewManualReader(sdkmetric.WithTemporalitySelector(
		func(sdkmetric.InstrumentKind) metricdata.Temporality { return metricdata.DeltaTemporality }))
	sc.readers[1] = sdkmetric.NewManualReader(sdkmetric.WithTemporalitySelector(
		func(sdkmetric.InstrumentKind) metricdata.Temporality { return metricdata.CumulativeTemporality }))
	opts := []sdkmetric.Option{}
	if deltaFirst {
		opts = append(opts, sdkmetric.WithReader(sc.readers[0]), sdkmetric.WithReader(sc.readers[1]))
	} else {
		opts = append(opts, sdkmetric.WithReader(sc.readers[1]), sdkmetric.WithReader(sc.readers[0]))
	}
	for _, sp := range specs {
		if !sp.NoView {
			st := sdkmetric.Stream{Aggregation: aggregationOf(sp)}
			if !sp.NoGate {
				st.ExemplarReservoirProviderSelector = sc.selector(sp.Name)
			}
			opts = append(opts, sdkmetric.WithView(sdkmetric.NewView(sdkmetric.Instrument{Name: sp.Name}, st)))
		}
	}
	sc.mp = sdkmetric.NewMeterProvider(opts...)
	sc.meters = []metric.Meter{sc.mp.Meter("c08/m0"), sc.mp.Meter("c08/m1", metric.WithInstrumentationVersion("1"))}
	sc.rms = [2]*metricdata.ResourceMetrics{{}, {}}
	for _, sp := range specs {
		if sp.Exps == nil {
			sp.Exps = []int{}
		}
		s := &stream{spec: sp, table: make([]int, sp.NA), sc: sc}
		for r := range s.trk {
			s.trk[r] = &track{prevTime: map[int]time.Time{}, prevStart: map[int]time.Time{}, firstStart: map[int]time.Time{}}
		}
		sc.create(s)
		sc.streams = append(sc.streams, s)
		sc.byName[sp.Name] = s
	}
	for r := 0; r < 2; r++ {
		sc.seen[r] = []time.Time{{}}
	}
	// the gate: an observable instrument created last, so its callback runs after the callbacks the
	// other instruments were created with; it observes nothing and only blocks when armed
	_, err := sc.meters[0].Int64ObservableGauge("c08.gate", metric.WithInt64Callback(
		func(context.Context, metric.Int64Observer) error {
			if sc.armed.CompareAndSwap(true, false) {
				close(sc.entered)
				<-sc.release
			}
			if sc.cancelIn.CompareAndSwap(true, false) {
				sc.cancelFn() // the collection's context expires while its callbacks run
			}
			return nil
		}))
	vh.Must(err)
	return sc
}

func (sc *scenario) create(s *stream) {
	m := sc.meters[s.spec.Meter%len(sc.meters)]
	name := s.spec.Name
	var err error
	cbI := func(ctx context.Context, o metric.Int64Observer) error {
		s.observe(0, sc.ncb, func(v int64, opt metric.ObserveOption) { o.Observe(v, opt) }, nil)
		return sc.cbResult(ctx, 0)
	}
	cbF := func(ctx context.Context, o metric.Float64Observer) error {
		s.observe(0, sc.ncb, nil, func(v float64, opt metric.ObserveOption) { o.Observe(v, opt) })
		return sc.cbResult(ctx, 0)
	}
	fl := s.spec.float()
	switch s.spec.Kind {
	case "Counter":
		if fl {
			var i metric.Float64Counter
			i, err = m.Float64Counter(name)
			s.recF = func(ctx context.Context, v float64, o metric.MeasurementOption) { i.Add(ctx, v, o) }
		} else {
			var i metric.Int64Counter
			i, err = m.Int64Counter(name)
			s.recI = func(ctx context.Context, v int64, o metric.MeasurementOption) { i.Add(ctx, v, o) }
		}
	case "UpDownCounter":
		if fl {
			var i metric.Float64UpDownCounter
			i, err = m.Float64UpDownCounter(name)
			s.recF = func(ctx context.Context, v float64, o metric.MeasurementOption) { i.Add(ctx, v, o) }
		} else {
			var i metric.Int64UpDownCounter
			i, err = m.Int64UpDownCounter(name)
			s.recI = func(ctx context.Context, v int64, o metric.MeasurementOption) { i.Add(ctx, v, o) }
		}
	case "Histogram":
		if fl {
			var i metric.Float64Histogram
			i, err = m.Float64Histogram(name)
			s.recF = func(ctx context.Context, v float64, o metric.MeasurementOption) { i.Record(ctx, v, o) }
		} else {
			var i metric.Int64Histogram
			i, err = m.Int64Histogram(name)
			s.recI = func(ctx context.Context, v int64, o metric.MeasurementOption) { i.Record(ctx, v, o) }
		}
	case "Gauge":
		if fl {
			var i metric.Float64Gauge
			i, err = m.Float64Gauge(name)
			s.recF = func(ctx context.Context, v float64, o metric.MeasurementOption) { i.Record(ctx, v, o) }
		} else {
			var i metric.Int64Gauge
			i, err = m.Int64Gauge(name)
			s.recI = func(ctx context.Context, v int64, o metric.MeasurementOption) { i.Record(ctx, v, o) }
		}
	case "ObsCounter":
		if fl {
			s.obsF, err = m.Float64ObservableCounter(name, metric.WithFloat64Callback(cbF))
		} else {
			s.obsI, err = m.Int64ObservableCounter(name, metric.WithInt64Callback(cbI))
		}
	case "ObsUpDownCounter":
		if fl {
			s.obsF, err = m.Float64ObservableUpDownCounter(name, metric.WithFloat64Callback(cbF))
		} else {
			s.obsI, err = m.Int64ObservableUpDownCounter(name, metric.WithInt64Callback(cbI))
		}
	case "ObsGauge":
		if fl {
			s.obsF, err = m.Float64ObservableGauge(name, metric.WithFloat64Callback(cbF))
		} else {
			s.obsI, err = m.Int64ObservableGauge(name, metric.WithInt64Callback(cbI))
		}
	default:
		panic("unknown kind " + s.spec.Kind)
	}
	vh.Must(err)
}

func (sc *scenario) asyncStreams(meter int) []*stream {
	var out []*stream
	for _, s := range sc.streams {
		if s.spec.async() && s.spec.Meter%len(sc.meters) == meter {
			out = append(out, s)
		}
	}
	return out
}

// multiReg is one RegisterCallback registration per meter (a callback may only observe
// instruments of its own meter).
type multiReg struct{ regs []metric.Registration }

func (m multiReg) Unregister() error {
	for _, r := range m.regs {
		if err := r.Unregister(); err != nil {
			return err
		}
	}
	return nil
}

func (sc *scenario) register(c int) {
	if _, ok := sc.regs[c]; ok {
		return
	}
	mr := multiReg{}
	for mi, m := range sc.meters {
		ss := sc.asyncStreams(mi)
		if len(ss) == 0 {
			continue
		}
		insts := []metric.Observable{}
		for _, s := range ss {
			if s.obsI != nil {
				insts = append(insts, s.obsI)
			} else {
				insts = append(insts, s.obsF)
			}
		}
		reg, err := m.RegisterCallback(func(ctx context.Context, o metric.Observer) error {
			for _, s := range ss {
				s := s
				s.observe(c, sc.ncb,
					func(v int64, opt metric.ObserveOption) { o.ObserveInt64(s.obsI, v, opt) },
					func(v float64, opt metric.ObserveOption) { o.ObserveFloat64(s.obsF, v, opt) })
			}
			return sc.cbResult(ctx, c)
		}, insts...)
		vh.Must(err)
		mr.regs = append(mr.regs, reg)
	}
	sc.regs[c] = mr
	for _, s := range sc.streams {
		if s.spec.async() {
			s.pending = append(s.pending, Op{Op: "Reg", C: c})
		}
	}
}

func (sc *scenario) unregister(c int) {
	r, ok := sc.regs[c]
	if !ok {
		return
	}
	vh.Must(r.Unregister())
	delete(sc.regs, c)
	for _, s := range sc.streams {
		if s.spec.async() {
			s.pending = append(s.pending, Op{Op: "Unreg", C: c})
		}
	}
}

func (sc *scenario) record(s *stream, a, j int) {
	iv, fv := s.value(j)
	opt := attrOpt(sc.rng, a)
	if s.spec.float() {
		s.recF(context.Background(), fv, opt)
	} else {
		s.recI(context.Background(), iv, opt)
	}
	s.pending = append(s.pending, Op{Op: "Rec", A: a, J: j})
}

func tri(known bool, eq bool) string {
	if !known {
		return "na"
	}
	if eq {
		return "eq"
	}
	return "ne"
}

// project one reader's report for one stream at the reader's k-th collection, given the
// structural-time state trk of (reader, stream); returns the projection and the next state
// (trk itself is not modified: overlapping collections are projected under both serial orders).
func (sc *scenario) project(r int, k int, s *stream, trk *track, found []metricdata.Metrics) (RD, *track) {
	rd := RD{Temp: "none", Dt: "none", Pts: make([]Pt, s.spec.NA)}
	for i := range rd.Pts {
		rd.Pts[i] = noPt()
	}
	next := &track{prevTime: map[int]time.Time{}, prevStart: map[int]time.Time{}, firstStart: trk.firstStart}
	if len(found) > 1 {
		rd.Junk += len(found) - 1
	}
	if len(found) > 0 {
		rd.Has = true
		var raw []rawPt
		rd.Dt, rd.Temp, raw = projectData(found[0].Data, s.spec.Unit)
		// (a metric without data points is not forbidden by the statement: Has, no points)
		for _, rp := range raw {
			a, ok := attrIndex[rp.attrs.Equivalent()]
			if !ok || a > s.spec.NA || rd.Pts[a-1].P {
				rd.Junk++
				continue
			}
			p := rp.pt
			if s.spec.Wide {
				p.S, p.X = 0, true // sums of values up to 2^300 are not exact: not part of the comparison
			}
			p.Sle = !rp.start.After(rp.time)
			p.Sgap = k < 2 || !rp.start.Before(sc.seen[r][k-2])
			// "starts where the previous collection ended": the Time this reader reported for the
			// same attribute set in its preceding collection; if only other sets of the stream
			// were reported then, anywhere between their Times (they are equal in this SDK)
			if pt, ok := trk.prevTime[a]; ok {
				p.Sprev = tri(true, pt.Equal(rp.start))
			} else if len(trk.prevTime) > 0 {
				within := false
				for _, t := range trk.prevTime {
					for _, u := range trk.prevTime {
						if !rp.start.Before(t) && !rp.start.After(u) {
							within = true
						}
					}
				}
				p.Sprev = tri(true, within)
			}
			ps, ok := trk.prevStart[a]
			p.Scont = tri(ok, ok && ps.Equal(rp.start))
			fs, ok := next.firstStart[a]
			p.Sfirst = tri(ok, ok && fs.Equal(rp.start))
			if !ok {
				cp := make(map[int]time.Time, len(next.firstStart)+1)
				for q, v := range next.firstStart {
					cp[q] = v
				}
				cp[a] = rp.start
				next.firstStart = cp
			}
			next.prevTime[a] = rp.time
			next.prevStart[a] = rp.start
			rd.Pts[a-1] = p
		}
	}
	return rd, next
}

// gathered is what one Collect call of one reader returned: the metrics by name and the latest
// Time of any of its data points (zero if there is none).
type gathered struct {
	byName map[string][]metricdata.Metrics
	latest time.Time
}

func gather(rm *metricdata.ResourceMetrics) gathered {
	g := gathered{byName: map[string][]metricdata.Metrics{}}
	for _, sm := range rm.ScopeMetrics {
		for _, m := range sm.Metrics {
			g.byName[m.Name] = append(g.byName[m.Name], m)
			_, _, raw := projectData(m.Data, 1)
			for _, rp := range raw {
				if rp.time.After(g.latest) {
					g.latest = rp.time
				}
			}
		}
	}
	return g
}

// advance registers one more collection of reader r; returns its index k.
func (sc *scenario) advance(r int, g gathered) int {
	latest := sc.seen[r][len(sc.seen[r])-1]
	if g.latest.After(latest) {
		latest = g.latest
	}
	sc.seen[r] = append(sc.seen[r], latest)
	return len(sc.seen[r]) - 1
}

func (sc *scenario) nextRM(r int) *metricdata.ResourceMetrics {
	if !sc.reuse {
		sc.rms[r] = &metricdata.ResourceMetrics{}
	}
	return sc.rms[r]
}

func (sc *scenario) unknown(g gathered) {
	for name := range g.byName {
		if _, ok := sc.byName[name]; !ok {
			sc.errs++
		}
	}
}

// takeOps: the operations since the last collection point, whether they were concurrent, what the
// callbacks' table holds -- minus what a callback failing after a partial run does not get to -- and
// which of it is observed by a callback that then returns an error.
func (s *stream) takeOps() (ops []Op, obs []int, conc bool, of []bool) {
	ops = s.pending
	if ops == nil {
		ops = []Op{}
	}
	conc = s.conc
	s.pending, s.conc = nil, false
	obs, of = make([]int, s.spec.NA), make([]bool, s.spec.NA)
	if s.spec.async() {
		for cb := 0; cb < s.sc.ncb; cb++ {
			_, failing := s.sc.failing[cb]
			for _, a := range s.observedBy(cb, s.sc.ncb) {
				obs[a-1], of[a-1] = s.table[a-1], failing
			}
		}
	}
	return
}

// settle projects a collection point whose projection was deferred (see collect).
func (sc *scenario) settle() {
	if sc.pending != nil {
		f := sc.pending
		sc.pending = nil
		f()
	}
}

// collect is one collection point: both readers, back to back, nothing in between.
//
// When every collection gets a fresh ResourceMetrics (no reuse) a scenario may DEFER the projection
// of a collection point until just before the next one, i.e. until after the measurements of the
// following cycle: what Collect handed out must not change afterwards, so the projection -- and with
// it every clause of the specification -- is the same; an aggregate that hands out its own bucket
// memory instead of a copy shows there and nowhere else.
func (sc *scenario) collect(deltaFirst bool) {
	sc.settle()
	order := []int{0, 1}
	if !deltaFirst {
		order = []int{1, 0}
	}
	for _, r := range order {
		err := sc.readers[r].Collect(context.Background(), sc.nextRM(r))
		if len(sc.failing) == 0 {
			vh.Must(err) // (with failing callbacks Collect returns their joined errors -- and the data)
		}
	}
	// project only after both collections (nothing happens between the two Collect calls)
	var got [2]gathered
	for r := 0; r < 2; r++ {
		got[r] = gather(sc.rms[r])
		sc.unknown(got[r])
	}
	type taken struct {
		ops  []Op
		obs  []int
		conc bool
		of   []bool
	}
	tk := make([]taken, len(sc.streams))
	for i, s := range sc.streams {
		tk[i].ops, tk[i].obs, tk[i].conc, tk[i].of = s.takeOps()
	}
	cberr := ""
	for _, f := range sc.failing {
		cberr = f.flavour
	}
	if len(sc.failing) > 0 {
		sc.cbErrors++
		sc.failing = nil
	}
	finish := func() {
		for i, s := range sc.streams {
			var rd [2]RD
			for r := 0; r < 2; r++ {
				rd[r], s.trk[r] = sc.project(r, len(sc.seen[r]), s, s.trk[r], got[r].byName[s.spec.Name])
			}
			s.lines = append(s.lines, map[string]any{"ev": "Cycle", "ops": tk[i].ops, "obs": tk[i].obs, "conc": tk[i].conc,
				"of": tk[i].of, "cberr": cberr, "d": rd[0], "c": rd[1]})
			s.ncycles++
		}
		for r := 0; r < 2; r++ {
			sc.advance(r, got[r])
		}
	}
	if sc.deferred && !sc.reuse {
		sc.pending = finish
		sc.nDeferred++
		return
	}
	finish()
}

// collectOverlapped is TWO collection points with nothing in between, at which reader x is
// collected by two goroutines whose Collect calls overlap: the first is held inside the gate
// callback (the last instrument callback of the pipeline, i.e. after the instruments' own
// callbacks made their observations) while the second is started; the other reader y is collected
// twice, one after the other.  The SDK documents Collect as safe for concurrent use and serialises
// the collections of one reader, so the two results of x must be explained by one of the two serial
// orders: both are projected (primary = ordered by the Times the SDK reported; alternative = the
// reverse) and Trace_Temporality accepts either.  The harness decides nothing; in particular how
// long it waits for the second call before it opens the gate influences no verdict.
func (sc *scenario) collectOverlapped(x int) {
	sc.settle()
	ctx := context.Background()
	y := 1 - x
	rmA, rmB := sc.nextRM(x), &metricdata.ResourceMetrics{}
	sc.entered, sc.release = make(chan struct{}), make(chan struct{})
	sc.armed.Store(true)
	doneA, doneB := make(chan error, 1), make(chan error, 1)
	go func() { doneA <- sc.readers[x].Collect(ctx, rmA) }()
	aDone := false
	select {
	case <-sc.entered:
	case err := <-doneA: // (the gate callback did not run: nothing to hold; the second call simply follows)
		vh.Must(err)
		aDone = true
		sc.armed.Store(false)
	}
	go func() { doneB <- sc.readers[x].Collect(ctx, rmB) }()
	bDone := false
	if !aDone {
		select {
		case err := <-doneB:
			vh.Must(err)
			bDone = true
			sc.overlapInside++ // the second collection ran to completion inside the first
		case <-time.After(overlapWait):
			sc.overlapHeld++ // the second collection waits for the first, as the pipeline lock demands
		}
		close(sc.release)
		vh.Must(<-doneA)
	}
	if !bDone {
		vh.Must(<-doneB)
	}
	gA, gB := gather(rmA), gather(rmB)
	sc.unknown(gA)
	sc.unknown(gB)
	gP, gQ := gA, gB // primary order: by the SDK's own timestamps (ties: the gate holder first)
	if gA.latest.After(gB.latest) && !gB.latest.IsZero() {
		gP, gQ = gB, gA
	}
	kx := len(sc.seen[x])
	// reader y: two ordinary collections, projected one by one (its ResourceMetrics may be reused)
	var gy [2]gathered
	ys := [2][]RD{make([]RD, len(sc.streams)), make([]RD, len(sc.streams))}
	for i := 0; i < 2; i++ {
		vh.Must(sc.readers[y].Collect(ctx, sc.nextRM(y)))
		gy[i] = gather(sc.rms[y])
		sc.unknown(gy[i])
		for si, s := range sc.streams {
			ys[i][si], s.trk[y] = sc.project(y, len(sc.seen[y]), s, s.trk[y], gy[i].byName[s.spec.Name])
		}
		sc.advance(y, gy[i])
	}
	names := [2]string{"d", "c"}
	for si, s := range sc.streams {
		name := s.spec.Name
		p1, t1 := sc.project(x, kx, s, s.trk[x], gP.byName[name])
		p2, t2 := sc.project(x, kx+1, s, t1, gQ.byName[name])
		q1, u1 := sc.project(x, kx, s, s.trk[x], gQ.byName[name])
		q2, _ := sc.project(x, kx+1, s, u1, gP.byName[name])
		s.trk[x] = t2
		ops, obs, conc, _ := s.takeOps()
		pair := func(xr RD, i int) map[string]any { return map[string]any{names[x]: xr, names[y]: ys[i][si]} }
		s.lines = append(s.lines, map[string]any{"ev": "Over", "x": names[x], "ops": ops, "obs": obs, "conc": conc,
			"p1": pair(p1, 0), "p2": pair(p2, 1), "q1": pair(q1, 0), "q2": pair(q2, 1)})
		s.ncycles += 2
	}
	sc.advance(x, gP)
	sc.advance(x, gQ)
	sc.overlapped++
}

// ---------------------------------------------------------------- concurrent recorders and reservoir gates

// selector: the exemplar reservoirs of a stream with a view are the SDK's default ones behind two
// gates.  (1) The provider blocks when provArmed: it is called by an aggregate for the FIRST
// measurement of an attribute set (in every cycle of a delta stream), while -- in this SDK -- the
// aggregate's lock is held.  (2) Reservoir.Collect blocks when collArmed: it is called while the
// aggregate is being collected.  A goroutine held at a gate lets the harness start the operation
// that must not get through meanwhile (a second first measurement of the same set; a measurement
// during the collection).  Exemplars themselves are not projected.
func (sc *scenario) selector(name string) sdkmetric.ExemplarReservoirProviderSelector {
	return func(agg sdkmetric.Aggregation) exemplar.ReservoirProvider {
		def := sdkmetric.DefaultExemplarReservoirProviderSelector(agg)
		return func(attrs attribute.Set) exemplar.Reservoir {
			if sc.provArmed.CompareAndSwap(true, false) {
				sc.heldName = name
				close(sc.entered)
				<-sc.release
			}
			return &gatedReservoir{inner: def(attrs), sc: sc, name: name}
		}
	}
}

type gatedReservoir struct {
	inner exemplar.Reservoir
	sc    *scenario
	name  string
}

func (g *gatedReservoir) Offer(ctx context.Context, t time.Time, v exemplar.Value, a []attribute.KeyValue) {
	g.inner.Offer(ctx, t, v, a)
}

func (g *gatedReservoir) Collect(dest *[]exemplar.Exemplar) {
	if g.sc.collArmed.CompareAndSwap(true, false) {
		g.sc.heldName = g.name
		close(g.sc.entered)
		<-g.sc.release
	}
	g.inner.Collect(dest)
}

// cbFault: the callback returns an error after observing (cut < 0: all of its sets, else the first
// cut of them); flavour: "plain", or an error wrapping context.Canceled / context.DeadlineExceeded of
// a context the callback derived itself while the collection's context is alive.
type cbFault struct {
	flavour string
	cut     int
}

func (sc *scenario) cbResult(ctx context.Context, cb int) error {
	f, ok := sc.failing[cb]
	if !ok {
		return nil
	}
	switch f.flavour {
	case "canceled":
		own, cancel := context.WithCancel(ctx)
		cancel()
		return fmt.Errorf("c08: backend call of callback %d: %w", cb, own.Err())
	case "deadline":
		own, cancel := context.WithDeadline(ctx, time.Unix(0, 0))
		defer cancel()
		<-own.Done()
		return fmt.Errorf("c08: backend call of callback %d: %w", cb, own.Err())
	}
	return fmt.Errorf("c08: callback %d failed", cb)
}

// collectAborted: a collection point at which the Collect context of both readers is already
// cancelled (mode 0) or is cancelled from inside the last instrument callback (mode 1).  Collect
// returns the context's error; nothing is reported, nothing is consumed: no line but a marker.
func (sc *scenario) collectAborted(mode int) {
	sc.settle()
	for r := 0; r < 2; r++ {
		ctx, cancel := context.WithCancel(context.Background())
		if mode == 0 {
			cancel()
		} else {
			sc.cancelFn = cancel
			sc.cancelIn.Store(true)
		}
		err := sc.readers[r].Collect(ctx, &metricdata.ResourceMetrics{})
		sc.cancelIn.Store(false)
		cancel()
		if err == nil {
			sc.errs++ // the collection was not aborted: the scenario is not what the trace says
		}
	}
	for _, s := range sc.streams {
		s.lines = append(s.lines, map[string]any{"ev": "Abort", "mode": mode})
	}
	sc.aborts++
}

type recOp struct {
	s    *stream
	a, j int
}

// rawRecord makes one measurement (callable from any goroutine; no bookkeeping).
func rawRecord(r recOp) {
	iv, fv := r.s.value(r.j)
	opt := metric.WithAttributeSet(attrSets[r.a-1])
	if r.s.spec.float() {
		r.s.recF(context.Background(), fv, opt)
	} else {
		r.s.recI(context.Background(), iv, opt)
	}
}

func (sc *scenario) noteConcurrent(ops []recOp) {
	for _, r := range ops {
		r.s.pending = append(r.s.pending, Op{Op: "Rec", A: r.a, J: r.j})
		r.s.conc = true
	}
}

// recordConcurrent: the goroutines (one per batch) start together behind a spin barrier and make
// their measurements at once; all of them are joined before it returns, so collections stay at
// quiescent points.  The content of the cycle is a multiset: the order logged is arbitrary.
func (sc *scenario) recordConcurrent(batches [][]recOp) {
	var ready atomic.Int32
	var start atomic.Bool
	var wg sync.WaitGroup
	for _, b := range batches {
		wg.Add(1)
		go func(b []recOp) {
			defer wg.Done()
			ready.Add(1)
			for !start.Load() {
			}
			for _, r := range b {
				rawRecord(r)
			}
		}(b)
	}
	for int(ready.Load()) < len(batches) {
		runtime.Gosched()
	}
	start.Store(true)
	wg.Wait()
	for _, b := range batches {
		sc.noteConcurrent(b)
	}
	sc.storms++
}

// recordTwin: two goroutines make a measurement of the same attribute set of one stream; the first
// is held inside the reservoir provider (if the set is new to an aggregate) while the second is
// started.  Here the second then waits for the aggregate's lock; whatever an implementation does,
// both measurements belong to the cycle.  How long the harness waits influences no verdict.
func (sc *scenario) recordTwin(first, second recOp) {
	sc.entered, sc.release = make(chan struct{}), make(chan struct{})
	sc.provArmed.Store(true)
	d1, d2 := make(chan struct{}), make(chan struct{})
	go func() { rawRecord(first); close(d1) }()
	held := false
	select {
	case <-sc.entered:
		held = true
	case <-d1: // the set is new to no aggregate: nothing to hold
		sc.provArmed.Store(false)
	}
	go func() { rawRecord(second); close(d2) }()
	if held {
		select {
		case <-d2:
			sc.twinInside++
		case <-time.After(overlapWait):
			sc.twinWaited++
		}
		close(sc.release)
	}
	<-d1
	<-d2
	sc.noteConcurrent([]recOp{first, second})
	sc.twins++
}

// projectPoint projects one collection point of both readers for every stream.
func (sc *scenario) projectPoint(got [2]gathered) [][2]RD {
	out := make([][2]RD, len(sc.streams))
	for i, s := range sc.streams {
		for r := 0; r < 2; r++ {
			out[i][r], s.trk[r] = sc.project(r, len(sc.seen[r]), s, s.trk[r], got[r].byName[s.spec.Name])
		}
	}
	for r := 0; r < 2; r++ {
		sc.unknown(got[r])
		sc.advance(r, got[r])
	}
	return out
}

// collectMid: collection point k at which reader y collects first and reader x is then held inside
// Reservoir.Collect of some stream (i.e. in the middle of collecting that stream's aggregate) while
// ONE measurement m of that stream (chosen by pick) is started; after both have returned, collection
// point k+1 follows at once.  For the held stream the two points become one Mid line (see TMid in
// Trace_Temporality); every other stream gets two ordinary lines.  If no gated reservoir is collected
// (the gated streams have no data) this is an ordinary collection point and false is returned.
func (sc *scenario) collectMid(x int, pick func(held *stream) (recOp, bool)) bool {
	sc.settle()
	ctx := context.Background()
	y := 1 - x
	names := [2]string{"d", "c"}
	var got [2]gathered
	vh.Must(sc.readers[y].Collect(ctx, sc.nextRM(y)))
	got[y] = gather(sc.rms[y])
	rmX := sc.nextRM(x)
	sc.entered, sc.release = make(chan struct{}), make(chan struct{})
	sc.collArmed.Store(true)
	doneX := make(chan error, 1)
	go func() { doneX <- sc.readers[x].Collect(ctx, rmX) }()
	held := false
	select {
	case <-sc.entered:
		held = true
	case err := <-doneX:
		vh.Must(err)
		sc.collArmed.Store(false)
	}
	var m recOp
	hasM := false
	if held {
		if m, hasM = pick(sc.byName[sc.heldName]); hasM {
			dM := make(chan struct{})
			go func() { rawRecord(m); close(dM) }()
			select {
			case <-dM:
				sc.midInside++
			case <-time.After(overlapWait):
				sc.midWaited++
			}
			close(sc.release)
			vh.Must(<-doneX)
			<-dM
		} else {
			close(sc.release)
			vh.Must(<-doneX)
		}
	}
	got[x] = gather(rmX)
	type taken struct {
		ops  []Op
		obs  []int
		conc bool
		of   []bool
	}
	tk := make([]taken, len(sc.streams))
	for i, s := range sc.streams {
		tk[i].ops, tk[i].obs, tk[i].conc, tk[i].of = s.takeOps()
	}
	p1 := sc.projectPoint(got)
	if !hasM {
		for i, s := range sc.streams {
			s.lines = append(s.lines, map[string]any{"ev": "Cycle", "ops": tk[i].ops, "obs": tk[i].obs, "conc": tk[i].conc,
				"of": tk[i].of, "cberr": "", "d": p1[i][0], "c": p1[i][1]})
			s.ncycles++
		}
		return false
	}
	// collection point k+1, quiescent
	for _, r := range []int{y, x} {
		vh.Must(sc.readers[r].Collect(ctx, sc.nextRM(r)))
		got[r] = gather(sc.rms[r])
	}
	p2 := sc.projectPoint(got)
	for i, s := range sc.streams {
		pt := func(p [2]RD) map[string]any { return map[string]any{"d": p[0], "c": p[1]} }
		if s == m.s {
			s.lines = append(s.lines, map[string]any{"ev": "Mid", "x": names[x], "ops": tk[i].ops, "obs": tk[i].obs, "conc": tk[i].conc,
				"m": []Op{{Op: "Rec", A: m.a, J: m.j}}, "p1": pt(p1[i]), "p2": pt(p2[i])})
		} else {
			s.lines = append(s.lines,
				map[string]any{"ev": "Cycle", "ops": tk[i].ops, "obs": tk[i].obs, "conc": tk[i].conc, "of": tk[i].of, "cberr": "",
					"d": p1[i][0], "c": p1[i][1]},
				map[string]any{"ev": "Cycle", "ops": []Op{}, "obs": tk[i].obs, "conc": false, "of": tk[i].of, "cberr": "",
					"d": p2[i][0], "c": p2[i][1]})
		}
		s.ncycles += 2
	}
	sc.mids++
	return true
}

var overlapWait = func() time.Duration {
	if ms, err := strconv.Atoi(os.Getenv("C08_OVERLAP_WAIT_MS")); err == nil && ms > 0 {
		return time.Duration(ms) * time.Millisecond
	}
	return 15 * time.Millisecond
}()

func (sc *scenario) shutdown() {
	sc.settle()
	_ = sc.mp.Shutdown(context.Background())
}

// flush writes every stream's New + Cycle lines; returns the number of stream traces written.
func (sc *scenario) flush(tw *vh.TraceWriter, scID *int, meta map[string]any) int {
	n := 0
	for _, s := range sc.streams {
		if len(s.lines) == 0 || s.spec.Silent {
			continue
		}
		*scID++
		m := map[string]any{"stream": s.spec.Name, "maxsize": s.spec.MaxSize, "noview": s.spec.NoView, "meter": s.spec.Meter}
		for k, v := range meta {
			m[k] = v
		}
		tw.Emit(map[string]any{"ev": "New", "sc": *scID, "C": s.spec.Cfg, "meta": m})
		for _, l := range s.lines {
			l["sc"] = *scID
			tw.Emit(l)
		}
		n++
	}
	return n
}

func countRegimes(res *vh.Result, sc *scenario) {
	res.Count("overlapped_pairs", int64(sc.overlapped))
	res.Count("deferred_projections", int64(sc.nDeferred))
	res.Count("concurrent_batches", int64(sc.storms))
	res.Count("callback_error_points", int64(sc.cbErrors))
	res.Count("aborted_collection_points", int64(sc.aborts))
	res.Count("twin_first_measurements", int64(sc.twins))
	res.Count("twin_second_waited", int64(sc.twinWaited))
	res.Count("twin_second_ran_inside_first", int64(sc.twinInside))
	res.Count("mid_collection_measurements", int64(sc.mids))
	res.Count("mid_measurement_waited", int64(sc.midWaited))
	res.Count("mid_measurement_ran_inside_collection", int64(sc.midInside))
	res.Count("overlap_second_waited", int64(sc.overlapHeld))
	res.Count("overlap_second_ran_inside_first", int64(sc.overlapInside))
	for _, s := range sc.streams {
		if s.spec.Silent {
			continue
		}
		// the collection points of the stream, an overlapped pair in its primary order
		type point struct{ d, c RD }
		var pts []point
		for _, l := range s.lines {
			if l["ev"] == "Abort" {
				continue
			}
			if l["ev"] == "Over" || l["ev"] == "Mid" {
				for _, k := range []string{"p1", "p2"} {
					m := l[k].(map[string]any)
					pts = append(pts, point{m["d"].(RD), m["c"].(RD)})
				}
				continue
			}
			pts = append(pts, point{l["d"].(RD), l["c"].(RD)})
		}
		for i, pt := range pts {
			d, c := pt.d, pt.c
			if !d.Has && i > 0 {
				res.Count("delta_empty_cycles", 1)
				if i+1 < len(pts) && pts[i+1].d.Has {
					res.Count("delta_point_after_empty_cycle", 1)
				}
			}
			for a := range d.Pts {
				if d.Pts[a].P && i > 0 && !pts[i-1].d.Pts[a].P {
					seenBefore := false
					for q := 0; q < i-1; q++ {
						if pts[q].d.Pts[a].P {
							seenBefore = true
						}
					}
					if seenBefore {
						res.Count("set_reappears_after_gap", 1)
					}
				}
				if c.Pts[a].P && !d.Pts[a].P {
					res.Count("cum_only_points", 1)
				}
				if d.Pts[a].P {
					res.Count("delta_points", 1)
					if d.Pts[a].Sc < 0 {
						res.Count("expo_negative_scale_points", 1)
					}
					switch {
					case d.Pts[a].Sprev == "eq":
						res.Count("delta_start_eq_previous_time", 1)
					case i > 0:
						res.Count("delta_start_after_gap", 1)
					}
				}
				if c.Pts[a].P {
					res.Count("cum_points", 1)
					if c.Pts[a].Sc < 0 {
						res.Count("expo_negative_scale_points", 1)
					}
					if s.spec.Wide && i > 0 && pts[i-1].c.Pts[a].P && c.Pts[a].Sc < pts[i-1].c.Pts[a].Sc {
						res.Count("wide_cumulative_rescaled_between_cycles", 1)
					}
				}
				if s.spec.Wide && d.Pts[a].P && c.Pts[a].P && d.Pts[a].Sc != c.Pts[a].Sc {
					res.Count("wide_delta_and_cumulative_at_different_scales", 1)
				}
			}
		}
	}
}

// ---------------------------------------------------------------- spec -> code: replay of TLC edges

type edge struct {
	Path []Op `json:"path"`
	Act  Op   `json:"act"`
	K    int  `json:"k"`
}

// heartbeat: a companion stream of the replayed scenarios, measured once before every collection
// point, so that each reader reports at least one timestamp per collection (the structural
// non-overlap relation sgap of the stream under test is then never vacuous).  It reports the same
// metricdata type as the stream under test (same aggregation and number type, always with a sum),
// so the two streams exchange their reused ResourceMetrics memory whenever one of them is silent.
const heartbeatName = "heartbeat"

func heartbeatFor(sp StreamSpec) StreamSpec {
	hb := StreamSpec{Cfg: Cfg{Agg: sp.Agg, NA: 1, Vals: []int64{7}, Unit: sp.Unit, Bounds: []int64{}, NCB: 1},
		Name: heartbeatName, Meter: sp.Meter, Silent: true, NoGate: true}
	if sp.Wide {
		hb.Unit = 4
	}
	switch sp.Agg {
	case "sum":
		hb.Kind, hb.NoView = "Counter", true
	case "last":
		hb.Kind, hb.NoView = "Gauge", true
	case "hist":
		hb.Kind, hb.NoView = "Histogram", true
	default:
		hb.Kind = "Histogram"
	}
	return hb
}

// overlapCandidates: positions i such that ops[i] and ops[i+1] are collection points with the same
// callback table and nothing in between -- in the specification two consecutive DoCollectPoint
// steps; on the real provider they may be executed as two OVERLAPPING collections of one reader.
func overlapCandidates(ops []Op) []int {
	var out []int
	for i := 0; i+1 < len(ops); i++ {
		if ops[i].Op != "Collect" || ops[i+1].Op != "Collect" || len(ops[i].Obs) != len(ops[i+1].Obs) ||
			len(ops[i].Fail)+len(ops[i+1].Fail) > 0 {
			continue
		}
		same := true
		for q := range ops[i].Obs {
			same = same && ops[i].Obs[q] == ops[i+1].Obs[q]
		}
		if same {
			out = append(out, i)
		}
	}
	return out
}

// twinCandidates: positions i such that ops[i], ops[i+1] are measurements of the same attribute set
// (executed as two goroutines, the first held in the reservoir provider); midCandidates: positions i
// of a collection point followed by exactly one measurement and another collection point (executed
// with the measurement made WHILE a reader collects the first point).
func twinCandidates(ops []Op) []int {
	var out []int
	for i := 0; i+1 < len(ops); i++ {
		if ops[i].Op == "Rec" && ops[i+1].Op == "Rec" && ops[i].A == ops[i+1].A {
			out = append(out, i)
		}
	}
	return out
}

func midCandidates(ops []Op) []int {
	var out []int
	for i := 0; i+2 < len(ops); i++ {
		if ops[i].Op == "Collect" && ops[i+1].Op == "Rec" && ops[i+2].Op == "Collect" {
			out = append(out, i)
		}
	}
	return out
}

// plan of one replayed edge: at most one special execution (-1 = none)
type plan struct{ overlapAt, twinAt, midAt, x int }

// runOps executes the operations on the stream under test.
func runOps(sc *scenario, s *stream, ops []Op, deltaFirst bool, pl plan) {
	for i := 0; i < len(ops); i++ {
		op := ops[i]
		if hb := sc.byName[heartbeatName]; hb != nil && op.Op == "Collect" {
			sc.record(hb, 1, 1)
		}
		switch op.Op {
		case "Rec":
			if i == pl.twinAt {
				sc.recordTwin(recOp{s, op.A, op.J}, recOp{s, ops[i+1].A, ops[i+1].J})
				i++
			} else {
				sc.record(s, op.A, op.J)
			}
		case "Reg":
			sc.register(op.C)
		case "Unreg":
			sc.unregister(op.C)
		case "Abort":
			copy(s.table, op.Obs)
			sc.collectAborted(sc.rng.Intn(2))
		case "Collect":
			copy(s.table, op.Obs)
			if len(op.Fail) > 0 {
				sc.failing = map[int]cbFault{}
				for _, c := range op.Fail {
					sc.failing[c] = cbFault{[]string{"plain", "canceled", "deadline"}[sc.rng.Intn(3)], -1}
				}
			}
			switch {
			case i == pl.overlapAt:
				sc.collectOverlapped(pl.x)
				i++
			case i == pl.midAt:
				m := ops[i+1]
				if sc.collectMid(pl.x, func(*stream) (recOp, bool) { return recOp{s, m.A, m.J}, true }) {
					i += 2 // the measurement and the following collection point are done
				}
			default:
				sc.collect(deltaFirst)
			}
		default:
			panic("unknown op " + op.Op)
		}
	}
}

// of the replayed edges that contain a candidate pair, about one in overlapEvery is overlapped
// (until the budget is used up), so that the pairs spread over the whole edge list
const overlapEvery = 3

func replay(args []string) {
	fs := flag.NewFlagSet("replay", flag.ExitOnError)
	edgesF := fs.String("edges", "", "")
	cfgJ := fs.String("cfg", "", "")
	out := fs.String("out", "trace.ndjson", "")
	resF := fs.String("res", "result.json", "")
	sample := fs.Int("sample", 0, "replay only every k-th edge offset by seed (0 = all)")
	overlap := fs.Int("overlap", 0, "execute up to n pairs of consecutive collection points as overlapping collections")
	twin := fs.Int("twin", 0, "execute up to n pairs of adjacent measurements of one set as concurrent (gated) first measurements")
	mid := fs.Int("mid", 0, "execute up to n measurements between two collection points during the first collection")
	fs.Parse(args)
	var spec StreamSpec
	vh.Must(json.Unmarshal([]byte(*cfgJ), &spec))
	raw, err := os.ReadFile(*edgesF)
	vh.Must(err)
	res := vh.NewResult()
	tw, err := vh.NewTraceWriter(*out)
	vh.Must(err)
	scID := 0
	dec := json.NewDecoder(bytesReader(raw))
	i := 0
	for dec.More() {
		var e edge
		vh.Must(dec.Decode(&e))
		i++
		res.Evaluations++
		if *sample > 1 && (int64(i)+vh.Seed())%int64(*sample) != 0 {
			continue
		}
		// ResourceMetrics reuse / reader registration order / collection order / creation order of the
		// two instruments vary with the edge, independently of the sampling above
		rng := rand.New(rand.NewSource(int64(i)*1000003 + vh.Seed()))
		variant := rng.Int63()
		specs := []StreamSpec{spec, heartbeatFor(spec)}
		if (variant/8)%2 == 0 {
			specs = []StreamSpec{specs[1], specs[0]}
		}
		sc := newScenario(rng, specs, spec.NCB, variant%2 == 0, (variant/2)%2 == 0)
		st := sc.byName[spec.Name]
		ops := append(append([]Op{}, e.Path...), e.Act)
		pl := plan{-1, -1, -1, int(variant/16) % 2}
		switch (variant / 64) % (3 * overlapEvery) {
		case 0:
			if cand := overlapCandidates(ops); *overlap > 0 && len(cand) > 0 {
				pl.overlapAt = cand[rng.Intn(len(cand))]
				*overlap--
			}
		case 1:
			if cand := twinCandidates(ops); *twin > 0 && len(cand) > 0 && !spec.NoView {
				pl.twinAt = cand[rng.Intn(len(cand))]
				*twin--
			}
		case 2:
			if cand := midCandidates(ops); *mid > 0 && len(cand) > 0 && !spec.NoView {
				pl.midAt = cand[rng.Intn(len(cand))]
				*mid--
			}
		}
		runOps(sc, st, ops, (variant/4)%2 == 0, pl)
		sc.shutdown()
		sc.flush(tw, &scID, map[string]any{"edge": i, "reuse": sc.reuse})
		res.Executed++
		res.Count("cycles", int64(st.ncycles))
		res.Count("unknown_metrics", int64(sc.errs))
		countRegimes(res, sc)
		if res.Executed%1999 == 1 {
			res.Sample(map[string]any{"cfg": spec.Cfg, "ops": ops, "last": st.lines[len(st.lines)-1]})
		}
	}
	vh.Must(tw.Close())
	res.Count("trace_lines", tw.N)
	res.Count("otel_errors", otelErrors.Load())
	vh.Must(res.Write(*resF))
}

// ---------------------------------------------------------------- code -> spec: long random histories

var monoVals = []int64{0, 1, 2, 3, 5, 8, 100, 1000}
var signedVals = []int64{-3, -1, 0, 1, 2, 5, 100}
var customBounds = []int64{-2, 0, 1, 3, 100}

func randomSpecs(rng *rand.Rand, na, ncb int) []StreamSpec {
	type ka struct{ kind, agg string }
	combos := []ka{
		{"Counter", "sum"}, {"Counter", "hist"}, {"Counter", "expo"},
		{"UpDownCounter", "sum"}, {"UpDownCounter", "hist"}, {"UpDownCounter", "expo"},
		{"Histogram", "hist"}, {"Histogram", "expo"}, {"Histogram", "sum"},
		{"Gauge", "last"}, {"Gauge", "hist"}, {"Gauge", "expo"},
		{"ObsCounter", "sum"}, {"ObsUpDownCounter", "sum"}, {"ObsGauge", "last"},
		{"ObsCounter", "hist"}, {"ObsUpDownCounter", "expo"}, {"ObsGauge", "hist"}, {"ObsCounter", "expo"},
	}
	specs := []StreamSpec{}
	for i, c := range combos {
		sp := StreamSpec{Name: fmt.Sprintf("s%02d.%s.%s", i, c.kind, c.agg), Meter: rng.Intn(2)}
		sp.Kind, sp.Agg, sp.NA, sp.NCB = c.kind, c.agg, na, ncb
		sp.Unit = 1
		if rng.Intn(2) == 0 {
			sp.Unit = 4
		}
		src := signedVals
		if c.kind == "Counter" || c.kind == "Histogram" || c.kind == "ObsCounter" {
			src = monoVals
		}
		// values are in 1/unit: int64 instruments record them as they are, float64 ones v/4
		sp.Vals = append([]int64{}, src...)
		sp.Bounds = []int64{}
		def := map[string]string{"Counter": "sum", "UpDownCounter": "sum", "Histogram": "hist", "Gauge": "last",
			"ObsCounter": "sum", "ObsUpDownCounter": "sum", "ObsGauge": "last"}[c.kind]
		if c.agg == def && rng.Intn(2) == 0 {
			sp.NoView = true
		}
		if c.agg == "hist" {
			b := customBounds
			if sp.NoView {
				b = defaultBounds
			}
			for _, x := range b {
				sp.Bounds = append(sp.Bounds, x*sp.Unit)
			}
		}
		if c.agg == "expo" {
			sp.MaxSize = []int32{160, 160, 20, 4, 2}[rng.Intn(5)]
		}
		specs = append(specs, sp)
	}
	// exponential histograms over a wide value range (powers of two over +-300 octaves, both sides of
	// 1, both signs, zero) with tiny and default MaxSize: the two readers rescale at different moments
	type wk struct {
		kind   string
		signed bool
		sizes  []int32
	}
	for i, w := range []wk{
		{"Histogram", false, []int32{2, 3, 4, 8}},
		{"Histogram", false, []int32{160}},
		{"Gauge", true, []int32{3, 4, 8, 160}},
		{"ObsUpDownCounter", true, []int32{2, 4, 160}},
	} {
		sp := StreamSpec{Name: fmt.Sprintf("w%02d.%s.expo", i, w.kind), Meter: rng.Intn(2), MaxSize: w.sizes[rng.Intn(len(w.sizes))]}
		sp.Kind, sp.Agg, sp.NA, sp.NCB, sp.Unit, sp.Bounds, sp.Wide = w.kind, "expo", na, ncb, 4, []int64{}, true
		sp.Vals, sp.Exps = wideAlphabet(rng, w.signed)
		specs = append(specs, sp)
	}
	return specs
}

// wideAlphabet: signs and exponents of a value alphabet made for fill -> rescale -> jump patterns: a
// cluster of adjacent octaves above a random base, increasingly distant octaves after it, the far
// ends of the range and the neighbourhood of 1; ascending by exponent within a sign; zero last.
func wideAlphabet(rng *rand.Rand, signed bool) (signs []int64, exps []int) {
	base := rng.Intn(541) - 290
	seen := map[int]bool{}
	var pos []int
	add := func(e int) {
		if !seen[e] && e >= -300 && e <= 300 {
			seen[e] = true
			pos = append(pos, e)
		}
	}
	for _, off := range []int{1, 2, 3, 4, 5, 6, 8, 9, 11, 14, 19, 27, 40} {
		add(base + off)
	}
	for _, e := range []int{-300, -1, 0, 1, 300} {
		if rng.Intn(2) == 0 {
			add(e)
		}
	}
	sort.Ints(pos)
	for _, e := range pos {
		signs, exps = append(signs, 1), append(exps, e)
	}
	if signed {
		for i, e := range pos {
			if i%2 == 0 || i < 6 {
				signs, exps = append(signs, -1), append(exps, e)
			}
		}
	}
	return append(signs, 0), append(exps, 0)
}

// burst: consecutive alphabet entries of one sign, ascending, from a random position
func wideBurst(rng *rand.Rand, sp StreamSpec) []int {
	sign := int64(1)
	if rng.Intn(3) == 0 {
		sign = -1
	}
	var js []int
	for j, sg := range sp.Vals {
		if sg == sign {
			js = append(js, j+1)
		}
	}
	if len(js) == 0 {
		return nil
	}
	from := rng.Intn(len(js))
	n := 3 + rng.Intn(8)
	if from+n > len(js) {
		n = len(js) - from
	}
	return js[from : from+n]
}

func random(args []string) {
	fs := flag.NewFlagSet("random", flag.ExitOnError)
	n := fs.Int("n", 20, "")
	out := fs.String("out", "trace.ndjson", "")
	resF := fs.String("res", "result.json", "")
	fs.Parse(args)
	rng := rand.New(rand.NewSource(vh.Seed()*7919 + 17))
	tw, err := vh.NewTraceWriter(*out)
	vh.Must(err)
	res := vh.NewResult()
	scID := 0
	for run := 0; run < *n; run++ {
		na := 6
		ncb := 1 + rng.Intn(3)
		specs := randomSpecs(rng, na, ncb)
		reuse := rng.Intn(3) > 0
		sc := newScenario(rng, specs, ncb, reuse, rng.Intn(2) == 0)
		var syncS, asyncS []*stream
		for _, s := range sc.streams {
			if s.spec.async() {
				asyncS = append(asyncS, s)
			} else {
				syncS = append(syncS, s)
			}
		}
		faultKind := []int{0, 0, 1, 1, 2}[rng.Intn(5)] // a scenario has callback errors, or aborted collections, or neither
		steps := 50 + rng.Intn(151)
		// a scenario has a temperament: how often it collects and how sticky the tables are
		pCollect := 8 + rng.Intn(25)
		hot := 1 + rng.Intn(na) // most measurements go to the first `hot` attribute sets
		for i := 0; i < steps; i++ {
			x := rng.Intn(100)
			switch {
			case x < pCollect || i == steps-1:
				switch rng.Intn(14) {
				case 0, 1:
					sc.collectOverlapped(rng.Intn(2))
				case 2, 3:
					// a measurement while a reader is inside the collection of the stream's aggregate
					sc.collectMid(rng.Intn(2), func(held *stream) (recOp, bool) {
						if held == nil || held.spec.async() {
							return recOp{}, false
						}
						return recOp{held, 1 + rng.Intn(na), 1 + rng.Intn(len(held.spec.Vals))}, true
					})
				default:
					switch {
					case faultKind == 1 && rng.Intn(4) == 0:
						// callback outcomes: one or two callbacks return an error, after all or some of
						// their observations (cut 0 = without observing)
						sc.failing = map[int]cbFault{}
						for n := 1 + rng.Intn(2); n > 0; n-- {
							sc.failing[rng.Intn(ncb)] = cbFault{[]string{"plain", "canceled", "deadline"}[rng.Intn(3)],
								[]int{-1, -1, 0, 1, 2}[rng.Intn(5)]}
						}
					case faultKind == 2 && rng.Intn(5) == 0:
						sc.collectAborted(rng.Intn(2)) // ... and a healthy collection point follows at once
					}
					sc.collect(rng.Intn(2) == 0)
				}
			case x >= 90:
				// concurrent recorders (joined before anything else happens)
				pickS := func() *stream { return syncS[rng.Intn(len(syncS))] }
				switch rng.Intn(4) {
				case 0: // two first measurements of one set at once, the first held in the reservoir provider
					s, a := pickS(), 1+rng.Intn(na)
					sc.recordTwin(recOp{s, a, 1 + rng.Intn(len(s.spec.Vals))}, recOp{s, a, 1 + rng.Intn(len(s.spec.Vals))})
				case 1: // mixed traffic from 2-8 goroutines
					batches := make([][]recOp, 2+rng.Intn(7))
					for n := 8 + rng.Intn(17); n > 0; n-- {
						s, g := pickS(), rng.Intn(len(batches))
						batches[g] = append(batches[g], recOp{s, 1 + rng.Intn(na), 1 + rng.Intn(len(s.spec.Vals))})
					}
					sc.recordConcurrent(batches)
				default: // storm: 4-8 goroutines hit the SAME (stream, attribute set) together, 1-2 values each
					s, a := pickS(), 1+rng.Intn(na)
					batches := make([][]recOp, 4+rng.Intn(5))
					for g := range batches {
						for n := 1 + rng.Intn(2); n > 0; n-- {
							batches[g] = append(batches[g], recOp{s, a, 1 + rng.Intn(len(s.spec.Vals))})
						}
					}
					sc.recordConcurrent(batches)
				}
			case x < pCollect+12:
				c := 1 + rng.Intn(3)
				if c < ncb {
					if _, ok := sc.regs[c]; ok {
						sc.unregister(c)
						res.Count("unregister", 1)
					} else {
						sc.register(c)
						res.Count("register", 1)
					}
				}
			case x < pCollect+35:
				s := asyncS[rng.Intn(len(asyncS))]
				a := 1 + rng.Intn(na)
				if rng.Intn(3) == 0 {
					s.table[a-1] = 0
				} else {
					s.table[a-1] = 1 + rng.Intn(len(s.spec.Vals))
				}
				if rng.Intn(10) == 0 { // a whole table disappears
					for q := range s.table {
						s.table[q] = 0
					}
				}
			default:
				s := syncS[rng.Intn(len(syncS))]
				a := 1 + rng.Intn(na)
				if rng.Intn(4) > 0 {
					a = 1 + rng.Intn(hot)
				}
				if s.spec.Wide && rng.Intn(3) == 0 {
					// fill -> rescale -> jump: an ascending run of octaves into one attribute set,
					// now and then cut by a collection point (the delta stream starts afresh there)
					for _, j := range wideBurst(rng, s.spec) {
						sc.record(s, a, j)
						if rng.Intn(5) == 0 {
							sc.collect(rng.Intn(2) == 0)
						}
					}
					res.Count("wide_bursts", 1)
					break
				}
				sc.record(s, a, 1+rng.Intn(len(s.spec.Vals)))
			}
		}
		sc.shutdown()
		countRegimes(res, sc)
		res.Count("stream_traces", int64(sc.flush(tw, &scID, map[string]any{"run": run, "reuse": reuse, "ncb": ncb, "steps": steps})))
		res.Count("unknown_metrics", int64(sc.errs))
		res.Executed++
		res.Evaluations += int64(steps)
		if run == 0 {
			res.Sample(map[string]any{"run": run, "steps": steps, "streams": len(sc.streams), "first": sc.streams[0].lines[0]})
		}
	}
	vh.Must(tw.Close())
	res.Count("trace_lines", tw.N)
	res.Count("otel_errors", otelErrors.Load())
	vh.Must(res.Write(*resF))
}

// ---------------------------------------------------------------- directed reproductions (docs/notes/C08.md)

// probe prints what a real provider reports for the two minimal histories behind the findings
// of known_findings/C08.json.  It decides nothing (the check's verdicts come from TLC); it is the
// shortest way to look at the behaviour by hand and to see that a candidate fix changes it.
func probe(args []string) {
	fs := flag.NewFlagSet("probe", flag.ExitOnError)
	name := fs.String("name", "stale-sum", "stale-sum | async-hist-stale-set")
	fs.Parse(args)
	ctx := context.Background()
	show := func(label string, rm *metricdata.ResourceMetrics) {
		for _, sm := range rm.ScopeMetrics {
			for _, m := range sm.Metrics {
				_, temp, raw := projectData(m.Data, 1)
				for _, rp := range raw {
					enc, _ := rp.attrs.MarshalJSON()
					fmt.Printf("%s: metric=%s temporality=%s attrs=%s count=%d sum=%d value=%d buckets=%v\n",
						label, m.Name, temp, enc, rp.pt.N, rp.pt.S, rp.pt.V, rp.pt.B)
				}
			}
		}
	}
	switch *name {
	case "stale-sum":
		// An UpDownCounter aggregated as a histogram never collects a sum.  With a reused
		// ResourceMetrics its data point takes over the memory another histogram used before.
		rd := sdkmetric.NewManualReader()
		mp := sdkmetric.NewMeterProvider(sdkmetric.WithReader(rd), sdkmetric.WithView(sdkmetric.NewView(
			sdkmetric.Instrument{Name: "updown"},
			sdkmetric.Stream{Aggregation: sdkmetric.AggregationExplicitBucketHistogram{Boundaries: []float64{0, 10}}})))
		m := mp.Meter("probe")
		ud, err := m.Int64UpDownCounter("updown")
		vh.Must(err)
		h, err := m.Int64Histogram("hist", metric.WithExplicitBucketBoundaries(0, 10))
		vh.Must(err)
		rm := &metricdata.ResourceMetrics{}
		h.Record(ctx, 7)
		vh.Must(rd.Collect(ctx, rm))
		show("collection 1", rm)
		ud.Add(ctx, 1)
		vh.Must(rd.Collect(ctx, rm))
		show("collection 2 (same ResourceMetrics)", rm)
		fresh := &metricdata.ResourceMetrics{}
		vh.Must(rd.Collect(ctx, fresh))
		show("collection 3 (fresh ResourceMetrics)", fresh)
	case "async-hist-stale-set":
		// An observable counter aggregated as a histogram, cumulative reader: the set is observed
		// in the first cycle only.
		rd := sdkmetric.NewManualReader()
		mp := sdkmetric.NewMeterProvider(sdkmetric.WithReader(rd), sdkmetric.WithView(sdkmetric.NewView(
			sdkmetric.Instrument{Name: "obs"},
			sdkmetric.Stream{Aggregation: sdkmetric.AggregationExplicitBucketHistogram{Boundaries: []float64{0, 10}}})))
		m := mp.Meter("probe")
		observeIt := true
		_, err := m.Int64ObservableCounter("obs", metric.WithInt64Callback(func(_ context.Context, o metric.Int64Observer) error {
			if observeIt {
				o.Observe(5, metric.WithAttributes(attribute.String("k", "x")))
			}
			return nil
		}))
		vh.Must(err)
		for cycle := 1; cycle <= 3; cycle++ {
			observeIt = cycle == 1
			rm := &metricdata.ResourceMetrics{}
			vh.Must(rd.Collect(ctx, rm))
			fmt.Printf("cycle %d: observed=%v, metrics reported=%d\n", cycle, observeIt, func() int {
				n := 0
				for _, sm := range rm.ScopeMetrics {
					n += len(sm.Metrics)
				}
				return n
			}())
			show(fmt.Sprintf("cycle %d", cycle), rm)
		}
	default:
		fmt.Println("unknown probe", *name)
		os.Exit(3)
	}
}

// ---------------------------------------------------------------- misc

var otelErrors atomic.Int64

type errCounter struct{}

func (errCounter) Handle(error) { otelErrors.Add(1) }

func bytesReader(b []byte) *bytes.Reader { return bytes.NewReader(b) }

func main() {
	for _, k := range []string{"OTEL_GO_X_CARDINALITY_LIMIT", "OTEL_GO_X_EXEMPLAR", "OTEL_METRICS_EXEMPLAR_FILTER", "OTEL_GO_X_RESOURCE"} {
		os.Unsetenv(k)
	}
	otel.SetErrorHandler(errCounter{})
	if len(os.Args) < 2 {
		fmt.Println("usage: c08 replay|random|probe ...")
		os.Exit(3)
	}
	switch os.Args[1] {
	case "replay":
		replay(os.Args[2:])
	case "random":
		random(os.Args[2:])
	case "probe":
		probe(os.Args[2:])
	default:
		os.Exit(3)
	}
}
