// c02 values: the VALUE domain of measurements (MetricValue.tla / Trace_MetricValue.tla, property C02).
//
//	c02 values replay -edges EDGES -cfg JSON -res R     spec -> code: every Collect edge TLC printed for MetricValue.tla is
//	                                                    replayed on the real SDK (path to the source state + the collection)
//	                                                    under every concretisation; the reported sums are compared with the
//	                                                    edge's `out` (= the statement's answer computed by TLC)
//	c02 values random -n N -out TRACE -res R            code -> spec: seeded random histories (several instruments, attribute
//	                                                    sets, readers, value classes), validated by Trace_MetricValue.tla
//
// The harness only executes and projects.  A model value v (an integer: signed base-4 digit c*4^k) is recorded as
// v*scale in the instrument's number type (int64: 1, 2^33; float64: 1, 2^-20, 2^600 -- powers of two, so every sum is
// exact); a reported value is projected back by dividing by the scale (not a multiple of it = not projectable = "bad").
// A stream without a data point reports 0.  An observable instrument's callback observes the application's own
// running total of the stream.
package main

import (
	"context"
	"encoding/json"
	"flag"
	"fmt"
	"math"
	"math/rand"
	"os"
	"runtime"
	"sort"
	"strings"
	"sync"
	"time"

	"go.opentelemetry.io/otel/attribute"
	"go.opentelemetry.io/otel/metric"
	sdkmetric "go.opentelemetry.io/otel/sdk/metric"
	"go.opentelemetry.io/otel/sdk/metric/metricdata"
	"go.opentelemetry.io/otel/sdk/resource"
	"go.opentelemetry.io/otel/sdk/verifh/vh"
)

// ------------------------------------------------------------------ configuration (shared with the TLC constants)

type vStream struct {
	Inst  string `json:"inst"`  // counter | updown | ocounter | oupdown
	Name  string `json:"name"`  // instrument name (streams of one instrument share it)
	Attr  int    `json:"attr"`  // attribute set {a: Attr}
	Num   string `json:"num"`   // int64 | float64   (random scenarios; replay: the concretisation decides)
	Scale string `json:"scale"` // unit | large | frac | huge
}
type vReader struct {
	Temp string `json:"temp"` // delta | cumulative
	Kind string `json:"kind"` // manual | periodic (collection point = ForceFlush / final collection of Shutdown)
}
type vConfig struct {
	Name   string             `json:"name"`
	SK     map[string]vStream `json:"sk"`
	RD     map[string]vReader `json:"rd"`
	ROrder []string           `json:"rorder"` // registration order of the readers
}

// ------------------------------------------------------------------ concretisation of model values

func scalesOf(num string) []string {
	if num == "int64" {
		return []string{"unit", "large"}
	}
	return []string{"unit", "frac", "huge"}
}

const vLargeShift = 33 // 4^14 * 2^33 = 2^61: the largest sums stay below 2^63

func vExp(scale string) int {
	switch scale {
	case "frac":
		return -20
	case "huge":
		return 600
	}
	return 0
}
func concI(v int64, scale string) int64 {
	if scale == "large" {
		return v << vLargeShift
	}
	return v
}
func concF(v int64, scale string) float64 { return math.Ldexp(float64(v), vExp(scale)) }

// projection back to model integers; ok=false: the reported number is not v*scale for any model integer v
func projI(x int64, scale string) (int64, bool) {
	if scale == "large" {
		if x&(1<<vLargeShift-1) != 0 {
			return 0, false
		}
		return x >> vLargeShift, true
	}
	if x > math.MaxInt32 || x < -math.MaxInt32 {
		return 0, false
	}
	return x, true
}
func projF(x float64, scale string) (int64, bool) {
	q := math.Ldexp(x, -vExp(scale))
	if math.IsNaN(q) || math.IsInf(q, 0) || q != math.Trunc(q) || math.Abs(q) > math.MaxInt32 {
		return 0, false
	}
	return int64(q), true
}

// ------------------------------------------------------------------ one world = one MeterProvider on the real SDK

type vExporter struct {
	temp metricdata.Temporality
	w    *vworld
	mu   sync.Mutex
	got  []vReport
}
type vReport struct {
	vals map[string]int64
	bad  map[string]string
}

func (e *vExporter) Temporality(sdkmetric.InstrumentKind) metricdata.Temporality { return e.temp }
func (e *vExporter) Aggregation(k sdkmetric.InstrumentKind) sdkmetric.Aggregation {
	return sdkmetric.DefaultAggregationSelector(k)
}
func (e *vExporter) Export(_ context.Context, rm *metricdata.ResourceMetrics) error {
	r := e.w.project(rm) // rm is pooled by the reader: project before returning
	e.mu.Lock()
	e.got = append(e.got, r)
	e.mu.Unlock()
	return nil
}
func (e *vExporter) ForceFlush(context.Context) error { return nil }
func (e *vExporter) Shutdown(context.Context) error   { return nil }
func (e *vExporter) take() []vReport {
	e.mu.Lock()
	defer e.mu.Unlock()
	g := e.got
	e.got = nil
	return g
}

type vLive struct {
	c      vReader
	manual *sdkmetric.ManualReader
	per    *sdkmetric.PeriodicReader
	exp    *vExporter
	rm     metricdata.ResourceMetrics // reused between collections, like an application would
}

type vworld struct {
	cfg     vConfig
	mp      *sdkmetric.MeterProvider
	readers map[string]*vLive
	byName  map[string]map[int]string // lower-case instrument name -> attr -> stream key
	addI    map[string]func(context.Context, int64, ...metric.AddOption)
	addF    map[string]func(context.Context, float64, ...metric.AddOption)
	opt     map[string]metric.MeasurementOption
	mu      sync.Mutex       // guards app / touched (callbacks run inside collections)
	app     map[string]int64 // observable streams: the application's own running total (model integers)
	touched map[string]bool
}

func newWorld(cfg vConfig) *vworld {
	w := &vworld{cfg: cfg, readers: map[string]*vLive{}, byName: map[string]map[int]string{},
		addI: map[string]func(context.Context, int64, ...metric.AddOption){},
		addF: map[string]func(context.Context, float64, ...metric.AddOption){},
		opt:  map[string]metric.MeasurementOption{}, app: map[string]int64{}, touched: map[string]bool{}}
	opts := []sdkmetric.Option{sdkmetric.WithResource(resource.Empty())}
	for _, rn := range cfg.ROrder {
		rc := cfg.RD[rn]
		temp := metricdata.CumulativeTemporality
		if rc.Temp == "delta" {
			temp = metricdata.DeltaTemporality
		}
		lr := &vLive{c: rc}
		if rc.Kind == "periodic" {
			lr.exp = &vExporter{temp: temp, w: w}
			lr.per = sdkmetric.NewPeriodicReader(lr.exp, sdkmetric.WithInterval(time.Hour), sdkmetric.WithTimeout(60*time.Second))
			opts = append(opts, sdkmetric.WithReader(lr.per))
		} else {
			t := temp
			lr.manual = sdkmetric.NewManualReader(sdkmetric.WithTemporalitySelector(
				func(sdkmetric.InstrumentKind) metricdata.Temporality { return t }))
			opts = append(opts, sdkmetric.WithReader(lr.manual))
		}
		w.readers[rn] = lr
	}
	w.mp = sdkmetric.NewMeterProvider(opts...)
	meter := w.mp.Meter("c02v")
	// instruments: the streams of one instrument name share kind / number type / scale
	keys := vh.SortedKeys(cfg.SK)
	insts := map[string][]string{}
	var names []string
	for _, k := range keys {
		sc := cfg.SK[k]
		ln := strings.ToLower(sc.Name)
		if w.byName[ln] == nil {
			w.byName[ln] = map[int]string{}
			names = append(names, sc.Name)
		}
		w.byName[ln][sc.Attr] = k
		insts[sc.Name] = append(insts[sc.Name], k)
		w.opt[k] = metric.WithAttributeSet(attribute.NewSet(attribute.Int("a", sc.Attr)))
	}
	for _, name := range names {
		ks := insts[name]
		sc := cfg.SK[ks[0]]
		var err error
		switch {
		case sc.Inst == "counter" && sc.Num == "int64":
			var c metric.Int64Counter
			c, err = meter.Int64Counter(name)
			w.addI[name] = c.Add
		case sc.Inst == "counter":
			var c metric.Float64Counter
			c, err = meter.Float64Counter(name)
			w.addF[name] = c.Add
		case sc.Inst == "updown" && sc.Num == "int64":
			var c metric.Int64UpDownCounter
			c, err = meter.Int64UpDownCounter(name)
			w.addI[name] = c.Add
		case sc.Inst == "updown":
			var c metric.Float64UpDownCounter
			c, err = meter.Float64UpDownCounter(name)
			w.addF[name] = c.Add
		case sc.Num == "int64":
			cb := metric.WithInt64Callback(func(_ context.Context, o metric.Int64Observer) error {
				w.mu.Lock()
				defer w.mu.Unlock()
				for _, k := range ks {
					if w.touched[k] {
						o.Observe(concI(w.app[k], sc.Scale), w.opt[k].(metric.ObserveOption))
					}
				}
				return nil
			})
			if sc.Inst == "ocounter" {
				_, err = meter.Int64ObservableCounter(name, cb)
			} else {
				_, err = meter.Int64ObservableUpDownCounter(name, cb)
			}
		default:
			cb := metric.WithFloat64Callback(func(_ context.Context, o metric.Float64Observer) error {
				w.mu.Lock()
				defer w.mu.Unlock()
				for _, k := range ks {
					if w.touched[k] {
						o.Observe(concF(w.app[k], sc.Scale), w.opt[k].(metric.ObserveOption))
					}
				}
				return nil
			})
			if sc.Inst == "ocounter" {
				_, err = meter.Float64ObservableCounter(name, cb)
			} else {
				_, err = meter.Float64ObservableUpDownCounter(name, cb)
			}
		}
		vh.Must(err)
	}
	return w
}

func (w *vworld) add(k string, v int64) {
	sc := w.cfg.SK[k]
	switch {
	case sc.Inst == "ocounter" || sc.Inst == "oupdown":
		w.mu.Lock()
		w.app[k] += v
		w.touched[k] = true
		w.mu.Unlock()
	case sc.Num == "int64":
		w.addI[sc.Name](context.Background(), concI(v, sc.Scale), w.opt[k].(metric.AddOption))
	default:
		w.addF[sc.Name](context.Background(), concF(v, sc.Scale), w.opt[k].(metric.AddOption))
	}
}

// project: reported data points -> model integers per stream key (absent = 0 is applied by the caller)
func (w *vworld) project(rm *metricdata.ResourceMetrics) vReport {
	r := vReport{vals: map[string]int64{}, bad: map[string]string{}}
	seen := map[string]bool{}
	for _, sm := range rm.ScopeMetrics {
		for _, md := range sm.Metrics {
			byAttr := w.byName[strings.ToLower(md.Name)]
			if byAttr == nil {
				continue
			}
			one := func(set attribute.Set, v int64, ok bool, raw string) {
				av, has := set.Value("a")
				k, known := byAttr[int(av.AsInt64())]
				if !has || !known || set.Len() != 1 {
					r.bad["?"+md.Name] = "data point with an attribute set never recorded: " + set.Encoded(attribute.DefaultEncoder())
					return
				}
				if seen[k] {
					r.bad[k] = "stream reported in two data points of one collection"
					return
				}
				seen[k] = true
				if !ok {
					r.bad[k] = "reported value " + raw + " is not a multiple of the scale"
					return
				}
				r.vals[k] = v
			}
			switch d := md.Data.(type) {
			case metricdata.Sum[int64]:
				for _, dp := range d.DataPoints {
					k := byAttr[attrOf(dp.Attributes)]
					v, ok := projI(dp.Value, w.cfg.SK[k].Scale)
					one(dp.Attributes, v, ok && w.cfg.SK[k].Num == "int64", fmt.Sprint(dp.Value))
				}
			case metricdata.Sum[float64]:
				for _, dp := range d.DataPoints {
					k := byAttr[attrOf(dp.Attributes)]
					v, ok := projF(dp.Value, w.cfg.SK[k].Scale)
					one(dp.Attributes, v, ok && w.cfg.SK[k].Num == "float64", fmt.Sprint(dp.Value))
				}
			default:
				r.bad["?"+md.Name] = fmt.Sprintf("not a sum: %T", md.Data)
			}
		}
	}
	return r
}

func attrOf(set attribute.Set) int {
	av, _ := set.Value("a")
	return int(av.AsInt64())
}

// collect: one collection point of reader rn (via: Collect | FF | SD); ok=false: the collection point did not happen
// as planned (error, not exactly one export) -- never a verdict
func (w *vworld) collect(rn, via string) (vReport, string) {
	lr := w.readers[rn]
	ctx := context.Background()
	if lr.manual != nil {
		if err := lr.manual.Collect(ctx, &lr.rm); err != nil {
			return vReport{}, "Collect: " + err.Error()
		}
		return w.project(&lr.rm), ""
	}
	var err error
	if via == "SD" {
		err = lr.per.Shutdown(ctx)
	} else {
		err = lr.per.ForceFlush(ctx)
	}
	if err != nil {
		return vReport{}, via + ": " + err.Error()
	}
	g := lr.exp.take()
	if len(g) != 1 {
		return vReport{}, fmt.Sprintf("%s: %d exports", via, len(g))
	}
	return g[0], ""
}

func (w *vworld) close() { _ = w.mp.Shutdown(context.Background()) }

// ------------------------------------------------------------------ spec -> code: edge replay

type vAct struct {
	Op    string           `json:"op"`
	S     string           `json:"s"`
	C     int              `json:"c"`
	V     int64            `json:"v"`
	Back  bool             `json:"back"` // v = minus the stream's running total: the total returns to exactly zero
	R     string           `json:"r"`
	Temp  string           `json:"temp"`
	Out   map[string]int64 `json:"out"`
	ND    map[string]bool  `json:"nd"`
	Floor map[string]int64 `json:"floor"`
}

type vConc struct {
	num, scale string
	periodic   bool
}

func vclass(acts []vAct, k string) string {
	var neg, zero, pos, back bool
	for _, a := range acts {
		if a.Op == "Add" && a.S == k {
			neg, zero, pos, back = neg || a.V < 0, zero || a.V == 0, pos || a.V > 0, back || a.Back
		}
	}
	var c []string
	for _, x := range []struct {
		b bool
		s string
	}{{neg, "neg"}, {zero, "zero"}, {pos, "pos"}, {back, "back"}} {
		if x.b {
			c = append(c, x.s)
		}
	}
	if len(c) == 0 {
		return "none"
	}
	return strings.Join(c, "+")
}

// per-class quota: a deviation with thousands of hits must not crowd out another class (vh.Result keeps 200 mismatches)
var (
	vQuotaMu sync.Mutex
	vQuota   = map[string]int{}
)

func addMismatchQ(res *vh.Result, m vh.Mismatch) {
	b, _ := json.Marshal(m.Case)
	vQuotaMu.Lock()
	vQuota[string(b)]++
	n := vQuota[string(b)]
	vQuotaMu.Unlock()
	res.Count("mismatch_"+m.Kind, 1)
	if n <= 2 {
		res.AddMismatch(m)
	}
}

func replayEdge(base vConfig, acts []vAct, cc vConc, res *vh.Result) {
	cfg := vConfig{Name: base.Name, SK: map[string]vStream{}, RD: map[string]vReader{}, ROrder: base.ROrder}
	for k, s := range base.SK {
		s.Num, s.Scale = cc.num, cc.scale
		cfg.SK[k] = s
	}
	for r, rc := range base.RD {
		rc.Kind = "manual"
		if cc.periodic {
			rc.Kind = "periodic"
		}
		cfg.RD[r] = rc
	}
	w := newWorld(cfg)
	defer w.close()
	for i, a := range acts {
		if a.Op == "Add" {
			w.add(a.S, a.V)
			if a.Back {
				res.Count("replay_adds_back_to_zero", 1)
			}
			res.Count("replay_adds_"+map[bool]string{true: "neg", false: map[bool]string{true: "zero", false: "pos"}[a.V == 0]}[a.V < 0], 1)
			continue
		}
		got, fail := w.collect(a.R, map[bool]string{true: "FF", false: "Collect"}[cc.periodic])
		if fail != "" {
			res.Inconcl("values replay: collection point failed: " + fail)
			return
		}
		last := i == len(acts)-1
		diff := false
		for _, k := range vh.SortedKeys(a.Out) {
			want := a.Out[k]
			g, bad := got.vals[k], got.bad[k] // absent = 0
			if bad == "" && g == want {
				continue
			}
			diff = true
			if !last {
				break // reported at the edge of that collection
			}
			kind := "sum-mismatch"
			switch {
			case bad != "":
				kind = "unrepresentable-sum"
			case a.ND[k] && g < a.Floor[k]:
				kind = "monotonic-decreased"
			}
			sk := cfg.SK[k]
			addMismatchQ(res, vh.Mismatch{Kind: kind,
				Case: map[string]any{"stage": "values", "dir": "spec->code", "kind": kind, "inst": sk.Inst, "num": cc.num, "scale": cc.scale,
					"temp": a.Temp, "rkind": cfg.RD[a.R].Kind, "vclass": vclass(acts, k)},
				Path: acts[:i], Act: a, Want: want, Got: map[string]any{"value": g, "unprojectable": bad, "stream": k, "config": cfg.Name}})
		}
		for k, why := range got.bad {
			if _, planned := a.Out[k]; !planned && last {
				addMismatchQ(res, vh.Mismatch{Kind: "unrepresentable-sum",
					Case: map[string]any{"stage": "values", "dir": "spec->code", "kind": "unrepresentable-sum", "num": cc.num, "scale": cc.scale,
						"temp": a.Temp}, Path: acts[:i], Act: a, Detail: why})
			}
		}
		if diff {
			if !last {
				res.Count("replay_paths_cut_at_an_earlier_deviation", 1)
			}
			return
		}
	}
	res.Count("replay_worlds", 1)
}

func valuesReplay(edgesFile, cfgJSON string, res *vh.Result) {
	var base vConfig
	vh.Must(json.Unmarshal([]byte(cfgJSON), &base))
	g, err := vh.LoadEdges(edgesFile)
	vh.Must(err)
	var concs []vConc
	for _, num := range []string{"int64", "float64"} {
		for _, sc := range scalesOf(num) {
			concs = append(concs, vConc{num, sc, false})
		}
	}
	concs = append(concs, vConc{"int64", "unit", true}, vConc{"float64", "frac", true})
	type job struct {
		acts []vAct
		cc   vConc
	}
	jobs := make(chan job, 256)
	var wg sync.WaitGroup
	nw := runtime.GOMAXPROCS(0) / 2
	if nw < 2 {
		nw = 2
	}
	for i := 0; i < nw; i++ {
		wg.Add(1)
		go func() {
			defer wg.Done()
			for j := range jobs {
				replayEdge(base, j.acts, j.cc, res)
			}
		}()
	}
	var nedges int64
	for i, e := range g.Edges {
		var a vAct
		vh.Must(json.Unmarshal(e.Act, &a))
		if a.Op != "Collect" {
			continue // an Add has no observable result of its own: it is checked by every collection that follows it
		}
		raw, ok := g.Path(i)
		if !ok {
			res.Inconcl(fmt.Sprintf("edge %d: source not reachable in BFS tree", i))
			continue
		}
		acts := make([]vAct, 0, len(raw)+1)
		for _, r := range raw {
			var pa vAct
			vh.Must(json.Unmarshal(r, &pa))
			acts = append(acts, pa)
		}
		acts = append(acts, a)
		nedges++
		for _, cc := range concs {
			jobs <- job{acts, cc}
		}
	}
	close(jobs)
	wg.Wait()
	res.Executed += nedges
	res.Count("replay_collect_edges", nedges)
	res.Count("replay_edges_total", int64(len(g.Edges)))
}

// ------------------------------------------------------------------ code -> spec: random histories

func valuesRandom(n int, tw *vh.TraceWriter, res *vh.Result) {
	r := rand.New(rand.NewSource(vh.Seed()*15485863 + 17))
	for sc := 0; sc < n; sc++ {
		cfg := vConfig{Name: fmt.Sprintf("rand%d", sc), SK: map[string]vStream{}, RD: map[string]vReader{}}
		nr := 1 + r.Intn(3)
		for i := 0; i < nr; i++ {
			rn := fmt.Sprintf("r%d", i+1)
			cfg.RD[rn] = vReader{Temp: []string{"delta", "delta", "cumulative"}[r.Intn(3)], Kind: []string{"manual", "manual", "periodic"}[r.Intn(3)]}
			cfg.ROrder = append(cfg.ROrder, rn)
		}
		ni := 1 + r.Intn(3)
		var keys []string
		for i := 0; i < ni; i++ {
			num := []string{"int64", "float64"}[r.Intn(2)]
			scs := scalesOf(num)
			st := vStream{Inst: []string{"counter", "counter", "updown", "ocounter", "oupdown"}[r.Intn(5)], Name: fmt.Sprintf("Vinst%d", i+1),
				Num: num, Scale: scs[r.Intn(len(scs))]}
			for a, na := 0, 1+r.Intn(3); a < na; a++ {
				st.Attr = a + 1
				k := fmt.Sprintf("k%d_%d", i+1, a+1)
				cfg.SK[k] = st
				keys = append(keys, k)
			}
		}
		w := newWorld(cfg)
		tw.Emit(map[string]any{"ev": "Cfg", "sc": sc, "sk": cfg.SK, "rd": cfg.RD})
		// value regime of the scenario: mostly positive (the common case), mixed signs, mostly negative
		pneg := []int{5, 35, 80}[r.Intn(3)]
		digit := map[string]int{}
		total := map[string]int64{}
		live := append([]string{}, cfg.ROrder...)
		nops := 8 + r.Intn(60)
		collect := func(rn, via string) {
			got, fail := w.collect(rn, via)
			if fail != "" {
				res.Inconcl("values random: collection point failed: " + fail)
				tw.Emit(map[string]any{"ev": "Skip", "sc": sc})
				return
			}
			vals := map[string]int64{}
			for _, k := range keys {
				vals[k] = got.vals[k] // absent = 0
			}
			bad := []string{}
			for _, k := range vh.SortedKeys(got.bad) {
				bad = append(bad, k)
			}
			sort.Strings(bad)
			tw.Emit(map[string]any{"ev": "Collect", "sc": sc, "r": rn, "via": via, "got": vals, "bad": bad})
			res.Count("random_collections_"+cfg.RD[rn].Temp+"_"+via, 1)
		}
		for op := 0; op < nops && len(live) > 0; op++ {
			if r.Intn(4) == 0 {
				rn := live[r.Intn(len(live))]
				via := "Collect"
				if cfg.RD[rn].Kind == "periodic" {
					via = "FF"
				}
				collect(rn, via)
				continue
			}
			k := keys[r.Intn(len(keys))]
			var v int64
			back := false
			switch x := r.Intn(100); {
			case x < 10 && total[k] != 0: // the application's total returns to exactly zero (bookkeeping of the inputs, not an expectation)
				v, back = -total[k], true
			case x < 22 || digit[k] >= 15:
				v = 0
			default:
				v = int64(1) << (2 * uint(digit[k]))
				digit[k]++
				if r.Intn(100) < pneg {
					v = -v
				}
			}
			tw.Emit(map[string]any{"ev": "Add", "sc": sc, "s": k, "v": v, "back": back})
			w.add(k, v)
			total[k] += v
			if back {
				res.Count("random_adds_back_to_zero_"+cfg.SK[k].Inst, 1)
			}
			res.Count("random_adds_"+cfg.SK[k].Inst+"_"+map[bool]string{true: "neg", false: map[bool]string{true: "zero", false: "pos"}[v == 0]}[v < 0], 1)
		}
		// final collection points: Shutdown of a periodic reader performs one, every other reader collects once more
		for _, rn := range live {
			if cfg.RD[rn].Kind == "periodic" && r.Intn(2) == 0 {
				collect(rn, "SD")
			} else if cfg.RD[rn].Kind == "periodic" {
				collect(rn, "FF")
			} else {
				collect(rn, "Collect")
			}
		}
		w.close()
		res.Executed++
	}
}

func valuesMain(args []string) {
	if len(args) < 1 {
		fmt.Println("usage: c02 values replay|random ...")
		os.Exit(3)
	}
	fs := flag.NewFlagSet("values", flag.ExitOnError)
	edges := fs.String("edges", "", "")
	cfg := fs.String("cfg", "", "")
	n := fs.Int("n", 100, "")
	out := fs.String("out", "trace.ndjson", "")
	resF := fs.String("res", "result.json", "")
	fs.Parse(args[1:])
	res := vh.NewResult()
	switch args[0] {
	case "replay":
		valuesReplay(*edges, *cfg, res)
	case "random":
		tw, err := vh.NewTraceWriter(*out)
		vh.Must(err)
		valuesRandom(*n, tw, res)
		vh.Must(tw.Close())
		res.Count("trace_lines", tw.N)
	default:
		os.Exit(3)
	}
	res.Evaluations = res.Executed
	vh.Must(res.Write(*resF))
}
