// c02: conformance harness for MetricSum.tla / Trace_MetricSum.tla (property C02).
//
//	c02 random  -n N [-storm] -out TRACE -res R    seeded random scenarios (many goroutines Add while others Collect,
//	                                               periodic readers tick, ForceFlush / Shutdown at random points)
//	c02 scripts -in FILE -out TRACE -res R         TLC behaviours / directed schedules replayed with natural gates
//
// The harness only executes and projects.  Measurement i of a stream (instrument, attribute set) has the
// value +-4^i, so the base-4 digits of every reported sum are the multiplicities of the measurements; the
// harness decodes the digits and logs them, every expectation lives in MetricSumContract.tla.
//
// Natural gates (no hooks in /repo): the exemplar filter (user code, called by valueMap.measure while the
// stream mutex is held, with the ctx of the Add call) holds a recorder inside the per-pipeline critical
// section; an observable callback (called by pipeline.produce while the pipeline mutex is held, with the
// ctx of the Collect / Shutdown call) holds a collection before its compute functions; the exporter holds
// the periodic reader's run loop / Shutdown after the collection.
package main

import (
	"context"
	"encoding/json"
	"errors"
	"flag"
	"fmt"
	"math"
	"math/big"
	"math/rand"
	"os"
	"runtime"
	"sort"
	"strconv"
	"strings"
	"sync"
	"sync/atomic"
	"time"

	"go.opentelemetry.io/otel"
	"go.opentelemetry.io/otel/attribute"
	"go.opentelemetry.io/otel/metric"
	sdkmetric "go.opentelemetry.io/otel/sdk/metric"
	"go.opentelemetry.io/otel/sdk/metric/metricdata"
	"go.opentelemetry.io/otel/sdk/resource"
	"go.opentelemetry.io/otel/sdk/verifh/vh"
)

// ------------------------------------------------------------------ scenario description

type ReaderC struct {
	Name       string `json:"name"`
	Temp       string `json:"temp"` // delta | cumulative
	Kind       string `json:"kind"` // manual | periodic
	IntervalUs int    `json:"intervalUs"`
	ExpMode    string `json:"expMode"` // ok | slow | failing
	BadAgg     bool   `json:"badAgg"`  // the reader's aggregation selector is unusable for counters: resolution fails for this reader
}
type InstC struct {
	Name string `json:"name"`
	Kind string `json:"kind"` // counter | updown | ocounter (observable counter: its callback observes 1 for every stream)
	Num  string `json:"num"`  // int64 | float64
	Late bool   `json:"late"` // created by the first recorder that uses it (while collections run)
	Unit string `json:"unit"`
	Desc string `json:"desc"`
	// AliasOf: this entry is a second request for instrument AliasOf with identical parameters (Name may differ in
	// letter case only): documented to return the same instrument -- measurements through both handles add up in one stream
	AliasOf *int `json:"aliasOf,omitempty"`
}

// identity under which the application sees an instrument's data: collected metrics are projected by
// (name (case-insensitive), monotonic = counter / not = up-down counter, number type, unit, description)
func identity(name string, mono bool, num, unit, desc string) string {
	k := "updown"
	if mono {
		k = "counter"
	}
	return strings.ToLower(name) + "|" + k + "|" + num + "|" + unit + "|" + desc
}
func (ic InstC) identity() string {
	return identity(ic.Name, ic.Kind != "updown", ic.Num, ic.Unit, ic.Desc)
}

type StreamC struct {
	Key  string `json:"key"`
	Inst int    `json:"inst"`
	Attr int    `json:"attr"`
	N    int    `json:"n"`   // number of measurements planned
	Neg  []int  `json:"neg"` // indices recorded with a negative value (up-down counters only)
}
type AddC struct {
	Key string `json:"key"`
	I   int    `json:"i"`
	Via *int   `json:"via,omitempty"` // instrument entry whose handle records it (default: the stream's own; else an alias)
}
type CallerC struct {
	Name     string `json:"name"`
	Reader   string `json:"reader"`
	N        int    `json:"n"`
	Provider bool   `json:"provider"` // through MeterProvider.ForceFlush / Shutdown
	DelayUs  int    `json:"delayUs"`
}
type Scenario struct {
	Name       string    `json:"name"`
	Readers    []ReaderC `json:"readers"`
	Insts      []InstC   `json:"insts"`
	Streams    []StreamC `json:"streams"`
	Recs       [][]AddC  `json:"recs"`
	Cols       []CallerC `json:"cols"`
	Flushers   []CallerC `json:"flushers"`
	Stoppers   []CallerC `json:"stoppers"`
	Callback   bool      `json:"callback"`
	Filter     bool      `json:"filter"`
	Script     []string  `json:"script,omitempty"`
	Perturb    float64   `json:"perturb"`
	Storm      bool      `json:"storm"`
	OwnHandles bool      `json:"ownHandles"`
	CbErrPct   int       `json:"cbErrPct"`        // the observable callback returns an error in this share of its calls
	CbErrAt    []int     `json:"cbErrAt"`         // ... and at these invocations (1-based count per scenario), for directed schedules
	BadView    bool      `json:"badView"`         // two views match every instrument: one asks for an incompatible aggregation, one is valid
	Hammer     int       `json:"hammer"`          // goroutines hammering the hot attribute sets with Add(0): keeps the stream mutexes contended
	Cold       int       `json:"cold"`            // extra attribute sets per instrument, kept alive with Add(0): makes the snapshot copy long
	Steps      []string  `json:"steps,omitempty"` // choreography: start:K sleep:MS awaitpark:K awaitq:N release:K
	Seed       int64     `json:"seed"`
}

// ------------------------------------------------------------------ event log (one atomic sequence number)

type pt struct {
	K string `json:"k"`
	M []int  `json:"m"`
}
type ivT struct {
	inst  string
	st, t time.Time
}
type event struct {
	ready int32
	ev    string
	op    string
	proc  string
	rd    string
	src   string
	key   string
	i     int
	err   string
	pts   []pt
	bad   bool
	ivs   []ivT
}

type evlog struct {
	n    int64
	evs  []event
	over int32
}

func newLog(capacity int) *evlog { return &evlog{evs: make([]event, capacity)} }

// put takes the sequence number (the slot index) first, then fills the slot: the order of the slots is a
// real-time-consistent total order of the put calls.
func (l *evlog) put(e event) {
	idx := atomic.AddInt64(&l.n, 1) - 1
	if idx >= int64(len(l.evs)) {
		atomic.StoreInt32(&l.over, 1)
		return
	}
	s := &l.evs[idx]
	s.ev, s.op, s.proc, s.rd, s.src, s.key, s.i, s.err, s.pts, s.bad, s.ivs = e.ev, e.op, e.proc, e.rd, e.src, e.key, e.i, e.err, e.pts, e.bad, e.ivs
	atomic.StoreInt32(&s.ready, 1)
}

// ------------------------------------------------------------------ identities travelling in ctx

type addKey struct{}
type addInfo struct {
	gate string // "g1:2"
	n    *int32 // number of exemplar-filter calls so far = pipelines already entered
	sc   int
}
type procKey struct{}
type procInfo struct {
	gate string // "c1:2" / "s1"
	proc string
	sc   int
}

// ------------------------------------------------------------------ projection of collected data

type streamInfo struct {
	key string
	n   int
	neg map[int]bool
}

type projector struct {
	streams map[string]map[int]*streamInfo // instrument identity -> attr value -> stream
	names   map[string]bool                // lower-case names of the scenario's instruments
}

var big4 = big.NewInt(4)

// decode returns the multiplicity (0..3) of every planned measurement of the stream in the reported sum.
func decode(v *big.Int, si *streamInfo) (m []int, ok bool) {
	s := new(big.Int).Set(v)
	m = make([]int, si.n)
	d := new(big.Int)
	for i := 0; i < si.n; i++ {
		d.Mod(s, big4) // Euclidean: 0..3
		c := int(d.Int64())
		if si.neg[i] {
			c = (4 - c) % 4
			s.Add(s, big.NewInt(int64(c)))
		} else {
			s.Sub(s, big.NewInt(int64(c)))
		}
		m[i] = c
		s.Quo(s, big4)
	}
	return m, s.Sign() == 0
}

func (p *projector) project(rm *metricdata.ResourceMetrics) (pts []pt, ivs []ivT, bad bool) {
	pts = []pt{}
	ivs = []ivT{}
	for _, sm := range rm.ScopeMetrics {
		for _, md := range sm.Metrics {
			if !p.names[strings.ToLower(md.Name)] {
				continue // the callback gate instrument (never reports) or foreign data
			}
			ident := ""
			switch d := md.Data.(type) {
			case metricdata.Sum[int64]:
				ident = identity(md.Name, d.IsMonotonic, "int64", md.Unit, md.Description)
			case metricdata.Sum[float64]:
				ident = identity(md.Name, d.IsMonotonic, "float64", md.Unit, md.Description)
			}
			byAttr, known := p.streams[ident]
			if !known {
				bad = true // data under one of our names but under an identity the application never requested
				continue
			}
			seen := map[[2]int64]bool{}
			one := func(set attribute.Set, st, t time.Time, v *big.Int, okv bool) {
				if _, cold := set.Value("cold"); cold {
					// filler attribute set (only ever Add(0)): carries no measurement, must report zero
					if !okv || v.Sign() != 0 {
						bad = true
					}
					return
				}
				av, has := set.Value("a")
				si := byAttr[int(av.AsInt64())]
				if !has || si == nil || set.Len() != 1 {
					bad = true
					return
				}
				if !okv {
					bad = true
					pts = append(pts, pt{K: si.key, M: make([]int, si.n)})
				} else {
					m, ok := decode(v, si)
					if !ok {
						bad = true
					}
					pts = append(pts, pt{K: si.key, M: m})
				}
				k := [2]int64{st.UnixNano(), t.UnixNano()}
				if !seen[k] {
					seen[k] = true
					ivs = append(ivs, ivT{inst: ident, st: st, t: t})
				}
			}
			switch d := md.Data.(type) {
			case metricdata.Sum[int64]:
				for _, dp := range d.DataPoints {
					one(dp.Attributes, dp.StartTime, dp.Time, big.NewInt(dp.Value), true)
				}
			case metricdata.Sum[float64]:
				for _, dp := range d.DataPoints {
					f := dp.Value
					if f != math.Trunc(f) || math.Abs(f) >= 1<<62 || math.IsNaN(f) {
						one(dp.Attributes, dp.StartTime, dp.Time, nil, false)
					} else {
						one(dp.Attributes, dp.StartTime, dp.Time, big.NewInt(int64(f)), true)
					}
				}
			default:
				bad = true
			}
		}
	}
	return pts, ivs, bad
}

// ------------------------------------------------------------------ recording exporter (periodic readers)

type recExporter struct {
	rd        string
	temp      metricdata.Temporality
	mode      string
	log       *evlog
	proj      *projector
	sched     *vh.Sched
	sc        int
	mu        sync.Mutex
	rng       *rand.Rand
	badAgg    bool
	n         int64
	cancelled int64
}

func (e *recExporter) Temporality(sdkmetric.InstrumentKind) metricdata.Temporality { return e.temp }
func (e *recExporter) Aggregation(k sdkmetric.InstrumentKind) sdkmetric.Aggregation {
	return aggSelector(e.badAgg)(k)
}

// aggSelector returns the default selector, or (bad) one that asks for a last-value aggregation for every kind:
// incompatible with counters, so their resolution fails for a reader that uses it.
func aggSelector(bad bool) sdkmetric.AggregationSelector {
	if !bad {
		return sdkmetric.DefaultAggregationSelector
	}
	return func(sdkmetric.InstrumentKind) sdkmetric.Aggregation { return sdkmetric.AggregationLastValue{} }
}
func (e *recExporter) Export(ctx context.Context, rm *metricdata.ResourceMetrics) error {
	// rm is pooled by the reader: project it before returning
	pts, ivs, bad := e.proj.project(rm)
	src, gate := "run", "run_"+e.rd
	if pi, ok := ctx.Value(procKey{}).(procInfo); ok && pi.sc == e.sc {
		src, gate = pi.proc, pi.gate
	}
	e.log.put(event{ev: "Export", rd: e.rd, src: src, pts: pts, ivs: ivs, bad: bad})
	atomic.AddInt64(&e.n, 1)
	if ctx.Err() != nil && len(pts) > 0 {
		atomic.AddInt64(&e.cancelled, 1) // observation only: a non-empty payload handed over with an already cancelled ctx
	}
	e.sched.Arrive(gate + "@export")
	var err error
	if e.mode != "ok" {
		e.mu.Lock()
		k := e.rng.Intn(6)
		d := time.Duration(e.rng.Intn(600)) * time.Microsecond
		e.mu.Unlock()
		if k < 2 {
			time.Sleep(d)
		} else if k == 2 && e.mode == "failing" {
			err = errors.New("export failed") // the payload was handed over all the same
		}
	}
	return err
}
func (e *recExporter) ForceFlush(context.Context) error { return nil }
func (e *recExporter) Shutdown(context.Context) error   { return nil }

func errStr(err error) string {
	switch {
	case err == nil:
		return ""
	case errors.Is(err, sdkmetric.ErrReaderShutdown):
		return "shutdown"
	default:
		return "other"
	}
}

// ------------------------------------------------------------------ one scenario on the real SDK

type liveReader struct {
	c      ReaderC
	manual *sdkmetric.ManualReader
	per    *sdkmetric.PeriodicReader
	exp    *recExporter
}

func (r *liveReader) collect(ctx context.Context, rm *metricdata.ResourceMetrics) error {
	if r.manual != nil {
		return r.manual.Collect(ctx, rm)
	}
	return r.per.Collect(ctx, rm)
}
func (r *liveReader) shutdown(ctx context.Context) error {
	if r.manual != nil {
		return r.manual.Shutdown(ctx)
	}
	return r.per.Shutdown(ctx)
}

func pow4(i int) int64 { return int64(1) << (2 * uint(i)) }

func runScenario(scn int, sc Scenario, tw *vh.TraceWriter, res *vh.Result) {
	rng := rand.New(rand.NewSource(sc.Seed))
	sched := vh.NewSched(sc.Script, sc.Seed+7)
	sched.Perturb = sc.Perturb
	sched.Timeout = 150 * time.Millisecond
	nadds := 0
	for _, r := range sc.Recs {
		nadds += len(r)
	}
	log := newLog(4*nadds + 65536)
	proj := &projector{streams: map[string]map[int]*streamInfo{}, names: map[string]bool{}}
	for _, ic := range sc.Insts {
		proj.names[strings.ToLower(ic.Name)] = true
	}
	infos := map[string]*streamInfo{}
	for _, s := range sc.Streams {
		si := &streamInfo{key: s.Key, n: s.N, neg: map[int]bool{}}
		for _, i := range s.Neg {
			si.neg[i] = true
		}
		name := sc.Insts[s.Inst].identity()
		if proj.streams[name] == nil {
			proj.streams[name] = map[int]*streamInfo{}
		}
		proj.streams[name][s.Attr] = si
		infos[s.Key] = si
	}
	streamOf := map[string]StreamC{}
	for _, s := range sc.Streams {
		streamOf[s.Key] = s
	}

	// ---- provider
	readers := map[string]*liveReader{}
	var order []*liveReader
	opts := []sdkmetric.Option{sdkmetric.WithResource(resource.Empty())}
	for i, rc := range sc.Readers {
		temp := metricdata.CumulativeTemporality
		if rc.Temp == "delta" {
			temp = metricdata.DeltaTemporality
		}
		lr := &liveReader{c: rc}
		if rc.Kind == "periodic" {
			lr.exp = &recExporter{rd: rc.Name, temp: temp, mode: rc.ExpMode, log: log, proj: proj, sched: sched, sc: scn, badAgg: rc.BadAgg,
				rng: rand.New(rand.NewSource(sc.Seed + int64(i) + 11))}
			iv := time.Hour // scripted scenarios: no ticks (Go's ticker cannot be gated)
			if rc.IntervalUs > 0 {
				iv = time.Duration(rc.IntervalUs) * time.Microsecond
			}
			lr.per = sdkmetric.NewPeriodicReader(lr.exp, sdkmetric.WithInterval(iv), sdkmetric.WithTimeout(60*time.Second))
			opts = append(opts, sdkmetric.WithReader(lr.per))
		} else {
			t := temp
			lr.manual = sdkmetric.NewManualReader(sdkmetric.WithTemporalitySelector(
				func(sdkmetric.InstrumentKind) metricdata.Temporality { return t }),
				sdkmetric.WithAggregationSelector(aggSelector(rc.BadAgg)))
			opts = append(opts, sdkmetric.WithReader(lr.manual))
		}
		readers[rc.Name] = lr
		order = append(order, lr)
	}
	partial := sc.BadView
	for _, rc := range sc.Readers {
		partial = partial || rc.BadAgg
	}
	if sc.BadView {
		opts = append(opts, sdkmetric.WithView(
			sdkmetric.NewView(sdkmetric.Instrument{Name: "inst*"}, sdkmetric.Stream{Aggregation: sdkmetric.AggregationLastValue{}}),
			sdkmetric.NewView(sdkmetric.Instrument{Name: "inst*"}, sdkmetric.Stream{})))
	}
	ch := newChoreo(sc.Steps)
	if sc.Filter {
		opts = append(opts, sdkmetric.WithExemplarFilter(func(ctx context.Context) bool {
			if ai, ok := ctx.Value(addKey{}).(addInfo); ok && ai.sc == scn {
				p := atomic.AddInt32(ai.n, 1)
				key := fmt.Sprintf("%s@f%d", ai.gate, p)
				sched.Arrive(key)
				ch.park(key)
			}
			return false
		}))
	}
	mp := sdkmetric.NewMeterProvider(opts...)
	meter := mp.Meter("c02")

	cfgReaders := map[string]any{}
	for _, rc := range sc.Readers {
		cfgReaders[rc.Name] = map[string]any{"temp": rc.Temp, "kind": rc.Kind, "wired": !rc.BadAgg}
	}
	obsKeys := []string{}
	for _, st := range sc.Streams {
		if sc.Insts[st.Inst].Kind == "ocounter" {
			obsKeys = append(obsKeys, st.Key)
		}
	}

	// ---- instruments
	type instH struct {
		once sync.Once
		i64  metric.Int64Counter
		f64  metric.Float64Counter
		u64  metric.Int64UpDownCounter
		uf64 metric.Float64UpDownCounter
	}
	insts := make([]*instH, len(sc.Insts))
	mk := func(i int, h *instH) {
		ic := sc.Insts[i]
		if ic.AliasOf != nil { // the identical request: parameters of the original, only the letter case of the name may differ
			name := ic.Name
			ic = sc.Insts[*ic.AliasOf]
			ic.Name = name
		}
		var err error
		switch {
		case ic.Kind == "counter" && ic.Num == "int64":
			h.i64, err = meter.Int64Counter(ic.Name, metric.WithUnit(ic.Unit), metric.WithDescription(ic.Desc))
		case ic.Kind == "counter":
			h.f64, err = meter.Float64Counter(ic.Name, metric.WithUnit(ic.Unit), metric.WithDescription(ic.Desc))
		case ic.Num == "int64":
			h.u64, err = meter.Int64UpDownCounter(ic.Name, metric.WithUnit(ic.Unit), metric.WithDescription(ic.Desc))
		default:
			h.uf64, err = meter.Float64UpDownCounter(ic.Name, metric.WithUnit(ic.Unit), metric.WithDescription(ic.Desc))
		}
		if err != nil && partial {
			// documented: creation returns a usable instrument alongside the error; the application carries on with it
			res.Count("instrument_creation_errors", 1)
			err = nil
		}
		vh.Must(err)
		if h.i64 == nil && h.f64 == nil && h.u64 == nil && h.uf64 == nil {
			vh.Must(errors.New("instrument creation returned no instrument"))
		}
	}
	// observable counters: the callback observes 1 for each of the instrument's streams, from registration on
	// (recorded as one measurement <<key, 0>> whose Add returned when the registration returned)
	mkObs := func(i int) {
		ic := sc.Insts[i]
		var sets []metric.ObserveOption
		var keys []string
		for _, st := range sc.Streams {
			if st.Inst == i {
				sets = append(sets, metric.WithAttributeSet(attribute.NewSet(attribute.Int("a", st.Attr))))
				keys = append(keys, st.Key)
			}
		}
		for _, k := range keys {
			log.put(event{ev: "Call", op: "Add", key: k, i: 0})
		}
		var err error
		if ic.Num == "int64" {
			_, err = meter.Int64ObservableCounter(ic.Name, metric.WithInt64Callback(func(_ context.Context, o metric.Int64Observer) error {
				for _, a := range sets {
					o.Observe(1, a)
				}
				return nil
			}))
		} else {
			_, err = meter.Float64ObservableCounter(ic.Name, metric.WithFloat64Callback(func(_ context.Context, o metric.Float64Observer) error {
				for _, a := range sets {
					o.Observe(1, a)
				}
				return nil
			}))
		}
		if err != nil && partial {
			res.Count("instrument_creation_errors", 1)
			err = nil
		}
		vh.Must(err)
		for _, k := range keys {
			log.put(event{ev: "Ret", op: "Add", key: k, i: 0})
		}
	}
	for i := range sc.Insts {
		insts[i] = &instH{}
		if sc.Insts[i].Kind == "ocounter" {
			mkObs(i)
			continue
		}
		if !sc.Insts[i].Late {
			insts[i].once.Do(func() { mk(i, insts[i]) })
		}
	}
	if sc.Callback {
		var cbMu sync.Mutex
		cbCalls := 0
		cbRng := rand.New(rand.NewSource(sc.Seed + 5))
		_, err := meter.Int64ObservableGauge("cbgate", metric.WithInt64Callback(func(ctx context.Context, _ metric.Int64Observer) error {
			src := "run"
			if pi, ok := ctx.Value(procKey{}).(procInfo); ok {
				if pi.sc != scn {
					return nil
				}
				src = pi.proc
				sched.Arrive(pi.gate + "@cb")
			} else {
				// a collection without a caller identity is the run loop of a periodic reader; which one is not
				// observable here, scripted scenarios have at most one
				for _, rc := range sc.Readers {
					if rc.Kind == "periodic" {
						sched.Arrive("run_" + rc.Name + "@cb")
						break
					}
				}
			}
			if sc.CbErrPct > 0 || len(sc.CbErrAt) > 0 {
				cbMu.Lock()
				cbCalls++
				fail := sc.CbErrPct > 0 && cbRng.Intn(100) < sc.CbErrPct
				for _, k := range sc.CbErrAt {
					fail = fail || k == cbCalls
				}
				cbMu.Unlock()
				if fail {
					log.put(event{ev: "CbErr", src: src})
					return errors.New("callback failed")
				}
			}
			return nil
		}))
		vh.Must(err)
	}

	tw.Emit(map[string]any{"ev": "Cfg", "sc": scn, "name": sc.Name, "readers": cfgReaders, "obskeys": obsKeys, "partial": partial})

	var wg sync.WaitGroup
	var live sync.Map
	start := func(name string, f func()) {
		wg.Add(1)
		live.Store(name, true)
		go func() {
			defer wg.Done()
			defer live.Delete(name)
			f()
		}()
	}
	jitter := func(r *rand.Rand, maxUs int) {
		if sc.Script == nil && !sc.Storm && maxUs > 0 {
			if d := r.Intn(maxUs); d > 0 {
				time.Sleep(time.Duration(d) * time.Microsecond)
			}
		}
	}
	var addsStarted, addsDone, collectsStarted int64
	hotOpt := map[string]metric.MeasurementOption{}
	for _, st := range sc.Streams {
		hotOpt[st.Key] = metric.WithAttributeSet(attribute.NewSet(attribute.Int("a", st.Attr)))
	}
	// ---- background load (storms): Add(0) carries no measurement, so it needs no id and no log line, but it
	// queues on the stream mutexes like any other Add (sync.Mutex goes into starvation mode = FIFO hand-off,
	// which is what exposes a collection that needs the mutex twice) and keeps a large map of cold sets alive
	var stopBg int32
	var bg sync.WaitGroup
	addZero := func(i int, opt metric.MeasurementOption) {
		h := insts[i]
		h.once.Do(func() { mk(i, h) })
		switch {
		case h.i64 != nil:
			h.i64.Add(context.Background(), 0, opt)
		case h.f64 != nil:
			h.f64.Add(context.Background(), 0, opt)
		case h.u64 != nil:
			h.u64.Add(context.Background(), 0, opt)
		default:
			h.uf64.Add(context.Background(), 0, opt)
		}
	}
	for hmr := 0; hmr < sc.Hammer; hmr++ {
		hmr := hmr
		bg.Add(1)
		go func() {
			defer bg.Done()
			for n := hmr; atomic.LoadInt32(&stopBg) == 0; n++ {
				st := sc.Streams[n%len(sc.Streams)]
				if sc.Insts[st.Inst].Kind != "ocounter" {
					addZero(st.Inst, hotOpt[st.Key])
				}
			}
		}()
	}
	if sc.Cold > 0 {
		coldOpt := make([]metric.MeasurementOption, sc.Cold)
		for j := range coldOpt {
			coldOpt[j] = metric.WithAttributeSet(attribute.NewSet(attribute.Int("cold", j)))
		}
		for i := range sc.Insts {
			i := i
			if sc.Insts[i].Kind == "ocounter" {
				continue
			}
			bg.Add(1)
			go func() {
				defer bg.Done()
				for n := 0; atomic.LoadInt32(&stopBg) == 0; n++ {
					addZero(i, coldOpt[n%len(coldOpt)])
				}
			}()
		}
	}

	// ---- recorders
	for g, adds := range sc.Recs {
		g, adds := g, adds
		r := rand.New(rand.NewSource(rng.Int63()))
		name := fmt.Sprintf("g%d", g+1)
		start(name, func() {
			own := map[int]*instH{}
			for k, a := range adds {
				s := streamOf[a.Key]
				hidx := s.Inst
				if a.Via != nil {
					hidx = *a.Via
				}
				h := insts[hidx]
				if sc.OwnHandles && a.Via == nil { // every recorder asks the meter for its own handle (same aggregator through the cache)
					if own[s.Inst] == nil {
						own[s.Inst] = &instH{}
					}
					h = own[s.Inst]
				}
				h.once.Do(func() { mk(hidx, h) })
				ctx := context.Background()
				gate := ""
				if !sc.Storm {
					gate = fmt.Sprintf("%s:%d", name, k+1)
					var cnt int32
					ctx = context.WithValue(ctx, addKey{}, addInfo{gate: gate, n: &cnt, sc: scn})
				}
				opt := hotOpt[a.Key]
				v := pow4(a.I)
				if infos[a.Key].neg[a.I] {
					v = -v
				}
				jitter(r, 120)
				if !sc.Storm {
					sched.Arrive(gate + "@call")
					ch.waitStart(gate)
				} else if sc.Hammer > 0 && k > 0 {
					// spread the measurements over the collections: wait (briefly) for the next collection to begin
					seen := atomic.LoadInt64(&collectsStarted)
					for spin := 0; atomic.LoadInt64(&collectsStarted) == seen && spin < 400; spin++ {
						runtime.Gosched()
					}
				}
				atomic.AddInt64(&addsStarted, 1)
				log.put(event{ev: "Call", op: "Add", key: a.Key, i: a.I})
				switch {
				case h.i64 != nil:
					h.i64.Add(ctx, v, opt)
				case h.f64 != nil:
					h.f64.Add(ctx, float64(v), opt)
				case h.u64 != nil:
					h.u64.Add(ctx, v, opt)
				default:
					h.uf64.Add(ctx, float64(v), opt)
				}
				log.put(event{ev: "Ret", op: "Add", key: a.Key, i: a.I})
				atomic.AddInt64(&addsDone, 1)
			}
		})
	}
	// ---- collectors
	// rm is owned by the caller and reused across its collections (the documented pattern: produce and the
	// compute functions recycle the slices they find in it)
	doCollect := func(proc, gate string, lr *liveReader, rm *metricdata.ResourceMetrics) {
		ctx := context.WithValue(context.Background(), procKey{}, procInfo{gate: gate, proc: proc, sc: scn})
		sched.Arrive(gate + "@call")
		ch.waitStart(gate)
		atomic.AddInt64(&collectsStarted, 1)
		log.put(event{ev: "Call", op: "Collect", proc: proc, rd: lr.c.Name})
		err := lr.collect(ctx, rm)
		var pts []pt
		var ivs []ivT
		bad := false
		es := errStr(err)
		if es == "other" && (sc.CbErrPct > 0 || len(sc.CbErrAt) > 0) {
			es = "partial" // a callback failed: produce hands out the data together with the error
		}
		if es == "" || es == "partial" {
			pts, ivs, bad = proj.project(rm)
		}
		log.put(event{ev: "Ret", op: "Collect", proc: proc, rd: lr.c.Name, err: es, pts: pts, ivs: ivs, bad: bad})
	}
	for _, c := range sc.Cols {
		c := c
		r := rand.New(rand.NewSource(rng.Int63()))
		lr := readers[c.Reader]
		start(c.Name, func() {
			rm := &metricdata.ResourceMetrics{}
			jitter(r, c.DelayUs)
			for k := 0; k < c.N; k++ {
				if (!sc.Storm && r.Intn(4) == 0) || sc.CbErrPct > 0 || len(sc.CbErrAt) > 0 {
					rm = &metricdata.ResourceMetrics{} // sometimes a fresh one (always if Collect may fail half-way)
				}
				if sc.Storm {
					// pace: wait until another Add has started (or all are done) so that collections race with recording
					seen := atomic.LoadInt64(&addsStarted)
					for spin := 0; atomic.LoadInt64(&addsStarted) == seen && atomic.LoadInt64(&addsDone) < int64(nadds) && spin < 2000; spin++ {
						if spin%50 == 49 {
							time.Sleep(time.Microsecond)
						}
					}
				} else {
					jitter(r, 400)
				}
				doCollect(c.Name, fmt.Sprintf("%s:%d", c.Name, k+1), lr, rm)
			}
		})
	}
	// ---- ForceFlush / Shutdown callers
	periodicNames := []string{}
	for _, rc := range sc.Readers {
		if rc.Kind == "periodic" {
			periodicNames = append(periodicNames, rc.Name)
		}
	}
	allNames := []string{}
	for _, rc := range sc.Readers {
		allNames = append(allNames, rc.Name)
	}
	doCall := func(op, proc, gate string, c CallerC) {
		ctx := context.WithValue(context.Background(), procKey{}, procInfo{gate: gate, proc: proc, sc: scn})
		targets := []string{c.Reader}
		if c.Provider {
			targets = allNames
			if op == "FF" {
				targets = periodicNames // MeterProvider.ForceFlush only reaches readers that have a ForceFlush
			}
		}
		sched.Arrive(gate + "@call")
		for _, rd := range targets {
			log.put(event{ev: "Call", op: op, proc: proc + suffix(c.Provider, rd), rd: rd})
		}
		var err error
		switch {
		case c.Provider && op == "FF":
			err = mp.ForceFlush(ctx)
		case c.Provider:
			err = mp.Shutdown(ctx)
		case op == "FF":
			err = readers[c.Reader].per.ForceFlush(ctx)
		default:
			err = readers[c.Reader].shutdown(ctx)
		}
		es := errStr(err)
		if c.Provider && len(targets) > 1 && es != "" {
			es = "other" // joined error: cannot be attributed to one reader
		}
		for _, rd := range targets {
			log.put(event{ev: "Ret", op: op, proc: proc + suffix(c.Provider, rd), rd: rd, err: es})
		}
	}
	for _, f := range sc.Flushers {
		f := f
		r := rand.New(rand.NewSource(rng.Int63()))
		start(f.Name, func() {
			jitter(r, f.DelayUs)
			for k := 0; k < f.N; k++ {
				jitter(r, 600)
				gate := f.Name
				if f.N > 1 {
					gate = fmt.Sprintf("%s:%d", f.Name, k+1)
				}
				doCall("FF", f.Name, gate, f)
			}
		})
	}
	for _, z := range sc.Stoppers {
		z := z
		r := rand.New(rand.NewSource(rng.Int63()))
		start(z.Name, func() {
			jitter(r, z.DelayUs)
			doCall("SD", z.Name, z.Name, z)
		})
	}

	go ch.run()
	done := make(chan struct{})
	go func() { wg.Wait(); close(done) }()
	grace := 20 * time.Second // generous: a stuck goroutine only makes the scenario non-quiescent, never a verdict
	blocked := []string{}
	select {
	case <-done:
	case <-time.After(grace):
		live.Range(func(k, _ any) bool { blocked = append(blocked, k.(string)); return true })
	}
	quiescent := len(blocked) == 0
	ch.releaseAll()
	atomic.StoreInt32(&stopBg, 1)
	bg.Wait()
	res.Count("choreography_steps_timed_out", int64(atomic.LoadInt32(&ch.timedOut)))
	res.Count("choreography_steps", int64(len(sc.Steps)))
	if quiescent {
		// final phase: every reader collects once more after all Adds have returned (EveryReaderSeesAll);
		// periodic readers are flushed and shut down (final collection of Shutdown)
		for _, lr := range order {
			if lr.manual != nil {
				doCollect("fin_"+lr.c.Name, "fin_"+lr.c.Name, lr, &metricdata.ResourceMetrics{})
			} else {
				doCall("FF", "finF_"+lr.c.Name, "finF_"+lr.c.Name, CallerC{Reader: lr.c.Name})
				doCollect("fin_"+lr.c.Name, "fin_"+lr.c.Name, lr, &metricdata.ResourceMetrics{})
				doCall("SD", "finS_"+lr.c.Name, "finS_"+lr.c.Name, CallerC{Reader: lr.c.Name})
			}
		}
	}
	// stop the run loops in any case
	sctx, cancel := context.WithTimeout(context.Background(), 2*time.Second)
	_ = mp.Shutdown(sctx)
	cancel()

	followed, desync, remaining := sched.Stats()
	res.Count("script_steps_followed", int64(followed))
	res.Count("script_steps_desync", int64(desync+remaining))
	for _, k := range sched.Skipped {
		if i := strings.Index(k, "@"); i >= 0 {
			pt := k[i+1:]
			if strings.HasPrefix(pt, "f") && pt != "f" {
				pt = "filter"
			}
			res.Count("desync@"+pt, 1)
		}
	}
	if os.Getenv("C02_DEBUG") != "" && desync > 0 {
		fmt.Fprintf(os.Stderr, "sc %d %s skipped %v\n  script %v\n", scn, sc.Name, sched.Skipped, sc.Script)
	}
	if !quiescent || atomic.LoadInt32(&log.over) != 0 {
		res.Count("scenarios_abandoned", 1)
		tw.Emit(map[string]any{"ev": "EndScenario", "sc": scn, "quiescent": false, "blocked": blocked})
		return
	}
	// ---- dump the log: ranks of the SDK's own timestamps, one line per event
	n := int(atomic.LoadInt64(&log.n))
	var times []time.Time
	for i := 0; i < n; i++ {
		if atomic.LoadInt32(&log.evs[i].ready) == 0 {
			res.Count("scenarios_abandoned", 1)
			tw.Emit(map[string]any{"ev": "EndScenario", "sc": scn, "quiescent": false, "blocked": []string{"late-writer"}})
			return
		}
		for _, x := range log.evs[i].ivs {
			times = append(times, x.st, x.t)
		}
	}
	sort.Slice(times, func(a, b int) bool { return times[a].Compare(times[b]) < 0 })
	uniq := times[:0]
	for _, t := range times {
		if len(uniq) == 0 || uniq[len(uniq)-1].Compare(t) != 0 {
			uniq = append(uniq, t)
		}
	}
	rank := func(t time.Time) int {
		return sort.Search(len(uniq), func(i int) bool { return uniq[i].Compare(t) >= 0 })
	}
	var nonEmptyDelta, reports, exportsRun, exportsSD, ffOK, sdOK, collectErr, cbErrs int64
	for i := 0; i < n; i++ {
		e := &log.evs[i]
		m := map[string]any{"ev": e.ev, "sc": scn}
		switch {
		case e.ev == "CbErr":
			m["src"] = e.src
			cbErrs++
		case e.op == "Add":
			m["op"], m["k"], m["i"] = "Add", e.key, e.i
		case e.ev == "Call":
			m["op"], m["proc"], m["rd"] = e.op, e.proc, e.rd
		case e.ev == "Ret" && e.op != "Collect":
			m["op"], m["proc"], m["rd"], m["err"] = e.op, e.proc, e.rd, e.err
			if e.err == "" && e.op == "FF" {
				ffOK++
			}
			if e.err == "" && e.op == "SD" {
				sdOK++
			}
		default: // Ret Collect / Export
			if e.ev == "Ret" {
				m["op"], m["proc"], m["err"] = "Collect", e.proc, e.err
				if e.err == "shutdown" {
					collectErr++
				}
			} else {
				m["src"] = e.src
				if e.src == "run" {
					exportsRun++
				} else {
					exportsSD++
				}
			}
			m["rd"] = e.rd
			pts := e.pts
			if pts == nil {
				pts = []pt{}
			}
			ivs := []map[string]any{}
			for _, x := range e.ivs {
				ivs = append(ivs, map[string]any{"inst": x.inst, "st": rank(x.st), "t": rank(x.t)})
			}
			m["pts"], m["iv"], m["bad"] = pts, ivs, e.bad
			reports++
			if len(pts) > 0 && readers[e.rd].c.Temp == "delta" {
				nonEmptyDelta++
			}
		}
		tw.Emit(m)
	}
	tw.Emit(map[string]any{"ev": "EndScenario", "sc": scn, "quiescent": true, "blocked": []string{}})
	res.Count("adds", int64(nadds))
	res.Count("reports", reports)
	res.Count("reports_nonempty_delta", nonEmptyDelta)
	res.Count("exports_run_loop", exportsRun)
	res.Count("exports_shutdown", exportsSD)
	res.Count("forceflush_ok", ffOK)
	res.Count("shutdown_ok", sdOK)
	res.Count("collect_after_shutdown", collectErr)
	res.Count("callback_errors", cbErrs)
	for _, lr := range order {
		if lr.exp != nil {
			res.Count("nonempty_exports_with_cancelled_ctx", atomic.LoadInt64(&lr.exp.cancelled))
		}
	}
	// how many Adds were in flight across a report (Call before, Ret after the report's line): the races
	inflight := 0
	var racing int64
	for i := 0; i < n; i++ {
		e := &log.evs[i]
		switch {
		case e.op == "Add" && e.ev == "Call":
			inflight++
		case e.op == "Add" && e.ev == "Ret":
			inflight--
		case e.ev == "Export" || (e.ev == "Ret" && e.op == "Collect"):
			if inflight > 0 {
				racing++
			}
		}
	}
	res.Count("reports_with_adds_in_flight", racing)
}

func suffix(provider bool, rd string) string {
	if provider {
		return "@" + rd
	}
	return ""
}

// ------------------------------------------------------------------ choreography (forced schedules beyond gate order)

// choreo drives a scenario through steps that a gate script cannot express: "let this call start", "wait until
// N goroutines are queued on a sync.Mutex" (read off the runtime's goroutine dump), "hold this Add inside the
// stream mutex (exemplar filter) until released".  Every wait has a generous timeout; a step that times out only
// makes the forced schedule miss (counted), never a verdict.
type choreo struct {
	steps    []string
	mu       sync.Mutex
	starts   map[string]chan struct{}
	entered  map[string]chan struct{}
	release  map[string]chan struct{}
	timedOut int32
}

func newChoreo(steps []string) *choreo {
	c := &choreo{steps: steps, starts: map[string]chan struct{}{}, entered: map[string]chan struct{}{}, release: map[string]chan struct{}{}}
	for _, st := range steps {
		if k, ok := strings.CutPrefix(st, "start:"); ok {
			c.starts[k] = make(chan struct{})
		}
		if k, ok := strings.CutPrefix(st, "release:"); ok {
			c.entered[k] = make(chan struct{})
			c.release[k] = make(chan struct{})
		}
	}
	return c
}

func closeOnce(ch chan struct{}) {
	select {
	case <-ch:
	default:
		close(ch)
	}
}

// waitStart blocks a call whose gate has a start: step until the choreographer allows it.
func (c *choreo) waitStart(gate string) {
	if c == nil || len(c.steps) == 0 {
		return
	}
	if ch, ok := c.starts[gate]; ok {
		select {
		case <-ch:
		case <-time.After(15 * time.Second):
			atomic.AddInt32(&c.timedOut, 1)
		}
	}
}

// park holds the caller (inside the stream mutex) if key has a release: step.
func (c *choreo) park(key string) {
	if c == nil || len(c.steps) == 0 {
		return
	}
	if rel, ok := c.release[key]; ok {
		c.mu.Lock()
		closeOnce(c.entered[key])
		c.mu.Unlock()
		select {
		case <-rel:
		case <-time.After(15 * time.Second):
			atomic.AddInt32(&c.timedOut, 1)
		}
	}
}

func mutexWaiters() int {
	buf := make([]byte, 1<<20)
	n := runtime.Stack(buf, true)
	return strings.Count(string(buf[:n]), " [sync.Mutex.Lock")
}

func (c *choreo) run() {
	for _, st := range c.steps {
		kind, arg, _ := strings.Cut(st, ":")
		switch kind {
		case "start":
			c.mu.Lock()
			closeOnce(c.starts[arg])
			c.mu.Unlock()
		case "release":
			c.mu.Lock()
			closeOnce(c.release[arg])
			c.mu.Unlock()
		case "sleep":
			ms, _ := strconv.Atoi(arg)
			time.Sleep(time.Duration(ms) * time.Millisecond)
		case "awaitpark":
			if ch, ok := c.entered[arg]; ok {
				select {
				case <-ch:
				case <-time.After(5 * time.Second):
					atomic.AddInt32(&c.timedOut, 1)
				}
			}
		case "awaitq":
			want, _ := strconv.Atoi(arg)
			deadline := time.Now().Add(3 * time.Second)
			for mutexWaiters() < want {
				if time.Now().After(deadline) {
					atomic.AddInt32(&c.timedOut, 1)
					break
				}
				time.Sleep(200 * time.Microsecond)
			}
		}
	}
}

func (c *choreo) releaseAll() {
	c.mu.Lock()
	defer c.mu.Unlock()
	for _, ch := range c.starts {
		closeOnce(ch)
	}
	for _, ch := range c.release {
		closeOnce(ch)
	}
}

// ------------------------------------------------------------------ random scenarios

func randomScenario(r *rand.Rand, storm bool) Scenario {
	pick := func(xs ...int) int { return xs[r.Intn(len(xs))] }
	sc := Scenario{Seed: r.Int63(), Storm: storm, Filter: r.Intn(3) > 0, Callback: r.Intn(3) == 0, OwnHandles: r.Intn(4) == 0,
		Perturb: []float64{0, 0.15, 0.5}[r.Intn(3)]}
	if sc.Callback && r.Intn(3) == 0 {
		sc.CbErrPct = 10 + r.Intn(40)
	}
	nr := 1 + r.Intn(3)
	nper := 0
	for i := 0; i < nr; i++ {
		rc := ReaderC{Name: fmt.Sprintf("r%d", i+1), Temp: []string{"delta", "delta", "cumulative"}[r.Intn(3)], Kind: "manual", ExpMode: "ok"}
		if r.Intn(3) == 0 && nper < 2 {
			rc.Kind = "periodic"
			rc.IntervalUs = 300 + r.Intn(4700)
			rc.ExpMode = []string{"ok", "slow", "failing"}[r.Intn(3)]
			nper++
		}
		sc.Readers = append(sc.Readers, rc)
	}
	ni := 1 + r.Intn(3)
	for i := 0; i < ni; i++ {
		sc.Insts = append(sc.Insts, InstC{Name: fmt.Sprintf("inst%d", i+1), Kind: []string{"counter", "updown"}[r.Intn(2)],
			Num: []string{"int64", "float64"}[r.Intn(2)], Late: r.Intn(4) == 0})
	}
	ng := 1 + r.Intn(6)
	if storm {
		ng = 3 + r.Intn(6)
		sc.Perturb = 0
		sc.Callback = false
		sc.CbErrPct = 0
		sc.OwnHandles = false
		if r.Intn(4) > 0 { // hot-lock storm: contended stream mutexes, sometimes a big map under them
			sc.Hammer = runtime.GOMAXPROCS(0) * (1 + r.Intn(2))
			sc.Cold = []int{0, 0, 300, 3000}[r.Intn(4)]
		}
	}
	sc.Recs = make([][]AddC, ng)
	nk := 0
	for i, ic := range sc.Insts {
		na := 1 + r.Intn(3)
		for a := 0; a < na; a++ {
			nk++
			limit := 31
			if ic.Num == "float64" {
				limit = 26
			}
			n := 1 + r.Intn(limit)
			if storm {
				n = limit - r.Intn(4)
			}
			s := StreamC{Key: fmt.Sprintf("k%d", nk), Inst: i, Attr: a + 1, N: n, Neg: []int{}}
			for j := 0; j < n; j++ {
				if ic.Kind == "updown" && r.Intn(3) == 0 {
					s.Neg = append(s.Neg, j)
				}
				g := r.Intn(ng)
				sc.Recs[g] = append(sc.Recs[g], AddC{Key: s.Key, I: j})
			}
			sc.Streams = append(sc.Streams, s)
		}
	}
	for g := range sc.Recs {
		r.Shuffle(len(sc.Recs[g]), func(a, b int) { sc.Recs[g][a], sc.Recs[g][b] = sc.Recs[g][b], sc.Recs[g][a] })
		if sc.Recs[g] == nil {
			sc.Recs[g] = []AddC{}
		}
	}
	nc := r.Intn(4)
	if storm {
		nc = 1 + r.Intn(3)
	}
	for i := 0; i < nc; i++ {
		c := CallerC{Name: fmt.Sprintf("c%d", i+1), Reader: sc.Readers[r.Intn(nr)].Name, N: 1 + r.Intn(12), DelayUs: r.Intn(800)}
		if storm {
			c.N = 10 + r.Intn(30)
		}
		sc.Cols = append(sc.Cols, c)
	}
	var pers []string
	for _, rc := range sc.Readers {
		if rc.Kind == "periodic" {
			pers = append(pers, rc.Name)
		}
	}
	if len(pers) > 0 {
		for i, nf := 0, r.Intn(3); i < nf; i++ {
			sc.Flushers = append(sc.Flushers, CallerC{Name: fmt.Sprintf("f%d", i+1), Reader: pers[r.Intn(len(pers))], N: 1 + r.Intn(3),
				Provider: r.Intn(4) == 0, DelayUs: r.Intn(1500)})
		}
	}
	for i, ns := 0, pick(0, 0, 1, 1, 2); i < ns; i++ {
		sc.Stoppers = append(sc.Stoppers, CallerC{Name: fmt.Sprintf("s%d", i+1), Reader: sc.Readers[r.Intn(nr)].Name,
			Provider: r.Intn(5) == 0, DelayUs: r.Intn(4000)})
	}
	if sc.Cols == nil {
		sc.Cols = []CallerC{}
	}
	if sc.Flushers == nil {
		sc.Flushers = []CallerC{}
	}
	if sc.Stoppers == nil {
		sc.Stoppers = []CallerC{}
	}
	return sc
}

// partialScenario: provider configurations in which instrument creation partially fails (some readers cannot
// resolve the instrument, or one of several matching views is unusable) while the application keeps using the
// instrument the API returned alongside the error.  Mostly sequential: a few Adds, every reader collects.
func partialScenario(r *rand.Rand) Scenario {
	sc := Scenario{Seed: r.Int63(), Filter: r.Intn(2) == 0, Name: "partial"}
	nr := 2 + r.Intn(3)
	mode := r.Intn(4) // 0: bad selector(s)  1: bad view  2: both  3: control (no error)
	bad := map[int]bool{}
	if mode == 0 || mode == 2 {
		switch r.Intn(4) {
		case 0:
			bad[0] = true // first registered
		case 1:
			bad[nr-1] = true // last registered
		case 2:
			bad[nr/2] = true // a middle one (the last of two)
		default:
			for i := 0; i < nr; i++ {
				bad[i] = r.Intn(2) == 0
			}
			bad[r.Intn(nr)] = false // at least one healthy reader
		}
	}
	sc.BadView = mode == 1 || mode == 2
	for i := 0; i < nr; i++ {
		rc := ReaderC{Name: fmt.Sprintf("r%d", i+1), Temp: []string{"delta", "cumulative"}[r.Intn(2)], Kind: "manual", ExpMode: "ok", BadAgg: bad[i]}
		if r.Intn(4) == 0 {
			rc.Kind = "periodic" // interval one hour: exports through ForceFlush / Shutdown only
		}
		sc.Readers = append(sc.Readers, rc)
	}
	ni := 1 + r.Intn(2)
	for i := 0; i < ni; i++ {
		sc.Insts = append(sc.Insts, InstC{Name: fmt.Sprintf("inst%d", i+1), Kind: []string{"counter", "updown"}[r.Intn(2)],
			Num: []string{"int64", "float64"}[r.Intn(2)], Late: r.Intn(4) == 0})
	}
	if r.Intn(2) == 0 {
		sc.Insts = append(sc.Insts, InstC{Name: fmt.Sprintf("inst%d", ni+1), Kind: "ocounter", Num: []string{"int64", "float64"}[r.Intn(2)]})
	}
	ng := 1 + r.Intn(2)
	sc.Recs = make([][]AddC, ng)
	nk := 0
	for i, ic := range sc.Insts {
		for a := 0; a < 1+r.Intn(2); a++ {
			nk++
			s := StreamC{Key: fmt.Sprintf("k%d", nk), Inst: i, Attr: a + 1, N: 1, Neg: []int{}}
			if ic.Kind != "ocounter" {
				s.N = 1 + r.Intn(5)
				for j := 0; j < s.N; j++ {
					if ic.Kind == "updown" && r.Intn(3) == 0 {
						s.Neg = append(s.Neg, j)
					}
					g := r.Intn(ng)
					sc.Recs[g] = append(sc.Recs[g], AddC{Key: s.Key, I: j})
				}
			}
			sc.Streams = append(sc.Streams, s)
		}
	}
	for g := range sc.Recs {
		if sc.Recs[g] == nil {
			sc.Recs[g] = []AddC{}
		}
	}
	sc.Cols = []CallerC{}
	for i, rc := range sc.Readers {
		sc.Cols = append(sc.Cols, CallerC{Name: fmt.Sprintf("c%d", i+1), Reader: rc.Name, N: 1 + r.Intn(3), DelayUs: r.Intn(300)})
	}
	sc.Flushers = []CallerC{}
	for _, rc := range sc.Readers {
		if rc.Kind == "periodic" {
			sc.Flushers = append(sc.Flushers, CallerC{Name: "f_" + rc.Name, Reader: rc.Name, N: 1 + r.Intn(2), DelayUs: r.Intn(300)})
		}
	}
	sc.Stoppers = []CallerC{}
	return sc
}

// identScenario: several instruments of one meter whose identities collide partially (same name; different number
// type / kind / unit / description: distinct streams that must all keep exporting) plus identical requests (same
// stream, measurements add up).  Created sequentially at set-up, or lazily by the recorder goroutines (a short
// concurrent creation race), then every handle records and every reader collects.
func identScenario(r *rand.Rand, res *vh.Result) Scenario {
	sc := Scenario{Seed: r.Int63(), Filter: r.Intn(3) == 0, Name: "ident"}
	nr := 1 + r.Intn(3)
	for i := 0; i < nr; i++ {
		rc := ReaderC{Name: fmt.Sprintf("r%d", i+1), Temp: []string{"delta", "cumulative"}[r.Intn(2)], Kind: "manual", ExpMode: "ok"}
		if r.Intn(6) == 0 {
			rc.Kind = "periodic"
		}
		sc.Readers = append(sc.Readers, rc)
	}
	late := r.Intn(2) == 0
	base := InstC{Name: "req", Kind: []string{"counter", "updown"}[r.Intn(2)], Num: []string{"int64", "float64"}[r.Intn(2)], Late: late}
	seen := map[string]bool{base.identity(): true}
	sc.Insts = []InstC{base}
	for n := 1 + r.Intn(3); len(sc.Insts) <= n; {
		ic := sc.Insts[r.Intn(len(sc.Insts))] // vary one dimension of an existing one
		ic.AliasOf = nil
		dim := []string{"num", "num", "kind", "kind", "unit", "desc"}[r.Intn(6)]
		switch dim {
		case "num":
			ic.Num = map[string]string{"int64": "float64", "float64": "int64"}[ic.Num]
		case "kind":
			ic.Kind = map[string]string{"counter": "updown", "updown": "counter"}[ic.Kind]
		case "unit":
			ic.Unit = map[string]string{"": "ms", "ms": ""}[ic.Unit]
		default:
			ic.Desc = map[string]string{"": "d2", "d2": ""}[ic.Desc]
		}
		if !seen[ic.identity()] {
			seen[ic.identity()] = true
			sc.Insts = append(sc.Insts, ic)
			res.Count("ident_collision_"+dim, 1)
		}
	}
	ncanon := len(sc.Insts)
	aliases := map[int][]int{}
	for n := r.Intn(3); n > 0; n-- {
		of := r.Intn(ncanon)
		ic := sc.Insts[of]
		ic.Name = []string{"req", "req", "Req", "REQ"}[r.Intn(4)]
		ic.AliasOf = &of
		aliases[of] = append(aliases[of], len(sc.Insts))
		sc.Insts = append(sc.Insts, ic)
		res.Count("ident_identical_requests", 1)
	}
	if late {
		res.Count("ident_creation_races", 1)
	}
	ng := 2 + r.Intn(2)
	sc.Recs = make([][]AddC, ng)
	nk := 0
	for i := 0; i < ncanon; i++ {
		for a := 0; a < 1+r.Intn(2); a++ {
			nk++
			s := StreamC{Key: fmt.Sprintf("k%d", nk), Inst: i, Attr: a + 1, N: 2 + r.Intn(4), Neg: []int{}}
			for j := 0; j < s.N; j++ {
				if sc.Insts[i].Kind == "updown" && r.Intn(3) == 0 {
					s.Neg = append(s.Neg, j)
				}
				ad := AddC{Key: s.Key, I: j}
				if al := aliases[i]; len(al) > 0 && r.Intn(2) == 0 {
					v := al[r.Intn(len(al))]
					ad.Via = &v
				}
				g := r.Intn(ng)
				sc.Recs[g] = append(sc.Recs[g], ad)
			}
			sc.Streams = append(sc.Streams, s)
		}
	}
	for g := range sc.Recs {
		r.Shuffle(len(sc.Recs[g]), func(a, b int) { sc.Recs[g][a], sc.Recs[g][b] = sc.Recs[g][b], sc.Recs[g][a] })
		if sc.Recs[g] == nil {
			sc.Recs[g] = []AddC{}
		}
	}
	sc.Cols = []CallerC{}
	sc.Flushers = []CallerC{}
	for i, rc := range sc.Readers {
		sc.Cols = append(sc.Cols, CallerC{Name: fmt.Sprintf("c%d", i+1), Reader: rc.Name, N: 1 + r.Intn(3), DelayUs: r.Intn(300)})
		if rc.Kind == "periodic" {
			sc.Flushers = append(sc.Flushers, CallerC{Name: "f_" + rc.Name, Reader: rc.Name, N: 1 + r.Intn(2), DelayUs: r.Intn(300)})
		}
	}
	sc.Stoppers = []CallerC{}
	return sc
}

func main() {
	if len(os.Args) < 2 {
		fmt.Println("usage: c02 random|partial|ident|scripts ...")
		os.Exit(3)
	}
	if os.Args[1] == "values" { // value classes of measurements (values.go)
		valuesMain(os.Args[2:])
		return
	}
	fs := flag.NewFlagSet(os.Args[1], flag.ExitOnError)
	n := fs.Int("n", 200, "")
	storm := fs.Bool("storm", false, "")
	in := fs.String("in", "", "")
	out := fs.String("out", "trace.ndjson", "")
	resF := fs.String("res", "result.json", "")
	seedOff := fs.Int64("seedoff", 0, "")
	fs.Parse(os.Args[2:])
	tw, err := vh.NewTraceWriter(*out)
	vh.Must(err)
	res := vh.NewResult()
	otel.SetErrorHandler(otel.ErrorHandlerFunc(func(error) {})) // exporter errors are scripted, not news
	switch os.Args[1] {
	case "random":
		r := rand.New(rand.NewSource(vh.Seed()*1000003 + *seedOff))
		for i := 0; i < *n; i++ {
			sc := randomScenario(r, *storm)
			runScenario(i, sc, tw, res)
			res.Executed++
			if i < 1 {
				res.Sample(map[string]any{"readers": sc.Readers, "insts": sc.Insts, "recorders": len(sc.Recs), "cols": sc.Cols,
					"flushers": sc.Flushers, "stoppers": sc.Stoppers})
			}
		}
	case "partial":
		r := rand.New(rand.NewSource(vh.Seed()*7919 + *seedOff))
		for i := 0; i < *n; i++ {
			sc := partialScenario(r)
			runScenario(i, sc, tw, res)
			res.Executed++
			if sc.BadView {
				res.Count("partial_bad_view_scenarios", 1)
			}
			for j, rc := range sc.Readers {
				if rc.BadAgg {
					res.Count("partial_bad_selector_readers", 1)
					switch {
					case j == 0:
						res.Count("partial_bad_first", 1)
					case j == len(sc.Readers)-1:
						res.Count("partial_bad_last", 1)
					default:
						res.Count("partial_bad_middle", 1)
					}
				}
			}
		}
	case "ident":
		r := rand.New(rand.NewSource(vh.Seed()*104729 + *seedOff))
		for i := 0; i < *n; i++ {
			runScenario(i, identScenario(r, res), tw, res)
			res.Executed++
		}
	case "scripts":
		b, err := os.ReadFile(*in)
		vh.Must(err)
		var scs []Scenario
		vh.Must(json.Unmarshal(b, &scs))
		for i, sc := range scs {
			if sc.Seed == 0 {
				sc.Seed = vh.Seed() + int64(i)
			}
			runScenario(i, sc, tw, res)
			res.Executed++
		}
	default:
		os.Exit(3)
	}
	res.Evaluations = res.Executed
	vh.Must(tw.Close())
	res.Count("trace_lines", tw.N)
	vh.Must(res.Write(*resF))
}
