// c09: conformance harness for Sampling.tla / SamplingModel.tla / Trace_Sampling.tla (property C09).
//
//	c09 replay -edges F -reps 0,1,2,3 -par N -out R    replay every TLC edge on real TracerProviders
//	c09 forest -n N -out TRACE -res R                random forests x random sampler terms -> ndjson
//	c09 ratio  -n N -out TRACE -res R                ratio sampler decision matrices -> ndjson
//	c09 ids    -n N -g G -out TRACE -res R           ID statistics (one and many providers) + sampled shares
//	c09 flush  -n N -out TRACE -res R                processors x flag bytes; export under concurrent ForceFlush
//
// reps 0..2: scripted ID generators (low bits all-zero / all-one / seeded random); rep 3: the SDK's
// default random generators, the trace-ID class the edge asks for is obtained by rejection (spans whose
// fresh trace ID falls into another class are ended and set aside; their IDs still count for uniqueness).
//
// Go only executes and projects; every expected value comes from TLC (edge `to` states) or is
// decided by TLC (Trace_Sampling.tla).
package main

import (
	"context"
	"encoding/binary"
	"encoding/json"
	"flag"
	"fmt"
	"math"
	"math/rand"
	"os"
	"runtime"
	"strconv"
	"strings"
	"sync"
	"sync/atomic"
	"time"

	"go.opentelemetry.io/otel"
	"go.opentelemetry.io/otel/attribute"
	sdktrace "go.opentelemetry.io/otel/sdk/trace"
	"go.opentelemetry.io/otel/sdk/trace/tracetest"
	"go.opentelemetry.io/otel/sdk/verifh/vh"
	"go.opentelemetry.io/otel/trace"
)

// ------------------------------------------------------------------ abstract values

// Term is a sampler term of SamplingModel.tla.
type Term struct {
	K    string `json:"k"`
	N    int    `json:"n"`
	D    string `json:"d"`
	TS   string `json:"ts"`
	Root *Term  `json:"root"`
	RS   *Term  `json:"rs"`
	RNS  *Term  `json:"rns"`
	LS   *Term  `json:"ls"`
	LNS  *Term  `json:"lns"`
	Name string `json:"name"`
	Arg  string `json:"arg"`
}

// JSON returns exactly the fields SamplingModel.tla uses for the term's kind.
func (t *Term) JSON() map[string]any {
	switch t.K {
	case "ratio":
		return map[string]any{"k": t.K, "n": t.N}
	case "custom":
		return map[string]any{"k": t.K, "d": t.D, "ts": t.TS}
	case "pb":
		return map[string]any{"k": t.K, "root": t.Root.JSON(), "rs": t.RS.JSON(), "rns": t.RNS.JSON(), "ls": t.LS.JSON(), "lns": t.LNS.JSON()}
	case "env":
		return map[string]any{"k": t.K, "name": t.Name, "arg": t.Arg}
	}
	return map[string]any{"k": t.K}
}

func (t *Term) String() string {
	switch t.K {
	case "ratio":
		return fmt.Sprintf("ratio%d", t.N)
	case "custom":
		return fmt.Sprintf("custom(%s,%s)", t.D, t.TS)
	case "pb":
		return fmt.Sprintf("pb(%s,%s,%s,%s,%s)", t.Root, t.RS, t.RNS, t.LS, t.LNS)
	case "env":
		return fmt.Sprintf("env(%s,%s)", t.Name, t.Arg)
	}
	return t.K
}

// RC is a span context that can be put into a context (Remotes of Sampling.tla).
type RC struct {
	Valid  bool   `json:"valid"`
	Remote bool   `json:"remote"`
	Fl     int    `json:"fl"` // the trace-flags byte (0x01 = sampled; other bits: W3C random flag, reserved)
	TS     string `json:"ts"`
	Hi     int    `json:"hi"`
}

// Act is one action of Sampling.tla.
type Act struct {
	Op      string `json:"op"`
	Sampler *Term  `json:"sampler,omitempty"`
	P       int    `json:"p"` // provider (1-based) whose tracer starts the span
	Kind    string `json:"kind"`
	I       int    `json:"i"`
	NewRoot bool   `json:"newRoot"`
	Hi      int    `json:"hi"`
	R       RC     `json:"r"`
}

// SpanSt is the projection of one started span onto the model's span record.
type SpanSt struct {
	Tr      int    `json:"tr"`
	Hi      int    `json:"hi"`
	TidOK   bool   `json:"tidOK"`
	SidOK   bool   `json:"sidOK"`
	ParOK   bool   `json:"parOK"`
	Sampled bool   `json:"sampled"`
	Flx     int    `json:"flx"` // flags byte without the sampled bit
	Rec     bool   `json:"rec"`
	TS      string `json:"ts"`
	TSAlt   string `json:"tsAlt,omitempty"` // model only
	OnStart int    `json:"onStart"`
	OnEnd   int    `json:"onEnd"`
	ExpS    int    `json:"expS"`
	ExpB    int    `json:"expB"`
}

type State struct {
	Spans []SpanSt `json:"spans"`
}

// ------------------------------------------------------------------ concretization tables

// tracestate labels -> concrete W3C tracestates (two representatives each)
var tsReps = map[string][]string{
	"p": {"vp=1", "a=b,zz@vendor=1:2/3,c=d"},
	"q": {"smp=q", "smp=q,r=0.5"},
}

func mkTS(label string, rep int) trace.TraceState {
	if label == "" {
		return trace.TraceState{}
	}
	r := tsReps[label]
	ts, err := trace.ParseTraceState(r[rep%len(r)])
	vh.Must(err)
	return ts
}

func absTS(ts trace.TraceState, rep int) string {
	s := ts.String()
	if s == "" {
		return ""
	}
	for l, r := range tsReps {
		if s == r[rep%len(r)] {
			return l
		}
	}
	return "other:" + s
}

// env classes -> concrete values (ok=false: variable unset)
func envName(class string, rep int) (string, bool) {
	switch class {
	case "unset":
		return "", false
	case "empty":
		return "", true
	case "unknown":
		return []string{"bogus", "alwayson", "parentbased"}[rep%3], true
	}
	switch rep % 3 {
	case 1:
		return strings.ToUpper(class), true
	case 2:
		return " " + strings.ToUpper(class[:1]) + class[1:] + "\t", true
	}
	return class, true
}

func envArg(class string, rep int) (string, bool) {
	switch class {
	case "unset":
		return "", false
	case "empty":
		return "", true
	case "neg":
		return []string{"-0.5", "-1e-9", "-Inf"}[rep%3], true
	case "gt1":
		return []string{"1.5", "1.0000001", "Inf"}[rep%3], true
	case "junk":
		return []string{"abc", "0.5x", "half"}[rep%3], true
	case "nan":
		return []string{"NaN", "nan", "NAN"}[rep%3], true
	}
	if strings.HasPrefix(class, "k") {
		n, err := strconv.Atoi(class[1:])
		vh.Must(err)
		f := float64(n) / 8
		switch rep % 3 {
		case 1:
			return " " + strconv.FormatFloat(f, 'e', -1, 64) + " ", true
		case 2:
			return strconv.FormatFloat(f, 'f', 6, 64), true
		}
		return strconv.FormatFloat(f, 'g', -1, 64), true
	}
	panic("unknown arg class " + class)
}

// ------------------------------------------------------------------ scripted components

// scriptSampler is the custom sampler of the model: fixed decision, tracestate mode.
type scriptSampler struct {
	d   sdktrace.SamplingDecision
	ts  string
	rep int
}

func (s scriptSampler) ShouldSample(p sdktrace.SamplingParameters) sdktrace.SamplingResult {
	res := sdktrace.SamplingResult{Decision: s.d}
	switch s.ts {
	case "inherit":
		res.Tracestate = trace.SpanContextFromContext(p.ParentContext).TraceState()
	case "replace":
		res.Tracestate = mkTS("q", s.rep)
	}
	return res
}
func (s scriptSampler) Description() string { return "script" }

func decision(d string) sdktrace.SamplingDecision {
	switch d {
	case "Drop":
		return sdktrace.Drop
	case "RecordOnly":
		return sdktrace.RecordOnly
	case "RecordAndSample":
		return sdktrace.RecordAndSample
	}
	panic("unknown decision " + d)
}

func isDefault(pos string, t *Term) bool {
	switch pos {
	case "rs", "ls":
		return t.K == "on"
	}
	return t.K == "off"
}

// build turns a term into an SDK sampler (nil = configure nothing: env / default).
func build(t *Term, rep int) sdktrace.Sampler {
	switch t.K {
	case "on":
		return sdktrace.AlwaysSample()
	case "off":
		return sdktrace.NeverSample()
	case "ratio":
		return sdktrace.TraceIDRatioBased(float64(t.N) / 8)
	case "custom":
		return scriptSampler{d: decision(t.D), ts: t.TS, rep: rep}
	case "pb":
		var opts []sdktrace.ParentBasedSamplerOption
		// an override equal to the documented default is passed explicitly or left out (rep)
		if !(isDefault("rs", t.RS) && rep%2 == 0) {
			opts = append(opts, sdktrace.WithRemoteParentSampled(build(t.RS, rep)))
		}
		if !(isDefault("rns", t.RNS) && rep%2 == 0) {
			opts = append(opts, sdktrace.WithRemoteParentNotSampled(build(t.RNS, rep)))
		}
		if !(isDefault("ls", t.LS) && rep%2 == 0) {
			opts = append(opts, sdktrace.WithLocalParentSampled(build(t.LS, rep)))
		}
		if !(isDefault("lns", t.LNS) && rep%2 == 0) {
			opts = append(opts, sdktrace.WithLocalParentNotSampled(build(t.LNS, rep)))
		}
		if rep == 2 { // option order must not matter
			for i, j := 0, len(opts)-1; i < j; i, j = i+1, j-1 {
				opts[i], opts[j] = opts[j], opts[i]
			}
		}
		return sdktrace.ParentBased(build(t.Root, rep), opts...)
	case "env", "default":
		return nil
	}
	panic("unknown sampler term " + t.K)
}

// scriptGen is the scripted IDGenerator: the next fresh trace ID gets class `hi` in the three
// bits the ratio sampler weighs most (bytes 8..15 big endian, >>1), the remaining low bits are
// all-zero (rep 0), all-one (rep 1) or seeded random (rep 2); span IDs are unique.
type scriptGen struct {
	mu     sync.Mutex
	rep    int
	prov   uint64 // provider index: the streams of different providers are disjoint
	nextHi int
	nTid   uint64
	nSid   uint64
	rnd    *rand.Rand
	newIDs int
}

func lowHalf(hi, rep int, rnd *rand.Rand) uint64 {
	var low uint64
	switch rep % 3 {
	case 1:
		low = 1<<61 - 1
	case 2:
		low = rnd.Uint64() & (1<<61 - 1)
	}
	return uint64(hi)<<61 | low
}

func uniq(n uint64, rep int, rnd *rand.Rand) uint64 {
	switch rep % 3 {
	case 1:
		return ^n
	case 2:
		return (n+1)<<32 | rnd.Uint64()&(1<<32-1)
	}
	return n + 1
}

func (g *scriptGen) tid() trace.TraceID {
	var t trace.TraceID
	binary.BigEndian.PutUint64(t[0:8], uniq(g.prov<<20|g.nTid, g.rep, g.rnd))
	g.nTid++
	binary.BigEndian.PutUint64(t[8:16], lowHalf(g.nextHi, g.rep, g.rnd))
	return t
}

func (g *scriptGen) sid() trace.SpanID {
	var s trace.SpanID
	binary.BigEndian.PutUint64(s[:], uniq(g.prov<<20|g.nSid, g.rep, g.rnd))
	g.nSid++
	return s
}

func (g *scriptGen) NewIDs(context.Context) (trace.TraceID, trace.SpanID) {
	g.mu.Lock()
	defer g.mu.Unlock()
	g.newIDs++
	return g.tid(), g.sid()
}

func (g *scriptGen) NewSpanID(context.Context, trace.TraceID) trace.SpanID {
	g.mu.Lock()
	defer g.mu.Unlock()
	return g.sid()
}

// remote span context j: IDs disjoint from everything scriptGen hands out
func remoteSC(j int, r RC, rep int, rnd *rand.Rand) trace.SpanContext {
	cfg := trace.SpanContextConfig{Remote: r.Remote, TraceState: mkTS(r.TS, rep), TraceFlags: trace.TraceFlags(r.Fl)}
	if r.Valid {
		binary.BigEndian.PutUint64(cfg.TraceID[0:8], 0xC0<<56|uint64(j))
		binary.BigEndian.PutUint64(cfg.TraceID[8:16], lowHalf(r.Hi, rep, rnd))
		binary.BigEndian.PutUint64(cfg.SpanID[:], 0xD0<<56|uint64(j))
	}
	return trace.NewSpanContext(cfg)
}

type memExp struct {
	mu    sync.Mutex
	spans []sdktrace.ReadOnlySpan
}

func (e *memExp) ExportSpans(_ context.Context, s []sdktrace.ReadOnlySpan) error {
	e.mu.Lock()
	e.spans = append(e.spans, s...)
	e.mu.Unlock()
	return nil
}
func (e *memExp) Shutdown(context.Context) error { return nil }
func (e *memExp) count(sc trace.SpanContext) int {
	e.mu.Lock()
	defer e.mu.Unlock()
	n := 0
	for _, s := range e.spans {
		if s.SpanContext().Equal(sc) {
			n++
		}
	}
	return n
}

// recProc is a plain SpanProcessor: it sees every OnStart / OnEnd the SDK issues.
type recProc struct {
	mu     sync.Mutex
	starts map[trace.SpanID][]sdktrace.ReadWriteSpan
	ends   map[trace.SpanID]int
}

func (p *recProc) OnStart(_ context.Context, s sdktrace.ReadWriteSpan) {
	p.mu.Lock()
	p.starts[s.SpanContext().SpanID()] = append(p.starts[s.SpanContext().SpanID()], s)
	p.mu.Unlock()
}
func (p *recProc) OnEnd(s sdktrace.ReadOnlySpan) {
	p.mu.Lock()
	p.ends[s.SpanContext().SpanID()]++
	p.mu.Unlock()
}
func (p *recProc) Shutdown(context.Context) error   { return nil }
func (p *recProc) ForceFlush(context.Context) error { return nil }

// ------------------------------------------------------------------ world: one process, 1..n providers, one forest

type started struct {
	span  trace.Span
	ctx   context.Context
	parOK bool
}

type world struct {
	tps      []*sdktrace.TracerProvider
	trs      []trace.Tracer
	gens     []*scriptGen // empty: SDK default random generators
	term     *Term
	scripted bool
	matchHi  bool // default generators: obtain the trace-ID class an edge asks for by rejection
	rp       *recProc
	ea, eb   *memExp
	spans    []started
	remotes  map[int]trace.SpanContext
	rep      int
	rnd      *rand.Rand
	// spans set aside by the rejection (real spans of the process: their IDs count for uniqueness)
	extraSid  map[trace.SpanID]int
	extraTid  map[trace.TraceID]int
	discarded int
	gaveUp    int
}

var envMu sync.Mutex

func newWorld(t *Term, rep int, scripted bool, seed int64) *world {
	w := &world{rep: rep, rnd: rand.New(rand.NewSource(seed)), remotes: map[int]trace.SpanContext{},
		rp: &recProc{starts: map[trace.SpanID][]sdktrace.ReadWriteSpan{}, ends: map[trace.SpanID]int{}},
		ea: &memExp{}, eb: &memExp{}, term: t, scripted: scripted,
		extraSid: map[trace.SpanID]int{}, extraTid: map[trace.TraceID]int{}}
	w.newProvider()
	return w
}

// newProvider builds one more TracerProvider of the process: same sampler term, its own processors
// (simple + batch, feeding the world's two exporters) and its own ID generator.
func (w *world) newProvider() {
	t, rep := w.term, w.rep
	opts := []sdktrace.TracerProviderOption{
		sdktrace.WithSpanProcessor(w.rp),
		sdktrace.WithSyncer(w.ea),
		sdktrace.WithBatcher(w.eb, sdktrace.WithBatchTimeout(time.Hour)),
	}
	if rep%2 == 1 { // processor order must not matter
		opts[0], opts[2] = opts[2], opts[0]
	}
	if w.scripted {
		g := &scriptGen{rep: rep, rnd: w.rnd, prov: uint64(len(w.tps))}
		w.gens = append(w.gens, g)
		opts = append(opts, sdktrace.WithIDGenerator(g))
	}
	var tp *sdktrace.TracerProvider
	if s := build(t, rep); s != nil {
		opts = append(opts, sdktrace.WithSampler(s))
		tp = sdktrace.NewTracerProvider(opts...)
	} else {
		// the sampler comes from the environment: process-global, hence serialized
		envMu.Lock()
		os.Unsetenv("OTEL_TRACES_SAMPLER")
		os.Unsetenv("OTEL_TRACES_SAMPLER_ARG")
		if t.K == "env" {
			if v, ok := envName(t.Name, rep); ok {
				os.Setenv("OTEL_TRACES_SAMPLER", v)
			}
			if v, ok := envArg(t.Arg, rep); ok {
				os.Setenv("OTEL_TRACES_SAMPLER_ARG", v)
			}
		}
		tp = sdktrace.NewTracerProvider(opts...)
		os.Unsetenv("OTEL_TRACES_SAMPLER")
		os.Unsetenv("OTEL_TRACES_SAMPLER_ARG")
		envMu.Unlock()
	}
	w.tps = append(w.tps, tp)
	w.trs = append(w.trs, tp.Tracer("c09"))
}

func (w *world) remote(j int, r RC) trace.SpanContext {
	if sc, ok := w.remotes[j]; ok {
		return sc
	}
	sc := remoteSC(j, r, w.rep, w.rnd)
	w.remotes[j] = sc
	return sc
}

var kinds = []trace.SpanKind{trace.SpanKindInternal, trace.SpanKindServer, trace.SpanKindClient, trace.SpanKindUnspecified}

func (w *world) start(a Act) {
	ctx := context.Background()
	var psc trace.SpanContext
	switch a.Kind {
	case "local":
		ctx = w.spans[a.I-1].ctx
		psc = w.spans[a.I-1].span.SpanContext()
	case "remote":
		psc = w.remote(a.I, a.R)
		if a.R.Remote && w.rep%2 == 0 {
			ctx = trace.ContextWithRemoteSpanContext(ctx, psc.WithRemote(false))
		} else {
			ctx = trace.ContextWithSpanContext(ctx, psc)
		}
	}
	var opts []trace.SpanStartOption
	if a.NewRoot {
		opts = append(opts, trace.WithNewRoot())
		psc = trace.SpanContext{}
	}
	// name, kind, attributes and links are not inputs of the built-in samplers
	n := len(w.spans)
	if (n+w.rep)%2 == 1 {
		opts = append(opts, trace.WithSpanKind(kinds[(n+w.rep)%len(kinds)]), trace.WithAttributes(attribute.Int("n", n)))
	}
	p := a.P - 1
	if p < 0 {
		p = 0
	}
	if p >= len(w.tps) {
		panic(fmt.Sprintf("Start on provider %d of %d", a.P, len(w.tps)))
	}
	if w.scripted {
		w.gens[p].nextHi = a.Hi
	}
	// the model begins a fresh trace iff there is no valid parent (or WithNewRoot)
	fresh := a.NewRoot || a.Kind == "none" || (a.Kind == "remote" && !a.R.Valid)
	var ctx2 context.Context
	var span trace.Span
	for try := 0; ; try++ {
		ctx2, span = w.trs[p].Start(ctx, fmt.Sprintf("s%d", n), opts...)
		if !w.matchHi || !fresh || hiOf(span.SpanContext().TraceID()) == a.Hi {
			break
		}
		if try >= 400 { // (7/8)^400: the code does not draw fresh trace IDs here; report what it did
			w.gaveUp++
			break
		}
		x := span.SpanContext()
		w.extraSid[x.SpanID()]++
		w.extraTid[x.TraceID()]++
		w.discarded++
		span.End()
	}
	sc := span.SpanContext()
	ok := trace.SpanContextFromContext(ctx2).Equal(sc)
	w.rp.mu.Lock()
	rws := w.rp.starts[sc.SpanID()]
	w.rp.mu.Unlock()
	if len(rws) > 0 {
		rw := rws[len(rws)-1]
		par := rw.Parent()
		if !(par.Equal(psc) || (!psc.IsValid() && !par.IsValid())) {
			ok = false
		}
		if !rw.SpanContext().Equal(sc) {
			ok = false
		}
	}
	w.spans = append(w.spans, started{span: span, ctx: ctx2, parOK: ok})
}

func (w *world) end(i int) { w.spans[i-1].span.End() }

func hiOf(t trace.TraceID) int {
	return int((binary.BigEndian.Uint64(t[8:16]) >> 1) >> 60)
}

// observe flushes the processors and projects every started span.
func (w *world) observe() []SpanSt {
	for _, tp := range w.tps {
		if err := tp.ForceFlush(context.Background()); err != nil {
			panic("ForceFlush: " + err.Error())
		}
	}
	out := make([]SpanSt, 0, len(w.spans))
	// uniqueness is over the PROCESS: every provider's spans, the set-aside ones, the contexts from outside
	seenSid := map[trace.SpanID]int{}
	for sid, n := range w.extraSid {
		seenSid[sid] += n
	}
	for _, sc := range w.remotes {
		if sc.SpanID().IsValid() {
			seenSid[sc.SpanID()]++
		}
	}
	for _, s := range w.spans {
		seenSid[s.span.SpanContext().SpanID()]++
	}
	labels := map[trace.TraceID]int{}
	for j, sc := range w.remotes {
		if sc.TraceID().IsValid() {
			labels[sc.TraceID()] = 100 + j
		}
	}
	fresh := 0
	for _, s := range w.spans {
		sc := s.span.SpanContext()
		if _, ok := labels[sc.TraceID()]; !ok {
			if w.extraTid[sc.TraceID()] > 0 { // a "fresh" trace ID another span of the process already had
				labels[sc.TraceID()] = -1
			} else {
				fresh++
				labels[sc.TraceID()] = fresh
			}
		}
		w.rp.mu.Lock()
		st := SpanSt{
			Tr: labels[sc.TraceID()], Hi: hiOf(sc.TraceID()), TidOK: sc.TraceID().IsValid(),
			SidOK: sc.SpanID().IsValid() && seenSid[sc.SpanID()] == 1, ParOK: s.parOK,
			Sampled: sc.TraceFlags()&trace.FlagsSampled != 0, Flx: int(sc.TraceFlags() &^ trace.FlagsSampled),
			Rec: s.span.IsRecording(), TS: absTS(sc.TraceState(), w.rep),
			OnStart: len(w.rp.starts[sc.SpanID()]), OnEnd: w.rp.ends[sc.SpanID()],
		}
		w.rp.mu.Unlock()
		st.ExpS = w.ea.count(sc)
		st.ExpB = w.eb.count(sc)
		out = append(out, st)
	}
	return out
}

func (w *world) close() {
	for _, tp := range w.tps {
		_ = tp.Shutdown(context.Background())
	}
}

// diff names the first component in which the real forest differs from the model's ("" = none).
func diff(got, want []SpanSt) (string, int) {
	if len(got) != len(want) {
		return "nspans", 0
	}
	for i := range want {
		g, m := got[i], want[i]
		switch {
		case g.TidOK != m.TidOK:
			return "tidOK", i
		case g.SidOK != m.SidOK:
			return "sidOK", i
		case g.Tr != m.Tr:
			return "tr", i
		case g.Hi != m.Hi:
			return "hi", i
		case g.Sampled != m.Sampled:
			return "sampled", i
		case g.Flx&^m.Flx != 0: // every sub-mask of the context's other bits is admitted
			return "flx", i
		case g.Rec != m.Rec:
			return "rec", i
		case g.TS != m.TS && g.TS != m.TSAlt:
			return "ts", i
		case g.ParOK != m.ParOK:
			return "parOK", i
		case g.OnStart != m.OnStart:
			return "onStart", i
		case g.OnEnd != m.OnEnd:
			return "onEnd", i
		case g.ExpS != m.ExpS:
			return "expS", i
		case g.ExpB != m.ExpB:
			return "expB", i
		}
	}
	return "", 0
}

// run executes acts (Configure first) and returns the observed forest.
func run(acts []Act, rep int, seed int64) (obs []SpanSt, w *world, panicked any) {
	defer func() {
		if r := recover(); r != nil {
			panicked = r
		}
	}()
	if len(acts) == 0 || acts[0].Op != "Configure" {
		panic("behaviour does not begin with Configure")
	}
	w = newWorld(acts[0].Sampler, rep, rep < 3, seed)
	w.matchHi = rep >= 3
	defer w.close()
	for _, a := range acts[1:] {
		switch a.Op {
		case "NewProv":
			w.newProvider()
		case "Start":
			w.start(a)
		case "End":
			w.end(a.I)
		default:
			panic("unknown op " + a.Op)
		}
	}
	return w.observe(), w, nil
}

// parentClass describes the parent of the span started by a (for failing-case signatures).
func parentClass(a Act) string {
	s := a.Kind
	if a.Kind == "remote" {
		s = "ctx"
		for _, f := range []struct {
			b bool
			y string
			n string
		}{{a.R.Valid, "valid", "invalid"}, {a.R.Remote, "remote", "nonremote"}, {a.R.Fl&1 == 1, "sampled", "unsampled"}, {a.R.TS != "", "ts", "nots"}} {
			if f.b {
				s += ":" + f.y
			} else {
				s += ":" + f.n
			}
		}
	}
	if a.Kind == "remote" && a.R.Fl > 1 {
		s += fmt.Sprintf(":fl%02x", a.R.Fl)
	}
	if a.NewRoot {
		s += ":newroot"
	}
	return s
}

func startOf(acts []Act, idx int) Act {
	n := 0
	for _, a := range acts {
		if a.Op == "Start" {
			if n == idx {
				return a
			}
			n++
		}
	}
	return Act{}
}

func replay(args []string) {
	fs := flag.NewFlagSet("replay", flag.ExitOnError)
	edges := fs.String("edges", "", "")
	repsF := fs.String("reps", "0,1,2", "low-bit / representative classes to run every edge with; 'seed' = one per edge")
	par := fs.Int("par", 4, "")
	out := fs.String("out", "result.json", "")
	fs.Parse(args)
	g, err := vh.LoadEdges(*edges)
	vh.Must(err)
	var reps []int
	if *repsF != "seed" {
		for _, s := range strings.Split(*repsF, ",") {
			n, err := strconv.Atoi(s)
			vh.Must(err)
			reps = append(reps, n)
		}
	}
	res := vh.NewResult()
	var wg sync.WaitGroup
	idx := make(chan int, 1024)
	for p := 0; p < *par; p++ {
		wg.Add(1)
		go func() {
			defer wg.Done()
			for i := range idx {
				e := g.Edges[i]
				pathRaw, ok := g.Path(i)
				if !ok {
					res.Inconcl(fmt.Sprintf("edge %d: source not reachable in BFS tree", i))
					continue
				}
				var acts []Act
				for _, r := range append(pathRaw, e.Act) {
					var a Act
					vh.Must(json.Unmarshal(r, &a))
					acts = append(acts, a)
				}
				var want State
				vh.Must(json.Unmarshal(e.To, &want))
				rs := reps
				if rs == nil {
					rs = []int{int((int64(i) + vh.Seed()) % 3)}
				}
				for _, rep := range rs {
					got, w, p := run(acts, rep, vh.Seed()*1000003+int64(i))
					atomic.AddInt64(&res.Executed, 1)
					if w != nil && rep >= 3 {
						res.Count("default_gen_executions", 1)
						res.Count("default_gen_set_aside", int64(w.discarded))
						if w.gaveUp > 0 {
							res.Count("default_gen_gave_up", int64(w.gaveUp))
						}
					}
					term := acts[0].Sampler
					if p != nil {
						res.AddMismatch(vh.Mismatch{Kind: "panic", Case: map[string]any{"why": "panic", "sampler": term.String()}, Path: acts, Detail: fmt.Sprint(p)})
						continue
					}
					if d, k := diff(got, want.Spans); d != "" {
						sa := startOf(acts, k)
						res.AddMismatch(vh.Mismatch{Kind: "state",
							Case: map[string]any{"why": d, "sampler": term.String(), "samplerKind": term.K, "parent": parentClass(sa), "span": k + 1, "rep": rep},
							Path: acts[:len(acts)-1], Act: acts[len(acts)-1], Want: want.Spans, Got: got, Detail: d})
					}
					countRegimes(res, acts, want.Spans)
				}
				if i%4999 == 0 {
					res.Sample(map[string]any{"acts": acts, "to": want.Spans})
				}
			}
		}()
	}
	for i := range g.Edges {
		res.Evaluations++
		idx <- i
	}
	close(idx)
	wg.Wait()
	vh.Must(res.Write(*out))
}

// countRegimes counts which interesting regimes the replayed edge's target state is in (vacuity).
func countRegimes(res *vh.Result, acts []Act, want []SpanSt) {
	last := acts[len(acts)-1]
	if last.Op != "Start" || len(want) == 0 {
		if last.Op == "End" {
			res.Count("end_edges", 1)
		}
		if last.Op == "NewProv" {
			res.Count("newprov_edges", 1)
		}
		return
	}
	sp := want[len(want)-1]
	switch {
	case sp.Sampled:
		res.Count("start_sampled", 1)
	case sp.Rec:
		res.Count("start_record_only", 1)
	default:
		res.Count("start_dropped", 1)
	}
	if sp.TS != "" {
		res.Count("start_with_tracestate", 1)
	}
	if sp.TS != sp.TSAlt {
		res.Count("start_ts_either", 1)
	}
	if last.NewRoot {
		res.Count("start_newroot", 1)
	}
	res.Count("start_parent_"+last.Kind, 1)
	if last.Kind == "remote" && last.R.Fl > 1 {
		res.Count(fmt.Sprintf("start_parent_flags_%02x", last.R.Fl), 1)
	}
	if sp.Flx != 0 {
		res.Count("start_other_flag_bits", 1)
		if last.Kind == "local" {
			res.Count("start_local_parent_other_flag_bits", 1)
		}
	}
	if last.P > 1 {
		res.Count("start_on_later_provider", 1)
	}
	for _, a := range acts {
		if a.Op == "NewProv" {
			res.Count("start_with_several_providers", 1)
			break
		}
	}
}

// ------------------------------------------------------------------ code -> spec: random forests

func randTerm(r *rand.Rand, depth int) *Term {
	ds := []string{"Drop", "RecordOnly", "RecordAndSample"}
	tsm := []string{"inherit", "replace", "empty"}
	k := r.Intn(10)
	if depth <= 0 && k >= 6 {
		k = r.Intn(6)
	}
	switch {
	case k == 0:
		return &Term{K: "on"}
	case k == 1:
		return &Term{K: "off"}
	case k <= 3:
		return &Term{K: "ratio", N: r.Intn(11) - 1}
	case k <= 5:
		return &Term{K: "custom", D: ds[r.Intn(3)], TS: tsm[r.Intn(3)]}
	}
	sub := func(def string) *Term {
		if r.Intn(3) == 0 {
			return &Term{K: def}
		}
		return randTerm(r, depth-1)
	}
	return &Term{K: "pb", Root: randTerm(r, depth-1), RS: sub("on"), RNS: sub("off"), LS: sub("on"), LNS: sub("off")}
}

// randFlags draws a trace-flags byte: the model's domain, or any byte.
func randFlags(r *rand.Rand) int {
	switch x := r.Intn(10); {
	case x < 7:
		return []int{0x00, 0x01, 0x02, 0x03, 0x80, 0x81, 0xff}[x]
	case x == 7:
		return []int{0x00, 0x01}[r.Intn(2)]
	}
	return r.Intn(256)
}

func forest(args []string) {
	fs := flag.NewFlagSet("forest", flag.ExitOnError)
	n := fs.Int("n", 200, "")
	out := fs.String("out", "trace.ndjson", "")
	resF := fs.String("res", "result.json", "")
	fs.Parse(args)
	r := rand.New(rand.NewSource(vh.Seed()))
	tw, err := vh.NewTraceWriter(*out)
	vh.Must(err)
	res := vh.NewResult()
	for sc := 0; sc < *n; sc++ {
		var term *Term
		switch r.Intn(8) {
		case 0:
			term = &Term{K: "default"}
		case 1:
			term = &Term{K: "pb", Root: &Term{K: "ratio", N: r.Intn(9)}, RS: &Term{K: "on"}, RNS: &Term{K: "off"}, LS: &Term{K: "on"}, LNS: &Term{K: "off"}}
		default:
			term = randTerm(r, 3)
		}
		nrem := 1 + r.Intn(4)
		rems := make([]RC, nrem)
		for j := range rems {
			rems[j] = RC{Valid: r.Intn(5) > 0, Remote: r.Intn(4) > 0, Fl: randFlags(r), TS: []string{"", "p"}[r.Intn(2)]}
			if rems[j].Fl > 1 {
				res.Count("forest_ctx_other_flag_bits", 1)
			}
			if rems[j].Valid {
				rems[j].Hi = r.Intn(8)
			}
		}
		rep := r.Intn(3)
		acts := []Act{{Op: "Configure", Sampler: term}}
		w := newWorld(term, rep, false, r.Int63())
		nsp := 0
		steps := 3 + r.Intn(14)
		// 1..8 providers with default ID generators, built at different times of the scenario
		maxProv := 1
		if r.Intn(5) > 1 {
			maxProv = 2 + r.Intn(7)
		}
		for len(w.tps) < maxProv && r.Intn(2) == 0 { // some up-front, in a tight loop
			w.newProvider()
			acts = append(acts, Act{Op: "NewProv"})
		}
		var pan any
		func() {
			defer func() { pan = recover() }()
			for s := 0; s < steps; s++ {
				var a Act
				if len(w.tps) < maxProv && r.Intn(3) == 0 { // ... the others while spans are being started
					w.newProvider()
					acts = append(acts, Act{Op: "NewProv"})
				}
				switch x := r.Intn(10); {
				case x < 2 || nsp == 0 && x < 5:
					a = Act{Op: "Start", Kind: "none"}
				case x < 4 || nsp == 0:
					j := 1 + r.Intn(nrem)
					a = Act{Op: "Start", Kind: "remote", I: j, R: rems[j-1]}
				case x < 8:
					a = Act{Op: "Start", Kind: "local", I: 1 + r.Intn(nsp)}
				default:
					a = Act{Op: "End", I: 1 + r.Intn(nsp)}
				}
				if a.Op == "Start" {
					a.NewRoot = r.Intn(8) == 0
					a.P = 1 + r.Intn(len(w.tps))
					if r.Intn(3) > 0 { // prefer the youngest provider: its generator's first draws
						a.P = len(w.tps)
					}
					w.start(a)
					// hi = class of the trace ID the SDK's own random generator handed out
					a.Hi = hiOf(w.spans[nsp].span.SpanContext().TraceID())
					nsp++
				} else {
					w.end(a.I)
				}
				acts = append(acts, a)
			}
		}()
		if pan != nil {
			res.AddMismatch(vh.Mismatch{Kind: "panic", Case: map[string]any{"why": "panic", "sampler": term.String()}, Path: acts, Detail: fmt.Sprint(pan)})
			w.close()
			continue
		}
		obs := w.observe()
		w.close()
		res.Executed++
		res.Evaluations += int64(nsp)
		if len(w.tps) > 1 {
			res.Count("forest_several_providers", 1)
		}
		for _, o := range obs {
			if o.Flx != 0 {
				res.Count("forest_span_other_flag_bits", 1)
			}
			switch {
			case o.Sampled:
				res.Count("forest_sampled", 1)
			case o.Rec || o.OnEnd > 0:
				res.Count("forest_record_only", 1)
			default:
				res.Count("forest_dropped", 1)
			}
		}
		ja := make([]any, 0, len(acts)-1)
		for _, a := range acts[1:] {
			ja = append(ja, map[string]any{"op": a.Op, "kind": a.Kind, "i": a.I, "newRoot": a.NewRoot, "hi": a.Hi, "p": a.P})
		}
		tw.Emit(map[string]any{"ev": "Forest", "sc": sc, "sampler": term.JSON(), "remotes": rems, "acts": ja, "obs": obs, "rep": rep,
			"nprov": len(w.tps)})
		if sc < 2 {
			res.Sample(map[string]any{"sampler": term.String(), "acts": ja})
		}
	}
	vh.Must(tw.Close())
	res.Count("trace_lines", tw.N)
	vh.Must(res.Write(*resF))
}

// ------------------------------------------------------------------ code -> spec: ratio sampler matrices

func limbs64(v uint64) []int {
	return []int{int(v >> 48 & 0xffff), int(v >> 32 & 0xffff), int(v >> 16 & 0xffff), int(v & 0xffff)}
}

func tidLimbs(t trace.TraceID) []int {
	return append(limbs64(binary.BigEndian.Uint64(t[0:8])), limbs64(binary.BigEndian.Uint64(t[8:16]))...)
}

func randRatio(r *rand.Rand) float64 {
	switch r.Intn(16) {
	case 0:
		return 0
	case 1:
		return 1
	case 2:
		return math.Copysign(0, -1)
	case 3:
		return -r.Float64() * math.Pow(10, float64(r.Intn(40)-20))
	case 4:
		return 1 + r.Float64()*math.Pow(10, float64(r.Intn(40)-20))
	case 5:
		return []float64{math.Inf(1), math.Inf(-1), math.NaN(), math.MaxFloat64, -math.MaxFloat64}[r.Intn(5)]
	case 6:
		return math.Ldexp(1, -r.Intn(80)) // 2^-k: at, around and below the resolution 2^-63
	case 7:
		return math.Ldexp(float64(1+r.Intn(7)), -3) // k/8
	case 8:
		return math.Nextafter(1, 0) - float64(r.Intn(3))*math.Ldexp(1, -53)
	case 9:
		return math.Float64frombits(uint64(r.Intn(1 << 20))) // subnormal
	case 10:
		return r.Float64() * math.Ldexp(1, -r.Intn(70))
	case 11:
		return math.Float64frombits(r.Uint64()) // any bit pattern
	}
	return r.Float64()
}

// boundary returns a trace ID whose weighed 63-bit quantity sits at distance delta from r*2^63.
func nearThreshold(r *rand.Rand, ratio float64, delta int64) (trace.TraceID, bool) {
	if !(ratio > 0 && ratio < 1) {
		return trace.TraceID{}, false
	}
	b := int64(ratio * (1 << 63)) // inputs only: TLC decides what must happen there
	x := b + delta
	if x < 0 {
		return trace.TraceID{}, false
	}
	var t trace.TraceID
	binary.BigEndian.PutUint64(t[0:8], r.Uint64()|1)
	binary.BigEndian.PutUint64(t[8:16], uint64(x)<<1|uint64(r.Intn(2)))
	return t, true
}

func randTid(r *rand.Rand) trace.TraceID {
	var t trace.TraceID
	binary.BigEndian.PutUint64(t[0:8], r.Uint64()|1)
	var low uint64
	switch r.Intn(10) {
	case 0:
		low = 0
	case 1:
		low = ^uint64(0)
	case 2:
		low = 1
	case 3:
		low = uint64(r.Intn(4))
	case 4:
		low = 1 << 63
	case 5:
		low = uint64(r.Intn(8))<<61 | uint64(r.Intn(2))*(1<<61-1)
	default:
		low = r.Uint64()
	}
	binary.BigEndian.PutUint64(t[8:16], low)
	return t
}

func ratioCmd(args []string) {
	fs := flag.NewFlagSet("ratio", flag.ExitOnError)
	n := fs.Int("n", 1000, "")
	out := fs.String("out", "trace.ndjson", "")
	resF := fs.String("res", "result.json", "")
	fs.Parse(args)
	r := rand.New(rand.NewSource(vh.Seed() + 77))
	tw, err := vh.NewTraceWriter(*out)
	vh.Must(err)
	res := vh.NewResult()
	tsP := mkTS("p", 0)
	ctxs := []context.Context{
		context.Background(),
		trace.ContextWithRemoteSpanContext(context.Background(), trace.NewSpanContext(trace.SpanContextConfig{TraceID: trace.TraceID{1}, SpanID: trace.SpanID{2}, TraceFlags: trace.FlagsSampled, TraceState: tsP})),
		trace.ContextWithSpanContext(context.Background(), trace.NewSpanContext(trace.SpanContextConfig{TraceID: trace.TraceID{3}, SpanID: trace.SpanID{4}})),
	}
	for ln := 0; ln < *n; ln++ {
		nr := 3 + r.Intn(4)
		ratios := make([]float64, nr)
		for i := range ratios {
			ratios[i] = randRatio(r)
		}
		if r.Intn(3) == 0 { // neighbours in the ordering of doubles
			ratios[1] = math.Nextafter(ratios[0], 2)
		}
		nt := 3 + r.Intn(3)
		tids := make([]trace.TraceID, 0, nt+1)
		for i := 0; i < nt; i++ {
			if i > 0 && r.Intn(3) == 0 {
				if t, ok := nearThreshold(r, ratios[r.Intn(nr)], int64(r.Intn(5)-2)); ok {
					tids = append(tids, t)
					res.Count("ratio_ids_at_threshold", 1)
					continue
				}
			}
			tids = append(tids, randTid(r))
		}
		// the same ID again (determinism), and an ID differing only in the upper half / last bit
		tids = append(tids, tids[0])
		t2 := tids[1]
		t2[0] ^= 0x5a
		t2[15] ^= 1
		tids = append(tids, t2)
		dec := make([][]int, len(tids))
		oth := make([][]int, len(tids))
		for i, t := range tids {
			dec[i] = make([]int, nr)
			oth[i] = make([]int, nr)
			for j, ra := range ratios {
				s := sdktrace.TraceIDRatioBased(ra) // a fresh sampler per evaluation
				ci := r.Intn(len(ctxs))
				sr := s.ShouldSample(sdktrace.SamplingParameters{ParentContext: ctxs[ci], TraceID: t, Name: fmt.Sprint("n", r.Intn(9)), Kind: kinds[r.Intn(4)]})
				switch sr.Decision {
				case sdktrace.RecordAndSample:
					dec[i][j] = 1
					res.Count("ratio_sampled", 1)
				case sdktrace.Drop:
					res.Count("ratio_dropped", 1)
				default:
					dec[i][j] = 2 // neither: reported by the trace spec
				}
				// 1 = kept the parent's tracestate
				if sr.Tracestate.String() == trace.SpanContextFromContext(ctxs[ci]).TraceState().String() {
					oth[i][j] = 1
				}
				res.Evaluations++
			}
		}
		rl := make([][]int, nr)
		for j, ra := range ratios {
			rl[j] = limbs64(math.Float64bits(ra))
		}
		tl := make([][]int, len(tids))
		for i, t := range tids {
			tl[i] = tidLimbs(t)
		}
		tw.Emit(map[string]any{"ev": "Ratio", "tids": tl, "ratios": rl, "d": dec, "tsKept": oth})
		res.Executed++
	}
	vh.Must(tw.Close())
	res.Count("trace_lines", tw.N)
	vh.Must(res.Write(*resF))
}

// ------------------------------------------------------------------ code -> spec: IDs and shares

type idRec struct {
	tid   trace.TraceID
	sid   trace.SpanID
	ptid  trace.TraceID
	child bool
}

func idSampler() sdktrace.TracerProviderOption {
	return sdktrace.WithSampler(sdktrace.ParentBased(sdktrace.TraceIDRatioBased(0.5)))
}

// provPool is the growing set of providers of a scenario (providers appear while others produce IDs).
type provPool struct {
	mu  sync.RWMutex
	trs []trace.Tracer
}

func (p *provPool) add() {
	tp := sdktrace.NewTracerProvider(idSampler())
	p.mu.Lock()
	p.trs = append(p.trs, tp.Tracer("ids"))
	p.mu.Unlock()
}

func (p *provPool) pick(r *rand.Rand) trace.Tracer {
	p.mu.RLock()
	defer p.mu.RUnlock()
	if r.Intn(2) == 0 { // the youngest provider: the first draws of its generator
		return p.trs[len(p.trs)-1]
	}
	return p.trs[r.Intn(len(p.trs))]
}

func (p *provPool) size() int {
	p.mu.RLock()
	defer p.mu.RUnlock()
	return len(p.trs)
}

// produce starts `per` spans (roots and children of earlier spans of ANY provider of the pool).
func produce(pool *provPool, r *rand.Rand, per int) []idRec {
	my := make([]idRec, 0, per)
	var stack []context.Context
	var stid []trace.TraceID
	for i := 0; i < per; i++ {
		var ctx context.Context
		var ptid trace.TraceID
		child := false
		if len(stack) > 0 && r.Intn(3) > 0 {
			k := r.Intn(len(stack))
			ctx, ptid, child = stack[k], stid[k], true
		} else {
			ctx = context.Background()
		}
		c2, sp := pool.pick(r).Start(ctx, "s")
		sc := sp.SpanContext()
		my = append(my, idRec{tid: sc.TraceID(), sid: sc.SpanID(), ptid: ptid, child: child})
		if len(stack) < 6 {
			stack = append(stack, c2)
			stid = append(stid, sc.TraceID())
		} else if r.Intn(2) == 0 {
			k := r.Intn(len(stack))
			stack[k], stid[k] = c2, sc.TraceID()
		}
		if r.Intn(4) == 0 {
			sp.End()
		}
	}
	return my
}

func emitIds(tw *vh.TraceWriter, res *vh.Result, src string, nprov, gor int, recs [][]idRec) {
	sids := map[trace.SpanID]struct{}{}
	rootT := map[trace.TraceID]struct{}{}
	total, invSid, invTid, roots, children, childEq := 0, 0, 0, 0, 0, 0
	for _, my := range recs {
		for _, x := range my {
			total++
			sids[x.sid] = struct{}{}
			if !x.sid.IsValid() {
				invSid++
			}
			if !x.tid.IsValid() {
				invTid++
			}
			if x.child {
				children++
				if x.tid == x.ptid {
					childEq++
				}
			} else {
				roots++
				rootT[x.tid] = struct{}{}
			}
		}
	}
	tw.Emit(map[string]any{"ev": "Ids", "src": src, "nprov": nprov, "n": total, "distinctSid": len(sids), "invalidSid": invSid,
		"invalidTid": invTid, "roots": roots, "distinctRootTid": len(rootT), "children": children, "childTidEq": childEq,
		"goroutines": gor})
	res.Executed += int64(total)
	res.Count("id_spans", int64(total))
	res.Count("id_spans_"+src, int64(total))
	res.Count("id_providers_"+src, int64(nprov))
}

func idScenarios(tw *vh.TraceWriter, res *vh.Result, r0 *rand.Rand, n, g int) {
	fan := func(pool *provPool, gor, per int, during func()) [][]idRec {
		recs := make([][]idRec, gor)
		var wg sync.WaitGroup
		for gi := 0; gi < gor; gi++ {
			wg.Add(1)
			seed := r0.Int63()
			go func(gi int) {
				defer wg.Done()
				recs[gi] = produce(pool, rand.New(rand.NewSource(seed)), per)
			}(gi)
		}
		if during != nil {
			during()
		}
		wg.Wait()
		return recs
	}
	// one provider, g goroutines (as before)
	{
		pool := &provPool{}
		pool.add()
		emitIds(tw, res, "one", 1, g, fan(pool, g, n/g/2, nil))
	}
	rounds := 3
	if vh.Thorough() {
		rounds = 10
	}
	m := n / 2 / (rounds * 3)
	for round := 0; round < rounds; round++ {
		k := 2 + r0.Intn(7)
		// up-front: k providers built one after the other, then interleaved Start calls from g goroutines
		{
			pool := &provPool{}
			for i := 0; i < k; i++ {
				pool.add()
			}
			emitIds(tw, res, "upfront", k, g, fan(pool, g, m/g, nil))
		}
		// staggered: providers appear while the others are producing IDs (before / after / between)
		{
			pool := &provPool{}
			pool.add()
			pre := produce(pool, rand.New(rand.NewSource(r0.Int63())), 1+r0.Intn(50))
			recs := fan(pool, g, m/g, func() {
				for i := 1; i < k; i++ {
					time.Sleep(time.Duration(r0.Intn(300)) * time.Microsecond)
					pool.add()
				}
			})
			emitIds(tw, res, "staggered", pool.size(), g, append(recs, pre))
		}
		// concurrent: k goroutines build their providers at the same moment and start spans at once
		{
			pool := &provPool{}
			pool.add()
			startCh := make(chan struct{})
			recs := make([][]idRec, k)
			var wg sync.WaitGroup
			for gi := 0; gi < k; gi++ {
				wg.Add(1)
				seed := r0.Int63()
				go func(gi int) {
					defer wg.Done()
					<-startCh
					pool.add()
					recs[gi] = produce(pool, rand.New(rand.NewSource(seed)), m/k)
				}(gi)
			}
			close(startCh)
			wg.Wait()
			emitIds(tw, res, "concurrent", pool.size(), k, recs)
		}
	}
	// tight loop: many providers built back to back (same clock reading, same allocation pattern),
	// the FIRST IDs of each generator: a root, a child of it by the next provider, a second root
	{
		batches, bsz := 8, 256
		if vh.Thorough() {
			batches = 40
		}
		var all []idRec
		for b := 0; b < batches; b++ {
			tps := make([]trace.Tracer, bsz)
			for i := range tps {
				tps[i] = sdktrace.NewTracerProvider(idSampler()).Tracer("ids")
			}
			for i, tr := range tps {
				c1, s1 := tr.Start(context.Background(), "s")
				_, s2 := tps[(i+1)%bsz].Start(c1, "s")
				_, s3 := tr.Start(context.Background(), "s")
				all = append(all, idRec{tid: s1.SpanContext().TraceID(), sid: s1.SpanContext().SpanID()},
					idRec{tid: s2.SpanContext().TraceID(), sid: s2.SpanContext().SpanID(), ptid: s1.SpanContext().TraceID(), child: true},
					idRec{tid: s3.SpanContext().TraceID(), sid: s3.SpanContext().SpanID()})
			}
		}
		emitIds(tw, res, "tight-loop", batches*bsz, 1, [][]idRec{all})
	}
	// mass: g goroutines build one provider each AT THE SAME INSTANT (spin barrier: all leave it within
	// a fraction of a microsecond), round after round; the first root and child of each generator.
	// Whatever a generator is seeded from besides real entropy (clock, counter, address) coincides here.
	{
		rounds := 8000
		if vh.Thorough() {
			rounds = 40000
		}
		t0 := time.Now()
		defer func() { res.Count("id_mass_ms", time.Since(t0).Milliseconds()) }()
		recs := make([][]idRec, g)
		var arrived int64
		var wg sync.WaitGroup
		for gi := 0; gi < g; gi++ {
			wg.Add(1)
			go func(gi int) {
				defer wg.Done()
				my := make([]idRec, 0, 2*rounds)
				for i := 0; i < rounds; i++ {
					atomic.AddInt64(&arrived, 1)
					// soft barrier: wait for the others, but not for long (an oversubscribed machine parks threads)
					for spins := 1; atomic.LoadInt64(&arrived) < int64(g*(i+1)) && spins < 20000; spins++ {
						if spins%512 == 0 {
							runtime.Gosched()
						}
					}
					tr := sdktrace.NewTracerProvider(idSampler()).Tracer("ids")
					c1, s1 := tr.Start(context.Background(), "s")
					_, s2 := tr.Start(c1, "s")
					my = append(my, idRec{tid: s1.SpanContext().TraceID(), sid: s1.SpanContext().SpanID()},
						idRec{tid: s2.SpanContext().TraceID(), sid: s2.SpanContext().SpanID(), ptid: s1.SpanContext().TraceID(), child: true})
				}
				recs[gi] = my
			}(gi)
		}
		wg.Wait()
		emitIds(tw, res, "mass", g*rounds, g, recs)
	}
}

func idsCmd(args []string) {
	fs := flag.NewFlagSet("ids", flag.ExitOnError)
	n := fs.Int("n", 200000, "spans in the ID run")
	g := fs.Int("g", 8, "goroutines")
	shareN := fs.Int("share", 1<<17, "root spans per share measurement")
	out := fs.String("out", "trace.ndjson", "")
	resF := fs.String("res", "result.json", "")
	fs.Parse(args)
	tw, err := vh.NewTraceWriter(*out)
	vh.Must(err)
	res := vh.NewResult()
	r0 := rand.New(rand.NewSource(vh.Seed() + 99))

	// (1) default random ID generators: one provider under concurrency, then 2..8 (and thousands of)
	// providers of the same process created up-front / staggered / concurrently / in tight loops.
	// Uniqueness is over the UNION of everything the process started.
	idScenarios(tw, res, r0, *n, *g)

	// (2) sampled share of root spans: ratio k/64, N roots, SDK random generator (end to end)
	for _, k := range []int{0, 1, 5, 16, 32, 47, 63, 64} {
		tp := sdktrace.NewTracerProvider(sdktrace.WithSampler(sdktrace.TraceIDRatioBased(float64(k) / 64)))
		tr := tp.Tracer("share")
		cnt := 0
		for i := 0; i < *shareN; i++ {
			_, sp := tr.Start(context.Background(), "s")
			if sp.SpanContext().IsSampled() {
				cnt++
			}
		}
		_ = tp.Shutdown(context.Background())
		tw.Emit(map[string]any{"ev": "Share", "k": k, "n": *shareN, "count": cnt, "src": "sdk"})
		res.Executed += int64(*shareN)
	}
	// ... and over seeded uniformly random trace IDs (reproducible), sampler called directly
	for _, k := range []int{1, 8, 32, 56, 63} {
		s := sdktrace.TraceIDRatioBased(float64(k) / 64)
		cnt := 0
		for i := 0; i < *shareN; i++ {
			var t trace.TraceID
			binary.BigEndian.PutUint64(t[0:8], r0.Uint64()|1)
			binary.BigEndian.PutUint64(t[8:16], r0.Uint64())
			if s.ShouldSample(sdktrace.SamplingParameters{ParentContext: context.Background(), TraceID: t}).Decision == sdktrace.RecordAndSample {
				cnt++
			}
		}
		tw.Emit(map[string]any{"ev": "Share", "k": k, "n": *shareN, "count": cnt, "src": "seeded"})
		res.Executed += int64(*shareN)
	}
	vh.Must(tw.Close())
	res.Count("trace_lines", tw.N)
	vh.Must(res.Write(*resF))
}

// ------------------------------------------------------------------ code -> spec: processors, flags, flushes

// idxExp records which spans (index = SpanID as a number / the number in the span name) reached it.
type idxExp struct {
	mu     sync.Mutex
	got    []int
	broken int // entries that were nil / could not be read (not a C09 matter; counted)
	calls  int
	delay  func() time.Duration
}

func spanIndex(s sdktrace.ReadOnlySpan) (idx int, ok bool) {
	defer func() {
		if recover() != nil {
			idx, ok = 0, false
		}
	}()
	if s == nil {
		return 0, false
	}
	n, err := strconv.Atoi(strings.TrimLeft(s.Name(), "SRDP"))
	if err != nil {
		return 0, false
	}
	return n, true
}

func (e *idxExp) ExportSpans(_ context.Context, spans []sdktrace.ReadOnlySpan) error {
	my := make([]int, 0, len(spans))
	bad := 0
	for _, s := range spans {
		if i, ok := spanIndex(s); ok {
			my = append(my, i)
		} else {
			bad++
		}
	}
	if e.delay != nil {
		if d := e.delay(); d > 0 {
			time.Sleep(d)
		}
	}
	e.mu.Lock()
	e.got = append(e.got, my...)
	e.broken += bad
	e.calls++
	e.mu.Unlock()
	return nil
}
func (e *idxExp) Shutdown(context.Context) error { return nil }

var procFlags = []int{0x00, 0x01, 0x02, 0x03, 0x80, 0x81, 0xfe, 0xff, 0x05, 0x41, 0x40}

// procScenario hands ended spans whose contexts carry the given flag bytes directly to a span
// processor (tracetest snapshots: the processors' public OnEnd contract) and reports how often each
// reached the exporter.
func procScenario(tw *vh.TraceWriter, res *vh.Result, r *rand.Rand, kind string) {
	exp := &idxExp{}
	var sp sdktrace.SpanProcessor
	switch kind {
	case "ssp":
		sp = sdktrace.NewSimpleSpanProcessor(exp)
	case "bsp":
		sp = sdktrace.NewBatchSpanProcessor(exp, sdktrace.WithBatchTimeout(time.Hour), sdktrace.WithMaxExportBatchSize(1+r.Intn(4)))
	case "bsp-blocking":
		sp = sdktrace.NewBatchSpanProcessor(exp, sdktrace.WithBatchTimeout(time.Hour), sdktrace.WithBlocking())
	}
	n := 8 + r.Intn(24)
	fls := make([]int, n)
	for k := range fls {
		if r.Intn(4) == 0 {
			fls[k] = r.Intn(256)
		} else {
			fls[k] = procFlags[r.Intn(len(procFlags))]
		}
		var tid trace.TraceID
		var sid trace.SpanID
		binary.BigEndian.PutUint64(tid[8:], r.Uint64()|1)
		binary.BigEndian.PutUint64(sid[:], uint64(k+1))
		stub := tracetest.SpanStub{Name: strconv.Itoa(k + 1), StartTime: time.Now(), EndTime: time.Now(),
			SpanContext: trace.NewSpanContext(trace.SpanContextConfig{TraceID: tid, SpanID: sid, TraceFlags: trace.TraceFlags(fls[k]),
				Remote: false})}
		sp.OnEnd(stub.Snapshot())
		if fls[k] > 1 {
			res.Count("proc_other_flag_bits", 1)
		}
	}
	ffErr := sp.ForceFlush(context.Background())
	sdErr := sp.Shutdown(context.Background())
	if ffErr != nil || sdErr != nil {
		res.Count("proc_discarded", 1)
		return
	}
	cnt := make([]int, n)
	exp.mu.Lock()
	for _, i := range exp.got {
		if i >= 1 && i <= n {
			cnt[i-1]++
		}
	}
	exp.mu.Unlock()
	tw.Emit(map[string]any{"ev": "Proc", "proc": kind, "fls": fls, "exp": cnt})
	res.Executed++
	res.Evaluations += int64(n)
	res.Count("proc_scenarios", 1)
}

// nameSampler decides by the first letter of the span name: S RecordAndSample, R RecordOnly, D Drop,
// P as the default ParentBased(AlwaysSample) does.
type nameSampler struct{ pb sdktrace.Sampler }

func (s nameSampler) ShouldSample(p sdktrace.SamplingParameters) sdktrace.SamplingResult {
	ts := trace.SpanContextFromContext(p.ParentContext).TraceState()
	switch p.Name[0] {
	case 'S':
		return sdktrace.SamplingResult{Decision: sdktrace.RecordAndSample, Tracestate: ts}
	case 'R':
		return sdktrace.SamplingResult{Decision: sdktrace.RecordOnly, Tracestate: ts}
	case 'D':
		return sdktrace.SamplingResult{Decision: sdktrace.Drop, Tracestate: ts}
	}
	return s.pb.ShouldSample(p)
}
func (nameSampler) Description() string { return "byName" }

var flushDrops int64

// flushScenario: producers start/end sampled and unsampled spans on a provider with a batch
// processor (small batches, tiny timeout, slow-ish exporter, queue that cannot overflow) while
// flushers call ForceFlush in a loop; then final ForceFlush + Shutdown.
func flushScenario(tw *vh.TraceWriter, res *vh.Result, r *rand.Rand, sc int) {
	producers := 2 + r.Intn(5)
	per := 60 + r.Intn(240)
	flushers := 1 + r.Intn(2)
	pace := []int{4, 8, 16}[r.Intn(3)]
	const maxFF = 4000
	total := producers * per
	slow := []int{0, 20, 100, 300, 1000}[r.Intn(5)] // microseconds, upper bound of the exporter's delay
	var dmu sync.Mutex
	dr := rand.New(rand.NewSource(r.Int63()))
	exp := &idxExp{delay: func() time.Duration {
		if slow == 0 {
			return 0
		}
		dmu.Lock()
		defer dmu.Unlock()
		return time.Duration(dr.Intn(slow)) * time.Microsecond
	}}
	bopts := []sdktrace.BatchSpanProcessorOption{
		sdktrace.WithMaxQueueSize(total + flushers*maxFF + 64), // nothing can ever find the queue full
		sdktrace.WithMaxExportBatchSize(1 + r.Intn(8)),
		sdktrace.WithBatchTimeout(time.Duration(50+r.Intn(2000)) * time.Microsecond),
	}
	if r.Intn(4) == 0 {
		bopts = append(bopts, sdktrace.WithBlocking())
	}
	atomic.StoreInt64(&flushDrops, 0)
	tp := sdktrace.NewTracerProvider(sdktrace.WithSampler(nameSampler{pb: sdktrace.ParentBased(sdktrace.AlwaysSample())}),
		sdktrace.WithBatcher(exp, bopts...))
	tr := tp.Tracer("flush")
	sampled := make([][]int, producers) // indices of the spans whose started context had the sampled flag
	var done int32
	var pw, fw sync.WaitGroup
	var ffErrs, ffCalls int64
	for f := 0; f < flushers; f++ {
		fw.Add(1)
		pause := r.Intn(300)
		go func() {
			defer fw.Done()
			for i := 0; i < maxFF && atomic.LoadInt32(&done) == 0; i++ {
				if err := tp.ForceFlush(context.Background()); err != nil {
					atomic.AddInt64(&ffErrs, 1)
				}
				atomic.AddInt64(&ffCalls, 1)
				if pause > 0 {
					time.Sleep(time.Duration(pause) * time.Microsecond)
				}
			}
		}()
	}
	for g := 0; g < producers; g++ {
		pw.Add(1)
		seed := r.Int63()
		go func(g int) {
			defer pw.Done()
			rr := rand.New(rand.NewSource(seed))
			var open []trace.Span
			var octx []context.Context
			for i := 0; i < per; i++ {
				idx := g*per + i + 1
				ctx := context.Background()
				letter := "SSSRDP"[rr.Intn(6)]
				switch rr.Intn(4) {
				case 0: // a span context from outside, any flags byte
					var tid trace.TraceID
					var sid trace.SpanID
					binary.BigEndian.PutUint64(tid[0:8], uint64(idx))
					binary.BigEndian.PutUint64(tid[8:16], rr.Uint64())
					binary.BigEndian.PutUint64(sid[:], 1<<63|uint64(idx))
					psc := trace.NewSpanContext(trace.SpanContextConfig{TraceID: tid, SpanID: sid,
						TraceFlags: trace.TraceFlags(procFlags[rr.Intn(len(procFlags))]), Remote: rr.Intn(2) == 0})
					ctx = trace.ContextWithSpanContext(ctx, psc)
					letter = "SPPPRD"[rr.Intn(6)]
				case 1: // a still open span of this goroutine
					if len(open) > 0 {
						ctx = octx[rr.Intn(len(octx))]
						letter = "SPPPRD"[rr.Intn(6)]
					}
				}
				c2, sp := tr.Start(ctx, string(letter)+strconv.Itoa(idx))
				if sp.SpanContext().TraceFlags()&trace.FlagsSampled != 0 {
					sampled[g] = append(sampled[g], idx)
				}
				if rr.Intn(3) == 0 && len(open) < 4 {
					open = append(open, sp)
					octx = append(octx, c2)
				} else {
					sp.End()
				}
				if len(open) > 0 && rr.Intn(3) == 0 {
					k := rr.Intn(len(open))
					open[k].End()
					open = append(open[:k], open[k+1:]...)
					octx = append(octx[:k], octx[k+1:]...)
				}
				if rr.Intn(pace) == 0 { // keep producing while the flushers are at work
					time.Sleep(time.Duration(rr.Intn(300)) * time.Microsecond)
				}
			}
			for _, sp := range open {
				sp.End()
			}
		}(g)
	}
	pw.Wait() // every End has returned
	atomic.StoreInt32(&done, 1)
	fw.Wait()
	ffErr := tp.ForceFlush(context.Background()) // called after every End returned
	sdErr := tp.Shutdown(context.Background())
	drops := atomic.LoadInt64(&flushDrops)
	if ffErr != nil || sdErr != nil || atomic.LoadInt64(&ffErrs) > 0 || drops > 0 {
		res.Count("flush_discarded", 1)
		return
	}
	var want []int
	for _, s := range sampled {
		want = append(want, s...)
	}
	if want == nil {
		want = []int{}
	}
	exp.mu.Lock()
	got := append([]int{}, exp.got...)
	broken, calls := exp.broken, exp.calls
	exp.mu.Unlock()
	tw.Emit(map[string]any{"ev": "Flush", "sc": sc, "n": total, "sampled": want, "exported": got, "dropped": drops,
		"producers": producers, "flushers": flushers, "ffCalls": atomic.LoadInt64(&ffCalls), "exportCalls": calls, "slowUs": slow})
	res.Executed++
	res.Evaluations += int64(total)
	res.Count("flush_scenarios", 1)
	res.Count("flush_spans", int64(total))
	res.Count("flush_sampled_spans", int64(len(want)))
	res.Count("flush_forceflush_calls", atomic.LoadInt64(&ffCalls))
	res.Count("flush_export_calls", int64(calls))
	if broken > 0 {
		res.Count("flush_unreadable_exported_entries", int64(broken))
	}
}

func flushCmd(args []string) {
	fs := flag.NewFlagSet("flush", flag.ExitOnError)
	n := fs.Int("n", 30, "flush scenarios")
	np := fs.Int("procs", 60, "processor x flags scenarios")
	out := fs.String("out", "trace.ndjson", "")
	resF := fs.String("res", "result.json", "")
	fs.Parse(args)
	r := rand.New(rand.NewSource(vh.Seed() + 555))
	tw, err := vh.NewTraceWriter(*out)
	vh.Must(err)
	res := vh.NewResult()
	// the batch processor's own drop counter (instrumentation point of the verif build): a scenario in
	// which anything was dropped is set aside, not judged
	sdktrace.SetVerifHook(func(point string, _ ...any) {
		if point == "bsp.enq.dropped" {
			atomic.AddInt64(&flushDrops, 1)
		}
	})
	for i := 0; i < *np; i++ {
		procScenario(tw, res, r, []string{"ssp", "bsp", "bsp-blocking"}[i%3])
	}
	for sc := 0; sc < *n; sc++ {
		flushScenario(tw, res, r, sc)
	}
	sdktrace.SetVerifHook(nil)
	vh.Must(tw.Close())
	res.Count("trace_lines", tw.N)
	vh.Must(res.Write(*resF))
}

type silent struct{}

func (silent) Handle(error) {}

func main() {
	if len(os.Args) < 2 {
		fmt.Println("usage: c09 replay|forest|ratio|ids|flush ...")
		os.Exit(3)
	}
	otel.SetErrorHandler(silent{})
	os.Unsetenv("OTEL_TRACES_SAMPLER")
	os.Unsetenv("OTEL_TRACES_SAMPLER_ARG")
	switch os.Args[1] {
	case "replay":
		replay(os.Args[2:])
	case "forest":
		forest(os.Args[2:])
	case "ratio":
		ratioCmd(os.Args[2:])
	case "ids":
		idsCmd(os.Args[2:])
	case "flush":
		flushCmd(os.Args[2:])
	default:
		os.Exit(3)
	}
}
