package vh

import (
	"math/rand"
	"runtime"
	"sync"
	"time"
)

// Sched steers real goroutines through a scripted order of instrumentation points
// ("behaviour-guided scheduling"). A script is a sequence of keys "<proc>@<point>"; a
// goroutine arriving at a key that occurs in the rest of the script waits until every
// earlier entry has been passed (or the step timed out: desync, the entry is skipped),
// keys not in the script pass freely. With an empty script, Perturb > 0 yields or sleeps
// at random (seeded) to shake the interleaving.
type Sched struct {
	mu       sync.Mutex
	script   []string
	pos      int
	Timeout  time.Duration
	Desync   int // entries skipped because the real code could not reach them in order
	Followed int // entries passed in script order
	rng      *rand.Rand
	Perturb  float64
	MaxSleep time.Duration
	Skipped  []string // script entries abandoned after a timeout (desync), for diagnosis
	Log      []string // keys in the order they were passed (all arrivals)
	KeepLog  bool
	arrived  map[string]bool // keys at which some goroutine has arrived (whether or not it has passed yet)
}

func NewSched(script []string, seed int64) *Sched {
	return &Sched{script: script, Timeout: 300 * time.Millisecond, rng: rand.New(rand.NewSource(seed)),
		MaxSleep: 200 * time.Microsecond}
}

func (s *Sched) Arrive(key string) {
	if s == nil {
		return
	}
	s.mu.Lock()
	if s.KeepLog && len(s.Log) < 4096 {
		s.Log = append(s.Log, key)
	}
	if s.arrived == nil {
		s.arrived = map[string]bool{}
	}
	s.arrived[key] = true
	idx := -1
	for i := s.pos; i < len(s.script); i++ {
		if s.script[i] == key {
			idx = i
			break
		}
	}
	if idx < 0 {
		var d time.Duration
		yield := false
		if s.Perturb > 0 && s.rng.Float64() < s.Perturb {
			if s.rng.Intn(2) == 0 {
				yield = true
			} else {
				d = time.Duration(s.rng.Int63n(int64(s.MaxSleep) + 1))
			}
		}
		s.mu.Unlock()
		if yield {
			runtime.Gosched()
		} else if d > 0 {
			time.Sleep(d)
		}
		return
	}
	deadline := time.Now().Add(s.Timeout)
	for s.pos < idx {
		s.mu.Unlock()
		time.Sleep(20 * time.Microsecond)
		s.mu.Lock()
		if idx < s.pos { // the script moved past us (someone skipped forward)
			s.mu.Unlock()
			return
		}
		if s.pos < idx && time.Now().After(deadline) {
			s.Desync += idx - s.pos
			if len(s.Skipped) < 64 {
				s.Skipped = append(s.Skipped, s.script[s.pos:idx]...)
			}
			s.pos = idx
			break
		}
	}
	if s.pos == idx {
		s.pos = idx + 1
		s.Followed++
	}
	s.mu.Unlock()
}

// Arrived reports whether some goroutine has arrived at key (it may still be waiting there).
// Used by environment goroutines (e.g. a context canceller) whose scripted step presupposes that
// another goroutine is parked at a given gate.
func (s *Sched) Arrived(key string) bool {
	if s == nil {
		return false
	}
	s.mu.Lock()
	defer s.mu.Unlock()
	return s.arrived[key]
}

// Pos returns the index of the next script entry to be passed.
func (s *Sched) Pos() int {
	if s == nil {
		return 0
	}
	s.mu.Lock()
	defer s.mu.Unlock()
	return s.pos
}

// Stats returns (followed, desync, remaining).
func (s *Sched) Stats() (int, int, int) {
	s.mu.Lock()
	defer s.mu.Unlock()
	return s.Followed, s.Desync, len(s.script) - s.pos
}
