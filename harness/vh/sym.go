package vh

import "unicode/utf8"

// Symbol classes of Truncate.tla and their concrete representatives (DESIGN.md App. C).
var TruncReps = map[string][]string{
	"a1":   {"a", "~", "0"},
	"m2":   {"é", "ß"},
	"m3":   {"€", "世"},
	"m4":   {"😀", "𝄞"},
	"fffd": {"\xEF\xBF\xBD"},
	"bad":  {"\xff", "\xc3", "\x80", "\xed"},
}

// Concretize maps a symbol sequence to bytes using representative index rep (mod table size).
func Concretize(table map[string][]string, syms []string, rep int) string {
	out := ""
	for _, s := range syms {
		r := table[s]
		if len(r) == 0 {
			out += s // literal
			continue
		}
		out += r[rep%len(r)]
	}
	return out
}

// AbstractTrunc lexes bytes into Truncate.tla symbols.
func AbstractTrunc(s string) []string {
	out := []string{}
	for i := 0; i < len(s); {
		r, size := utf8.DecodeRuneInString(s[i:])
		switch {
		case r == utf8.RuneError && size == 1:
			out = append(out, "bad")
		case r == utf8.RuneError:
			out = append(out, "fffd")
		case size == 1:
			out = append(out, "a1")
		case size == 2:
			out = append(out, "m2")
		case size == 3:
			out = append(out, "m3")
		default:
			out = append(out, "m4")
		}
		i += size
	}
	return out
}
