package main

import (
	"fmt"

	_ "go.opentelemetry.io/otel/exporters/otlp/otlplog/otlploggrpc"
	_ "go.opentelemetry.io/otel/exporters/otlp/otlplog/otlploghttp"
	_ "go.opentelemetry.io/otel/exporters/otlp/otlpmetric/otlpmetricgrpc"
	_ "go.opentelemetry.io/otel/exporters/otlp/otlpmetric/otlpmetrichttp"
	_ "go.opentelemetry.io/otel/exporters/otlp/otlptrace/otlptracegrpc"
	_ "go.opentelemetry.io/otel/exporters/otlp/otlptrace/otlptracehttp"
	_ "go.opentelemetry.io/otel/exporters/prometheus"
	_ "go.opentelemetry.io/otel/exporters/zipkin"
	_ "go.opentelemetry.io/otel/sdk/log"
	_ "go.opentelemetry.io/otel/sdk/metric"
	_ "go.opentelemetry.io/otel/sdk/trace"
	_ "pgregory.net/rapid"
)

func main() { fmt.Println("ok") }
