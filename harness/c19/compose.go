// compose.go: the composition of the SDK's own sources (C19, "give OTEL_SERVICE_NAME and later
// detectors precedence"): resource.Default() and resource.New(ctx, opts...) with the built-in
// options.  Specification: specs/ResourceMerge/ResModel.tla (DefaultAdm / NewAdm), enumerated by
// ResourceCompose.tla.
//
//	c19 replay -mode default   every edge = one environment setting; Default() is computed once per
//	                           process (sync.Once), so every edge runs in a SUBPROCESS
//	                           (`c19 default-child`, environment set by the parent, raw dump on stdout)
//	c19 replay -mode new       every edge = environment setting x option list, executed in-process
//	                           (environment variables set serially, one goroutine)
//	c19 random                 additionally records New events (random option lists over ALL built-in
//	                           options, every option also observed standalone) and Default events
//	                           (subprocesses) for Trace_ResourceMerge.tla
//
// The values of built-in detectors are environment specific: winners are projected onto SOURCE TAGS
// (env / envsvc / p<i> / gen); values that came from the environment or from an option must be exact,
// generated ones only well formed.
package main

import (
	"bytes"
	"context"
	"encoding/json"
	"errors"
	"fmt"
	"math/rand"
	"os"
	"os/exec"
	"regexp"
	"runtime"
	"sort"
	"strconv"
	"strings"
	"sync"

	"go.opentelemetry.io/otel/attribute"
	"go.opentelemetry.io/otel/sdk/resource"
	"go.opentelemetry.io/otel/sdk/verifh/vh"
)

// ------------------------------------------------------------------ abstract shapes (= JSON of ResourceCompose.tla)

type AEnv struct {
	X   string   `json:"x"`
	Ra  []string `json:"ra"`
	Sn  bool     `json:"sn"`
	Bad bool     `json:"bad"`
}

type AOpt struct {
	T      string   `json:"t"`
	B      string   `json:"b"`
	Keys   []string `json:"keys"`
	Schema string   `json:"schema"`
	Out    string   `json:"out"`
	Nil    bool     `json:"nil"`
}

type ADefOut struct {
	Attrs  []AKV  `json:"attrs"`
	Schema string `json:"schema"`
}

// ------------------------------------------------------------------ built-in options

// builtinOpts: abstract name -> the public option.  singles: the documented decomposition of the
// options that add several detectors ("This option is equivalent to calling WithProcessPID, ...").
var builtinOpts = map[string]func() resource.Option{
	"sdk": resource.WithTelemetrySDK, "host": resource.WithHost, "hostid": resource.WithHostID,
	"os": resource.WithOS, "ostype": resource.WithOSType, "osdesc": resource.WithOSDescription,
	"proc": resource.WithProcess, "procpid": resource.WithProcessPID, "procexe": resource.WithProcessExecutableName,
	"procpath": resource.WithProcessExecutablePath, "procargs": resource.WithProcessCommandArgs,
	"procowner": resource.WithProcessOwner, "procrtname": resource.WithProcessRuntimeName,
	"procrtver": resource.WithProcessRuntimeVersion, "procrtdesc": resource.WithProcessRuntimeDescription,
	"container": resource.WithContainer, "containerid": resource.WithContainerID,
}

var builtinSingles = map[string][]string{
	"os":        {"ostype", "osdesc"},
	"proc":      {"procpid", "procexe", "procpath", "procargs", "procowner", "procrtname", "procrtver", "procrtdesc"},
	"container": {"containerid"},
}

// documented attribute keys (mirror of ResModel!BuiltinKeys; used only to decide whether this machine
// behaves as the abstract table assumes -- otherwise edges with that built-in are skipped, never judged)
var builtinKeys = map[string][]string{
	"sdk":  {"telemetry.sdk.language", "telemetry.sdk.name", "telemetry.sdk.version"},
	"host": {"host.name"}, "hostid": {"host.id"}, "os": {"os.description", "os.type"}, "ostype": {"os.type"},
	"osdesc": {"os.description"},
	"proc": {"process.command_args", "process.executable.name", "process.executable.path", "process.owner", "process.pid",
		"process.runtime.description", "process.runtime.name", "process.runtime.version"},
	"procpid": {"process.pid"}, "procexe": {"process.executable.name"}, "procpath": {"process.executable.path"},
	"procargs": {"process.command_args"}, "procowner": {"process.owner"}, "procrtname": {"process.runtime.name"},
	"procrtver": {"process.runtime.version"}, "procrtdesc": {"process.runtime.description"},
	"container": {"container.id"}, "containerid": {"container.id"},
}

type probeT struct {
	sc     string            // the schema URL of the SDK's own detectors (observed on WithTelemetrySDK)
	vals   map[string]string // key -> value token, as detected standalone in this process
	usable map[string]bool   // built-in behaves as the abstract table says on this machine
	why    map[string]string
}

// probeBuiltins observes every built-in option standalone.
func probeBuiltins() *probeT {
	p := &probeT{vals: map[string]string{}, usable: map[string]bool{}, why: map[string]string{}}
	ctx := context.Background()
	sdk, _ := resource.New(ctx, resource.WithTelemetrySDK())
	p.sc = sdk.SchemaURL()
	for _, name := range vh.SortedKeys(builtinOpts) {
		r, err := resource.New(ctx, builtinOpts[name]())
		var keys []string
		for _, kv := range r.Attributes() {
			keys = append(keys, string(kv.Key))
			p.vals[string(kv.Key)] = valToken(kv.Value)
		}
		sort.Strings(keys)
		switch {
		case err != nil:
			p.why[name] = "error: " + err.Error()
		case strings.Join(keys, ",") != strings.Join(builtinKeys[name], ","):
			p.why[name] = "keys on this machine: " + strings.Join(keys, ",")
		case r.SchemaURL() != p.sc || p.sc == "":
			p.why[name] = "schema URL " + r.SchemaURL()
		default:
			p.usable[name] = true
		}
	}
	return p
}

// ------------------------------------------------------------------ concretization of an environment setting

type envConc struct {
	vars    map[string]*string // OTEL_GO_X_RESOURCE / OTEL_RESOURCE_ATTRIBUTES / OTEL_SERVICE_NAME (nil = unset)
	envVals map[string]string  // concrete key -> the exact (decoded) value the environment supplies
	svcName string             // the exact service name OTEL_SERVICE_NAME supplies
	snSet   bool
	group   map[string][]string // abstract key -> concrete keys ("custom.key" stands for a group)
	abs     map[string]string   // concrete key -> abstract key
}

var customGroups = [][]string{
	{"custom.key"},
	{"custom.key", "aaa.custom", "zzz.custom"},
	{"deployment.environment"},
	{"custom.key", "a", "b.b", "c", "d", "e", "k8s.pod.name", "m", "n", "u", "v", "w", "x.y.z"}, // > 12 attributes in total
}

func pctEncode(s string, all bool) string {
	var b strings.Builder
	for i := 0; i < len(s); i++ {
		c := s[i]
		switch {
		case c == ',' || c == '=' || c == '%' || c == ' ' || c == '\t':
			fmt.Fprintf(&b, "%%%02X", c)
		case all && !(c >= 'a' && c <= 'z' || c >= 'A' && c <= 'Z' || c >= '0' && c <= '9'):
			fmt.Fprintf(&b, "%%%02x", c)
		default:
			b.WriteByte(c)
		}
	}
	return b.String()
}

func envValueFor(ck string, rep, idx int) string {
	if ck == "service.instance.id" && rep%2 == 0 {
		return "123e4567-e89b-42d3-a456-42661417" + fmt.Sprintf("%04d", rep%10000) // looks generated, is not
	}
	switch (rep + idx) % 6 {
	case 0:
		return "E-" + ck
	case 1:
		return "E " + ck + ",a=b%" // every separator must survive
	case 2:
		if idx == 0 {
			return "" // "even if b's value is empty"
		}
		return "E2-" + ck
	case 3:
		return "é/ü:" + ck
	case 4:
		return " lead+trail " + ck + "\t"
	default:
		return strings.Repeat("E", 300) + ck
	}
}

func str(s string) *string { return &s }

func concretizeEnv(e AEnv, rep int) *envConc {
	c := &envConc{vars: map[string]*string{}, envVals: map[string]string{}, group: map[string][]string{}, abs: map[string]string{}, snSet: e.Sn}
	switch e.X {
	case "true":
		c.vars["OTEL_GO_X_RESOURCE"] = str([]string{"true", "TRUE", "True", "tRuE"}[rep%4])
	case "false":
		c.vars["OTEL_GO_X_RESOURCE"] = str([]string{"false", "0", "enabled", "1", "yes", "truee", "FALSE"}[rep%7])
	default:
		if rep%2 == 1 {
			c.vars["OTEL_GO_X_RESOURCE"] = str("") // "an empty value ... the same way as when the variable is unset"
		}
	}
	ra := append([]string{}, e.Ra...)
	sort.Strings(ra)
	var cks []string
	for _, k := range ra {
		g := []string{k}
		if k == "custom.key" {
			g = customGroups[rep%len(customGroups)]
		}
		c.group[k] = g
		for _, ck := range g {
			c.abs[ck] = k
			cks = append(cks, ck)
		}
	}
	// order of the members varies
	switch rep % 3 {
	case 1:
		for i, j := 0, len(cks)-1; i < j; i, j = i+1, j-1 {
			cks[i], cks[j] = cks[j], cks[i]
		}
	case 2:
		if len(cks) > 1 {
			cks = append(cks[1:], cks[0])
		}
	}
	pad := []string{"", " ", "", "\t "}[rep%4]
	var members []string
	for i, ck := range cks {
		v := envValueFor(ck, rep, i)
		c.envVals[ck] = v
		members = append(members, pad+ck+pad+"="+pad+pctEncode(v, rep%5 == 3)+pad)
	}
	if e.Bad {
		at := rep % (len(members) + 1)
		bad := []string{"oops", " no-equals-sign ", "service.name"}[rep%3]
		members = append(members[:at], append([]string{bad}, members[at:]...)...)
	}
	switch {
	case len(members) > 0:
		c.vars["OTEL_RESOURCE_ATTRIBUTES"] = str(strings.Join(members, ","))
	case rep%2 == 1:
		c.vars["OTEL_RESOURCE_ATTRIBUTES"] = str("")
	}
	if e.Sn {
		raw := []string{"checkout", " my svc ", "a,b=c%2C", "svc-" + strconv.Itoa(rep), "unknown_service"}[rep%5]
		c.vars["OTEL_SERVICE_NAME"] = str(raw)
		c.svcName = strings.TrimSpace(raw) // taken verbatim (EnvModel!WithSvc)
	}
	return c
}

var envVarNames = []string{"OTEL_GO_X_RESOURCE", "OTEL_RESOURCE_ATTRIBUTES", "OTEL_SERVICE_NAME"}

func (c *envConc) apply() {
	for _, n := range envVarNames {
		if v := c.vars[n]; v != nil {
			vh.Must(os.Setenv(n, *v))
		} else {
			vh.Must(os.Unsetenv(n))
		}
	}
}

func clearEnv() {
	for _, n := range envVarNames {
		os.Unsetenv(n)
	}
}

func (c *envConc) text() map[string]any {
	out := map[string]any{}
	for _, n := range envVarNames {
		if v := c.vars[n]; v != nil {
			out[n] = *v
		}
	}
	return out
}

// ------------------------------------------------------------------ projection onto source tags

type rawKV struct {
	K     string `json:"k"`
	Tok   string `json:"tok"`
	IsStr bool   `json:"isstr"`
	S     string `json:"s"`
}

func dumpAttrs(r *resource.Resource) []rawKV {
	out := []rawKV{}
	for _, kv := range r.Attributes() {
		x := rawKV{K: string(kv.Key), Tok: valToken(kv.Value)}
		if kv.Value.Type() == attribute.STRING {
			x.IsStr, x.S = true, kv.Value.AsString()
		}
		out = append(out, x)
	}
	return out
}

var uuidRe = regexp.MustCompile(`^[0-9a-f]{8}-[0-9a-f]{4}-[0-9a-f]{4}-[0-9a-f]{4}-[0-9a-f]{12}$`)

// genOK: is this a well-formed SDK-generated value for the key?  detected = standalone observations
// of the built-in detectors in the same process.
func genOK(x rawKV, detected map[string]string) bool {
	switch x.K {
	case "service.instance.id":
		return x.IsStr && uuidRe.MatchString(strings.ToLower(x.S))
	case "service.name":
		return x.IsStr && strings.HasPrefix(x.S, "unknown_service:") && len(x.S) > len("unknown_service:")
	case "telemetry.sdk.name":
		return x.IsStr && x.S == "opentelemetry" && detected[x.K] == x.Tok
	case "telemetry.sdk.language":
		return x.IsStr && x.S == "go" && detected[x.K] == x.Tok
	}
	t, ok := detected[x.K]
	return ok && t == x.Tok
}

// tagAttrs projects observed attributes onto (abstract key, source tag).
func tagAttrs(raw []rawKV, c *envConc, pvals []map[string]string, detected map[string]string) []AKV {
	type kt struct{ k, t string }
	var flat []kt
	for _, x := range raw {
		tag := ""
		switch {
		case x.IsStr && x.K == "service.name" && c.snSet && x.S == c.svcName:
			tag = "envsvc"
		default:
			if v, ok := c.envVals[x.K]; ok && x.IsStr && x.S == v {
				tag = "env"
			}
		}
		if tag == "" {
			for i := len(pvals) - 1; i >= 0 && tag == ""; i-- {
				if t, ok := pvals[i][x.K]; ok && t == x.Tok {
					tag = "p" + strconv.Itoa(i+1)
				}
			}
		}
		if tag == "" && genOK(x, detected) {
			tag = "gen"
		}
		if tag == "" {
			tag = "?" + x.Tok
		}
		flat = append(flat, kt{x.K, tag})
	}
	// collapse key groups
	out := []AKV{}
	done := map[string]bool{}
	for _, f := range flat {
		ak, ok := c.abs[f.k]
		if !ok || len(c.group[ak]) == 1 {
			if ok {
				out = append(out, AKV{ak, f.t})
			} else {
				out = append(out, AKV{f.k, f.t})
			}
			continue
		}
		if done[ak] {
			continue
		}
		done[ak] = true
		tags := map[string]int{}
		for _, g := range flat {
			if c.abs[g.k] == ak {
				tags[g.t]++
			}
		}
		if len(tags) == 1 && tags[f.t] == len(c.group[ak]) {
			out = append(out, AKV{ak, f.t})
		} else {
			out = append(out, AKV{ak, fmt.Sprintf("?group %v of %d", tags, len(c.group[ak]))})
		}
	}
	return out
}

// ------------------------------------------------------------------ Default(): child and parent

type childDump struct {
	Attrs   []rawKV `json:"attrs"`
	Schema  string  `json:"schema"`
	Sdk     []rawKV `json:"sdk"`
	SdkSch  string  `json:"sdksch"`
	EnvRes  ARes    `json:"envres"` // New(WithFromEnv()) in the same process (identity projection)
	EnvOut  string  `json:"envout"`
	SdkRes  ARes    `json:"sdkres"`
	GotRes  ARes    `json:"gotres"`
	Again   bool    `json:"again"` // a second Default() call returns an Equal resource with the same schema URL
	Panic   string  `json:"panic"`
	Handled int     `json:"handled"`
}

// defaultChild runs in a fresh process whose environment the parent prepared.
func defaultChild() {
	var d childDump
	func() {
		defer func() {
			if p := recover(); p != nil {
				d.Panic = fmt.Sprint(p)
			}
		}()
		r := resource.Default() // first use of the package in this process
		d.Attrs, d.Schema = dumpAttrs(r), r.SchemaURL()
		d.GotRes, _ = project(r, identProj{})
		r2 := resource.Default()
		d.Again = r2.Equal(r) && r2.SchemaURL() == r.SchemaURL()
		ctx := context.Background()
		sdk, _ := resource.New(ctx, resource.WithTelemetrySDK())
		d.Sdk, d.SdkSch = dumpAttrs(sdk), sdk.SchemaURL()
		d.SdkRes, _ = project(sdk, identProj{})
		env, err := resource.New(ctx, resource.WithFromEnv())
		d.EnvRes, _ = project(env, identProj{})
		d.EnvOut = "ok"
		if err != nil {
			d.EnvOut = "fail"
			if errors.Is(err, resource.ErrPartialResource) {
				d.EnvOut = "partial"
			}
		}
	}()
	if d.Attrs == nil {
		d.Attrs = []rawKV{}
	}
	if d.Sdk == nil {
		d.Sdk = []rawKV{}
	}
	b, err := json.Marshal(d)
	vh.Must(err)
	os.Stdout.Write(b)
}

// runDefaultChild starts this binary again with exactly the given OTEL_* variables.
func runDefaultChild(vars map[string]*string) (d *childDump, err error) {
	for attempt := 0; attempt < 3; attempt++ { // a loaded machine may fail to spawn; never a verdict
		if d, err = runDefaultChildOnce(vars); err == nil {
			return d, nil
		}
	}
	return nil, err
}

func runDefaultChildOnce(vars map[string]*string) (*childDump, error) {
	cmd := exec.Command(os.Args[0], "default-child")
	for _, kv := range os.Environ() {
		if !strings.HasPrefix(kv, "OTEL_") {
			cmd.Env = append(cmd.Env, kv)
		}
	}
	for n, v := range vars {
		if v != nil {
			cmd.Env = append(cmd.Env, n+"="+*v)
		}
	}
	var so, se bytes.Buffer
	cmd.Stdout, cmd.Stderr = &so, &se
	if err := cmd.Run(); err != nil {
		return nil, fmt.Errorf("default-child: %v: %s", err, se.String())
	}
	var d childDump
	if err := json.Unmarshal(so.Bytes(), &d); err != nil {
		return nil, fmt.Errorf("default-child output: %v: %.300s", err, so.String())
	}
	return &d, nil
}

func schemaTag(s, sc string) string {
	switch {
	case s == "":
		return ""
	case s == sc:
		return "sc"
	}
	return "?" + s
}

func detectedOf(raw []rawKV) map[string]string {
	m := map[string]string{}
	for _, x := range raw {
		m[x.K] = x.Tok
	}
	return m
}

func envClassOf(e AEnv) string {
	ra := append([]string{}, e.Ra...)
	sort.Strings(ra)
	s := "x=" + e.X + " ra={" + strings.Join(ra, ",") + "}"
	if e.Sn {
		s += " OTEL_SERVICE_NAME"
	}
	if e.Bad {
		s += " malformed-member"
	}
	return s
}

// firstDiff names the first key (in key order) on which two projected attribute maps differ.
func firstDiff(got, want []AKV) (key, wantTag, gotTag string) {
	g, w := map[string]string{}, map[string]string{}
	keys := map[string]bool{}
	for _, a := range got {
		if _, dup := g[a.K]; dup {
			return a.K, w[a.K], "duplicate"
		}
		g[a.K] = a.V
		keys[a.K] = true
	}
	for _, a := range want {
		w[a.K] = a.V
		keys[a.K] = true
	}
	for _, k := range vh.SortedKeys(keys) {
		gv, gok := g[k]
		wv, wok := w[k]
		switch {
		case !gok:
			return k, wv, "absent"
		case !wok:
			return k, "absent", strings.SplitN(gv, ":", 2)[0]
		case gv != wv:
			return k, wv, strings.SplitN(gv, ":", 2)[0]
		}
	}
	return "", "", ""
}

// attrCase completes a finding signature with the first differing key w.r.t. the closest admissible result.
func attrCase(cs map[string]any, got []AKV, adm [][]AKV) map[string]any {
	if cs["why"] != "attrs" || len(adm) == 0 {
		return cs
	}
	best := adm[0] // the reading that keeps the most (the other one discards a malformed variable)
	for _, a := range adm {
		if len(a) > len(best) {
			best = a
		}
	}
	k, w, g := firstDiff(got, best)
	cs["key"], cs["want"], cs["got"] = k, w, g
	return cs
}

func diffDefault(g ADefOut, adm []ADefOut) string {
	why := ""
	for _, a := range adm {
		switch {
		case !sameMap(g.Attrs, a.Attrs):
			if why == "" {
				why = "attrs"
			}
		case g.Schema != a.Schema:
			why = "schema"
		default:
			return ""
		}
	}
	return why
}

type defCase struct {
	i   int
	act json.RawMessage
	env AEnv
	adm []ADefOut
}

func replayDefault(edges string, rep int, res *vh.Result) {
	var cases []defCase
	eachEdge(edges, func(i int, e edge) {
		var to struct {
			Env AEnv      `json:"env"`
			Adm []ADefOut `json:"adm"`
		}
		vh.Must(json.Unmarshal(e.To, &to))
		cases = append(cases, defCase{i, e.Act, to.Env, to.Adm})
	})
	workers := runtime.NumCPU()
	if workers > 6 {
		workers = 6
	}
	ch := make(chan defCase)
	var wg sync.WaitGroup
	for w := 0; w < workers; w++ {
		wg.Add(1)
		go func() {
			defer wg.Done()
			for c := range ch {
				r := rep + c.i
				ec := concretizeEnv(c.env, r)
				d, err := runDefaultChild(ec.vars)
				if err != nil {
					res.Inconcl(err.Error())
					continue
				}
				res.Count("default_subprocesses", 1)
				act := map[string]any{"env": c.env, "rep": r, "vars": ec.text()}
				if d.Panic != "" {
					res.AddMismatch(vh.Mismatch{Kind: "panic", Case: map[string]any{"mode": "default", "why": "panic", "class": envClassOf(c.env)},
						Act: act, Detail: d.Panic})
					continue
				}
				got := ADefOut{Attrs: tagAttrs(d.Attrs, ec, nil, detectedOf(d.Sdk)), Schema: schemaTag(d.Schema, d.SdkSch)}
				why := diffDefault(got, c.adm)
				if why == "" && !d.Again {
					why = "second-call-differs"
				}
				if why != "" {
					var alts [][]AKV
					for _, a := range c.adm {
						alts = append(alts, a.Attrs)
					}
					res.AddMismatch(vh.Mismatch{Kind: "state", Case: attrCase(map[string]any{"mode": "default", "why": why, "x": c.env.X}, got.Attrs, alts),
						Act: act, Want: c.adm, Got: map[string]any{"projected": got, "raw": d.Attrs, "schema": d.Schema}, Detail: envClassOf(c.env)})
				}
				if len(c.adm) > 1 {
					res.Count("default_settings_with_two_readings", 1)
				}
				if c.env.X == "true" {
					res.Count("default_with_experimental_flag", 1)
					if contains(c.env.Ra, "service.instance.id") {
						res.Count("default_flag_and_env_instance_id", 1)
					}
				}
				if len(d.Attrs) > 12 {
					res.Count("default_over_12_attrs", 1)
				}
				if c.i%61 == 7 {
					res.Sample(map[string]any{"mode": "default", "env": c.env, "vars": ec.text(), "got": got, "adm": c.adm})
				}
			}
		}()
	}
	for _, c := range cases {
		res.Evaluations++
		res.Executed++
		ch <- c
	}
	close(ch)
	wg.Wait()
}

func contains(xs []string, s string) bool {
	for _, x := range xs {
		if x == s {
			return true
		}
	}
	return false
}

// ------------------------------------------------------------------ New(ctx, opts...) edges

const concU1 = "https://verif.example/schemas/u1"

// pValue: the value the option at position i (1-based) supplies for key k.
func pValue(i int, k string, rep int) attribute.Value {
	switch rep % 4 {
	case 0:
		return attribute.StringValue(fmt.Sprintf("P%d:%s", i, k))
	case 1:
		return attribute.Int64Value(int64(i*1000 + len(k)))
	case 2:
		return attribute.StringSliceValue([]string{"P", strconv.Itoa(i), k})
	default:
		return attribute.Float64Value(float64(i) + 0.5)
	}
}

type newCase struct {
	env  AEnv
	opts []AOpt
}

// runNewCase executes New(ctx, opts...) under the environment setting and projects the result.
func runNewCase(c newCase, rep int, pr *probeT) (got ADetOut, ec *envConc, skipped string) {
	ec = concretizeEnv(c.env, rep)
	ec.apply() // before any option is constructed: the statement does not say when WithFromEnv reads the environment
	defer clearEnv()
	cschema := func(s string) string {
		switch s {
		case "sc":
			return pr.sc
		case "u1":
			return concU1
		}
		return ""
	}
	var opts []resource.Option
	pvals := make([]map[string]string, len(c.opts))
	sents := make([]*sentinel, len(c.opts))
	for i, o := range c.opts {
		pvals[i] = map[string]string{}
		kvs := func() []attribute.KeyValue {
			ks := append([]string{}, o.Keys...)
			sort.Strings(ks)
			if (rep+i)%2 == 1 {
				for a, b := 0, len(ks)-1; a < b; a, b = a+1, b-1 {
					ks[a], ks[b] = ks[b], ks[a]
				}
			}
			var out []attribute.KeyValue
			for _, k := range ks {
				cks := []string{k}
				if g, ok := ec.group[k]; ok {
					cks = g
				} else if k == "custom.key" {
					cks = customGroups[rep%len(customGroups)]
				}
				for _, ck := range cks {
					v := pValue(i+1, ck, rep)
					pvals[i][ck] = valToken(v)
					out = append(out, attribute.KeyValue{Key: attribute.Key(ck), Value: v})
				}
			}
			return out
		}
		switch o.T {
		case "env":
			opts = append(opts, resource.WithFromEnv())
		case "bi":
			if !pr.usable[o.B] {
				return got, ec, "built-in " + o.B + " behaves differently on this machine: " + pr.why[o.B]
			}
			opts = append(opts, builtinOpts[o.B]())
		case "attrs":
			opts = append(opts, resource.WithAttributes(kvs()...))
		case "det":
			sents[i] = &sentinel{i + 1}
			var r *resource.Resource
			if !o.Nil {
				r = resource.NewWithAttributes(cschema(o.Schema), kvs()...)
			}
			opts = append(opts, resource.WithDetectors(scripted{r, scriptErr(o.Out, sents[i], rep/3+i)}))
		case "schema":
			opts = append(opts, resource.WithSchemaURL(cschema(o.Schema)))
		default:
			vh.Must(fmt.Errorf("unknown option kind %q", o.T))
		}
	}
	// "custom.key" provided by an option but not by the environment: register the group for the projection
	for _, o := range c.opts {
		if contains(o.Keys, "custom.key") {
			if _, ok := ec.group["custom.key"]; !ok {
				g := customGroups[rep%len(customGroups)]
				ec.group["custom.key"] = g
				for _, ck := range g {
					ec.abs[ck] = "custom.key"
				}
			}
		}
	}
	r, err := resource.New(context.Background(), opts...)
	_, inc := project(r, identProj{})
	got = ADetOut{Attrs: tagAttrs(dumpAttrs(r), ec, pvals, pr.vals), Fails: []int{}, Partials: []int{}, ErrNil: err == nil}
	got.Schema = schemaTag(r.SchemaURL(), pr.sc)
	if r.SchemaURL() == concU1 {
		got.Schema = "u1"
	}
	if inc != "" {
		got.Schema = "?incons:" + inc
	}
	if err != nil {
		got.Conflict = errors.Is(err, resource.ErrSchemaURLConflict)
		got.Partial = errors.Is(err, resource.ErrPartialResource)
		for i, s := range sents {
			if s != nil && c.opts[i].Out == "fail" && errors.Is(err, s) {
				got.Fails = append(got.Fails, i+1)
			}
		}
	}
	return got, ec, ""
}

func diffNew(g ADetOut, adm []ADetOut) string {
	why := ""
	for _, a := range adm {
		d := diffDetect(g, a)
		if d == "" {
			return ""
		}
		if why == "" || why == "attrs" {
			why = d
		}
	}
	return why
}

func newClass(c newCase) string {
	has := map[string]bool{}
	for _, o := range c.opts {
		switch o.T {
		case "bi":
			has["builtin:"+o.B] = true
		case "det":
			has["detector-"+o.Out] = true
		default:
			has[o.T] = true
		}
	}
	if len(c.env.Ra) > 0 {
		has["OTEL_RESOURCE_ATTRIBUTES"] = true
	}
	if c.env.Sn {
		has["OTEL_SERVICE_NAME"] = true
	}
	if c.env.Bad {
		has["malformed-member"] = true
	}
	return strings.Join(vh.SortedKeys(has), "+")
}

func replayNewEdge(i int, e edge, r int, pr *probeT, res *vh.Result) {
	var to struct {
		Env  AEnv      `json:"env"`
		Opts []AOpt    `json:"opts"`
		Adm  []ADetOut `json:"adm"`
	}
	vh.Must(json.Unmarshal(e.To, &to))
	c := newCase{to.Env, to.Opts}
	got, ec, skipped := runNewCase(c, r, pr)
	if skipped != "" {
		res.Count("new_edges_skipped_machine_specific_builtin", 1)
		return
	}
	res.Executed++
	if d := diffNew(got, to.Adm); d != "" {
		var alts [][]AKV
		for _, a := range to.Adm {
			alts = append(alts, a.Attrs)
		}
		res.AddMismatch(vh.Mismatch{Kind: "state", Case: attrCase(map[string]any{"mode": "new", "why": d, "n": len(c.opts)}, got.Attrs, alts),
			Act: map[string]any{"env": to.Env, "opts": to.Opts, "rep": r, "vars": ec.text()}, Want: to.Adm, Got: got, Detail: newClass(c)})
	}
	res.Count(fmt.Sprintf("new_lists_n%d", len(c.opts)), 1)
	if got.Conflict {
		res.Count("new_with_conflict", 1)
	}
	if got.Partial {
		res.Count("new_with_partial", 1)
	}
	nenv := 0
	for _, o := range c.opts {
		if o.T == "env" {
			nenv++
		}
	}
	if nenv > 0 && (len(to.Env.Ra) > 0 || to.Env.Sn) {
		res.Count("new_env_option_with_env_content", 1)
	}
	if len(got.Attrs) > 12 {
		res.Count("new_over_12_attrs", 1)
	}
	if i%2501 == 17 {
		res.Sample(map[string]any{"mode": "new", "env": to.Env, "opts": to.Opts, "vars": ec.text(), "got": got, "adm": to.Adm})
	}
}

// ------------------------------------------------------------------ random (code -> spec): New and Default events

var randEnvKeys = []string{"service.name", "service.instance.id", "telemetry.sdk.name", "telemetry.sdk.language", "telemetry.sdk.version",
	"host.name", "host.id", "os.type", "process.pid", "process.owner", "container.id", "custom.key", "a", "z.z",
	"deployment.environment", "k8s.pod.name", "Service.Name", "é"}

// randEnvVars: a random (ugly) environment; what it means is observed, never computed here.
func randEnvVars(r *rand.Rand) map[string]*string {
	vars := map[string]*string{}
	if r.Intn(3) != 0 {
		if r.Intn(3) == 0 {
			s, _ := randEnvTokens(r)
			vars["OTEL_RESOURCE_ATTRIBUTES"] = str(envText(s, r.Intn(12)))
		} else {
			n := r.Intn(16)
			var m []string
			for i := 0; i < n; i++ {
				k := randEnvKeys[r.Intn(len(randEnvKeys))]
				v := []string{"v", "", "a b", "x,y=z%", "é", "123e4567-e89b-42d3-a456-426614174000", "unknown_service:x", "opentelemetry"}[r.Intn(8)] + strconv.Itoa(r.Intn(3))
				if r.Intn(12) == 0 {
					m = append(m, k) // malformed member
					continue
				}
				m = append(m, []string{"", " "}[r.Intn(2)]+k+"="+pctEncode(v, r.Intn(4) == 0))
			}
			if r.Intn(2) == 0 { // the keys the SDK itself also generates
				id := "service.instance.id=" + []string{"pod-7f9c%2Fcheckout-0", "123e4567-e89b-42d3-a456-426614174000", ""}[r.Intn(3)]
				at := r.Intn(len(m) + 1)
				m = append(m[:at], append([]string{id}, m[at:]...)...)
			}
			vars["OTEL_RESOURCE_ATTRIBUTES"] = str(strings.Join(m, ","))
		}
	}
	if r.Intn(2) == 0 {
		vars["OTEL_SERVICE_NAME"] = str([]string{"svc", " padded svc ", "a,b=c%2C", "é", "unknown_service:go"}[r.Intn(5)])
	}
	return vars
}

var xSpellings = []struct {
	v  *string
	on bool
}{{nil, false}, {str(""), false}, {str("true"), true}, {str("TRUE"), true}, {str("True"), true}, {str("false"), false},
	{str("1"), false}, {str("yes"), false}, {str("tru"), false}}

func applyVars(vars map[string]*string) {
	for _, n := range envVarNames {
		if v := vars[n]; v != nil {
			vh.Must(os.Setenv(n, *v))
		} else {
			vh.Must(os.Unsetenv(n))
		}
	}
}

func varsText(vars map[string]*string) map[string]string {
	out := map[string]string{}
	for n, v := range vars {
		if v != nil {
			out[n] = strconv.QuoteToASCII(*v)
		}
	}
	return out
}

func outClass(err error) string {
	switch {
	case err == nil:
		return "ok"
	case errors.Is(err, resource.ErrPartialResource):
		return "partial"
	}
	return "fail"
}

// randomNew: one random option list over all built-in options, WithAttributes, scripted detectors and
// WithSchemaURL; every detector-contributing option is also observed standalone (New(ctx, thatOption)),
// and TLC checks that the composite equals the model's fold of the standalone observations.
func randomNew(r *rand.Rand, sc int, tw *vh.TraceWriter, res *vh.Result, pool, schemas []string) {
	P := identProj{}
	ctx := context.Background()
	vars := randEnvVars(r)
	applyVars(vars)
	defer clearEnv()
	names := vh.SortedKeys(builtinOpts)
	n := r.Intn(9)
	var opts []resource.Option
	ads := []ADet{}
	scr := []int{}
	var sents []*sentinel
	var outs []string
	base := ""
	haveSchema := false
	desc := []string{}
	addDet := func(o resource.Option, known *ADet, s *sentinel) {
		if known != nil {
			ads = append(ads, *known)
		} else {
			x, err := resource.New(ctx, o)
			px, _ := project(x, P)
			ads = append(ads, ADet{px, outClass(err)})
		}
		sents = append(sents, s)
		outs = append(outs, ads[len(ads)-1].Out)
	}
	for i := 0; i < n; i++ {
		switch k := r.Intn(10); {
		case k < 2:
			o := resource.WithFromEnv()
			opts = append(opts, o)
			addDet(o, nil, nil)
			desc = append(desc, "env")
		case k < 5:
			name := names[r.Intn(len(names))]
			opts = append(opts, builtinOpts[name]())
			singles := builtinSingles[name]
			if singles == nil {
				singles = []string{name}
			}
			for _, s := range singles { // documented decomposition, in the documented order
				addDet(builtinOpts[s](), nil, nil)
			}
			desc = append(desc, name)
		case k < 7:
			kvs := randList(r, 6, append(append([]string{}, pool...), "service.name", "host.name", "process.pid", "telemetry.sdk.name"), false)
			o := resource.WithAttributes(kvs...)
			opts = append(opts, o)
			addDet(o, nil, nil)
			desc = append(desc, "attrs")
		case k < 9:
			s := &sentinel{len(ads) + 1}
			out := []string{"ok", "ok", "ok", "partial", "fail"}[r.Intn(5)]
			x := randRes(r, tw, append(append([]string{}, pool...), "service.name", "os.type"), schemas, 6, false)
			px, _ := project(x, P)
			o := resource.WithDetectors(scripted{x, scriptErr(out, s, r.Intn(6))})
			opts = append(opts, o)
			addDet(o, &ADet{px, out}, s)
			scr = append(scr, len(ads))
			desc = append(desc, "det-"+out)
		default:
			if haveSchema {
				continue
			}
			haveSchema = true
			base = append(append([]string{}, schemas...), "https://opentelemetry.io/schemas/1.26.0")[r.Intn(len(schemas)+1)]
			opts = append(opts, resource.WithSchemaURL(base))
			desc = append(desc, "schema")
		}
	}
	rr, err := resource.New(ctx, opts...)
	pr, inc := project(rr, P)
	g := ADetOut{Attrs: pr.Attrs, Schema: pr.Schema, Fails: []int{}, Partials: []int{}, ErrNil: err == nil}
	if inc != "" {
		g.Schema = "?incons:" + inc
	}
	if err != nil {
		g.Conflict = errors.Is(err, resource.ErrSchemaURLConflict)
		g.Partial = errors.Is(err, resource.ErrPartialResource)
		for i, s := range sents {
			if s != nil && outs[i] == "fail" && errors.Is(err, s) {
				g.Fails = append(g.Fails, i+1)
			}
		}
	}
	tw.Emit(map[string]any{"ev": "New", "sc": sc, "base": base, "ds": ads, "scr": scr, "got": g, "opts": desc, "vars": varsText(vars)})
	res.Executed++
	res.Count("random_new_lists", 1)
	if len(g.Attrs) > 12 {
		res.Count("random_new_over_12_attrs", 1)
	}
	if g.Conflict {
		res.Count("random_new_conflict", 1)
	}
	for _, d := range ads {
		if d.Out == "fail" {
			res.Count("random_new_failed_detector", 1)
			break
		}
	}
}

// randomDefaults: Default() under random environments, one subprocess each (parallel); the event carries
// the standalone observations of the environment and telemetry-SDK layers made in the same process.
func randomDefaults(r *rand.Rand, n int, tw *vh.TraceWriter, res *vh.Result) {
	type job struct {
		vars map[string]*string
		on   bool
	}
	jobs := make([]job, n)
	for i := range jobs {
		vars := randEnvVars(r)
		x := xSpellings[r.Intn(len(xSpellings))]
		if r.Intn(2) == 0 {
			x = xSpellings[2+r.Intn(3)]
		}
		vars["OTEL_GO_X_RESOURCE"] = x.v
		jobs[i] = job{vars, x.on}
	}
	dumps := make([]*childDump, n)
	errs := make([]error, n)
	var wg sync.WaitGroup
	sem := make(chan struct{}, 6)
	for i := range jobs {
		wg.Add(1)
		sem <- struct{}{}
		go func(i int) {
			defer wg.Done()
			defer func() { <-sem }()
			dumps[i], errs[i] = runDefaultChild(jobs[i].vars)
		}(i)
	}
	wg.Wait()
	P := identProj{}
	for i, d := range dumps {
		if errs[i] != nil {
			res.Inconcl(errs[i].Error())
			continue
		}
		if d.Panic != "" {
			res.AddMismatch(vh.Mismatch{Kind: "panic", Case: map[string]any{"mode": "default", "why": "panic"}, Detail: d.Panic, Act: varsText(jobs[i].vars)})
			continue
		}
		svcK, sidK := P.key("service.name"), P.key("service.instance.id")
		envTok := map[string]string{}
		for _, a := range d.EnvRes.Attrs {
			envTok[a.K] = a.V
		}
		got := ADefOut{Attrs: []AKV{}, Schema: d.GotRes.Schema}
		for j, a := range d.GotRes.Attrs {
			v := a.V
			// a generated default is only checked for well-formedness; a value the environment layer
			// supplied for the key stays verbatim
			if (a.K == svcK || a.K == sidK) && envTok[a.K] != a.V && genOK(d.Attrs[j], nil) {
				v = "gen"
			}
			got.Attrs = append(got.Attrs, AKV{a.K, v})
		}
		tw.Emit(map[string]any{"ev": "Default", "xon": jobs[i].on, "svcK": svcK, "sidK": sidK,
			"envobs": ADet{d.EnvRes, d.EnvOut}, "sdkobs": ADet{d.SdkRes, "ok"}, "got": got, "vars": varsText(jobs[i].vars)})
		res.Executed++
		res.Count("random_default_subprocesses", 1)
		if jobs[i].on {
			res.Count("random_default_flag_on", 1)
			if _, ok := envTok[sidK]; ok {
				res.Count("random_default_flag_on_and_env_instance_id", 1)
			}
		}
		if d.EnvOut == "partial" {
			res.Count("random_default_env_partial", 1)
		}
	}
}
