// c19: conformance harness for specs/ResourceMerge (property C19).
//
//	c19 replay -mode merge|list|detect|env|default|new -edges F -rep N -out R   (default / new: see compose.go)
//	    executes, for every TLC edge, the operand tuple / attribute list / detector sequence /
//	    environment string of the successor state on the real sdk/resource package, projects what
//	    it observes onto the specification's state space and compares with the successor's `out`.
//	c19 random -n N -out TRACE -res R
//	    seeded random resources (up to 12 attributes of all 8 value types), lists, detector
//	    sequences and environment strings on the real code -> ndjson trace validated by TLC.
//
// Go only executes and projects; what is expected comes from TLC (edges) or is decided by TLC
// (trace).  Environment variables are process global: everything here runs in ONE goroutine.
package main

import (
	"bufio"
	"context"
	"encoding/json"
	"errors"
	"flag"
	"fmt"
	"math"
	"math/rand"
	"os"
	"sort"
	"strconv"
	"strings"
	"unicode/utf8"

	"go.opentelemetry.io/otel"
	"go.opentelemetry.io/otel/attribute"
	"go.opentelemetry.io/otel/sdk/resource"
	"go.opentelemetry.io/otel/sdk/verifh/vh"
)

// ------------------------------------------------------------------ abstract shapes (= JSON of the specs)

type AKV struct {
	K string `json:"k"`
	V string `json:"v"`
}
type ARes struct {
	Nil    bool   `json:"nil"`
	Attrs  []AKV  `json:"attrs"`
	Schema string `json:"schema"`
}
type AOut struct {
	Attrs  []AKV  `json:"attrs"`
	Schema string `json:"schema"`
	Errs   []bool `json:"errs"`
}
type ATuple struct {
	L        AOut   `json:"l"`
	R        AOut   `json:"r"`
	Eq       []bool `json:"eq"`
	Equiv    []bool `json:"equiv"`
	MapKey   []bool `json:"mapkey"`
	OtherErr bool   `json:"otherErr"` // an error that is not a schema conflict was returned by Merge
	Incons   string `json:"incons"`   // accessors of one resource disagree with each other
}
type ADet struct {
	Res ARes   `json:"res"`
	Out string `json:"out"`
}
type ADetOut struct {
	Attrs    []AKV  `json:"attrs"`
	Schema   string `json:"schema"`
	Conflict bool   `json:"conflict"`
	Partials []int  `json:"partials"` // want only
	Partial  bool   `json:"partial"`  // got: errors.Is(err, ErrPartialResource)
	Fails    []int  `json:"fails"`
	ErrNil   bool   `json:"errNil"`
}
type AListOut struct {
	Adm    [][]AKV `json:"adm"`
	Schema string  `json:"schema"`
}
type EKV struct {
	K []string `json:"k"`
	V []string `json:"v"`
}
type ESvc struct {
	Set bool     `json:"set"`
	S   []string `json:"s"`
}
type EAdm struct {
	Attrs []EKV    `json:"attrs"`
	Errs  []string `json:"errs"`
}
type EGot struct {
	Attrs []EKV  `json:"attrs"`
	Err   string `json:"err"`
}

// ------------------------------------------------------------------ projection

// projector maps concrete keys / values / schema URLs onto the specification's names.
type projector interface {
	key(string) string
	val(attribute.Value) string
	schema(string) string
}

// valToken is a faithful ASCII name of a concrete value: type + Go syntax of the payload.
func valToken(v attribute.Value) string {
	return v.Type().String() + ":" + strconv.QuoteToASCII(fmt.Sprintf("%#v", v.AsInterface()))
}

type identProj struct{}

func (identProj) key(k string) string          { return strconv.QuoteToASCII(k) }
func (identProj) val(v attribute.Value) string { return valToken(v) }
func (identProj) schema(s string) string       { return s }

// project observes a resource through its public accessors only. nil is observed through the
// same (nil safe) accessors. incons reports accessors that contradict each other.
func project(r *resource.Resource, p projector) (ARes, string) {
	out := ARes{Nil: r == nil, Attrs: []AKV{}, Schema: p.schema(r.SchemaURL())}
	attrs := r.Attributes()
	for _, kv := range attrs {
		out.Attrs = append(out.Attrs, AKV{p.key(string(kv.Key)), p.val(kv.Value)})
	}
	incons := ""
	if r.Len() != len(attrs) {
		incons = fmt.Sprintf("Len()=%d but %d attributes", r.Len(), len(attrs))
	}
	it := r.Iter()
	n := 0
	for it.Next() {
		kv := it.Attribute()
		if n >= len(attrs) || kv.Key != attrs[n].Key || valToken(kv.Value) != valToken(attrs[n].Value) {
			incons = "Iter() disagrees with Attributes()"
			break
		}
		n++
	}
	if incons == "" && n != len(attrs) {
		incons = "Iter() shorter than Attributes()"
	}
	for i, kv := range attrs {
		if i > 0 && !(attrs[i-1].Key < kv.Key) {
			incons = "Attributes() not strictly sorted by key"
		}
		if v, ok := r.Set().Value(kv.Key); !ok || valToken(v) != valToken(kv.Value) {
			incons = "Set().Value() disagrees with Attributes()"
		}
	}
	return out, incons
}

func sortKV(a []AKV) []AKV {
	b := append([]AKV{}, a...)
	sort.Slice(b, func(i, j int) bool {
		if b[i].K != b[j].K {
			return b[i].K < b[j].K
		}
		return b[i].V < b[j].V
	})
	return b
}

// sameMap: equal as sets of (k,v) AND got has no repeated entry.
func sameMap(got, want []AKV) bool {
	if len(got) != len(want) {
		return false
	}
	g, w := sortKV(got), sortKV(want)
	for i := range g {
		if g[i] != w[i] {
			return false
		}
	}
	return true
}

func boolsEq(a, b []bool) bool {
	if len(a) != len(b) {
		return false
	}
	for i := range a {
		if a[i] != b[i] {
			return false
		}
	}
	return true
}

// ------------------------------------------------------------------ concretization for the exhaustive modes

var keyReps = [][2]string{
	{"k1", "k2"},
	{"b", "a"}, // k2 sorts before k1
	{"service.name", "Service.Name"},
	{"é", "é"},
	{"k", "k "},
	{"a\x00", "a"},
	{strings.Repeat("x", 300) + "1", strings.Repeat("x", 300) + "0"},
	{"\xff", "\xfe\xff"}, // not UTF-8
}

func valReps(rep int) [2]attribute.Value {
	switch rep % 12 {
	case 0:
		return [2]attribute.Value{attribute.StringValue("v1"), attribute.StringValue("v2")}
	case 1:
		return [2]attribute.Value{attribute.Int64Value(1), attribute.Int64Value(2)}
	case 2:
		return [2]attribute.Value{attribute.BoolValue(true), attribute.BoolValue(false)}
	case 3:
		return [2]attribute.Value{attribute.Float64Value(1.5), attribute.Float64Value(math.Inf(-1))}
	case 4:
		return [2]attribute.Value{attribute.StringSliceValue([]string{"a"}), attribute.StringSliceValue([]string{"a", "b"})}
	case 5:
		return [2]attribute.Value{attribute.Int64SliceValue([]int64{1}), attribute.Int64SliceValue([]int64{})}
	case 6:
		return [2]attribute.Value{attribute.BoolSliceValue([]bool{true, false}), attribute.BoolSliceValue([]bool{false, true})}
	case 7:
		return [2]attribute.Value{attribute.Float64SliceValue([]float64{0.5}), attribute.Float64SliceValue([]float64{0.5, 1})}
	case 8: // same text, different type
		return [2]attribute.Value{attribute.StringValue("1"), attribute.Int64Value(1)}
	case 9: // "even if b's value is empty"
		return [2]attribute.Value{attribute.StringValue(""), attribute.StringValue("x")}
	case 10:
		return [2]attribute.Value{attribute.StringSliceValue(nil), attribute.StringSliceValue([]string{""})}
	default:
		return [2]attribute.Value{attribute.Float64Value(0), attribute.Int64Value(0)}
	}
}

var schemaReps = [][2]string{
	{"https://opentelemetry.io/schemas/1.21.0", "https://opentelemetry.io/schemas/1.26.0"},
	{"u", "U"},
	{"https://example.com/a", "https://example.com/a/"},
}

type conc struct {
	rep     int
	keys    [2]string
	vals    [2]attribute.Value
	schemas [2]string
}

func newConc(rep int) *conc {
	return &conc{rep: rep, keys: keyReps[rep%len(keyReps)], vals: valReps(rep / 2), schemas: schemaReps[rep%len(schemaReps)]}
}

func (c *conc) key(k string) string {
	switch k {
	case c.keys[0]:
		return "k1"
	case c.keys[1]:
		return "k2"
	}
	return "?" + strconv.QuoteToASCII(k)
}

func (c *conc) val(v attribute.Value) string {
	t := valToken(v)
	switch t {
	case valToken(c.vals[0]):
		return "v1"
	case valToken(c.vals[1]):
		return "v2"
	}
	return "?" + t
}

func (c *conc) schema(s string) string {
	switch s {
	case "":
		return ""
	case c.schemas[0]:
		return "u1"
	case c.schemas[1]:
		return "u2"
	}
	return "?" + s
}

func (c *conc) cSchema(s string) string {
	switch s {
	case "u1":
		return c.schemas[0]
	case "u2":
		return c.schemas[1]
	}
	return ""
}

func (c *conc) kv(a AKV) attribute.KeyValue {
	var k attribute.Key
	switch a.K {
	case "k1":
		k = attribute.Key(c.keys[0])
	case "k2":
		k = attribute.Key(c.keys[1])
	case "":
		k = ""
	default:
		panic("abstract key " + a.K)
	}
	switch a.V {
	case "v1":
		return attribute.KeyValue{Key: k, Value: c.vals[0]}
	case "v2":
		return attribute.KeyValue{Key: k, Value: c.vals[1]}
	case "inv":
		return attribute.KeyValue{Key: k} // zero Value: type INVALID
	}
	panic("abstract value " + a.V)
}

// res builds the operand through one of the public constructors (chosen by variant).
func (c *conc) res(a ARes, variant int) *resource.Resource {
	if a.Nil {
		return nil
	}
	kvs := make([]attribute.KeyValue, 0, len(a.Attrs))
	for _, x := range a.Attrs {
		kvs = append(kvs, c.kv(x))
	}
	if variant%2 == 1 { // offered in the other order
		for i, j := 0, len(kvs)-1; i < j; i, j = i+1, j-1 {
			kvs[i], kvs[j] = kvs[j], kvs[i]
		}
	}
	s := c.cSchema(a.Schema)
	if s == "" {
		switch {
		case len(kvs) == 0 && variant%3 == 0:
			return resource.Empty()
		case variant%3 == 1:
			return resource.NewSchemaless(kvs...)
		}
	}
	return resource.NewWithAttributes(s, kvs...)
}

// ------------------------------------------------------------------ merge tuples

func classifyMergeErr(err error) (conflict, other bool) {
	if err == nil {
		return false, false
	}
	if errors.Is(err, resource.ErrSchemaURLConflict) {
		return true, false
	}
	return false, true
}

// runTuple: left fold, right fold, Equal / Equivalent matrix over operands and both results.
func runTuple(xs []*resource.Resource, p projector) ATuple {
	var t ATuple
	note := func(s string) {
		if s != "" && t.Incons == "" {
			t.Incons = s
		}
	}
	before := make([]ARes, len(xs))
	for i, x := range xs {
		var inc string
		before[i], inc = project(x, p)
		note(inc)
	}
	// left fold
	acc := xs[0]
	t.L.Errs = []bool{}
	for _, x := range xs[1:] {
		m, err := resource.Merge(acc, x)
		c, o := classifyMergeErr(err)
		t.L.Errs = append(t.L.Errs, c)
		t.OtherErr = t.OtherErr || o
		acc = m
	}
	l := acc
	// right fold, innermost first
	acc = xs[len(xs)-1]
	t.R.Errs = []bool{}
	for i := len(xs) - 2; i >= 0; i-- {
		m, err := resource.Merge(xs[i], acc)
		c, o := classifyMergeErr(err)
		t.R.Errs = append(t.R.Errs, c)
		t.OtherErr = t.OtherErr || o
		acc = m
	}
	r := acc
	pl, inc := project(l, p)
	note(inc)
	pr, inc := project(r, p)
	note(inc)
	t.L.Attrs, t.L.Schema = pl.Attrs, pl.Schema
	t.R.Attrs, t.R.Schema = pr.Attrs, pr.Schema
	objs := append(append([]*resource.Resource{}, xs...), l, r)
	t.Eq, t.Equiv, t.MapKey = []bool{}, []bool{}, []bool{}
	for i := 0; i < len(objs); i++ {
		for j := i + 1; j < len(objs); j++ {
			t.Eq = append(t.Eq, objs[i].Equal(objs[j]))
			t.Equiv = append(t.Equiv, objs[i].Equivalent() == objs[j].Equivalent())
			m := map[attribute.Distinct]int{objs[i].Equivalent(): 1}
			_, hit := m[objs[j].Equivalent()]
			t.MapKey = append(t.MapKey, hit)
		}
	}
	// operands are immutable
	for i, x := range xs {
		after, _ := project(x, p)
		if !sameMap(after.Attrs, before[i].Attrs) || after.Schema != before[i].Schema {
			note(fmt.Sprintf("operand %d changed by Merge", i))
		}
	}
	return t
}

func diffTuple(got ATuple, wl, wr AOut, weq []bool) string {
	switch {
	case got.OtherErr:
		return "err-other"
	case !sameMap(got.L.Attrs, wl.Attrs):
		return "l.attrs"
	case got.L.Schema != wl.Schema:
		return "l.schema"
	case !boolsEq(got.L.Errs, wl.Errs):
		return "l.errs"
	case !sameMap(got.R.Attrs, wr.Attrs):
		return "r.attrs"
	case got.R.Schema != wr.Schema:
		return "r.schema"
	case !boolsEq(got.R.Errs, wr.Errs):
		return "r.errs"
	case !boolsEq(got.Eq, weq):
		return "equal"
	case !boolsEq(got.Equiv, weq):
		return "equivalent"
	case !boolsEq(got.MapKey, weq):
		return "mapkey"
	case got.Incons != "":
		return "accessors"
	}
	return ""
}

// ------------------------------------------------------------------ lists

type listGot struct {
	Attrs  []AKV  `json:"attrs"`
	Schema string `json:"schema"`
	Via    string `json:"via"`
	Incons string `json:"incons"`
}

// runList builds a resource from the list through every public route.
func runList(kvs []attribute.KeyValue, schema string, p projector) []listGot {
	cp := func() []attribute.KeyValue { return append([]attribute.KeyValue{}, kvs...) }
	var out []listGot
	add := func(via string, r *resource.Resource) {
		pr, inc := project(r, p)
		out = append(out, listGot{pr.Attrs, pr.Schema, via, inc})
	}
	add("NewWithAttributes", resource.NewWithAttributes(schema, cp()...))
	if schema == "" {
		add("NewSchemaless", resource.NewSchemaless(cp()...))
	}
	r, err := resource.New(context.Background(), resource.WithSchemaURL(schema), resource.WithAttributes(cp()...))
	if err != nil {
		out = append(out, listGot{[]AKV{}, "", "New(WithAttributes) error: " + err.Error(), "error"})
	} else {
		add("New(WithAttributes)", r)
	}
	return out
}

// ------------------------------------------------------------------ detectors

type scripted struct {
	res *resource.Resource
	err error
}

func (s scripted) Detect(context.Context) (*resource.Resource, error) { return s.res, s.err }

type sentinel struct{ i int }

func (s *sentinel) Error() string { return fmt.Sprintf("detector %d failed", s.i) }

// scriptErr builds the error of detector i with outcome out; style varies how it is wrapped.
func scriptErr(out string, s *sentinel, style int) error {
	switch out {
	case "partial":
		switch style % 3 {
		case 0:
			return fmt.Errorf("%w: d%d: %w", resource.ErrPartialResource, s.i, s)
		case 1:
			return errors.Join(s, fmt.Errorf("wrapped: %w", resource.ErrPartialResource))
		default:
			return fmt.Errorf("outer: %w", fmt.Errorf("%w (%w)", s, resource.ErrPartialResource))
		}
	case "fail":
		if style%2 == 0 {
			return s
		}
		return fmt.Errorf("detector: %w", s)
	}
	return nil
}

func runDetect(base string, ds []scripted, sents []*sentinel, outs []string, p projector, style int) []ADetOut {
	observe := func(r *resource.Resource, err error) ADetOut {
		pr, inc := project(r, p)
		o := ADetOut{Attrs: pr.Attrs, Schema: pr.Schema, Fails: []int{}, Partials: []int{}, ErrNil: err == nil}
		if inc != "" {
			o.Schema = "?incons:" + inc
		}
		if err != nil {
			o.Conflict = errors.Is(err, resource.ErrSchemaURLConflict)
			o.Partial = errors.Is(err, resource.ErrPartialResource)
			for i, s := range sents {
				if outs[i] == "fail" && errors.Is(err, s) {
					o.Fails = append(o.Fails, i+1)
				}
			}
		}
		return o
	}
	dets := make([]resource.Detector, len(ds))
	for i := range ds {
		dets[i] = ds[i]
	}
	var res []ADetOut
	ctx := context.Background()
	// New: one WithDetectors option, or one option per detector
	if style%2 == 0 {
		res = append(res, observe(resource.New(ctx, resource.WithSchemaURL(base), resource.WithDetectors(dets...))))
	} else {
		opts := []resource.Option{}
		if base != "" || style%4 == 1 {
			opts = append(opts, resource.WithSchemaURL(base))
		}
		for _, d := range dets {
			opts = append(opts, resource.WithDetectors(d))
		}
		res = append(res, observe(resource.New(ctx, opts...)))
	}
	if base == "" {
		res = append(res, observe(resource.Detect(ctx, dets...)))
	}
	return res
}

func diffDetect(g ADetOut, w ADetOut) string {
	switch {
	case !sameMap(g.Attrs, w.Attrs):
		return "attrs"
	case g.Schema != w.Schema:
		return "schema"
	case g.Conflict != w.Conflict:
		return "conflict-error"
	case g.Partial != (len(w.Partials) > 0):
		return "partial-error"
	case fmt.Sprint(g.Fails) != fmt.Sprint(w.Fails):
		return "fail-error-wrapping"
	case g.ErrNil != w.ErrNil:
		return "err-nil"
	}
	return ""
}

// ------------------------------------------------------------------ environment

// token -> text; several representatives per token (DESIGN.md App. C "Env attrs").
var envReps = map[string][]string{
	"k": {"k", "x", "_", "K"}, "j": {"j", "y", "-", "J"}, "svc": {"service.name"},
	"eq": {"="}, "comma": {","}, "sp": {" ", "\t"}, "plus": {"+"}, "oth": {"é", "世", "😀"},
	"pct": {"%"}, "pvC": {"%2C", "%2c"}, "pvE": {"%3D", "%3d"}, "pvS": {"%20"}, "pvP": {"%25"},
	"pbZ": {"%zz"}, "pb2": {"%2z"}, "hx": {"2C", "2c"},
}

func envText(toks []string, rep int) string {
	var b strings.Builder
	for _, t := range toks {
		r, ok := envReps[t]
		if !ok {
			panic("unknown env token " + t)
		}
		b.WriteString(r[rep%len(r)])
	}
	return b.String()
}

// lexChars projects a real key / value onto the character classes of EnvModel.tla.
func lexChars(s string) []string {
	out := []string{}
	for i := 0; i < len(s); {
		if strings.HasPrefix(s[i:], "service.name") {
			out = append(out, "svc")
			i += len("service.name")
			continue
		}
		r, size := utf8.DecodeRuneInString(s[i:])
		switch {
		case r == utf8.RuneError && size == 1:
			out = append(out, "?badbyte")
		case size > 1:
			out = append(out, "oth")
		default:
			switch s[i] {
			case 'k', 'x', '_', 'K':
				out = append(out, "k")
			case 'j', 'y', '-', 'J':
				out = append(out, "j")
			case '=':
				out = append(out, "eq")
			case ',':
				out = append(out, "comma")
			case ' ', '\t':
				out = append(out, "sp")
			case '+':
				out = append(out, "plus")
			case '%':
				out = append(out, "pct")
			case '2':
				out = append(out, "d2")
			case 'C', 'c':
				out = append(out, "dC")
			case '3':
				out = append(out, "d3")
			case 'D', 'd':
				out = append(out, "dD")
			case '0':
				out = append(out, "d0")
			case '5':
				out = append(out, "d5")
			case 'z':
				out = append(out, "z")
			default:
				out = append(out, "?"+strconv.QuoteToASCII(string(s[i])))
			}
		}
		i += size
	}
	return out
}

func setOrUnset(name string, set bool, val string) {
	if set {
		vh.Must(os.Setenv(name, val))
	} else {
		vh.Must(os.Unsetenv(name))
	}
}

var handled []error // errors given to otel.Handle during the current call

// runEnv sets the two variables and observes the environment detector through the public API.
func runEnv(s []string, svc ESvc, rep int) (EGot, string) {
	text := envText(s, rep)
	setOrUnset("OTEL_RESOURCE_ATTRIBUTES", !(len(s) == 0 && rep%2 == 1), text)
	setOrUnset("OTEL_SERVICE_NAME", svc.Set, envText(svc.S, rep))
	defer os.Unsetenv("OTEL_RESOURCE_ATTRIBUTES")
	defer os.Unsetenv("OTEL_SERVICE_NAME")
	r, err := resource.New(context.Background(), resource.WithFromEnv())
	got := EGot{Attrs: []EKV{}, Err: "none"}
	if err != nil {
		got.Err = "other"
		if errors.Is(err, resource.ErrPartialResource) {
			got.Err = "partial"
		}
	}
	for _, kv := range r.Attributes() {
		v := []string{"?type:" + kv.Value.Type().String()}
		if kv.Value.Type() == attribute.STRING { // "all attribute values MUST be considered strings"
			v = lexChars(kv.Value.AsString())
		}
		got.Attrs = append(got.Attrs, EKV{lexChars(string(kv.Key)), v})
	}
	incons := ""
	if r.SchemaURL() != "" {
		incons = "environment resource has a schema URL"
	}
	// the other public route must see the same attributes
	e := resource.Environment()
	if !e.Equal(r) {
		incons = "Environment() differs from New(WithFromEnv())"
	}
	return got, incons
}

func ekvKey(a EKV) string { return strings.Join(a.K, " ") + "\x00" + strings.Join(a.V, " ") }

func sameEnvMap(got, want []EKV) bool {
	if len(got) != len(want) {
		return false
	}
	g := map[string]int{}
	for _, a := range got {
		g[ekvKey(a)]++
	}
	for _, a := range want {
		if g[ekvKey(a)] != 1 {
			return false
		}
	}
	return true
}

func envAdmissible(got EGot, adm []EAdm) bool {
	for _, a := range adm {
		if !sameEnvMap(got.Attrs, a.Attrs) {
			continue
		}
		for _, e := range a.Errs {
			if e == got.Err {
				return true
			}
		}
	}
	return false
}

// envClass names the special input classes of an environment string (for finding signatures).
func envClass(s []string, svc ESvc) string {
	has := map[string]bool{}
	for _, t := range s {
		switch t {
		case "pct", "pbZ", "pb2":
			has["bad-escape"] = true
		case "pvC", "pvE", "pvS", "pvP":
			has["escape"] = true
		case "sp":
			has["space"] = true
		case "oth":
			has["non-ascii"] = true
		case "plus":
			has["plus"] = true
		case "svc":
			has["service.name"] = true
		case "hx":
			has["hexlike"] = true
		}
	}
	if svc.Set {
		has["OTEL_SERVICE_NAME"] = true
	}
	return strings.Join(vh.SortedKeys(has), "+")
}

// ------------------------------------------------------------------ replay (spec -> code)

type edge struct {
	Act json.RawMessage `json:"act"`
	To  json.RawMessage `json:"to"`
}

func eachEdge(path string, f func(i int, e edge)) {
	fh, err := os.Open(path)
	vh.Must(err)
	defer fh.Close()
	sc := bufio.NewScanner(fh)
	sc.Buffer(make([]byte, 1<<20), 1<<28)
	i := 0
	for sc.Scan() {
		line := sc.Bytes()
		if len(strings.TrimSpace(string(line))) == 0 {
			continue
		}
		var e edge
		vh.Must(json.Unmarshal(line, &e))
		f(i, e)
		i++
	}
	vh.Must(sc.Err())
	if i == 0 {
		vh.Must(fmt.Errorf("no edges in %s", path))
	}
}

func replay(args []string) {
	fs := flag.NewFlagSet("replay", flag.ExitOnError)
	mode := fs.String("mode", "merge", "")
	edges := fs.String("edges", "", "")
	rep := fs.Int("rep", 0, "")
	out := fs.String("out", "result.json", "")
	fs.Parse(args)
	res := vh.NewResult()
	otel.SetErrorHandler(otel.ErrorHandlerFunc(func(err error) { handled = append(handled, err) }))
	if *mode == "default" { // one subprocess per edge
		replayDefault(*edges, *rep, res)
		vh.Must(res.Write(*out))
		return
	}
	var pr *probeT
	if *mode == "new" {
		clearEnv()
		pr = probeBuiltins()
		for _, n := range vh.SortedKeys(pr.why) {
			res.Count("builtin_machine_specific:"+n, 1)
		}
	}
	eachEdge(*edges, func(i int, e edge) {
		res.Evaluations++
		// the representative varies along the edge list so that one pass already mixes them
		r := *rep + i
		defer func() {
			if p := recover(); p != nil {
				res.AddMismatch(vh.Mismatch{Kind: "panic", Case: map[string]any{"mode": *mode, "why": "panic"},
					Act: e.Act, Want: e.To, Detail: fmt.Sprint(p)})
			}
		}()
		switch *mode {
		case "merge":
			var to struct {
				Xs  []ARes `json:"xs"`
				Out struct {
					L  AOut   `json:"l"`
					R  AOut   `json:"r"`
					Eq []bool `json:"eq"`
				} `json:"out"`
			}
			vh.Must(json.Unmarshal(e.To, &to))
			c := newConc(r)
			xs := make([]*resource.Resource, len(to.Xs))
			for j, a := range to.Xs {
				xs[j] = c.res(a, r/3+j)
			}
			got := runTuple(xs, c)
			res.Executed++
			if d := diffTuple(got, to.Out.L, to.Out.R, to.Out.Eq); d != "" {
				res.AddMismatch(vh.Mismatch{Kind: "state", Case: map[string]any{"mode": "merge", "why": d, "n": len(xs), "class": tupleClass(to.Xs)},
					Act: map[string]any{"xs": to.Xs, "rep": r}, Want: to.Out, Got: got, Detail: got.Incons})
			}
			res.Count(fmt.Sprintf("merge_tuples_n%d", len(xs)), 1)
			for _, b := range append(append([]bool{}, to.Out.L.Errs...), to.Out.R.Errs...) {
				if b {
					res.Count("merge_calls_with_conflict", 1)
				}
			}
			if i%3001 == 7 {
				res.Sample(map[string]any{"xs": to.Xs, "want": to.Out, "got": got})
			}
		case "list":
			var to struct {
				Xs   []AKV    `json:"xs"`
				Base string   `json:"base"`
				Out  AListOut `json:"out"`
			}
			vh.Must(json.Unmarshal(e.To, &to))
			c := newConc(r)
			kvs := make([]attribute.KeyValue, len(to.Xs))
			for j, a := range to.Xs {
				kvs[j] = c.kv(a)
			}
			for _, g := range runList(kvs, c.cSchema(to.Base), c) {
				res.Executed++
				why := ""
				okAttrs := false
				for _, adm := range to.Out.Adm {
					if sameMap(g.Attrs, adm) {
						okAttrs = true
					}
				}
				switch {
				case !okAttrs:
					why = "attrs"
				case g.Schema != to.Out.Schema:
					why = "schema"
				case g.Incons != "":
					why = "accessors"
				}
				if why != "" {
					res.AddMismatch(vh.Mismatch{Kind: "state", Case: map[string]any{"mode": "list", "why": why, "via": g.Via, "class": listClass(to.Xs)},
						Act: map[string]any{"list": to.Xs, "schema": to.Base, "rep": r}, Want: to.Out, Got: g, Detail: g.Incons})
				}
			}
			if len(to.Out.Adm) > 1 {
				res.Count("lists_with_two_admissible_results", 1)
			}
			if i%2003 == 5 {
				res.Sample(map[string]any{"list": to.Xs, "schema": to.Base, "want": to.Out})
			}
		case "detect":
			var to struct {
				Xs   []ADet  `json:"xs"`
				Base string  `json:"base"`
				Out  ADetOut `json:"out"`
			}
			vh.Must(json.Unmarshal(e.To, &to))
			c := newConc(r)
			ds := make([]scripted, len(to.Xs))
			sents := make([]*sentinel, len(to.Xs))
			outs := make([]string, len(to.Xs))
			for j, d := range to.Xs {
				sents[j] = &sentinel{j + 1}
				outs[j] = d.Out
				ds[j] = scripted{c.res(d.Res, r/3+j), scriptErr(d.Out, sents[j], r/5+j)}
			}
			for _, g := range runDetect(c.cSchema(to.Base), ds, sents, outs, c, r/7) {
				res.Executed++
				if d := diffDetect(g, to.Out); d != "" {
					res.AddMismatch(vh.Mismatch{Kind: "state", Case: map[string]any{"mode": "detect", "why": d, "n": len(ds), "class": detClass(to.Xs, to.Base)},
						Act: map[string]any{"base": to.Base, "ds": to.Xs, "rep": r}, Want: to.Out, Got: g})
				}
			}
			if to.Out.Conflict {
				res.Count("detect_with_conflict", 1)
			}
			if len(to.Out.Partials) > 0 {
				res.Count("detect_with_partial", 1)
			}
			if len(to.Out.Fails) > 0 {
				res.Count("detect_with_fail", 1)
			}
			if i%3001 == 11 {
				res.Sample(map[string]any{"base": to.Base, "ds": to.Xs, "want": to.Out})
			}
		case "env":
			var to struct {
				S   []string `json:"s"`
				Svc ESvc     `json:"svc"`
				Adm []EAdm   `json:"adm"`
			}
			vh.Must(json.Unmarshal(e.To, &to))
			got, incons := runEnv(to.S, to.Svc, r)
			res.Executed++
			why := ""
			if !envAdmissible(got, to.Adm) {
				why = "not-admissible"
				if got.Err == "other" {
					why = "error-not-partial"
				}
			} else if incons != "" {
				why = "accessors"
			}
			if why != "" {
				res.AddMismatch(vh.Mismatch{Kind: "state", Case: map[string]any{"mode": "env", "why": why, "class": envClass(to.S, to.Svc)},
					Act:  map[string]any{"s": to.S, "svc": to.Svc, "rep": r, "text": envText(to.S, r), "svctext": envText(to.Svc.S, r)},
					Want: to.Adm, Got: got, Detail: incons})
			}
			if len(to.Adm) > 1 {
				res.Count("env_strings_with_alternatives", 1)
			}
			if got.Err == "partial" {
				res.Count("env_partial_errors", 1)
			}
			if len(got.Attrs) > 0 {
				res.Count("env_strings_with_attributes", 1)
			}
			if i%1501 == 13 {
				res.Sample(map[string]any{"s": to.S, "svc": to.Svc, "text": envText(to.S, r), "got": got, "adm": to.Adm})
			}
		case "new":
			replayNewEdge(i, e, r, pr, res)
		default:
			vh.Must(fmt.Errorf("unknown mode %s", *mode))
		}
	})
	vh.Must(res.Write(*out))
}

func tupleClass(xs []ARes) string {
	has := map[string]bool{}
	sch := map[string]bool{}
	for _, x := range xs {
		if x.Nil {
			has["nil"] = true
		} else if len(x.Attrs) == 0 && x.Schema == "" {
			has["empty"] = true
		}
		if x.Schema != "" {
			sch[x.Schema] = true
		}
	}
	if len(sch) > 1 {
		has["schema-conflict"] = true
	}
	return strings.Join(vh.SortedKeys(has), "+")
}

func listClass(xs []AKV) string {
	has := map[string]bool{}
	seen := map[string]bool{}
	for _, x := range xs {
		if x.K == "" {
			has["invalid-key"] = true
		}
		if x.V == "inv" || strings.HasPrefix(x.V, "INVALID") {
			has["invalid-type"] = true
		}
		if seen[x.K] {
			has["duplicate"] = true
		}
		seen[x.K] = true
	}
	return strings.Join(vh.SortedKeys(has), "+")
}

func detClass(ds []ADet, base string) string {
	has := map[string]bool{}
	sch := map[string]bool{}
	if base != "" {
		sch[base] = true
	}
	for _, d := range ds {
		has[d.Out] = true
		if d.Res.Nil {
			has["nil"] = true
		}
		if d.Out != "fail" && d.Res.Schema != "" {
			sch[d.Res.Schema] = true
		}
	}
	if len(sch) > 1 {
		has["schema-conflict"] = true
	}
	return strings.Join(vh.SortedKeys(has), "+")
}

// ------------------------------------------------------------------ random (code -> spec)

var keyPool = []string{"", "a", "A", "a.b", "service.name", "k ", " k", "é", "é", "\xff", "k\x00", "=", ",", "%",
	"host.name", "telemetry.sdk.language", strings.Repeat("k", 257), "b", "c", "d", "z"}

func randValue(r *rand.Rand, allowNaNSlice bool) attribute.Value {
	ints := []int64{0, 1, -1, 42, math.MinInt64, math.MaxInt64}
	floats := []float64{0, 1.5, -2.25, math.MaxFloat64, math.SmallestNonzeroFloat64, math.Inf(1), math.Inf(-1)}
	strs := []string{"", "v", "v1", "1", "true", " ", "é", "\xff\xfe", strings.Repeat("s", 300), "a,b=c%2C"}
	n := []int{0, 0, 1, 2, 3, 11, 130}[r.Intn(7)]
	switch r.Intn(8) {
	case 0:
		return attribute.BoolValue(r.Intn(2) == 0)
	case 1:
		return attribute.Int64Value(ints[r.Intn(len(ints))])
	case 2:
		if r.Intn(6) == 0 {
			return attribute.Float64Value(math.NaN()) // a scalar NaN has a bit pattern identity
		}
		return attribute.Float64Value(floats[r.Intn(len(floats))])
	case 3:
		return attribute.StringValue(strs[r.Intn(len(strs))])
	case 4:
		v := make([]bool, n)
		for i := range v {
			v[i] = r.Intn(2) == 0
		}
		return attribute.BoolSliceValue(v)
	case 5:
		v := make([]int64, n)
		for i := range v {
			v[i] = ints[r.Intn(len(ints))]
		}
		return attribute.Int64SliceValue(v)
	case 6:
		v := make([]float64, n)
		for i := range v {
			v[i] = floats[r.Intn(len(floats))]
		}
		if allowNaNSlice && n > 0 {
			v[r.Intn(n)] = math.NaN()
		}
		return attribute.Float64SliceValue(v)
	default:
		v := make([]string, n)
		for i := range v {
			v[i] = strs[r.Intn(len(strs))]
		}
		return attribute.StringSliceValue(v)
	}
}

// randList: up to max items over a small key pool (so that keys collide), all 8 value types,
// sometimes an invalid (empty) key, sometimes an INVALID typed value.
func randList(r *rand.Rand, max int, pool []string, nan bool) []attribute.KeyValue {
	n := r.Intn(max + 1)
	out := make([]attribute.KeyValue, n)
	for i := range out {
		k := attribute.Key(pool[r.Intn(len(pool))])
		if r.Intn(25) == 0 {
			out[i] = attribute.KeyValue{Key: k}
		} else {
			out[i] = attribute.KeyValue{Key: k, Value: randValue(r, nan)}
		}
	}
	return out
}

func absList(kvs []attribute.KeyValue) []AKV {
	out := make([]AKV, len(kvs))
	for i, kv := range kvs {
		k := string(kv.Key)
		if k != "" {
			k = strconv.QuoteToASCII(k)
		}
		v := valToken(kv.Value)
		if kv.Value.Type() == attribute.INVALID {
			v = "inv"
		}
		out[i] = AKV{k, v}
	}
	return out
}

func randSchema(r *rand.Rand, pool []string) string { return pool[r.Intn(len(pool))] }

func subPool(r *rand.Rand, n int) []string {
	p := r.Perm(len(keyPool))
	out := make([]string, n)
	for i := range out {
		out[i] = keyPool[p[i]]
	}
	return out
}

// randRes: a random operand and (via the trace) a List event validating its construction.
func randRes(r *rand.Rand, tw *vh.TraceWriter, pool, schemas []string, max int, nan bool) *resource.Resource {
	switch r.Intn(10) {
	case 0:
		return nil
	case 1:
		return resource.Empty()
	}
	kvs := randList(r, max, pool, nan)
	schema := randSchema(r, schemas)
	abs := absList(kvs)
	for _, g := range runList(kvs, schema, identProj{}) {
		tw.Emit(map[string]any{"ev": "List", "schema": schema, "list": abs, "got": g, "nan": nan})
	}
	if schema == "" && r.Intn(2) == 0 {
		return resource.NewSchemaless(kvs...)
	}
	return resource.NewWithAttributes(schema, kvs...)
}

func randEnvTokens(r *rand.Rand) ([]string, ESvc) {
	var s []string
	sp := func() {
		for r.Intn(4) == 0 {
			s = append(s, "sp")
		}
	}
	keyT := []string{"k", "k", "j", "j", "k", "svc", "oth", "sp", "plus", "hx"}
	valT := []string{"k", "j", "k", "eq", "sp", "plus", "oth", "pvC", "pvE", "pvS", "pvP", "hx", "svc", "k", "j"}
	badT := []string{"pct", "pbZ", "pb2"}
	npairs := r.Intn(6)
	alts := 0
	for p := 0; p < npairs; p++ {
		if p > 0 {
			s = append(s, "comma")
		}
		if r.Intn(12) == 0 { // blank member
			sp()
			continue
		}
		sp()
		nk := r.Intn(4)
		if r.Intn(3) == 0 {
			nk = 1 // favour short colliding keys
		}
		for i := 0; i < nk; i++ {
			t := keyT[r.Intn(len(keyT))]
			s = append(s, t)
		}
		if alts < 2 && r.Intn(10) == 0 {
			s = append(s, []string{"pvC", "pvS", "pvP", "pbZ"}[r.Intn(4)])
			alts++
		}
		sp()
		if r.Intn(10) != 0 {
			s = append(s, "eq")
		}
		sp()
		nv := r.Intn(6)
		bad := alts < 2 && r.Intn(6) == 0
		for i := 0; i < nv; i++ {
			t := valT[r.Intn(len(valT))]
			if bad && r.Intn(3) == 0 {
				t = badT[r.Intn(len(badT))]
			}
			if t == "hx" && len(s) > 0 && s[len(s)-1] == "pct" {
				t = "k"
			}
			s = append(s, t)
		}
		if bad {
			alts++
		}
		sp()
	}
	if r.Intn(10) == 0 {
		s = append(s, "comma")
	}
	svc := ESvc{S: []string{}}
	if r.Intn(2) == 0 {
		svc.Set = true
		n := r.Intn(5)
		svcT := []string{"k", "j", "sp", "pvC", "comma", "eq", "oth", "plus", "pbZ", "k", "j"}
		for i := 0; i < n; i++ {
			svc.S = append(svc.S, svcT[r.Intn(len(svcT))])
		}
	}
	if s == nil {
		s = []string{}
	}
	return s, svc
}

func random(args []string) {
	fs := flag.NewFlagSet("random", flag.ExitOnError)
	n := fs.Int("n", 200, "")
	out := fs.String("out", "trace.ndjson", "")
	resF := fs.String("res", "result.json", "")
	nd := fs.Int("ndefault", 30, "")
	fs.Parse(args)
	r := rand.New(rand.NewSource(vh.Seed()))
	clearEnv()
	tw, err := vh.NewTraceWriter(*out)
	vh.Must(err)
	res := vh.NewResult()
	otel.SetErrorHandler(otel.ErrorHandlerFunc(func(err error) { handled = append(handled, err) }))
	schemas := []string{"", "", "https://opentelemetry.io/schemas/1.21.0", "https://opentelemetry.io/schemas/1.26.0", "s3"}
	P := identProj{}
	guard := func(what string, sc int, f func()) {
		defer func() {
			if p := recover(); p != nil {
				res.AddMismatch(vh.Mismatch{Kind: "panic", Case: map[string]any{"mode": what, "why": "panic"}, Detail: fmt.Sprint(p), Act: sc})
			}
		}()
		f()
	}
	for sc := 0; sc < *n; sc++ {
		pool := subPool(r, 3+r.Intn(12))
		// ---- merge tuples: 1..3 operands of up to 12 attributes
		guard("merge", sc, func() {
			k := 1 + r.Intn(3)
			xs := make([]*resource.Resource, k)
			axs := make([]ARes, k)
			for i := range xs {
				xs[i] = randRes(r, tw, pool, schemas, 12, false)
				axs[i], _ = project(xs[i], P)
			}
			if k == 3 && r.Intn(4) == 0 {
				xs[2], axs[2] = xs[0], axs[0] // a (+) b (+) a
			}
			got := runTuple(xs, P)
			tw.Emit(map[string]any{"ev": "Tuple", "sc": sc, "xs": axs, "got": got})
			res.Executed++
			res.Count(fmt.Sprintf("random_tuples_n%d", k), 1)
			for _, x := range axs {
				if len(x.Attrs) > 10 {
					res.Count("random_operands_over_10_attrs", 1)
				}
			}
			for _, b := range got.L.Errs {
				if b {
					res.Count("random_merge_conflicts", 1)
				}
			}
			if sc < 1 {
				res.Sample(map[string]any{"ev": "Tuple", "xs": axs, "got": got})
			}
		})
		// ---- equal resources built along different routes / near misses
		guard("eq", sc, func() {
			nan := r.Intn(8) == 0
			kvs := randList(r, 12, pool, nan)
			a := resource.NewWithAttributes(randSchema(r, schemas), append([]attribute.KeyValue{}, kvs...)...)
			var b *resource.Resource
			route := r.Intn(4)
			switch route {
			case 0: // same map, built from the de-duplicated attributes in reverse order, other schema
				at := a.Attributes()
				for i, j := 0, len(at)-1; i < j; i, j = i+1, j-1 {
					at[i], at[j] = at[j], at[i]
				}
				b = resource.NewWithAttributes(randSchema(r, schemas), at...)
			case 1: // same map, as the merge of two halves
				at := a.Attributes()
				cut := 0
				if len(at) > 0 {
					cut = r.Intn(len(at) + 1)
				}
				x := resource.NewSchemaless(append([]attribute.KeyValue{}, at[:cut]...)...)
				y := resource.NewSchemaless(append([]attribute.KeyValue{}, at[cut:]...)...)
				b, _ = resource.Merge(x, y)
			case 2: // one value changed or one key dropped
				at := a.Attributes()
				if len(at) > 0 {
					i := r.Intn(len(at))
					if r.Intn(2) == 0 {
						at[i].Value = randValue(r, false)
					} else {
						at = append(at[:i], at[i+1:]...)
					}
				}
				b = resource.NewSchemaless(at...)
			default: // unrelated
				b = resource.NewSchemaless(randList(r, 12, pool, false)...)
			}
			pa, _ := project(a, P)
			pb, _ := project(b, P)
			m := map[attribute.Distinct]bool{a.Equivalent(): true}
			got := map[string]any{"equal": a.Equal(b), "equal_rev": b.Equal(a), "equiv": a.Equivalent() == b.Equivalent(),
				"mapkey": m[b.Equivalent()], "self": a.Equal(a)}
			tw.Emit(map[string]any{"ev": "Eq", "sc": sc, "a": pa, "b": pb, "got": got, "nan": nan, "route": route})
			res.Executed++
			if a.Equal(b) {
				res.Count("random_eq_equal", 1)
			} else {
				res.Count("random_eq_unequal", 1)
			}
			if nan {
				res.Count("random_eq_with_nan_slice", 1)
			}
		})
		// ---- detector sequences
		guard("detect", sc, func() {
			k := r.Intn(7)
			base := randSchema(r, schemas)
			ds := make([]scripted, k)
			ads := make([]ADet, k)
			sents := make([]*sentinel, k)
			outs := make([]string, k)
			for i := range ds {
				sents[i] = &sentinel{i + 1}
				outs[i] = []string{"ok", "ok", "ok", "partial", "fail"}[r.Intn(5)]
				x := randRes(r, tw, pool, schemas, 6, false)
				ds[i] = scripted{x, scriptErr(outs[i], sents[i], r.Intn(6))}
				px, _ := project(x, P)
				ads[i] = ADet{px, outs[i]}
			}
			for _, g := range runDetect(base, ds, sents, outs, P, r.Intn(8)) {
				tw.Emit(map[string]any{"ev": "Detect", "sc": sc, "base": base, "ds": ads, "got": g})
				res.Executed++
				if g.Conflict {
					res.Count("random_detect_conflict", 1)
				}
				if g.Partial {
					res.Count("random_detect_partial", 1)
				}
				if len(g.Fails) > 0 {
					res.Count("random_detect_fail", 1)
				}
			}
		})
		// ---- environment strings
		guard("env", sc, func() {
			for j := 0; j < 3; j++ {
				s, svc := randEnvTokens(r)
				rep := r.Intn(12)
				got, incons := runEnv(s, svc, rep)
				tw.Emit(map[string]any{"ev": "Env", "sc": sc, "s": s, "svc": svc, "got": got, "incons": incons, "rep": rep,
					"text": strconv.QuoteToASCII(envText(s, rep)), "class": envClass(s, svc)})
				res.Executed++
				if got.Err == "partial" {
					res.Count("random_env_partial", 1)
				}
				if len(got.Attrs) >= 3 {
					res.Count("random_env_3plus_attrs", 1)
				}
				if sc < 1 && j == 0 {
					res.Sample(map[string]any{"ev": "Env", "text": envText(s, rep), "s": s, "svc": svc, "got": got})
				}
			}
		})
		// ---- option lists over the built-in options (every option also observed standalone)
		guard("new", sc, func() {
			for j := 0; j < 2; j++ {
				randomNew(r, sc, tw, res, pool, schemas)
			}
		})
		res.Evaluations++
	}
	// ---- Default() under random environments (one subprocess each)
	randomDefaults(r, *nd, tw, res)
	vh.Must(tw.Close())
	res.Count("trace_lines", tw.N)
	vh.Must(res.Write(*resF))
}

func main() {
	if len(os.Args) < 2 {
		fmt.Println("usage: c19 replay|random ...")
		os.Exit(3)
	}
	switch os.Args[1] {
	case "replay":
		replay(os.Args[2:])
	case "random":
		random(os.Args[2:])
	case "default-child":
		defaultChild()
	default:
		os.Exit(3)
	}
}
