package main

// Directed schedules: TLC counterexamples / race windows turned into deterministic executions.
// Sequential ones are ordinary Scenarios with one proc. The gated ones hold real goroutines at verif
// hook points of the batch span processor (bsp.onend.checked, bsp.ff.checked: after the stopped
// check, no lock held) or inside a recording processor's Shutdown (natural gate) until the director
// releases them.

import (
	"context"
	"flag"
	"fmt"
	"strconv"
	"sync"
	"time"

	sdklog "go.opentelemetry.io/otel/sdk/log"
	sdktrace "go.opentelemetry.io/otel/sdk/trace"
	"go.opentelemetry.io/otel/sdk/verifh/vh"
)

func seqScenario(name, prov string, kinds map[string]string, init []string, steps ...Step) Scenario {
	return Scenario{Name: name, Prov: prov, Kinds: kinds, Init: init, Procs: []Proc{{Name: "d", Steps: steps}}}
}

func sequentialDirected() []Scenario {
	rec3 := map[string]string{"c1": "rec", "c2": "rec", "c3": "rec", "u1": "rec"}
	stockT := map[string]string{"c1": "simple", "c2": "batch", "c3": "rec", "u1": "rec"}
	stockL := map[string]string{"q1": "rec", "q2": "simple", "q3": "batch"}
	stockM := map[string]string{"r1": "manual", "r2": "periodic"}
	live, canc := "live", "cancelled"
	return []Scenario{
		// (a) unregistering a processor that was never registered
		seqScenario("unknown-unregister", "trace", rec3, []string{"c1", "c2"},
			Step{Op: "StartEnd", Via: "old"}, Step{Op: "Unregister", C: "u1"}, Step{Op: "StartEnd", Via: "old"},
			Step{Op: "Shutdown", Ctx: live}, Step{Op: "StartEnd", Via: "old"}),
		seqScenario("unknown-unregister-stock", "trace", stockT, []string{"c1", "c2", "c3"},
			Step{Op: "Unregister", C: "u1"}, Step{Op: "StartEnd", Via: "old"}, Step{Op: "ForceFlush", Ctx: live},
			Step{Op: "Shutdown", Ctx: live}),
		// unregister after unregister of the same processor: the second one is "unknown" as well
		seqScenario("unregister-twice", "trace", rec3, []string{"c1", "c2", "c3"},
			Step{Op: "Unregister", C: "c2"}, Step{Op: "Unregister", C: "c2"}, Step{Op: "StartEnd", Via: "old"},
			Step{Op: "Shutdown", Ctx: live}),
		// edit sequence, then full life cycle
		seqScenario("edit-sequence", "trace", stockT, []string{"c1"},
			Step{Op: "Register", C: "c2"}, Step{Op: "StartEnd", Via: "old"}, Step{Op: "Register", C: "c3"},
			Step{Op: "Unregister", C: "c1"}, Step{Op: "StartEnd", Via: "new"}, Step{Op: "ForceFlush", Ctx: live},
			Step{Op: "Unregister", C: "c3"}, Step{Op: "StartEnd", Via: "old"}, Step{Op: "Shutdown", Ctx: live},
			Step{Op: "Get"}, Step{Op: "StartEnd", Via: "new"}, Step{Op: "StartEnd", Via: "old"}, Step{Op: "Register", C: "u1"},
			Step{Op: "Unregister", C: "c2"}, Step{Op: "ForceFlush", Ctx: live}, Step{Op: "Shutdown", Ctx: live}),
		// (e) Shutdown with an already-cancelled context, then with a live one
		seqScenario("cancelled-then-live-shutdown", "trace", rec3, []string{"c1", "c2"},
			Step{Op: "Shutdown", Ctx: canc}, Step{Op: "Shutdown", Ctx: live}, Step{Op: "StartEnd", Via: "old"}),
		seqScenario("cancelled-then-live-shutdown-stock", "trace", stockT, []string{"c1", "c2", "c3"},
			Step{Op: "StartEnd", Via: "old"}, Step{Op: "Shutdown", Ctx: canc}, Step{Op: "Shutdown", Ctx: live},
			Step{Op: "StartEnd", Via: "old"}, Step{Op: "ForceFlush", Ctx: live}),
		seqScenario("cancelled-flush", "trace", stockT, []string{"c1", "c2", "c3"},
			Step{Op: "StartEnd", Via: "old"}, Step{Op: "ForceFlush", Ctx: canc}, Step{Op: "ForceFlush", Ctx: live},
			Step{Op: "Shutdown", Ctx: live}, Step{Op: "ForceFlush", Ctx: canc}),
		// (d) a logger obtained before Shutdown is used afterwards
		seqScenario("log-emit-after-shutdown", "log", stockL, []string{"q1", "q2", "q3"},
			Step{Op: "Emit", Via: "old"}, Step{Op: "Shutdown", Ctx: live}, Step{Op: "Emit", Via: "old"},
			Step{Op: "Get"}, Step{Op: "Emit", Via: "new"}, Step{Op: "ForceFlush", Ctx: live}, Step{Op: "Shutdown", Ctx: live}),
		seqScenario("log-cancelled", "log", stockL, []string{"q1", "q2", "q3"},
			Step{Op: "Emit", Via: "old"}, Step{Op: "ForceFlush", Ctx: canc}, Step{Op: "Shutdown", Ctx: canc},
			Step{Op: "Shutdown", Ctx: live}, Step{Op: "Get"}, Step{Op: "Emit", Via: "new"}),
		// metric: documented errors after Shutdown
		seqScenario("metric-after-shutdown", "metric", stockM, []string{"r1", "r2"},
			Step{Op: "Add", Via: "old"}, Step{Op: "Collect", C: "r1"}, Step{Op: "ForceFlush", Ctx: live},
			Step{Op: "Shutdown", Ctx: live}, Step{Op: "Collect", C: "r1"}, Step{Op: "Collect", C: "r2"},
			Step{Op: "ForceFlush", Ctx: live}, Step{Op: "Shutdown", Ctx: live}, Step{Op: "Get"}, Step{Op: "Add", Via: "new"},
			Step{Op: "Add", Via: "old"}),
		// faults: the collection made by Shutdown itself fails (callback / external producer), the exporter fails;
		// processors and exporters returning errors from Shutdown / ForceFlush: everything is still shut down once
		seqScenario("metric-shutdown-callback-fails", "metric", stockM, []string{"r1", "r2"},
			Step{Op: "Add", Via: "old"}, Step{Op: "Fault", F: "callback"}, Step{Op: "Collect", C: "r1"}, Step{Op: "ForceFlush", Ctx: live},
			Step{Op: "Shutdown", Ctx: live}, Step{Op: "Shutdown", Ctx: live}, Step{Op: "Collect", C: "r2"}, Step{Op: "ForceFlush", Ctx: live}),
		seqScenario("metric-shutdown-producer-fails", "metric", stockM, []string{"r1", "r2"},
			Step{Op: "Add", Via: "old"}, Step{Op: "Fault", F: "producer"}, Step{Op: "Shutdown", Ctx: live},
			Step{Op: "Fault", F: "none"}, Step{Op: "Shutdown", Ctx: live}, Step{Op: "Collect", C: "r1"}),
		seqScenario("metric-shutdown-exporter-fails", "metric", map[string]string{"r1": "periodic", "r2": "periodic"}, []string{"r1", "r2"},
			Step{Op: "Add", Via: "old"}, Step{Op: "Fault", F: "exporter"}, Step{Op: "ForceFlush", Ctx: live},
			Step{Op: "Shutdown", Ctx: live}, Step{Op: "Shutdown", Ctx: live}),
		seqScenario("trace-components-fail", "trace", stockT, []string{"c1", "c2", "c3"},
			Step{Op: "StartEnd", Via: "old"}, Step{Op: "Fault", F: "comp"}, Step{Op: "ForceFlush", Ctx: live},
			Step{Op: "Unregister", C: "c1"}, Step{Op: "Shutdown", Ctx: live}, Step{Op: "Shutdown", Ctx: live}, Step{Op: "StartEnd", Via: "old"}),
		seqScenario("trace-rec-components-fail", "trace", rec3, []string{"c1", "c2", "c3"},
			Step{Op: "Fault", F: "comp"}, Step{Op: "StartEnd", Via: "old"}, Step{Op: "Shutdown", Ctx: live}, Step{Op: "ForceFlush", Ctx: live}),
		seqScenario("log-components-fail", "log", stockL, []string{"q1", "q2", "q3"},
			Step{Op: "Emit", Via: "old"}, Step{Op: "Fault", F: "comp"}, Step{Op: "ForceFlush", Ctx: live},
			Step{Op: "Shutdown", Ctx: live}, Step{Op: "Shutdown", Ctx: live}, Step{Op: "Get"}, Step{Op: "Emit", Via: "new"}),
		// every stock component: Shutdown with a cancelled / an expiring context, then with a live one -- whatever the
		// first call returned, the exporter ends up shut down exactly once
		seqScenario("trace-stock-expiring-then-live-shutdown", "trace", stockT, []string{"c1", "c2", "c3"},
			Step{Op: "StartEnd", Via: "old"}, Step{Op: "Shutdown", Ctx: "expiring"}, Step{Op: "Shutdown", Ctx: live}),
		seqScenario("log-stock-expiring-then-live-shutdown", "log", stockL, []string{"q1", "q2", "q3"},
			Step{Op: "Emit", Via: "old"}, Step{Op: "Shutdown", Ctx: "expiring"}, Step{Op: "Shutdown", Ctx: live}),
		seqScenario("log-stock-cancelled-then-live-shutdown", "log", stockL, []string{"q1", "q2", "q3"},
			Step{Op: "Emit", Via: "old"}, Step{Op: "Shutdown", Ctx: canc}, Step{Op: "Shutdown", Ctx: live}, Step{Op: "Shutdown", Ctx: canc}),
		seqScenario("metric-stock-expiring-then-live-shutdown", "metric", map[string]string{"r1": "periodic", "r2": "manual"}, []string{"r1", "r2"},
			Step{Op: "Add", Via: "old"}, Step{Op: "Shutdown", Ctx: "expiring"}, Step{Op: "Shutdown", Ctx: live}),
		seqScenario("metric-cancelled", "metric", stockM, []string{"r1", "r2"},
			Step{Op: "Add", Via: "old"}, Step{Op: "Shutdown", Ctx: canc}, Step{Op: "Shutdown", Ctx: live},
			Step{Op: "Collect", C: "r2"}, Step{Op: "ForceFlush", Ctx: canc}),
	}
}

// director helpers ------------------------------------------------------------

type director struct {
	s    *scen
	wg   sync.WaitGroup
	done map[string]chan struct{}
	mu   sync.Mutex
	hung bool // a hang was already reported for this schedule
}

func (d *director) goProc(name string, lc *local, steps ...Step) chan struct{} {
	ch := make(chan struct{})
	d.mu.Lock()
	d.done[name] = ch
	d.mu.Unlock()
	d.wg.Add(1)
	go func() {
		defer d.wg.Done()
		defer close(ch)
		for _, st := range steps {
			d.s.step(name, st, lc)
		}
	}()
	return ch
}

// await waits for a gate arrival or a return that the schedule needs in order to go on. A step that
// is not reached goes through the SAME classification as every other call that does not return
// (waitOrHang): all calls in flight parked inside the SDK in identical frames over the confirmation
// window = `hung` (blocking forever is this property's subject; reported with the call chain);
// anything else = the schedule could not be followed (inconclusive, never a verdict).
func (d *director) await(ch <-chan struct{}, what string) bool {
	if d.hung {
		return false
	}
	hung, where, dump := d.s.waitOrHang(ch)
	if hung {
		d.hung = true
		d.s.reportHang(where, dump)
		return false
	}
	select {
	case <-ch:
		return true
	default:
		d.s.res.Inconcl(fmt.Sprintf("directed %s: %s not reached within %s without meeting the hang criterion: %s",
			d.s.sc.Name, what, d.s.bound, d.s.lastDiag))
		return false
	}
}

// soon reports whether ch closes within a short while. For expectations the statement does not
// make (a call that MAY wait for another one in progress): not reached = the schedule simply goes on.
func (d *director) soon(ch <-chan struct{}) bool {
	select {
	case <-ch:
		return true
	case <-time.After(2 * time.Second):
		return false
	}
}

func newDirected(i int, sc Scenario, tw *vh.TraceWriter, res *vh.Result, bound time.Duration) (*scen, *director) {
	s := &scen{sc: sc, em: &emitter{tw: tw, sc: i}, res: res, bound: bound}
	s.em.ev("Cfg", "prov", sc.Prov, "kinds", sc.Kinds, "init", sc.Init, "name", sc.Name)
	s.build()
	return s, &director{s: s, done: map[string]chan struct{}{}}
}

func (d *director) end(quiescentIfDone bool) {
	all := make(chan struct{})
	go func() { d.wg.Wait(); close(all) }()
	q := false
	if !d.hung { // (a reported hang leaves its goroutines parked for good)
		q = d.s.finish(all)
	}
	if q {
		d.s.settle()
	}
	d.s.em.ev("EndScenario", "quiescent", q && quiescentIfDone)
	d.s.cleanup()
	d.s.res.Executed++
	d.s.res.Count("scenarios_directed", 1)
}

// bspRace drives the window between the stopped check and the channel send of the batch span
// processor (BSP.tla: PCheck..PEnq, FCheck..FEnq) across a complete Shutdown.
//
//	D2 (blocking mode): End(1) and End(2) pass the stopped check; Shutdown drains and returns (the
//	   worker, the only receiver of the queue, has exited); End(1) fills the queue (capacity 1);
//	   End(2) can never send.
//	D3 (any mode): End(1) and ForceFlush(background ctx) pass the stopped check; Shutdown drains and
//	   returns; End(1) fills the queue; the flush marker can never be sent.
//
// Both were repaired by ada0bc0 (the blocking sends also select on stopCh): the schedules are kept as
// the real-code regression of that repair. The second call must RETURN. If it parks forever again,
// the hang detector of d.end reports it as `hung` -- a violation that nothing suppresses (the D2/D3
// entries of known_findings/C15.json are "fixed"), so the check exits 1.
func bspRace(i int, name string, blocking, flush bool, tw *vh.TraceWriter, res *vh.Result, bound time.Duration) {
	sc := Scenario{Name: name, Prov: "trace", Kinds: map[string]string{"b1": "batch"}, Init: []string{"b1"},
		BSP: map[string]bspOpts{"b1": {qcap: 1, maxBatch: 1, blocking: blocking, timeout: time.Hour}}}
	s, d := newDirected(i, sc, tw, res, bound)
	gates := map[string]*gate{}
	var gmu sync.Mutex
	gateFor := func(key string) *gate {
		gmu.Lock()
		defer gmu.Unlock()
		return gates[key]
	}
	sdktrace.SetVerifHook(func(point string, args ...any) {
		if len(args) == 0 {
			return
		}
		switch point {
		case "bsp.onend.checked":
			if ro, ok := args[0].(sdktrace.ReadOnlySpan); ok {
				gateFor("end:" + ro.Name()).wait()
			}
		case "bsp.ff.checked":
			if ctx, ok := args[0].(context.Context); ok {
				if g, _ := ctx.Value(gateKey{}).(string); g != "" {
					gateFor("ff:" + g).wait()
				}
			}
		}
	})
	defer sdktrace.SetVerifHook(nil)

	lc1, lc2 := &local{}, &local{}
	s.step("e1", Step{Op: "Start", Via: "old"}, lc1) // item 1
	gates["end:"+strconv.Itoa(lc1.open[0].item)] = newGate()
	g1 := gates["end:"+strconv.Itoa(lc1.open[0].item)]
	var g2 *gate
	if flush {
		g2 = newGate()
		gates["ff:f1"] = g2
	} else {
		s.step("e2", Step{Op: "Start", Via: "old"}, lc2) // item 2
		g2 = newGate()
		gates["end:"+strconv.Itoa(lc2.open[0].item)] = g2
	}
	ok := true
	e1 := d.goProc("e1", lc1, Step{Op: "End"})
	ok = ok && d.await(g1.arrived, "e1 at bsp.onend.checked")
	var second chan struct{}
	if flush {
		second = d.goProc("f1", &local{}, Step{Op: "ForceFlush", Ctx: "live"})
		ok = ok && d.await(g2.arrived, "f1 at bsp.ff.checked")
	} else {
		second = d.goProc("e2", lc2, Step{Op: "End"})
		ok = ok && d.await(g2.arrived, "e2 at bsp.onend.checked")
	}
	if ok {
		sd := d.goProc("s1", &local{}, Step{Op: "Shutdown", Ctx: "live"})
		ok = d.await(sd, "Shutdown return")
	}
	close(g1.release)
	if ok {
		ok = d.await(e1, "End(1) return")
	}
	close(g2.release)
	if !ok {
		res.Count("directed_desync", 1)
	}
	d.end(true) // waits for every call; a call parked forever inside the SDK is reported as hung
	res.Count("bsp_race_schedules", 1)
	select {
	case <-second:
		if ok {
			res.Count("bsp_race_second_call_returned", 1)
		}
	default:
		res.Count("bsp_race_second_call_not_returned", 1)
	}
}

// logBatchOutOfTime: the poll goroutine of the log BatchProcessor is parked (sdk/log verif point
// blp.poll.woke, reached through the 300 us export interval) while Shutdown is called with a context
// that expires: Shutdown takes its "out of time" exit and returns the ctx error. The processor is
// marked stopped, so no later Shutdown can make up for anything that exit leaves undone: by the time
// everything has returned, the poll goroutine was released and a last Shutdown(live) was made, the
// exporter must have been shut down exactly once (contract: exporter-shutdown-never / -twice).
func logBatchOutOfTime(i int, ctxKind string, tw *vh.TraceWriter, res *vh.Result, bound time.Duration) {
	sc := Scenario{Name: "log-batch-shutdown-out-of-time-" + ctxKind, Prov: "log", Kinds: map[string]string{"q1": "batch", "q2": "simple"},
		Init: []string{"q1", "q2"}, IntervalUs: 300}
	g := newGate()
	sdklog.SetVerifHook(func(point string, args ...any) {
		if point == "blp.poll.woke" {
			g.wait()
		}
	})
	defer sdklog.SetVerifHook(nil)
	_, d := newDirected(i, sc, tw, res, bound)
	d.await(d.goProc("e", &local{}, Step{Op: "Emit", Via: "old"}), "Emit returns")
	parked := d.await(g.arrived, "poll goroutine parked at blp.poll.woke")
	d.await(d.goProc("s1", &local{}, Step{Op: "Shutdown", Ctx: ctxKind}), "Shutdown("+ctxKind+") returns while the poll goroutine is parked")
	close(g.release)
	d.await(d.goProc("s2", &local{}, Step{Op: "Shutdown", Ctx: "live"}, Step{Op: "Get"}, Step{Op: "Emit", Via: "new"},
		Step{Op: "Shutdown", Ctx: "live"}), "final calls")
	if parked {
		res.Count("log_out_of_time_schedules_driven", 1)
	}
	d.end(true)
}

// slowShutdown: a processor's Shutdown is held (natural gate) while other goroutines call
// Shutdown, Unregister, ForceFlush, Tracer and end spans; then it is released.
func slowShutdown(i int, tw *vh.TraceWriter, res *vh.Result, bound time.Duration) {
	sc := Scenario{Name: "slow-shutdown", Prov: "trace",
		Kinds: map[string]string{"c1": "rec", "c2": "simple", "c3": "rec", "u1": "rec"}, Init: []string{"c1", "c2", "c3"}}
	s, d := newDirected(i, sc, tw, res, bound)
	g := newGate()
	s.tw.comps["c1"].sdGate = g
	first := d.goProc("s1", &local{}, Step{Op: "Shutdown", Ctx: "live"})
	if d.await(g.arrived, "c1.Shutdown entered") {
		others := []chan struct{}{
			d.goProc("s2", &local{}, Step{Op: "Shutdown", Ctx: "live"}),
			d.goProc("u", &local{}, Step{Op: "Unregister", C: "c1"}, Step{Op: "Unregister", C: "c3"}),
			d.goProc("t", &local{}, Step{Op: "Get"}, Step{Op: "StartEnd", Via: "new"}, Step{Op: "StartEnd", Via: "old"}),
			d.goProc("r", &local{}, Step{Op: "Register", C: "u1"}),
		}
		// the statement does not say that these return while the Shutdown is still in progress: a caller
		// may wait for it (counted); after the release every one of them must return (d.end)
		for _, ch := range others {
			if d.soon(ch) {
				res.Count("slow_shutdown_concurrent_caller_returned_meanwhile", 1)
			} else {
				res.Count("slow_shutdown_concurrent_caller_waited", 1)
			}
		}
	}
	close(g.release)
	d.await(first, "first Shutdown returns")
	fin := d.goProc("fin", &local{}, Step{Op: "Get"}, Step{Op: "StartEnd", Via: "old"}, Step{Op: "Shutdown", Ctx: "live"})
	d.await(fin, "final calls")
	d.end(true)
}

// slowUnregister: Unregister(c1) is held inside c1.Shutdown while the same processor is
// unregistered again and the provider is shut down from other goroutines.
func slowUnregister(i int, tw *vh.TraceWriter, res *vh.Result, bound time.Duration) {
	sc := Scenario{Name: "slow-unregister", Prov: "trace",
		Kinds: map[string]string{"c1": "rec", "c2": "batch", "u1": "rec"}, Init: []string{"c1", "c2"}}
	s, d := newDirected(i, sc, tw, res, bound)
	g := newGate()
	s.tw.comps["c1"].sdGate = g
	first := d.goProc("ua", &local{}, Step{Op: "Unregister", C: "c1"})
	var others []chan struct{}
	if d.await(g.arrived, "c1.Shutdown entered") {
		others = []chan struct{}{
			d.goProc("ub", &local{}, Step{Op: "Unregister", C: "c1"}),
			d.goProc("s1", &local{}, Step{Op: "Shutdown", Ctx: "live"}),
			d.goProc("s2", &local{}, Step{Op: "Shutdown", Ctx: "live"}),
		}
		// End does not take the provider lock today; whether it may wait for the Unregister in progress is not
		// the statement's business (counted)
		if d.soon(d.goProc("t", &local{}, Step{Op: "StartEnd", Via: "old"})) {
			res.Count("slow_unregister_startend_returned_meanwhile", 1)
		}
		time.Sleep(2 * time.Millisecond) // let the others queue up on the provider lock
	}
	close(g.release)
	d.await(first, "first Unregister returns")
	for j, ch := range others {
		d.await(ch, fmt.Sprintf("queued caller %d returns", j))
	}
	d.end(true)
}

func directedMain(args []string) {
	fs := flag.NewFlagSet("directed", flag.ExitOnError)
	out := fs.String("out", "trace.ndjson", "")
	resF := fs.String("res", "result.json", "")
	reps := fs.Int("reps", 1, "")
	fs.Parse(args)
	tw, err := vh.NewTraceWriter(*out)
	vh.Must(err)
	res := vh.NewResult()
	bound := 90 * time.Second
	i := 0
	for rep := 0; rep < *reps; rep++ {
		for _, sc := range sequentialDirected() {
			sc.Seed = vh.Seed() + int64(i)
			runScenario(i, sc, tw, res, bound)
			i++
		}
		slowShutdown(i, tw, res, bound)
		i++
		slowUnregister(i, tw, res, bound)
		i++
		logBatchOutOfTime(i, "expiring", tw, res, bound)
		i++
		logBatchOutOfTime(i, "cancelled", tw, res, bound)
		i++
		bspRace(i, "D2-end-after-drain-must-return", true, false, tw, res, bound)
		i++
		bspRace(i, "D3-flush-marker-after-drain-must-return", false, true, tw, res, bound)
		i++
		bspRace(i, "D3-flush-marker-after-drain-must-return-blocking", true, true, tw, res, bound)
		i++
	}
	res.Evaluations = res.Executed
	vh.Must(tw.Close())
	res.Count("trace_lines", tw.N)
	vh.Must(res.Write(*resF))
}
