package main

// code -> spec: concurrent scenarios on the three real providers. N goroutines run seeded random
// mixes of Register / Unregister / Shutdown / ForceFlush / Tracer|Meter|Logger / Start / End / Emit /
// Add / Collect with schedule perturbation; every API call is logged as Call (before) / Ret (after)
// and every callback into a recording processor / reader / exporter as an event, all ordered by one
// atomic sequence number. TLC validates the ndjson against LifecycleContract (Trace_Lifecycle.tla).

import (
	"context"
	"flag"
	"fmt"
	"math/rand"
	"regexp"
	"runtime"
	"sort"
	"strconv"
	"strings"
	"sync"
	"sync/atomic"
	"time"

	otellog "go.opentelemetry.io/otel/log"
	"go.opentelemetry.io/otel/metric"
	"go.opentelemetry.io/otel/sdk/metric/metricdata"
	sdktrace "go.opentelemetry.io/otel/sdk/trace"
	"go.opentelemetry.io/otel/sdk/verifh/vh"
	"go.opentelemetry.io/otel/trace"
)

type Step struct {
	Op  string `json:"op"`
	C   string `json:"c,omitempty"`
	Ctx string `json:"ctx,omitempty"`
	Via string `json:"via,omitempty"`
	F   string `json:"f,omitempty"` // Fault: the mode the environment switches to (see comps.go faultSwitch)
}

type Proc struct {
	Name  string `json:"name"`
	Steps []Step `json:"steps"`
}

type Scenario struct {
	Name       string             `json:"name"`
	Prov       string             `json:"prov"` // "trace" | "metric" | "log"
	Kinds      map[string]string  `json:"kinds"`
	Init       []string           `json:"init"`
	Procs      []Proc             `json:"procs"`
	Final      []Step             `json:"final,omitempty"` // run by one goroutine after all procs returned
	Perturb    float64            `json:"perturb"`
	Seed       int64              `json:"seed"`
	BSP        map[string]bspOpts `json:"-"`
	BSPDesc    map[string]string  `json:"bsp,omitempty"`
	IntervalUs int                `json:"intervalUs,omitempty"` // periodic reader / log batch export interval
}

type scen struct {
	sc       Scenario
	em       *emitter
	sh       *shaker
	res      *vh.Result
	tw       *tpWorld
	mw       *mpWorld
	lw       *lpWorld
	kctr     int64
	itemCtr  int64
	live     sync.Map // proc name -> "k:op"
	bound    time.Duration
	lastDiag string
}

type local struct {
	tracer  trace.Tracer
	tnoop   bool
	logger  otellog.Logger
	lnoop   bool
	counter metric.Int64Counter
	mnoop   bool
	open    []openSpan
}

type openSpan struct {
	item int
	span trace.Span
}

type callInfo struct {
	op, c, ctx   string
	item         int
	rec, counted bool
}

func splitErr(e string) (class, msg string) {
	if strings.HasPrefix(e, "other:") {
		return "other", e[6:]
	}
	return e, ""
}

// doOp is a named frame: goroutines whose stack contains it are API calls in flight.
//
//go:noinline
func (s *scen) doOp(f func() (string, bool, int)) (string, bool, int) { return f() }

func (s *scen) call(g string, ci callInfo, f func() (string, bool, int)) {
	k := atomic.AddInt64(&s.kctr, 1)
	s.live.Store(g, fmt.Sprintf("%d:%s", k, ci.op))
	s.em.ev("Call", "g", g, "k", k, "op", ci.op, "c", ci.c, "item", ci.item, "ctx", ci.ctx, "rec", ci.rec, "counted", ci.counted)
	var e string
	var noop bool
	var val int
	func() {
		defer func() {
			if r := recover(); r != nil {
				_, where := crashWhere(allStacksOf())
				s.em.ev("Panic", "g", g, "k", k, "op", ci.op, "c", ci.c, "where", where, "msg", fmt.Sprint(r))
				e = ""
			}
		}()
		e, noop, val = s.doOp(f)
	}()
	class, msg := splitErr(e)
	s.em.ev("Ret", "g", g, "k", k, "op", ci.op, "c", ci.c, "item", ci.item, "errc", class, "errmsg", msg, "noop", noop, "val", val)
	s.live.Delete(g)
}

func allStacksOf() string {
	buf := make([]byte, 64<<10)
	n := runtime.Stack(buf, false)
	return string(buf[:n])
}

func (s *scen) newItem() int { return int(atomic.AddInt64(&s.itemCtr, 1)) }

func (s *scen) tracerNoop(t trace.Tracer) bool {
	_, sp := t.Start(context.Background(), probeName)
	rec := sp.IsRecording()
	sp.End()
	return !rec
}

// step performs one step of a proc's program on the real provider.
func (s *scen) step(g string, st Step, lc *local) {
	s.sh.point()
	if st.Op == "Fault" { // an environment step, not an API call: logged BEFORE the switch is thrown
		s.em.ev("Fault", "f", st.F)
		s.res.Count("fault_"+st.F, 1)
		switch {
		case s.tw != nil:
			s.tw.fault.set(st.F)
		case s.mw != nil:
			s.mw.fault.set(st.F)
		case s.lw != nil:
			s.lw.fault.set(st.F)
		}
		return
	}
	none := func() (string, bool, int) { return "", false, 0 }
	_ = none
	switch s.sc.Prov {
	case "trace":
		w := s.tw
		pick := func() (trace.Tracer, bool) {
			if st.Via == "new" && lc.tracer != nil {
				return lc.tracer, !lc.tnoop
			}
			return w.old, true
		}
		switch st.Op {
		case "Register":
			s.call(g, callInfo{op: "Register", c: st.C}, func() (string, bool, int) {
				w.tp.RegisterSpanProcessor(w.comps[st.C])
				return "", false, 0
			})
		case "Unregister":
			s.call(g, callInfo{op: "Unregister", c: st.C}, func() (string, bool, int) {
				w.tp.UnregisterSpanProcessor(w.comps[st.C])
				return "", false, 0
			})
		case "Shutdown":
			s.call(g, callInfo{op: "Shutdown", ctx: st.Ctx}, func() (string, bool, int) {
				ctx, cancel := mkctx(st.Ctx)
				defer cancel()
				return errClass(w.tp.Shutdown(ctx)), false, 0
			})
		case "ForceFlush":
			s.call(g, callInfo{op: "ForceFlush", ctx: st.Ctx}, func() (string, bool, int) {
				ctx, cancel := mkctx(st.Ctx)
				defer cancel()
				return errClass(w.tp.ForceFlush(context.WithValue(ctx, gateKey{}, g))), false, 0
			})
		case "Get":
			s.call(g, callInfo{op: "Get"}, func() (string, bool, int) {
				lc.tracer = w.tp.Tracer("c15-" + g)
				if st.Via == "reentrant" {
					_, sp := lc.tracer.Start(context.Background(), probeName)
					lc.tnoop = !sp.IsRecording()
					return "", lc.tnoop, 0
				}
				lc.tnoop = s.tracerNoop(lc.tracer)
				return "", lc.tnoop, 0
			})
		case "Start":
			t, rec := pick()
			item := s.newItem()
			s.call(g, callInfo{op: "Start", item: item, rec: rec}, func() (string, bool, int) {
				_, sp := t.Start(context.Background(), strconv.Itoa(item))
				lc.open = append(lc.open, openSpan{item, sp})
				return "", false, 0
			})
		case "End":
			if len(lc.open) == 0 {
				return
			}
			o := lc.open[0]
			lc.open = lc.open[1:]
			s.call(g, callInfo{op: "End", item: o.item, rec: o.span.IsRecording()}, func() (string, bool, int) {
				o.span.End()
				return "", false, 0
			})
		case "StartEnd":
			t, rec := pick()
			item := s.newItem()
			s.call(g, callInfo{op: "StartEnd", item: item, rec: rec}, func() (string, bool, int) {
				_, sp := t.Start(context.Background(), strconv.Itoa(item))
				s.sh.point()
				sp.End()
				return "", false, 0
			})
		}
	case "log":
		w := s.lw
		switch st.Op {
		case "Shutdown":
			s.call(g, callInfo{op: "Shutdown", ctx: st.Ctx}, func() (string, bool, int) {
				ctx, cancel := mkctx(st.Ctx)
				defer cancel()
				return errClass(w.lp.Shutdown(ctx)), false, 0
			})
		case "ForceFlush":
			s.call(g, callInfo{op: "ForceFlush", ctx: st.Ctx}, func() (string, bool, int) {
				ctx, cancel := mkctx(st.Ctx)
				defer cancel()
				return errClass(w.lp.ForceFlush(ctx)), false, 0
			})
		case "Get":
			s.call(g, callInfo{op: "Get"}, func() (string, bool, int) {
				lc.logger = w.lp.Logger("c15-" + g)
				lc.lnoop = isNoopLogger(lc.logger)
				return "", lc.lnoop, 0
			})
		case "Emit":
			l, rec := w.old, true
			if st.Via == "new" && lc.logger != nil {
				l, rec = lc.logger, !lc.lnoop
			}
			item := s.newItem()
			s.call(g, callInfo{op: "Emit", item: item, rec: rec}, func() (string, bool, int) {
				emitItem(l, item)
				return "", false, 0
			})
		}
	case "metric":
		w := s.mw
		switch st.Op {
		case "Shutdown":
			s.call(g, callInfo{op: "Shutdown", ctx: st.Ctx}, func() (string, bool, int) {
				ctx, cancel := mkctx(st.Ctx)
				defer cancel()
				return errClass(w.mp.Shutdown(ctx)), false, 0
			})
		case "ForceFlush":
			s.call(g, callInfo{op: "ForceFlush", ctx: st.Ctx}, func() (string, bool, int) {
				ctx, cancel := mkctx(st.Ctx)
				defer cancel()
				return errClass(w.mp.ForceFlush(ctx)), false, 0
			})
		case "Get":
			s.call(g, callInfo{op: "Get"}, func() (string, bool, int) {
				m := w.mp.Meter("c15-old")
				lc.mnoop = isNoopMeter(m)
				c, err := m.Int64Counter(counterName)
				if err != nil {
					return "other:" + err.Error(), lc.mnoop, 0
				}
				lc.counter = c
				return "", lc.mnoop, 0
			})
		case "Add":
			c, counted := w.old, true
			if st.Via == "new" && lc.counter != nil {
				c, counted = lc.counter, !lc.mnoop
			}
			s.call(g, callInfo{op: "Add", counted: counted}, func() (string, bool, int) {
				c.Add(context.Background(), 1)
				return "", false, 0
			})
		case "Collect":
			s.call(g, callInfo{op: "Collect", c: st.C}, func() (string, bool, int) {
				var rm metricdata.ResourceMetrics
				err := w.readers[st.C].Collect(context.Background(), &rm)
				if err != nil {
					return errClass(err), false, 0
				}
				return "", false, sumOf(&rm)
			})
		}
	}
}

func (s *scen) runProc(p Proc, wg *sync.WaitGroup) {
	defer wg.Done()
	lc := &local{}
	for _, st := range p.Steps {
		s.step(p.Name, st, lc)
	}
	for len(lc.open) > 0 { // every started span is ended by its goroutine
		s.step(p.Name, Step{Op: "End"}, lc)
	}
}

// ---------------------------------------------------------------- hang detection

var goHdr = regexp.MustCompile(`^goroutine (\d+) \[([^\],]+)`)

type gInfo struct {
	id    string
	state string
	isOp  bool
	where string // innermost SDK frame
	chain string // API calls and component callbacks on the stack, outermost first: "Shutdown>proc.Shutdown>UnregisterSpanProcessor"
	held  bool   // parked at a gate of the director (the harness holds it: not a hang)
}

var (
	provFrame   = regexp.MustCompile(`otel/sdk/(?:trace|log|metric)\.\(\*(?:TracerProvider|LoggerProvider|MeterProvider)\)\.([A-Z]\w*)`)
	readerFrame = regexp.MustCompile(`otel/sdk/metric\.\(\*(?:PeriodicReader|ManualReader)\)\.([A-Z]\w*)`)
	compFrame   = regexp.MustCompile(`^main\.\(\*(tProc|lProc|tExp|lExp|mExp|mManual|mPeriodic)\)\.([A-Z]\w*)`)
)

// frameLabel names the stack frames a re-entrancy chain is made of.
func frameLabel(ln string) string {
	if m := provFrame.FindStringSubmatch(ln); m != nil {
		return m[1]
	}
	if m := readerFrame.FindStringSubmatch(ln); m != nil {
		return "reader." + m[1]
	}
	if m := compFrame.FindStringSubmatch(ln); m != nil {
		name := strings.TrimSuffix(m[2], "Spans")
		switch m[1] {
		case "tProc", "lProc":
			return "proc." + name
		case "mManual", "mPeriodic":
			return "reader." + name
		}
		return "exp." + name
	}
	if strings.HasPrefix(ln, "main.obsCallback") {
		return "callback"
	}
	if strings.HasPrefix(ln, "main.faultProducer.Produce") {
		return "producer"
	}
	return ""
}

func parseDump(dump string) []gInfo {
	var out []gInfo
	for _, blk := range strings.Split(dump, "\n\n") {
		lines := strings.Split(strings.TrimSpace(blk), "\n")
		if len(lines) == 0 {
			continue
		}
		m := goHdr.FindStringSubmatch(lines[0])
		if m == nil {
			continue
		}
		g := gInfo{id: m[1], state: m[2]}
		var chain []string
		for _, ln := range lines[1:] {
			if strings.HasPrefix(ln, "\t") {
				continue
			}
			if strings.Contains(ln, "main.(*scen).doOp") {
				g.isOp = true
			}
			if strings.HasPrefix(ln, "main.(*gate).wait") {
				g.held = true
			}
			if l := frameLabel(ln); l != "" && (len(chain) == 0 || chain[len(chain)-1] != l) {
				chain = append(chain, l)
			}
			if g.where == "" && strings.HasPrefix(ln, "go.opentelemetry.io/otel/sdk/") {
				g.where = ln
				if i := strings.LastIndex(g.where, "("); i > 0 {
					g.where = g.where[:i]
				}
			}
		}
		for i := len(chain) - 1; i >= 0; i-- { // the dump lists the innermost frame first
			if g.chain != "" {
				g.chain += ">"
			}
			g.chain += chain[i]
		}
		out = append(out, g)
	}
	return out
}

// goroutines of earlier scenarios that were reported as hung stay parked forever; they are not
// calls of the current scenario
var leakedOps = map[string]bool{}

var parkedStates = map[string]bool{"chan send": true, "chan receive": true, "select": true, "semacquire": true,
	"sync.Mutex.Lock": true, "sync.RWMutex.Lock": true, "sync.RWMutex.RLock": true, "sync.Cond.Wait": true,
	"sync.WaitGroup.Wait": true, "chan send (nil chan)": true, "chan receive (nil chan)": true, "select (no cases)": true}

// waitOrHang waits for done. Blocking forever is this property's subject, so a call that does not
// return is judged, but never by a timeout alone: the calls in flight are reported as hung only when
// every goroutine executing an API call is parked on a channel / lock inside the SDK (not running,
// not runnable, not sleeping), and the very same goroutines sit in the very same SDK frames in every
// one of the >= 20 dumps the watcher takes over `confirm` = 5 s. The calls involved are in-memory
// operations that take microseconds, so 5 s is six orders of magnitude above their cost; a goroutine
// that could still wake them up would have to stay runnable-but-unscheduled for 5 s while the watcher
// goroutine of the same process is scheduled every 250 ms (Go schedules the goroutines of a process
// fairly, machine load slows them all alike); and no timer of a scenario lies in that range (batch
// timeouts / export intervals are <= 2 ms or one hour, contexts are live or already cancelled). The
// goroutine dump goes into the replay artefact. If the criterion is not met the scenario is abandoned
// as non-quiescent after `bound` (inconclusive, never a verdict).
func (s *scen) waitOrHang(done <-chan struct{}) (hung bool, where string, dump string) {
	confirm := 5 * time.Second
	start := time.Now()
	var stableSince time.Time
	prevKey := ""
	for {
		select {
		case <-done:
			return false, "", ""
		case <-time.After(250 * time.Millisecond):
		}
		if time.Since(start) < time.Second {
			continue
		}
		d := allStacks()
		gs := parseDump(d)
		var ops []string
		allParked, busy := true, 0
		for _, g := range gs {
			if g.isOp && leakedOps[g.id] {
				continue
			}
			if g.isOp {
				ops = append(ops, g.id+"@"+g.where)
				// a call the director holds at one of its gates (inside a component callback) is not parked by
				// the SDK, and what waits for it is not hung
				if !parkedStates[g.state] || g.where == "" || g.held {
					allParked = false
				}
			} else if g.state == "running" || g.state == "runnable" || g.state == "syscall" {
				busy++
			}
		}
		sort.Strings(ops)
		key := strings.Join(ops, ";")
		// the watcher itself is the one running goroutine
		_ = busy
		if len(ops) > 0 && allParked && key == prevKey {
			if stableSince.IsZero() {
				stableSince = time.Now()
			}
			if time.Since(stableSince) >= confirm {
				ws, cs := map[string]bool{}, map[string]bool{}
				for _, g := range gs {
					if g.isOp && !leakedOps[g.id] {
						ws[g.where] = true
						cs[g.chain] = true
						leakedOps[g.id] = true
					}
				}
				var wl, cl []string
				for w := range ws {
					wl = append(wl, w)
				}
				for c := range cs {
					cl = append(cl, c)
				}
				sort.Strings(wl)
				sort.Strings(cl)
				// "<call chains, outermost first> @ <innermost SDK frames>"
				return true, strings.Join(cl, " | ") + " @ " + strings.Join(wl, ";"), d
			}
		} else {
			stableSince = time.Time{}
		}
		prevKey = key
		if time.Since(start) > s.bound {
			states := []string{}
			for _, g := range gs {
				if (g.isOp && !leakedOps[g.id]) || g.state == "running" || g.state == "runnable" || g.state == "syscall" {
					states = append(states, fmt.Sprintf("%s[%s op=%v]@%s", g.id, g.state, g.isOp, g.where))
				}
			}
			s.lastDiag = strings.Join(states, " ")
			return false, "", d
		}
	}
}

// ---------------------------------------------------------------- scenario execution

type gateKey struct{}

func (s *scen) build() {
	sc := s.sc
	s.sh = nil
	if sc.Perturb > 0 {
		s.sh = &shaker{rng: rand.New(rand.NewSource(sc.Seed + 11)), p: sc.Perturb, max: 300 * time.Microsecond}
	}
	iv := time.Duration(sc.IntervalUs) * time.Microsecond
	switch sc.Prov {
	case "trace":
		s.tw = newTPWorld(sc.Kinds, sc.Init, s.em, s.sh, sc.BSP)
	case "metric":
		s.mw = newMPWorld(sc.Kinds, sc.Init, s.em, s.sh, iv)
	case "log":
		s.lw = newLPWorld(sc.Kinds, sc.Init, s.em, s.sh, iv, false)
	}
}

func (s *scen) reportHang(where, dump string) {
	s.res.Count("scenarios_hung", 1)
	s.live.Range(func(k, v any) bool {
		parts := strings.SplitN(v.(string), ":", 2)
		kk, _ := strconv.Atoi(parts[0])
		s.em.ev("Hung", "g", k.(string), "k", kk, "op", parts[1], "c", "", "where", where)
		return true
	})
	// the goroutine dump belongs to the replay artefact, not to the trace TLC reads
	s.res.AddMismatch(vh.Mismatch{Kind: "hung-dump", Case: map[string]any{"sc": s.em.sc, "name": s.sc.Name, "where": where},
		Detail: trimDump(dump)})
}

// trimDump keeps the goroutines that are API calls in flight (and SDK workers), bounded in size.
func trimDump(d string) string {
	var keep, rest []string
	for _, blk := range strings.Split(d, "\n\n") {
		if strings.Contains(blk, "main.(*scen).doOp") {
			keep = append(keep, blk)
		} else if strings.Contains(blk, "otel/sdk/") {
			rest = append(rest, blk)
		}
	}
	keep = append(keep, rest...)
	out := strings.Join(keep, "\n\n")
	if len(out) > 8000 {
		out = out[:8000]
	}
	return out
}

// run executes the scenario: all procs concurrently, then the Final steps from one goroutine.
func (s *scen) run() {
	sc := s.sc
	s.em.ev("Cfg", "prov", sc.Prov, "kinds", sc.Kinds, "init", sc.Init, "name", sc.Name)
	s.build()
	if sc.Prov == "trace" {
		sh := s.sh
		sdktrace.SetVerifHook(func(point string, args ...any) { sh.point() })
		defer sdktrace.SetVerifHook(nil)
	}
	var wg sync.WaitGroup
	for _, p := range sc.Procs {
		wg.Add(1)
		go s.runProc(p, &wg)
	}
	done := make(chan struct{})
	go func() { wg.Wait(); close(done) }()
	quiescent := s.finish(done)
	if quiescent && len(sc.Final) > 0 {
		var wg2 sync.WaitGroup
		wg2.Add(1)
		go s.runProc(Proc{Name: "fin", Steps: sc.Final}, &wg2)
		done2 := make(chan struct{})
		go func() { wg2.Wait(); close(done2) }()
		quiescent = s.finish(done2)
	}
	if quiescent {
		s.settle()
	}
	s.em.ev("EndScenario", "quiescent", quiescent)
	s.observe()
	s.cleanup()
}

// settle gives the asynchronous part of a Shutdown whose context was cancelled or expired the time to
// complete before the scenario is closed: stock components shut their exporter down from a goroutine.
// It waits until every stock component that was shut down has seen its exporter shut down: for 2 s at least, and
// beyond that (<= 60 s) as long as a goroutine dump still shows SDK Shutdown work in progress -- on an overloaded
// machine the background goroutine may simply not have been scheduled yet, which is not a missing shutdown.
func (s *scen) settle() {
	var fs []*compBase
	switch {
	case s.tw != nil:
		for _, c := range s.tw.comps {
			fs = append(fs, &c.compBase)
		}
	case s.lw != nil:
		for _, c := range s.lw.comps {
			fs = append(fs, &c.compBase)
		}
	case s.mw != nil:
		for _, c := range s.mw.comps {
			fs = append(fs, c)
		}
	}
	for t0 := time.Now(); time.Since(t0) < 2*time.Second || (time.Since(t0) < 60*time.Second && shutdownInProgress()); time.Sleep(time.Millisecond) {
		pending := false
		for _, c := range fs {
			if c.kind != "simple" && c.kind != "batch" && c.kind != "periodic" {
				continue
			}
			c.f.mu.Lock()
			if c.f.sd > 0 && c.f.xsd == 0 {
				pending = true
			}
			c.f.mu.Unlock()
		}
		if !pending {
			return
		}
	}
}

// shutdownInProgress: some goroutine is still inside a Shutdown (or the closure it spawned) of an SDK component.
func shutdownInProgress() bool {
	for _, g := range strings.Split(allStacks(), "\n\n") {
		if strings.Contains(g, "go.opentelemetry.io/otel/sdk/") && strings.Contains(g, ").Shutdown") {
			return true
		}
	}
	return false
}

func (s *scen) finish(done <-chan struct{}) bool {
	hung, where, dump := s.waitOrHang(done)
	if hung {
		s.reportHang(where, dump)
		return false
	}
	select {
	case <-done:
		return true
	default:
		s.res.Count("scenarios_non_quiescent", 1)
		s.res.Inconcl(fmt.Sprintf("scenario %d (%s) did not finish within %s without meeting the hang criterion: %s", s.em.sc, s.sc.Name, s.bound, s.lastDiag))
		return false
	}
}

// cleanup releases the background goroutines of stock components that the provider did not shut down
// (hung scenarios; processors stranded by the known defects). Not part of any observation: the
// scenario's emitter is closed first.
func (s *scen) cleanup() {
	s.em.close()
	switch {
	case s.tw != nil:
		s.tw.cleanup()
	case s.lw != nil:
		s.lw.cleanup()
	case s.mw != nil:
		s.mw.cleanup()
	}
}

// observe counts regimes reached (vacuity counters), not verdicts.
func (s *scen) observe() {
	late := 0
	switch s.sc.Prov {
	case "trace":
		for _, c := range s.tw.comps {
			late += c.f.late
		}
	case "log":
		for _, c := range s.lw.comps {
			late += c.f.late
		}
	}
	if late > 0 {
		s.res.Count("deliveries_seen_by_a_component_after_its_shutdown", int64(late))
	}
}

// ---------------------------------------------------------------- random scenarios

func pickS(r *rand.Rand, xs ...string) string { return xs[r.Intn(len(xs))] }

func ctxKind(r *rand.Rand, pCancelled int) string {
	if r.Intn(100) < pCancelled {
		return "cancelled"
	}
	return "live"
}

func randomScenario(r *rand.Rand, i int) Scenario {
	sc := Scenario{Seed: r.Int63(), Kinds: map[string]string{}, Perturb: []float64{0, 0.2, 0.5, 0.8}[r.Intn(4)]}
	ng := 2 + r.Intn(7)
	// a fifth of the scenarios use the special inputs whose known consequences are listed in
	// known_findings/C15.json (unregistering a never-registered processor, cancelled contexts), so
	// that the rest of the run judges the ordinary clauses without them
	special := r.Intn(5) == 0
	pc := 0
	if special {
		pc = 40
	}
	switch i % 3 {
	case 0:
		sc.Prov = "trace"
		n := 2 + r.Intn(3)
		sc.BSP = map[string]bspOpts{}
		sc.BSPDesc = map[string]string{}
		var ids, later []string
		for j := 1; j <= n; j++ {
			id := fmt.Sprintf("c%d", j)
			k := pickS(r, "rec", "rec", "simple", "batch")
			sc.Kinds[id] = k
			if k == "batch" {
				bo := bspOpts{qcap: []int{1, 2, 4, 64}[r.Intn(4)], maxBatch: 1 + r.Intn(3), blocking: r.Intn(4) == 0,
					timeout: []time.Duration{time.Hour, time.Millisecond, 200 * time.Microsecond}[r.Intn(3)]}
				if bo.maxBatch > bo.qcap {
					bo.maxBatch = bo.qcap
				}
				sc.BSP[id] = bo
				sc.BSPDesc[id] = fmt.Sprintf("%+v", bo)
			}
			ids = append(ids, id)
			if r.Intn(2) == 0 {
				sc.Init = append(sc.Init, id)
			} else {
				later = append(later, id)
			}
		}
		sc.Kinds["u1"] = "rec" // never registered
		if sc.Init == nil {
			sc.Init = []string{}
		}
		procs := make([]Proc, ng)
		for g := range procs {
			procs[g].Name = fmt.Sprintf("g%d", g+1)
			for k := 0; k < 1+r.Intn(6); k++ {
				var st Step
				switch x := r.Intn(20); {
				case x < 3:
					// special scenarios only: unregister any processor any number of times (registered,
					// not yet registered, already removed, never registered)
					if special {
						st = Step{Op: "Unregister", C: append(ids, "u1")[r.Intn(len(ids)+1)]}
					} else {
						st = Step{Op: "StartEnd", Via: pickS(r, "old", "new")}
					}
				case x < 5:
					st = Step{Op: "ForceFlush", Ctx: ctxKind(r, pc)}
				case x < 7:
					st = Step{Op: "Get"}
				case x < 8:
					if r.Intn(3) == 0 {
						st = Step{Op: "Shutdown", Ctx: ctxKind(r, pc)}
					} else {
						st = Step{Op: "Get"}
					}
				case x < 12:
					st = Step{Op: "Start", Via: pickS(r, "old", "new")}
				case x < 15:
					st = Step{Op: "End"}
				default:
					st = Step{Op: "StartEnd", Via: pickS(r, "old", "new")}
				}
				procs[g].Steps = append(procs[g].Steps, st)
			}
		}
		insert := func(g, pos int, st Step) {
			steps := append([]Step{}, procs[g].Steps[:pos]...)
			steps = append(steps, st)
			procs[g].Steps = append(steps, procs[g].Steps[pos:]...)
		}
		// each processor is registered at most once, by one goroutine; in the ordinary scenarios a
		// processor is unregistered at most once, by the goroutine that registered it (initially
		// registered ones: by any one goroutine), so that every Unregister there names a processor that
		// is certainly registered
		for _, id := range ids {
			g := r.Intn(ng)
			isLater := false
			for _, l := range later {
				isLater = isLater || l == id
			}
			pos := r.Intn(len(procs[g].Steps) + 1)
			if isLater {
				insert(g, pos, Step{Op: "Register", C: id})
				pos++
			}
			if !special && r.Intn(2) == 0 {
				insert(g, pos+r.Intn(len(procs[g].Steps)-pos+1), Step{Op: "Unregister", C: id})
			}
		}
		sc.Procs = procs
		sc.Final = []Step{{Op: "Shutdown", Ctx: "live"}, {Op: "Get"}, {Op: "StartEnd", Via: "old"}, {Op: "StartEnd", Via: "new"},
			{Op: "Register", C: "u1"}, {Op: "ForceFlush", Ctx: "live"}, {Op: "Shutdown", Ctx: "live"}, {Op: "StartEnd", Via: "old"}}
	case 1:
		sc.Prov = "log"
		n := 1 + r.Intn(3)
		for j := 1; j <= n; j++ {
			id := fmt.Sprintf("q%d", j)
			sc.Kinds[id] = pickS(r, "rec", "simple", "batch")
			sc.Init = append(sc.Init, id)
		}
		sc.IntervalUs = []int{0, 300, 2000}[r.Intn(3)]
		for g := 0; g < ng; g++ {
			p := Proc{Name: fmt.Sprintf("g%d", g+1)}
			for k := 0; k < 1+r.Intn(6); k++ {
				var st Step
				switch x := r.Intn(20); {
				case x < 3:
					st = Step{Op: "ForceFlush", Ctx: ctxKind(r, pc)}
				case x < 6:
					st = Step{Op: "Get"}
				case x < 7:
					if r.Intn(3) == 0 {
						st = Step{Op: "Shutdown", Ctx: ctxKind(r, pc)}
					} else {
						st = Step{Op: "Get"}
					}
				default:
					st = Step{Op: "Emit", Via: pickS(r, "old", "new")}
				}
				p.Steps = append(p.Steps, st)
			}
			sc.Procs = append(sc.Procs, p)
		}
		// Emit through a logger obtained before Shutdown, after Shutdown has returned, is the input of
		// known finding C15-log-emit-after-shutdown; it is exercised in the special scenarios and by the
		// directed schedule, the ordinary scenarios use a logger obtained afterwards
		via := "new"
		if special {
			via = "old"
		}
		sc.Final = []Step{{Op: "Shutdown", Ctx: "live"}, {Op: "Get"}, {Op: "Emit", Via: via}, {Op: "ForceFlush", Ctx: "live"},
			{Op: "Shutdown", Ctx: "live"}, {Op: "Emit", Via: "new"}}
	case 2:
		sc.Prov = "metric"
		n := 1 + r.Intn(3)
		var ids []string
		for j := 1; j <= n; j++ {
			id := fmt.Sprintf("r%d", j)
			sc.Kinds[id] = pickS(r, "manual", "periodic")
			sc.Init = append(sc.Init, id)
			ids = append(ids, id)
		}
		sc.IntervalUs = []int{0, 300, 2000}[r.Intn(3)]
		for g := 0; g < ng; g++ {
			p := Proc{Name: fmt.Sprintf("g%d", g+1)}
			for k := 0; k < 1+r.Intn(6); k++ {
				var st Step
				switch x := r.Intn(20); {
				case x < 3:
					st = Step{Op: "ForceFlush", Ctx: ctxKind(r, pc)}
				case x < 6:
					st = Step{Op: "Get"}
				case x < 7:
					if r.Intn(3) == 0 {
						st = Step{Op: "Shutdown", Ctx: ctxKind(r, pc)}
					} else {
						st = Step{Op: "Get"}
					}
				case x < 11:
					st = Step{Op: "Collect", C: ids[r.Intn(len(ids))]}
				default:
					st = Step{Op: "Add", Via: pickS(r, "old", "new")}
				}
				p.Steps = append(p.Steps, st)
			}
			sc.Procs = append(sc.Procs, p)
		}
		sc.Final = []Step{{Op: "Shutdown", Ctx: "live"}, {Op: "Get"}, {Op: "Add", Via: "old"}, {Op: "Add", Via: "new"},
			{Op: "Collect", C: ids[0]}, {Op: "ForceFlush", Ctx: "live"}, {Op: "Shutdown", Ctx: "live"}, {Op: "Collect", C: ids[len(ids)-1]}}
	}
	// fault injection: in a sixth of the ordinary scenarios the environment switches to a fault mode at
	// some point of some goroutine (user-supplied components fail from then on); the Final steps then
	// check that everything is shut down exactly once all the same
	if !special && r.Intn(6) == 0 {
		mode := "comp"
		if sc.Prov == "metric" {
			mode = pickS(r, "callback", "producer", "exporter")
		}
		g := r.Intn(len(sc.Procs))
		pos := r.Intn(len(sc.Procs[g].Steps) + 1)
		steps := append([]Step{}, sc.Procs[g].Steps[:pos]...)
		steps = append(steps, Step{Op: "Fault", F: mode})
		sc.Procs[g].Steps = append(steps, sc.Procs[g].Steps[pos:]...)
	}
	sc.Name = fmt.Sprintf("random-%s-%d", sc.Prov, i)
	return sc
}

func runScenario(i int, sc Scenario, tw *vh.TraceWriter, res *vh.Result, bound time.Duration) {
	s := &scen{sc: sc, em: &emitter{tw: tw, sc: i}, res: res, bound: bound}
	s.run()
	res.Executed++
	res.Count("scenarios_"+sc.Prov, 1)
}

func randomMain(args []string) {
	fs := flag.NewFlagSet("random", flag.ExitOnError)
	n := fs.Int("n", 200, "")
	out := fs.String("out", "trace.ndjson", "")
	resF := fs.String("res", "result.json", "")
	fs.Parse(args)
	tw, err := vh.NewTraceWriter(*out)
	vh.Must(err)
	res := vh.NewResult()
	r := rand.New(rand.NewSource(vh.Seed()))
	for i := 0; i < *n; i++ {
		sc := randomScenario(r, i)
		runScenario(i, sc, tw, res, 60*time.Second)
		if i < 3 {
			res.Sample(sc)
		}
	}
	res.Evaluations = res.Executed
	vh.Must(tw.Close())
	res.Count("trace_lines", tw.N)
	vh.Must(res.Write(*resF))
}
