package main

// Recording components (processors, readers, exporters) and the three "worlds" (a real provider
// plus its recording components) shared by every mode of the harness.

import (
	"context"
	"errors"
	"fmt"
	"math/rand"
	"runtime"
	"runtime/debug"
	"sort"
	"strconv"
	"strings"
	"sync"
	"sync/atomic"
	"time"

	otellog "go.opentelemetry.io/otel/log"
	lognoop "go.opentelemetry.io/otel/log/noop"
	"go.opentelemetry.io/otel/metric"
	metricnoop "go.opentelemetry.io/otel/metric/noop"
	sdklog "go.opentelemetry.io/otel/sdk/log"
	sdkmetric "go.opentelemetry.io/otel/sdk/metric"
	"go.opentelemetry.io/otel/sdk/metric/metricdata"
	sdktrace "go.opentelemetry.io/otel/sdk/trace"
	"go.opentelemetry.io/otel/sdk/verifh/vh"
	"go.opentelemetry.io/otel/trace"
)

// ---------------------------------------------------------------- events and perturbation

// emitter writes contract-level events of one scenario; a nil emitter (edge replay) drops them.
type emitter struct {
	tw     *vh.TraceWriter
	sc     int
	closed atomic.Bool
}

func (e *emitter) close() {
	if e != nil {
		e.closed.Store(true)
	}
}

func (e *emitter) ev(kind string, kv ...any) {
	if e == nil || e.tw == nil || e.closed.Load() {
		return
	}
	m := map[string]any{"ev": kind, "sc": e.sc}
	for i := 0; i+1 < len(kv); i += 2 {
		m[kv[i].(string)] = kv[i+1]
	}
	e.tw.Emit(m)
}

// shaker yields or sleeps at random (seeded) to perturb the interleaving; nil = never.
type shaker struct {
	mu  sync.Mutex
	rng *rand.Rand
	p   float64
	max time.Duration
}

func (s *shaker) point() {
	if s == nil || s.p <= 0 {
		return
	}
	s.mu.Lock()
	hit := s.rng.Float64() < s.p
	yield := s.rng.Intn(2) == 0
	d := time.Duration(s.rng.Int63n(int64(s.max) + 1))
	s.mu.Unlock()
	if !hit {
		return
	}
	if yield {
		runtime.Gosched()
	} else {
		time.Sleep(d)
	}
}

// gate lets a directed schedule hold a component callback until released.
type gate struct {
	arrived chan struct{}
	release chan struct{}
	once    sync.Once
}

func newGate() *gate { return &gate{arrived: make(chan struct{}), release: make(chan struct{})} }
func (g *gate) wait() {
	if g == nil {
		return
	}
	g.once.Do(func() { close(g.arrived) })
	<-g.release
}

const probeName = "probe"

func itemOf(name string) (int, bool) {
	n, err := strconv.Atoi(name)
	return n, err == nil
}

// faultSwitch is the environment's fault mode (LifecycleModel: st.fault), shared by the user-supplied
// components of one world: "" / "none" = no fault; trace, log: "comp" = every processor's and
// exporter's Shutdown / ForceFlush returns errInjected after having done its part; metric: "callback"
// (the observable callback fails in every collection), "producer" (the external Producer of every
// reader fails), "exporter" (Export / ForceFlush / Shutdown of the readers' exporters fail).
type faultSwitch struct{ v atomic.Value }

func (f *faultSwitch) set(mode string) {
	if f != nil {
		f.v.Store(mode)
	}
}

func (f *faultSwitch) is(mode string) bool {
	if f == nil {
		return false
	}
	m, _ := f.v.Load().(string)
	return m == mode
}

func (f *faultSwitch) mode() string {
	if f == nil {
		return "none"
	}
	if m, _ := f.v.Load().(string); m != "" {
		return m
	}
	return "none"
}

var errInjected = errors.New("injected fault")

// reentry makes the user-supplied components of one world RE-ENTRANT: the first time the callback
// named site ("proc.Shutdown", "proc.ForceFlush", "proc.OnStart", "proc.OnEnd", "proc.OnEmit",
// "exp.Export", "exp.Shutdown", "exp.ForceFlush", "callback", "producer") runs, it calls back into its
// own provider (do), from inside the callback, before returning. One firing per world, so the
// re-entrant call cannot recurse into itself.
type reentry struct {
	site  string
	do    func(comp string)
	fired atomic.Bool
}

func (r *reentry) fire(site, comp string) {
	if r == nil || r.site != site || !r.fired.CompareAndSwap(false, true) {
		return
	}
	r.do(comp)
}

// reentryRef is shared by the components of a world; the re-entry is armed after construction.
type reentryRef struct{ p atomic.Pointer[reentry] }

func (r *reentryRef) fire(site, comp string) {
	if r != nil {
		r.p.Load().fire(site, comp)
	}
}

// failIf returns errInjected (joined with err) when the switch is in mode.
func (f *faultSwitch) failIf(mode string, err error) error {
	if f.is(mode) {
		return errors.Join(err, errInjected)
	}
	return err
}

// errClass maps a returned error onto the classes the specification talks about.
func errClass(err error) string {
	switch {
	case err == nil:
		return ""
	case errors.Is(err, errInjected):
		return "fault"
	case errors.Is(err, sdkmetric.ErrReaderShutdown):
		return "reader-shutdown"
	case errors.Is(err, context.Canceled), errors.Is(err, context.DeadlineExceeded):
		return "ctx"
	}
	return "other:" + err.Error()
}

func mkctx(kind string) (context.Context, context.CancelFunc) {
	switch kind {
	case "cancelled":
		ctx, cancel := context.WithCancel(context.Background())
		cancel()
		return ctx, func() {}
	case "deadline": // generous deadline: behaves like a live context
		return context.WithTimeout(context.Background(), time.Minute)
	case "expiring": // expires while the call is running
		return context.WithTimeout(context.Background(), 30*time.Millisecond)
	}
	return context.Background(), func() {}
}

// ---------------------------------------------------------------- recorded facts per component

type facts struct {
	mu      sync.Mutex
	beg     map[int]bool
	del     map[int]bool
	exp     map[int]bool
	sd      int
	xsd     int
	ff      int
	nexp    int
	last    int
	late    int // deliveries seen after the component's own Shutdown (observation only)
	invalid int // entries handed to the exporter that are not ended spans / records
}

func newFacts() *facts { return &facts{beg: map[int]bool{}, del: map[int]bool{}, exp: map[int]bool{}} }

func keys(m map[int]bool) []int {
	out := make([]int, 0, len(m))
	for k := range m {
		out = append(out, k)
	}
	sort.Ints(out)
	return out
}

type compBase struct {
	id, kind string
	f        *facts
	em       *emitter
	sh       *shaker
	sdGate   *gate // holds the component's Shutdown (directed schedules)
	frozen   *bool // log world: deliveries after the provider went down are outside the projection
	fault    *faultSwitch
	re       *reentryRef
}

// guard is deferred by every component callback: the recording components must never crash on what the
// SDK hands them -- a panic inside a callback is recorded as a Panic event (a `panic` violation of the
// contract, with the callback site and the SDK frame that called it) instead of killing the goroutine of
// the SDK it runs on.
func (c *compBase) guard(site string) {
	if r := recover(); r != nil {
		_, where := crashWhere(string(debug.Stack()))
		c.em.ev("Panic", "g", "", "k", 0, "op", site, "c", c.id, "where", site+" <- "+where, "msg", fmt.Sprint(r))
	}
}

// spanItem reads what the exporter needs from a span the SDK handed over, without trusting it: ok=false
// for a nil entry or a value whose methods panic (e.g. a wrapper around a nil ReadOnlySpan).
func spanItem(s sdktrace.ReadOnlySpan) (name string, ok bool) {
	defer func() {
		if recover() != nil {
			name, ok = "", false
		}
	}()
	if s == nil {
		return "", false
	}
	_ = s.SpanContext()
	return s.Name(), true
}

// ---------------------------------------------------------------- trace components

type tExp struct{ c *compBase }

func (e *tExp) ExportSpans(_ context.Context, spans []sdktrace.ReadOnlySpan) error {
	defer e.c.guard("exp.Export")
	items := []int{}
	invalid := 0
	for _, s := range spans {
		name, ok := spanItem(s)
		if !ok {
			invalid++
			continue
		}
		if n, ok := itemOf(name); ok {
			items = append(items, n)
		}
	}
	if invalid > 0 { // not an ended span: nil entry, or something that is not a span at all (a flush marker)
		e.c.em.ev("InvalidExport", "c", e.c.id, "n", invalid)
		e.c.f.mu.Lock()
		e.c.f.invalid += invalid
		e.c.f.mu.Unlock()
	}
	if len(items) == 0 {
		return nil // probe spans only
	}
	e.c.em.ev("Export", "c", e.c.id, "items", items, "val", 0) // logged where the export BEGINS (before any gate / re-entry)
	e.c.re.fire("exp.Export", e.c.id)
	e.c.f.mu.Lock()
	for _, n := range items {
		e.c.f.exp[n] = true
	}
	e.c.f.nexp++
	e.c.f.mu.Unlock()
	e.c.sh.point()
	return nil
}

func (e *tExp) Shutdown(context.Context) error {
	defer e.c.guard("exp.Shutdown")
	e.c.em.ev("ExpShutdown", "c", e.c.id)
	e.c.f.mu.Lock()
	e.c.f.xsd++
	e.c.f.mu.Unlock()
	e.c.re.fire("exp.Shutdown", e.c.id)
	return e.c.fault.failIf("comp", nil)
}

// tProc is registered with the real TracerProvider: a user processor ("rec") or a wrapper
// around a stock processor, so that every call the provider makes is observed.
type tProc struct {
	compBase
	inner sdktrace.SpanProcessor
	seen  map[string]bool // probe bookkeeping
	pmu   sync.Mutex
}

type bspOpts struct {
	qcap, maxBatch int
	blocking       bool
	timeout        time.Duration
}

func newTProc(id, kind string, em *emitter, sh *shaker, bo bspOpts, fs *faultSwitch, re *reentryRef) *tProc {
	p := &tProc{compBase: compBase{id: id, kind: kind, f: newFacts(), em: em, sh: sh, fault: fs, re: re}, seen: map[string]bool{}}
	var exp sdktrace.SpanExporter
	if kind == "simple" || kind == "batch" {
		exp = &tExp{c: &p.compBase}
	}
	switch kind {
	case "simple", "simplenil":
		p.inner = sdktrace.NewSimpleSpanProcessor(exp)
	case "batch", "batchnil":
		if bo.timeout == 0 {
			bo.timeout = time.Hour
		}
		opts := []sdktrace.BatchSpanProcessorOption{sdktrace.WithBatchTimeout(bo.timeout)}
		if bo.qcap > 0 {
			opts = append(opts, sdktrace.WithMaxQueueSize(bo.qcap))
		}
		if bo.maxBatch > 0 {
			opts = append(opts, sdktrace.WithMaxExportBatchSize(bo.maxBatch))
		}
		if bo.blocking {
			opts = append(opts, sdktrace.WithBlocking())
		}
		p.inner = sdktrace.NewBatchSpanProcessor(exp, opts...)
	}
	return p
}

func (p *tProc) OnStart(ctx context.Context, s sdktrace.ReadWriteSpan) {
	defer p.guard("proc.OnStart")
	if n, ok := itemOf(s.Name()); ok {
		p.em.ev("Deliver", "c", p.id, "item", n, "ph", "start")
		p.f.mu.Lock()
		p.f.beg[n] = true
		p.f.mu.Unlock()
		p.re.fire("proc.OnStart", p.id)
	} else {
		p.pmu.Lock()
		p.seen["start:"+s.Name()] = true
		p.pmu.Unlock()
	}
	p.sh.point()
	if p.inner != nil {
		p.inner.OnStart(ctx, s)
	}
}

func (p *tProc) OnEnd(s sdktrace.ReadOnlySpan) {
	defer p.guard("proc.OnEnd")
	if n, ok := itemOf(s.Name()); ok {
		p.em.ev("Deliver", "c", p.id, "item", n, "ph", "end")
		p.f.mu.Lock()
		p.f.del[n] = true
		if p.f.sd > 0 {
			p.f.late++
		}
		p.f.mu.Unlock()
		p.re.fire("proc.OnEnd", p.id)
	} else {
		p.pmu.Lock()
		p.seen["end:"+s.Name()] = true
		p.pmu.Unlock()
	}
	p.sh.point()
	if p.inner != nil {
		p.inner.OnEnd(s)
	}
}

func (p *tProc) Shutdown(ctx context.Context) error {
	p.em.ev("CompShutdown", "c", p.id)
	p.f.mu.Lock()
	p.f.sd++
	p.f.mu.Unlock()
	p.sdGate.wait()
	p.sh.point()
	p.re.fire("proc.Shutdown", p.id)
	if p.inner != nil {
		return p.fault.failIf("comp", p.inner.Shutdown(ctx))
	}
	return p.fault.failIf("comp", nil)
}

func (p *tProc) ForceFlush(ctx context.Context) error {
	p.f.mu.Lock()
	p.f.ff++
	p.f.mu.Unlock()
	p.sh.point()
	p.re.fire("proc.ForceFlush", p.id)
	if p.inner != nil {
		return p.fault.failIf("comp", p.inner.ForceFlush(ctx))
	}
	return p.fault.failIf("comp", nil)
}

// ---------------------------------------------------------------- log components

type lExp struct{ c *compBase }

func recItem(r *sdklog.Record) (int, bool) {
	if r.Body().Kind() != otellog.KindInt64 {
		return 0, false
	}
	n := int(r.Body().AsInt64())
	return n, n > 0
}

func (e *lExp) Export(_ context.Context, recs []sdklog.Record) error {
	defer e.c.guard("exp.Export")
	items := []int{}
	for i := range recs {
		if n, ok := recItem(&recs[i]); ok {
			items = append(items, n)
		}
	}
	if len(items) == 0 {
		return nil
	}
	e.c.em.ev("Export", "c", e.c.id, "items", items, "val", 0) // logged where the export BEGINS
	e.c.re.fire("exp.Export", e.c.id)
	e.c.f.mu.Lock()
	for _, n := range items {
		e.c.f.exp[n] = true
	}
	e.c.f.nexp++
	e.c.f.mu.Unlock()
	e.c.sh.point()
	return nil
}
func (e *lExp) Shutdown(context.Context) error {
	defer e.c.guard("exp.Shutdown")
	e.c.em.ev("ExpShutdown", "c", e.c.id)
	e.c.f.mu.Lock()
	e.c.f.xsd++
	e.c.f.mu.Unlock()
	e.c.re.fire("exp.Shutdown", e.c.id)
	return e.c.fault.failIf("comp", nil)
}
func (e *lExp) ForceFlush(context.Context) error {
	e.c.re.fire("exp.ForceFlush", e.c.id)
	return e.c.fault.failIf("comp", nil)
}

type lProc struct {
	compBase
	inner sdklog.Processor
}

func newLProc(id, kind string, em *emitter, sh *shaker, interval time.Duration, frozen *bool, fs *faultSwitch, re *reentryRef) *lProc {
	p := &lProc{compBase: compBase{id: id, kind: kind, f: newFacts(), em: em, sh: sh, frozen: frozen, fault: fs, re: re}}
	var exp sdklog.Exporter
	if kind == "simple" || kind == "batch" {
		exp = &lExp{c: &p.compBase}
	}
	if interval == 0 {
		interval = time.Hour
	}
	switch kind {
	case "simple", "simplenil":
		p.inner = sdklog.NewSimpleProcessor(exp)
	case "batch", "batchnil":
		p.inner = sdklog.NewBatchProcessor(exp, sdklog.WithExportInterval(interval))
	}
	return p
}

func (p *lProc) OnEmit(ctx context.Context, r *sdklog.Record) error {
	defer p.guard("proc.OnEmit")
	if n, ok := recItem(r); ok {
		p.em.ev("Deliver", "c", p.id, "item", n, "ph", "end")
		p.f.mu.Lock()
		if p.frozen == nil || !*p.frozen {
			p.f.beg[n] = true
			p.f.del[n] = true
		}
		if p.f.sd > 0 {
			p.f.late++
		}
		p.f.mu.Unlock()
		p.re.fire("proc.OnEmit", p.id)
	}
	p.sh.point()
	if p.inner != nil {
		return p.inner.OnEmit(ctx, r)
	}
	return nil
}

func (p *lProc) Shutdown(ctx context.Context) error {
	p.em.ev("CompShutdown", "c", p.id)
	p.f.mu.Lock()
	p.f.sd++
	p.f.mu.Unlock()
	p.sdGate.wait()
	p.sh.point()
	p.re.fire("proc.Shutdown", p.id)
	if p.inner != nil {
		return p.fault.failIf("comp", p.inner.Shutdown(ctx))
	}
	return p.fault.failIf("comp", nil)
}

func (p *lProc) ForceFlush(ctx context.Context) error {
	p.sh.point()
	p.re.fire("proc.ForceFlush", p.id)
	if p.inner != nil {
		return p.fault.failIf("comp", p.inner.ForceFlush(ctx))
	}
	return p.fault.failIf("comp", nil)
}

// ---------------------------------------------------------------- metric components

const counterName = "c15.counter"

func sumOf(rm *metricdata.ResourceMetrics) int {
	total := 0
	for _, sm := range rm.ScopeMetrics {
		for _, m := range sm.Metrics {
			if m.Name != counterName {
				continue
			}
			if s, ok := m.Data.(metricdata.Sum[int64]); ok {
				for _, dp := range s.DataPoints {
					total += int(dp.Value)
				}
			}
		}
	}
	return total
}

type mExp struct{ c *compBase }

func (e *mExp) Temporality(sdkmetric.InstrumentKind) metricdata.Temporality {
	return metricdata.CumulativeTemporality
}
func (e *mExp) Aggregation(k sdkmetric.InstrumentKind) sdkmetric.Aggregation {
	return sdkmetric.DefaultAggregationSelector(k)
}
func (e *mExp) Export(_ context.Context, rm *metricdata.ResourceMetrics) error {
	defer e.c.guard("exp.Export")
	v := sumOf(rm)
	e.c.em.ev("Export", "c", e.c.id, "items", []int{}, "val", v)
	e.c.f.mu.Lock()
	e.c.f.nexp++
	e.c.f.last = v
	e.c.f.mu.Unlock()
	e.c.sh.point()
	e.c.re.fire("exp.Export", e.c.id)
	return e.c.fault.failIf("exporter", nil)
}
func (e *mExp) ForceFlush(context.Context) error {
	e.c.re.fire("exp.ForceFlush", e.c.id)
	return e.c.fault.failIf("exporter", nil)
}
func (e *mExp) Shutdown(context.Context) error {
	defer e.c.guard("exp.Shutdown")
	e.c.em.ev("ExpShutdown", "c", e.c.id)
	e.c.f.mu.Lock()
	e.c.f.xsd++
	e.c.f.mu.Unlock()
	e.c.re.fire("exp.Shutdown", e.c.id)
	return e.c.fault.failIf("exporter", nil)
}

// faultProducer is the external Producer registered on every reader (WithProducer): it contributes
// nothing, and fails while the switch says "producer".
type faultProducer struct {
	fs *faultSwitch
	re *reentryRef
	id string
}

func (p faultProducer) Produce(context.Context) ([]metricdata.ScopeMetrics, error) {
	p.re.fire("producer", p.id)
	return nil, p.fs.failIf("producer", nil)
}

func (c *compBase) noteShutdown() {
	c.em.ev("CompShutdown", "c", c.id)
	c.f.mu.Lock()
	c.f.sd++
	c.f.mu.Unlock()
	c.sdGate.wait()
	c.sh.point()
}

// The Reader interface has unexported methods; embedding the stock reader promotes them, so the
// wrapper is a Reader whose Shutdown (the only method overridden) is observable.
type mManual struct {
	*sdkmetric.ManualReader
	c *compBase
}

func (r *mManual) Shutdown(ctx context.Context) error {
	r.c.noteShutdown()
	return r.ManualReader.Shutdown(ctx)
}

type mPeriodic struct {
	*sdkmetric.PeriodicReader
	c *compBase
}

func (r *mPeriodic) Shutdown(ctx context.Context) error {
	r.c.noteShutdown()
	return r.PeriodicReader.Shutdown(ctx)
}

type mReader interface {
	sdkmetric.Reader
}

func newMReader(id, kind string, em *emitter, sh *shaker, interval time.Duration, fs *faultSwitch, re *reentryRef) (mReader, *compBase) {
	c := &compBase{id: id, kind: kind, f: newFacts(), em: em, sh: sh, fault: fs, re: re}
	if interval == 0 {
		interval = time.Hour
	}
	prod := faultProducer{fs, re, id}
	switch kind {
	case "manual":
		return &mManual{ManualReader: sdkmetric.NewManualReader(sdkmetric.WithProducer(prod)), c: c}, c
	case "periodic":
		return &mPeriodic{PeriodicReader: sdkmetric.NewPeriodicReader(&mExp{c: c}, sdkmetric.WithInterval(interval),
			sdkmetric.WithProducer(prod)), c: c}, c
	case "periodicnil":
		return &mPeriodic{PeriodicReader: sdkmetric.NewPeriodicReader(nil, sdkmetric.WithInterval(interval),
			sdkmetric.WithProducer(prod)), c: c}, c
	}
	panic("unknown reader kind " + kind)
}

// ---------------------------------------------------------------- worlds

// lastPanic holds the stack of the most recently recovered panic (sequential replay only).
var lastPanic string

func notePanic(r any) string {
	lastPanic = string(debug.Stack())
	return fmt.Sprintf("panic:%v", r)
}

// Op is one abstract call (shared vocabulary of the three explorers).
type Op struct {
	Op  string `json:"op"`
	P   string `json:"p,omitempty"`   // processor (trace Register / Unregister)
	R   string `json:"r,omitempty"`   // reader (metric Collect)
	Ctx string `json:"ctx,omitempty"` // "live" | "cancelled" | "deadline"
	Via string `json:"via,omitempty"` // "old" | "new"
	F   string `json:"f,omitempty"`   // Fault: the mode the environment switches to
}

type Out struct {
	Err  string `json:"err"`
	Noop bool   `json:"noop"`
	Val  int    `json:"val"`
}

// State is the projection of a real provider (+ components) onto the model's state space.
type State struct {
	Procs []string         `json:"procs"`
	Down  bool             `json:"down"`
	Sd    map[string]int   `json:"sd"`
	Xsd   map[string]int   `json:"xsd"`
	Beg   map[string][]int `json:"beg"`
	Del   map[string][]int `json:"del"`
	Exp   map[string][]int `json:"exp"`
	Nexp  map[string]int   `json:"nexp"`
	Last  map[string]int   `json:"last"`
	Fault string           `json:"fault,omitempty"` // the environment's fault mode (not compared: the harness sets it)
	Out   Out              `json:"out"`
}

type world interface {
	apply(op Op) Out
	project(out Out) State
	cleanup()
}

func sortedIDs[V any](m map[string]V) []string { return vh.SortedKeys(m) }

// ---- trace world

type tpWorld struct {
	re    *reentryRef
	fault *faultSwitch
	tp    *sdktrace.TracerProvider
	comps map[string]*tProc
	old   trace.Tracer
	cur   trace.Tracer // tracer obtained by the latest Tracer op of this world (sequential replay)
	n     int
	nprob int
}

func newTPWorld(kinds map[string]string, init []string, em *emitter, sh *shaker, bo map[string]bspOpts) *tpWorld {
	w := &tpWorld{comps: map[string]*tProc{}, fault: &faultSwitch{}, re: &reentryRef{}}
	for _, id := range sortedIDs(kinds) {
		w.comps[id] = newTProc(id, kinds[id], em, sh, bo[id], w.fault, w.re)
	}
	opts := []sdktrace.TracerProviderOption{sdktrace.WithSampler(sdktrace.AlwaysSample())}
	for _, id := range init {
		opts = append(opts, sdktrace.WithSpanProcessor(w.comps[id]))
	}
	w.tp = sdktrace.NewTracerProvider(opts...)
	w.old = w.tp.Tracer("c15-old")
	return w
}

// isNoopTracer: a no-op tracer creates non-recording spans (behavioural definition).
func (w *tpWorld) isNoopTracer(t trace.Tracer) bool {
	w.nprob++
	_, s := t.Start(context.Background(), fmt.Sprintf("%s-noop-%d", probeName, w.nprob))
	rec := s.IsRecording()
	s.End()
	return !rec
}

func (w *tpWorld) apply(op Op) (out Out) {
	defer func() {
		if r := recover(); r != nil {
			out.Err = notePanic(r)
		}
	}()
	switch op.Op {
	case "Fault":
		w.fault.set(op.F)
	case "Register":
		w.tp.RegisterSpanProcessor(w.comps[op.P])
	case "Unregister":
		w.tp.UnregisterSpanProcessor(w.comps[op.P])
	case "Shutdown":
		ctx, cancel := mkctx(op.Ctx)
		out.Err = errClass(w.tp.Shutdown(ctx))
		cancel()
	case "ForceFlush":
		ctx, cancel := mkctx(op.Ctx)
		out.Err = errClass(w.tp.ForceFlush(ctx))
		cancel()
	case "Tracer":
		w.cur = w.tp.Tracer("c15-new")
		out.Noop = w.isNoopTracer(w.cur)
	case "StartEnd":
		w.n++
		t := w.old
		if op.Via == "new" {
			t = w.tp.Tracer("c15-new")
		}
		_, s := t.Start(context.Background(), strconv.Itoa(w.n))
		s.End()
	default:
		panic("unknown trace op " + op.Op)
	}
	return out
}

// probe reports which processors currently receive spans started and ended through a tracer
// obtained before any Shutdown (the observable meaning of "currently registered").
func (w *tpWorld) probe() (onStart, onEnd []string) {
	w.nprob++
	name := fmt.Sprintf("%s-m-%d", probeName, w.nprob)
	_, s := w.old.Start(context.Background(), name)
	s.End()
	onStart, onEnd = []string{}, []string{}
	for _, id := range sortedIDs(w.comps) {
		c := w.comps[id]
		c.pmu.Lock()
		if c.seen["start:"+name] {
			onStart = append(onStart, id)
		}
		if c.seen["end:"+name] {
			onEnd = append(onEnd, id)
		}
		c.pmu.Unlock()
	}
	return
}

func (w *tpWorld) project(out Out) State {
	st := State{Sd: map[string]int{}, Xsd: map[string]int{}, Beg: map[string][]int{}, Del: map[string][]int{},
		Exp: map[string][]int{}, Out: out}
	st.Down = w.isNoopTracer(w.tp.Tracer("c15-probe"))
	for id, c := range w.comps {
		c.f.mu.Lock()
		st.Sd[id], st.Xsd[id] = c.f.sd, c.f.xsd
		st.Beg[id], st.Del[id], st.Exp[id] = keys(c.f.beg), keys(c.f.del), keys(c.f.exp)
		c.f.mu.Unlock()
	}
	_, st.Procs = w.probe()
	return st
}

func (w *tpWorld) cleanup() {
	ctx, cancel := context.WithTimeout(context.Background(), 5*time.Second)
	defer cancel()
	for _, c := range w.comps {
		if strings.HasPrefix(c.kind, "batch") && c.inner != nil {
			func() {
				defer func() { _ = recover() }()
				_ = c.inner.Shutdown(ctx) // releases the worker goroutine; not part of any observation
			}()
		}
	}
}

// ---- log world

type lpWorld struct {
	re     *reentryRef
	fault  *faultSwitch
	lp     *sdklog.LoggerProvider
	comps  map[string]*lProc
	order  []string
	old    otellog.Logger
	n      int
	frozen bool
}

func newLPWorld(kinds map[string]string, order []string, em *emitter, sh *shaker, interval time.Duration, freeze bool) *lpWorld {
	w := &lpWorld{comps: map[string]*lProc{}, order: order, fault: &faultSwitch{}, re: &reentryRef{}}
	var opts []sdklog.LoggerProviderOption
	var fz *bool
	if freeze {
		fz = &w.frozen
	}
	for _, id := range order {
		w.comps[id] = newLProc(id, kinds[id], em, sh, interval, fz, w.fault, w.re)
		opts = append(opts, sdklog.WithProcessor(w.comps[id]))
	}
	w.lp = sdklog.NewLoggerProvider(opts...)
	w.old = w.lp.Logger("c15-old")
	return w
}

func isNoopLogger(l otellog.Logger) bool {
	_, ok := l.(lognoop.Logger)
	return ok
}

func emitItem(l otellog.Logger, n int) {
	var r otellog.Record
	r.SetBody(otellog.Int64Value(int64(n)))
	r.SetSeverity(otellog.SeverityInfo)
	l.Emit(context.Background(), r)
}

func (w *lpWorld) apply(op Op) (out Out) {
	defer func() {
		if r := recover(); r != nil {
			out.Err = notePanic(r)
		}
	}()
	switch op.Op {
	case "Fault":
		w.fault.set(op.F)
	case "Shutdown":
		ctx, cancel := mkctx(op.Ctx)
		out.Err = errClass(w.lp.Shutdown(ctx))
		cancel()
		w.frozen = true
	case "ForceFlush":
		ctx, cancel := mkctx(op.Ctx)
		out.Err = errClass(w.lp.ForceFlush(ctx))
		cancel()
	case "Logger":
		out.Noop = isNoopLogger(w.lp.Logger("c15-new"))
	case "Emit":
		w.n++
		l := w.old
		if op.Via == "new" {
			l = w.lp.Logger("c15-new")
		}
		emitItem(l, w.n)
	default:
		panic("unknown log op " + op.Op)
	}
	return out
}

func (w *lpWorld) project(out Out) State {
	st := State{Procs: []string{}, Sd: map[string]int{}, Xsd: map[string]int{}, Beg: map[string][]int{},
		Del: map[string][]int{}, Exp: map[string][]int{}, Out: out}
	st.Down = isNoopLogger(w.lp.Logger("c15-probe"))
	for id, c := range w.comps {
		c.f.mu.Lock()
		st.Sd[id], st.Xsd[id] = c.f.sd, c.f.xsd
		st.Beg[id], st.Del[id], st.Exp[id] = keys(c.f.beg), keys(c.f.del), keys(c.f.exp)
		c.f.mu.Unlock()
	}
	return st
}

func (w *lpWorld) cleanup() {
	ctx, cancel := context.WithTimeout(context.Background(), 5*time.Second)
	defer cancel()
	for _, c := range w.comps {
		if strings.HasPrefix(c.kind, "batch") && c.inner != nil {
			func() {
				defer func() { _ = recover() }()
				_ = c.inner.Shutdown(ctx)
			}()
		}
	}
}

// ---- metric world

type mpWorld struct {
	re        *reentryRef
	fault     *faultSwitch
	mp        *sdkmetric.MeterProvider
	readers   map[string]mReader
	comps     map[string]*compBase
	order     []string
	old       metric.Int64Counter
	initErr   string
	initStack string
}

func newMPWorld(kinds map[string]string, order []string, em *emitter, sh *shaker, interval time.Duration) (w *mpWorld) {
	w = &mpWorld{readers: map[string]mReader{}, comps: map[string]*compBase{}, order: order, fault: &faultSwitch{}, re: &reentryRef{}}
	var opts []sdkmetric.Option
	for _, id := range order {
		r, c := newMReader(id, kinds[id], em, sh, interval, w.fault, w.re)
		w.readers[id], w.comps[id] = r, c
		opts = append(opts, sdkmetric.WithReader(r))
	}
	w.mp = sdkmetric.NewMeterProvider(opts...)
	func() {
		defer func() {
			if r := recover(); r != nil {
				w.initErr = notePanic(r)
				w.initStack = lastPanic
			}
		}()
		c, err := w.mp.Meter("c15-old").Int64Counter(counterName)
		if err != nil {
			w.initErr = "other:" + err.Error()
		}
		w.old = c
	}()
	func() {
		// an observable instrument whose callback observes nothing, and fails while the switch says "callback"
		defer func() { _ = recover() }()
		fs, re := w.fault, w.re
		_, _ = w.mp.Meter("c15-old").Int64ObservableGauge("c15.obs",
			metric.WithInt64Callback(func(context.Context, metric.Int64Observer) error {
				obsCallback(re)
				return fs.failIf("callback", nil)
			}))
	}()
	return w
}

// obsCallback is the body of the observable callback (a named function so that it shows in stack chains).
func obsCallback(re *reentryRef) { re.fire("callback", "") }

func isNoopMeter(m metric.Meter) bool {
	_, ok := m.(metricnoop.Meter)
	return ok
}

func (w *mpWorld) apply(op Op) (out Out) {
	defer func() {
		if r := recover(); r != nil {
			out.Err = notePanic(r)
		}
	}()
	switch op.Op {
	case "Fault":
		w.fault.set(op.F)
	case "Shutdown":
		ctx, cancel := mkctx(op.Ctx)
		out.Err = errClass(w.mp.Shutdown(ctx))
		cancel()
	case "ForceFlush":
		ctx, cancel := mkctx(op.Ctx)
		out.Err = errClass(w.mp.ForceFlush(ctx))
		cancel()
	case "Meter":
		out.Noop = isNoopMeter(w.mp.Meter("c15-new"))
	case "Add":
		if w.initErr != "" { // creating the instrument at construction time failed: that is the outcome of Add
			lastPanic = w.initStack
			return Out{Err: w.initErr}
		}
		c := w.old
		if op.Via == "new" {
			var err error
			c, err = w.mp.Meter("c15-old").Int64Counter(counterName) // same identity: same stream when the meter is real
			if err != nil {
				return Out{Err: "other:" + err.Error()}
			}
		}
		c.Add(context.Background(), 1)
	case "Collect":
		var rm metricdata.ResourceMetrics
		err := w.readers[op.R].Collect(context.Background(), &rm)
		out.Err = errClass(err)
		if err == nil || out.Err == "fault" { // a failing callback / producer: Collect returns data next to the error
			out.Val = sumOf(&rm)
		}
	default:
		panic("unknown metric op " + op.Op)
	}
	return out
}

func (w *mpWorld) project(out Out) State {
	st := State{Procs: []string{}, Sd: map[string]int{}, Xsd: map[string]int{}, Nexp: map[string]int{},
		Last: map[string]int{}, Out: out}
	st.Down = isNoopMeter(w.mp.Meter("c15-probe"))
	for id, c := range w.comps {
		c.f.mu.Lock()
		st.Sd[id], st.Xsd[id], st.Nexp[id], st.Last[id] = c.f.sd, c.f.xsd, c.f.nexp, c.f.last
		c.f.mu.Unlock()
	}
	return st
}

func (w *mpWorld) cleanup() {
	ctx, cancel := context.WithTimeout(context.Background(), 5*time.Second)
	defer cancel()
	for id, r := range w.readers {
		if pr, ok := r.(*mPeriodic); ok && w.comps[id].kind == "periodic" {
			func() {
				defer func() { _ = recover() }()
				_ = pr.PeriodicReader.Shutdown(ctx)
			}()
		}
	}
}
