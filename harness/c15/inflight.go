package main

// Work IN FLIGHT inside a stock component when Shutdown arrives (specs/Lifecycle/InFlight.tla): every cell
// of the family TLC enumerates -- (provider, component kind, the user-supplied component that holds the
// component's worker = natural gate, the context Shutdown is given) -- is executed on a real provider in a
// subprocess of its own. The worker (run loop of the PeriodicReader in an interval collection, worker of
// the batch span processor / buffer goroutine of the log BatchProcessor in an export, an End / Emit call
// exporting through a simple processor) is parked inside an observable callback, an external Producer or
// the exporter; more telemetry is queued behind it; Shutdown(live | cancelled | expiring) is called; once
// that call has returned, or is seen waiting inside the SDK for the work in flight, the gate is released.
// Everything is recorded (Call/Ret, component events, one atomic sequence number) and judged by
// LifecycleContract: exporter shut down exactly once (never / twice), nothing blocks forever (hang
// classification of waitOrHang; a call the director holds at its gate is not hung), and no Export begins
// after the Shutdown of that exporter was called (export-after-exporter-shutdown).
//
//	c15 inflight    -cells F -out TRACE -res R [-par N]    parent: one child per cell, N at a time
//	c15 inflightone -sc I -out TRACE -res R                child: the cell on stdin

import (
	"bufio"
	"bytes"
	"encoding/json"
	"flag"
	"fmt"
	"os"
	"os/exec"
	"strings"
	"sync"
	"time"

	"go.opentelemetry.io/otel/sdk/verifh/vh"
)

type ifCell struct {
	Prov string `json:"prov"`
	Kind string `json:"kind"`
	Gate string `json:"gate"`
	Ctx  string `json:"ctx"`
}

func (c ifCell) name() string {
	return fmt.Sprintf("inflight-%s-%s-held-in-%s-shutdown-%s", c.Prov, c.Kind, c.Gate, c.Ctx)
}

// returnedOrWaits: has the call returned (true), or is it WAITING inside the SDK (false): every call in
// flight that the director does not hold at a gate is parked on a channel / lock in an SDK frame in five
// consecutive dumps. Only the schedule depends on it (release the gate before or after the return), never
// a verdict.
func (d *director) returnedOrWaits(ch <-chan struct{}, minWait time.Duration) bool {
	start := time.Now()
	parkedRuns := 0
	for time.Since(start) < 30*time.Second {
		select {
		case <-ch:
			return true
		case <-time.After(15 * time.Millisecond):
		}
		if time.Since(start) < minWait {
			continue
		}
		n, parked := 0, true
		for _, g := range parseDump(allStacks()) {
			if !g.isOp || g.held || leakedOps[g.id] {
				continue
			}
			n++
			if !parkedStates[g.state] || g.where == "" {
				parked = false
			}
		}
		if n > 0 && parked {
			parkedRuns++
		} else {
			parkedRuns = 0
		}
		if parkedRuns >= 5 {
			return false
		}
	}
	return false
}

// workersIdle: every background goroutine of a stock component is gone or parked in its own SDK frame
// (not inside a user-supplied component, not runnable).
func workersIdle(dump string) bool {
	for _, g := range strings.Split(dump, "\n\n") {
		if !strings.Contains(g, "(*PeriodicReader).run") && !strings.Contains(g, "(*batchSpanProcessor).processQueue") &&
			!strings.Contains(g, "(*BatchProcessor).poll") && !strings.Contains(g, "newBufferExporter") &&
			!strings.Contains(g, "(*simpleSpanProcessor).Shutdown") && !strings.Contains(g, "(*batchSpanProcessor).Shutdown") {
			continue
		}
		if strings.Contains(g, "main.(*scen).doOp") {
			continue // an API call, not a worker
		}
		lines := strings.SplitN(g, "\n", 3)
		if len(lines) < 2 {
			return false
		}
		m := goHdr.FindStringSubmatch(lines[0])
		if m == nil || !parkedStates[m[2]] || !strings.Contains(lines[1], "otel/sdk/") {
			return false
		}
	}
	return true
}

func waitWorkersIdle(bound time.Duration) bool {
	ok := 0
	for t0 := time.Now(); time.Since(t0) < bound; time.Sleep(2 * time.Millisecond) {
		if workersIdle(allStacks()) {
			ok++
			if ok >= 3 {
				return true
			}
		} else {
			ok = 0
		}
	}
	return false
}

func runInflightCell(i int, c ifCell, tw *vh.TraceWriter, res *vh.Result) {
	live := "live"
	sc := Scenario{Name: c.name(), Prov: c.Prov}
	only := ""
	var before, inflight, behind, fin []Step
	switch c.Prov {
	case "metric":
		sc.Kinds, sc.Init, sc.IntervalUs, only = map[string]string{"r1": c.Kind, "r2": "manual"}, []string{"r1", "r2"}, 1000, "r1"
		before = []Step{{Op: "Add", Via: "old"}} // the interval tick starts the collection that is held
		fin = []Step{{Op: "Shutdown", Ctx: live}, {Op: "Get"}, {Op: "Add", Via: "new"}, {Op: "Collect", C: "r2"},
			{Op: "ForceFlush", Ctx: live}, {Op: "Shutdown", Ctx: live}}
	case "trace":
		sc.Kinds, sc.Init, only = map[string]string{"c1": c.Kind, "c2": "rec"}, []string{"c1", "c2"}, "c1"
		sc.BSP = map[string]bspOpts{"c1": {qcap: 4, maxBatch: 1, timeout: time.Millisecond}}
		if c.Kind == "batch" {
			before = []Step{{Op: "StartEnd", Via: "old"}} // exported by the worker: held
		} else {
			inflight = []Step{{Op: "StartEnd", Via: "old"}} // the End call itself exports: held
		}
		behind = []Step{{Op: "StartEnd", Via: "old"}}
		fin = []Step{{Op: "Shutdown", Ctx: live}, {Op: "Get"}, {Op: "StartEnd", Via: "old"}, {Op: "ForceFlush", Ctx: live},
			{Op: "Shutdown", Ctx: live}}
	case "log":
		sc.Kinds, sc.Init, sc.IntervalUs, only = map[string]string{"q1": c.Kind, "q2": "rec"}, []string{"q1", "q2"}, 300, "q1"
		if c.Kind == "batch" {
			before = []Step{{Op: "Emit", Via: "old"}}
		} else {
			inflight = []Step{{Op: "Emit", Via: "old"}}
		}
		behind = []Step{{Op: "Emit", Via: "old"}}
		fin = []Step{{Op: "Shutdown", Ctx: live}, {Op: "Get"}, {Op: "Emit", Via: "new"}, {Op: "ForceFlush", Ctx: live},
			{Op: "Shutdown", Ctx: live}}
	}
	s, d := newDirected(i, sc, tw, res, 60*time.Second)
	g := newGate()
	hold := &reentry{site: c.Gate}
	hold.do = func(comp string) {
		if comp != "" && comp != only { // another component's callback: not the cell; re-arm
			hold.fired.Store(false)
			return
		}
		g.wait()
	}
	switch {
	case s.tw != nil:
		s.tw.re.p.Store(hold)
	case s.lw != nil:
		s.lw.re.p.Store(hold)
	case s.mw != nil:
		s.mw.re.p.Store(hold)
	}
	if len(before) > 0 {
		d.await(d.goProc("b", &local{}, before...), "calls before the work in flight")
	}
	if len(inflight) > 0 {
		d.goProc("w", &local{}, inflight...)
	}
	reached := d.await(g.arrived, "the worker is held inside "+c.Gate)
	if reached {
		res.Count("inflight_gate_reached", 1)
		if len(behind) > 0 && c.Kind == "batch" { // telemetry queued behind the export in flight
			d.await(d.goProc("q", &local{}, behind...), "telemetry queued behind the work in flight")
			time.Sleep(20 * time.Millisecond) // (log: lets the poll goroutine hand it to the export buffer; schedule only)
		}
		sd := d.goProc("s1", &local{}, Step{Op: "Shutdown", Ctx: c.Ctx})
		minWait := time.Duration(0)
		if c.Ctx == "expiring" {
			minWait = 250 * time.Millisecond // past the expiry of the context (30 ms)
		}
		if d.returnedOrWaits(sd, minWait) {
			res.Count("inflight_shutdown_returned_while_work_held", 1)
		} else {
			res.Count("inflight_shutdown_waits_for_work_held", 1)
		}
		close(g.release)
		d.await(sd, "Shutdown("+c.Ctx+") returns after the release")
	} else {
		close(g.release)
	}
	// the work in flight completes (or is abandoned) with no API call open
	all := make(chan struct{})
	go func() { d.wg.Wait(); close(all) }()
	d.await(all, "calls in flight return")
	if !waitWorkersIdle(5 * time.Second) {
		res.Count("inflight_workers_not_idle", 1)
	}
	s.settle()
	d.await(d.goProc("fin", &local{}, fin...), "final calls")
	d.end(true)
	res.Count("inflight_cells", 1)
}

func inflightOneMain(args []string) {
	fs := flag.NewFlagSet("inflightone", flag.ExitOnError)
	sc := fs.Int("sc", 0, "")
	out := fs.String("out", "trace.ndjson", "")
	resF := fs.String("res", "result.json", "")
	fs.Parse(args)
	var c ifCell
	vh.Must(json.NewDecoder(os.Stdin).Decode(&c))
	tw, err := vh.NewTraceWriter(*out)
	vh.Must(err)
	res := vh.NewResult()
	runInflightCell(*sc, c, tw, res)
	vh.Must(tw.Close())
	vh.Must(res.Write(*resF))
	os.Exit(0) // parked goroutines of a hung cell die with the process
}

func inflightMain(args []string) {
	fs := flag.NewFlagSet("inflight", flag.ExitOnError)
	cellsF := fs.String("cells", "", "ndjson: one {cell, expect} per line (TLC)")
	out := fs.String("out", "trace.ndjson", "")
	resF := fs.String("res", "result.json", "")
	par := fs.Int("par", 6, "")
	fs.Parse(args)
	f, err := os.Open(*cellsF)
	vh.Must(err)
	var cells []ifCell
	scn := bufio.NewScanner(f)
	scn.Buffer(make([]byte, 1<<20), 1<<20)
	for scn.Scan() {
		var rec struct {
			Cell ifCell `json:"cell"`
		}
		if json.Unmarshal(scn.Bytes(), &rec) == nil && rec.Cell.Prov != "" {
			cells = append(cells, rec.Cell)
		}
	}
	f.Close()
	self, _ := os.Executable()
	res := vh.NewResult()
	type outcome struct {
		trace []byte
		r     vh.Result
		err   string
	}
	outs := make([]outcome, len(cells))
	sem := make(chan struct{}, *par)
	var wg sync.WaitGroup
	for i, c := range cells {
		wg.Add(1)
		go func(i int, c ifCell) {
			defer wg.Done()
			sem <- struct{}{}
			defer func() { <-sem }()
			tf := fmt.Sprintf("%s.cell%d", *out, i)
			rf := fmt.Sprintf("%s.cell%d", *resF, i)
			defer os.Remove(tf)
			defer os.Remove(rf)
			in, _ := json.Marshal(c)
			cmd := exec.Command(self, "inflightone", "-sc", fmt.Sprint(i), "-out", tf, "-res", rf)
			cmd.Stdin = bytes.NewReader(in)
			var stderr bytes.Buffer
			cmd.Stderr = &stderr
			if err := cmd.Run(); err != nil {
				_, where := crashWhere(stderr.String())
				outs[i].err = fmt.Sprintf("%v: %s", err, where)
			}
			outs[i].trace, _ = os.ReadFile(tf)
			if b, err := os.ReadFile(rf); err == nil {
				_ = json.Unmarshal(b, &outs[i].r)
			}
		}(i, c)
	}
	wg.Wait()
	w, err := os.Create(*out)
	vh.Must(err)
	lines := int64(0)
	for i := range outs {
		o := &outs[i]
		if o.err != "" && len(o.trace) == 0 {
			res.Inconcl(fmt.Sprintf("in-flight cell %s: child failed without a trace: %s", cells[i].name(), o.err))
			continue
		}
		w.Write(o.trace)
		lines += int64(bytes.Count(o.trace, []byte("\n")))
		if o.err != "" { // the child died mid-scenario (a panic no recover() can catch): real-code behaviour
			b, _ := json.Marshal(map[string]any{"ev": "Crash", "sc": i, "where": o.err, "op": "", "c": ""})
			w.Write(append(b, '\n'))
			lines++
		}
		res.Executed++
		for k, v := range o.r.Counters {
			res.Count(k, v)
		}
		for _, m := range o.r.Mismatches {
			res.AddMismatch(m)
		}
		for _, s := range o.r.Inconclusive {
			res.Inconcl(s)
		}
	}
	vh.Must(w.Close())
	res.Evaluations = res.Executed
	res.Count("trace_lines", lines)
	vh.Must(res.Write(*resF))
}
