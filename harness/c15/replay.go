package main

// spec -> code: replay of the TLC edge dumps of TPLifecycle / MPLifecycle / LPLifecycle.
//
// The models are relations (a call may have several admissible successors where the statement is
// silent), so edges are grouped by (source state, call): the real provider is driven along the BFS
// path to the source state, its projection is compared with the source state (if the implementation
// legitimately took another admissible branch on the way, the group is skipped and counted), the
// call is made and the projection must equal ONE of the group's successor states.
//
// Isolated mode runs every group in a fresh subprocess so that a crash in a background goroutine
// (which no recover() can catch) or a hang is observed as an exit status instead of killing the run.

import (
	"bytes"
	"encoding/json"
	"flag"
	"fmt"
	"os"
	"os/exec"
	"reflect"
	"regexp"
	"runtime"
	"sort"
	"strings"
	"time"

	"go.opentelemetry.io/otel/sdk/verifh/vh"
)

type replayCfg struct {
	Prov  string            `json:"prov"`  // "tp" | "mp" | "lp"
	Kinds map[string]string `json:"kinds"` // component id -> kind
	Order []string          `json:"order"` // tp: initially registered; mp/lp: all components in order
}

func newWorld(c replayCfg) world {
	switch c.Prov {
	case "tp":
		return newTPWorld(c.Kinds, c.Order, nil, nil, nil)
	case "mp":
		return newMPWorld(c.Kinds, c.Order, nil, nil, 0)
	case "lp":
		return newLPWorld(c.Kinds, c.Order, nil, nil, 0, true)
	}
	panic("unknown provider " + c.Prov)
}

func setEq(a, b []string) bool {
	x := append([]string{}, a...)
	y := append([]string{}, b...)
	sort.Strings(x)
	sort.Strings(y)
	return reflect.DeepEqual(x, y)
}

func intsEq(a, b map[string][]int) string {
	for id, w := range b {
		g := append([]int{}, a[id]...)
		ww := append([]int{}, w...)
		sort.Ints(g)
		sort.Ints(ww)
		if len(g) != len(ww) {
			return id
		}
		for i := range g {
			if g[i] != ww[i] {
				return id
			}
		}
	}
	return ""
}

func mapEq(a, b map[string]int) string {
	for id, w := range b {
		if a[id] != w {
			return id
		}
	}
	return ""
}

// diff names the first component of the projection in which the real state differs from a model
// state ("" = equal). Only what the statement constrains is compared.
func diff(prov string, got, want State, withOut bool) string {
	if got.Down != want.Down {
		return "down"
	}
	if id := mapEq(got.Sd, want.Sd); id != "" {
		return "sd:" + id
	}
	if id := mapEq(got.Xsd, want.Xsd); id != "" {
		return "xsd:" + id
	}
	switch prov {
	case "tp", "lp":
		if id := intsEq(got.Beg, want.Beg); id != "" {
			return "beg:" + id
		}
		if id := intsEq(got.Del, want.Del); id != "" {
			return "del:" + id
		}
		if id := intsEq(got.Exp, want.Exp); id != "" {
			return "exp:" + id
		}
	case "mp":
		if id := mapEq(got.Nexp, want.Nexp); id != "" {
			return "nexp:" + id
		}
		if id := mapEq(got.Last, want.Last); id != "" {
			return "last:" + id
		}
	}
	if prov == "tp" && !setEq(got.Procs, want.Procs) {
		return "procs"
	}
	if withOut {
		if got.Out.Err != want.Out.Err {
			return "err"
		}
		if got.Out.Noop != want.Out.Noop {
			return "noop"
		}
		if got.Out.Val != want.Out.Val {
			return "val"
		}
	}
	return ""
}

type group struct {
	From    State    `json:"from"`
	Path    []Op     `json:"path"`
	Act     Op       `json:"act"`
	Tos     []State  `json:"tos"`
	FromKey string   `json:"-"`
	ToKeys  []string `json:"-"`
}

type caseResult struct {
	Status string `json:"status"` // "ok" | "mismatch" | "skip" | "hung"
	Match  int    `json:"match"`  // index of the successor state the implementation took
	Why    string `json:"why,omitempty"`
	Got    *State `json:"got,omitempty"`
	Detail string `json:"detail,omitempty"`
}

// A call whose ctx is already cancelled returns at once while the stock components finish their part
// in the background (the batch and the simple span processor shut their exporter down from a
// goroutine and return at ctx.Done()). The statement constrains WHAT is shut down, and how often, not
// that it has happened by the time such a call returns (see docs/notes/C15.md, judgement calls), so
// once a cancelled-ctx call was made the projection is allowed to settle: it is re-taken until it
// equals an admissible state or settleBound has passed -- only then is it a mismatch. Sequences of
// live-ctx calls are projected immediately, as before. (settleBound is six orders of magnitude above
// the cost of the background work: an in-memory exporter Shutdown.)
const settleBound = 2 * time.Second

func settles(ops ...Op) bool {
	for _, op := range ops {
		if op.Ctx == "cancelled" {
			return true
		}
	}
	return false
}

// runGroup executes one group on a fresh world.
func runGroup(cfg replayCfg, g group) (res caseResult) {
	w := newWorld(cfg)
	defer w.cleanup()
	var out Out
	for _, op := range g.Path {
		out = w.apply(op)
		quiesce(cfg, op)
		if strings.HasPrefix(out.Err, "panic:") {
			// reported on the (shorter) edge that ends with this call
			return caseResult{Status: "skip", Why: "panic-on-path"}
		}
	}
	if len(g.Path) > 0 {
		at := w.project(out)
		d := diff(cfg.Prov, at, g.From, false)
		for t0 := time.Now(); d != "" && settles(g.Path...) && time.Since(t0) < settleBound/2; {
			time.Sleep(time.Millisecond)
			at = w.project(out)
			d = diff(cfg.Prov, at, g.From, false)
		}
		if d != "" {
			return caseResult{Status: "skip", Why: "source-not-taken:" + strings.SplitN(d, ":", 2)[0]}
		}
	}
	out = w.apply(g.Act)
	quiesce(cfg, g.Act)
	got := w.project(out)
	if strings.HasPrefix(out.Err, "panic:") {
		return caseResult{Status: "mismatch", Why: "panic", Got: &got, Detail: out.Err + "\n" + lastPanic}
	}
	match := func() (int, string) {
		why := ""
		for j, to := range g.Tos {
			d := diff(cfg.Prov, got, to, true)
			if d == "" {
				return j, ""
			}
			if why == "" {
				why = d
			}
		}
		return -1, why
	}
	j, why := match()
	settle := settles(g.Path...) || settles(g.Act)
	for t0 := time.Now(); j < 0 && settle && time.Since(t0) < settleBound; {
		time.Sleep(time.Millisecond)
		got = w.project(out)
		j, why = match()
	}
	if j >= 0 {
		return caseResult{Status: "ok", Match: j}
	}
	return caseResult{Status: "mismatch", Why: why, Got: &got}
}

// quiesce is the barrier after a cancelled-ctx call on a MeterProvider: PeriodicReader.ForceFlush hands its request
// to the run loop and, its ctx being done, may return BEFORE the run loop has collected and exported (the model admits
// both "exported" and "not exported" for such a call, so matching early is not enough: the late export would be
// attributed to the next call). The send to flushCh makes the run goroutine runnable before ForceFlush can return, so
// "every (*PeriodicReader).run goroutine is parked in its own select (or gone)" is exact, not a timing guess.
func quiesce(cfg replayCfg, op Op) {
	if cfg.Prov != "mp" || op.Ctx != "cancelled" {
		return
	}
	for t0 := time.Now(); time.Since(t0) < settleBound; time.Sleep(200 * time.Microsecond) {
		if periodicIdle(allStacks()) {
			return
		}
	}
}

func periodicIdle(dump string) bool {
	for _, g := range strings.Split(dump, "\n\n") {
		if !strings.Contains(g, "(*PeriodicReader).run") {
			continue
		}
		lines := strings.SplitN(g, "\n", 3)
		if len(lines) < 2 || !strings.Contains(lines[0], "[select") || !strings.Contains(lines[1], "(*PeriodicReader).run") {
			return false
		}
	}
	return true
}

func allStacks() string {
	buf := make([]byte, 1<<20)
	n := runtime.Stack(buf, true)
	return string(buf[:n])
}

// runGroupGuarded adds a watchdog: a call that does not return is reported as "hung" together
// with the goroutine dump (sequential replay: nothing else runs, so nothing can wake it up).
func runGroupGuarded(cfg replayCfg, g group, bound time.Duration) caseResult {
	ch := make(chan caseResult, 1)
	go func() { ch <- runGroup(cfg, g) }()
	select {
	case r := <-ch:
		return r
	case <-time.After(bound):
		return caseResult{Status: "hung", Why: "hung", Detail: allStacks()}
	}
}

func loadGroups(path string) ([]group, int, error) {
	gr, err := vh.LoadEdges(path)
	if err != nil {
		return nil, 0, err
	}
	idx := map[string]int{}
	var groups []group
	for i, e := range gr.Edges {
		key := vh.Canon(e.From) + "|" + vh.Canon(e.Act)
		gi, ok := idx[key]
		if !ok {
			pathRaw, reach := gr.Path(i)
			if !reach {
				continue
			}
			var g group
			if err := json.Unmarshal(e.From, &g.From); err != nil {
				return nil, 0, err
			}
			if err := json.Unmarshal(e.Act, &g.Act); err != nil {
				return nil, 0, err
			}
			for _, r := range pathRaw {
				var op Op
				if err := json.Unmarshal(r, &op); err != nil {
					return nil, 0, err
				}
				g.Path = append(g.Path, op)
			}
			g.FromKey = vh.Canon(e.From)
			groups = append(groups, g)
			gi = len(groups) - 1
			idx[key] = gi
		}
		var to State
		if err := json.Unmarshal(e.To, &to); err != nil {
			return nil, 0, err
		}
		dup := false
		for _, t := range groups[gi].Tos {
			if reflect.DeepEqual(t, to) {
				dup = true
			}
		}
		if !dup {
			groups[gi].Tos = append(groups[gi].Tos, to)
			groups[gi].ToKeys = append(groups[gi].ToKeys, vh.Canon(e.To))
		}
	}
	return groups, len(gr.Edges), nil
}

var sdkFrame = regexp.MustCompile(`go\.opentelemetry\.io/otel/sdk/[^\s(]*(\([^)]*\))?[^\s(]*`)

// crashWhere extracts the panic message and the innermost SDK frame from a crashed child's stderr.
func crashWhere(stderr string) (msg, where string) {
	for _, ln := range strings.Split(stderr, "\n") {
		if msg == "" && (strings.HasPrefix(ln, "panic:") || strings.HasPrefix(ln, "fatal error:")) {
			msg = ln
		}
		if where == "" && strings.HasPrefix(ln, "go.opentelemetry.io/otel/sdk/") {
			where = strings.TrimSpace(ln)
			if i := strings.LastIndex(where, "("); i > 0 {
				where = where[:i]
			}
		}
	}
	return
}

// caseSig is the class of a failing case used for known-finding matching: which call failed, on
// what kind of component, with which special input (unknown processor, cancelled context, call made
// after a Shutdown, nil exporter), and which component of the projection differs.
func caseSig(cfg replayCfg, g group, r caseResult) map[string]any {
	sig := map[string]any{"dir": "replay", "prov": cfg.Prov, "op": g.Act.Op, "why": strings.SplitN(r.Why, ":", 2)[0]}
	comp := ""
	if i := strings.Index(r.Why, ":"); i >= 0 {
		comp = r.Why[i+1:]
	}
	if comp != "" {
		sig["comp_kind"] = cfg.Kinds[comp]
	}
	registered := map[string]bool{}
	for _, p := range g.From.Procs {
		registered[p] = true
	}
	if g.Act.Op == "Unregister" {
		sig["unknown"] = !registered[g.Act.P]
	}
	if g.Act.Ctx != "" {
		sig["ctx"] = g.Act.Ctx
	}
	if g.Act.Via != "" {
		sig["via"] = g.Act.Via
	}
	if g.From.Fault != "" && g.From.Fault != "none" {
		sig["fault"] = g.From.Fault // the failing case needs this fault mode of the environment
	}
	sig["after_shutdown"] = g.From.Down
	cancelledBefore := false
	for _, op := range g.Path {
		if op.Op == "Shutdown" && op.Ctx == "cancelled" {
			cancelledBefore = true
		}
	}
	sig["after_cancelled_shutdown"] = cancelledBefore
	nilKinds := []string{}
	for _, id := range sortedIDs(cfg.Kinds) {
		if strings.HasSuffix(cfg.Kinds[id], "nil") {
			nilKinds = append(nilKinds, cfg.Kinds[id])
		}
	}
	if len(nilKinds) > 0 {
		sig["nil_exporter"] = strings.Join(nilKinds, ",")
	}
	if r.Status == "crash" || r.Why == "panic" || r.Status == "hung" {
		msg, where := crashWhere(r.Detail)
		if r.Why == "panic" {
			msg = strings.SplitN(r.Detail, "\n", 2)[0]
		}
		sig["where"] = where
		sig["msg"] = msg
	}
	return sig
}

func replayMain(args []string) {
	fs := flag.NewFlagSet("replay", flag.ExitOnError)
	edges := fs.String("edges", "", "")
	cfgJ := fs.String("cfg", "", "")
	out := fs.String("out", "result.json", "")
	isolate := fs.Bool("isolate", false, "run every group in a subprocess")
	maxGroups := fs.Int("max", 0, "replay at most this many groups (seeded sample; 0 = all)")
	fs.Parse(args)
	var cfg replayCfg
	vh.Must(json.Unmarshal([]byte(*cfgJ), &cfg))
	groups, nedges, err := loadGroups(*edges)
	vh.Must(err)
	res := vh.NewResult()
	res.Evaluations = int64(nedges)
	res.Count("groups", int64(len(groups)))
	stride, off := 1, 0
	if *maxGroups > 0 && len(groups) > *maxGroups {
		stride = (len(groups) + *maxGroups - 1) / *maxGroups
		off = int(vh.Seed() % int64(stride))
	}
	self, _ := os.Executable()
	// paths the implementation really took: where the model admits several successors the BFS tree of
	// the model may run through a branch this implementation does not take, so a group's source state
	// is reached by the path along which an earlier group was confirmed to arrive there (edges are in
	// BFS order); the model's tree path is only the fallback when groups are sampled
	confirmed := map[string][]Op{}
	if len(groups) > 0 {
		confirmed[groups[0].FromKey] = []Op{}
	}
	for i, g := range groups {
		if (i+off)%stride != 0 {
			continue
		}
		if p, ok := confirmed[g.FromKey]; ok {
			g.Path = p
		} else if stride == 1 {
			res.Count("skip_source-not-reached-by-implementation", 1)
			continue
		}
		var r caseResult
		if *isolate {
			r = runIsolated(self, cfg, g)
		} else {
			r = runGroupGuarded(cfg, g, 30*time.Second)
		}
		res.Executed++
		res.Count("status_"+r.Status, 1)
		res.Count("op_"+g.Act.Op+map[bool]string{true: "_after_shutdown", false: ""}[g.From.Down], 1)
		if len(g.Tos) > 1 {
			res.Count("groups_with_alternatives", 1)
		}
		switch r.Status {
		case "ok":
			if _, seen := confirmed[g.ToKeys[r.Match]]; !seen {
				confirmed[g.ToKeys[r.Match]] = append(append([]Op{}, g.Path...), g.Act)
			}
			if g.From.Down {
				res.Count("ok_after_shutdown", 1)
			}
		case "skip":
			res.Count("skip_"+r.Why, 1)
		default:
			detail := r.Detail
			if len(detail) > 6000 {
				detail = detail[:6000]
			}
			res.AddMismatch(vh.Mismatch{Kind: r.Status, Case: caseSig(cfg, g, r), Path: g.Path, Act: g.Act,
				Want: g.Tos, Got: r.Got, Detail: detail})
		}
		if i%211 == 0 {
			res.Sample(map[string]any{"path": g.Path, "act": g.Act, "to": g.Tos[0], "status": r.Status})
		}
	}
	vh.Must(res.Write(*out))
}

// runIsolated runs one group in a child process ("c15 one"); the case travels on stdin.
func runIsolated(self string, cfg replayCfg, g group) caseResult {
	in, _ := json.Marshal(map[string]any{"cfg": cfg, "group": g})
	cmd := exec.Command(self, "one")
	cmd.Stdin = bytes.NewReader(in)
	var stdout, stderr bytes.Buffer
	cmd.Stdout, cmd.Stderr = &stdout, &stderr
	err := cmd.Run()
	var r caseResult
	if err == nil && json.Unmarshal(stdout.Bytes(), &r) == nil && r.Status != "" {
		return r
	}
	status := -1
	if ee, ok := err.(*exec.ExitError); ok {
		status = ee.ExitCode()
	}
	return caseResult{Status: "crash", Why: "crash", Detail: fmt.Sprintf("exit status %d\n%s", status, stderr.String())}
}

func oneMain() {
	var in struct {
		Cfg   replayCfg `json:"cfg"`
		Group group     `json:"group"`
	}
	vh.Must(json.NewDecoder(os.Stdin).Decode(&in))
	// 20 s: the call sequences are a handful of in-memory calls that take microseconds; nothing else
	// runs in this process, so a call that has not returned by then can only be woken by a timer the
	// harness never arms (all export intervals are one hour)
	r := runGroupGuarded(in.Cfg, in.Group, 20*time.Second)
	if r.Status != "hung" {
		// a background goroutine started by the last call gets the chance to crash the process
		// before the result is reported (observed as the exit status by the parent)
		time.Sleep(20 * time.Millisecond)
	}
	b, _ := json.Marshal(r)
	os.Stdout.Write(b)
}
