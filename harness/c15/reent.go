package main

// Re-entrant components (specs/Lifecycle/Reentry.tla): every cell of the matrix TLC enumerates --
// (provider, callback site, kind, triggering call, re-entrant call) -- is executed on a real provider
// in a subprocess of its own: the component's callback calls back into the provider, from inside the
// callback. The nested Call/Ret and the component events are recorded like any other execution and
// judged by LifecycleContract; a cell whose calls do not return goes through the hang classification
// of waitOrHang (all calls in flight parked inside the SDK in identical frames) and is reported as
// `hung` together with its call chain ("Shutdown>proc.Shutdown>UnregisterSpanProcessor").
//
//	c15 reent    -cells F -out TRACE -res R [-par N]     parent: one child per cell, N at a time
//	c15 reentone -sc I -out TRACE -res R                 child: the cell on stdin

import (
	"bufio"
	"bytes"
	"encoding/json"
	"flag"
	"fmt"
	"os"
	"os/exec"
	"sync"
	"time"

	"go.opentelemetry.io/otel/sdk/verifh/vh"
)

type reCell struct {
	Prov    string `json:"prov"`
	Site    string `json:"site"`
	Kind    string `json:"kind"`
	Trigger string `json:"trigger"`
	Call    string `json:"call"`
}

func (c reCell) name() string {
	return fmt.Sprintf("reent-%s-%s(%s)-by-%s-calls-%s", c.Prov, c.Site, c.Kind, c.Trigger, c.Call)
}

// reentScenario: the component under test is c1 / q1 / r1; one goroutine makes the calls.
func reentScenario(c reCell) (Scenario, Step) {
	live := "live"
	var sc Scenario
	var inner Step
	switch c.Prov {
	case "trace":
		sc = Scenario{Prov: "trace", Kinds: map[string]string{"c1": c.Kind, "c2": "rec", "u1": "rec"}, Init: []string{"c1", "c2"}}
		pre := []Step{{Op: "StartEnd", Via: "old"}}
		var trig Step
		switch c.Trigger {
		case "Shutdown":
			trig = Step{Op: "Shutdown", Ctx: live}
		case "Unregister":
			trig = Step{Op: "Unregister", C: "c1"}
		case "ForceFlush":
			trig = Step{Op: "ForceFlush", Ctx: live}
		case "StartEnd":
			trig = Step{Op: "StartEnd", Via: "old"}
		}
		sc.Procs = []Proc{{Name: "d", Steps: append(pre, trig, Step{Op: "ForceFlush", Ctx: live}, Step{Op: "Shutdown", Ctx: live},
			Step{Op: "Get"}, Step{Op: "StartEnd", Via: "old"}, Step{Op: "Shutdown", Ctx: live})}}
		switch c.Call {
		case "Get":
			// (the probe span that tells a no-op tracer is started but not ended here: ending a span inside a
			// synchronous export waits, by design, for that export)
			inner = Step{Op: "Get", Via: "reentrant"}
		case "Register":
			inner = Step{Op: "Register", C: "u1"}
		case "UnregisterSelf":
			inner = Step{Op: "Unregister", C: "c1"}
		case "UnregisterOther":
			inner = Step{Op: "Unregister", C: "c2"}
		case "ForceFlush":
			inner = Step{Op: "ForceFlush", Ctx: live}
		case "Shutdown":
			inner = Step{Op: "Shutdown", Ctx: live}
		case "StartEnd": // telemetry-producing: a span started and ended through the tracer obtained at construction
			inner = Step{Op: "StartEnd", Via: "old"}
		}
	case "log":
		sc = Scenario{Prov: "log", Kinds: map[string]string{"q1": c.Kind, "q2": "rec"}, Init: []string{"q1", "q2"}}
		trig := map[string]Step{"Shutdown": {Op: "Shutdown", Ctx: live}, "ForceFlush": {Op: "ForceFlush", Ctx: live},
			"Emit": {Op: "Emit", Via: "old"}}[c.Trigger]
		sc.Procs = []Proc{{Name: "d", Steps: []Step{{Op: "Emit", Via: "old"}, trig, {Op: "ForceFlush", Ctx: live},
			{Op: "Shutdown", Ctx: live}, {Op: "Get"}, {Op: "Emit", Via: "new"}, {Op: "Shutdown", Ctx: live}}}}
		inner = map[string]Step{"Get": {Op: "Get"}, "ForceFlush": {Op: "ForceFlush", Ctx: live}, "Shutdown": {Op: "Shutdown", Ctx: live},
			"Emit": {Op: "Emit", Via: "old"}}[c.Call]
	case "metric":
		sc = Scenario{Prov: "metric", Kinds: map[string]string{"r1": c.Kind, "r2": "manual"}, Init: []string{"r1", "r2"}}
		trig := map[string]Step{"Shutdown": {Op: "Shutdown", Ctx: live}, "ForceFlush": {Op: "ForceFlush", Ctx: live},
			"Collect": {Op: "Collect", C: "r1"}}[c.Trigger]
		sc.Procs = []Proc{{Name: "d", Steps: []Step{{Op: "Add", Via: "old"}, trig, {Op: "ForceFlush", Ctx: live},
			{Op: "Shutdown", Ctx: live}, {Op: "Get"}, {Op: "Add", Via: "new"}, {Op: "Shutdown", Ctx: live}}}}
		inner = map[string]Step{"Get": {Op: "Get"}, "ForceFlush": {Op: "ForceFlush", Ctx: live}, "Shutdown": {Op: "Shutdown", Ctx: live},
			"Collect": {Op: "Collect", C: "r2"}, "Add": {Op: "Add", Via: "old"}}[c.Call]
	}
	sc.Name = c.name()
	return sc, inner
}

// runReentCell executes one cell in this process.
func runReentCell(i int, c reCell, tw *vh.TraceWriter, res *vh.Result) {
	sc, inner := reentScenario(c)
	s := &scen{sc: sc, em: &emitter{tw: tw, sc: i}, res: res, bound: 40 * time.Second}
	s.em.ev("Cfg", "prov", sc.Prov, "kinds", sc.Kinds, "init", sc.Init, "name", sc.Name)
	s.build()
	re := &reentry{site: c.Site}
	re.do = func(comp string) {
		// only the component under test re-enters (every component of the world shares the switch)
		s.res.Count("reentrant_calls_made", 1)
		s.step("re", inner, &local{})
	}
	only := map[string]string{"trace": "c1", "log": "q1", "metric": "r1"}[sc.Prov]
	armed := &reentry{site: c.Site}
	armed.do = func(comp string) {
		if comp != "" && comp != only { // another component's callback: not the cell; re-arm
			armed.fired.Store(false)
			return
		}
		re.do(comp)
	}
	switch {
	case s.tw != nil:
		s.tw.re.p.Store(armed)
	case s.lw != nil:
		s.lw.re.p.Store(armed)
	case s.mw != nil:
		s.mw.re.p.Store(armed)
	}
	var wg sync.WaitGroup
	wg.Add(1)
	go s.runProc(sc.Procs[0], &wg)
	done := make(chan struct{})
	go func() { wg.Wait(); close(done) }()
	q := s.finish(done)
	if q {
		s.settle()
	}
	s.em.ev("EndScenario", "quiescent", q)
	s.em.close()
	res.Executed++
}

func reentOneMain(args []string) {
	fs := flag.NewFlagSet("reentone", flag.ExitOnError)
	sc := fs.Int("sc", 0, "")
	out := fs.String("out", "trace.ndjson", "")
	resF := fs.String("res", "result.json", "")
	fs.Parse(args)
	var c reCell
	vh.Must(json.NewDecoder(os.Stdin).Decode(&c))
	tw, err := vh.NewTraceWriter(*out)
	vh.Must(err)
	res := vh.NewResult()
	runReentCell(*sc, c, tw, res)
	vh.Must(tw.Close())
	vh.Must(res.Write(*resF))
	os.Exit(0) // parked goroutines of a hung cell die with the process
}

func reentMain(args []string) {
	fs := flag.NewFlagSet("reent", flag.ExitOnError)
	cellsF := fs.String("cells", "", "ndjson: one {cell, expect} per line (TLC)")
	out := fs.String("out", "trace.ndjson", "")
	resF := fs.String("res", "result.json", "")
	par := fs.Int("par", 6, "")
	fs.Parse(args)
	f, err := os.Open(*cellsF)
	vh.Must(err)
	var cells []reCell
	scn := bufio.NewScanner(f)
	scn.Buffer(make([]byte, 1<<20), 1<<20)
	for scn.Scan() {
		var rec struct {
			Cell   reCell `json:"cell"`
			Expect string `json:"expect"`
		}
		if json.Unmarshal(scn.Bytes(), &rec) == nil && rec.Cell.Prov != "" {
			cells = append(cells, rec.Cell)
		}
	}
	f.Close()
	self, _ := os.Executable()
	res := vh.NewResult()
	type outcome struct {
		trace []byte
		r     vh.Result
		err   string
	}
	outs := make([]outcome, len(cells))
	sem := make(chan struct{}, *par)
	var wg sync.WaitGroup
	for i, c := range cells {
		wg.Add(1)
		go func(i int, c reCell) {
			defer wg.Done()
			sem <- struct{}{}
			defer func() { <-sem }()
			tf := fmt.Sprintf("%s.cell%d", *out, i)
			rf := fmt.Sprintf("%s.cell%d", *resF, i)
			defer os.Remove(tf)
			defer os.Remove(rf)
			in, _ := json.Marshal(c)
			cmd := exec.Command(self, "reentone", "-sc", fmt.Sprint(i), "-out", tf, "-res", rf)
			cmd.Stdin = bytes.NewReader(in)
			var stderr bytes.Buffer
			cmd.Stderr = &stderr
			if err := cmd.Run(); err != nil {
				// a crash of the process (a panic no recover() can catch) is real-code behaviour: recorded as Crash
				_, where := crashWhere(stderr.String())
				outs[i].err = fmt.Sprintf("%v: %s", err, where)
			}
			outs[i].trace, _ = os.ReadFile(tf)
			if b, err := os.ReadFile(rf); err == nil {
				_ = json.Unmarshal(b, &outs[i].r)
			}
		}(i, c)
	}
	wg.Wait()
	w, err := os.Create(*out)
	vh.Must(err)
	lines := int64(0)
	for i := range outs {
		o := &outs[i]
		if o.err != "" && len(o.trace) == 0 {
			res.Inconcl(fmt.Sprintf("re-entrant cell %s: child failed without a trace: %s", cells[i].name(), o.err))
			continue
		}
		w.Write(o.trace)
		lines += int64(bytes.Count(o.trace, []byte("\n")))
		if o.err != "" {
			// the child died mid-scenario: its trace ends without EndScenario; say why on a Crash line
			b, _ := json.Marshal(map[string]any{"ev": "Crash", "sc": i, "where": o.err, "op": "", "c": ""})
			w.Write(append(b, '\n'))
			lines++
		}
		res.Executed++
		for k, v := range o.r.Counters {
			res.Count(k, v)
		}
		for _, m := range o.r.Mismatches {
			res.AddMismatch(m)
		}
		for _, s := range o.r.Inconclusive {
			res.Inconcl(s)
		}
		res.Count("reent_cells", 1)
		res.Count("reent_cells_"+cells[i].Prov, 1)
	}
	vh.Must(w.Close())
	res.Evaluations = res.Executed
	res.Count("trace_lines", lines)
	vh.Must(res.Write(*resF))
}
