// c15: conformance harness for specs/Lifecycle (property C15, provider lifecycle).
//
//	c15 replay   -edges F -cfg JSON [-isolate] [-max N] -out R   replay TLC edges on a real provider
//	c15 one                                                     (child of replay -isolate; case on stdin)
//	c15 random   -n N -out TRACE -res R                         seeded concurrent scenarios, perturbed
//	c15 directed -out TRACE -res R [-bound SECONDS]             directed schedules (gates), incl. D2/D3
//	c15 reent    -cells F -out TRACE -res R [-par N]            re-entrant components (Reentry.tla cells), one subprocess each
//
// Go only executes and projects; the expected behaviour lives in specs/Lifecycle/*.tla.
package main

import (
	"fmt"
	"os"

	"go.opentelemetry.io/otel"
)

func main() {
	if len(os.Args) < 2 {
		fmt.Println("usage: c15 replay|one|random|directed ...")
		os.Exit(3)
	}
	otel.SetErrorHandler(otel.ErrorHandlerFunc(func(error) {}))
	switch os.Args[1] {
	case "replay":
		replayMain(os.Args[2:])
	case "one":
		oneMain()
	case "random":
		randomMain(os.Args[2:])
	case "directed":
		directedMain(os.Args[2:])
	case "reent":
		reentMain(os.Args[2:])
	case "reentone":
		reentOneMain(os.Args[2:])
	case "inflight": // work in flight when Shutdown arrives (InFlight.tla cells), one subprocess each
		inflightMain(os.Args[2:])
	case "inflightone":
		inflightOneMain(os.Args[2:])
	default:
		os.Exit(3)
	}
}
