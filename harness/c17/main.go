// c17: conformance harness for LogRecord.tla / LogModel.tla (property C17).
//
//	c17 replay -edges F -lim JSON -rep N -out TRACE -res R   replay every TLC edge on real records
//	c17 random -n N -out TRACE -res R                       random edit programs on real records
//	c17 script -in SCENARIOS.json -out TRACE -res R         re-run stored scenarios (vcheck --replay)
//
// The harness only EXECUTES abstract operations on real sdk/log records and PROJECTS the real
// records onto the model's state space; every comparison is made by TLC (Trace_LogRecord.tla).
// Records are obtained through a real LoggerProvider + Logger.Emit into a capturing Processor, so
// the limits are the ones the provider copies into the record and the emit-time attributes go
// through logger.newRecord.
package main

import (
	"context"
	"encoding/json"
	"flag"
	"fmt"
	"math/rand"
	"os"
	"strings"

	"go.opentelemetry.io/otel/log"
	sdklog "go.opentelemetry.io/otel/sdk/log"
	"go.opentelemetry.io/otel/sdk/verifh/vh"
)

// ---------------------------------------------------------------- abstract shapes (LogModel.tla)

type Val struct {
	T string   `json:"t"`
	S []string `json:"s"`
	E []KV     `json:"e"`
}
type KV struct {
	K string `json:"k"`
	V Val    `json:"v"`
}
type Op struct {
	Op    string `json:"op"`
	Tgt   string `json:"tgt"`
	Attrs []KV   `json:"attrs"`
}
type Rec struct {
	Live    bool `json:"live"`
	Attrs   []KV `json:"attrs"`
	Dropped int  `json:"dropped"`
	N       int  `json:"n"`
}
type State struct {
	R Rec `json:"r"`
	C Rec `json:"c"`
}
type Lim struct {
	AC int `json:"ac"`
	VL int `json:"vl"`
}

func (v *Val) norm() {
	if v.S == nil {
		v.S = []string{}
	}
	if v.E == nil {
		v.E = []KV{}
	}
	for i := range v.E {
		v.E[i].V.norm()
	}
}

func normList(l []KV) []KV {
	if l == nil {
		return []KV{}
	}
	for i := range l {
		l[i].V.norm()
	}
	return l
}

// ---------------------------------------------------------------- concretization / abstraction

var longBytes = []byte("0123456789abcdefghijklmnopqrstuvwxyz")

// concrete string for a symbol sequence; representatives vary with the position; if the
// concatenation does not lex back to the same symbols (a lone lead byte followed by a lone
// continuation byte would fuse into a valid character) the plain table is used.
func concStr(syms []string, rep int) string {
	var b strings.Builder
	for i, s := range syms {
		r := vh.TruncReps[s]
		if len(r) == 0 {
			panic("unknown symbol " + s)
		}
		b.WriteString(r[(rep+i)%len(r)])
	}
	out := b.String()
	if !sameSyms(vh.AbstractTrunc(out), syms) {
		out = ""
		for _, s := range syms {
			out += vh.TruncReps[s][0]
		}
		if !sameSyms(vh.AbstractTrunc(out), syms) {
			panic(fmt.Sprintf("cannot concretize %v", syms))
		}
	}
	return out
}

func sameSyms(a, b []string) bool {
	if len(a) != len(b) {
		return false
	}
	for i := range a {
		if a[i] != b[i] {
			return false
		}
	}
	return true
}

// every call builds fresh backing arrays: the SDK truncates slices and de-duplicates maps in
// place, so inputs are never shared between calls by the harness itself.
func concVal(v Val, rep int) log.Value {
	switch v.T {
	case "s":
		return log.StringValue(concStr(v.S, rep))
	case "i":
		switch v.S[0] {
		case "#i":
			return log.Int64Value(7)
		case "#b":
			return log.BoolValue(true)
		case "#f":
			return log.Float64Value(2.5)
		case "#by":
			return log.BytesValue(append([]byte{}, longBytes...))
		case "#e":
			return log.Value{}
		}
		panic("unknown scalar tag " + v.S[0])
	case "sl":
		vs := make([]log.Value, len(v.E))
		for i := range v.E {
			vs[i] = concVal(v.E[i].V, rep+i+1)
		}
		return log.SliceValue(vs...)
	case "m":
		kvs := make([]log.KeyValue, len(v.E))
		for i := range v.E {
			kvs[i] = log.KeyValue{Key: v.E[i].K, Value: concVal(v.E[i].V, rep+i+1)}
		}
		return log.MapValue(kvs...)
	}
	panic("unknown abstract type " + v.T)
}

func concList(l []KV, rep int) []log.KeyValue {
	out := make([]log.KeyValue, len(l))
	for i, a := range l {
		out[i] = log.KeyValue{Key: a.K, Value: concVal(a.V, rep+3*i)}
	}
	return out
}

func scal(tag string) Val { return Val{T: "i", S: []string{tag}, E: []KV{}} }

// abstraction of a real value (deep copy: nothing of the real value is retained)
func absVal(v log.Value) Val {
	switch v.Kind() {
	case log.KindString:
		return Val{T: "s", S: vh.AbstractTrunc(v.AsString()), E: []KV{}}
	case log.KindSlice:
		out := Val{T: "sl", S: []string{}, E: []KV{}}
		for _, e := range v.AsSlice() {
			out.E = append(out.E, KV{K: "", V: absVal(e)})
		}
		return out
	case log.KindMap:
		out := Val{T: "m", S: []string{}, E: []KV{}}
		for _, e := range v.AsMap() {
			out.E = append(out.E, KV{K: e.Key, V: absVal(e.Value)})
		}
		return out
	case log.KindInt64:
		if v.AsInt64() == 7 {
			return scal("#i")
		}
		return scal(fmt.Sprintf("#i:%d", v.AsInt64()))
	case log.KindBool:
		if v.AsBool() {
			return scal("#b")
		}
		return scal("#b:false")
	case log.KindFloat64:
		if v.AsFloat64() == 2.5 {
			return scal("#f")
		}
		return scal(fmt.Sprintf("#f:%v", v.AsFloat64()))
	case log.KindBytes:
		if string(v.AsBytes()) == string(longBytes) {
			return scal("#by")
		}
		return scal(fmt.Sprintf("#by:%x", v.AsBytes()))
	case log.KindEmpty:
		return scal("#e")
	}
	return scal("#?")
}

func project(r *sdklog.Record) Rec {
	if r == nil {
		return Rec{Live: false, Attrs: []KV{}}
	}
	out := Rec{Live: true, Attrs: []KV{}}
	r.WalkAttributes(func(kv log.KeyValue) bool {
		out.Attrs = append(out.Attrs, KV{K: kv.Key, V: absVal(kv.Value)})
		return true
	})
	out.N = r.AttributesLen()
	out.Dropped = r.DroppedAttributes()
	return out
}

// ---------------------------------------------------------------- the real objects

type capProc struct {
	got    []*sdklog.Record
	inEmit func(*sdklog.Record) // optional: runs inside OnEmit (edits made while emitting)
}

func (p *capProc) OnEmit(_ context.Context, r *sdklog.Record) error {
	p.got = append(p.got, r)
	if p.inEmit != nil {
		p.inEmit(r)
	}
	return nil
}
func (p *capProc) Shutdown(context.Context) error   { return nil }
func (p *capProc) ForceFlush(context.Context) error { return nil }

type world struct {
	recs map[string]*sdklog.Record
	rep  int
	call int
}

// newWorld emits one API record carrying emitAttrs through a real provider configured with lim
// and keeps the *Record the processor received.
func newWorld(lim Lim, emitAttrs []KV, rep int) *world {
	return newWorldIn(lim, emitAttrs, rep, nil)
}

// newWorldIn additionally runs body (if not nil) inside the processor's OnEmit, i.e. while
// Logger.Emit is still on the stack, on the world built around the record being emitted.
func newWorldIn(lim Lim, emitAttrs []KV, rep int, body func(*world)) *world {
	p := &capProc{}
	var w *world
	if body != nil {
		p.inEmit = func(r *sdklog.Record) {
			w = &world{recs: map[string]*sdklog.Record{"r": r}, rep: rep}
			body(w)
		}
	}
	prov := sdklog.NewLoggerProvider(sdklog.WithProcessor(p),
		sdklog.WithAttributeCountLimit(lim.AC), sdklog.WithAttributeValueLengthLimit(lim.VL))
	var ar log.Record
	ar.SetBody(log.StringValue("body"))
	ar.AddAttributes(concList(emitAttrs, rep)...)
	prov.Logger("c17").Emit(context.Background(), ar)
	if len(p.got) != 1 {
		panic(fmt.Sprintf("processor received %d records, want 1", len(p.got)))
	}
	if w != nil {
		return w
	}
	return &world{recs: map[string]*sdklog.Record{"r": p.got[0]}, rep: rep}
}

func other(t string) string {
	if t == "r" {
		return "c"
	}
	return "r"
}

func (w *world) apply(op Op) {
	w.call++
	rec := w.recs[op.Tgt]
	if rec == nil {
		panic("operation on a record that does not exist: " + op.Tgt)
	}
	switch op.Op {
	case "Add":
		rec.AddAttributes(concList(op.Attrs, w.rep+w.call)...)
	case "Set":
		rec.SetAttributes(concList(op.Attrs, w.rep+w.call)...)
	case "Clone":
		c := rec.Clone()
		w.recs[other(op.Tgt)] = &c
	case "Reapply":
		var kvs []log.KeyValue
		rec.WalkAttributes(func(kv log.KeyValue) bool {
			kvs = append(kvs, kv)
			return true
		})
		rec.SetAttributes(kvs...)
	default:
		panic("unknown op " + op.Op)
	}
}

func (w *world) observe() State {
	return State{R: project(w.recs["r"]), C: project(w.recs["c"])}
}

// start creates the world for a program: a leading Emit op carries the emit-time attributes.
func start(lim Lim, ops []Op, rep int) (*world, []Op) {
	if len(ops) > 0 && ops[0].Op == "Emit" {
		return newWorld(lim, ops[0].Attrs, rep), ops[1:]
	}
	return newWorld(lim, nil, rep), ops
}

// ---------------------------------------------------------------- statistics (no verdicts)

type stats struct{ res *vh.Result }

func hasNestedDup(v Val) bool {
	seen := map[string]bool{}
	for _, e := range v.E {
		if v.T == "m" {
			if seen[e.K] {
				return true
			}
			seen[e.K] = true
		}
		if hasNestedDup(e.V) {
			return true
		}
	}
	return false
}

func hasLong(v Val, vl int) bool {
	if vl < 0 {
		return false
	}
	if v.T == "s" && len(v.S) > vl {
		return true
	}
	for _, e := range v.E {
		if hasLong(e.V, vl) {
			return true
		}
	}
	return false
}

func (s stats) note(lim Lim, pre State, op Op) {
	c := func(n string) { s.res.Count(n, 1) }
	c("op_" + op.Op)
	if op.Op == "Clone" || op.Op == "Reapply" {
		return
	}
	var tgt Rec
	if op.Op != "Emit" {
		tgt = pre.R
		if op.Tgt == "c" {
			tgt = pre.C
			c("op_on_clone")
		}
	}
	pos := map[string]int{}
	if op.Op == "Add" {
		for i, a := range tgt.Attrs {
			pos[a.K] = i
		}
	}
	seen := map[string]bool{}
	newKeys := 0
	for _, a := range op.Attrs {
		if seen[a.K] {
			c("dup_key_within_call")
		} else if i, ok := pos[a.K]; ok {
			if i < 5 {
				c("overwrite_inline_slot")
			} else {
				c("overwrite_overflow_slot")
			}
			if hasLong(a.V, lim.VL) {
				c("overwrite_with_oversized")
			}
		} else {
			newKeys++
		}
		seen[a.K] = true
		if hasNestedDup(a.V) {
			c("nested_duplicate_offered")
		}
		if hasLong(a.V, lim.VL) {
			c("oversized_offered")
		}
		if a.V.T == "sl" || a.V.T == "m" {
			c("nested_value_offered")
		}
	}
	before := len(pos)
	if lim.AC > 0 && before < lim.AC && before+newKeys > lim.AC {
		c("count_limit_reached_mid_call")
	}
	if lim.AC > 0 && before >= lim.AC && newKeys > 0 {
		c("offer_when_full")
	}
	if before <= 5 && before+newKeys > 5 && (lim.AC < 0 || lim.AC > 5) {
		c("crosses_inline_array")
	}
	if lim.AC == 0 && len(op.Attrs) > 0 {
		c("offer_under_count_limit_zero")
	}
}

// ---------------------------------------------------------------- spec -> code: edge replay

func replay(args []string) {
	fs := flag.NewFlagSet("replay", flag.ExitOnError)
	edges := fs.String("edges", "", "")
	limJ := fs.String("lim", "", "")
	rep := fs.Int("rep", 0, "")
	out := fs.String("out", "trace.ndjson", "")
	resF := fs.String("res", "result.json", "")
	sample := fs.Int("sample", 0, "replay only every k-th edge offset by seed (0 = all)")
	fs.Parse(args)
	var lim Lim
	vh.Must(json.Unmarshal([]byte(*limJ), &lim))
	g, err := vh.LoadEdges(*edges)
	vh.Must(err)
	tw, err := vh.NewTraceWriter(*out)
	vh.Must(err)
	res := vh.NewResult()
	st := stats{res}
	for i, e := range g.Edges {
		res.Evaluations++
		if *sample > 1 && (int64(i)+vh.Seed())%int64(*sample) != 0 {
			continue
		}
		pathRaw, ok := g.Path(i)
		if !ok {
			res.Inconcl(fmt.Sprintf("edge %d: source not reachable in BFS tree", i))
			continue
		}
		var ops []Op
		for _, r := range append(pathRaw, e.Act) {
			var op Op
			vh.Must(json.Unmarshal(r, &op))
			op.Attrs = normList(op.Attrs)
			ops = append(ops, op)
		}
		var pre, post State
		func() {
			defer func() {
				if p := recover(); p != nil {
					res.AddMismatch(vh.Mismatch{Kind: "panic", Case: map[string]any{"lim": lim}, Path: ops, Detail: fmt.Sprint(p)})
					ok = false
				}
			}()
			var w *world
			var rest []Op
			if len(ops) == 1 && ops[0].Op == "Emit" {
				// the edge itself is the emission: pre-state is "nothing emitted yet"
				pre = State{R: Rec{Live: true, Attrs: []KV{}}, C: Rec{Attrs: []KV{}}}
				st.note(lim, pre, ops[0])
				w, _ = start(lim, ops, *rep)
				post = w.observe()
				return
			}
			w, rest = start(lim, ops, *rep)
			for _, op := range rest[:len(rest)-1] {
				w.apply(op)
			}
			pre = w.observe()
			st.note(lim, pre, rest[len(rest)-1])
			w.apply(rest[len(rest)-1])
			post = w.observe()
		}()
		if !ok {
			continue
		}
		res.Executed++
		// statistic only: did the real code arrive exactly at the spec's source state?
		var from State
		if json.Unmarshal(e.From, &from) == nil {
			from.R.N, from.C.N = len(from.R.Attrs), len(from.C.Attrs)
			from.R.Attrs, from.C.Attrs = normList(from.R.Attrs), normList(from.C.Attrs)
			a, _ := json.Marshal(from)
			b, _ := json.Marshal(pre)
			if string(a) == string(b) {
				res.Count("source_state_reached_exactly", 1)
			} else {
				res.Count("source_state_differs", 1)
			}
		}
		tw.Emit(map[string]any{"ev": "Edge", "i": i, "lim": lim, "from": e.From, "act": e.Act, "to": e.To,
			"pre": pre, "post": post, "ops": ops, "rep": *rep})
		if i%499 == 0 {
			res.Sample(map[string]any{"lim": lim, "ops": ops, "post": post})
		}
	}
	vh.Must(tw.Close())
	res.Count("trace_lines", tw.N)
	vh.Must(res.Write(*resF))
}

// ---------------------------------------------------------------- code -> spec: random programs

var classes = []string{"a1", "a1", "a1", "m2", "m3", "m4", "fffd", "bad"}

func randSyms(r *rand.Rand, maxLen int) []string {
	n := r.Intn(maxLen + 1)
	out := make([]string, n)
	for i := range out {
		out[i] = classes[r.Intn(len(classes))]
	}
	return out
}

var scalTags = []string{"#i", "#b", "#f", "#by", "#e"}
var innerKeys = []string{"x", "y", "z", ""}

func randVal(r *rand.Rand, depth, maxLen int) Val {
	k := r.Intn(20)
	switch {
	case k < 3:
		return scal(scalTags[r.Intn(len(scalTags))])
	case k < 6 && depth > 0:
		v := Val{T: "sl", S: []string{}, E: []KV{}}
		for i, n := 0, r.Intn(4); i < n; i++ {
			v.E = append(v.E, KV{K: "", V: randVal(r, depth-1, maxLen)})
		}
		return v
	case k < 10 && depth > 0:
		v := Val{T: "m", S: []string{}, E: []KV{}}
		for i, n := 0, r.Intn(5); i < n; i++ {
			v.E = append(v.E, KV{K: innerKeys[r.Intn(len(innerKeys))], V: randVal(r, depth-1, maxLen)})
		}
		return v
	}
	return Val{T: "s", S: randSyms(r, maxLen), E: []KV{}}
}

func randList(r *rand.Rand, nkeys, maxN, maxLen int) []KV {
	n := r.Intn(maxN + 1)
	out := make([]KV, 0, n)
	for i := 0; i < n; i++ {
		key := fmt.Sprintf("k%d", r.Intn(nkeys))
		if r.Intn(25) == 0 {
			key = ""
		}
		out = append(out, KV{K: key, V: randVal(r, 3, maxLen)})
	}
	return out
}

func randLim(r *rand.Rand) Lim {
	var l Lim
	switch k := r.Intn(12); {
	case k < 2:
		l.AC = -1
	case k == 2:
		l.AC = 0
	default:
		l.AC = 1 + r.Intn(9)
	}
	switch k := r.Intn(10); {
	case k < 2:
		l.VL = -1
	case k == 2:
		l.VL = 0
	default:
		l.VL = 1 + r.Intn(6)
	}
	return l
}

func random(args []string) {
	fs := flag.NewFlagSet("random", flag.ExitOnError)
	n := fs.Int("n", 200, "")
	out := fs.String("out", "trace.ndjson", "")
	resF := fs.String("res", "result.json", "")
	fs.Parse(args)
	r := rand.New(rand.NewSource(vh.Seed()))
	tw, err := vh.NewTraceWriter(*out)
	vh.Must(err)
	res := vh.NewResult()
	st := stats{res}
	for sc := 0; sc < *n; sc++ {
		lim := randLim(r)
		rep := r.Intn(12)
		nkeys := 2 + r.Intn(11)
		maxN := 1 + r.Intn(8)
		nops := 3 + r.Intn(14)
		emit := Op{Op: "Emit", Tgt: "r", Attrs: randList(r, nkeys, maxN, 8)}
		var done []Op
		func() {
			defer func() {
				if p := recover(); p != nil {
					res.AddMismatch(vh.Mismatch{Kind: "panic", Case: map[string]any{"lim": lim}, Path: done, Detail: fmt.Sprint(p)})
				}
			}()
			done = append(done, emit)
			st.note(lim, State{}, emit)
			inEmit := r.Intn(2) == 0
			body := func(w *world) {
				cur := w.observe()
				tw.Emit(map[string]any{"ev": "New", "sc": sc, "lim": lim, "op": emit, "post": cur, "rep": rep, "in_emit": inEmit})
				for i := 0; i < nops; i++ {
					op := Op{Tgt: "r", Attrs: []KV{}}
					if cur.C.Live && r.Intn(2) == 0 {
						op.Tgt = "c"
					}
					switch k := r.Intn(20); {
					case k < 10:
						op.Op, op.Attrs = "Add", randList(r, nkeys, maxN, 8)
					case k < 13:
						op.Op, op.Attrs = "Set", randList(r, nkeys, maxN, 8)
					case k < 16:
						op.Op = "Clone"
					default:
						op.Op = "Reapply"
					}
					done = append(done, op)
					st.note(lim, cur, op)
					w.apply(op)
					cur = w.observe()
					tw.Emit(map[string]any{"ev": "Step", "sc": sc, "op": op, "post": cur})
					res.Executed++
				}
			}
			if inEmit {
				res.Count("programs_run_inside_OnEmit", 1)
				newWorldIn(lim, emit.Attrs, rep, body)
			} else {
				body(newWorld(lim, emit.Attrs, rep))
			}
		}()
		res.Evaluations++
		if sc < 2 {
			res.Sample(map[string]any{"lim": lim, "ops": done})
		}
	}
	vh.Must(tw.Close())
	res.Count("trace_lines", tw.N)
	vh.Must(res.Write(*resF))
}

// script executes scenarios {lim, rep, ops} read from a JSON file and records them like random
// programs do (New + Step lines); used to re-run a stored failing case on the current tree.
func script(args []string) {
	fs := flag.NewFlagSet("script", flag.ExitOnError)
	in := fs.String("in", "", "")
	out := fs.String("out", "trace.ndjson", "")
	resF := fs.String("res", "result.json", "")
	fs.Parse(args)
	raw, err := os.ReadFile(*in)
	vh.Must(err)
	var scens []struct {
		Lim Lim  `json:"lim"`
		Rep int  `json:"rep"`
		Ops []Op `json:"ops"`
	}
	vh.Must(json.Unmarshal(raw, &scens))
	tw, err := vh.NewTraceWriter(*out)
	vh.Must(err)
	res := vh.NewResult()
	for sc, s := range scens {
		ops := s.Ops
		for i := range ops {
			ops[i].Attrs = normList(ops[i].Attrs)
		}
		if len(ops) == 0 || ops[0].Op != "Emit" {
			ops = append([]Op{{Op: "Emit", Tgt: "r", Attrs: []KV{}}}, ops...)
		}
		func() {
			defer func() {
				if p := recover(); p != nil {
					res.AddMismatch(vh.Mismatch{Kind: "panic", Case: map[string]any{"lim": s.Lim}, Path: ops, Detail: fmt.Sprint(p)})
				}
			}()
			w := newWorld(s.Lim, ops[0].Attrs, s.Rep)
			tw.Emit(map[string]any{"ev": "New", "sc": sc, "lim": s.Lim, "op": ops[0], "post": w.observe(), "rep": s.Rep})
			for _, op := range ops[1:] {
				w.apply(op)
				tw.Emit(map[string]any{"ev": "Step", "sc": sc, "op": op, "post": w.observe()})
				res.Executed++
			}
		}()
		res.Evaluations++
	}
	vh.Must(tw.Close())
	vh.Must(res.Write(*resF))
}

func main() {
	if len(os.Args) < 2 {
		fmt.Println("usage: c17 replay|random ...")
		os.Exit(3)
	}
	// the provider options take precedence, but keep the environment out of the picture anyway
	os.Unsetenv("OTEL_LOGRECORD_ATTRIBUTE_COUNT_LIMIT")
	os.Unsetenv("OTEL_LOGRECORD_ATTRIBUTE_VALUE_LENGTH_LIMIT")
	switch os.Args[1] {
	case "replay":
		replay(os.Args[2:])
	case "random":
		random(os.Args[2:])
	case "script":
		script(os.Args[2:])
	case "bufreplay": // caller-memory class, see buf.go
		bufReplay(os.Args[2:])
	case "bufrandom":
		bufRandom(os.Args[2:])
	default:
		os.Exit(3)
	}
}
