// buf.go: the caller-memory class of C17 (specs/LogRecord/LogBufModel.tla, LogBuf.tla,
// Trace_LogBuf.tla).
//
//	c17 bufreplay -edges F -lim JSON -mem JSON -rep N -out TRACE -res R   replay every edge of LogBuf.tla
//	c17 bufrandom -n N -out TRACE -res R                                 random histories
//
// Unlike main.go (which builds fresh backing arrays for every call) the worlds here own REAL
// []log.KeyValue arrays that live as long as the scenario: calls spread a prefix of such an
// array (`rec.SetAttributes(buf[:n]...)`, spare capacity behind the prefix included), the same
// array is handed to several records and calls, and the "caller" overwrites cells, appends
// behind a passed prefix and refills the array between the calls.  Nested slice / map values of
// a cell are built once and travel with the cell.  As everywhere in this harness nothing is
// compared here: the real records (and, for classification, the real array window) are projected
// and logged; every verdict is TLC's (Trace_LogBuf.tla).
package main

import (
	"context"
	"encoding/json"
	"flag"
	"fmt"
	"math/rand"

	"go.opentelemetry.io/otel/log"
	sdklog "go.opentelemetry.io/otel/sdk/log"
	"go.opentelemetry.io/otel/sdk/verifh/vh"
)

// BOp is the uniform operation record of LogBufModel.tla.
type BOp struct {
	Op    string `json:"op"`
	Tgt   string `json:"tgt"`
	Attrs []KV   `json:"attrs"`
	Buf   string `json:"buf"`
	N     int    `json:"n"`
	Cell  int    `json:"cell"`
}

type bufState struct {
	St  json.RawMessage `json:"st"`
	Mem map[string][]KV `json:"mem"`
}

type bworld struct {
	proc   *capProc
	logger log.Logger
	recs   map[string]*sdklog.Record
	bufs   map[string][]log.KeyValue // the caller's arrays, len = cap = number of cells
	rep    int
	call   int
}

func newBufWorld(lim Lim, mem map[string][]KV, rep int) *bworld {
	w := &bworld{proc: &capProc{}, recs: map[string]*sdklog.Record{}, bufs: map[string][]log.KeyValue{}, rep: rep}
	prov := sdklog.NewLoggerProvider(sdklog.WithProcessor(w.proc),
		sdklog.WithAttributeCountLimit(lim.AC), sdklog.WithAttributeValueLengthLimit(lim.VL))
	w.logger = prov.Logger("c17buf")
	for i, id := range vh.SortedKeys(mem) {
		w.bufs[id] = concList(mem[id], rep+7*i) // make([]log.KeyValue, len): cap = len
	}
	w.emit("r", nil, nil)
	w.emit("c", nil, nil)
	return w
}

// emit sends one API record through the real Logger; the *Record the processor receives becomes
// slot tgt.  body (optional) runs inside OnEmit, i.e. while Logger.Emit is on the stack.
func (w *bworld) emit(tgt string, attrs []KV, body func()) {
	w.call++
	before := len(w.proc.got)
	w.proc.inEmit = func(r *sdklog.Record) {
		w.recs[tgt] = r
		if body != nil {
			body()
		}
	}
	var ar log.Record
	ar.SetBody(log.StringValue("body"))
	ar.AddAttributes(concList(attrs, w.rep+w.call)...)
	w.logger.Emit(context.Background(), ar)
	w.proc.inEmit = nil
	if len(w.proc.got) != before+1 {
		panic(fmt.Sprintf("processor received %d records for one Emit", len(w.proc.got)-before))
	}
}

func (w *bworld) window(op BOp) []log.KeyValue {
	b, ok := w.bufs[op.Buf]
	if !ok {
		panic("unknown buffer " + op.Buf)
	}
	return b[:op.N] // len n, cap = all cells: the spare cells are reachable through the slice
}

// real projects the array window a call is about to pass (classification only).
func (w *bworld) real(op BOp) []KV {
	out := []KV{}
	if (op.Op == "Add" || op.Op == "Set") && op.Buf != "" {
		for _, kv := range w.window(op) {
			out = append(out, KV{K: kv.Key, V: absVal(kv.Value)})
		}
	}
	return out
}

// realMem projects every real array of the caller (all cells).  Logged after each step: the trace
// spec sees from it which step wrote into the caller's memory.
func (w *bworld) realMem() map[string][]KV {
	out := map[string][]KV{}
	for id, b := range w.bufs {
		l := []KV{}
		for _, kv := range b {
			l = append(l, KV{K: kv.Key, V: absVal(kv.Value)})
		}
		out[id] = l
	}
	return out
}

// apply executes one operation; body is only used by Emit (see emit).
func (w *bworld) apply(op BOp, body func()) {
	switch op.Op {
	case "Emit":
		w.emit(op.Tgt, op.Attrs, body)
		return
	case "Write":
		w.call++
		w.bufs[op.Buf][op.Cell-1] = concList(op.Attrs[:1], w.rep+w.call)[0]
		return
	case "Refill":
		w.call++
		b := w.bufs[op.Buf]
		nb := append(b[:0], concList(op.Attrs, w.rep+w.call)...)
		if len(nb) > len(b) || (len(nb) > 0 && &nb[0] != &b[0]) {
			panic("refill re-allocated: list longer than the buffer")
		}
		return
	}
	w.call++
	rec := w.recs[op.Tgt]
	if rec == nil {
		panic("operation on a record that does not exist: " + op.Tgt)
	}
	switch op.Op {
	case "Add":
		if op.Buf != "" {
			rec.AddAttributes(w.window(op)...)
		} else {
			rec.AddAttributes(concList(op.Attrs, w.rep+w.call)...)
		}
	case "Set":
		if op.Buf != "" {
			rec.SetAttributes(w.window(op)...)
		} else {
			rec.SetAttributes(concList(op.Attrs, w.rep+w.call)...)
		}
	case "Clone":
		c := rec.Clone()
		w.recs[other(op.Tgt)] = &c
	case "Reapply":
		var kvs []log.KeyValue
		rec.WalkAttributes(func(kv log.KeyValue) bool {
			kvs = append(kvs, kv)
			return true
		})
		rec.SetAttributes(kvs...)
	default:
		panic("unknown op " + op.Op)
	}
}

func (w *bworld) observe() State {
	return State{R: project(w.recs["r"]), C: project(w.recs["c"])}
}

func normBOp(op *BOp) {
	op.Attrs = normList(op.Attrs)
}

// ---------------------------------------------------------------- statistics (no verdicts)

type bstats struct {
	res    *vh.Result
	passed map[string]map[string]bool // buffer -> records it was passed to
}

func newBStats(res *vh.Result) *bstats { return &bstats{res: res, passed: map[string]map[string]bool{}} }

func distinctKeys(l []KV) int {
	seen := map[string]bool{}
	for _, a := range l {
		seen[a.K] = true
	}
	return len(seen)
}

func sameList(a, b []KV) bool {
	x, _ := json.Marshal(a)
	y, _ := json.Marshal(b)
	return string(x) == string(y)
}

func (s *bstats) note(w *bworld, lim Lim, op BOp, supplied, real []KV) {
	c := func(n string) { s.res.Count(n, 1) }
	c("buf_op_" + op.Op)
	switch op.Op {
	case "Add", "Set":
		if op.Buf == "" {
			c("buf_literal_call")
			if len(s.passed) > 0 {
				c("buf_literal_call_after_buffer_call")
			}
			return
		}
		c("buf_call")
		if op.N < len(w.bufs[op.Buf]) {
			c("buf_call_spare_capacity")
		} else {
			c("buf_call_full_capacity")
		}
		d := distinctKeys(real)
		if d > 5 {
			c("buf_call_over5_after_dedup")
		} else {
			c("buf_call_upto5")
		}
		if d < len(real) {
			c("buf_call_with_duplicates")
		}
		if lim.AC > 0 && d > lim.AC {
			c("buf_call_cut_by_count_limit")
		}
		for _, a := range real {
			if a.V.T == "sl" || a.V.T == "m" {
				c("buf_call_nested_value")
				break
			}
		}
		m := s.passed[op.Buf]
		if m == nil {
			m = map[string]bool{}
			s.passed[op.Buf] = m
		}
		if len(m) > 0 {
			c("buf_reused_for_another_call")
			if !m[op.Tgt] || len(m) > 1 {
				c("buf_travelled_to_second_record")
			}
		}
		m[op.Tgt] = true
		if supplied != nil && !sameList(supplied, real) {
			c("buf_sdk_rewrote_callers_array_before_call")
		}
	case "Write", "Refill":
		if len(s.passed[op.Buf]) > 0 {
			c("buf_caller_write_after_call")
		} else {
			c("buf_caller_write_before_call")
		}
	case "Emit":
		// a new record takes the slot: the buffers it was passed to are no longer held by op.Tgt
	}
}

// ---------------------------------------------------------------- spec -> code

func bufReplay(args []string) {
	fs := flag.NewFlagSet("bufreplay", flag.ExitOnError)
	edges := fs.String("edges", "", "")
	limJ := fs.String("lim", "", "")
	rep := fs.Int("rep", 0, "")
	out := fs.String("out", "trace.ndjson", "")
	resF := fs.String("res", "result.json", "")
	fs.Parse(args)
	var lim Lim
	vh.Must(json.Unmarshal([]byte(*limJ), &lim))
	g, err := vh.LoadEdges(*edges)
	vh.Must(err)
	var init bufState
	vh.Must(json.Unmarshal(g.Edges[0].From, &init))
	for id := range init.Mem {
		init.Mem[id] = normList(init.Mem[id])
	}
	tw, err := vh.NewTraceWriter(*out)
	vh.Must(err)
	res := vh.NewResult()
	for i, e := range g.Edges {
		res.Evaluations++
		pathRaw, ok := g.Path(i)
		if !ok {
			res.Inconcl(fmt.Sprintf("edge %d: source not reachable in BFS tree", i))
			continue
		}
		var ops []BOp
		for _, r := range append(pathRaw, e.Act) {
			var op BOp
			vh.Must(json.Unmarshal(r, &op))
			normBOp(&op)
			ops = append(ops, op)
		}
		type stepLine struct {
			op   BOp
			post State
			rmem map[string][]KV
		}
		var first map[string]any
		var lines []stepLine
		var post State
		func() {
			defer func() {
				if p := recover(); p != nil {
					res.AddMismatch(vh.Mismatch{Kind: "panic", Case: map[string]any{"lim": lim}, Path: ops, Detail: fmt.Sprint(p)})
					ok = false
				}
			}()
			w := newBufWorld(lim, init.Mem, *rep)
			st := newBStats(res)
			first = map[string]any{"ev": "BNew", "sc": i, "lim": lim, "mem": init.Mem, "post": w.observe(), "rmem": w.realMem(), "rep": *rep}
			for _, op := range ops {
				st.note(w, lim, op, nil, w.real(op))
				w.apply(op, nil)
				post = w.observe()
				lines = append(lines, stepLine{op, post, w.realMem()})
			}
		}()
		if !ok {
			continue
		}
		res.Executed++
		// the path is logged so that the trace spec can follow the caller's memory; only the edge's own
		// step is checked (every path step is the own step of another edge)
		tw.Emit(first)
		for j, sl := range lines {
			ev := map[string]any{"ev": "BStep", "sc": i, "op": sl.op, "post": sl.post, "rmem": sl.rmem, "chk": false, "last": false}
			if j == len(lines)-1 {
				ev["chk"], ev["last"] = true, true
				ev["from"], ev["act"], ev["to"] = e.From, e.Act, e.To
			}
			tw.Emit(ev)
		}
		if i%997 == 0 {
			res.Sample(map[string]any{"lim": lim, "ops": ops, "post": post})
		}
	}
	vh.Must(tw.Close())
	res.Count("trace_lines", tw.N)
	vh.Must(res.Write(*resF))
}

// ---------------------------------------------------------------- code -> spec

func randBufVal(r *rand.Rand, maxLen int) Val { return randVal(r, 2, maxLen) }

func randCells(r *rand.Rand, nkeys, n, maxLen int) []KV {
	out := make([]KV, 0, n)
	for i := 0; i < n; i++ {
		out = append(out, KV{K: fmt.Sprintf("k%d", r.Intn(nkeys)), V: randBufVal(r, maxLen)})
	}
	return out
}

// the caller's own view of its buffers (kept only to draw sensible operations and for the
// statistics; the trace spec advances its own copy with MemNext)
type callerMem map[string][]KV

func (m callerMem) apply(op BOp) {
	switch op.Op {
	case "Write":
		m[op.Buf][op.Cell-1] = op.Attrs[0]
	case "Refill":
		copy(m[op.Buf], op.Attrs)
	}
}

func (m callerMem) supplied(op BOp) []KV {
	if (op.Op == "Add" || op.Op == "Set") && op.Buf != "" {
		return m[op.Buf][:op.N]
	}
	return op.Attrs
}

func randBufProgram(r *rand.Rand, mem callerMem, nkeys, nops int) []BOp {
	ids := vh.SortedKeys(mem)
	pickBuf := func() string { return ids[r.Intn(len(ids))] }
	pickN := func(b string) int {
		c := len(mem[b])
		switch k := r.Intn(10); {
		case k < 5:
			return c
		case k < 7 && c > 0:
			return c - 1
		default:
			return r.Intn(c + 1)
		}
	}
	tgt := func() string {
		if r.Intn(2) == 0 {
			return "c"
		}
		return "r"
	}
	callKind := func() string {
		if r.Intn(2) == 0 {
			return "Set"
		}
		return "Add"
	}
	var ops []BOp
	if r.Intn(4) == 0 {
		// an enriching processor: every emitted record gets the same static set, a later stage edits some
		b := pickBuf()
		n := pickN(b)
		kind := callKind()
		for len(ops) < nops {
			t := tgt()
			ops = append(ops, BOp{Op: "Emit", Tgt: t, Attrs: randList(r, nkeys, 3, 6)})
			ops = append(ops, BOp{Op: kind, Tgt: t, Attrs: []KV{}, Buf: b, N: n})
			if r.Intn(2) == 0 {
				ops = append(ops, BOp{Op: "Add", Tgt: t, Attrs: randCells(r, nkeys, 1+r.Intn(2), 6)})
			}
			if r.Intn(6) == 0 {
				ops = append(ops, BOp{Op: "Write", Tgt: "r", Attrs: randCells(r, nkeys, 1, 6), Buf: b, Cell: 1 + r.Intn(len(mem[b]))})
			}
		}
		return ops
	}
	for i := 0; i < nops; i++ {
		op := BOp{Tgt: tgt(), Attrs: []KV{}}
		switch k := r.Intn(20); {
		case k < 8:
			op.Op, op.Buf = callKind(), pickBuf()
			op.N = pickN(op.Buf)
		case k < 10:
			op.Op, op.Attrs = callKind(), randCells(r, nkeys, r.Intn(4), 6)
		case k < 14:
			op.Op, op.Tgt, op.Buf = "Write", "r", pickBuf()
			if len(mem[op.Buf]) == 0 {
				op.Op, op.Buf = "Clone", ""
				break
			}
			op.Cell = 1 + r.Intn(len(mem[op.Buf]))
			op.Attrs = randCells(r, nkeys, 1, 6)
		case k < 15:
			op.Op, op.Tgt, op.Buf = "Refill", "r", pickBuf()
			op.Attrs = randCells(r, nkeys, r.Intn(len(mem[op.Buf])+1), 6)
		case k < 17:
			op.Op = "Clone"
		case k < 18:
			op.Op = "Reapply"
		default:
			op.Op, op.Attrs = "Emit", randList(r, nkeys, 4, 6)
		}
		ops = append(ops, op)
	}
	return ops
}

func bufRandom(args []string) {
	fs := flag.NewFlagSet("bufrandom", flag.ExitOnError)
	n := fs.Int("n", 200, "")
	out := fs.String("out", "trace.ndjson", "")
	resF := fs.String("res", "result.json", "")
	fs.Parse(args)
	r := rand.New(rand.NewSource(vh.Seed()*7919 + 17))
	tw, err := vh.NewTraceWriter(*out)
	vh.Must(err)
	res := vh.NewResult()
	for sc := 0; sc < *n; sc++ {
		lim := randLim(r)
		for lim.AC == 0 {
			// count limit 0 is a listed finding of the main families (C17-count-limit-zero-is-unlimited);
			// here it would only blur the attribution of memory effects
			lim = randLim(r)
		}
		rep := r.Intn(12)
		nkeys := 3 + r.Intn(10)
		mem := callerMem{}
		for i, nb := 0, 1+r.Intn(2); i < nb; i++ {
			cells := 1 + r.Intn(10)
			if r.Intn(3) > 0 {
				cells = 6 + r.Intn(5) // mostly beyond the inline array
			}
			mem[fmt.Sprintf("B%d", i+1)] = randCells(r, nkeys, cells, 6)
		}
		memJ := map[string][]KV{}
		for id, cells := range mem {
			memJ[id] = append([]KV{}, cells...)
		}
		ops := randBufProgram(r, mem, nkeys, 4+r.Intn(10))
		inEmit := r.Intn(2) == 0
		var done []BOp
		func() {
			defer func() {
				if p := recover(); p != nil {
					res.AddMismatch(vh.Mismatch{Kind: "panic", Case: map[string]any{"lim": lim, "family": "buffer"}, Path: done, Detail: fmt.Sprint(p)})
				}
			}()
			w := newBufWorld(lim, memJ, rep)
			st := newBStats(res)
			tw.Emit(map[string]any{"ev": "BNew", "sc": sc, "lim": lim, "mem": memJ, "post": w.observe(), "rmem": w.realMem(), "rep": rep, "in_emit": inEmit})
			i := 0
			var run func(inside bool)
			run = func(inside bool) {
				for i < len(ops) {
					op := ops[i]
					if inside && op.Op == "Emit" {
						return // the enclosing OnEmit ends before the next emission
					}
					i++
					done = append(done, op)
					real := w.real(op)
					st.note(w, lim, op, mem.supplied(op), real)
					logStep := func() {
						tw.Emit(map[string]any{"ev": "BStep", "sc": sc, "op": op, "post": w.observe(), "rmem": w.realMem(), "chk": true, "last": false})
						res.Executed++
					}
					if op.Op == "Emit" && inEmit {
						res.Count("buf_ops_run_inside_OnEmit", 1)
						w.apply(op, func() {
							logStep()
							run(true)
						})
						continue
					}
					w.apply(op, nil)
					mem.apply(op)
					logStep()
				}
			}
			run(false)
		}()
		res.Evaluations++
		if sc < 2 {
			res.Sample(map[string]any{"lim": lim, "mem": memJ, "ops": done})
		}
	}
	vh.Must(tw.Close())
	res.Count("trace_lines", tw.N)
	vh.Must(res.Write(*resF))
}
