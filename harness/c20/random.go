package main

// code -> spec: seeded random MULTI-setting configurations with ugly concrete values.
//
// A scenario configures one component with several settings at once, each setting from a
// random combination of sources (absent / valid / ill-formed kinds, the same vocabulary as
// MC_ConfigPrecedence.tla), runs the real code once and records, per setting, the abstract
// sources and the projected observation.  One ndjson line per scenario:
//
//	{"ev":"Cfg","sc":n,"kind":"exporter|tracer|logger|bsp|blrp","comp":..,
//	 "cases":[{"fam","comp","setting","srcs":[{k,v}..],"obs":[..],"detail":..,"env":[..],"opt":..}]}
//
// Trace_ConfigPrecedence.tla decides (AllowedFor) whether each observation is admissible.
// Nothing here knows what the expected outcome is.

import (
	"context"
	"fmt"
	"math/rand"
	"os"
	"strings"
	"time"

	"go.opentelemetry.io/otel/attribute"
	otellog "go.opentelemetry.io/otel/log"
	sdklog "go.opentelemetry.io/otel/sdk/log"
	sdktrace "go.opentelemetry.io/otel/sdk/trace"
	"go.opentelemetry.io/otel/sdk/verifh/vh"
	"go.opentelemetry.io/otel/trace"
)

type caseObs struct {
	Fam     string   `json:"fam"`
	Comp    string   `json:"comp"`
	Setting string   `json:"setting"`
	Srcs    []Src    `json:"srcs"`
	Obs     []string `json:"obs"`
	Detail  string   `json:"detail"`
	Env     []string `json:"env"`
	Opt     string   `json:"opt"`
}

var (
	absent = Src{K: "absent"}
	unobs  = []string{"unobservable"}
)

func valid(v string) Src { return Src{K: "valid", V: v} }

// weighted choice: the first len(w)-1 weights are percentages, the rest is uniform over tail
func choose(r *rand.Rand, pAbsent, pValid int, validSrc func() Src, bad []Src) Src {
	x := r.Intn(100)
	switch {
	case x < pAbsent:
		return absent
	case x < pAbsent+pValid:
		return validSrc()
	}
	return bad[r.Intn(len(bad))]
}

// absentOrEmpty: an unset source is either not in the environment or set to the empty string
func absentOrEmpty(r *rand.Rand) Src {
	if r.Intn(3) == 0 {
		return Src{K: "empty"}
	}
	return absent
}

func numEnvSrc(r *rand.Rand, id string) Src {
	s := choose(r, 30, 30, func() Src {
		if r.Intn(4) == 0 {
			return Src{K: "vdef"} // valid and equal to the built-in default
		}
		return valid(id)
	}, []Src{{K: "nonnum"}, {K: "neg"}, {K: "zero"}, {K: "float"}, {K: "overflow"}, {K: "padded", V: id}})
	if s.K == "absent" {
		return absentOrEmpty(r)
	}
	return s
}

func numOptSrc(r *rand.Rand) Src {
	return choose(r, 45, 35, func() Src {
		if r.Intn(4) == 0 {
			return Src{K: "vdef"}
		}
		return valid("O")
	}, []Src{{K: "zero"}, {K: "neg"}})
}

var envPaths = []string{"", "/", "/s", "/s/", "/col/lect", "/x/y/z/", "/v1/traces", "/otlp-http"}

func urlEnvSrc(r *rand.Rand, http bool) Src {
	s := choose(r, 35, 40, func() Src {
		if r.Intn(8) == 0 {
			return Src{K: "defurl"} // the default endpoint, spelled out
		}
		if !http {
			return Src{K: "url", V: []string{"", "/"}[r.Intn(2)]}
		}
		return Src{K: "url", V: envPaths[r.Intn(len(envPaths))]}
	}, []Src{{K: "unparsable"}, {K: "noscheme"}, {K: "pathonly", V: "/p"}})
	if s.K == "absent" {
		return absentOrEmpty(r)
	}
	return s
}

func urlOptSrc(r *rand.Rand, http bool) Src {
	if !http {
		return choose(r, 40, 45, func() Src {
			return []Src{{K: "host"}, {K: "url", V: ""}, {K: "defhost"}}[r.Intn(3)]
		}, []Src{{K: "badurl"}})
	}
	return choose(r, 40, 45, func() Src {
		return []Src{{K: "host"}, {K: "path", V: "/o"}, {K: "path", V: "/o/"}, {K: "path", V: "/deep/er/o"}, {K: "hostpath", V: "/o"},
			{K: "url", V: ""}, {K: "url", V: "/"}, {K: "url", V: "/o"}, {K: "url", V: "/o/"}, {K: "defhost"}}[r.Intn(10)]
	}, []Src{{K: "badurl"}})
}

func hdrEnvSrc(r *rand.Rand, id string) Src {
	s := choose(r, 35, 35, func() Src { return valid(id) }, []Src{{K: "garbage"}, {K: "partial", V: id}, {K: "badkey"}})
	if s.K == "absent" {
		return absentOrEmpty(r)
	}
	return s
}

func cmpEnvSrc(r *rand.Rand) Src {
	s := choose(r, 35, 35, func() Src { return valid([]string{"gzip", "none"}[r.Intn(2)]) },
		[]Src{{K: "unknown"}, {K: "case", V: "gzip"}})
	if s.K == "absent" {
		return absentOrEmpty(r)
	}
	return s
}

// ---------------------------------------------------------------- exporter scenarios

func exporterScenario(r *rand.Rand, conc *Conc, res *vh.Result) (string, []caseObs) {
	comps := []string{"otlptracehttp", "otlptracegrpc", "otlpmetrichttp", "otlpmetricgrpc", "otlploghttp", "otlploggrpc"}
	comp := comps[r.Intn(len(comps))]
	http := isHTTP(comp)
	sc := expScenario{comp: comp}
	// every setting is exercised with probability 3/4
	if r.Intn(4) > 0 {
		sc.endpoint = []Src{urlOptSrc(r, http), urlEnvSrc(r, http), urlEnvSrc(r, http)}
	}
	if r.Intn(4) > 0 {
		o := choose(r, 50, 50, func() Src { return valid([]string{"mO", "none"}[r.Intn(2)]) }, nil)
		sc.headers = []Src{o, hdrEnvSrc(r, "mS"), hdrEnvSrc(r, "mG")}
	}
	if r.Intn(4) > 0 {
		bad := Src{K: "unknown"}
		if http {
			bad = Src{K: "badenum"}
		}
		o := choose(r, 50, 40, func() Src { return valid([]string{"gzip", "none"}[r.Intn(2)]) }, []Src{bad})
		sc.compr = []Src{o, cmpEnvSrc(r), cmpEnvSrc(r)}
	}
	if r.Intn(4) > 0 {
		sc.timeout = []Src{numOptSrc(r), numEnvSrc(r, "S"), numEnvSrc(r, "G")}
	}
	ob := runExporterScenario(sc, conc)
	var out []caseObs
	add := func(fam, setting string, srcs []Src, obs []string) {
		if srcs == nil {
			return
		}
		d := errText(ob.err)
		if ob.special != "" {
			d = ob.phase + ": " + d
		}
		if len(obs) == 1 && obs[0] == "HANG" {
			res.Inconcl(fmt.Sprintf("watchdog expired: %s %s env=%v opt=%s\n%s", comp, setting, ob.env, ob.opt, d))
			obs = unobs
		}
		if len(d) > 400 {
			d = d[:400]
		}
		out = append(out, caseObs{Fam: fam, Comp: comp, Setting: setting, Srcs: srcs, Obs: obs, Detail: d, Env: ob.env, Opt: ob.opt})
	}
	add("endpoint", "endpoint", sc.endpoint, ob.endpoint)
	add("scalar", "headers", sc.headers, ob.headers)
	add("scalar", "compression", sc.compr, ob.compr)
	add("scalar", "timeout", sc.timeout, ob.timeout)
	if ob.special == "PANIC" {
		res.Count("random.exporter.panic", 1)
	}
	if ob.n > 0 {
		res.Count("random.exporter.delivered", 1)
	} else {
		res.Count("random.exporter.not_delivered", 1)
	}
	res.Count(fmt.Sprintf("random.exporter.settings=%d", len(out)), 1)
	return comp, out
}

// ---------------------------------------------------------------- tracer provider scenarios

var spanLimitSettings = []string{"span.attr_count", "span.attr_len", "span.event_count", "span.link_count",
	"span.event_attr_count", "span.link_attr_count"}

type limPlan struct {
	setting string
	srcs    []Src
	env     [][2]string
	optV    int
	hasOpt  bool
}

func planLimits(r *rand.Rand, conc *Conc, settings []string, p int) []limPlan {
	var out []limPlan
	for _, st := range settings {
		if r.Intn(100) >= p {
			continue
		}
		names := sdkEnvNames[st]
		lp := limPlan{setting: st, srcs: []Src{numOptSrc(r)}}
		for i, n := range names {
			s := numEnvSrc(r, []string{"S", "G"}[i])
			lp.srcs = append(lp.srcs, s)
			if v, ok := conc.envNum(st, s); ok {
				lp.env = append(lp.env, [2]string{n, v})
			}
		}
		lp.optV, lp.hasOpt = conc.optNum(st, lp.srcs[0])
		out = append(out, lp)
	}
	return out
}

// samplerPlan: abstract sources and their concrete form
type samplerPlan struct {
	srcs []Src
	env  [][2]string
}

func planSampler(r *rand.Rand, conc *Conc) samplerPlan {
	names := []string{"always_on", "always_off", "traceidratio", "parentbased_always_on", "parentbased_always_off", "parentbased_traceidratio"}
	opt := choose(r, 60, 25, func() Src { return valid([]string{"traceidratio:R50", "parentbased_always_on"}[r.Intn(2)]) }, []Src{{K: "nil"}})
	name := choose(r, 20, 50, func() Src { return valid(names[r.Intn(len(names))]) },
		[]Src{{K: "unknown"}, {K: "empty"}, {K: "case", V: "always_off"}, {K: "case", V: "traceidratio"}})
	arg := choose(r, 35, 35, func() Src { return valid([]string{"R25", "R0", "R100"}[r.Intn(3)]) },
		[]Src{{K: "nonnum"}, {K: "neg"}, {K: "gt1"}, {K: "empty"}})
	sp := samplerPlan{srcs: []Src{opt, name, arg}}
	if v, ok := samplerNameEnv(name, conc); ok {
		sp.env = append(sp.env, [2]string{"OTEL_TRACES_SAMPLER", v})
	}
	if v, ok := samplerArgEnv(arg, conc); ok {
		sp.env = append(sp.env, [2]string{"OTEL_TRACES_SAMPLER_ARG", v})
	}
	return sp
}

// runTracer builds ONE TracerProvider from the sampler plan and the limit plans (restricted to
// `only` when non-empty), takes the sampling decisions for the probe ids and exports one span
// that offers more of everything than any configured limit.
func runTracer(sp *samplerPlan, lims []limPlan, conc *Conc, structKind string) (special, detail string, samplerObs []string, limObs map[string][]string, env []string, opt string) {
	clearEnv()
	defer clearEnv()
	setenv := func(kv [2]string) {
		os.Setenv(kv[0], kv[1])
		env = append(env, kv[0]+"="+kv[1])
	}
	if sp != nil {
		for _, kv := range sp.env {
			setenv(kv)
		}
	}
	for _, lp := range lims {
		for _, kv := range lp.env {
			setenv(kv)
		}
	}
	limObs = map[string][]string{}
	var vec string
	var exported []sdktrace.ReadOnlySpan
	err, special := guarded(watchdog, func() error {
		gen := &fixedIDs{}
		exp := &capSpans{}
		opts := []sdktrace.TracerProviderOption{sdktrace.WithSyncer(exp), sdktrace.WithIDGenerator(gen)}
		var optText []string
		if sp != nil {
			switch sp.srcs[0].K {
			case "valid":
				smp, text := samplerOption(sp.srcs[0].V)
				opts = append(opts, sdktrace.WithSampler(smp))
				optText = append(optText, text)
			case "nil":
				opts = append(opts, sdktrace.WithSampler(nil))
				optText = append(optText, "WithSampler(nil)")
			}
		} else {
			opts = append(opts, sdktrace.WithSampler(sdktrace.AlwaysSample()))
		}
		anyOpt := false
		for _, lp := range lims {
			anyOpt = anyOpt || lp.hasOpt
		}
		if structKind != "" {
			// literal struct: every field comes from the option, also the zero-valued ones
			var lim sdktrace.SpanLimits
			for _, lp := range lims {
				setSpanLimit(&lim, lp.setting, lp.optV)
				optText = append(optText, fmt.Sprintf("%s=%d", lp.setting, lp.optV))
			}
			if structKind == "raw" {
				opts = append(opts, sdktrace.WithRawSpanLimits(lim))
			} else {
				opts = append(opts, sdktrace.WithSpanLimits(lim))
			}
			optText = append(optText, "literal:"+structKind)
		} else if anyOpt {
			lim := sdktrace.NewSpanLimits()
			for _, lp := range lims {
				if !lp.hasOpt {
					continue
				}
				setSpanLimit(&lim, lp.setting, lp.optV)
				optText = append(optText, fmt.Sprintf("%s=%d", lp.setting, lp.optV))
			}
			opts = append(opts, sdktrace.WithRawSpanLimits(lim))
		}
		opt = strings.Join(optText, " ")
		tp := sdktrace.NewTracerProvider(opts...)
		tr := tp.Tracer("c20")
		if sp != nil {
			vec = probeSampler(tr, gen)
		}
		exp.spans = nil
		// the limits span: child of a sampled remote parent with the lowest probe id
		gen.tid = probeIDs[0].id
		ctx := trace.ContextWithRemoteSpanContext(context.Background(), trace.NewSpanContext(trace.SpanContextConfig{
			TraceID: probeIDs[0].id, SpanID: trace.SpanID{5}, TraceFlags: trace.FlagsSampled, Remote: true}))
		_, span := tr.Start(ctx, "limits")
		lsc := func(i int) trace.SpanContext {
			return trace.NewSpanContext(trace.SpanContextConfig{TraceID: trace.TraceID{9, byte(i)}, SpanID: trace.SpanID{9, byte(i)}})
		}
		attrs := append([]attribute.KeyValue{attribute.String("long", strings.Repeat("x", offered))}, manyAttrs(offered-1)...)
		span.SetAttributes(attrs...)
		// events and links: the newest are kept, so the carriers of the per-event / per-link
		// attribute observation come last; attributes: the first are kept, "long" comes first
		for i := 1; i < offered; i++ {
			span.AddEvent(fmt.Sprintf("e%d", i))
		}
		span.AddEvent("e-attrs", trace.WithAttributes(manyAttrs(offered)...))
		for i := 1; i < offered; i++ {
			span.AddLink(trace.Link{SpanContext: lsc(i)})
		}
		span.AddLink(trace.Link{SpanContext: lsc(0), Attributes: manyAttrs(offered)})
		span.End()
		exported = append(exported, exp.spans...)
		return tp.Shutdown(context.Background())
	})
	if special != "" {
		return special, errText(err), nil, nil, env, opt
	}
	if sp != nil {
		for _, id := range samplerIDs {
			if samplerVector(id) == vec {
				samplerObs = append(samplerObs, id)
			}
		}
		if len(samplerObs) == 0 {
			samplerObs = []string{"?" + vec}
		}
		detail = "decisions=" + vec
	}
	for _, lp := range lims {
		if len(exported) != 1 {
			limObs[lp.setting] = unobs // the configured sampler dropped the span
			continue
		}
		ro := exported[0]
		n := -1
		switch lp.setting {
		case "span.attr_count":
			n = len(ro.Attributes())
		case "span.attr_len":
			for _, a := range ro.Attributes() {
				if a.Key == "long" {
					n = len(a.Value.AsString())
				}
			}
		case "span.event_count":
			n = len(ro.Events())
		case "span.link_count":
			n = len(ro.Links())
		case "span.event_attr_count":
			for _, e := range ro.Events() {
				if e.Name == "e-attrs" {
					n = len(e.Attributes)
				}
			}
		case "span.link_attr_count":
			for _, l := range ro.Links() {
				if l.SpanContext.TraceID() == (trace.TraceID{9, 0}) {
					n = len(l.Attributes)
				}
			}
		}
		if n < 0 {
			limObs[lp.setting] = unobs // the carrier (attribute / first event / first link) was dropped by another limit
		} else {
			limObs[lp.setting] = conc.absCount(lp.setting, n, offered)
		}
		detail += fmt.Sprintf(" %s:kept=%d", lp.setting, n)
	}
	return "", detail, samplerObs, limObs, env, opt
}

func setSpanLimit(lim *sdktrace.SpanLimits, setting string, v int) {
	switch setting {
	case "span.attr_count":
		lim.AttributeCountLimit = v
	case "span.attr_len":
		lim.AttributeValueLengthLimit = v
	case "span.event_count":
		lim.EventCountLimit = v
	case "span.link_count":
		lim.LinkCountLimit = v
	case "span.event_attr_count":
		lim.AttributePerEventCountLimit = v
	case "span.link_attr_count":
		lim.AttributePerLinkCountLimit = v
	}
}

// planStruct: a literal SpanLimits struct with a random class per field, every field's variables random.
func planStruct(r *rand.Rand, conc *Conc, kind string) []limPlan {
	var out []limPlan
	for _, st := range spanLimitSettings {
		class := []string{"zero", "neg", "valid"}[r.Intn(3)]
		var o Src
		switch {
		case class == "valid":
			o = valid("O")
		case kind == "nonraw":
			o = Src{K: "nr" + class}
		case class == "neg":
			o = Src{K: "rawneg"}
		default:
			o = Src{K: "zero"}
		}
		lp := limPlan{setting: st, srcs: []Src{o}, hasOpt: true, optV: fieldValue(st, class, conc)}
		for i, n := range sdkEnvNames[st] {
			s := numEnvSrc(r, []string{"S", "G"}[i])
			lp.srcs = append(lp.srcs, s)
			if v, ok := conc.envNum(st, s); ok {
				lp.env = append(lp.env, [2]string{n, v})
			}
		}
		out = append(out, lp)
	}
	return out
}

func tracerScenario(r *rand.Rand, conc *Conc, res *vh.Result) []caseObs {
	sp := planSampler(r, conc)
	structKind := ""
	var lims []limPlan
	switch x := r.Intn(100); {
	case x < 25:
		structKind = "raw"
		lims = planStruct(r, conc, structKind)
	case x < 40:
		structKind = "nonraw"
		lims = planStruct(r, conc, structKind)
	default:
		lims = planLimits(r, conc, spanLimitSettings, 60)
	}
	if structKind != "" {
		res.Count("random.tracer.struct."+structKind, 1)
	}
	special, detail, sObs, lObs, env, opt := runTracer(&sp, lims, conc, structKind)
	var out []caseObs
	if special == "HANG" {
		res.Inconcl("watchdog expired: tracer scenario env=" + strings.Join(env, " ") + "\n" + detail)
		return nil
	}
	if special == "PANIC" && structKind != "" {
		out = append(out, caseObs{Fam: "sampler", Comp: "sdk", Setting: "sampler", Srcs: sp.srcs, Obs: []string{special}, Detail: detail, Env: env, Opt: opt})
		for _, lp := range lims {
			out = append(out, caseObs{Fam: "scalar", Comp: "sdk", Setting: lp.setting, Srcs: lp.srcs, Obs: []string{special}, Detail: detail, Env: env, Opt: opt})
		}
		return out
	}
	if special == "PANIC" {
		// attribute the panic: every setting alone, same concrete values
		res.Count("random.tracer.panic", 1)
		s1, d1, so, _, e1, o1 := runTracer(&sp, nil, conc, "")
		if s1 != "" {
			so = []string{s1}
		}
		out = append(out, caseObs{Fam: "sampler", Comp: "sdk", Setting: "sampler", Srcs: sp.srcs, Obs: so, Detail: d1, Env: e1, Opt: o1})
		for _, lp := range lims {
			s2, d2, _, lo, e2, o2 := runTracer(nil, []limPlan{lp}, conc, "")
			obs := lo[lp.setting]
			if s2 != "" {
				obs = []string{s2}
			}
			out = append(out, caseObs{Fam: "scalar", Comp: "sdk", Setting: lp.setting, Srcs: lp.srcs, Obs: obs, Detail: d2, Env: e2, Opt: o2})
		}
		return out
	}
	out = append(out, caseObs{Fam: "sampler", Comp: "sdk", Setting: "sampler", Srcs: sp.srcs, Obs: sObs, Detail: detail, Env: env, Opt: opt})
	for _, lp := range lims {
		out = append(out, caseObs{Fam: "scalar", Comp: "sdk", Setting: lp.setting, Srcs: lp.srcs, Obs: lObs[lp.setting], Detail: detail, Env: env, Opt: opt})
		if len(lObs[lp.setting]) == 1 && lObs[lp.setting][0] == "unobservable" {
			res.Count("random.tracer.limit_unobservable", 1)
		} else {
			res.Count("random.tracer.limit_observed", 1)
		}
	}
	return out
}

// ---------------------------------------------------------------- logger provider scenarios

func loggerScenario(r *rand.Rand, conc *Conc, res *vh.Result) []caseObs {
	lims := planLimits(r, conc, []string{"logrecord.attr_count", "logrecord.attr_len"}, 80)
	if len(lims) == 0 {
		lims = planLimits(r, conc, []string{"logrecord.attr_count"}, 100)
	}
	clearEnv()
	defer clearEnv()
	var env []string
	var optText []string
	for _, lp := range lims {
		for _, kv := range lp.env {
			os.Setenv(kv[0], kv[1])
			env = append(env, kv[0]+"="+kv[1])
		}
	}
	proc := &capProc{vlen: -1}
	err, special := guarded(watchdog, func() error {
		opts := []sdklog.LoggerProviderOption{sdklog.WithProcessor(proc)}
		for _, lp := range lims {
			if !lp.hasOpt {
				continue
			}
			if lp.setting == "logrecord.attr_count" {
				opts = append(opts, sdklog.WithAttributeCountLimit(lp.optV))
			} else {
				opts = append(opts, sdklog.WithAttributeValueLengthLimit(lp.optV))
			}
			optText = append(optText, fmt.Sprintf("%s=%d", lp.setting, lp.optV))
		}
		lp := sdklog.NewLoggerProvider(opts...)
		var rec otellog.Record
		rec.SetBody(otellog.StringValue("b"))
		kvs := []otellog.KeyValue{otellog.String("long", strings.Repeat("x", offered))}
		for i := 0; i < offered-1; i++ {
			kvs = append(kvs, otellog.Int(fmt.Sprintf("k%03d", i), i))
		}
		rec.AddAttributes(kvs...)
		lp.Logger("c20").Emit(context.Background(), rec)
		return lp.Shutdown(context.Background())
	})
	var out []caseObs
	for _, lp := range lims {
		var obs []string
		detail := ""
		switch {
		case special == "HANG":
			res.Inconcl("watchdog expired: logger scenario " + errText(err))
			obs = unobs
		case special != "":
			obs, detail = []string{special}, errText(err)
		case !proc.seen:
			obs = []string{"?no-record"}
		case lp.setting == "logrecord.attr_count":
			obs, detail = conc.absCount(lp.setting, proc.nattrs, offered), fmt.Sprintf("kept=%d of %d", proc.nattrs, offered)
		case proc.vlen < 0:
			obs = unobs
		default:
			obs, detail = conc.absCount(lp.setting, proc.vlen, offered), fmt.Sprintf("len=%d of %d", proc.vlen, offered)
		}
		out = append(out, caseObs{Fam: "scalar", Comp: "sdk", Setting: lp.setting, Srcs: lp.srcs, Obs: obs, Detail: detail, Env: env, Opt: strings.Join(optText, " ")})
	}
	return out
}

// ---------------------------------------------------------------- batch processor scenarios

// All four variables of the processor are set at once (random kinds, possibly ill-formed); one
// randomly chosen setting is observed, the others are pinned by explicit valid options so the
// experiment measures that setting alone: the ill-formed variables of the other settings must
// not interfere with it.
func batchScenario(r *rand.Rand, conc *Conc, res *vh.Result, prefix string) []caseObs {
	settings := []string{prefix + ".queue", prefix + ".batch", prefix + ".timeout", prefix + ".delay"}
	observed := settings[r.Intn(3)] // queue / batch / timeout (cheap) ...
	if r.Intn(6) == 0 {
		observed = settings[3] // ... delay costs up to 1.6 s
	}
	clearEnv()
	defer clearEnv()
	var env []string
	var srcs []Src
	for _, st := range settings {
		var s Src
		if st == observed {
			s = numEnvSrc(r, "S")
			srcs = []Src{numOptSrc(r), s}
		} else {
			s = numEnvSrc(r, "S")
			// The statement is silent about the documented coupling "batch size <= queue size"
			// (both processors clamp the batch size by a queue size taken from the environment):
			// while the batch size is observed the queue-size variable is absent or a value every
			// implementation has to ignore.
			for strings.HasSuffix(observed, ".batch") && strings.HasSuffix(st, ".queue") &&
				(s.K == "valid" || s.K == "padded" || s.K == "neg" || s.K == "zero") {
				s = numEnvSrc(r, "S")
			}
		}
		if v, ok := conc.envNum(st, s); ok {
			os.Setenv(sdkEnvNames[st][0], v)
			env = append(env, sdkEnvNames[st][0]+"="+v)
		}
	}
	optV, hasOpt := conc.optNum(observed, srcs[0])
	opt := ""
	if hasOpt {
		opt = fmt.Sprintf("option(%d)", optV)
	}
	obs, detail := observeSDK(observed, optV, hasOpt, conc, true)
	if len(obs) == 1 && (obs[0] == "HANG" || strings.HasPrefix(obs[0], inconcl)) {
		res.Inconcl(fmt.Sprintf("%s: %s env=%v %s", observed, obs[0], env, detail))
		obs = unobs
	}
	if len(detail) > 400 {
		detail = detail[:400]
	}
	res.Count("random."+observed, 1)
	return []caseObs{{Fam: "scalar", Comp: "sdk", Setting: observed, Srcs: srcs, Obs: obs, Detail: detail, Env: env, Opt: opt}}
}

// ---------------------------------------------------------------- driver

func randomScenario(r *rand.Rand, conc *Conc, res *vh.Result) []map[string]any {
	var kind, comp string
	var cases []caseObs
	t0 := time.Now()
	switch x := r.Intn(100); {
	case x < 8:
		proc, ev := crossScenario(r, conc, res)
		res.Count("random.kind.cross", 1)
		res.Count("random.cross."+proc, 1)
		res.Evaluations++
		ev["ms"] = time.Since(t0).Milliseconds()
		return []map[string]any{ev}
	case x < 50:
		kind = "exporter"
		comp, cases = exporterScenario(r, conc, res)
	case x < 70:
		kind, comp = "tracer", "sdk"
		cases = tracerScenario(r, conc, res)
	case x < 80:
		kind, comp = "logger", "sdk"
		cases = loggerScenario(r, conc, res)
	case x < 90:
		kind, comp = "bsp", "sdk"
		cases = batchScenario(r, conc, res, "bsp")
	default:
		kind, comp = "blrp", "sdk"
		cases = batchScenario(r, conc, res, "blrp")
	}
	res.Count("random.kind."+kind, 1)
	for _, c := range cases {
		res.Evaluations++
		for _, s := range c.Srcs {
			if s.K != "absent" && s.K != "valid" {
				res.Count("random.illformed_sources", 1)
				break
			}
		}
		if len(c.Obs) == 1 && c.Obs[0] == "unobservable" {
			res.Count("random.unobservable", 1)
		}
		if len(c.Obs) == 1 && c.Obs[0] == "PANIC" {
			res.Count("random.panic_observations", 1)
		}
	}
	if cases == nil {
		cases = []caseObs{}
	}
	return []map[string]any{{"ev": "Cfg", "kind": kind, "comp": comp, "cases": cases, "ms": time.Since(t0).Milliseconds()}}
}
