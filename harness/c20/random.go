package main

import (
	"math/rand"

	"go.opentelemetry.io/otel/sdk/verifh/vh"
)

func randomScenario(r *rand.Rand, conc *Conc, res *vh.Result) []map[string]any {
	return nil
}
