package main

// Value class HUGE (ConfigPrecedence.tla, kind "huge"): syntactically valid integers that no unit
// conversion can represent.  Durations are written in milliseconds; every representative below
// is a legal int64 whose conversion to nanoseconds does not fit 64 bits.  The payload v of the
// source names what a WRAPPING multiplication would make of the representative (the model gives
// all of them one meaning; the tables are split so that a report names the representative class):
//
//	neg   wraps to a negative duration   (9223372036855 = MaxInt64/10^6 + 1, MaxInt64 -> -1 ms, ...)
//	zero  wraps to exactly zero          (2^62, 2^58, 3*2^58)
//	pos   wraps to a short positive one  (2^64/10^6 + 1 -> 0.448 ms, ... -> 2.4 ms)
//	max   (options) the largest duration a time.Duration can hold when written in milliseconds
//
// Sizes: a batch size near MaxInt (queue sizes are not exercised: honouring one means allocating it).

import (
	"math"
	"strings"
)

var repHugeMs = map[string][]string{
	"neg":  {"9223372036855", "9223372036854775807", "13835058055283", "9223372036854775806", "27670116110565"},
	"zero": {"4611686018427387904", "288230376151711744", "864691128455135232"},
	"pos":  {"18446744073710", "36893488147420", "18446744073712", "18446744073709552"},
}

var repHugeCount = []string{"9223372036854775807", "4611686018427387904", "9223372036854775806", "6917529027641081856"}

// maxMs: the largest number of milliseconds whose conversion to time.Duration does not overflow
// (about 292 years).
const maxMs = math.MaxInt64 / 1000000

// year in milliseconds: a deadline further away than this is "far" (centuries, not a configured value)
const yearMs = int64(365 * 24 * 3600 * 1000)

func (c *Conc) hugeEnv(setting string, s Src) string {
	if unitOf(setting) == "count" {
		return c.pick(repHugeCount)
	}
	reps, ok := repHugeMs[s.V]
	if !ok {
		panic("hugeEnv: class " + s.V)
	}
	return c.pick(reps)
}

func (c *Conc) hugeOpt(setting string) int {
	if unitOf(setting) == "count" {
		return c.pickInt([]int{math.MaxInt64, 1 << 62, math.MaxInt64 - 1})
	}
	return c.pickInt([]int{maxMs, maxMs - 1, maxMs / 2})
}

// deadlineExpired: the export failed because its own deadline ran out before anything reached a
// collector: the configured timeout was shorter than a loopback round trip.
func deadlineExpired(err error) bool {
	if err == nil {
		return false
	}
	s := err.Error()
	return strings.Contains(s, "deadline exceeded") || strings.Contains(s, "DeadlineExceeded") || strings.Contains(s, "Client.Timeout")
}

// offeredBatch: how many items the batch-size experiments offer; a largest export of that many
// means "no bound below everything offered" (outcome "all").
const offeredBatch = 1300

func withAll(obs []string, n int) []string {
	if n == offeredBatch {
		if len(obs) == 1 && strings.HasPrefix(obs[0], "?") {
			return []string{"all"}
		}
		return append(obs, "all")
	}
	return obs
}
