package main

// Trace and log SDK components: batch span processor (OTEL_BSP_*), log batch processor
// (OTEL_BLRP_*), span limits, log record limits, sampler.  Behavioural observation only:
// batch lengths / overflow seen by a recording exporter, the deadline of the context handed to
// the exporter, time of the first timer-driven export, exported spans / records, sampling
// decisions for fixed trace ids.

import (
	"context"
	"fmt"
	"os"
	"strings"
	"sync"
	"time"

	"go.opentelemetry.io/otel/attribute"
	otellog "go.opentelemetry.io/otel/log"
	sdklog "go.opentelemetry.io/otel/sdk/log"
	sdktrace "go.opentelemetry.io/otel/sdk/trace"
	"go.opentelemetry.io/otel/sdk/trace/tracetest"
	"go.opentelemetry.io/otel/trace"
)

var sdkEnvNames = map[string][]string{
	"bsp.queue":             {"OTEL_BSP_MAX_QUEUE_SIZE"},
	"bsp.batch":             {"OTEL_BSP_MAX_EXPORT_BATCH_SIZE"},
	"bsp.timeout":           {"OTEL_BSP_EXPORT_TIMEOUT"},
	"bsp.delay":             {"OTEL_BSP_SCHEDULE_DELAY"},
	"blrp.queue":            {"OTEL_BLRP_MAX_QUEUE_SIZE"},
	"blrp.batch":            {"OTEL_BLRP_MAX_EXPORT_BATCH_SIZE"},
	"blrp.timeout":          {"OTEL_BLRP_EXPORT_TIMEOUT"},
	"blrp.delay":            {"OTEL_BLRP_SCHEDULE_DELAY"},
	"span.attr_count":       {"OTEL_SPAN_ATTRIBUTE_COUNT_LIMIT", "OTEL_ATTRIBUTE_COUNT_LIMIT"},
	"span.attr_len":         {"OTEL_SPAN_ATTRIBUTE_VALUE_LENGTH_LIMIT", "OTEL_ATTRIBUTE_VALUE_LENGTH_LIMIT"},
	"span.event_count":      {"OTEL_SPAN_EVENT_COUNT_LIMIT"},
	"span.link_count":       {"OTEL_SPAN_LINK_COUNT_LIMIT"},
	"span.event_attr_count": {"OTEL_EVENT_ATTRIBUTE_COUNT_LIMIT"},
	"span.link_attr_count":  {"OTEL_LINK_ATTRIBUTE_COUNT_LIMIT"},
	"logrecord.attr_count":  {"OTEL_LOGRECORD_ATTRIBUTE_COUNT_LIMIT", "OTEL_ATTRIBUTE_COUNT_LIMIT"},
	"logrecord.attr_len":    {"OTEL_LOGRECORD_ATTRIBUTE_VALUE_LENGTH_LIMIT", "OTEL_ATTRIBUTE_VALUE_LENGTH_LIMIT"},
}

// inconclusive observations start with this prefix: the experiment itself did not work
// (a bound expired); they are reported to the driver as inconclusive, never as a mismatch.
const inconcl = "INCONCLUSIVE:"

func runSDKCase(c Case, conc *Conc) Outcome {
	if c.Ctx.Kind != "" && c.Ctx.Kind != "none" {
		return runStructCase(c, conc)
	}
	var out Outcome
	names := sdkEnvNames[c.Setting]
	for i, s := range c.Srcs[1:] {
		if v, ok := conc.envNum(c.Setting, s); ok {
			os.Setenv(names[i], v)
			out.Env = append(out.Env, names[i]+"="+v)
		}
	}
	optV, hasOpt := conc.optNum(c.Setting, c.Srcs[0])
	if hasOpt {
		out.Opt = fmt.Sprintf("option(%d)", optV)
	}
	out.Obs, out.Detail = observeSDK(c.Setting, optV, hasOpt, conc, false)
	return out
}

// observeSDK runs the experiment that makes one SDK setting observable, under a watchdog.
// pin: give every OTHER setting of the same component an explicit, valid option so that only
// the setting under observation depends on the environment (used by multi-setting scenarios).
func observeSDK(setting string, optV int, hasOpt bool, conc *Conc, pin bool) (obs []string, detail string) {
	err, special := guarded(2*watchdog, func() error {
		switch {
		case strings.HasPrefix(setting, "bsp."):
			obs, detail = observeBSP(setting, optV, hasOpt, conc, pin)
		case strings.HasPrefix(setting, "blrp."):
			obs, detail = observeBLRP(setting, optV, hasOpt, conc, pin)
		case strings.HasPrefix(setting, "span."):
			obs, detail = observeSpanLimit(setting, optV, hasOpt, conc)
		case strings.HasPrefix(setting, "logrecord."):
			obs, detail = observeLogLimit(setting, optV, hasOpt, conc)
		}
		return nil
	})
	if special != "" {
		return []string{special}, errText(err)
	}
	return obs, detail
}

// ---------------------------------------------------------------- span / record factories

func sampledSpan(i int) sdktrace.ReadOnlySpan {
	return tracetest.SpanStub{
		Name: fmt.Sprintf("s%d", i),
		SpanContext: trace.NewSpanContext(trace.SpanContextConfig{
			TraceID: trace.TraceID{1, byte(i >> 8), byte(i)}, SpanID: trace.SpanID{2, byte(i >> 8), byte(i)},
			TraceFlags: trace.FlagsSampled}),
	}.Snapshot()
}

// ---------------------------------------------------------------- BSP

type spanRec struct {
	mu       sync.Mutex
	batches  []int
	total    int
	hasDL    bool
	remMs    int64
	first    time.Time
	entered  chan struct{} // closed on first export
	release  chan struct{} // first export blocks until closed (nil: never blocks)
	enterOne sync.Once
}

func (e *spanRec) ExportSpans(ctx context.Context, s []sdktrace.ReadOnlySpan) error {
	e.mu.Lock()
	e.batches = append(e.batches, len(s))
	e.total += len(s)
	if e.first.IsZero() {
		e.first = time.Now()
		if dl, ok := ctx.Deadline(); ok {
			e.hasDL, e.remMs = true, time.Until(dl).Milliseconds()
		}
	}
	e.mu.Unlock()
	first := false
	e.enterOne.Do(func() { first = true; close(e.entered) })
	if first && e.release != nil {
		<-e.release
	}
	return nil
}
func (e *spanRec) Shutdown(context.Context) error { return nil }

func maxInt(xs []int) int {
	m := 0
	for _, x := range xs {
		if x > m {
			m = x
		}
	}
	return m
}

func observeBSP(setting string, optV int, hasOpt bool, conc *Conc, pin bool) ([]string, string) {
	rec := &spanRec{entered: make(chan struct{})}
	var opts []sdktrace.BatchSpanProcessorOption
	hour := sdktrace.WithBatchTimeout(time.Hour)
	ctx := context.Background()
	if pin {
		// explicit valid values for the settings that are not under observation
		if setting != "bsp.queue" {
			opts = append(opts, sdktrace.WithMaxQueueSize(4096))
		}
		if setting != "bsp.batch" {
			opts = append(opts, sdktrace.WithMaxExportBatchSize(256))
		}
		if setting != "bsp.timeout" {
			opts = append(opts, sdktrace.WithExportTimeout(time.Minute))
		}
	}
	switch setting {
	case "bsp.queue":
		rec.release = make(chan struct{})
		opts = append(opts, hour, sdktrace.WithMaxExportBatchSize(1))
		if hasOpt {
			opts = append(opts, sdktrace.WithMaxQueueSize(optV))
		}
		p := sdktrace.NewBatchSpanProcessor(rec, opts...)
		// phase 1: get the worker blocked inside the exporter holding exactly one span (batch
		// size 1).  With a queue of capacity 0 a span is only accepted while the worker waits.
		n := 0
		entered := false
		for try := 0; try < 3000 && !entered; try++ {
			p.OnEnd(sampledSpan(n))
			n++
			wait := 10 * time.Millisecond
			if try == 0 {
				wait = 500 * time.Millisecond
			}
			select {
			case <-rec.entered:
				entered = true
			case <-time.After(wait):
			}
		}
		if !entered {
			close(rec.release)
			p.Shutdown(ctx)
			return []string{inconcl + "never-exported"}, "worker never reached the exporter"
		}
		// phase 2: overflow the queue while the worker is blocked
		for i := 0; i < 2300; i++ {
			p.OnEnd(sampledSpan(n))
			n++
		}
		close(rec.release)
		p.Shutdown(ctx)
		capn := rec.total - 1
		return conc.absCount(setting, capn, 0), fmt.Sprintf("ended=%d delivered=%d capacity=%d", n, rec.total, capn)
	case "bsp.batch":
		opts = append(opts, hour)
		if hasOpt {
			opts = append(opts, sdktrace.WithMaxExportBatchSize(optV))
		}
		p := sdktrace.NewBatchSpanProcessor(rec, opts...)
		for i := 0; i < 1300; i++ {
			p.OnEnd(sampledSpan(i))
		}
		p.Shutdown(ctx)
		m := maxInt(rec.batches)
		return withAll(conc.absCount(setting, m, 0), m), fmt.Sprintf("batches=%d max=%d total=%d", len(rec.batches), m, rec.total)
	case "bsp.timeout":
		opts = append(opts, hour)
		if hasOpt {
			opts = append(opts, sdktrace.WithExportTimeout(time.Duration(optV)*time.Millisecond))
		}
		p := sdktrace.NewBatchSpanProcessor(rec, opts...)
		p.OnEnd(sampledSpan(0))
		p.ForceFlush(ctx)
		p.Shutdown(ctx)
		if rec.total == 0 {
			return []string{inconcl + "never-exported"}, ""
		}
		return conc.absDeadline(setting, rec.hasDL, rec.remMs), fmt.Sprintf("deadline=%v rem=%dms", rec.hasDL, rec.remMs)
	case "bsp.delay":
		if hasOpt {
			opts = append(opts, sdktrace.WithBatchTimeout(time.Duration(optV)*time.Millisecond))
		}
		t0 := time.Now()
		p := sdktrace.NewBatchSpanProcessor(rec, opts...)
		p.OnEnd(sampledSpan(0))
		obs, detail := classifyDelay(setting, t0, rec.entered, func() time.Time { rec.mu.Lock(); defer rec.mu.Unlock(); return rec.first }, conc, pin)
		p.Shutdown(ctx)
		return obs, detail
	}
	return []string{"?"}, ""
}

// classifyDelay waits for the first timer-driven export and classifies the elapsed time since
// construction.  A timer of d cannot fire before d, so "the delay is at most the elapsed time"
// is always sound; "the delay is more than X" is only as good as the scheduler.
//   - point mode (edge replay): the class whose interval contains the elapsed time; the caller
//     re-runs a case whose class is not admissible (a genuine disagreement reproduces every
//     time, a scheduling hiccup does not)
//   - sound mode (random scenarios, no re-run): every class whose delay is at most the elapsed
//     time (a slow machine can only widen the set, never produce a false mismatch)
func classifyDelay(setting string, t0 time.Time, entered <-chan struct{}, first func() time.Time, conc *Conc, sound bool) ([]string, string) {
	o := time.Duration(conc.numVal(setting, "O")) * time.Millisecond
	s := time.Duration(conc.numVal(setting, "S")) * time.Millisecond
	d := time.Duration(defaultNum(setting)) * time.Millisecond
	capT := 1500 * time.Millisecond
	if d < capT {
		capT = d + 600*time.Millisecond
	}
	// canary: a goroutine that sleeps 10 ms at a time measures how late this process is woken up
	// while the experiment runs; the point classification is only trusted on a quiet scheduler
	stop := make(chan struct{})
	noise := make(chan time.Duration, 1)
	go func() {
		var worst time.Duration
		for {
			select {
			case <-stop:
				noise <- worst
				return
			default:
			}
			t := time.Now()
			time.Sleep(10 * time.Millisecond)
			if over := time.Since(t) - 10*time.Millisecond; over > worst {
				worst = over
			}
		}
	}()
	wait := time.NewTimer(capT - time.Since(t0))
	defer wait.Stop()
	timedOut := false
	select {
	case <-entered:
	case <-wait.C:
		timedOut = true
	}
	close(stop)
	worst := <-noise
	if !sound && worst > 120*time.Millisecond {
		return []string{inconcl + "noisy-scheduler"}, fmt.Sprintf("wake-ups up to %s late during the experiment", worst)
	}
	if timedOut {
		// "late": no timer-driven export in observable time (admissible only for a delay of the value class HUGE)
		if d >= capT || sound {
			return []string{"D", "late"}, fmt.Sprintf("no export within %s", capT)
		}
		return []string{"late"}, fmt.Sprintf("no export within %s", capT)
	}
	el := first().Sub(t0)
	detail := fmt.Sprintf("first export after %s (scheduler noise %s)", el, worst)
	if sound {
		out := []string{"fast"}
		if el >= o {
			out = append(out, "O")
		}
		if el >= s {
			out = append(out, "S")
		}
		if el >= d {
			out = append(out, "D")
		}
		return out, detail
	}
	switch {
	case el < o:
		return []string{"fast"}, detail
	case el < s:
		return []string{"O"}, detail
	case el < d:
		return []string{"S"}, detail
	default:
		return []string{"D"}, detail
	}
}

// ---------------------------------------------------------------- BLRP

type logRec struct {
	mu       sync.Mutex
	batches  []int
	seqs     []int64
	hasDL    bool
	remMs    int64
	first    time.Time
	entered  chan struct{}
	release  chan struct{}
	enterOne sync.Once
}

func (e *logRec) Export(ctx context.Context, rs []sdklog.Record) error {
	e.mu.Lock()
	e.batches = append(e.batches, len(rs))
	for i := range rs {
		e.seqs = append(e.seqs, rs[i].Body().AsInt64())
	}
	if e.first.IsZero() {
		e.first = time.Now()
		if dl, ok := ctx.Deadline(); ok {
			e.hasDL, e.remMs = true, time.Until(dl).Milliseconds()
		}
	}
	e.mu.Unlock()
	first := false
	e.enterOne.Do(func() { first = true; close(e.entered) })
	if first && e.release != nil {
		<-e.release
	}
	return nil
}
func (e *logRec) Shutdown(context.Context) error   { return nil }
func (e *logRec) ForceFlush(context.Context) error { return nil }

func logRecord(seq int64) *sdklog.Record {
	var r sdklog.Record
	r.SetBody(otellog.Int64Value(seq))
	return &r
}

func observeBLRP(setting string, optV int, hasOpt bool, conc *Conc, pin bool) ([]string, string) {
	rec := &logRec{entered: make(chan struct{})}
	var opts []sdklog.BatchProcessorOption
	hour := sdklog.WithExportInterval(time.Hour)
	ctx := context.Background()
	if pin {
		if setting != "blrp.queue" {
			opts = append(opts, sdklog.WithMaxQueueSize(4096))
		}
		if setting != "blrp.batch" {
			opts = append(opts, sdklog.WithExportMaxBatchSize(256))
		}
		if setting != "blrp.timeout" {
			opts = append(opts, sdklog.WithExportTimeout(time.Minute))
		}
	}
	switch setting {
	case "blrp.queue":
		// Batch size 1: every record triggers an export.  The first export blocks inside the
		// exporter; at most one more single-record batch waits in the export buffer; everything
		// else stays in the ring, which keeps the newest `capacity` records.  After the release
		// the length of the newest contiguous run of delivered records is the ring capacity.
		rec.release = make(chan struct{})
		opts = append(opts, hour, sdklog.WithExportMaxBatchSize(1))
		if hasOpt {
			opts = append(opts, sdklog.WithMaxQueueSize(optV))
		}
		p := sdklog.NewBatchProcessor(rec, opts...)
		var seq int64
		p.OnEmit(ctx, logRecord(seq))
		seq++
		select {
		case <-rec.entered:
		case <-time.After(20 * time.Second):
			close(rec.release)
			p.Shutdown(ctx)
			return []string{inconcl + "never-exported"}, ""
		}
		for i := 0; i < 4600; i++ {
			p.OnEmit(ctx, logRecord(seq))
			seq++
		}
		close(rec.release)
		p.Shutdown(ctx)
		have := map[int64]bool{}
		for _, s := range rec.seqs {
			have[s] = true
		}
		run := 0
		for s := seq - 1; s >= 0 && have[s]; s-- {
			run++
		}
		return conc.absCount(setting, run, 0), fmt.Sprintf("emitted=%d delivered=%d newest-run=%d", seq, len(rec.seqs), run)
	case "blrp.batch":
		opts = append(opts, hour)
		if hasOpt {
			opts = append(opts, sdklog.WithExportMaxBatchSize(optV))
		}
		p := sdklog.NewBatchProcessor(rec, opts...)
		for i := 0; i < 1300; i++ {
			p.OnEmit(ctx, logRecord(int64(i)))
		}
		p.Shutdown(ctx)
		m := maxInt(rec.batches)
		return withAll(conc.absCount(setting, m, 0), m), fmt.Sprintf("batches=%d max=%d total=%d", len(rec.batches), m, len(rec.seqs))
	case "blrp.timeout":
		opts = append(opts, hour)
		if hasOpt {
			opts = append(opts, sdklog.WithExportTimeout(time.Duration(optV)*time.Millisecond))
		}
		p := sdklog.NewBatchProcessor(rec, opts...)
		p.OnEmit(ctx, logRecord(0))
		p.ForceFlush(ctx)
		p.Shutdown(ctx)
		if len(rec.seqs) == 0 {
			return []string{inconcl + "never-exported"}, ""
		}
		return conc.absDeadline(setting, rec.hasDL, rec.remMs), fmt.Sprintf("deadline=%v rem=%dms", rec.hasDL, rec.remMs)
	case "blrp.delay":
		if hasOpt {
			opts = append(opts, sdklog.WithExportInterval(time.Duration(optV)*time.Millisecond))
		}
		t0 := time.Now()
		p := sdklog.NewBatchProcessor(rec, opts...)
		p.OnEmit(ctx, logRecord(0))
		obs, detail := classifyDelay(setting, t0, rec.entered, func() time.Time { rec.mu.Lock(); defer rec.mu.Unlock(); return rec.first }, conc, pin)
		p.Shutdown(ctx)
		return obs, detail
	}
	return []string{"?"}, ""
}

// ---------------------------------------------------------------- span limits

type capSpans struct{ spans []sdktrace.ReadOnlySpan }

func (e *capSpans) ExportSpans(_ context.Context, s []sdktrace.ReadOnlySpan) error {
	e.spans = append(e.spans, s...)
	return nil
}
func (e *capSpans) Shutdown(context.Context) error { return nil }

const offered = 140

func manyAttrs(n int) []attribute.KeyValue {
	out := make([]attribute.KeyValue, n)
	for i := range out {
		out[i] = attribute.Int(fmt.Sprintf("k%03d", i), i)
	}
	return out
}

func observeSpanLimit(setting string, optV int, hasOpt bool, conc *Conc) ([]string, string) {
	var opts []sdktrace.TracerProviderOption
	if hasOpt {
		// documented way: start from NewSpanLimits() (environment / defaults) and update the field
		lim := sdktrace.NewSpanLimits()
		switch setting {
		case "span.attr_count":
			lim.AttributeCountLimit = optV
		case "span.attr_len":
			lim.AttributeValueLengthLimit = optV
		case "span.event_count":
			lim.EventCountLimit = optV
		case "span.link_count":
			lim.LinkCountLimit = optV
		case "span.event_attr_count":
			lim.AttributePerEventCountLimit = optV
		case "span.link_attr_count":
			lim.AttributePerLinkCountLimit = optV
		}
		opts = append(opts, sdktrace.WithRawSpanLimits(lim))
	}
	return offerSpan(setting, conc, opts...)
}

// offerSpan builds a TracerProvider with the given options, offers one span more of the limited
// resource than any configured limit and reports how much was kept.
func offerSpan(setting string, conc *Conc, extra ...sdktrace.TracerProviderOption) ([]string, string) {
	exp := &capSpans{}
	opts := append([]sdktrace.TracerProviderOption{sdktrace.WithSyncer(exp), sdktrace.WithSampler(sdktrace.AlwaysSample())}, extra...)
	tp := sdktrace.NewTracerProvider(opts...)
	ctx := context.Background()
	_, span := tp.Tracer("c20").Start(ctx, "s")
	sc := func(i int) trace.SpanContext {
		return trace.NewSpanContext(trace.SpanContextConfig{TraceID: trace.TraceID{9, byte(i)}, SpanID: trace.SpanID{9, byte(i)}})
	}
	switch setting {
	case "span.attr_count":
		span.SetAttributes(manyAttrs(offered)...)
	case "span.attr_len":
		span.SetAttributes(attribute.String("long", strings.Repeat("x", offered)))
	case "span.event_count":
		for i := 0; i < offered; i++ {
			span.AddEvent(fmt.Sprintf("e%d", i))
		}
	case "span.link_count":
		for i := 0; i < offered; i++ {
			span.AddLink(trace.Link{SpanContext: sc(i)})
		}
	case "span.event_attr_count":
		span.AddEvent("e", trace.WithAttributes(manyAttrs(offered)...))
	case "span.link_attr_count":
		span.AddLink(trace.Link{SpanContext: sc(1), Attributes: manyAttrs(offered)})
	}
	span.End()
	tp.Shutdown(ctx)
	if len(exp.spans) != 1 {
		return []string{"?no-span"}, ""
	}
	ro := exp.spans[0]
	n := -1
	switch setting {
	case "span.attr_count":
		n = len(ro.Attributes())
	case "span.attr_len":
		if len(ro.Attributes()) == 1 {
			n = len(ro.Attributes()[0].Value.AsString())
		}
	case "span.event_count":
		n = len(ro.Events())
	case "span.link_count":
		n = len(ro.Links())
	case "span.event_attr_count":
		if len(ro.Events()) == 1 {
			n = len(ro.Events()[0].Attributes)
		}
	case "span.link_attr_count":
		if len(ro.Links()) == 1 {
			n = len(ro.Links()[0].Attributes)
		}
	}
	if n < 0 {
		return []string{"unobservable"}, "the carrier (attribute / event / link) of the observed limit was not recorded"
	}
	return conc.absCount(setting, n, offered), fmt.Sprintf("kept=%d of %d", n, offered)
}

// ---------------------------------------------------------------- log record limits

type capProc struct {
	nattrs int
	vlen   int
	seen   bool
}

func (p *capProc) OnEmit(_ context.Context, r *sdklog.Record) error {
	p.seen = true
	p.nattrs = r.AttributesLen()
	r.WalkAttributes(func(kv otellog.KeyValue) bool {
		if kv.Key == "long" {
			p.vlen = len(kv.Value.AsString())
		}
		return true
	})
	return nil
}
func (p *capProc) Shutdown(context.Context) error   { return nil }
func (p *capProc) ForceFlush(context.Context) error { return nil }

func observeLogLimit(setting string, optV int, hasOpt bool, conc *Conc) ([]string, string) {
	var opts []sdklog.LoggerProviderOption
	if hasOpt {
		switch setting {
		case "logrecord.attr_count":
			opts = append(opts, sdklog.WithAttributeCountLimit(optV))
		case "logrecord.attr_len":
			opts = append(opts, sdklog.WithAttributeValueLengthLimit(optV))
		}
	}
	return offerLog(setting, conc, opts...)
}

func offerLog(setting string, conc *Conc, extra ...sdklog.LoggerProviderOption) ([]string, string) {
	proc := &capProc{vlen: -1}
	opts := append([]sdklog.LoggerProviderOption{sdklog.WithProcessor(proc)}, extra...)
	lp := sdklog.NewLoggerProvider(opts...)
	ctx := context.Background()
	var r otellog.Record
	r.SetBody(otellog.StringValue("b"))
	switch setting {
	case "logrecord.attr_count":
		kvs := make([]otellog.KeyValue, offered)
		for i := range kvs {
			kvs[i] = otellog.Int(fmt.Sprintf("k%03d", i), i)
		}
		r.AddAttributes(kvs...)
	case "logrecord.attr_len":
		r.AddAttributes(otellog.String("long", strings.Repeat("x", offered)))
	}
	lp.Logger("c20").Emit(ctx, r)
	lp.Shutdown(ctx)
	if !proc.seen {
		return []string{"?no-record"}, ""
	}
	n := proc.nattrs
	if setting == "logrecord.attr_len" {
		n = proc.vlen
		if n < 0 {
			return []string{"unobservable"}, "the attribute carrying the long value was not recorded"
		}
	}
	return conc.absCount(setting, n, offered), fmt.Sprintf("kept=%d of %d", n, offered)
}

// ---------------------------------------------------------------- sampler

type fixedIDs struct {
	mu  sync.Mutex
	tid trace.TraceID
	n   byte
}

func (g *fixedIDs) NewIDs(context.Context) (trace.TraceID, trace.SpanID) {
	g.mu.Lock()
	defer g.mu.Unlock()
	g.n++
	return g.tid, trace.SpanID{7, g.n}
}
func (g *fixedIDs) NewSpanID(context.Context, trace.TraceID) trace.SpanID {
	g.mu.Lock()
	defer g.mu.Unlock()
	g.n++
	return trace.SpanID{7, g.n}
}

// probe trace ids: position of the id in [0,1) as used by the documented TraceIDRatioBased
// sampler (low 8 bytes as a big-endian fraction).
var probeIDs = []struct {
	pos float64
	id  trace.TraceID
}{
	{0.0, trace.TraceID{0xaa, 0, 0, 0, 0, 0, 0, 0, 0, 0, 0, 0, 0, 0, 0, 1}},
	{0.3, trace.TraceID{0xaa, 0, 0, 0, 0, 0, 0, 0, 0x4c, 0xcc, 0xcc, 0xcc, 0xcc, 0xcc, 0xcc, 0xcc}},
	{0.999, trace.TraceID{0xaa, 0, 0, 0, 0, 0, 0, 0, 0xff, 0xff, 0xff, 0xff, 0xff, 0xff, 0xff, 0xfe}},
}

var ratioVal = map[string]float64{"R0": 0, "R25": 0.25, "R50": 0.5, "R100": 1}

// expected decision vector of an abstract sampler id (OTel spec semantics of the built-in
// samplers): for every probe id: root, child of sampled remote parent, child of unsampled one.
func samplerVector(id string) string {
	name, ratio, _ := strings.Cut(id, ":")
	base := func(pos float64) bool {
		switch strings.TrimPrefix(name, "parentbased_") {
		case "always_on":
			return true
		case "always_off":
			return false
		case "traceidratio":
			return pos < ratioVal[ratio]
		}
		return false
	}
	var b strings.Builder
	for _, p := range probeIDs {
		root := base(p.pos)
		sampledParent, unsampledParent := root, root
		if strings.HasPrefix(name, "parentbased_") {
			sampledParent, unsampledParent = true, false
		}
		for _, d := range []bool{root, sampledParent, unsampledParent} {
			if d {
				b.WriteByte('1')
			} else {
				b.WriteByte('0')
			}
		}
	}
	return b.String()
}

var samplerIDs = func() []string {
	var ids []string
	for _, n := range []string{"always_on", "always_off", "parentbased_always_on", "parentbased_always_off"} {
		ids = append(ids, n)
	}
	for _, n := range []string{"traceidratio", "parentbased_traceidratio"} {
		for _, r := range []string{"R0", "R25", "R50", "R100"} {
			ids = append(ids, n+":"+r)
		}
	}
	return ids
}()

// samplerOption builds the sampler an option source names (public constructors only).
func samplerOption(id string) (sdktrace.Sampler, string) {
	if id == "parentbased_always_on" { // equal to the built-in default sampler
		return sdktrace.ParentBased(sdktrace.AlwaysSample()), "WithSampler(ParentBased(AlwaysSample()))"
	}
	_, ratio, _ := strings.Cut(id, ":")
	return sdktrace.TraceIDRatioBased(ratioVal[ratio]), "WithSampler(TraceIDRatioBased(" + fmt.Sprint(ratioVal[ratio]) + "))"
}

func samplerNameEnv(name Src, conc *Conc) (string, bool) {
	switch name.K {
	case "valid":
		return name.V, true
	case "case":
		return conc.pick([]string{strings.ToUpper(name.V), strings.Title(name.V), " " + name.V + " "}), true
	case "unknown":
		return conc.pick([]string{"foo", "always", "jaeger_remote", "0.5", "always_on,always_off", "parentbased"}), true
	case "empty":
		return "", true
	}
	return "", false
}

func samplerArgEnv(arg Src, conc *Conc) (string, bool) {
	switch arg.K {
	case "valid":
		return fmt.Sprint(ratioVal[arg.V]), true
	case "nonnum":
		return conc.pick([]string{"abc", "0,5", "half", "NaN", "0.5.0", "1/2"}), true
	case "neg":
		return conc.pick([]string{"-0.5", "-1", "-1e-9"}), true
	case "gt1":
		return conc.pick([]string{"1.5", "2", "1e9", "+Inf"}), true
	case "empty":
		return "", true
	}
	return "", false
}

// probeSampler starts, for every probe trace id, a root span, a child of a sampled remote
// parent and a child of an unsampled remote parent, and returns the decision vector.
func probeSampler(tr trace.Tracer, gen *fixedIDs) string {
	var b strings.Builder
	for _, p := range probeIDs {
		gen.mu.Lock()
		gen.tid = p.id
		gen.mu.Unlock()
		parent := func(sampled bool) context.Context {
			fl := trace.TraceFlags(0)
			if sampled {
				fl = trace.FlagsSampled
			}
			return trace.ContextWithRemoteSpanContext(context.Background(), trace.NewSpanContext(trace.SpanContextConfig{
				TraceID: p.id, SpanID: trace.SpanID{5}, TraceFlags: fl, Remote: true}))
		}
		for _, ctx := range []context.Context{context.Background(), parent(true), parent(false)} {
			_, sp := tr.Start(ctx, "probe")
			if sp.SpanContext().IsSampled() {
				b.WriteByte('1')
			} else {
				b.WriteByte('0')
			}
			sp.End()
		}
	}
	return b.String()
}

func runSamplerCase(c Case, conc *Conc) Outcome {
	var out Outcome
	opt, name, arg := c.Srcs[0], c.Srcs[1], c.Srcs[2]
	setenv := func(k, v string) {
		os.Setenv(k, v)
		out.Env = append(out.Env, k+"="+v)
	}
	if v, ok := samplerNameEnv(name, conc); ok {
		setenv("OTEL_TRACES_SAMPLER", v)
	}
	if v, ok := samplerArgEnv(arg, conc); ok {
		setenv("OTEL_TRACES_SAMPLER_ARG", v)
	}
	var vec string
	err, special := guarded(watchdog, func() error {
		gen := &fixedIDs{}
		exp := &capSpans{}
		opts := []sdktrace.TracerProviderOption{sdktrace.WithSyncer(exp), sdktrace.WithIDGenerator(gen)}
		switch opt.K {
		case "valid":
			smp, text := samplerOption(opt.V)
			opts = append(opts, sdktrace.WithSampler(smp))
			out.Opt = text
		case "nil":
			opts = append(opts, sdktrace.WithSampler(nil))
			out.Opt = "WithSampler(nil)"
		}
		tp := sdktrace.NewTracerProvider(opts...)
		vec = probeSampler(tp.Tracer("c20"), gen)
		return tp.Shutdown(context.Background())
	})
	if special != "" {
		out.Obs, out.Detail = []string{special}, errText(err)
		return out
	}
	for _, id := range samplerIDs {
		if samplerVector(id) == vec {
			out.Obs = append(out.Obs, id)
		}
	}
	out.Detail = "decisions=" + vec
	if len(out.Obs) == 0 {
		out.Obs = []string{"?" + vec}
	}
	return out
}

// ---------------------------------------------------------------- struct-valued options

var (
	spanFields = []string{"span.attr_count", "span.attr_len", "span.event_count", "span.link_count",
		"span.event_attr_count", "span.link_attr_count"}
	logFields = []string{"logrecord.attr_count", "logrecord.attr_len"}
)

// fieldValue: concrete value of a struct field of the given class.
func fieldValue(setting, class string, conc *Conc) int {
	switch class {
	case "zero":
		return 0
	case "neg":
		return conc.pickInt([]int{-1, -7, -1 << 31})
	}
	return conc.numVal(setting, "O")
}

// runStructCase passes the LITERAL struct described by c.Ctx (every field, also the zero-valued
// ones) through WithRawSpanLimits / WithSpanLimits / the two log record options, sets the
// field-specific variable of every field as c.Ctx.Env says and observes the field c.Setting.
func runStructCase(c Case, conc *Conc) Outcome {
	var out Outcome
	fields := spanFields
	if c.Ctx.Kind == "logopts" {
		fields = logFields
	}
	vals := map[string]int{}
	var optText []string
	for i, f := range fields {
		vals[f] = fieldValue(f, c.Ctx.Fields[i], conc)
		optText = append(optText, fmt.Sprintf("%s=%d", f, vals[f]))
		if v, ok := conc.envNum(f, c.Ctx.Env); ok {
			os.Setenv(sdkEnvNames[f][0], v)
			out.Env = append(out.Env, sdkEnvNames[f][0]+"="+v)
		}
	}
	out.Opt = c.Ctx.Kind + "{" + strings.Join(optText, " ") + "}"
	var obs []string
	var detail string
	err, special := guarded(watchdog, func() error {
		if c.Ctx.Kind == "logopts" {
			obs, detail = offerLog(c.Setting, conc, sdklog.WithAttributeCountLimit(vals["logrecord.attr_count"]),
				sdklog.WithAttributeValueLengthLimit(vals["logrecord.attr_len"]))
			return nil
		}
		lim := sdktrace.SpanLimits{
			AttributeCountLimit:         vals["span.attr_count"],
			AttributeValueLengthLimit:   vals["span.attr_len"],
			EventCountLimit:             vals["span.event_count"],
			LinkCountLimit:              vals["span.link_count"],
			AttributePerEventCountLimit: vals["span.event_attr_count"],
			AttributePerLinkCountLimit:  vals["span.link_attr_count"],
		}
		opt := sdktrace.WithRawSpanLimits(lim)
		if c.Ctx.Kind == "nonraw" {
			opt = sdktrace.WithSpanLimits(lim)
		}
		obs, detail = offerSpan(c.Setting, conc, opt)
		return nil
	})
	if special != "" {
		out.Obs, out.Detail = []string{special}, errText(err)
		return out
	}
	out.Obs, out.Detail = obs, detail
	return out
}
