package main

// The six OTLP exporters driven through their public constructors and options, observed
// only from the outside: three loopback HTTP collectors and three loopback gRPC collectors
// ("O" = the one programmatic options point to, "S" = signal-specific variable, "G" = generic
// variable) record who received the request, at which URL path, with which user headers and
// which content / message encoding; the export deadline is observed through the request
// context handed to the (public) HTTP proxy callback and through the server-side RPC deadline.

import (
	"context"
	"fmt"
	"net"
	"net/http"
	"net/url"
	"os"
	"runtime"
	"runtime/debug"
	"strings"
	"sync"
	"sync/atomic"
	"time"

	"go.opentelemetry.io/otel/attribute"
	"go.opentelemetry.io/otel/exporters/otlp/otlplog/otlploggrpc"
	"go.opentelemetry.io/otel/exporters/otlp/otlplog/otlploghttp"
	"go.opentelemetry.io/otel/exporters/otlp/otlpmetric/otlpmetricgrpc"
	"go.opentelemetry.io/otel/exporters/otlp/otlpmetric/otlpmetrichttp"
	"go.opentelemetry.io/otel/exporters/otlp/otlptrace/otlptracegrpc"
	"go.opentelemetry.io/otel/exporters/otlp/otlptrace/otlptracehttp"
	otellog "go.opentelemetry.io/otel/log"
	"go.opentelemetry.io/otel/sdk/instrumentation"
	sdklog "go.opentelemetry.io/otel/sdk/log"
	"go.opentelemetry.io/otel/sdk/metric/metricdata"
	"go.opentelemetry.io/otel/sdk/resource"
	sdktrace "go.opentelemetry.io/otel/sdk/trace"
	"go.opentelemetry.io/otel/sdk/trace/tracetest"
	"go.opentelemetry.io/otel/trace"
	collogpb "go.opentelemetry.io/proto/otlp/collector/logs/v1"
	colmetricpb "go.opentelemetry.io/proto/otlp/collector/metrics/v1"
	coltracepb "go.opentelemetry.io/proto/otlp/collector/trace/v1"
	"google.golang.org/grpc"
	_ "google.golang.org/grpc/encoding/gzip"
	"google.golang.org/grpc/metadata"
	"google.golang.org/grpc/stats"
)

// capture is what the collectors / probes saw during the current case.
type capture struct {
	mu       sync.Mutex
	n        int
	who      string
	path     string
	hdr      map[string]string
	enc      string
	hasDL    bool // a deadline probe ran
	deadline bool
	remMs    int64
}

var cur atomic.Pointer[capture]

func (c *capture) request(who, path string, hdr map[string]string, enc string) {
	c.mu.Lock()
	defer c.mu.Unlock()
	c.n++
	c.who, c.path, c.hdr, c.enc = who, path, hdr, enc
}

func (c *capture) probeDeadline(ctx context.Context) {
	dl, ok := ctx.Deadline()
	c.mu.Lock()
	defer c.mu.Unlock()
	c.hasDL = true
	c.deadline = ok
	if ok {
		c.remMs = time.Until(dl).Milliseconds()
	}
}

const hdrPrefix = "x-c20-"

// ---------------------------------------------------------------- collectors

type collectors struct {
	httpAddr map[string]string // who -> host:port
	grpcAddr map[string]string
}

var (
	collOnce sync.Once
	coll     collectors
)

func startCollectors() *collectors {
	collOnce.Do(func() {
		coll.httpAddr = map[string]string{}
		coll.grpcAddr = map[string]string{}
		for _, who := range []string{"O", "S", "G"} {
			who := who
			ln, err := net.Listen("tcp", "127.0.0.1:0")
			if err != nil {
				panic(err)
			}
			srv := &http.Server{Handler: http.HandlerFunc(func(w http.ResponseWriter, r *http.Request) {
				hdr := map[string]string{}
				for k, v := range r.Header {
					lk := strings.ToLower(k)
					if strings.HasPrefix(lk, hdrPrefix) {
						hdr[lk] = strings.Join(v, "|")
					}
				}
				enc := r.Header.Get("Content-Encoding")
				if enc == "" {
					enc = "none"
				}
				if c := cur.Load(); c != nil {
					c.request(who, r.RequestURI, hdr, enc) // the request target exactly as sent on the wire
				}
				w.WriteHeader(http.StatusOK)
			})}
			srv.SetKeepAlivesEnabled(false) // one connection per case: no idle connections pile up
			go srv.Serve(ln)
			coll.httpAddr[who] = ln.Addr().String()

			gl, err := net.Listen("tcp", "127.0.0.1:0")
			if err != nil {
				panic(err)
			}
			gs := grpc.NewServer(grpc.StatsHandler(encProbe{}))
			coltracepb.RegisterTraceServiceServer(gs, traceSvc{who: who})
			colmetricpb.RegisterMetricsServiceServer(gs, metricSvc{who: who})
			collogpb.RegisterLogsServiceServer(gs, logSvc{who: who})
			go gs.Serve(gl)
			coll.grpcAddr[who] = gl.Addr().String()
		}
	})
	return &coll
}

type rpcInfo struct{ enc string }
type rpcInfoKey struct{}
type encProbe struct{}

func (encProbe) TagRPC(ctx context.Context, _ *stats.RPCTagInfo) context.Context {
	return context.WithValue(ctx, rpcInfoKey{}, &rpcInfo{enc: "none"})
}
func (encProbe) HandleRPC(ctx context.Context, s stats.RPCStats) {
	if h, ok := s.(*stats.InHeader); ok {
		if ri, _ := ctx.Value(rpcInfoKey{}).(*rpcInfo); ri != nil && h.Compression != "" {
			ri.enc = h.Compression
		}
	}
}
func (encProbe) TagConn(ctx context.Context, _ *stats.ConnTagInfo) context.Context { return ctx }
func (encProbe) HandleConn(context.Context, stats.ConnStats)                       {}

func recordGRPC(ctx context.Context, who string) {
	c := cur.Load()
	if c == nil {
		return
	}
	hdr := map[string]string{}
	if md, ok := metadata.FromIncomingContext(ctx); ok {
		for k, v := range md {
			if strings.HasPrefix(k, hdrPrefix) {
				hdr[k] = strings.Join(v, "|")
			}
		}
	}
	enc := "none"
	if ri, _ := ctx.Value(rpcInfoKey{}).(*rpcInfo); ri != nil {
		enc = ri.enc
	}
	c.request(who, "", hdr, enc)
	c.probeDeadline(ctx)
}

type traceSvc struct {
	coltracepb.UnimplementedTraceServiceServer
	who string
}

func (s traceSvc) Export(ctx context.Context, _ *coltracepb.ExportTraceServiceRequest) (*coltracepb.ExportTraceServiceResponse, error) {
	recordGRPC(ctx, s.who)
	return &coltracepb.ExportTraceServiceResponse{}, nil
}

type metricSvc struct {
	colmetricpb.UnimplementedMetricsServiceServer
	who string
}

func (s metricSvc) Export(ctx context.Context, _ *colmetricpb.ExportMetricsServiceRequest) (*colmetricpb.ExportMetricsServiceResponse, error) {
	recordGRPC(ctx, s.who)
	return &colmetricpb.ExportMetricsServiceResponse{}, nil
}

type logSvc struct {
	collogpb.UnimplementedLogsServiceServer
	who string
}

func (s logSvc) Export(ctx context.Context, _ *collogpb.ExportLogsServiceRequest) (*collogpb.ExportLogsServiceResponse, error) {
	recordGRPC(ctx, s.who)
	return &collogpb.ExportLogsServiceResponse{}, nil
}

// proxyProbe is installed with the public WithProxy option of the HTTP exporters: it sees the
// outgoing request (and therefore the deadline the client put on it) and selects no proxy.
func proxyProbe(r *http.Request) (*url.URL, error) {
	if c := cur.Load(); c != nil {
		c.probeDeadline(r.Context())
	}
	return nil, nil
}

// ---------------------------------------------------------------- options of one case

type expCfg struct {
	host        *string
	path        *string
	url         *string
	headers     map[string]string
	hasHeaders  bool
	compression *int    // HTTP exporters: Compression enum value
	compressor  *string // gRPC exporters: compressor name
	timeout     *time.Duration
}

func (e expCfg) String() string {
	var p []string
	if e.host != nil {
		p = append(p, "WithEndpoint("+*e.host+")")
	}
	if e.path != nil {
		p = append(p, "WithURLPath("+*e.path+")")
	}
	if e.url != nil {
		p = append(p, "WithEndpointURL("+*e.url+")")
	}
	if e.hasHeaders {
		p = append(p, fmt.Sprintf("WithHeaders(%v)", e.headers))
	}
	if e.compression != nil {
		p = append(p, fmt.Sprintf("WithCompression(%d)", *e.compression))
	}
	if e.compressor != nil {
		p = append(p, "WithCompressor("+*e.compressor+")")
	}
	if e.timeout != nil {
		p = append(p, "WithTimeout("+e.timeout.String()+")")
	}
	return strings.Join(p, " ")
}

var (
	stubSpans = tracetest.SpanStubs{{
		Name: "c20",
		SpanContext: trace.NewSpanContext(trace.SpanContextConfig{
			TraceID: trace.TraceID{1}, SpanID: trace.SpanID{2}, TraceFlags: trace.FlagsSampled}),
		StartTime: time.Unix(1700000000, 0), EndTime: time.Unix(1700000001, 0),
		Resource:               resource.Empty(),
		InstrumentationLibrary: instrumentation.Scope{Name: "c20"},
	}}.Snapshots()
	stubMetrics = &metricdata.ResourceMetrics{
		Resource: resource.Empty(),
		ScopeMetrics: []metricdata.ScopeMetrics{{
			Scope: instrumentation.Scope{Name: "c20"},
			Metrics: []metricdata.Metrics{{Name: "m", Data: metricdata.Sum[int64]{
				Temporality: metricdata.CumulativeTemporality, IsMonotonic: true,
				DataPoints: []metricdata.DataPoint[int64]{{Attributes: attribute.NewSet(), Value: 1,
					StartTime: time.Unix(1700000000, 0), Time: time.Unix(1700000001, 0)}},
			}}},
		}},
	}
)

func stubRecords() []sdklog.Record {
	var r sdklog.Record
	r.SetBody(otellog.StringValue("c20"))
	r.SetSeverity(otellog.SeverityInfo)
	r.SetTimestamp(time.Unix(1700000000, 0))
	return []sdklog.Record{r}
}

// built is a constructed exporter: one export of a stub item, and its shutdown.
type built struct {
	export   func(context.Context) error
	shutdown func(context.Context) error
}

// build constructs the exporter of component comp from e through its public constructor.
func build(ctx context.Context, comp string, e expCfg) (built, error) {
	switch comp {
	case "otlptracehttp":
		o := []otlptracehttp.Option{otlptracehttp.WithInsecure(), otlptracehttp.WithRetry(otlptracehttp.RetryConfig{}),
			otlptracehttp.WithProxy(proxyProbe)}
		if e.host != nil {
			o = append(o, otlptracehttp.WithEndpoint(*e.host))
		}
		if e.path != nil {
			o = append(o, otlptracehttp.WithURLPath(*e.path))
		}
		if e.url != nil {
			o = append(o, otlptracehttp.WithEndpointURL(*e.url))
		}
		if e.hasHeaders {
			o = append(o, otlptracehttp.WithHeaders(e.headers))
		}
		if e.compression != nil {
			o = append(o, otlptracehttp.WithCompression(otlptracehttp.Compression(*e.compression)))
		}
		if e.timeout != nil {
			o = append(o, otlptracehttp.WithTimeout(*e.timeout))
		}
		exp, err := otlptracehttp.New(ctx, o...)
		if err != nil {
			return built{}, err
		}
		return built{
			export:   func(ctx context.Context) error { return exp.ExportSpans(ctx, stubSpans) },
			shutdown: exp.Shutdown,
		}, nil
	case "otlptracegrpc":
		o := []otlptracegrpc.Option{otlptracegrpc.WithInsecure(), otlptracegrpc.WithRetry(otlptracegrpc.RetryConfig{})}
		if e.host != nil {
			o = append(o, otlptracegrpc.WithEndpoint(*e.host))
		}
		if e.url != nil {
			o = append(o, otlptracegrpc.WithEndpointURL(*e.url))
		}
		if e.hasHeaders {
			o = append(o, otlptracegrpc.WithHeaders(e.headers))
		}
		if e.compressor != nil {
			o = append(o, otlptracegrpc.WithCompressor(*e.compressor))
		}
		if e.timeout != nil {
			o = append(o, otlptracegrpc.WithTimeout(*e.timeout))
		}
		exp, err := otlptracegrpc.New(ctx, o...)
		if err != nil {
			return built{}, err
		}
		return built{
			export:   func(ctx context.Context) error { return exp.ExportSpans(ctx, stubSpans) },
			shutdown: exp.Shutdown,
		}, nil
	case "otlpmetrichttp":
		o := []otlpmetrichttp.Option{otlpmetrichttp.WithInsecure(), otlpmetrichttp.WithRetry(otlpmetrichttp.RetryConfig{}),
			otlpmetrichttp.WithProxy(proxyProbe)}
		if e.host != nil {
			o = append(o, otlpmetrichttp.WithEndpoint(*e.host))
		}
		if e.path != nil {
			o = append(o, otlpmetrichttp.WithURLPath(*e.path))
		}
		if e.url != nil {
			o = append(o, otlpmetrichttp.WithEndpointURL(*e.url))
		}
		if e.hasHeaders {
			o = append(o, otlpmetrichttp.WithHeaders(e.headers))
		}
		if e.compression != nil {
			o = append(o, otlpmetrichttp.WithCompression(otlpmetrichttp.Compression(*e.compression)))
		}
		if e.timeout != nil {
			o = append(o, otlpmetrichttp.WithTimeout(*e.timeout))
		}
		exp, err := otlpmetrichttp.New(ctx, o...)
		if err != nil {
			return built{}, err
		}
		return built{
			export:   func(ctx context.Context) error { return exp.Export(ctx, stubMetrics) },
			shutdown: exp.Shutdown,
		}, nil
	case "otlpmetricgrpc":
		o := []otlpmetricgrpc.Option{otlpmetricgrpc.WithInsecure(), otlpmetricgrpc.WithRetry(otlpmetricgrpc.RetryConfig{})}
		if e.host != nil {
			o = append(o, otlpmetricgrpc.WithEndpoint(*e.host))
		}
		if e.url != nil {
			o = append(o, otlpmetricgrpc.WithEndpointURL(*e.url))
		}
		if e.hasHeaders {
			o = append(o, otlpmetricgrpc.WithHeaders(e.headers))
		}
		if e.compressor != nil {
			o = append(o, otlpmetricgrpc.WithCompressor(*e.compressor))
		}
		if e.timeout != nil {
			o = append(o, otlpmetricgrpc.WithTimeout(*e.timeout))
		}
		exp, err := otlpmetricgrpc.New(ctx, o...)
		if err != nil {
			return built{}, err
		}
		return built{
			export:   func(ctx context.Context) error { return exp.Export(ctx, stubMetrics) },
			shutdown: exp.Shutdown,
		}, nil
	case "otlploghttp":
		o := []otlploghttp.Option{otlploghttp.WithInsecure(), otlploghttp.WithRetry(otlploghttp.RetryConfig{}),
			otlploghttp.WithProxy(proxyProbe)}
		if e.host != nil {
			o = append(o, otlploghttp.WithEndpoint(*e.host))
		}
		if e.path != nil {
			o = append(o, otlploghttp.WithURLPath(*e.path))
		}
		if e.url != nil {
			o = append(o, otlploghttp.WithEndpointURL(*e.url))
		}
		if e.hasHeaders {
			o = append(o, otlploghttp.WithHeaders(e.headers))
		}
		if e.compression != nil {
			o = append(o, otlploghttp.WithCompression(otlploghttp.Compression(*e.compression)))
		}
		if e.timeout != nil {
			o = append(o, otlploghttp.WithTimeout(*e.timeout))
		}
		exp, err := otlploghttp.New(ctx, o...)
		if err != nil {
			return built{}, err
		}
		return built{
			export:   func(ctx context.Context) error { return exp.Export(ctx, stubRecords()) },
			shutdown: exp.Shutdown,
		}, nil
	case "otlploggrpc":
		o := []otlploggrpc.Option{otlploggrpc.WithInsecure(), otlploggrpc.WithRetry(otlploggrpc.RetryConfig{})}
		if e.host != nil {
			o = append(o, otlploggrpc.WithEndpoint(*e.host))
		}
		if e.url != nil {
			o = append(o, otlploggrpc.WithEndpointURL(*e.url))
		}
		if e.hasHeaders {
			o = append(o, otlploggrpc.WithHeaders(e.headers))
		}
		if e.compressor != nil {
			o = append(o, otlploggrpc.WithCompressor(*e.compressor))
		}
		if e.timeout != nil {
			o = append(o, otlploggrpc.WithTimeout(*e.timeout))
		}
		exp, err := otlploggrpc.New(ctx, o...)
		if err != nil {
			return built{}, err
		}
		return built{
			export:   func(ctx context.Context) error { return exp.Export(ctx, stubRecords()) },
			shutdown: exp.Shutdown,
		}, nil
	}
	return built{}, fmt.Errorf("unknown exporter %s", comp)
}

func isHTTP(comp string) bool { return strings.HasSuffix(comp, "http") }

func signalVar(comp string) string {
	switch {
	case strings.HasPrefix(comp, "otlptrace"):
		return "TRACES"
	case strings.HasPrefix(comp, "otlpmetric"):
		return "METRICS"
	}
	return "LOGS"
}

// guarded runs f with a watchdog.  A panic is an observation ("PANIC").  A call that has not
// returned when the (generous) watchdog expires is reported as "HANG" together with a dump of
// all goroutines; the driver treats it as inconclusive, never as a verdict.
func guarded(d time.Duration, f func() error) (err error, special string) {
	type res struct {
		err error
		pan any
		stk string
	}
	ch := make(chan res, 1)
	go func() {
		defer func() {
			if p := recover(); p != nil {
				ch <- res{pan: p, stk: string(debug.Stack())}
			}
		}()
		ch <- res{err: f()}
	}()
	t := time.NewTimer(d)
	defer t.Stop()
	select {
	case r := <-ch:
		if r.pan != nil {
			return fmt.Errorf("panic: %v\n%s", r.pan, trimStack(r.stk)), "PANIC"
		}
		return r.err, ""
	case <-t.C:
		buf := make([]byte, 1<<20)
		buf = buf[:runtime.Stack(buf, true)]
		return fmt.Errorf("no return within %s; goroutines:\n%s", d, buf), "HANG"
	}
}

// trimStack keeps the frames of the panicking goroutine that belong to the code under test.
func trimStack(s string) string {
	var keep []string
	for _, l := range strings.Split(s, "\n") {
		if strings.Contains(l, "go.opentelemetry.io/otel") && !strings.Contains(l, "verifh") {
			keep = append(keep, strings.TrimSpace(l))
		}
		if len(keep) >= 6 {
			break
		}
	}
	return strings.Join(keep, " <- ")
}

const watchdog = 45 * time.Second

// exporter settings of one scenario: per setting the three sources (options, signal variable,
// generic variable).  nil entry = setting not exercised (all sources absent).
type expScenario struct {
	comp     string
	endpoint []Src
	headers  []Src
	compr    []Src
	timeout  []Src
}

func (sc expScenario) exercised() []string {
	var out []string
	if sc.endpoint != nil {
		out = append(out, "endpoint")
	}
	if sc.headers != nil {
		out = append(out, "headers")
	}
	if sc.compr != nil {
		out = append(out, "compression")
	}
	if sc.timeout != nil {
		out = append(out, "timeout")
	}
	return out
}

// expPlan is the concrete form of a scenario: environment and options, grouped by setting.
type expPlan struct {
	comp string
	env  map[string][][2]string // setting -> variables
	opt  map[string]expCfg      // setting -> the option fields of that setting
}

type expObs struct {
	special  string // PANIC / HANG
	phase    string // construct / export / shutdown
	err      error
	n        int
	env      []string
	opt      string
	endpoint []string
	headers  []string
	compr    []string
	timeout  []string
}

func (ob expObs) of(setting string) []string {
	switch setting {
	case "endpoint":
		return ob.endpoint
	case "headers":
		return ob.headers
	case "compression":
		return ob.compr
	}
	return ob.timeout
}

// concretizeExporter turns the abstract sources of a scenario into variables and options.
func concretizeExporter(sc expScenario, conc *Conc) expPlan {
	cl := startCollectors()
	addr := cl.grpcAddr
	if isHTTP(sc.comp) {
		addr = cl.httpAddr
	}
	sig := signalVar(sc.comp)
	pl := expPlan{comp: sc.comp, env: map[string][][2]string{}, opt: map[string]expCfg{}}
	setenv := func(setting, k, v string) { pl.env[setting] = append(pl.env[setting], [2]string{k, v}) }
	// ---- endpoint
	if sc.endpoint != nil {
		var e expCfg
		o := sc.endpoint[0]
		hostO := addr["O"]
		switch o.K {
		case "host":
			e.host = &hostO
		case "defhost":
			h := defaultHostPort(isHTTP(sc.comp))
			e.host = &h
		case "path":
			p := o.V
			e.path = &p
		case "hostpath":
			p := o.V
			e.host, e.path = &hostO, &p
		case "url":
			u := "http://" + hostO + o.V
			e.url = &u
		case "badurl":
			u := conc.pick([]string{"://" + hostO, "http://[::1", "http://" + hostO + "/%zz", "http://" + hostO + ":port"})
			e.url = &u
		}
		pl.opt["endpoint"] = e
		if v, ok := conc.envURL(sc.endpoint[1], addr["S"], isHTTP(sc.comp)); ok {
			setenv("endpoint", "OTEL_EXPORTER_OTLP_"+sig+"_ENDPOINT", v)
		}
		if v, ok := conc.envURL(sc.endpoint[2], addr["G"], isHTTP(sc.comp)); ok {
			setenv("endpoint", "OTEL_EXPORTER_OTLP_ENDPOINT", v)
		}
	}
	// ---- headers
	if sc.headers != nil {
		var e expCfg
		if o := sc.headers[0]; o.K == "valid" {
			m := map[string]string{}
			for k, v := range hdrMaps[o.V] {
				m[k] = v
			}
			e.headers, e.hasHeaders = m, true
		}
		pl.opt["headers"] = e
		if v, ok := conc.envHeaders(sc.headers[1]); ok {
			setenv("headers", "OTEL_EXPORTER_OTLP_"+sig+"_HEADERS", v)
		}
		if v, ok := conc.envHeaders(sc.headers[2]); ok {
			setenv("headers", "OTEL_EXPORTER_OTLP_HEADERS", v)
		}
	}
	// ---- compression
	if sc.compr != nil {
		var e expCfg
		o := sc.compr[0]
		if isHTTP(sc.comp) {
			var v int
			switch {
			case o.K == "valid" && o.V == "gzip":
				v = 1
				e.compression = &v
			case o.K == "valid" && o.V == "none":
				v = 0
				e.compression = &v
			case o.K == "badenum":
				v = conc.pickInt([]int{7, 2, -1, 1 << 20})
				e.compression = &v
			}
		} else {
			switch o.K {
			case "valid":
				s := o.V
				e.compressor = &s
			case "unknown":
				s := conc.pick(repCmpUnknown)
				e.compressor = &s
			}
		}
		pl.opt["compression"] = e
		if v, ok := conc.envCompression(sc.compr[1]); ok {
			setenv("compression", "OTEL_EXPORTER_OTLP_"+sig+"_COMPRESSION", v)
		}
		if v, ok := conc.envCompression(sc.compr[2]); ok {
			setenv("compression", "OTEL_EXPORTER_OTLP_COMPRESSION", v)
		}
	}
	// ---- timeout
	if sc.timeout != nil {
		var e expCfg
		if ms, ok := conc.optNum("timeout", sc.timeout[0]); ok {
			d := time.Duration(ms) * time.Millisecond
			e.timeout = &d
		}
		pl.opt["timeout"] = e
		if v, ok := conc.envNum("timeout", sc.timeout[1]); ok {
			setenv("timeout", "OTEL_EXPORTER_OTLP_"+sig+"_TIMEOUT", v)
		}
		if v, ok := conc.envNum("timeout", sc.timeout[2]); ok {
			setenv("timeout", "OTEL_EXPORTER_OTLP_TIMEOUT", v)
		}
	}
	return pl
}

// executeExporter applies the part of the plan that belongs to the given settings (process
// environment is reset first), constructs the exporter, exports one item and projects what the
// collectors and probes saw.  Construction, export and shutdown run under separate guards.
func executeExporter(pl expPlan, settings []string, conc *Conc) expObs {
	clearEnv()
	defer clearEnv()
	var env []string
	var e expCfg
	hasEndpoint := false
	for _, st := range settings {
		for _, kv := range pl.env[st] {
			os.Setenv(kv[0], kv[1])
			env = append(env, kv[0]+"="+kv[1])
		}
		o := pl.opt[st]
		switch st {
		case "endpoint":
			e.host, e.path, e.url = o.host, o.path, o.url
			hasEndpoint = true
		case "headers":
			e.headers, e.hasHeaders = o.headers, o.hasHeaders
		case "compression":
			e.compression, e.compressor = o.compression, o.compressor
		case "timeout":
			e.timeout = o.timeout
		}
	}
	if !hasEndpoint {
		// deliver through the option collector so that the other settings are observable
		cl := startCollectors()
		h := cl.grpcAddr["O"]
		if isHTTP(pl.comp) {
			h = cl.httpAddr["O"]
		}
		e.host = &h
	}
	cp := &capture{}
	cur.Store(cp)
	defer cur.Store(nil)
	ctx, cancel := context.WithCancel(context.Background())
	defer cancel()
	ob := expObs{env: env, opt: e.String()}
	var b built
	ob.phase = "construct"
	ob.err, ob.special = guarded(watchdog, func() (err error) { b, err = build(ctx, pl.comp, e); return err })
	if ob.special == "" && ob.err == nil {
		ob.phase = "export"
		ob.err, ob.special = guarded(watchdog, func() error { return b.export(ctx) })
		if ob.special == "" {
			// a panic inside Export may leave the exporter locked: Shutdown is only called (and
			// only observed) after an Export that returned
			if err, sp := guarded(watchdog, func() error { return b.shutdown(ctx) }); sp != "" {
				ob.phase, ob.err, ob.special = "shutdown", err, sp
			}
		}
	}
	cp.mu.Lock()
	defer cp.mu.Unlock()
	ob.n = cp.n
	if ob.special != "" {
		sp := []string{ob.special}
		ob.endpoint, ob.headers, ob.compr, ob.timeout = sp, sp, sp, sp
		return ob
	}
	un := []string{"unobservable"}
	if cp.n == 0 {
		ob.endpoint = []string{"none|"}
		// nothing arrived: the other settings are not observable ...
		ob.headers, ob.compr, ob.timeout = un, un, un
		// ... except that a deadline probe may still have run (HTTP: before the connection attempt)
		if cp.hasDL {
			ob.timeout = conc.absDeadline("timeout", cp.deadline, cp.remMs)
		} else if deadlineExpired(ob.err) {
			ob.timeout = []string{"expired"} // the export's own deadline ran out on the way to a loopback collector
		}
		return ob
	}
	ob.endpoint = []string{cp.who + "|" + cp.path}
	ob.headers = absHeaders(cp.hdr)
	ob.compr = []string{cp.enc}
	if cp.hasDL {
		ob.timeout = conc.absDeadline("timeout", cp.deadline, cp.remMs)
	} else {
		ob.timeout = un
	}
	return ob
}

// runExporterScenario executes a (possibly multi-setting) scenario.  When it panics and more
// than one setting is exercised, every setting is re-executed alone with the same concrete
// values to attribute the panic: settings that do not panic alone report what they show alone.
func runExporterScenario(sc expScenario, conc *Conc) expObs {
	pl := concretizeExporter(sc, conc)
	ex := sc.exercised()
	ob := executeExporter(pl, ex, conc)
	if ob.special != "PANIC" || len(ex) < 2 {
		return ob
	}
	attributed := false
	single := map[string]expObs{}
	for _, st := range ex {
		single[st] = executeExporter(pl, []string{st}, conc)
		if single[st].special == "PANIC" {
			attributed = true
		}
	}
	if !attributed {
		return ob // only the combination panics: reported on every exercised setting
	}
	for _, st := range ex {
		o := single[st].of(st)
		if st != "endpoint" && single[st].special == "" && single[st].n == 0 {
			o = []string{"unobservable"}
		}
		switch st {
		case "endpoint":
			ob.endpoint = o
		case "headers":
			ob.headers = o
		case "compression":
			ob.compr = o
		case "timeout":
			ob.timeout = o
		}
	}
	return ob
}

func errText(err error) string {
	if err == nil {
		return ""
	}
	s := err.Error()
	if len(s) > 600 && !strings.HasPrefix(s, "no return within") {
		s = s[:600]
	}
	if len(s) > 20000 {
		s = s[:20000]
	}
	return s
}

func runExporterCase(c Case, conc *Conc) Outcome {
	sc := expScenario{comp: c.Comp}
	setting := c.Setting
	switch {
	case c.Fam == "endpoint":
		sc.endpoint = c.Srcs
		setting = "endpoint"
	case c.Setting == "headers":
		sc.headers = c.Srcs
	case c.Setting == "compression":
		sc.compr = c.Srcs
	case c.Setting == "timeout":
		sc.timeout = c.Srcs
	}
	ob := runExporterScenario(sc, conc)
	out := Outcome{Env: ob.env, Opt: ob.opt, Detail: errText(ob.err), Obs: ob.of(setting)}
	if ob.special != "" {
		out.Detail = ob.phase + ": " + out.Detail
	}
	if ob.n > 1 {
		out.Detail += fmt.Sprintf(" [%d requests]", ob.n)
	}
	return out
}

var _ = sdktrace.AlwaysSample
