// c20: conformance harness for ConfigPrecedence.tla (property C20).
//
//	c20 replay -edges F -out R.ndjson -res R.json [-skip N] [-rep K]
//	    replay every TLC edge (= one configuration case) on the real exporters / SDK
//	    components and compare the projected observation with the spec's Allowed set
//	c20 random -n N -out TRACE.ndjson -res R.json
//	    seeded random multi-setting configurations with ugly concrete values; the
//	    observations are written as an ndjson trace validated by Trace_ConfigPrecedence.tla
//
// The harness only EXECUTES (sets the environment, calls public constructors / options,
// exports through loopback collectors or recording exporters) and PROJECTS the observed
// behaviour onto the abstract outcome ids of the specification.  What is admissible is
// decided by the TLA+ specification alone.
package main

import (
	"bufio"
	"encoding/json"
	"flag"
	"fmt"
	"math/rand"
	"os"
	"sort"
	"strings"
	"time"

	"github.com/go-logr/logr"
	"go.opentelemetry.io/otel"
	"go.opentelemetry.io/otel/sdk/verifh/vh"
)

// Src is one configuration source of a setting: kind + payload (see ConfigPrecedence.tla).
type Src struct {
	K string `json:"k"`
	V string `json:"v"`
}

// Case is one enumerated configuration case (the `act` of a TLC edge).
type Case struct {
	Fam     string  `json:"fam"`
	Comp    string  `json:"comp"`
	Setting string  `json:"setting"`
	Srcs    []Src   `json:"srcs"`
	Ctx     CaseCtx `json:"ctx"`
}

// CaseCtx: the whole struct-valued option a case belongs to (kind "none": no struct option).
// kind raw = WithRawSpanLimits(literal), nonraw = WithSpanLimits(literal), logopts = both log
// record limit options; fields = class of every field (zero / neg / valid) in the order of the
// specification; env = source of the field-specific variable of EVERY field.
type CaseCtx struct {
	Kind   string   `json:"kind"`
	Fields []string `json:"fields"`
	Env    Src      `json:"env"`
}

type edgeTo struct {
	Allowed []string `json:"allowed"`
	Ideal   []string `json:"ideal"`
	Norm    []Src    `json:"norm"`
}

// Outcome is the projection of what the real code did for one setting.
type Outcome struct {
	Obs    []string `json:"obs"`    // abstract outcomes compatible with the observation
	Detail string   `json:"detail"` // raw observation / error text
	Env    []string `json:"env"`    // concrete environment used
	Opt    string   `json:"opt"`    // concrete option used
}

func (c Case) kinds() string {
	ks := make([]string, len(c.Srcs))
	for i, s := range c.Srcs {
		ks[i] = s.K
		if s.V != "" && (s.K == "url" || s.K == "path" || s.K == "hostpath" || c.Fam == "sampler" || c.Setting == "compression") {
			ks[i] += "(" + s.V + ")"
		}
	}
	return strings.Join(ks, ",")
}

func inSet(obs, allowed []string) bool {
	for _, o := range obs {
		for _, a := range allowed {
			if o == a {
				return true
			}
		}
	}
	return false
}

// An observation that is not admissible is re-run before it counts as a mismatch: a genuine
// disagreement reproduces on every attempt, a scheduling hiccup (time-classified observations:
// schedule delay, remaining deadline, queue saturation) does not.
func retries(c Case) int {
	if strings.HasSuffix(c.Setting, ".delay") {
		return 5
	}
	return 3
}

// inconclusiveObs: the experiment did not work (watchdog / bound expired, nothing observable).
func inconclusiveObs(obs []string) bool {
	return len(obs) == 1 && (obs[0] == "HANG" || obs[0] == "unobservable" || strings.HasPrefix(obs[0], inconcl))
}

func clearEnv() {
	for _, kv := range os.Environ() {
		if strings.HasPrefix(kv, "OTEL_") {
			os.Unsetenv(kv[:strings.IndexByte(kv, '=')])
		}
	}
}

func runCase(c Case, conc *Conc) (out Outcome) {
	clearEnv()
	defer clearEnv()
	switch {
	case c.Fam == "endpoint" || (c.Fam == "scalar" && c.Comp != "sdk"):
		return runExporterCase(c, conc)
	case c.Fam == "sampler":
		return runSamplerCase(c, conc)
	case c.Fam == "scalar" && c.Comp == "sdk":
		return runSDKCase(c, conc)
	}
	return Outcome{Obs: []string{"?unknown-family"}}
}

type resultLine struct {
	I       int      `json:"i"`
	Case    Case     `json:"case"`
	Allowed []string `json:"allowed"`
	Ideal   []string `json:"ideal"`
	Obs     []string `json:"obs"`
	OK      bool     `json:"ok"`
	Detail  string   `json:"detail"`
	Env     []string `json:"env"`
	Opt     string   `json:"opt"`
	Ms      int64    `json:"ms"`
	Tries   int      `json:"tries"`
}

func replay(args []string) {
	fs := flag.NewFlagSet("replay", flag.ExitOnError)
	edges := fs.String("edges", "", "")
	out := fs.String("out", "results.ndjson", "")
	resF := fs.String("res", "result.json", "")
	skip := fs.Int("skip", 0, "skip the first N edges (resume after a crash)")
	rep := fs.Int("rep", 0, "representative index for concrete values")
	pairs := fs.String("pairs", "pairs.ndjson", "trace of the cross-setting configurations (validated by the trace spec)")
	fs.Parse(args)
	ptw, err := vh.NewTraceWriter(*pairs)
	vh.Must(err)
	g, err := vh.LoadEdges(*edges)
	vh.Must(err)
	flags := os.O_CREATE | os.O_WRONLY | os.O_APPEND
	if *skip == 0 {
		flags |= os.O_TRUNC
	}
	f, err := os.OpenFile(*out, flags, 0o644)
	vh.Must(err)
	w := bufio.NewWriter(f)
	res := vh.NewResult()
	conc := NewConc(*rep, nil)
	for i, e := range g.Edges {
		if i < *skip {
			continue
		}
		var c Case
		var to edgeTo
		vh.Must(json.Unmarshal(e.Act, &c))
		vh.Must(json.Unmarshal(e.To, &to))
		res.Evaluations++
		if c.Fam == "cross" {
			// metamorphic clause: executed here, judged by Trace_ConfigPrecedence.tla
			ev := runCross(c.Comp, c.Srcs, to.Norm, conc, res)
			ev["edge"] = i
			ptw.Emit(ev)
			res.Executed++
			res.Count("cases.cross."+c.Comp, 1)
			continue
		}
		t0 := time.Now()
		var o Outcome
		tries := 0
		for tries < retries(c) {
			tries++
			o = runCase(c, conc)
			if inSet(o.Obs, to.Allowed) {
				break
			}
		}
		res.Executed++
		ok := inSet(o.Obs, to.Allowed)
		if !ok && inconclusiveObs(o.Obs) {
			// never a verdict
			res.Inconcl(fmt.Sprintf("edge %d %s %s [%s]: %s env=%v opt=%s %s", i, c.Comp, c.Setting, c.kinds(), o.Obs[0], o.Env, o.Opt, o.Detail))
			res.Count("inconclusive", 1)
			ok = true
		}
		if o.Env == nil {
			o.Env = []string{}
		}
		line := resultLine{I: i, Case: c, Allowed: to.Allowed, Ideal: to.Ideal, Obs: o.Obs, OK: ok, Detail: o.Detail, Env: o.Env, Opt: o.Opt,
			Ms: time.Since(t0).Milliseconds(), Tries: tries}
		b, _ := json.Marshal(line)
		w.Write(b)
		w.WriteByte('\n')
		w.Flush() // a crash of the process must not lose the completed cases
		res.Count("cases."+c.Fam+"."+c.Setting, 1)
		if c.Ctx.Kind != "" && c.Ctx.Kind != "none" {
			res.Count("cases.struct."+c.Ctx.Kind, 1)
		}
		if len(to.Allowed) > 1 {
			res.Count("cases_with_choice", 1)
		}
		for _, sr := range c.Srcs {
			if sr.K == "huge" {
				res.Count("cases.huge", 1)
				break
			}
			if c.Fam == "endpoint" && strings.ContainsAny(sr.V, " %+;?") {
				res.Count("cases.pathclass", 1)
				break
			}
		}
		if !inSet(o.Obs, to.Ideal) && ok {
			res.Count("admitted_non_ideal", 1)
		}
		if tries > 1 && ok {
			res.Count("retried_then_ok", 1)
		}
		if !ok {
			res.Count("mismatch", 1)
		}
		if i%499 == 0 {
			res.Sample(line)
		}
	}
	f.Close()
	vh.Must(ptw.Close())
	res.Count("pair_lines", ptw.N)
	vh.Must(res.Write(*resF))
}

// ---------------------------------------------------------------- random (code -> spec)

func randomMode(args []string) {
	fs := flag.NewFlagSet("random", flag.ExitOnError)
	n := fs.Int("n", 200, "")
	out := fs.String("out", "trace.ndjson", "")
	resF := fs.String("res", "result.json", "")
	fs.Parse(args)
	r := rand.New(rand.NewSource(vh.Seed()))
	tw, err := vh.NewTraceWriter(*out)
	vh.Must(err)
	res := vh.NewResult()
	for i := 0; i < *n; i++ {
		conc := NewConc(r.Intn(1000), r)
		evs := randomScenario(r, conc, res)
		for _, ev := range evs {
			ev["sc"] = i
			// TLC's JSON reader cannot represent null: no nil slices in the trace
			if cs, ok := ev["cases"].([]caseObs); ok {
				for j := range cs {
					if cs[j].Env == nil {
						cs[j].Env = []string{}
					}
					if cs[j].Obs == nil {
						cs[j].Obs = []string{"?no-observation"}
					}
				}
			}
			tw.Emit(ev)
		}
		res.Executed++
		if i < 3 {
			res.Sample(evs)
		}
	}
	vh.Must(tw.Close())
	res.Count("trace_lines", tw.N)
	vh.Must(res.Write(*resF))
}

func sortedCopy(s []string) []string {
	o := append([]string{}, s...)
	sort.Strings(o)
	return o
}

func main() {
	// the SDK reports configuration problems through the global error handler / logger; keep them quiet
	otel.SetErrorHandler(otel.ErrorHandlerFunc(func(error) {}))
	otel.SetLogger(logr.Discard())
	if len(os.Args) < 2 {
		fmt.Println("usage: c20 replay|random ...")
		os.Exit(3)
	}
	switch os.Args[1] {
	case "replay":
		replay(os.Args[2:])
	case "random":
		randomMode(os.Args[2:])
	default:
		os.Exit(3)
	}
}
