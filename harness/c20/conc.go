package main

// Concretization tables: abstract kind / value id of the specification -> concrete strings and
// numbers, and the inverse abstraction of observed numbers.  Reviewed against the OTel
// "SDK environment variables" / "OTLP exporter" documents (what counts as unparsable or out of
// range), not against the Go parsers.

import (
	"fmt"
	"math/rand"
	"strconv"
	"strings"
)

// Conc chooses the concrete representatives of one case / scenario.
//   - replay mode (r == nil): representative number `rep` of every table (deterministic)
//   - random mode (r != nil): random representatives, random concrete numbers inside the class
type Conc struct {
	rep  int
	r    *rand.Rand
	nums map[string]int // random mode: concrete number chosen for (unit, value id)
}

func NewConc(rep int, r *rand.Rand) *Conc { return &Conc{rep: rep, r: r, nums: map[string]int{}} }

func (c *Conc) pick(list []string) string {
	if c.r != nil {
		return list[c.r.Intn(len(list))]
	}
	return list[c.rep%len(list)]
}

func (c *Conc) pickInt(list []int) int {
	if c.r != nil {
		return list[c.r.Intn(len(list))]
	}
	return list[c.rep%len(list)]
}

var (
	repNonNum   = []string{"abc", "12abc", "0x10", "ten", "1,000", "5s", "1_000", "--5", "NaN", "١٢", "1e", "5 000", "0b11", "∞"}
	repNegCount = []string{"-1", "-5", "-2147483649", "-4096", "-9223372036854775808"}
	repNegMs    = []string{"-5000", "-1", "-86400000"}
	repZero     = []string{"0", "00", "-0", "+0"}
	repFloat    = []string{"1e3", "1500.5", "2.0", ".5", "3."}
	repOverflow = []string{"9999999999999999999", "18446744073709551616", "9223372036854775808", "100000000000000000000000000000000000000"}
	repPad      = []string{" %s ", "\t%s", "%s  ", "%s\n"}
)

// kind of number a setting holds
func unitOf(setting string) string {
	switch {
	case setting == "timeout":
		return "timeout"
	case strings.HasSuffix(setting, ".timeout"):
		return "sdktimeout"
	case strings.HasSuffix(setting, ".delay"):
		return "delay"
	}
	return "count"
}

// value ranges [lo, hi] per (unit, id); the classes are far enough apart (and from the
// documented defaults) that the inverse abstraction below is unambiguous.
var numRange = map[string][2]int{
	"timeout/O":    {19000, 23000}, // default 10000
	"timeout/S":    {38000, 44000},
	"timeout/G":    {58000, 70000},
	"sdktimeout/O": {9000, 12000}, // default 30000
	"sdktimeout/S": {50000, 56000},
	"delay/O":      {100, 100}, // defaults 5000 (BSP) / 1000 (BLRP)
	"delay/S":      {600, 600},
	"count/O":      {2, 4}, // defaults 128 / 512 / 2048, offered 140
	"count/S":      {5, 9},
	"count/G":      {10, 20},
	// cross-setting configurations of the batch processors: A = small, B = large (defaults 2048 / 512)
	"pair.queue/A": {60, 200},
	"pair.queue/B": {2500, 3500},
	"pair.batch/A": {20, 50},
	"pair.batch/B": {600, 1000},
}

// numVal: concrete value (count, or milliseconds) of value id for a setting.
func (c *Conc) numVal(setting, id string) int {
	if id == "A" || id == "B" {
		if unitOf(setting) == "count" {
			return c.numOf("pair." + setting[strings.IndexByte(setting, '.')+1:] + "/" + id)
		}
		id = map[string]string{"A": "O", "B": "S"}[id]
	}
	return c.numOf(unitOf(setting) + "/" + id)
}

func (c *Conc) numOf(key string) int {
	rg, ok := numRange[key]
	if !ok {
		panic("numVal: unknown value " + key)
	}
	if c.r == nil {
		n := rg[1] - rg[0] + 1
		if n > 3 {
			// three representatives: low end, high end, middle
			return []int{rg[0], rg[1], (rg[0] + rg[1]) / 2}[c.rep%3]
		}
		return rg[0] + c.rep%n
	}
	if v, ok := c.nums[key]; ok {
		return v
	}
	v := rg[0] + c.r.Intn(rg[1]-rg[0]+1)
	c.nums[key] = v
	return v
}

// defaults documented by the OTel specification (and repeated by the Go docs)
func defaultNum(setting string) int {
	switch setting {
	case "timeout":
		return 10000
	case "bsp.timeout", "blrp.timeout":
		return 30000
	case "bsp.delay":
		return 5000
	case "blrp.delay":
		return 1000
	case "bsp.queue", "blrp.queue":
		return 2048
	case "bsp.batch", "blrp.batch":
		return 512
	case "span.attr_len", "logrecord.attr_len":
		return -1
	}
	return 128
}

// envNum renders a numeric source as an environment variable value.
func (c *Conc) envNum(setting string, s Src) (string, bool) {
	switch s.K {
	case "absent":
		return "", false
	case "empty":
		return "", true // the variable is SET, to the empty string
	case "valid":
		return strconv.Itoa(c.numVal(setting, s.V)), true
	case "vdef":
		return strconv.Itoa(defaultNum(setting)), true // a valid value equal to the built-in default
	case "nonnum":
		return c.pick(repNonNum), true
	case "neg":
		if unitOf(setting) == "count" {
			return c.pick(repNegCount), true
		}
		return c.pick(repNegMs), true
	case "zero":
		return c.pick(repZero), true
	case "float":
		return c.pick(repFloat), true
	case "overflow":
		return c.pick(repOverflow), true
	case "huge": // a legal integer whose unit conversion overflows (huge.go)
		return c.hugeEnv(setting, s), true
	case "padded":
		return fmt.Sprintf(c.pick(repPad), strconv.Itoa(c.numVal(setting, s.V))), true
	}
	panic("envNum: kind " + s.K)
}

// optNum renders a numeric option source; ok=false when absent.
func (c *Conc) optNum(setting string, s Src) (int, bool) {
	switch s.K {
	case "absent":
		return 0, false
	case "valid":
		return c.numVal(setting, s.V), true
	case "vdef":
		return defaultNum(setting), true
	case "zero":
		return 0, true
	case "huge":
		return c.hugeOpt(setting), true
	case "neg":
		if unitOf(setting) == "count" {
			return c.pickInt([]int{-1, -7, -1 << 31}), true
		}
		return c.pickInt([]int{-5000, -1}), true
	}
	panic("optNum: kind " + s.K)
}

// absCount maps an observed count back to the value ids of the case.
// offered = how many items were offered (== observed means "no limit hit").
func (c *Conc) absCount(setting string, n, offered int) []string {
	var out []string
	for _, id := range []string{"O", "S", "G"} {
		if rg := numRange["count/"+id]; n >= rg[0] && n <= rg[1] && n == c.numVal(setting, id) {
			out = append(out, id)
		}
	}
	if d := defaultNum(setting); d >= 0 && n == d {
		out = append(out, "D")
	}
	if offered > 0 && n == offered {
		out = append(out, "U")
	}
	if n == 0 {
		out = append(out, "Z")
	}
	if len(out) == 0 {
		out = []string{fmt.Sprintf("?%d", n)}
	}
	return out
}

// absDeadline maps the remaining time of an observed deadline to a timeout id.  The deadline
// is observed a moment after it was created, so the remaining time is at most the configured
// value and (generous allowance for a loaded machine) at least 8 s less.
func (c *Conc) absDeadline(setting string, has bool, remainingMs int64) []string {
	if !has {
		return []string{"none"}
	}
	if remainingMs > yearMs {
		return []string{"far"} // a deadline centuries away (value class HUGE taken at its word)
	}
	match := func(v int) bool { return remainingMs > int64(v)-8000 && remainingMs <= int64(v)+500 }
	var out []string
	ids := []string{"O", "S", "G"}
	if unitOf(setting) == "sdktimeout" {
		ids = []string{"O", "S"}
	}
	for _, id := range ids {
		if match(c.numVal(setting, id)) {
			out = append(out, id)
		}
	}
	if match(defaultNum(setting)) {
		out = append(out, "D")
	}
	if len(out) == 0 {
		out = []string{fmt.Sprintf("?%dms", remainingMs)}
	}
	return out
}

// ---------------------------------------------------------------- headers

var hdrMaps = map[string]map[string]string{
	"mO":   {"x-c20-a": "O", "x-c20-o": "1"},
	"mS":   {"x-c20-a": "S", "x-c20-s": "1"},
	"mG":   {"x-c20-a": "G", "x-c20-g": "1"},
	"none": {},
}

var hdrEnvForms = map[string][]string{
	"mS": {"x-c20-a=S,x-c20-s=1", " x-c20-a = S , x-c20-s=1 ", "x-c20-s=1,x-c20-a=%53"},
	"mG": {"x-c20-a=G,x-c20-g=1", "x-c20-g=1 ,x-c20-a=G", "x-c20-a=%47,x-c20-g=1"},
}

var (
	repHdrGarbage = []string{"novalue", "=", ",,,", "=v", ";;", "%zz"}
	repHdrBadKey  = []string{"bad key=1", "kéy=1", "(k)=1", "k\"=1"}
	repHdrPartial = []string{"%s,novalue", "novalue,%s", "%s,bad key=1", "%s,=v", "%s,"}
)

func (c *Conc) envHeaders(s Src) (string, bool) {
	switch s.K {
	case "absent":
		return "", false
	case "empty":
		return "", true
	case "valid":
		return c.pick(hdrEnvForms[s.V]), true
	case "garbage":
		return c.pick(repHdrGarbage), true
	case "badkey":
		return c.pick(repHdrBadKey), true
	case "partial":
		return fmt.Sprintf(c.pick(repHdrPartial), hdrEnvForms[s.V][0]), true
	}
	panic("envHeaders: kind " + s.K)
}

func absHeaders(got map[string]string) []string {
	for _, id := range []string{"mO", "mS", "mG", "none"} {
		m := hdrMaps[id]
		if len(m) != len(got) {
			continue
		}
		same := true
		for k, v := range m {
			if got[k] != v {
				same = false
			}
		}
		if same {
			return []string{id}
		}
	}
	ks := make([]string, 0, len(got))
	for k, v := range got {
		ks = append(ks, k+"="+v)
	}
	return []string{"?" + strings.Join(sortedCopy(ks), ",")}
}

// ---------------------------------------------------------------- compression

var (
	repCmpUnknown = []string{"snappy", "zstd", "deflate", "1", "gzip,none", "gz"}
	repCmpCase    = []string{"GZIP", "Gzip", "gZip"}
)

func (c *Conc) envCompression(s Src) (string, bool) {
	switch s.K {
	case "absent":
		return "", false
	case "empty":
		return "", true
	case "valid":
		return s.V, true
	case "unknown":
		return c.pick(repCmpUnknown), true
	case "case":
		return c.pick(repCmpCase), true
	}
	panic("envCompression: kind " + s.K)
}

// ---------------------------------------------------------------- endpoint URLs

var repURLUnparsable = []string{"://%s", "http://[::1", "http://%s/%%zz", "http://%s:port", "ht tp://%s", "http://%s/\x7fa"}

// defaultHostPort: the documented default endpoint of the OTLP exporters.
func defaultHostPort(http bool) string {
	if http {
		return "localhost:4318"
	}
	return "localhost:4317"
}

func (c *Conc) envURL(s Src, hostport string, http bool) (string, bool) {
	switch s.K {
	case "absent":
		return "", false
	case "empty":
		return "", true
	case "defurl":
		return "http://" + defaultHostPort(http) + s.V, true
	case "url":
		return "http://" + hostport + s.V, true
	case "unparsable":
		f := c.pick(repURLUnparsable)
		if strings.Contains(f, "%s") {
			return fmt.Sprintf(f, hostport), true
		}
		return f, true
	case "noscheme":
		return hostport, true
	case "pathonly":
		return s.V, true
	}
	panic("envURL: kind " + s.K)
}
