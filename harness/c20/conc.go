package main

// Concretization tables: abstract kind / value id of the specification -> concrete strings and
// numbers, and the inverse abstraction of observed numbers.  Reviewed against the OTel
// "SDK environment variables" / "OTLP exporter" documents (what counts as unparsable or out of
// range), not against the Go parsers.

import (
	"fmt"
	"math/rand"
	"strconv"
	"strings"
)

type Conc struct {
	rep int
	r   *rand.Rand // nil: deterministic representative `rep`
}

func NewConc(rep int, r *rand.Rand) *Conc { return &Conc{rep: rep, r: r} }

func (c *Conc) pick(list []string) string {
	if c.r != nil {
		return list[c.r.Intn(len(list))]
	}
	return list[c.rep%len(list)]
}

func (c *Conc) pickInt(list []int) int { return list[c.rep%len(list)] }

var (
	repNonNum   = []string{"abc", "12abc", "0x10", "ten", "1,000", "5s"}
	repNegCount = []string{"-1", "-5", "-2147483649"}
	repNegMs    = []string{"-5000", "-1"}
	repZero     = []string{"0", "00", "-0"}
	repFloat    = []string{"1e3", "1500.5", "2.0"}
	repOverflow = []string{"9999999999999999999", "18446744073709551616", "9223372036854775808"}
	repPad      = []string{" %s ", "\t%s", "%s  "}
)

// kind of number a setting holds
func unitOf(setting string) string {
	switch {
	case setting == "timeout" || strings.HasSuffix(setting, ".timeout"):
		return "timeout"
	case strings.HasSuffix(setting, ".delay"):
		return "delay"
	}
	return "count"
}

// numVal: concrete value (count, or milliseconds) of value id for a setting.
func (c *Conc) numVal(setting, id string) int {
	switch unitOf(setting) {
	case "timeout":
		switch id {
		case "O":
			return c.pickInt([]int{20000, 24000})
		case "S":
			return c.pickInt([]int{40000, 45000})
		case "G":
			return c.pickInt([]int{60000, 75000})
		}
	case "delay":
		switch id {
		case "O":
			return 100
		case "S":
			return 600
		}
	default:
		switch id {
		case "O":
			return c.pickInt([]int{3, 2, 4})
		case "S":
			return c.pickInt([]int{5, 6, 9})
		case "G":
			return c.pickInt([]int{7, 8, 11})
		}
	}
	panic("numVal: unknown id " + id + " for " + setting)
}

// defaults documented by the OTel specification (and repeated by the Go docs)
func defaultNum(comp, setting string) int {
	switch setting {
	case "timeout":
		return 10000
	case "bsp.timeout", "blrp.timeout":
		return 30000
	case "bsp.delay":
		return 5000
	case "blrp.delay":
		return 1000
	case "bsp.queue", "blrp.queue":
		return 2048
	case "bsp.batch", "blrp.batch":
		return 512
	case "span.attr_len", "logrecord.attr_len":
		return -1
	}
	return 128
}

// envNum renders a numeric source as an environment variable value.
func (c *Conc) envNum(setting string, s Src) (string, bool) {
	switch s.K {
	case "absent":
		return "", false
	case "valid":
		return strconv.Itoa(c.numVal(setting, s.V)), true
	case "nonnum":
		return c.pick(repNonNum), true
	case "neg":
		if unitOf(setting) == "count" {
			return c.pick(repNegCount), true
		}
		return c.pick(repNegMs), true
	case "zero":
		return c.pick(repZero), true
	case "float":
		return c.pick(repFloat), true
	case "overflow":
		return c.pick(repOverflow), true
	case "padded":
		return fmt.Sprintf(c.pick(repPad), strconv.Itoa(c.numVal(setting, s.V))), true
	}
	panic("envNum: kind " + s.K)
}

// optNum renders a numeric option source; ok=false when absent.
func (c *Conc) optNum(setting string, s Src) (int, bool) {
	switch s.K {
	case "absent":
		return 0, false
	case "valid":
		return c.numVal(setting, s.V), true
	case "zero":
		return 0, true
	case "neg":
		if unitOf(setting) == "count" {
			return -1, true
		}
		return -5000, true
	}
	panic("optNum: kind " + s.K)
}

// absCount maps an observed count back to the value ids of the case.
// offered = how many items were offered (== observed means "no limit hit").
func (c *Conc) absCount(comp, setting string, n, offered int) []string {
	var out []string
	for _, id := range []string{"O", "S", "G"} {
		if unitOf(setting) == "count" && n == c.numVal(setting, id) {
			out = append(out, id)
		}
	}
	if d := defaultNum(comp, setting); d >= 0 && n == d {
		out = append(out, "D")
	}
	if offered > 0 && n == offered {
		out = append(out, "U")
	}
	if n == 0 {
		out = append(out, "Z")
	}
	if len(out) == 0 {
		out = []string{fmt.Sprintf("?%d", n)}
	}
	return out
}

// absDeadline maps the remaining time of an observed deadline to a timeout id.
// remainingMs < 0: no deadline at all.
func (c *Conc) absDeadline(comp, setting string, has bool, remainingMs int64) []string {
	if !has {
		return []string{"none"}
	}
	match := func(v int) bool { return remainingMs > int64(v)-3000 && remainingMs <= int64(v)+500 }
	var out []string
	for _, id := range []string{"O", "S", "G"} {
		if match(c.numVal(setting, id)) {
			out = append(out, id)
		}
	}
	if match(defaultNum(comp, setting)) {
		out = append(out, "D")
	}
	if len(out) == 0 {
		out = []string{fmt.Sprintf("?%dms", remainingMs)}
	}
	return out
}

// ---------------------------------------------------------------- headers

var hdrMaps = map[string]map[string]string{
	"mO":   {"x-c20-a": "O", "x-c20-o": "1"},
	"mS":   {"x-c20-a": "S", "x-c20-s": "1"},
	"mG":   {"x-c20-a": "G", "x-c20-g": "1"},
	"none": {},
}

var hdrEnvForms = map[string][]string{
	"mS": {"x-c20-a=S,x-c20-s=1", " x-c20-a = S , x-c20-s=1 ", "x-c20-s=1,x-c20-a=%53"},
	"mG": {"x-c20-a=G,x-c20-g=1", "x-c20-g=1 ,x-c20-a=G", "x-c20-a=%47,x-c20-g=1"},
}

var (
	repHdrGarbage = []string{"novalue", "=", ",,,", "=v"}
	repHdrBadKey  = []string{"bad key=1", "kéy=1", "(k)=1"}
	repHdrPartial = []string{"%s,novalue", "novalue,%s", "%s,bad key=1", "%s,=v"}
)

func (c *Conc) envHeaders(s Src) (string, bool) {
	switch s.K {
	case "absent":
		return "", false
	case "valid":
		return c.pick(hdrEnvForms[s.V]), true
	case "garbage":
		return c.pick(repHdrGarbage), true
	case "badkey":
		return c.pick(repHdrBadKey), true
	case "partial":
		return fmt.Sprintf(c.pick(repHdrPartial), hdrEnvForms[s.V][0]), true
	}
	panic("envHeaders: kind " + s.K)
}

func absHeaders(got map[string]string) []string {
	for id, m := range hdrMaps {
		if len(m) != len(got) {
			continue
		}
		same := true
		for k, v := range m {
			if got[k] != v {
				same = false
			}
		}
		if same {
			return []string{id}
		}
	}
	ks := make([]string, 0, len(got))
	for k, v := range got {
		ks = append(ks, k+"="+v)
	}
	return []string{"?" + strings.Join(sortedCopy(ks), ",")}
}

// ---------------------------------------------------------------- compression

var (
	repCmpUnknown = []string{"snappy", "zstd", "deflate", "1"}
	repCmpCase    = []string{"GZIP", "Gzip"}
)

func (c *Conc) envCompression(s Src) (string, bool) {
	switch s.K {
	case "absent":
		return "", false
	case "valid":
		return s.V, true
	case "unknown":
		return c.pick(repCmpUnknown), true
	case "case":
		return c.pick(repCmpCase), true
	}
	panic("envCompression: kind " + s.K)
}

// ---------------------------------------------------------------- endpoint URLs

var (
	repURLUnparsable = []string{"://%s", "http://[::1", "http://%s/%%zz"}
	repURLPathOnly   = []string{"/only/path", "only/path"}
)

func (c *Conc) envURL(s Src, hostport string) (string, bool) {
	switch s.K {
	case "absent":
		return "", false
	case "url":
		return "http://" + hostport + s.V, true
	case "unparsable":
		f := c.pick(repURLUnparsable)
		if strings.Contains(f, "%s") {
			return fmt.Sprintf(f, hostport), true
		}
		return f, true
	case "noscheme":
		return hostport, true
	case "pathonly":
		return c.pick(repURLPathOnly), true
	}
	panic("envURL: kind " + s.K)
}
