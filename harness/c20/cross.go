package main

// Cross-setting clause of the batch processors (ConfigPrecedence.tla, NormalizeCross): a
// configuration of the four variables <<queue size, batch size, export timeout, schedule delay>>
// and its normalized form (ill-formed values without a documented meaning replaced by absent)
// are BOTH executed on the real processor; every observable of the component (queue capacity by
// overflow, batch size by the length of size-triggered exports under a one-hour schedule delay,
// export deadline class) is logged for both.  Trace_ConfigPrecedence.tla compares the two
// observations (and re-derives the normalized configuration itself).  How valid settings
// interact (batch size clamped by the queue size) is not judged: only the equivalence is.

import (
	"context"
	"fmt"
	"math/rand"
	"os"
	"runtime"
	"strconv"
	"time"

	sdklog "go.opentelemetry.io/otel/sdk/log"
	sdktrace "go.opentelemetry.io/otel/sdk/trace"
	"go.opentelemetry.io/otel/sdk/verifh/vh"
)

var crossSuffix = []string{"queue", "batch", "timeout", "delay"}

// crossObs is the observable outcome of one processor configuration (strings: uniform JSON).
type crossObs struct {
	Q string `json:"q"` // queue capacity
	B string `json:"b"` // batch size
	T string `json:"t"` // export timeout class
}

func crossEnv(proc string, srcs []Src, conc *Conc) [][2]string {
	var env [][2]string
	for i, s := range srcs {
		setting := proc + "." + crossSuffix[i]
		if v, ok := conc.envNum(setting, s); ok {
			env = append(env, [2]string{sdkEnvNames[setting][0], v})
		}
	}
	return env
}

// observeCross runs the three experiments under the given environment.
func observeCross(proc string, env [][2]string, conc *Conc) (crossObs, string) {
	var o crossObs
	var details string
	for _, what := range []string{"queue", "batch", "timeout"} {
		clearEnv()
		for _, kv := range env {
			os.Setenv(kv[0], kv[1])
		}
		var val, detail string
		err, special := guarded(2*watchdog, func() error {
			if proc == "bsp" {
				val, detail = crossBSP(what, conc)
			} else {
				val, detail = crossBLRP(what, conc)
			}
			return nil
		})
		clearEnv()
		if special != "" {
			val, detail = special, errText(err)
			if len(detail) > 300 && special == "PANIC" {
				detail = detail[:300]
			}
		}
		switch what {
		case "queue":
			o.Q = val
		case "batch":
			o.B = val
		case "timeout":
			o.T = val
		}
		details += what + ": " + detail + "; "
	}
	return o, details
}

func crossBSP(what string, conc *Conc) (string, string) {
	ctx := context.Background()
	hour := sdktrace.WithBatchTimeout(time.Hour)
	switch what {
	case "queue":
		// batch size 1 by option: the worker blocks inside the exporter holding one span, the
		// queue overflows behind it; everything the environment says about the queue (and whatever
		// the other variables do to it) stays in effect
		rec := &spanRec{entered: make(chan struct{}), release: make(chan struct{})}
		p := sdktrace.NewBatchSpanProcessor(rec, hour, sdktrace.WithMaxExportBatchSize(1))
		n := 0
		entered := false
		for try := 0; try < 3000 && !entered; try++ {
			p.OnEnd(sampledSpan(n))
			n++
			wait := 10 * time.Millisecond
			if try == 0 {
				wait = 500 * time.Millisecond
			}
			select {
			case <-rec.entered:
				entered = true
			case <-time.After(wait):
			}
		}
		if !entered {
			close(rec.release)
			p.Shutdown(ctx)
			return inconcl + "never-exported", ""
		}
		for i := 0; i < 5000; i++ {
			p.OnEnd(sampledSpan(n))
			n++
		}
		close(rec.release)
		p.Shutdown(ctx)
		return strconv.Itoa(rec.total - 1), fmt.Sprintf("ended=%d delivered=%d", n, rec.total)
	case "batch":
		// no option touches the sizes; exports are only triggered by a full batch: the length of
		// the first export is the effective batch size
		rec := &spanRec{entered: make(chan struct{})}
		p := sdktrace.NewBatchSpanProcessor(rec, hour)
		n := 0
		deadline := time.Now().Add(20 * time.Second)
		exported := false
		for !exported && time.Now().Before(deadline) && n < 3000000 {
			for i := 0; i < 200; i++ {
				p.OnEnd(sampledSpan(n))
				n++
			}
			select {
			case <-rec.entered:
				exported = true
			default:
				runtime.Gosched()
			}
		}
		if !exported {
			select {
			case <-rec.entered:
				exported = true
			case <-time.After(2 * time.Second):
			}
		}
		rec.mu.Lock()
		first := 0
		if len(rec.batches) > 0 {
			first = rec.batches[0]
		}
		rec.mu.Unlock()
		p.Shutdown(ctx)
		if !exported {
			return inconcl + "no-size-triggered-export", fmt.Sprintf("ended=%d", n)
		}
		return strconv.Itoa(first), fmt.Sprintf("ended=%d first batch=%d", n, first)
	default:
		rec := &spanRec{entered: make(chan struct{})}
		p := sdktrace.NewBatchSpanProcessor(rec, hour)
		p.OnEnd(sampledSpan(0))
		p.ForceFlush(ctx)
		p.Shutdown(ctx)
		if rec.total == 0 {
			return inconcl + "never-exported", ""
		}
		return conc.absDeadline("bsp.timeout", rec.hasDL, rec.remMs)[0], fmt.Sprintf("deadline=%v rem=%dms", rec.hasDL, rec.remMs)
	}
}

func crossBLRP(what string, conc *Conc) (string, string) {
	ctx := context.Background()
	hour := sdklog.WithExportInterval(time.Hour)
	switch what {
	case "queue":
		rec := &logRec{entered: make(chan struct{}), release: make(chan struct{})}
		p := sdklog.NewBatchProcessor(rec, hour, sdklog.WithExportMaxBatchSize(1))
		var seq int64
		p.OnEmit(ctx, logRecord(seq))
		seq++
		select {
		case <-rec.entered:
		case <-time.After(20 * time.Second):
			close(rec.release)
			p.Shutdown(ctx)
			return inconcl + "never-exported", ""
		}
		for i := 0; i < 6000; i++ {
			p.OnEmit(ctx, logRecord(seq))
			seq++
		}
		close(rec.release)
		p.Shutdown(ctx)
		have := map[int64]bool{}
		for _, s := range rec.seqs {
			have[s] = true
		}
		run := 0
		for s := seq - 1; s >= 0 && have[s]; s-- {
			run++
		}
		return strconv.Itoa(run), fmt.Sprintf("emitted=%d delivered=%d", seq, len(rec.seqs))
	case "batch":
		// the largest export: size-triggered exports and the chunks of the final flush are
		// bounded by the effective batch size (and by what the ring holds)
		rec := &logRec{entered: make(chan struct{})}
		p := sdklog.NewBatchProcessor(rec, hour)
		for i := 0; i < 8000; i++ {
			p.OnEmit(ctx, logRecord(int64(i)))
		}
		p.Shutdown(ctx)
		m := maxInt(rec.batches)
		return strconv.Itoa(m), fmt.Sprintf("batches=%d max=%d", len(rec.batches), m)
	default:
		rec := &logRec{entered: make(chan struct{})}
		p := sdklog.NewBatchProcessor(rec, hour)
		p.OnEmit(ctx, logRecord(0))
		p.ForceFlush(ctx)
		p.Shutdown(ctx)
		if len(rec.seqs) == 0 {
			return inconcl + "never-exported", ""
		}
		return conc.absDeadline("blrp.timeout", rec.hasDL, rec.remMs)[0], fmt.Sprintf("deadline=%v rem=%dms", rec.hasDL, rec.remMs)
	}
}

// runCross executes a configuration and its reference and returns the trace event.  When the
// two observations differ both are re-run (a genuine difference reproduces, a hiccup of the
// saturation experiments does not); only the last pair is logged.
func runCross(proc string, srcs, norm []Src, conc *Conc, res *vh.Result) map[string]any {
	env := crossEnv(proc, srcs, conc)
	ref := crossEnv(proc, norm, conc)
	var o, r crossObs
	var od, rd string
	tries := 0
	for tries < 3 {
		tries++
		o, od = observeCross(proc, env, conc)
		r, rd = observeCross(proc, ref, conc)
		if o == r {
			break
		}
	}
	if tries > 1 && o == r {
		res.Count("cross.retried_then_equal", 1)
	}
	res.Count("cross."+proc, 1)
	flat := func(kvs [][2]string) []string {
		out := []string{}
		for _, kv := range kvs {
			out = append(out, kv[0]+"="+kv[1])
		}
		return out
	}
	return map[string]any{"ev": "Pair", "comp": proc, "srcs": srcs, "norm": norm, "obs": o, "ref": r,
		"env": flat(env), "refenv": flat(ref), "detail": od, "refdetail": rd, "tries": tries}
}

// normalizeForRun is the harness' copy of NormalizeCross, used ONLY to choose the reference
// configuration of random scenarios; every trace line is checked against the specification's
// own NormalizeCross (a disagreement is reported as drift, never as a verdict).
func normalizeForRun(srcs []Src) []Src {
	out := make([]Src, len(srcs))
	for i, s := range srcs {
		out[i] = s
		switch s.K {
		case "nonnum", "neg", "float", "overflow", "empty":
			out[i] = absent
		case "zero":
			if i < 2 { // sizes: zero has no meaning; durations: zero is a documented value
				out[i] = absent
			}
		}
	}
	return out
}

func crossSrc(r *rand.Rand, i int) Src {
	ill := []Src{{K: "nonnum"}, {K: "neg"}, {K: "float"}, {K: "overflow"}, {K: "empty"}}
	if i < 2 {
		ill = append(ill, Src{K: "zero"})
	}
	return choose(r, 30, 35, func() Src { return valid([]string{"A", "B"}[r.Intn(2)]) }, ill)
}

func crossScenario(r *rand.Rand, conc *Conc, res *vh.Result) (string, map[string]any) {
	proc := []string{"bsp", "blrp"}[r.Intn(2)]
	srcs := make([]Src, 4)
	illformed := false
	for !illformed {
		for i := range srcs {
			srcs[i] = crossSrc(r, i)
			if srcs[i].K != "absent" && srcs[i].K != "valid" {
				illformed = true
			}
		}
	}
	return proc, runCross(proc, srcs, normalizeForRun(srcs), conc, res)
}
