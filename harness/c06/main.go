// c06: conformance harness for BatchLP.tla / Trace_BatchLP.tla (property C06).
//
//	c06 random  -n N -out TRACE -res R             seeded random scenarios with schedule perturbation
//	c06 scripts -in FILE -out TRACE -res R         TLC behaviours / directed schedules replayed with gates
//	c06 pipeline -n N [-in FILE] -out TRACE -res R  the provider pipeline around it (pipeline.go, SLP.tla)
//
// Every scenario drives a real sdk/log BatchProcessor registered in a real LoggerProvider (Logger.Emit
// -> newRecord -> OnEmit -> Clone is the real path), followed by a second processor that mutates the
// record it is handed (the "later changes to the caller's record"), and records the API-level history
// (Call/Ret with one atomic sequence number, exporter events inside the exporter) plus -- when the
// tree carries the sdk/log verif hooks (build tag c06hooks, see hooks_on.go) -- the queue's
// linearization events as ndjson. Nothing is judged here: Trace_BatchLP.tla is the oracle.
package main

import (
	"context"
	"encoding/json"
	"errors"
	"flag"
	"fmt"
	"hash/fnv"
	"math/rand"
	"os"
	"runtime"
	"strconv"
	"strings"
	"sync"
	"sync/atomic"
	"time"

	"github.com/go-logr/logr"

	"go.opentelemetry.io/otel"
	"go.opentelemetry.io/otel/log"
	sdklog "go.opentelemetry.io/otel/sdk/log"
	"go.opentelemetry.io/otel/sdk/verifh/vh"
)

type procKey struct{}

// procInfo travels in the ctx of ForceFlush / Shutdown calls: which harness process made the call, in
// which scenario (a goroutine leaked by an abandoned scenario must not speak for the current one).
type procInfo struct {
	name string
	sc   int
}

// Scenario is one configuration + workload (+ optional gate script).
type Scenario struct {
	Emitters   int      `json:"emitters"`
	RecsPer    int      `json:"recsPer"`
	QCap       int      `json:"qcap"`
	MaxBatch   int      `json:"maxbatch"`
	BufSize    int      `json:"bufsize"`
	Flushers   int      `json:"flushers"`
	FlushesPer int      `json:"flushesPer"`
	Stoppers   int      `json:"stoppers"`
	IntervalUs int      `json:"intervalUs"`      // export interval in microseconds; 0 = one hour (ticker never fires)
	ExportTOms int      `json:"exportTimeoutMs"` // export timeout
	ExpMode    string   `json:"expMode"`         // "ok" | "mixed" (sleep / error / wait-for-deadline at random) | "slow" (every Export sleeps) | "hold" (first Export blocks until every Emit returned)
	XRes       []string `json:"xres,omitempty"`  // scripted result of the n-th Export call: "ok" | "err"
	Phased     bool     `json:"phased"`          // flushers and stoppers start only after every Emit returned
	NAttrs     int      `json:"nattrs"`          // attributes per record besides the two identity attributes
	Perturb    float64  `json:"perturb"`
	Script     []string `json:"script,omitempty"`
	Name       string   `json:"name,omitempty"`
	Seed       int64    `json:"seed"`
	// Cancels: ForceFlush / Shutdown calls whose context ends. Scripted scenarios get them from their script: a key
	// "<proc>@cancel" is the moment the harness cancels <proc>'s context (possibly before the call is made).
	Cancels []CancelSpec `json:"cancels,omitempty"`
}

// CancelSpec: how the context of one ForceFlush / Shutdown call ends.
type CancelSpec struct {
	Proc    string `json:"proc"`    // "f1" | "f1.2" | "s1" ...
	Mode    string `json:"mode"`    // "script" (gate "<proc>@cancel") | "pre" (before the call) | "during" | "deadline"
	DelayUs int    `json:"delayUs"` // during: after the call began; deadline: timeout counted from the call
}

// ---------------------------------------------------------------- record content

func renderValue(sb *strings.Builder, v log.Value) {
	switch v.Kind() {
	case log.KindEmpty:
		sb.WriteString("E")
	case log.KindBool:
		fmt.Fprintf(sb, "b%v", v.AsBool())
	case log.KindFloat64:
		fmt.Fprintf(sb, "f%v", v.AsFloat64())
	case log.KindInt64:
		fmt.Fprintf(sb, "i%d", v.AsInt64())
	case log.KindString:
		fmt.Fprintf(sb, "s%q", v.AsString())
	case log.KindBytes:
		fmt.Fprintf(sb, "x%x", v.AsBytes())
	case log.KindSlice:
		sb.WriteString("[")
		for _, e := range v.AsSlice() {
			renderValue(sb, e)
			sb.WriteString(",")
		}
		sb.WriteString("]")
	case log.KindMap:
		sb.WriteString("{")
		for _, kv := range v.AsMap() {
			fmt.Fprintf(sb, "%q:", kv.Key)
			renderValue(sb, kv.Value)
			sb.WriteString(",")
		}
		sb.WriteString("}")
	}
}

// digest is the projection of a record's content the statement talks about ("exported records are
// unaffected by later changes"): everything the caller put in.
func digest(ts time.Time, ev string, sev log.Severity, sevText string, body log.Value, attrs []log.KeyValue) string {
	var sb strings.Builder
	fmt.Fprintf(&sb, "%d|%q|%d|%q|", ts.UnixNano(), ev, sev, sevText)
	renderValue(&sb, body)
	for _, kv := range attrs {
		fmt.Fprintf(&sb, "|%q=", kv.Key)
		renderValue(&sb, kv.Value)
	}
	h := fnv.New64a()
	h.Write([]byte(sb.String()))
	return fmt.Sprintf("%016x", h.Sum64())
}

func sdkDigest(r *sdklog.Record) string {
	var attrs []log.KeyValue
	r.WalkAttributes(func(kv log.KeyValue) bool { attrs = append(attrs, kv); return true })
	return digest(r.Timestamp(), r.EventName(), r.Severity(), r.SeverityText(), r.Body(), attrs)
}

// ident reads the identity attributes (record id, scenario) the harness puts first into every record.
func ident(r *sdklog.Record) (id, sc int, ok bool) {
	id, sc = -1, -1
	r.WalkAttributes(func(kv log.KeyValue) bool {
		switch kv.Key {
		case "vid":
			id = int(kv.Value.AsInt64())
		case "vsc":
			sc = int(kv.Value.AsInt64())
		}
		return id < 0 || sc < 0
	})
	return id, sc, id >= 0 && sc >= 0
}

func randValue(r *rand.Rand, depth int) log.Value {
	switch k := r.Intn(8); {
	case k == 0:
		return log.BoolValue(r.Intn(2) == 0)
	case k == 1:
		return log.Int64Value(r.Int63n(1000) - 500)
	case k == 2:
		return log.Float64Value(float64(r.Intn(1000)) / 8)
	case k == 3:
		return log.BytesValue([]byte(fmt.Sprintf("bytes-%d", r.Intn(1000))))
	case k == 4 && depth < 2:
		n := r.Intn(4)
		vs := make([]log.Value, n)
		for i := range vs {
			vs[i] = randValue(r, depth+1)
		}
		return log.SliceValue(vs...)
	case k == 5 && depth < 2:
		n := r.Intn(3)
		kvs := make([]log.KeyValue, n)
		for i := range kvs {
			kvs[i] = log.KeyValue{Key: fmt.Sprintf("m%d", i), Value: randValue(r, depth+1)}
		}
		return log.MapValue(kvs...)
	default:
		return log.StringValue(fmt.Sprintf("value-%d", r.Intn(100000)))
	}
}

// buildRecord makes the caller's API record and the digest of what it contains at Emit time. attrs is
// the caller's own slice (it stays the caller's: AddAttributes copies), mutated after Emit returned.
func buildRecord(r *rand.Rand, id, scn, nattrs int) (rec log.Record, attrs []log.KeyValue, dg string) {
	ts := time.Unix(1700000000, int64(id)*1000+int64(scn))
	ev := ""
	if r.Intn(3) == 0 {
		ev = fmt.Sprintf("event-%d", id)
	}
	sev := log.Severity(1 + r.Intn(24))
	sevText := fmt.Sprintf("sev-%d", r.Intn(5))
	body := randValue(r, 0)
	attrs = []log.KeyValue{log.Int64("vid", int64(id)), log.Int64("vsc", int64(scn))}
	for i := 0; i < nattrs; i++ {
		attrs = append(attrs, log.KeyValue{Key: fmt.Sprintf("a%d", i), Value: randValue(r, 0)})
	}
	rec.SetTimestamp(ts)
	rec.SetEventName(ev)
	rec.SetSeverity(sev)
	rec.SetSeverityText(sevText)
	rec.SetBody(body)
	rec.AddAttributes(attrs...)
	return rec, attrs, digest(ts, ev, sev, sevText, body, attrs)
}

// mutator is the processor registered AFTER the batch processor: it changes the record the batch
// processor was handed (body, severity, attributes held in the shared `back` slice, ...).
type mutator struct{ on bool }

func (m *mutator) OnEmit(_ context.Context, r *sdklog.Record) error {
	if !m.on {
		return nil
	}
	var keys []string
	r.WalkAttributes(func(kv log.KeyValue) bool { keys = append(keys, kv.Key); return true })
	r.SetBody(log.StringValue("MUTATED-BY-NEXT-PROCESSOR"))
	r.SetSeverity(log.SeverityFatal4)
	r.SetSeverityText("MUTATED")
	r.SetEventName("MUTATED")
	r.SetTimestamp(time.Unix(1, 1))
	for i := len(keys) - 1; i >= 2 && i >= len(keys)-3; i-- { // in-place overwrite of existing attributes (the last ones live in `back`)
		r.AddAttributes(log.String(keys[i], "MUTATED"))
	}
	r.AddAttributes(log.String("added-by-next-processor", "MUTATED"))
	return nil
}
func (m *mutator) Shutdown(context.Context) error   { return nil }
func (m *mutator) ForceFlush(context.Context) error { return nil }

// ---------------------------------------------------------------- exporter

type recExporter struct {
	tw      *vh.TraceWriter
	sc      int
	gate    func(string)
	mode    string
	xres    []string
	rng     *rand.Rand
	mu      sync.Mutex
	exports int64
	release chan struct{}
	res     *vh.Result
}

func (e *recExporter) Export(ctx context.Context, recs []sdklog.Record) error {
	ids := make([]int, len(recs))
	dgs := make([]string, len(recs))
	for i := range recs {
		id, rsc, ok := ident(&recs[i])
		if !ok || rsc != e.sc {
			id = -1 // not a record of this scenario: the contract reports exported-unknown-record
		}
		ids[i] = id
		dgs[i] = sdkDigest(&recs[i])
	}
	dl, hasDL := ctx.Deadline()
	e.tw.Emit(map[string]any{"ev": "ExportBegin", "sc": e.sc, "ids": ids, "digests": dgs})
	n := atomic.AddInt64(&e.exports, 1)
	e.gate("x@exp.begin")
	var err error
	switch {
	case int(n) <= len(e.xres):
		if e.xres[n-1] == "err" {
			err = errors.New("export failed (scripted)")
		}
	case e.mode == "hold" && n == 1:
		select {
		case <-e.release:
		case <-time.After(2 * time.Second): // safety net only; the harness releases when every Emit returned
			e.res.Count("hold_safety_timeouts", 1)
		}
	case e.mode == "slow":
		e.mu.Lock()
		d := time.Duration(200+e.rng.Intn(1300)) * time.Microsecond
		e.mu.Unlock()
		time.Sleep(d)
	case e.mode == "mixed":
		e.mu.Lock()
		k := e.rng.Intn(8)
		d := time.Duration(e.rng.Intn(1500)) * time.Microsecond
		e.mu.Unlock()
		switch k {
		case 0, 1:
			time.Sleep(d)
		case 2, 3:
			err = errors.New("export failed")
		case 4:
			if hasDL && time.Until(dl) < 10*time.Millisecond {
				<-ctx.Done() // exporter that only gives up at the export timeout
				err = ctx.Err()
			}
		}
	}
	if err != nil {
		e.res.Count("export_errors", 1)
	}
	e.tw.Emit(map[string]any{"ev": "ExportEnd", "sc": e.sc, "err": errStr(err)})
	return err
}

func procOf(ctx context.Context, sc int) string {
	pi, _ := ctx.Value(procKey{}).(procInfo)
	if pi.sc != sc {
		return ""
	}
	return pi.name
}

func (e *recExporter) ForceFlush(ctx context.Context) error {
	p := procOf(ctx, e.sc)
	e.tw.Emit(map[string]any{"ev": "ExporterFlush", "sc": e.sc, "proc": p})
	if p != "" {
		e.gate(p + "@exp.flush")
	}
	return nil
}

func (e *recExporter) Shutdown(ctx context.Context) error {
	p := procOf(ctx, e.sc)
	e.tw.Emit(map[string]any{"ev": "ExporterShutdown", "sc": e.sc, "proc": p})
	if p != "" {
		e.gate(p + "@exp.shutdown")
	}
	return nil
}

func errStr(err error) string {
	if err == nil {
		return ""
	}
	return err.Error()
}

// ---------------------------------------------------------------- SDK warning "dropped log records"

// goid returns the id of the calling goroutine (harness-only use: telling the poll goroutine of the current scenario's
// processor from one that outlived an earlier scenario because a Shutdown whose context had ended did not wait for it).
func goid() int64 {
	var buf [64]byte
	n := runtime.Stack(buf[:], false)
	f := strings.Fields(string(buf[:n]))
	if len(f) < 2 {
		return -1
	}
	id, err := strconv.ParseInt(f[1], 10, 64)
	if err != nil {
		return -1
	}
	return id
}

var (
	pollGID    atomic.Int64 // goroutine id of the current scenario's poll goroutine (0: not seen yet; hooks only)
	curScn     atomic.Int64 // scenario whose poll goroutine may log right now
	logTainted atomic.Bool  // a processor of an abandoned scenario may still be polling: stop attributing
	logTW      *vh.TraceWriter
)

type warnSink struct{}

func (warnSink) Init(logr.RuntimeInfo)            {}
func (warnSink) Enabled(level int) bool           { return level <= 1 }
func (warnSink) Error(error, string, ...any)      {}
func (s warnSink) WithValues(...any) logr.LogSink { return s }
func (s warnSink) WithName(string) logr.LogSink   { return s }
func (warnSink) Info(_ int, msg string, kv ...any) {
	if msg != "dropped log records" || logTainted.Load() || logTW == nil {
		return
	}
	if haveHooks && pollGID.Load() != goid() {
		return // the poll goroutine of an earlier scenario's processor, on its way out
	}
	for i := 0; i+1 < len(kv); i += 2 {
		if k, _ := kv[i].(string); k == "dropped" {
			if n, ok := kv[i+1].(uint64); ok {
				logTW.Emit(map[string]any{"ev": "LogDropped", "sc": int(curScn.Load()), "n": n})
			}
		}
	}
}

// ---------------------------------------------------------------- one scenario

// pts: also record one Pt line for every verif point a goroutine passes (input of Trace_BatchLPImpl.tla;
// the contract monitor ignores them). Only a sample of the random scenarios gets them: a poll goroutine
// that spins on a full buffer writes thousands.
func runScenario(scn int, sc Scenario, pts bool, tw *vh.TraceWriter, res *vh.Result) {
	pt := func(proc, point string, n int) {
		if pts {
			tw.Emit(map[string]any{"ev": "Pt", "sc": scn, "proc": proc, "point": point, "n": n})
		}
	}
	rng := rand.New(rand.NewSource(sc.Seed))
	sched := vh.NewSched(sc.Script, sc.Seed+7)
	sched.Perturb = sc.Perturb
	sched.Timeout = 150 * time.Millisecond
	// a gate has an arrival marker ("key+": nobody scripted after it moves before this goroutine got
	// here) and the gate proper ("key": wait for the turn); keys not in the script pass freely
	gate := func(key string) {
		sched.Arrive(key + "+")
		sched.Arrive(key)
	}
	exp := &recExporter{tw: tw, sc: scn, gate: gate, mode: sc.ExpMode, xres: sc.XRes, res: res,
		rng: rand.New(rand.NewSource(sc.Seed + 1)), release: make(chan struct{})}

	interval := time.Hour
	if sc.IntervalUs > 0 {
		interval = time.Duration(sc.IntervalUs) * time.Microsecond
	}
	// emitters / recsPer / flushers / stoppers: the constants of BatchLP.tla for Trace_BatchLPImpl.tla (the
	// implementation-shaped spec explains the same trace); untainted: no goroutine of an abandoned scenario is around,
	// so LogDropped lines and empty QFlushed lines are still recorded and attributed reliably
	fnames, snames := []string{}, []string{}
	for f := 1; f <= sc.Flushers; f++ {
		for j := 1; j <= sc.FlushesPer; j++ {
			if sc.FlushesPer > 1 {
				fnames = append(fnames, fmt.Sprintf("f%d.%d", f, j))
			} else {
				fnames = append(fnames, fmt.Sprintf("f%d", f))
			}
		}
	}
	for s := 1; s <= sc.Stoppers; s++ {
		snames = append(snames, fmt.Sprintf("s%d", s))
	}
	if sc.Stoppers == 0 {
		snames = append(snames, "s0")
	}
	tw.Emit(map[string]any{"ev": "Cfg", "sc": scn, "qcap": sc.QCap, "maxbatch": sc.MaxBatch, "bufsize": sc.BufSize,
		"hooks": haveHooks, "name": sc.Name, "kind": "batch", "emitters": sc.Emitters, "recsPer": sc.RecsPer,
		"flushers": fnames, "stoppers": snames, "pts": pts, "untainted": !logTainted.Load()})
	curScn.Store(int64(scn))
	pollGID.Store(0)
	bp := sdklog.NewBatchProcessor(exp,
		sdklog.WithMaxQueueSize(sc.QCap), sdklog.WithExportMaxBatchSize(sc.MaxBatch), sdklog.WithExportBufferSize(sc.BufSize),
		sdklog.WithExportInterval(interval), sdklog.WithExportTimeout(time.Duration(sc.ExportTOms)*time.Millisecond))
	mut := &mutator{on: true}
	lp := sdklog.NewLoggerProvider(sdklog.WithProcessor(bp), sdklog.WithProcessor(mut))
	logger := lp.Logger("c06")

	owner := map[int]string{} // record id -> "g<i>:<k>"
	for g := 1; g <= sc.Emitters; g++ {
		for k := 1; k <= sc.RecsPer; k++ {
			owner[g*1000+k] = fmt.Sprintf("g%d:%d", g, k)
		}
	}
	idsOf := func(recs []sdklog.Record) ([]int, bool) {
		ids := make([]int, len(recs))
		for i := range recs {
			id, rsc, ok := ident(&recs[i])
			if !ok || rsc != scn {
				return nil, false
			}
			ids[i] = id
		}
		return ids, true
	}
	lastOffer := "" // only touched under the queue lock of this scenario's processor
	installHook(func(point string, args ...any) {
		if len(args) == 0 {
			return
		}
		switch point {
		case "blp.onemit.checked", "blp.onemit.ignored", "blp.onemit.enqueued":
			r, ok := args[0].(*sdklog.Record)
			if !ok {
				return
			}
			id, rsc, ok := ident(r)
			if !ok || rsc != scn {
				return
			}
			if point == "blp.onemit.ignored" {
				tw.Emit(map[string]any{"ev": "Ignored", "sc": scn, "id": id})
			}
			pt(fmt.Sprintf("g%d", id/1000), point, 0)
			gate(owner[id] + "@" + point)
		case "blp.q.enqueued": // queue lock held: log only, never wait
			r, ok := args[0].(sdklog.Record)
			if !ok || len(args) < 3 {
				return
			}
			id, rsc, ok := ident(&r)
			if !ok || rsc != scn {
				return
			}
			full, _ := args[2].(bool)
			over := 0
			if full {
				over = -1
				if old, ok := args[1].(sdklog.Record); ok {
					if oid, osc, ok := ident(&old); ok && osc == scn {
						over = oid
					}
				}
				res.Count("overwrites", 1)
			}
			tw.Emit(map[string]any{"ev": "Enq", "sc": scn, "id": id, "full": full, "over": over})
		case "blp.q.offered", "blp.q.dequeued", "blp.q.restored", "blp.q.flushed": // queue lock held: log only
			recs, ok := args[0].([]sdklog.Record)
			if ok && len(recs) == 0 && point == "blp.q.flushed" && !logTainted.Load() {
				// an empty final Flush(): nothing identifies the scenario, so it is only recorded while no goroutine of
				// an abandoned scenario can be around (Cfg.untainted tells the monitor whether it may rely on it)
				tw.Emit(map[string]any{"ev": "QFlushed", "sc": scn, "ids": []int{}})
				return
			}
			if !ok || len(recs) == 0 {
				return
			}
			ids, ok := idsOf(recs)
			if !ok {
				return
			}
			switch point {
			case "blp.q.offered": // before the buffer (and so the export goroutine) can see the batch
				// a ForceFlush spinning on a full buffer offers the same batch thousands of times: one line is enough
				// (same ids = same grouping for the monitor; any different offer in between is logged and resets this)
				if k := fmt.Sprint(ids); k != lastOffer {
					lastOffer = k
					tw.Emit(map[string]any{"ev": "Offer", "sc": scn, "ids": ids})
				}
			case "blp.q.dequeued":
				tw.Emit(map[string]any{"ev": "Deq", "sc": scn, "ids": ids})
				res.Count("dequeues", 1)
				if len(ids) > sc.MaxBatch {
					res.Count("dequeues_multi_chunk", 1)
				}
			case "blp.q.flushed":
				tw.Emit(map[string]any{"ev": "QFlushed", "sc": scn, "ids": ids})
				res.Count("final_flushes_nonempty", 1)
			default:
				res.Count("buffer_full_restores", 1) // counted only: a spinning ForceFlush produces thousands
			}
		case "blp.poll.woke", "blp.poll.dequeued":
			if b, ok := args[0].(*sdklog.BatchProcessor); !ok || b != bp {
				return
			}
			if point == "blp.poll.woke" && pollGID.Load() == 0 {
				pollGID.Store(goid())
			}
			qlen := 0
			if len(args) > 1 {
				qlen, _ = args[1].(int)
			}
			pt("poll", point, qlen)
			gate("poll@" + point)
		default: // ForceFlush / Shutdown points carry the caller's ctx
			ctx, ok := args[0].(context.Context)
			if !ok {
				return
			}
			proc := procOf(ctx, scn)
			if proc == "" {
				return
			}
			switch point {
			case "blp.ff.stopped", "blp.sd.already":
				tw.Emit(map[string]any{"ev": "Early", "sc": scn, "proc": proc, "where": "processor"})
			case "blp.xff.stopped":
				tw.Emit(map[string]any{"ev": "Early", "sc": scn, "proc": proc, "where": "exporter"})
			}
			pt(proc, point, 0)
			gate(proc + "@" + point)
		}
	})
	defer removeHook()

	var wg, emWG sync.WaitGroup
	var live sync.Map
	start := func(name string, f func()) {
		wg.Add(1)
		live.Store(name, true)
		go func() {
			defer wg.Done()
			defer live.Delete(name)
			f()
		}()
	}
	// caller contexts. A Cancel line is written BEFORE the context is cancelled (or created with a deadline): whoever
	// observes the context done logs later, so "cancelled before" in the trace is sound.
	cancels := map[string]CancelSpec{}
	for _, c := range sc.Cancels {
		cancels[c.Proc] = c
	}
	for _, k := range sc.Script {
		if strings.HasSuffix(k, "@cancel") {
			p := strings.TrimSuffix(k, "@cancel")
			cancels[p] = CancelSpec{Proc: p, Mode: "script"}
		}
	}
	var cleanupMu sync.Mutex
	var cleanup []context.CancelFunc
	defer func() {
		cleanupMu.Lock()
		for _, c := range cleanup {
			c()
		}
		cleanupMu.Unlock()
	}()
	logCancel := func(proc string) { tw.Emit(map[string]any{"ev": "Cancel", "sc": scn, "proc": proc}) }
	scriptCtx := map[string]context.Context{}
	for p, c := range cancels {
		if c.Mode != "script" {
			continue
		}
		p := p
		ctx, cancel := context.WithCancel(context.WithValue(context.Background(), procKey{}, procInfo{p, scn}))
		scriptCtx[p] = ctx
		cleanup = append(cleanup, cancel)
		start("cancel-"+p, func() {
			gate(p + "@cancel")
			logCancel(p)
			cancel()
			res.Count("ctx_cancelled_scripted", 1)
		})
	}
	// callCtx returns the context of proc's call and a function to run right after the Call line was written
	callCtx := func(proc string) (context.Context, func()) {
		base := context.WithValue(context.Background(), procKey{}, procInfo{proc, scn})
		c, ok := cancels[proc]
		if !ok {
			return base, func() {}
		}
		keep := func(cancel context.CancelFunc) {
			cleanupMu.Lock()
			cleanup = append(cleanup, cancel)
			cleanupMu.Unlock()
		}
		switch c.Mode {
		case "script":
			return scriptCtx[proc], func() {}
		case "pre":
			ctx, cancel := context.WithCancel(base)
			logCancel(proc)
			cancel()
			res.Count("ctx_cancelled_before_call", 1)
			return ctx, func() {}
		case "deadline":
			logCancel(proc)
			ctx, cancel := context.WithTimeout(base, time.Duration(c.DelayUs)*time.Microsecond)
			keep(cancel)
			res.Count("ctx_with_deadline", 1)
			return ctx, func() {}
		default: // "during"
			ctx, cancel := context.WithCancel(base)
			keep(cancel)
			return ctx, func() {
				go func() {
					time.Sleep(time.Duration(c.DelayUs) * time.Microsecond)
					logCancel(proc)
					cancel()
				}()
				res.Count("ctx_cancelled_during_call", 1)
			}
		}
	}
	jitter := func(r *rand.Rand, maxUs int) {
		if sc.Script == nil && maxUs > 0 {
			if d := r.Intn(maxUs); d > 0 {
				time.Sleep(time.Duration(d) * time.Microsecond)
			}
		}
	}
	emittersDone := make(chan struct{})
	emWG.Add(sc.Emitters)
	go func() { emWG.Wait(); close(emittersDone); close(exp.release) }()
	for g := 1; g <= sc.Emitters; g++ {
		g := g
		r := rand.New(rand.NewSource(rng.Int63()))
		start(fmt.Sprintf("g%d", g), func() {
			defer emWG.Done()
			for k := 1; k <= sc.RecsPer; k++ {
				id := g*1000 + k
				key := owner[id]
				rec, attrs, dg := buildRecord(r, id, scn, sc.NAttrs)
				jitter(r, 200)
				gate(key + "@call")
				tw.Emit(map[string]any{"ev": "Call", "sc": scn, "op": "Emit", "id": id, "g": g, "k": k, "digest": dg})
				logger.Emit(context.Background(), rec)
				tw.Emit(map[string]any{"ev": "Ret", "sc": scn, "op": "Emit", "id": id})
				// the caller changes its own record and the slice it built it from
				rec.SetBody(log.StringValue("MUTATED-BY-CALLER"))
				rec.SetSeverity(log.SeverityTrace1)
				rec.AddAttributes(log.String("added-by-caller", "MUTATED"))
				for i := 2; i < len(attrs); i++ {
					attrs[i] = log.String(attrs[i].Key, "MUTATED-BY-CALLER")
				}
				sched.Arrive(key + "@ret")
			}
		})
	}
	waitPhase := func() {
		if sc.Phased {
			<-emittersDone
		}
	}
	for f := 1; f <= sc.Flushers; f++ {
		name := fmt.Sprintf("f%d", f)
		r := rand.New(rand.NewSource(rng.Int63()))
		start(name, func() {
			waitPhase()
			for j := 0; j < sc.FlushesPer; j++ {
				proc := name
				if sc.FlushesPer > 1 {
					proc = fmt.Sprintf("%s.%d", name, j+1)
				}
				jitter(r, 1200)
				ctx, after := callCtx(proc)
				gate(proc + "@call")
				tw.Emit(map[string]any{"ev": "Call", "sc": scn, "op": "FF", "proc": proc})
				after()
				err := bp.ForceFlush(ctx)
				tw.Emit(map[string]any{"ev": "Ret", "sc": scn, "op": "FF", "proc": proc, "err": errStr(err)})
				if err != nil {
					res.Count("forceflush_returned_error", 1)
				}
				gate(proc + "@ret")
			}
		})
	}
	shutdown := func(name string, r *rand.Rand, maxUs int) {
		if r != nil {
			jitter(r, maxUs)
		}
		ctx, after := callCtx(name)
		gate(name + "@call")
		tw.Emit(map[string]any{"ev": "Call", "sc": scn, "op": "SD", "proc": name})
		after()
		err := bp.Shutdown(ctx)
		tw.Emit(map[string]any{"ev": "Ret", "sc": scn, "op": "SD", "proc": name, "err": errStr(err)})
		if err != nil {
			res.Count("shutdown_returned_error", 1)
		}
		gate(name + "@ret")
	}
	for s := 1; s <= sc.Stoppers; s++ {
		name := fmt.Sprintf("s%d", s)
		r := rand.New(rand.NewSource(rng.Int63()))
		start(name, func() {
			waitPhase()
			shutdown(name, r, 2000)
		})
	}
	done := make(chan struct{})
	go func() { wg.Wait(); close(done) }()
	grace := 2 * time.Second
	if sc.Script != nil {
		grace = 5 * time.Second // gate waits add up
	}
	blocked := []string{}
	wait := func() bool {
		select {
		case <-done:
			return true
		case <-time.After(grace):
			live.Range(func(k, _ any) bool { blocked = append(blocked, k.(string)); return true })
			return false
		}
	}
	ok := wait()
	if ok && sc.Stoppers == 0 {
		// every processor is shut down in the end (an ordinary API call, recorded and judged like any other)
		done = make(chan struct{})
		start("s0", func() { shutdown("s0", nil, 0) })
		go func() { wg.Wait(); close(done) }()
		ok = wait()
	}
	if !ok {
		res.Count("scenarios_with_blocked_goroutines", 1)
		logTainted.Store(true)
		go bp.Shutdown(context.Background()) // best effort: stop the leaked poll goroutine
	}
	followed, desync, remaining := sched.Stats()
	res.Count("script_steps_followed", int64(followed))
	res.Count("script_steps_desync", int64(desync+remaining))
	for _, k := range sched.Skipped {
		if i := strings.Index(k, "@"); i >= 0 {
			res.Count("desync@"+strings.SplitN(k[i+1:], ":", 2)[0], 1)
		}
	}
	res.Count("exports", atomic.LoadInt64(&exp.exports))
	// quiescent only if everybody returned; a late export by a leaked goroutine would otherwise be misjudged
	if len(blocked) == 0 {
		time.Sleep(100 * time.Microsecond) // a late export after Shutdown returned would still be recorded
	}
	tw.Emit(map[string]any{"ev": "EndScenario", "sc": scn, "quiescent": len(blocked) == 0, "blocked": blocked})
	if len(blocked) > 0 {
		time.Sleep(2 * time.Millisecond)
	}
}

func randomScenario(r *rand.Rand) Scenario {
	pick := func(xs ...int) int { return xs[r.Intn(len(xs))] }
	sc := Scenario{
		Emitters: 1 + r.Intn(4), RecsPer: 1 + r.Intn(8), QCap: pick(1, 2, 3, 4, 8, 64), MaxBatch: pick(1, 2, 3, 8),
		BufSize: pick(1, 1, 2, 3), Flushers: r.Intn(3), FlushesPer: 1 + r.Intn(2), Stoppers: r.Intn(3),
		IntervalUs: pick(0, 0, 200, 1000, 5000), ExportTOms: pick(2, 30000), ExpMode: []string{"ok", "mixed", "mixed", "hold"}[r.Intn(4)],
		Phased: r.Intn(4) == 0, NAttrs: pick(0, 2, 4, 7, 12), Perturb: []float64{0, 0.2, 0.6}[r.Intn(3)], Seed: r.Int63(),
	}
	if sc.ExpMode == "hold" {
		// the held exporter is released when every Emit has returned; a ForceFlush running meanwhile can hold
		// bufferExporter.inputMu (blocked marker send) while another TryDequeue holds the queue lock waiting for
		// it, which blocks Emit itself: with concurrent flushers the hold would wait for itself
		sc.Phased = true
	}
	// caller contexts that end (own generator: the scenarios drawn above stay what they were for a seed)
	cr := rand.New(rand.NewSource(sc.Seed ^ 0x5ca1ab1e))
	if cr.Intn(100) < 40 {
		modes := []string{"pre", "pre", "during", "deadline"}
		add := func(proc string) {
			if cr.Intn(2) == 0 {
				sc.Cancels = append(sc.Cancels, CancelSpec{Proc: proc, Mode: modes[cr.Intn(len(modes))], DelayUs: cr.Intn(1500)})
			}
		}
		for f := 1; f <= sc.Flushers; f++ {
			for j := 1; j <= sc.FlushesPer; j++ {
				if sc.FlushesPer > 1 {
					add(fmt.Sprintf("f%d.%d", f, j))
				} else {
					add(fmt.Sprintf("f%d", f))
				}
			}
		}
		for s := 1; s <= sc.Stoppers; s++ {
			add(fmt.Sprintf("s%d", s))
		}
		if sc.ExpMode != "hold" && cr.Intn(2) == 0 {
			sc.ExpMode = "slow" // a busy export goroutine: flushes that give up leave batches parked in the export buffer
		}
	}
	return sc
}

func main() {
	if len(os.Args) < 2 {
		fmt.Println("usage: c06 random|scripts ...")
		os.Exit(3)
	}
	fs := flag.NewFlagSet(os.Args[1], flag.ExitOnError)
	n := fs.Int("n", 200, "")
	npt := fs.Int("pt", 0, "random: the first N scenarios also record Pt lines")
	in := fs.String("in", "", "")
	out := fs.String("out", "trace.ndjson", "")
	resF := fs.String("res", "result.json", "")
	fs.Parse(os.Args[2:])
	tw, err := vh.NewTraceWriter(*out)
	vh.Must(err)
	res := vh.NewResult()
	logTW = tw
	otel.SetErrorHandler(otel.ErrorHandlerFunc(func(error) {})) // exporter errors are scripted, not news
	otel.SetLogger(logr.New(warnSink{}))
	res.Count("hooks", map[bool]int64{true: 1, false: 0}[haveHooks])
	switch os.Args[1] {
	case "random":
		r := rand.New(rand.NewSource(vh.Seed()))
		for i := 0; i < *n; i++ {
			sc := randomScenario(r)
			runScenario(i, sc, i < *npt, tw, res)
			res.Executed++
			if i < 2 {
				res.Sample(sc)
			}
		}
	case "scripts":
		b, err := os.ReadFile(*in)
		vh.Must(err)
		var scs []Scenario
		vh.Must(json.Unmarshal(b, &scs))
		for i, sc := range scs {
			if sc.Seed == 0 {
				sc.Seed = vh.Seed() + int64(i)
			}
			runScenario(i, sc, true, tw, res)
			res.Executed++
			if i < 2 {
				res.Sample(sc)
			}
		}
	case "pipeline": // SLP.tla: directed schedules from -in (optional), then -n seeded random pipelines
		i := 0
		if *in != "" {
			b, err := os.ReadFile(*in)
			vh.Must(err)
			var scs []PScenario
			vh.Must(json.Unmarshal(b, &scs))
			for _, sc := range scs {
				if sc.Seed == 0 {
					sc.Seed = vh.Seed() + int64(i)
				}
				runPipeline(i, sc, tw, res)
				res.Executed++
				i++
			}
		}
		r := rand.New(rand.NewSource(vh.Seed() + 1000003))
		for j := 0; j < *n; j++ {
			sc := randomPipeline(r)
			runPipeline(i, sc, tw, res)
			res.Executed++
			if j < 2 {
				res.Sample(sc)
			}
			i++
		}
	default:
		os.Exit(3)
	}
	res.Evaluations = res.Executed
	vh.Must(tw.Close())
	res.Count("trace_lines", tw.N)
	vh.Must(res.Write(*resF))
}
