// pipeline mode: the log pipeline around the batch processor (SLP.tla / SLPContract.tla).
//
//	c06 pipeline -n N [-in FILE] -out TRACE -res R
//
// Every scenario builds a real LoggerProvider with several processors in a given registration order:
// real SimpleProcessors and BatchProcessors (each in front of its own recording exporter) and two kinds of
// harness-owned processors -- "mut" modifies the *Record it is handed synchronously (allowed by the
// Processor interface: later processors must see the change, earlier ones must not), "filter" is a
// FilterProcessor with a severity threshold. Emitters, LoggerProvider.ForceFlush / Shutdown callers,
// Emit calls made after Shutdown has returned and Logger.Enabled probes run concurrently; no verif
// hooks are involved (SimpleProcessor and the provider have none): the gates of directed schedules are
// the harness-owned processors, the exporters and the call sites. Nothing is judged here:
// Trace_SLP.tla is the oracle.
package main

import (
	"context"
	"errors"
	"fmt"
	"math/rand"
	"runtime"
	"sync"
	"sync/atomic"
	"time"

	"go.opentelemetry.io/otel/log"
	sdklog "go.opentelemetry.io/otel/sdk/log"
	"go.opentelemetry.io/otel/sdk/verifh/vh"
)

// PScenario is one pipeline configuration + workload (+ optional gate script).
type PScenario struct {
	Kinds     []string `json:"kinds"`  // "mut" | "simple" | "batch" | "filter", registration order
	Thresh    []int    `json:"thresh"` // per position: severity threshold of a filter (0 elsewhere)
	Emitters  int      `json:"emitters"`
	RecsPer   int      `json:"recsPer"`
	LateEmits int      `json:"lateEmits"` // Emit calls per emitter made after every Shutdown call has returned
	Flushers  int      `json:"flushers"`
	Stoppers  int      `json:"stoppers"`
	Probes    int      `json:"probes"` // Logger.Enabled calls
	MaxBatch  int      `json:"maxbatch"`
	ExpMode   string   `json:"expMode"` // "ok" | "mixed" (yield / sleep / error at random inside Export)
	Phased    bool     `json:"phased"`  // ForceFlush / Shutdown callers start after every Emit returned
	NAttrs    int      `json:"nattrs"`
	Perturb   float64  `json:"perturb"`
	Script    []string `json:"script,omitempty"`
	Name      string   `json:"name,omitempty"`
	Seed      int64    `json:"seed"`
}

// pExporter records what the exporter behind the processor at position pos sees.
type pExporter struct {
	tw   *vh.TraceWriter
	sc   int
	pos  int
	gate func(string)
	mode string
	mu   sync.Mutex
	rng  *rand.Rand
	res  *vh.Result
}

func (e *pExporter) Export(_ context.Context, recs []sdklog.Record) error {
	ids := make([]int, len(recs))
	dgs := make([]string, len(recs))
	for i := range recs {
		id, rsc, ok := ident(&recs[i])
		if !ok || rsc != e.sc {
			id = -1
		}
		ids[i] = id
		dgs[i] = sdkDigest(&recs[i])
	}
	e.tw.Emit(map[string]any{"ev": "ExportBegin", "sc": e.sc, "exp": e.pos, "ids": ids, "digests": dgs})
	e.gate(fmt.Sprintf("x%d@exp.begin", e.pos))
	var err error
	if e.mode == "mixed" {
		e.mu.Lock()
		k := e.rng.Intn(6)
		d := time.Duration(e.rng.Intn(300)) * time.Microsecond
		e.mu.Unlock()
		switch k {
		case 0, 1:
			runtime.Gosched()
		case 2:
			time.Sleep(d)
		case 3:
			err = errors.New("export failed")
		}
	}
	e.res.Count("pipeline_exports", 1)
	e.tw.Emit(map[string]any{"ev": "ExportEnd", "sc": e.sc, "exp": e.pos, "err": errStr(err)})
	return err
}

func (e *pExporter) ForceFlush(ctx context.Context) error {
	e.tw.Emit(map[string]any{"ev": "ExporterFlush", "sc": e.sc, "exp": e.pos, "proc": procOf(ctx, e.sc)})
	return nil
}

func (e *pExporter) Shutdown(ctx context.Context) error {
	p := procOf(ctx, e.sc)
	e.tw.Emit(map[string]any{"ev": "ExporterShutdown", "sc": e.sc, "exp": e.pos, "proc": p})
	if p != "" {
		e.gate(fmt.Sprintf("%s@exp%d.shutdown", p, e.pos))
	}
	return nil
}

// pMutator modifies the record synchronously and records the content it left behind.
type pMutator struct {
	tw    *vh.TraceWriter
	sc    int
	pos   int
	gate  func(string)
	owner map[int]string
}

func (m *pMutator) OnEmit(_ context.Context, r *sdklog.Record) error {
	id, rsc, ok := ident(r)
	if !ok || rsc != m.sc {
		return nil
	}
	m.gate(fmt.Sprintf("%s@mut%d", m.owner[id], m.pos))
	var keys []string
	r.WalkAttributes(func(kv log.KeyValue) bool { keys = append(keys, kv.Key); return true })
	r.SetBody(log.StringValue(fmt.Sprintf("MUTATED-BY-PROCESSOR-%d", m.pos)))
	r.SetSeverityText(fmt.Sprintf("MUT%d", m.pos))
	for i := len(keys) - 1; i >= 2 && i >= len(keys)-2; i-- { // in-place overwrite of attributes (the last ones live in `back`)
		r.AddAttributes(log.String(keys[i], fmt.Sprintf("MUT%d", m.pos)))
	}
	r.AddAttributes(log.Int(fmt.Sprintf("added-by-processor-%d", m.pos), m.pos))
	m.tw.Emit(map[string]any{"ev": "Mut", "sc": m.sc, "id": id, "pos": m.pos, "digest": sdkDigest(r)})
	return nil
}
func (m *pMutator) Shutdown(context.Context) error   { return nil }
func (m *pMutator) ForceFlush(context.Context) error { return nil }

// pFilter is a FilterProcessor: it says it processes severities >= thresh.
type pFilter struct {
	tw     *vh.TraceWriter
	sc     int
	pos    int
	thresh int
}

func (f *pFilter) OnEmit(_ context.Context, r *sdklog.Record) error {
	if id, rsc, ok := ident(r); ok && rsc == f.sc {
		f.tw.Emit(map[string]any{"ev": "Seen", "sc": f.sc, "id": id, "pos": f.pos})
	}
	return nil
}
func (f *pFilter) Enabled(_ context.Context, p sdklog.EnabledParameters) bool {
	return int(p.Severity) >= f.thresh
}
func (f *pFilter) Shutdown(context.Context) error   { return nil }
func (f *pFilter) ForceFlush(context.Context) error { return nil }

func runPipeline(scn int, sc PScenario, tw *vh.TraceWriter, res *vh.Result) {
	rng := rand.New(rand.NewSource(sc.Seed))
	sched := vh.NewSched(sc.Script, sc.Seed+7)
	sched.Perturb = sc.Perturb
	sched.Timeout = 150 * time.Millisecond
	gate := func(key string) {
		sched.Arrive(key + "+")
		sched.Arrive(key)
	}
	owner := map[int]string{}
	for g := 1; g <= sc.Emitters; g++ {
		for k := 1; k <= sc.RecsPer+sc.LateEmits; k++ {
			owner[g*1000+k] = fmt.Sprintf("g%d:%d", g, k)
		}
	}
	thresh := make([]int, len(sc.Kinds))
	copy(thresh, sc.Thresh)
	tw.Emit(map[string]any{"ev": "Cfg", "sc": scn, "kind": "pipeline", "kinds": sc.Kinds, "thresh": thresh,
		"maxbatch": sc.MaxBatch, "name": sc.Name})
	curScn.Store(int64(scn))
	var opts []sdklog.LoggerProviderOption
	var batches []*sdklog.BatchProcessor
	for i, kind := range sc.Kinds {
		pos := i + 1
		switch kind {
		case "mut":
			opts = append(opts, sdklog.WithProcessor(&pMutator{tw: tw, sc: scn, pos: pos, gate: gate, owner: owner}))
		case "filter":
			opts = append(opts, sdklog.WithProcessor(&pFilter{tw: tw, sc: scn, pos: pos, thresh: thresh[i]}))
		case "simple":
			exp := &pExporter{tw: tw, sc: scn, pos: pos, gate: gate, mode: sc.ExpMode, res: res, rng: rand.New(rand.NewSource(sc.Seed + int64(pos)))}
			opts = append(opts, sdklog.WithProcessor(sdklog.NewSimpleProcessor(exp)))
		case "batch":
			exp := &pExporter{tw: tw, sc: scn, pos: pos, gate: gate, mode: sc.ExpMode, res: res, rng: rand.New(rand.NewSource(sc.Seed + int64(pos)))}
			bp := sdklog.NewBatchProcessor(exp, sdklog.WithMaxQueueSize(256), sdklog.WithExportMaxBatchSize(sc.MaxBatch),
				sdklog.WithExportBufferSize(2), sdklog.WithExportInterval(time.Duration(200+rng.Intn(2000))*time.Microsecond),
				sdklog.WithExportTimeout(30*time.Second))
			batches = append(batches, bp)
			opts = append(opts, sdklog.WithProcessor(bp))
		}
	}
	lp := sdklog.NewLoggerProvider(opts...)
	logger := lp.Logger("c06-pipeline")

	var wg, emWG, sdWG sync.WaitGroup
	var live sync.Map
	start := func(name string, f func()) {
		wg.Add(1)
		live.Store(name, true)
		go func() {
			defer wg.Done()
			defer live.Delete(name)
			f()
		}()
	}
	jitter := func(r *rand.Rand, maxUs int) {
		if sc.Script == nil && maxUs > 0 {
			if d := r.Intn(maxUs); d > 0 {
				time.Sleep(time.Duration(d) * time.Microsecond)
			}
		}
	}
	emit := func(r *rand.Rand, g, k int) {
		id := g*1000 + k
		key := owner[id]
		rec, attrs, dg := buildRecord(r, id, scn, sc.NAttrs)
		gate(key + "@call")
		tw.Emit(map[string]any{"ev": "Call", "sc": scn, "op": "Emit", "id": id, "g": g, "k": k, "digest": dg})
		logger.Emit(context.Background(), rec)
		tw.Emit(map[string]any{"ev": "Ret", "sc": scn, "op": "Emit", "id": id})
		rec.SetBody(log.StringValue("MUTATED-BY-CALLER"))
		rec.AddAttributes(log.String("added-by-caller", "MUTATED"))
		for i := 2; i < len(attrs); i++ {
			attrs[i] = log.String(attrs[i].Key, "MUTATED-BY-CALLER")
		}
		sched.Arrive(key + "@ret")
	}
	emittersDone := make(chan struct{})
	stoppersDone := make(chan struct{})
	emWG.Add(sc.Emitters)
	sdWG.Add(sc.Stoppers)
	go func() { emWG.Wait(); close(emittersDone) }()
	go func() { sdWG.Wait(); close(stoppersDone) }()
	var lateDone atomic.Int64
	for g := 1; g <= sc.Emitters; g++ {
		g := g
		r := rand.New(rand.NewSource(rng.Int63()))
		start(fmt.Sprintf("g%d", g), func() {
			func() {
				defer emWG.Done()
				for k := 1; k <= sc.RecsPer; k++ {
					jitter(r, 150)
					emit(r, g, k)
				}
			}()
			if sc.LateEmits > 0 && sc.Stoppers > 0 {
				<-stoppersDone // every Shutdown call has returned: these records must not be processed at all
				for k := sc.RecsPer + 1; k <= sc.RecsPer+sc.LateEmits; k++ {
					emit(r, g, k)
					lateDone.Add(1)
				}
			}
		})
	}
	waitPhase := func() {
		if sc.Phased {
			<-emittersDone
		}
	}
	for f := 1; f <= sc.Flushers; f++ {
		name := fmt.Sprintf("f%d", f)
		r := rand.New(rand.NewSource(rng.Int63()))
		start(name, func() {
			waitPhase()
			ctx := context.WithValue(context.Background(), procKey{}, procInfo{name, scn})
			jitter(r, 800)
			gate(name + "@call")
			tw.Emit(map[string]any{"ev": "Call", "sc": scn, "op": "FF", "proc": name})
			err := lp.ForceFlush(ctx)
			tw.Emit(map[string]any{"ev": "Ret", "sc": scn, "op": "FF", "proc": name, "err": errStr(err)})
			gate(name + "@ret")
		})
	}
	shutdown := func(name string, r *rand.Rand, maxUs int) {
		ctx := context.WithValue(context.Background(), procKey{}, procInfo{name, scn})
		if r != nil {
			jitter(r, maxUs)
		}
		gate(name + "@call")
		tw.Emit(map[string]any{"ev": "Call", "sc": scn, "op": "SD", "proc": name})
		err := lp.Shutdown(ctx)
		tw.Emit(map[string]any{"ev": "Ret", "sc": scn, "op": "SD", "proc": name, "err": errStr(err)})
		gate(name + "@ret")
	}
	for s := 1; s <= sc.Stoppers; s++ {
		name := fmt.Sprintf("s%d", s)
		r := rand.New(rand.NewSource(rng.Int63()))
		start(name, func() {
			defer sdWG.Done()
			waitPhase()
			shutdown(name, r, 1500)
		})
	}
	if sc.Probes > 0 {
		r := rand.New(rand.NewSource(rng.Int63()))
		start("probe", func() {
			for i := 0; i < sc.Probes; i++ {
				sev := 1 + r.Intn(3)
				jitter(r, 300)
				got := logger.Enabled(context.Background(), log.EnabledParameters{Severity: log.Severity(sev)})
				tw.Emit(map[string]any{"ev": "Enabled", "sc": scn, "sev": sev, "result": got})
			}
		})
	}
	done := make(chan struct{})
	go func() { wg.Wait(); close(done) }()
	grace := 3 * time.Second
	if sc.Script != nil {
		grace = 5 * time.Second
	}
	blocked := []string{}
	wait := func() bool {
		select {
		case <-done:
			return true
		case <-time.After(grace):
			live.Range(func(k, _ any) bool { blocked = append(blocked, k.(string)); return true })
			return false
		}
	}
	ok := wait()
	if ok && sc.Stoppers == 0 {
		done = make(chan struct{})
		start("s0", func() { shutdown("s0", nil, 0) })
		go func() { wg.Wait(); close(done) }()
		ok = wait()
	}
	if !ok {
		res.Count("pipeline_scenarios_with_blocked_goroutines", 1)
		logTainted.Store(true)
		go lp.Shutdown(context.Background())
	}
	followed, desync, remaining := sched.Stats()
	res.Count("pipeline_script_steps_followed", int64(followed))
	res.Count("pipeline_script_steps_desync", int64(desync+remaining))
	res.Count("pipeline_late_emits", lateDone.Load())
	if len(blocked) == 0 {
		time.Sleep(100 * time.Microsecond)
	}
	tw.Emit(map[string]any{"ev": "EndScenario", "sc": scn, "quiescent": len(blocked) == 0, "blocked": blocked})
	if len(blocked) > 0 {
		time.Sleep(2 * time.Millisecond)
	}
	_ = batches
}

var pipelineShapes = [][]string{
	{"simple"}, {"simple", "simple"}, {"mut", "simple"}, {"simple", "mut"}, {"batch"}, {"simple", "batch"}, {"batch", "simple"},
	{"mut", "batch", "mut", "simple"}, {"mut", "simple", "batch", "mut"}, {"batch", "mut", "batch"}, {"mut", "mut", "simple", "batch"},
	{"filter"}, {"filter", "filter"}, {"filter", "simple"}, {"mut", "filter", "batch", "simple", "mut"},
}

func randomPipeline(r *rand.Rand) PScenario {
	pick := func(xs ...int) int { return xs[r.Intn(len(xs))] }
	kinds := pipelineShapes[r.Intn(len(pipelineShapes))]
	sc := PScenario{Kinds: kinds, Thresh: make([]int, len(kinds)), Emitters: 1 + r.Intn(4), RecsPer: 1 + r.Intn(6),
		LateEmits: r.Intn(3), Flushers: r.Intn(3), Stoppers: r.Intn(3), Probes: r.Intn(4), MaxBatch: pick(1, 2, 3, 8),
		ExpMode: []string{"ok", "mixed", "mixed"}[r.Intn(3)], Phased: r.Intn(2) == 0, NAttrs: pick(0, 2, 4, 7, 12),
		Perturb: []float64{0, 0.2, 0.6}[r.Intn(3)], Seed: r.Int63()}
	for i, k := range kinds {
		if k == "filter" {
			sc.Thresh[i] = 1 + r.Intn(4) // 4: never enabled for the probed severities 1..3
		}
	}
	return sc
}
