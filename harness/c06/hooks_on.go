//go:build c06hooks

package main

import sdklog "go.opentelemetry.io/otel/sdk/log"

// Built when the tree under test carries sdk/log/verif_on.go (proposed_fixes/C06-hooks.diff); the
// python driver adds the c06hooks tag after looking for that file.
const haveHooks = true

func installHook(f func(point string, args ...any)) { sdklog.SetVerifHook(f) }
func removeHook()                                   { sdklog.SetVerifHook(nil) }
