//go:build !c06hooks

package main

// Tree without the sdk/log verif hooks: no gates inside the SDK, no linearization events; the contract
// monitor falls back to its hook-free over-approximations (cfg.hooks = false).
const haveHooks = false

func installHook(func(point string, args ...any)) {}
func removeHook()                                 {}
