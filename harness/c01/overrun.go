// Exporter phase "inside-past-deadline" (BSPOverrun.tla / BSPOverrunContract.tla): an exporter that
// ignores its ctx and is still inside ExportSpans well after the export deadline (ExportTimeout, or the
// ctx of the ForceFlush whose export it serves) while further exports become due. The natural gate is the
// exporter itself.
//
// Answer of the k-th call (Scenario.Outcomes): "overrun/<holdMs>/<answer>", answer = ok | error | ctx.
//
//	ExportBegin, gate x@exp.begin                (as every call)
//	wait until the ctx is done                   (capped: a ctx that never becomes done is no overrun)
//	gate x@exp.overdue, event ExportOverdue      logged from INSIDE the call: "ctx done, still inside"
//	gate x@exp.end                               the script makes further exports due before this entry
//	stay inside for holdMs                       real time in which a processor that gave the call up
//	                                             would start the exports that are due
//	ExportEnd(answer), return
//
// No verdict is derived from any of these durations: the only facts used are the recorded order of
// ExportBegin / ExportOverdue / ExportEnd / ExporterShutdown / Call / Ret events.
package main

import (
	"context"
	"errors"
	"strconv"
	"strings"
	"sync/atomic"
	"time"
)

func parseOverrun(answer string) (hold time.Duration, ans string, ok bool) {
	f := strings.Split(answer, "/")
	if len(f) != 3 || f[0] != "overrun" {
		return 0, "", false
	}
	ms, err := strconv.Atoi(f[1])
	if err != nil {
		return 0, "", false
	}
	return time.Duration(ms) * time.Millisecond, f[2], true
}

func (e *recExporter) overrun(ctx context.Context, answer string) error {
	_, ans, ok := parseOverrun(answer)
	if !ok {
		return nil // unknown answer: behaves like "ok"
	}
	if ctx.Done() == nil {
		return nil
	}
	select {
	case <-ctx.Done():
	case <-time.After(1500 * time.Millisecond):
		// the ctx never became done (no ExportTimeout and the caller's ctx is still live): a slow export only
		return nil
	}
	e.sched.Arrive("x@exp.overdue")
	e.tw.Emit(map[string]any{"ev": "ExportOverdue", "sc": e.sc})
	switch ans {
	case "error":
		atomic.AddInt64(&e.failed, 1)
		return errors.New("export failed")
	case "ctx":
		atomic.AddInt64(&e.timedOut, 1)
		return ctx.Err()
	}
	return nil
}

func (e *recExporter) overrunHold(answer string) {
	if hold, _, ok := parseOverrun(answer); ok && hold > 0 {
		time.Sleep(hold)
	}
}
