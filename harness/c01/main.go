// c01: conformance harness for BSP.tla / Trace_BSP.tla (property C01).
//
//	c01 random  -n N [-pt M] -out TRACE -res R     seeded random scenarios with schedule perturbation
//	c01 scripts -in FILE -out TRACE -res R         TLC behaviours / directed schedules replayed with gates
//
// Scenarios run with pts (every scripted scenario, the first M random ones) also record one `Pt` line for
// every verif hook point a goroutine passes: the input of the implementation-level trace validation
// (Trace_BSPImpl.tla). A Pt line is written by the goroutine that passed the point, first thing in the
// hook, i.e. AFTER the step the point follows and with no lock held (no bsp.* point sits inside a
// critical section): a confirmation line. ExportBegin / ExportEnd are written inside ExportSpans, i.e.
// while batchMutex is held: exact lines.
//
// Every scenario drives a real BatchSpanProcessor registered in a real TracerProvider (span.End is
// the real path into OnEnd) and records the API-level history plus the hook events as ndjson.
// The environment is part of a scenario: what the exporter answers to its k-th call (ok / error /
// timeout = gives up only when its ctx is done), and which callers' contexts become done and when
// (already cancelled, cancelled at a scripted point / after a random delay, far deadline).
package main

import (
	"context"
	"encoding/json"
	"errors"
	"flag"
	"fmt"
	"math/rand"
	"os"
	"runtime"
	"strconv"
	"strings"
	"sync"
	"sync/atomic"
	"time"

	"github.com/go-logr/logr"
	"go.opentelemetry.io/otel"
	sdktrace "go.opentelemetry.io/otel/sdk/trace"
	"go.opentelemetry.io/otel/sdk/verifh/vh"
	"go.opentelemetry.io/otel/trace"
)

type procKey struct{}

// procInfo travels in the ctx of ForceFlush / Shutdown calls: which harness process made the call, in
// which scenario (a goroutine leaked by an abandoned scenario must not speak for the current one).
type procInfo struct {
	name string
	sc   int
}

// Scenario is one configuration + workload + environment (+ optional script).
type Scenario struct {
	Producers    int      `json:"producers"`
	SpansPer     int      `json:"spansPer"`
	QCap         int      `json:"qcap"`
	MaxBatch     int      `json:"maxbatch"`
	Blocking     bool     `json:"blocking"`
	Flushers     int      `json:"flushers"`
	FlushesPer   int      `json:"flushesPer"`
	Stoppers     int      `json:"stoppers"`
	BatchTimeout int      `json:"batchTimeoutUs"` // microseconds; 0 = one hour (timer never fires)
	ExportTOms   int      `json:"exportTimeoutMs"`
	ExpMode      string   `json:"expMode"`            // "ok" | "mixed" (sleep / error / wait-for-ctx at random)
	Outcomes     []string `json:"outcomes,omitempty"` // scripted: answer of the k-th ExportSpans call (then "ok")
	// caller contexts, by proc name ("f1", "f1.2", "s1"): "" = Background | "cancelled" (done before the
	// call) | "cancel" (cancelled at the scripted point / after CtxAfterUs) | "deadline" (carries a far
	// deadline; cancelled like "cancel" if scripted / CtxAfterUs is set)
	Ctx        map[string]string `json:"ctx,omitempty"`
	CtxAfterUs map[string]int    `json:"ctxAfterUs,omitempty"`
	SlowDoneUs int               `json:"slowDoneUs"` // a done ctx dawdles in Done() (natural gate before a select)
	// every second span is the child of a REMOTE parent whose trace flags are ParentFlags (0 = no parent):
	// the sampled span then carries those bits too (e.g. 0x03), and is as much a sampled span as any other
	ParentFlags int      `json:"parentFlags"`
	Perturb     float64  `json:"perturb"`
	Script      []string `json:"script,omitempty"`
	Name        string   `json:"name,omitempty"`
	Kind        string   `json:"kind,omitempty"` // "batch" (default) | "simple" (SimpleSpanProcessor)
	Seed        int64    `json:"seed"`
}

// ------------------------------------------------------------ SDK debug log -> Log events
// exportSpans logs `exporting spans ... total_dropped` immediately before it calls ExportSpans, on the
// same goroutine: the sink parks the value under the goroutine id and the scenario's exporter picks
// it up, so a leaked worker of an earlier scenario cannot speak for the current one.
var pendingTotals sync.Map // goroutine id -> total_dropped (int)

func goid() int64 {
	var b [64]byte
	n := runtime.Stack(b[:], false)
	f := strings.Fields(string(b[:n]))
	if len(f) < 2 {
		return -1
	}
	id, _ := strconv.ParseInt(f[1], 10, 64)
	return id
}

type logSink struct{}

func (logSink) Init(logr.RuntimeInfo)            {}
func (logSink) Enabled(int) bool                 { return true }
func (logSink) Error(error, string, ...any)      {}
func (s logSink) WithValues(...any) logr.LogSink { return s }
func (s logSink) WithName(string) logr.LogSink   { return s }
func (logSink) Info(level int, msg string, kv ...any) {
	if msg != "exporting spans" {
		return
	}
	for i := 0; i+1 < len(kv); i += 2 {
		if k, _ := kv[i].(string); k == "total_dropped" {
			switch v := kv[i+1].(type) {
			case uint32:
				pendingTotals.Store(goid(), int(v))
			case int:
				pendingTotals.Store(goid(), v)
			}
		}
	}
}

// ------------------------------------------------------------ exporter
type recExporter struct {
	tw       *vh.TraceWriter
	sc       int
	ids      map[trace.SpanID]int
	sched    *vh.Sched
	mode     string
	outcomes []string
	canWait  bool // "timeout" answers are allowed (the ctx will be done soon: small ExportTimeout)
	rng      *rand.Rand
	mu       sync.Mutex
	exports  int64
	failed   int64
	timedOut int64
	shut     chan struct{}
	shutOnce sync.Once
}

func errClass(err error) string {
	switch {
	case err == nil:
		return ""
	case errors.Is(err, context.Canceled), errors.Is(err, context.DeadlineExceeded):
		return "ctx"
	case err.Error() == "export failed":
		return "export"
	}
	return "other:" + err.Error()
}

func (e *recExporter) ExportSpans(ctx context.Context, spans []sdktrace.ReadOnlySpan) error {
	// id 0 = a span the scenario did not end (e.g. a flush marker that leaked into a batch), -1 = a nil entry:
	// the contract reports either as exported-invalid-span
	ids := make([]int, len(spans))
	for i, s := range spans {
		if s == nil {
			ids[i] = -1
			continue
		}
		ids[i] = e.ids[s.SpanContext().SpanID()]
	}
	if t, ok := pendingTotals.LoadAndDelete(goid()); ok {
		e.tw.Emit(map[string]any{"ev": "Log", "sc": e.sc, "total": t.(int)})
	}
	_, hasDL := ctx.Deadline()
	// who exports: a ForceFlush's export helper carries the caller's ctx, the worker's ctx has no value
	who := "w"
	if pi, ok := ctx.Value(procKey{}).(procInfo); ok && pi.sc == e.sc {
		who = pi.name
	}
	e.tw.Emit(map[string]any{"ev": "ExportBegin", "sc": e.sc, "ids": ids, "deadline": hasDL, "who": who})
	k := int(atomic.AddInt64(&e.exports, 1))
	e.sched.Arrive("x@exp.begin")
	answer := "ok"
	var nap time.Duration
	if k <= len(e.outcomes) {
		answer = e.outcomes[k-1]
	} else if e.mode == "mixed" {
		e.mu.Lock()
		r := e.rng.Intn(8)
		nap = time.Duration(e.rng.Intn(1500)) * time.Microsecond
		e.mu.Unlock()
		switch r {
		case 0, 1:
			answer = "sleep"
		case 2:
			answer = "error"
		case 3:
			if e.canWait {
				answer = "timeout"
			}
		}
	}
	var err error
	switch answer {
	case "sleep":
		time.Sleep(nap)
	case "error":
		err = errors.New("export failed")
		atomic.AddInt64(&e.failed, 1)
	case "timeout":
		// an exporter that gives up only when its ctx is done (export timeout / caller's ctx); the cap
		// keeps a scenario whose ctx never becomes done from hanging (the answer is then an error)
		if ctx.Done() != nil {
			select {
			case <-ctx.Done():
				err = ctx.Err()
			case <-time.After(400 * time.Millisecond):
				err = errors.New("export failed")
			}
		} else {
			err = errors.New("export failed")
		}
		atomic.AddInt64(&e.timedOut, 1)
	default: // "overrun/<holdMs>/<answer>": still inside after its ctx is done (overrun.go)
		err = e.overrun(ctx, answer)
	}
	e.sched.Arrive("x@exp.end") // second gate of the exporter (directed schedules only): hold a begun export
	e.overrunHold(answer)       // (overrun.go) released, an overrunning exporter stays inside for its hold time
	e.tw.Emit(map[string]any{"ev": "ExportEnd", "sc": e.sc, "err": errClass(err), "who": who})
	return err
}

func (e *recExporter) Shutdown(context.Context) error {
	e.tw.Emit(map[string]any{"ev": "ExporterShutdown", "sc": e.sc})
	e.shutOnce.Do(func() { close(e.shut) })
	return nil
}

// hctx is the ctx handed to ForceFlush / Shutdown. Once it is done, Done() dawdles: the context is a
// user-supplied component, so this is a natural gate in front of every `select` on ctx.Done() -- it
// lets a goroutine the SDK started just before such a select (ForceFlush's export helper) go first.
type hctx struct {
	context.Context
	slow time.Duration
}

func (c hctx) Done() <-chan struct{} {
	if c.slow > 0 && c.Context.Err() != nil {
		time.Sleep(c.slow)
	}
	return c.Context.Done()
}

type callCtx struct {
	ctx    context.Context
	kind   string // as logged: "bg" | "cancel" | "deadline"
	expire func() // logs CtxDone, then cancels (nil for Background)
}

// leaked: some earlier scenario of this process ended with goroutines still running. Their hook calls
// that carry no span / ctx (bsp.drain.empty) cannot be told from the current scenario's: scenarios
// recorded afterwards are not used for the implementation-level validation (Cfg.clean = false).
var leaked bool

// runScenario executes sc on the real code. pts: also record one Pt line per verif point passed.
func runScenario(scn int, sc Scenario, pts bool, tw *vh.TraceWriter, res *vh.Result) {
	rng := rand.New(rand.NewSource(sc.Seed))
	sched := vh.NewSched(sc.Script, sc.Seed+7)
	sched.Perturb = sc.Perturb
	sched.Timeout = 100 * time.Millisecond
	ids := map[trace.SpanID]int{}
	owner := map[int]string{} // span id -> "p<i>:<k>"
	exp := &recExporter{tw: tw, sc: scn, ids: ids, sched: sched, mode: sc.ExpMode, outcomes: sc.Outcomes,
		canWait: sc.ExportTOms > 0 && sc.ExportTOms <= 50, rng: rand.New(rand.NewSource(sc.Seed + 1)), shut: make(chan struct{})}

	opts := []sdktrace.BatchSpanProcessorOption{
		sdktrace.WithMaxQueueSize(sc.QCap), sdktrace.WithMaxExportBatchSize(sc.MaxBatch),
		sdktrace.WithExportTimeout(time.Duration(sc.ExportTOms) * time.Millisecond),
	}
	if sc.BatchTimeout > 0 {
		opts = append(opts, sdktrace.WithBatchTimeout(time.Duration(sc.BatchTimeout)*time.Microsecond))
	} else {
		opts = append(opts, sdktrace.WithBatchTimeout(time.Hour))
	}
	if sc.Blocking {
		opts = append(opts, sdktrace.WithBlocking())
	}
	kind := sc.Kind
	if kind == "" {
		kind = "batch"
	}
	maxbatch := sc.MaxBatch
	if kind == "simple" {
		maxbatch = 1
	}
	// the processes of the scenario as BSP.tla names them: every ForceFlush call is a flusher of its own
	fnames, snames, expiring := []string{}, []string{}, []string{}
	for f := 1; f <= sc.Flushers; f++ {
		for j := 1; j <= sc.FlushesPer; j++ {
			if sc.FlushesPer > 1 {
				fnames = append(fnames, fmt.Sprintf("f%d.%d", f, j))
			} else {
				fnames = append(fnames, fmt.Sprintf("f%d", f))
			}
		}
	}
	for s := 1; s <= sc.Stoppers; s++ {
		snames = append(snames, fmt.Sprintf("s%d", s))
	}
	for _, c := range append(append([]string{}, fnames...), snames...) {
		if sc.Ctx[c] != "" && kind != "simple" {
			expiring = append(expiring, c)
		}
	}
	tw.Emit(map[string]any{"ev": "Cfg", "sc": scn, "qcap": sc.QCap, "maxbatch": maxbatch, "blocking": sc.Blocking,
		"exportTimeout": sc.ExportTOms > 0, "name": sc.Name, "kind": kind,
		"producers": sc.Producers, "spansPer": sc.SpansPer, "flushers": fnames, "stoppers": snames, "expiring": expiring,
		"pts": pts, "clean": !leaked})
	pt := func(proc, point string, id int, by string) {
		if pts {
			tw.Emit(map[string]any{"ev": "Pt", "sc": scn, "proc": proc, "point": point, "id": id, "by": by})
		}
	}

	var bsp sdktrace.SpanProcessor
	if kind == "simple" {
		bsp = sdktrace.NewSimpleSpanProcessor(exp)
	} else {
		bsp = sdktrace.NewBatchSpanProcessor(exp, opts...)
	}
	tp := sdktrace.NewTracerProvider(sdktrace.WithSpanProcessor(bsp), sdktrace.WithSampler(sdktrace.AlwaysSample()))
	tracer := tp.Tracer("c01")

	// pre-create the spans so that ids are known to the hook before any End
	spans := make([][]trace.Span, sc.Producers)
	next := 1
	for p := 0; p < sc.Producers; p++ {
		for k := 0; k < sc.SpansPer; k++ {
			pctx := context.Background()
			if sc.ParentFlags != 0 && next%2 == 1 {
				pctx = trace.ContextWithRemoteSpanContext(pctx, trace.NewSpanContext(trace.SpanContextConfig{
					TraceID: trace.TraceID{0xab, byte(next), 1}, SpanID: trace.SpanID{0xcd, byte(next), 1},
					TraceFlags: trace.TraceFlags(sc.ParentFlags), Remote: true}))
			}
			_, s := tracer.Start(pctx, "s")
			if f := s.SpanContext().TraceFlags(); f != trace.FlagsSampled {
				res.Count("spans_with_extra_trace_flags", 1)
			}
			ids[s.SpanContext().SpanID()] = next
			owner[next] = fmt.Sprintf("p%d:%d", p+1, k+1)
			next++
			spans[p] = append(spans[p], s)
		}
	}

	sdktrace.SetVerifHook(func(point string, args ...any) {
		switch point {
		case "bsp.onend.ignored", "bsp.onend.checked", "bsp.enq.sent", "bsp.enq.dropped", "bsp.enq.stopped",
			"bsp.worker.dequeued", "bsp.worker.appended", "bsp.drain.dequeued":
			ro, ok := args[0].(sdktrace.ReadOnlySpan)
			if !ok {
				return
			}
			id, known := ids[ro.SpanContext().SpanID()]
			if !known {
				return // flush marker or a span of another scenario
			}
			if point == "bsp.worker.dequeued" || point == "bsp.worker.appended" || point == "bsp.drain.dequeued" {
				pt("w", point, id, "")
			} else {
				pt(owner[id][:strings.Index(owner[id], ":")], point, id, "")
			}
			switch point {
			case "bsp.enq.dropped":
				total := 0
				if len(args) > 1 {
					if t, ok := args[1].(uint32); ok {
						total = int(t)
					}
				}
				tw.Emit(map[string]any{"ev": "Dropped", "sc": scn, "id": id, "total": total})
			case "bsp.onend.ignored":
				tw.Emit(map[string]any{"ev": "Ignored", "sc": scn, "id": id})
			case "bsp.enq.stopped":
				tw.Emit(map[string]any{"ev": "Abandoned", "sc": scn, "id": id})
				res.Count("abandoned", 1)
			}
			if point == "bsp.worker.dequeued" || point == "bsp.worker.appended" || point == "bsp.drain.dequeued" {
				sched.Arrive("w@" + point + ":" + owner[id])
			} else {
				sched.Arrive(owner[id] + "@" + point)
			}
		case "bsp.drain.empty":
			pt("w", point, 0, "")
			sched.Arrive("w@" + point)
		default: // ForceFlush / Shutdown points carry the caller's ctx
			if len(args) == 0 {
				return
			}
			ctx, ok := args[0].(context.Context)
			if !ok {
				return
			}
			pi, _ := ctx.Value(procKey{}).(procInfo)
			if pi.name == "" || pi.sc != scn {
				return
			}
			proc := pi.name
			if point == "bsp.sd.closed" {
				// passed by the helper goroutine of the Shutdown body ("hs"), which carries the ctx of the
				// Shutdown call that ran the body
				pt("hs", point, 0, proc)
			} else {
				pt(proc, point, 0, "")
			}
			switch point {
			case "bsp.ff.stopped", "bsp.ff.stopch":
				tw.Emit(map[string]any{"ev": "FFEarly", "sc": scn, "proc": proc})
			case "bsp.ff.marker":
				tw.Emit(map[string]any{"ev": "FFMarker", "sc": scn, "proc": proc})
			}
			sched.Arrive(proc + "@" + point)
		}
	})
	defer sdktrace.SetVerifHook(nil)

	var wg sync.WaitGroup
	var live sync.Map
	start := func(name string, f func()) {
		wg.Add(1)
		live.Store(name, true)
		go func() {
			defer wg.Done()
			defer live.Delete(name)
			f()
		}()
	}
	jitter := func(r *rand.Rand, maxUs int) {
		if sc.Script == nil && maxUs > 0 {
			if d := r.Intn(maxUs); d > 0 {
				time.Sleep(time.Duration(d) * time.Microsecond)
			}
		}
	}
	// caller contexts and the environment goroutines that make them done
	var cancels []context.CancelFunc
	defer func() {
		for _, c := range cancels {
			c()
		}
	}()
	mkCtx := func(proc string) callCtx {
		base := context.WithValue(context.Background(), procKey{}, procInfo{proc, scn})
		k := sc.Ctx[proc]
		if k == "" || kind == "simple" {
			return callCtx{ctx: base, kind: "bg"}
		}
		var c context.Context
		var cancel context.CancelFunc
		logged := "cancel"
		if k == "deadline" {
			c, cancel = context.WithDeadline(base, time.Now().Add(time.Hour))
			logged = "deadline"
		} else {
			c, cancel = context.WithCancel(base)
		}
		cancels = append(cancels, cancel)
		var once sync.Once
		expire := func() {
			once.Do(func() {
				tw.Emit(map[string]any{"ev": "CtxDone", "sc": scn, "proc": proc}) // logged BEFORE the ctx is done
				res.Count("ctx_expired", 1)
				cancel()
			})
		}
		return callCtx{ctx: hctx{c, time.Duration(sc.SlowDoneUs) * time.Microsecond}, kind: logged, expire: expire}
	}
	// scripted expiry: entry "<proc>@ctx.expire/<gate>" = cancel once <proc> is parked at <gate> and it is
	// this entry's turn; random mode: cancel CtxAfterUs after the call
	armExpiry := func(proc string, cc callCtx, atCall bool) {
		if cc.expire == nil {
			return
		}
		if sc.Ctx[proc] == "cancelled" {
			if !atCall {
				cc.expire()
			}
			return
		}
		if sc.Script != nil {
			if atCall {
				return
			}
			for i, e := range sc.Script {
				if strings.HasPrefix(e, proc+"@ctx.expire/") {
					i, e := i, e
					gate := e[len(proc+"@ctx.expire/"):]
					start("ctx-"+proc, func() {
						// an environment step has no goroutine that "arrives" by itself: wait for the entry's
						// turn (never forcing the script forward), then for <proc> to be parked at <gate>
						for t0 := time.Now(); sched.Pos() < i && time.Since(t0) < 3*time.Second; {
							time.Sleep(20 * time.Microsecond)
						}
						for t0 := time.Now(); gate != "" && !sched.Arrived(gate) && time.Since(t0) < 150*time.Millisecond; {
							time.Sleep(20 * time.Microsecond)
						}
						sched.Arrive(e)
						cc.expire()
					})
					return
				}
			}
			return
		}
		if us, ok := sc.CtxAfterUs[proc]; ok && atCall {
			start("ctx-"+proc, func() {
				time.Sleep(time.Duration(us) * time.Microsecond)
				cc.expire()
			})
		}
	}

	for p := 0; p < sc.Producers; p++ {
		p := p
		r := rand.New(rand.NewSource(rng.Int63()))
		start(fmt.Sprintf("p%d", p+1), func() {
			for k, s := range spans[p] {
				key := fmt.Sprintf("p%d:%d", p+1, k+1)
				id := ids[s.SpanContext().SpanID()]
				jitter(r, 300)
				sched.Arrive(key + "@call")
				tw.Emit(map[string]any{"ev": "Call", "sc": scn, "op": "End", "id": id})
				s.End()
				tw.Emit(map[string]any{"ev": "Ret", "sc": scn, "op": "End", "id": id})
				sched.Arrive(key + "@ret")
			}
		})
	}
	for f := 0; f < sc.Flushers; f++ {
		name := fmt.Sprintf("f%d", f+1)
		r := rand.New(rand.NewSource(rng.Int63()))
		ccs := make([]callCtx, sc.FlushesPer)
		procs := make([]string, sc.FlushesPer)
		for j := range ccs {
			procs[j] = name
			if sc.FlushesPer > 1 {
				procs[j] = fmt.Sprintf("%s.%d", name, j+1)
			}
			ccs[j] = mkCtx(procs[j])
			armExpiry(procs[j], ccs[j], false)
		}
		start(name, func() {
			for j := 0; j < sc.FlushesPer; j++ {
				proc, cc := procs[j], ccs[j]
				jitter(r, 1500)
				sched.Arrive(proc + "@call")
				tw.Emit(map[string]any{"ev": "Call", "sc": scn, "op": "FF", "proc": proc, "ctx": cc.kind})
				armExpiry(proc, cc, true)
				err := bsp.ForceFlush(cc.ctx)
				tw.Emit(map[string]any{"ev": "Ret", "sc": scn, "op": "FF", "proc": proc, "err": errClass(err)})
				if err != nil {
					res.Count("ff_ret_"+strings.SplitN(errClass(err), ":", 2)[0], 1)
				}
				sched.Arrive(proc + "@ret")
			}
		})
	}
	for s := 0; s < sc.Stoppers; s++ {
		name := fmt.Sprintf("s%d", s+1)
		r := rand.New(rand.NewSource(rng.Int63()))
		cc := mkCtx(name)
		armExpiry(name, cc, false)
		start(name, func() {
			jitter(r, 2500)
			sched.Arrive(name + "@call")
			tw.Emit(map[string]any{"ev": "Call", "sc": scn, "op": "SD", "proc": name, "ctx": cc.kind})
			armExpiry(name, cc, true)
			err := bsp.Shutdown(cc.ctx)
			tw.Emit(map[string]any{"ev": "Ret", "sc": scn, "op": "SD", "proc": name, "err": errClass(err)})
			if err != nil {
				res.Count("sd_ret_"+strings.SplitN(errClass(err), ":", 2)[0], 1)
			}
			sched.Arrive(name + "@ret")
		})
	}
	done := make(chan struct{})
	go func() {
		wg.Wait()
		// a Shutdown whose ctx expired leaves the drain running: the scenario is over when the
		// exporter has been shut down (the last thing the drain's goroutine does)
		if sc.Stoppers > 0 {
			<-exp.shut
		}
		close(done)
	}()
	grace := 1500 * time.Millisecond
	if sc.Script != nil {
		grace = 4 * time.Second // gate waits add up
	}
	blocked := []string{}
	select {
	case <-done:
	case <-time.After(grace):
		live.Range(func(k, _ any) bool { blocked = append(blocked, k.(string)); return true })
		if len(blocked) == 0 {
			blocked = append(blocked, "drain")
		}
		res.Count("scenarios_with_blocked_goroutines", 1)
	}
	followed, desync, remaining := sched.Stats()
	res.Count("script_steps_followed", int64(followed))
	res.Count("script_steps_desync", int64(desync+remaining))
	if sc.Script != nil && sc.Name != "" {
		res.Count("followed:"+sc.Name, int64(followed))
		res.Count("desync:"+sc.Name, int64(desync+remaining))
	}
	for _, k := range sched.Skipped {
		if i := strings.Index(k, "@"); i >= 0 {
			res.Count("desync@"+strings.SplitN(strings.SplitN(k[i+1:], ":", 2)[0], "/", 2)[0], 1)
		}
	}
	res.Count("exports", atomic.LoadInt64(&exp.exports))
	res.Count("exports_failed", atomic.LoadInt64(&exp.failed))
	res.Count("exports_timed_out", atomic.LoadInt64(&exp.timedOut))
	// quiescent only if everybody returned; a late export by a leaked goroutine would otherwise be misjudged
	tw.Emit(map[string]any{"ev": "EndScenario", "sc": scn, "quiescent": len(blocked) == 0, "blocked": blocked})
	if len(blocked) > 0 {
		leaked = true
		// let leaked goroutines not pollute the next scenario's hook; they only ever block on channels
		time.Sleep(2 * time.Millisecond)
	}
}

func randomScenario(r *rand.Rand) Scenario {
	pick := func(xs ...int) int { return xs[r.Intn(len(xs))] }
	sc := Scenario{
		Producers: 1 + r.Intn(4), SpansPer: 1 + r.Intn(6), QCap: pick(1, 2, 3, 8, 64), MaxBatch: pick(1, 2, 3, 8),
		Blocking: r.Intn(10) < 3, Flushers: r.Intn(3), FlushesPer: 1 + r.Intn(2), Stoppers: 1 + r.Intn(2),
		BatchTimeout: pick(0, 0, 200, 1000, 5000), ExportTOms: pick(0, 3, 30, 30000), ExpMode: "ok",
		Perturb: []float64{0, 0.2, 0.6}[r.Intn(3)], Seed: r.Int63(),
		Ctx: map[string]string{}, CtxAfterUs: map[string]int{}, SlowDoneUs: pick(0, 0, 0, 300),
		ParentFlags: pick(0, 0, 0, 1, 2, 3),
	}
	if r.Intn(2) == 0 {
		sc.ExpMode = "mixed"
	}
	if r.Intn(6) == 0 {
		sc.Kind = "simple"
	}
	// caller contexts: two scenarios in five have callers whose ctx is or becomes done
	if r.Intn(5) < 2 {
		ctxFor := func(proc string, maxUs int) {
			switch r.Intn(10) {
			case 0:
				sc.Ctx[proc] = "cancelled"
			case 1, 2, 3:
				sc.Ctx[proc] = "cancel"
				sc.CtxAfterUs[proc] = r.Intn(maxUs)
			case 4:
				sc.Ctx[proc] = "deadline"
				if r.Intn(2) == 0 {
					sc.CtxAfterUs[proc] = r.Intn(maxUs)
				}
			}
		}
		for f := 1; f <= sc.Flushers; f++ {
			for j := 1; j <= sc.FlushesPer; j++ {
				if sc.FlushesPer > 1 {
					ctxFor(fmt.Sprintf("f%d.%d", f, j), 1500)
				} else {
					ctxFor(fmt.Sprintf("f%d", f), 1500)
				}
			}
		}
		for s := 1; s <= sc.Stoppers; s++ {
			ctxFor(fmt.Sprintf("s%d", s), 2500)
		}
	}
	return sc
}

func main() {
	if len(os.Args) < 2 {
		fmt.Println("usage: c01 random|scripts ...")
		os.Exit(3)
	}
	fs := flag.NewFlagSet(os.Args[1], flag.ExitOnError)
	n := fs.Int("n", 200, "")
	npt := fs.Int("pt", 0, "random: the first M scenarios also record Pt lines")
	in := fs.String("in", "", "")
	out := fs.String("out", "trace.ndjson", "")
	resF := fs.String("res", "result.json", "")
	fs.Parse(os.Args[2:])
	tw, err := vh.NewTraceWriter(*out)
	vh.Must(err)
	res := vh.NewResult()
	otel.SetErrorHandler(otel.ErrorHandlerFunc(func(error) {})) // exporter errors are scripted, not news
	otel.SetLogger(logr.New(logSink{}))
	switch os.Args[1] {
	case "random":
		r := rand.New(rand.NewSource(vh.Seed()))
		for i := 0; i < *n; i++ {
			sc := randomScenario(r)
			runScenario(i, sc, i < *npt, tw, res)
			res.Executed++
			if len(sc.Ctx) > 0 {
				res.Count("scenarios_with_caller_ctx", 1)
			}
			if i < 2 {
				res.Sample(sc)
			}
		}
	case "scripts":
		b, err := os.ReadFile(*in)
		vh.Must(err)
		var scs []Scenario
		vh.Must(json.Unmarshal(b, &scs))
		for i, sc := range scs {
			if sc.Seed == 0 {
				sc.Seed = vh.Seed() + int64(i)
			}
			runScenario(i, sc, true, tw, res)
			res.Executed++
			if i < 2 {
				res.Sample(sc)
			}
		}
	default:
		os.Exit(3)
	}
	res.Evaluations = res.Executed
	vh.Must(tw.Close())
	res.Count("trace_lines", tw.N)
	vh.Must(res.Write(*resF))
}
